"""C02 — numeric literals and exact renderings round-trip in every base and style."""
import time
from fractions import Fraction as F
from math import gcd
from vlib import core, fmtcases as fc

MODULE = "FendModel.Props.C02"
REL = "FendModel/Props/C02.lean"
STYLES = ["float", "exact", "fraction", "mixed", "auto"]
API_STYLE = {"float": "float", "exact": "exact", "fraction": "fraction", "mixed": "mixed_fraction", "auto": "auto"}

def hx(s):
    return "".join("%02x" % b for b in s.encode())

def render_cases(ctx, quick):
    r = ctx.rng
    cases = []          # (style, base, kind, comma, neg, p, q)
    qmax = 16 if quick else 64
    fracs = [(p, q) for q in range(1, qmax + 1) for p in range(0, 2 * q + 2) if gcd(p, q) == 1]
    bases = list(range(2, 37))
    if quick:
        for (p, q) in fracs:
            for b in r.sample(bases, 6) + [10]:
                st = r.choice(STYLES)
                cases.append((st, b, r.choice(["plain", "custom"]), r.random() < 0.3, r.random() < 0.3, p, q))
    else:
        for (p, q) in fracs:
            for b in bases:
                for st in STYLES:
                    cases.append((st, b, "plain" if (p + q + b) % 2 else "custom", (p + b) % 3 == 0, (p + q) % 4 == 0, p, q))
    # large numerators, denominators with long recurring periods, many-limb values
    longq = [97, 113, 131, 149, 167, 179, 181, 193, 223, 229, 233, 257, 263, 269, 313, 337, 367, 379, 383, 389, 419, 433, 461, 487, 491, 499, 7 * 97, 3 ** 5, 2 ** 70, 10 ** 25, 6 ** 20, 2 ** 64 + 1, 2 ** 64 - 1, 10 ** 19]
    for _ in range(300 if quick else 6000):
        q = r.choice(longq) if r.random() < 0.7 else r.randint(2, 600)
        p = r.choice([r.randint(0, 10 ** 60), r.randint(0, 10 ** 6), 2 ** 64, 2 ** 64 - 1, 2 ** 128 + 1, r.randint(0, 2 * q)])
        g = gcd(p, q); p //= g; q //= g
        b = r.choice(bases)
        if q > 10 ** 6 and not fc.terminates(q, b):
            st = r.choice(["fraction", "mixed", "exact"])      # a recurring expansion of a huge denominator is astronomically long
        else:
            st = r.choice(STYLES)
        cases.append((st, b, r.choice(["plain", "custom"]), r.random() < 0.5, r.random() < 0.4, p, q))
    return cases

def run_render(ctx, h, quick):
    t0 = time.time()
    cases = render_cases(ctx, quick)
    hl = [f"{st} {b} {1 if kind == 'custom' else 0} {1 if comma else 0} {fc.raw(p, q, neg, ctx.rng)}" for (st, b, kind, comma, neg, p, q) in cases]
    ml = [f"{st} {b} {kind} {'comma' if comma else 'dot'} {'-' if neg else '+'} {p} {q}" for (st, b, kind, comma, neg, p, q) in cases]
    impl = ctx.run_lines_robust(h, ["ratfmt"], hl)
    model = ctx.run_lines(core.DRIVER, ["ratfmt"], ml, timeout=2400)[1]
    model += ["<missing>"] * (len(ml) - len(model))
    dist = {}
    for c, line, a, m in zip(cases, hl, impl, model):
        st, b, kind, comma, neg, p, q = c
        sep = "," if comma else "."
        want = fc.canonical(st, p, q, neg, b, sep, kind)
        key = st + (":recurring" if want and "(" in want else ":approx" if want is None else "")
        dist[key] = dist.get(key, 0) + 1
        if a != m:
            ctx.model_disagreements.append({"stream": "render", "input": line, "impl": a, "model": m})
        if want is None:
            continue            # auto style on a non-terminating value: an approximation, C03's business
        if not a.startswith("ok ") or not a.endswith(" exact"):
            ctx.spec_failures.append({"stream": "render", "input": line, "impl": a, "model": m, "spec": f"an exact rendering ({want}) exists and must be produced, marked exact"}); continue
        text = a[3:-6]
        if text != want:
            ctx.spec_failures.append({"stream": "render", "input": line, "impl": a, "model": m, "spec": f"digit for digit the canonical expansion: {want}"}); continue
        try:
            back = fc.read_text(text, b, sep, kind)
        except Exception as e:
            back = None
        if back != (-1 if neg else 1) * F(p, q):
            ctx.spec_failures.append({"stream": "render", "input": line, "impl": a, "model": m, "spec": f"read back, the text denotes {back}, not {'-' if neg else ''}{p}/{q}"})
    ctx.record_stream("render", "BigRat::format through the hooks on raw values: every p/q with q<=%d (p<=2q+1) x bases 2..36 x {float, exact, fraction, mixed, auto} x {plain, n# prefix} x {dot, comma} x sign, "
                      "plus huge numerators, many-limb values and denominators with long recurring periods; text and exact flag vs the Lean renderer, vs an independent python long division "
                      "(canonical expansion, digit for digit) and an independent python reader (value denoted)" % (16 if quick else 64),
                      len(cases), len(set(hl)), dist, hl[:3], time.time() - t0)

def with_prefix(text, base):
    """restore the base prefix on every number of a plain-base result"""
    out, i = "", 0
    tokch = set(fc.DIG + ".,()")
    while i < len(text):
        if text[i] in tokch:
            j = i
            while j < len(text) and text[j] in tokch:
                j += 1
            out += f"{base}#" + text[i:j]
            i = j
        else:
            out += text[i]; i += 1
    return out

def run_api(ctx, h, quick):
    """observe_at: plain result of `X to base B to style`, and of evaluating that text again with the prefix restored"""
    t0 = time.time()
    r = ctx.rng
    cases = []
    for _ in range(1500 if quick else 40000):
        q = r.choice([1, 2, 3, 4, 5, 6, 7, 8, 9, 11, 12, 13, 16, 27, 37, 64, 97, 360, 1024]) if r.random() < 0.7 else r.randint(1, 400)
        p = r.randint(0, 5 * q) if r.random() < 0.7 else r.randint(0, 10 ** 30)
        g = gcd(p, q); p //= g; q //= g
        cases.append((r.choice(STYLES), r.randint(2, 36), r.random() < 0.4, r.random() < 0.3, p, q))
    first = [f"{'comma' if comma else 'dot'} ({'-' if neg else ''}{p}/{q}) to base {b} to {API_STYLE[st]}" for (st, b, comma, neg, p, q) in cases]
    o1 = ctx.run_lines_robust(h, ["evalsep"], first, env={"HARNESS_LINE_TIMEOUT_S": "20"})
    second, idx = [], []
    dist = {"approx_first": 0, "readback": 0}
    for i, (c, o) in enumerate(zip(cases, o1)):
        st, b, comma, neg, p, q = c
        sep = "," if comma else "."
        want = fc.canonical(st, p, q, neg, b, sep)
        if want is None:
            dist["approx_first"] += 1; continue
        if o != "ok " + want:
            ctx.spec_failures.append({"stream": "api", "input": first[i], "impl": o, "model": want, "spec": "digit for digit the canonical expansion in that base and style"}); continue
        second.append(f"{'comma' if comma else 'dot'} @noapprox ({with_prefix(want, b)}) to base 10 to fraction"); idx.append(i)
        # switching the separator style only swaps '.' and ','
        second.append(f"{'dot' if comma else 'comma'} ({'-' if neg else ''}{p}/{q}) to base {b} to {API_STYLE[st]}"); idx.append(-i - 1)
    o2 = ctx.run_lines_robust(h, ["evalsep"], second, env={"HARNESS_LINE_TIMEOUT_S": "20"})
    for line, i, o in zip(second, idx, o2):
        if i >= 0:
            st, b, comma, neg, p, q = cases[i]
            dist["readback"] += 1
            v = (-1 if neg else 1) * F(p, q)
            want = f"ok {v.numerator}/{v.denominator}" if v.denominator != 1 else f"ok {v.numerator}"
            if o != want:
                ctx.spec_failures.append({"stream": "api", "input": line, "impl": o, "model": want, "spec": "read back as input (base prefix restored) the rendering yields the same value"})
        else:
            st, b, comma, neg, p, q = cases[-i - 1]
            a = o1[-i - 1]
            swapped = a.translate(str.maketrans(".,", ",."))
            if o != swapped:
                ctx.spec_failures.append({"stream": "api", "input": line, "impl": o, "model": swapped, "spec": "switching the separator style only swaps '.' and ','"})
    ctx.record_stream("api", "`(p/q) to base B to float|exact|fraction|mixed_fraction|auto` through fend_core under both separator styles; the text vs the canonical expansion, "
                      "the text read back with the base prefix restored (`... to base 10 to fraction`), and the same request under the other separator style",
                      len(first) + len(second), len(set(first)), dist, first[:3], time.time() - t0)

# ---------------------------------------------------------------- literals
def gen_literal(r):
    """a literal from the documented grammar with its denotation; returns (text, Fraction, comma)"""
    comma = r.random() < 0.3
    sep, th = (",", ".") if comma else (".", ",")
    kind = r.random()
    if kind < 0.25:
        base, pre = 10, ""
    elif kind < 0.45:
        base = r.choice([2, 8, 16]); pre = {2: "0b", 8: "0o", 16: "0x"}[base]
    else:
        base = r.randint(2, 36); pre = f"{base}#"
    def digs(n, first_nonletter=False):
        out = []
        for i in range(n):
            d = r.randrange(base)
            out.append(d)
        return out
    def show(ds, seps=True):
        s = ""
        for i, d in enumerate(ds):
            c = fc.DIG[d]
            if d >= 10 and r.random() < 0.3:
                c = c.upper()
            if i > 0 and seps and r.random() < 0.15:
                s += r.choice(["_", th])
            s += c
        return s
    def val(ds):
        v = 0
        for d in ds:
            v = v * base + d
        return v
    ints = digs(r.choice([1, 1, 2, 3, 6, 25]))
    if base > 10 and pre == "" :
        pass
    text = pre + show(ints)
    v = F(val(ints))
    form = r.random()
    nfrac = 0
    if form < 0.55:
        fr = digs(r.choice([0, 1, 2, 5, 12])) if r.random() < 0.9 else []
        if fr or r.random() < 0.5:
            rec = digs(r.choice([1, 2, 3, 6])) if (r.random() < 0.45 or not fr) else []
            text += sep + show(fr) + (f"({show(rec)})" if rec else "")
            nfrac = len(fr)
            if fr:
                v += F(val(fr), base ** len(fr))
            if rec:
                v += F(val(rec), (base ** len(rec) - 1) * base ** nfrac)
    if base <= 10 and r.random() < 0.35:
        ed = digs(r.choice([1, 1, 2]))
        sg = r.choice(["", "+", "-"])
        e = val(ed)
        if e <= 40:
            text += r.choice(["e", "E"]) + sg + show(ed, seps=False)
            v = v / F(base) ** e if sg == "-" else v * F(base) ** e
    return text, v, comma

MALFORMED = ["1__0", "1_", "37#1", "1#0", "0#1", "0z1", "1.", "1.(3a)", "6#3e9", "1.(3", "0x", "0b2", "2#2", "36#zz.z(z)", "1e", "1e+", "1.e3", "1..2", "0.(0)", "1.0(0)", "0x1.8", "1,5", "1.5.5", "10#1e2", "9#1e2", "1e0", "00012", "0_1", "1_0.0_1"]

def classify(o):
    if o.startswith("ok "): return "ok"
    for k, v in (("digit separators can only occur between digits", "sepBetweenDigits"), ("digit separators are not allowed", "sepNotAllowed"), ("expected a digit", "expectedDigit"),
                 ("expected a character", "expectedChar"), ("expected '", "expectedChar"), ("base too large", "baseTooLarge"), ("base too small", "baseTooSmall"), ("unable to parse a valid base prefix", "invalidBasePrefix")):
        if k in o: return v
    return "other"

def run_literals(ctx, h, quick):
    t0 = time.time()
    r = ctx.rng
    lits = [gen_literal(r) for _ in range(4000 if quick else 100000)]
    lits += [(m, None, False) for m in MALFORMED] + [(m, None, True) for m in MALFORMED]
    hl = [f"{'comma' if c else 'dot'} @noapprox ({t}) to base 10 to fraction" for (t, v, c) in lits]
    ml = [f"{'comma' if c else 'dot'} {hx(t + ')')}" for (t, v, c) in lits]      # the literal is followed by `)` in the request
    impl = ctx.run_lines_robust(h, ["evalsep"], hl, env={"HARNESS_LINE_TIMEOUT_S": "20"})
    model = ctx.run_lines(core.DRIVER, ["numlit"], ml, timeout=900)[1]
    model += ["<missing>"] * (len(ml) - len(model))
    dist = {"grammar": 0, "malformed": 0, "model_rest_nonempty": 0, "forms": {}}
    for (t, v, c), line, a, m in zip(lits, hl, impl, model):
        if v is not None:
            dist["grammar"] += 1
            f = ("prefix0" if t[:2] in ("0b", "0o", "0x") else "prefix#" if "#" in t else "plain") + ("+frac" if ("," if c else ".") in t else "") + ("+rec" if "(" in t else "") + ("+exp" if ("#" not in t and t[:2] != "0x" and ("e" in t.lower())) else "")
            dist["forms"][f] = dist["forms"].get(f, 0) + 1
            want = f"ok {v.numerator}/{v.denominator}" if v.denominator != 1 else f"ok {v.numerator}"
            if a != want:
                ctx.spec_failures.append({"stream": "literals", "input": line, "impl": a, "model": m, "spec": f"the literal denotes exactly {v} by positional notation"})
            mv = m.split(" ")
            if not (len(mv) >= 2 and mv[0] == "ok" and F(mv[1]) == v and mv[-1] == "rest=29"):
                ctx.model_disagreements.append({"stream": "literals", "input": line, "impl": a, "model": m})
        else:
            dist["malformed"] += 1
            mv = m.split(" ")
            if mv[0] == "ok" and mv[-1] != "rest=29":
                dist["model_rest_nonempty"] += 1      # the literal ends early; what follows is the parser's business
                continue
            if mv[0] == "ok":
                q = F(mv[1])
                want = f"ok {q.numerator}/{q.denominator}" if q.denominator != 1 else f"ok {q.numerator}"
                if a != want:
                    ctx.model_disagreements.append({"stream": "literals", "input": line, "impl": a, "model": m})
            elif mv[0] == "err":
                if classify(a) != mv[1]:
                    ctx.model_disagreements.append({"stream": "literals", "input": line, "impl": a, "model": m})
    ctx.record_stream("literals", "literals generated from the documented grammar (digit separators `_` and the style's thousands separator, 0b/0o/0x and n# prefixes for bases 2..36, upper/lower case digits, "
                      "decimal point, recurring digits in parentheses, e-notation with sign) under both separator styles, plus a malformed list; fend_core's value (`to base 10 to fraction`) vs the "
                      "denotation computed from the grammar tree vs the Lean scanner + litValue", len(hl), len(set(hl)), dist, hl[:3], time.time() - t0)

def run(ctx):
    quick = ctx.tier == "quick"
    h = ctx.harness()
    if h is None:
        ctx.proof_failures.append({"file": "harness", "decl": "harness build", "line": 0, "msg": getattr(ctx, "harness_error", "")})
        return ctx.finish()
    ctx.lean_build([MODULE])
    ctx.audit(MODULE, REL)
    if not quick:
        ctx.leanchecker(MODULE)
    run_render(ctx, h, quick)
    run_api(ctx, h, quick)
    run_literals(ctx, h, quick)
    return ctx.finish(rule="quick: q<=16 x 7 bases; thorough: every p/q with q<=64 x every base 2..36 x 5 styles; distinct = distinct request lines")

def replay(ctx, rep):
    print(rep["first"]); return 0
