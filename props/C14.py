"""C14 — loading variable bytes is memory-safe for arbitrary input."""
import time, struct
from vlib import core
from props import C12

MODULE = "FendModel.Props.C14"
REL = "FendModel/Props/C14.lean"

def valid_images(ctx, h, n):
    r = ctx.rng
    hist = ["v0 = 5", "v0 = 2^200 ;; v1 = \"abc\" ;; f0 = x: x + 1", "f0 = x: y: x + y ;; f1 = f0 2 ;; v0 = 3 kg to 2 dp ;; v1 = @2024-02-29 ;; v2 = d6 ;; v3 = sin",
            "v0 = earth ;; v1 = true ;; v2 = () ;; v3 = hex ;; f0 = fraction ;; f1 = 3 dp"] + [C12.gen_history(r).split(" || ")[0] for _ in range(n)]
    outs = ctx.run_lines_robust(h, ["serde"], hist, env={"HARNESS_LINE_TIMEOUT_S": "8"})
    imgs = []
    for o in outs:
        for p in o.split("\t"):
            if p.startswith("img="):
                imgs.append(bytes.fromhex(p[4:]))
    return imgs

def valid_images_of(ctx, h, hist):
    outs = ctx.run_lines_robust(h, ["serde"], hist, env={"HARNESS_LINE_TIMEOUT_S": "8"})
    return [bytes.fromhex(p[4:]) for o in outs for p in o.split("\t") if p.startswith("img=")]

def u64(n):
    return struct.pack(">Q", n)

def mutants(r, img, quick):
    out = []
    L = len(img)
    # every truncation point (sampled for long images)
    cuts = range(L) if L <= (110 if quick else 600) else sorted(set(r.randrange(L) for _ in range(110 if quick else 600)))
    for k in cuts:
        out.append(img[:k])
    # single-byte substitutions: all positions for short images, sampled otherwise
    pos = range(L) if L <= (40 if quick else 250) else sorted(set(r.randrange(L) for _ in range(40 if quick else 250)))
    for p in pos:
        for v in {0, 1, 2, 3, 6, 7, 13, 17, 0x7f, 0x80, 0xff, (img[p] + 1) & 255, (img[p] - 1) & 255}:
            if v != img[p]:
                out.append(img[:p] + bytes([v]) + img[p + 1:])
    # length fields (8-byte big-endian windows holding a small number) set to extreme values
    for p in range(0, L - 7):
        w = int.from_bytes(img[p:p + 8], "big")
        if w <= 64 and (p == 0 or img[p:p + 8] != b"\0" * 8 or r.random() < 0.2):
            for ext in (0, 1, w + 1, 2**31, 2**32, 2**63, 2**64 - 1, 10**6):
                if ext != w:
                    out.append(img[:p] + u64(ext) + img[p + 8:])
    # re-encodings of big-integer fields: a `Small` (tag 1 + 8 bytes) rewritten as `Large` with 1..3 limbs (the value, then zero limbs) — the
    # same number in a representation fend never writes itself — and every such field set to zero in each representation
    # (a denominator that is zero under ANY encoding is not a number)
    for p in range(0, L - 8):
        if img[p] == 1 and int.from_bytes(img[p + 1:p + 9], "big") < 2**40:
            v = img[p + 1:p + 9]
            for limbs in ([v], [v, b"\0" * 8], [v, b"\0" * 8, b"\0" * 8], [b"\0" * 8], [b"\0" * 8] * 2, []):
                out.append(img[:p] + bytes([2]) + u64(len(limbs)) + b"".join(limbs) + img[p + 9:])
            out.append(img[:p] + bytes([1]) + b"\0" * 8 + img[p + 9:])
    return out

def nesting(depth):
    """one variable `f` = Fn("x", Parens(Parens(... Ident x))) with no scope: `depth` nested tag bytes"""
    body = bytes([2]) * depth + bytes([1]) + u64(1) + b"x"
    return u64(1) + u64(1) + b"f" + bytes([6]) + u64(1) + b"x" + body + bytes([0])

def run(ctx):
    quick = ctx.tier == "quick"
    # Tie A: allocation sites inside deserializers, regenerated from the source
    import translator.alloc_sites as alloc_sites
    alloc_sites.generate()
    ctx.lean_build([MODULE])
    ctx.audit(MODULE, REL)
    if not quick:
        ctx.leanchecker(MODULE)
    h = ctx.harness()
    if h is None:
        ctx.proof_failures.append({"file": "harness", "decl": "harness build (verif-hooks)", "line": 0, "msg": getattr(ctx, "harness_error", "")})
        return ctx.finish()
    r = ctx.rng
    t0 = time.time()
    imgs = valid_images(ctx, h, 8 if quick else 60)
    cases = []
    for im in imgs:
        cases.append(im)
        cases += mutants(r, im, quick)
    # saved dates: every (year kind, month, day 28..31) combination the format can express, valid or not — a loaded context is then
    # stepped with + / - days, months (date arithmetic must not crash on what the loader let through)
    for im in valid_images_of(ctx, h, ["v0 = @2024-01-31"]):
        k = im.find(bytes([0, 0, 7, 0xe8, 1, 31]))
        if k >= 0:
            for year in (2024, 2023, 1900, 2000, 1, 2147483647):
                for month in range(1, 13):
                    for day in (1, 28, 29, 30, 31):
                        cases.append(im[:k] + struct.pack(">i", year) + bytes([month, day]) + im[k + 6:])
    for _ in range(500 if quick else 5000):
        cases.append(bytes(r.randrange(256) for _ in range(r.randint(0, 60))))
    for seed_len in (2**64 - 1, 2**63, 2**32, 2**31):
        cases.append(u64(seed_len)); cases.append(u64(1) + u64(seed_len)); cases.append(u64(1) + u64(1) + b"a" + bytes([8]) + u64(seed_len))
        cases.append(u64(1) + u64(1) + b"a" + bytes([0]) + u64(seed_len)); cases.append(u64(1) + u64(1) + b"a" + bytes([7]) + u64(seed_len))
    deep = {}
    for d in (10, 100, 1000, 10000, 100000):
        im = nesting(d)
        cases.append(im)
        deep[im] = f"nested-parens-image depth={d}"
    seen = set(); uniq = []
    for c in cases:
        if c not in seen:
            seen.add(c); uniq.append(c)
    lines = [c.hex() for c in uniq]
    impl = ctx.run_lines_robust(h, ["deser"], lines, env={"HARNESS_LINE_TIMEOUT_S": "6", "VERIF_MEM_LIMIT_GB": "4"}, workers=10)
    model = ctx.run_lines(core.DRIVER, ["serde"], lines, timeout=1500)[1]
    dist = {}
    resave, ridx = [], []
    for i, (c, a, b) in enumerate(zip(uniq, impl, model)):
        fields = a.split("\t")
        cls = fields[0]
        mcls = b if b.startswith("err") else "ok"
        key = cls.split(" ")[0] + ("/" + cls.split(" ")[1] if cls.startswith("err") and " " in cls else "")
        dist[key] = dist.get(key, 0) + 1
        line = lines[i]
        if cls.startswith("err timeout phase=2"):
            dist["use_timeout_inconclusive"] = dist.get("use_timeout_inconclusive", 0) + 1   # slow evaluation of a huge loaded value: not a crash
            continue
        if cls == "err abort" and c not in deep:
            # the process died.  If the same image survives when every evaluation of the use phase is cut after 60 polls of the interrupt, what
            # killed it is a recursion that polls on every level and never ends: a loaded function that reaches itself through a variable
            # (defect D25, unbounded evaluation depth) — a listed finding, reported under its own name; anything else stays a violation
            rr = ctx.run_lines_robust(h, ["deser"], [line], env={"HARNESS_LINE_TIMEOUT_S": "20", "VERIF_MEM_LIMIT_GB": "4", "HARNESS_USE_POLL_CAP": "60"})
            if rr and rr[0].startswith("ok\t"):
                dist["recursion_through_loaded_function"] = dist.get("recursion_through_loaded_function", 0) + 1
                ctx.spec_failures.append({"stream": "images", "input": "loaded function recursing through a variable (stack overflow, stopped by a poll cap)", "impl": a[:120] + " image=" + line[:400],
                                          "model": b[:60], "spec": "a context that loaded successfully can be evaluated against without crashing"})
                continue
        if cls.startswith("panic") or cls == "err abort" or cls.startswith("err timeout"):
            ctx.spec_failures.append({"stream": "images", "input": deep.get(c, line[:4000]), "impl": a[:300], "model": b[:60],
                                      "spec": "reading variables from any byte string returns success or an error; it never panics, aborts or hangs"})
            continue
        if (cls == "ok") != (mcls == "ok") or (cls.startswith("err") and cls != mcls):
            ctx.model_disagreements.append({"stream": "images", "input": line[:4000], "impl": cls, "model": b[:80]})
        kv = dict(f.split("=", 1) for f in fields[1:] if "=" in f)
        ma = int(kv.get("maxalloc", "0"))
        if ma > 64 * len(c) + 65536:
            ctx.spec_failures.append({"stream": "images", "input": line[:4000], "impl": f"largest single allocation {ma} bytes for a {len(c)}-byte input", "model": "",
                                      "spec": "no allocation out of proportion to the input (bound used: 64*len + 64 KiB)"})
        if cls == "ok":
            if kv.get("use") != "fine" or "resave" not in kv:
                ctx.spec_failures.append({"stream": "images", "input": line[:4000], "impl": a[:300], "model": "",
                                          "spec": "a context that loaded successfully can be evaluated against and saved again without crashing"})
            elif mcls == "ok":
                resave.append(kv["resave"]); ridx.append(i)
    m2 = ctx.run_lines(core.DRIVER, ["serde"], resave, timeout=900)[1] if resave else []
    same = 0
    for j, i in enumerate(ridx):
        if j < len(m2) and m2[j].startswith("ok") and model[i].startswith("ok") and m2[j].split(" ")[3] == model[i].split(" ")[3]:
            same += 1
        else:
            ctx.model_disagreements.append({"stream": "images", "input": lines[i][:4000], "impl": "table saved after loading differs from the table the model reads from the image",
                                            "model": model[i][:80]})
    dist["loaded_and_resaved_equal"] = same
    ctx.record_stream("images", "valid images from statement histories, then every truncation point, single-byte substitutions at every position of short images "
                      "(sampled in long ones), every big-integer field re-encoded (Small as Large with trailing zero limbs, zero in every representation), every small length field set to 0/1/2^31/2^32/2^63/2^64-1, random bytes, extreme-length skeletons, nesting ramps; "
                      "real Context::deserialize_variables under a counting allocator + 4 GiB address-space limit, then every loaded variable printed/applied/"
                      "converted and the context saved again; class (ok / DeserializationError / I/O error) and reloaded table vs the Lean model",
                      len(uniq), len(uniq), dist, [l[:120] for l in lines[:3]], time.time() - t0)
    return ctx.finish(rule="distinct byte strings; all count as non-trivial (each is a different damage of a valid image or an adversarial skeleton)")

def replay(ctx, rep):
    h = ctx.harness()
    f = rep["first"]
    line = f["input"]
    if line.startswith("nested-parens-image"):
        line = nesting(int(line.split("=")[1])).hex()
    print("image:", line[:200])
    print("impl :", ctx.run_lines_robust(h, ["deser"], [line])[0][:400])
    print("model:", ctx.run_lines(core.DRIVER, ["serde"], [line])[1][0][:200])
    return 0
