import FendModel.Model.StrLit

namespace Fend.StrLit

theorem go_escaped (term : Nat) (ht : term = 34 ∨ term = 39) (c : Nat) (rest acc : List Nat) (fuel : Nat) :
    go term (fuel + 1) ((if c = term ∨ c = 92 then [92, c] else [c]) ++ rest) false acc
      = go term fuel rest false (c :: acc) := by
  have h92 : (92 : Nat) ≠ term := by rcases ht with rfl | rfl <;> decide
  by_cases h : c = term ∨ c = 92
  · simp only [h, if_true, List.cons_append, List.nil_append]
    rw [go.eq_def]
    have hs : simple c = some c := by
      rcases h with rfl | rfl
      · rcases ht with rfl | rfl <;> decide
      · decide
    simp [h92, hs]
  · simp only [h, if_false, List.cons_append, List.nil_append]
    rw [go.eq_def]
    have h1 : c ≠ term := fun e => h (Or.inl e)
    have h2 : c ≠ 92 := fun e => h (Or.inr e)
    simp [h1, h2]

theorem go_canon (term : Nat) (ht : term = 34 ∨ term = 39) (s rest acc : List Nat) (fuel : Nat)
    (hf : s.length + 1 ≤ fuel) :
    go term fuel (escapeCanon term s ++ term :: rest) false acc = .ok (acc.reverse ++ s, rest) := by
  induction s generalizing fuel acc with
  | nil =>
    obtain ⟨f, rfl⟩ : ∃ f, fuel = f + 1 := ⟨fuel - 1, by simp at hf; omega⟩
    simp [escapeCanon, go]
  | cons c s ih =>
    obtain ⟨f, rfl⟩ : ∃ f, fuel = f + 1 := ⟨fuel - 1, by simp at hf; omega⟩
    have : escapeCanon term (c :: s) ++ term :: rest
        = (if c = term ∨ c = 92 then [92, c] else [c]) ++ (escapeCanon term s ++ term :: rest) := by
      simp [escapeCanon]
    rw [this, go_escaped term ht, ih _ _ (by simp at hf; omega)]
    simp

theorem escapeCanon_length (term : Nat) (s : List Nat) : s.length ≤ (escapeCanon term s).length := by
  induction s with
  | nil => simp [escapeCanon]
  | cons c s ih =>
    have : escapeCanon term (c :: s) = (if c = term ∨ c = 92 then [92, c] else [c]) ++ escapeCanon term s := by
      simp [escapeCanon]
    rw [this, List.length_append, List.length_cons]
    split <;> simp <;> omega

end Fend.StrLit
