/-
Model of unit conversion and of the dimension bookkeeping of `num/unit.rs`:
`to_hashmap_and_scale`, `reduce_hashmap` (the celsius / fahrenheit special cases), `compute_scale_factor`,
`Value::{convert_to, add, mul, div, pow}` — over exact rationals.  A compound unit is abstracted by what
those functions compute from it: its base-unit exponents and its scale.
-/
namespace Fend.Units

/-- base-unit exponents; base units are numbered, `celsius = 1`, `fahrenheit = 2`, `kelvin = 0` -/
abbrev Dims := List (Nat × Rat)

def kelvin : Nat := 0
def celsius : Nat := 1
def fahrenheit : Nat := 2

/-- exponent of base unit `b` (entries for the same base add up; cancelled ones count as absent) -/
def expOf (b : Nat) : Dims → Rat
  | [] => 0
  | (b', e) :: rest => (if b' = b then e else 0) + expOf b rest

structure UnitV where
  dims : Dims
  scale : Rat
deriving Repr

/-- `hashmap.len() == 1 && hashmap[s] == 1`: the unit is exactly `s^1` -/
def isExactly (s : Nat) (d : Dims) : Bool :=
  match d with
  | [(b, e)] => b == s && e == 1
  | _ => false

/-- `reduce_hashmap`: (dims with celsius/fahrenheit renamed to kelvin, scale adjustment, offset) -/
def reduce (d : Dims) : Dims × Rat × Rat :=
  if isExactly celsius d then ([(kelvin, 1)], 1, 27315 / 100)
  else if isExactly fahrenheit d then ([(kelvin, 1)], 5 / 9, 45967 / 180)
  else
    -- inside compound units only the scale of a fahrenheit degree matters (integer exponents modelled)
    (d.map (fun (b, e) => (if b = celsius ∨ b = fahrenheit then kelvin else b, e)),
     d.foldl (fun acc (b, e) => if b = fahrenheit then acc * (5 / 9 : Rat) ^ e.num.toNat else acc) 1, 0)

/-- same dimension: every base unit has the same total exponent (`compare_hashmaps`) -/
def sameDims (bases : List Nat) (a b : Dims) : Bool := bases.all fun x => expOf x a == expOf x b

/-- `Value::convert_to` on the numeric part: `(x * s₁ + (off_a - off_b)) / s₂`, or `none` = incompatible -/
def convert (bases : List Nat) (x : Rat) (a b : UnitV) : Option Rat :=
  let (da, adja, offa) := reduce a.dims
  let (db, adjb, offb) := reduce b.dims
  if sameDims bases da db then some ((x * (a.scale * adja) + (offa - offb)) / (b.scale * adjb)) else none

/-- `Value::add`: the right operand is scaled into the left operand's unit, WITHOUT offsets -/
def addIn (bases : List Nat) (x : Rat) (a : UnitV) (y : Rat) (b : UnitV) : Option Rat :=
  let (da, adja, _) := reduce a.dims
  let (db, adjb, _) := reduce b.dims
  if sameDims bases db da then some (x + y * (b.scale * adjb) / (a.scale * adja)) else none

def mulDims (a b : Dims) : Dims := a ++ b
def divDims (a b : Dims) : Dims := a ++ b.map fun (x, e) => (x, -e)
def powDims (a : Dims) (q : Rat) : Dims := a.map fun (x, e) => (x, e * q)


/-- celsius and fahrenheit measure temperature: physically they are kelvin -/
def rename (d : Dims) : Dims := d.map fun (b, e) => (if b = celsius ∨ b = fahrenheit then kelvin else b, e)

/-- expression trees as far as units are concerned.  `pow a e q`: `e` is the exponent sub-expression and
`q` the pure number it evaluates to; `add z a b`: `z` = the right operand is an exact zero (then `Value::add`
returns the left operand untouched); `fn1`/`fn2`: functions that need pure numbers (ln, !, mod, bitwise, …),
which convert every argument to `unitless` first -/
inductive UExpr where
  | leaf (d : Dims)
  | mul (a b : UExpr)
  | div (a b : UExpr)
  | pow (a e : UExpr) (q : Rat)
  | add (z : Bool) (a b : UExpr)
  | conv (a b : UExpr)
  | fn1 (a : UExpr)
  | fn2 (a b : UExpr)
deriving Repr

/-- the unit components the evaluator ends up with (`none` = an incompatible-units error) -/
def dimsOf (bases : List Nat) : UExpr → Option Dims
  | .leaf d => some d
  | .mul a b => match dimsOf bases a, dimsOf bases b with
    | some x, some y => some (mulDims x y) | _, _ => none
  | .div a b => match dimsOf bases a, dimsOf bases b with
    | some x, some y => some (divDims x y) | _, _ => none
  | .pow a e q => match dimsOf bases a, dimsOf bases e with
    | some x, some y => if sameDims bases (reduce y).1 (reduce []).1 then some (powDims x q) else none
    | _, _ => none
  | .add z a b => match dimsOf bases a, dimsOf bases b with
    | some x, some y => if z then some x else if sameDims bases (reduce y).1 (reduce x).1 then some x else none
    | _, _ => none
  | .conv a b => match dimsOf bases a, dimsOf bases b with
    | some x, some y => if sameDims bases (reduce x).1 (reduce y).1 then some y else none
    | _, _ => none
  | .fn1 a => match dimsOf bases a with
    | some x => if sameDims bases (reduce x).1 (reduce []).1 then some [] else none
    | none => none
  | .fn2 a b => match dimsOf bases a, dimsOf bases b with
    | some x, some y =>
      if sameDims bases (reduce x).1 (reduce []).1 && sameDims bases (reduce y).1 (reduce []).1 then some [] else none
    | _, _ => none

end Fend.Units
