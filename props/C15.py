"""C15 — elementary functions are accurate, flagged, and exact at special points."""
import os, re, struct, subprocess, time
from fractions import Fraction as F
from vlib import core, gens, fmtcases as fc

MODULE = "FendModel.Props.C15"
REL = "FendModel/Props/C15.lean"
V = os.path.dirname(os.path.dirname(os.path.abspath(__file__)))

def mpref(lines):
    """40-digit reference values from mpmath (tooling venv); [(value Fraction-ish as str, |x f'(x)|)] or None (outside the real domain)"""
    p = subprocess.run(["python3-vt", os.path.join(V, "vlib", "mpref.py")], input="\n".join(lines) + "\n", capture_output=True, text=True, timeout=1800)
    out = []
    for l in p.stdout.split("\n")[: len(lines)]:
        if l.strip() == "dom" or not l.strip():
            out.append(None)
        else:
            v, d = l.split()
            out.append((F(v), F(d)))
    out += [None] * (len(lines) - len(out))
    return out

def parse_value(o):
    """`ok approx. 1.234` / `ok 12/5` -> (marked, Fraction) ; None for complex / errors"""
    if not o.startswith("ok "):
        return None
    body = o[3:]
    marked = body.startswith("approx. ")
    if marked: body = body[8:]
    try:
        return marked, fc.read_text(body, 10, ".")
    except Exception:
        return None

def run_exact_points(ctx, h, quick):
    t0 = time.time()
    K = 200 if quick else 1200          # multiples of pi/12 up to 100 pi in the thorough tier
    cases = []
    for k in range(-K, K + 1):
        for fn in ("sin", "cos"):
            cases.append((fn, k, f"{fn}(({k}) pi / 12)"))
            if k % 2 == 0 and abs(k) <= 96:
                cases.append((fn, k, f"{fn}({k * 15} degrees)"))
    for k in range(-K, K + 1):
        if k % 2 == 1 and abs(k) <= 60:
            cases.append(("sin", k, f"sin({k * 15} degrees)")); cases.append(("cos", k, f"cos({k * 15} degrees)"))
    outs = ctx.run_lines_robust(h, ["eval"], [c[2] for c in cases], env={"HARNESS_LINE_TIMEOUT_S": "20"})
    ml = [f"{fn} {k // 2}" if k % 2 == 0 else "sin 2" for fn, k, _ in cases]          # odd multiples of pi/12 are never in the table
    model = ctx.run_lines(core.DRIVER, ["elem"], ml, timeout=600)[1]
    model += ["<missing>"] * (len(ml) - len(model))
    # the real values at multiples of pi/6: sin(m pi/6) for m mod 12
    SIN = {0: F(0), 1: F(1, 2), 3: F(1), 5: F(1, 2), 6: F(0), 7: F(-1, 2), 9: F(-1), 11: F(-1, 2)}
    dist = {"exact_unmarked": 0, "approx_marked": 0, "degrees": 0}
    for (fn, k, line), o, m in zip(cases, outs, model):
        if "degrees" in line: dist["degrees"] += 1
        pv = parse_value(o)
        if pv is None:
            ctx.spec_failures.append({"stream": "exact-points", "input": line, "impl": o, "model": m, "spec": "sin / cos of a real multiple of pi is a real number"}); continue
        marked, val = pv
        m6 = None
        if k % 2 == 0:
            mm = (k // 2 + (3 if fn == "cos" else 0)) % 12
            m6 = SIN.get(mm)
        if m6 is not None:
            # documented exact point (multiple of pi/2, or a multiple of pi/6 with value +-1/2): exact and unmarked
            dist["exact_unmarked"] += 1
            if marked or val != m6:
                ctx.spec_failures.append({"stream": "exact-points", "input": line, "impl": o, "model": m, "spec": f"documented exact point: the value is exactly {m6} and must be shown unmarked"})
            if m != f"exact {m6.numerator}/{m6.denominator}":
                ctx.model_disagreements.append({"stream": "exact-points", "input": line, "impl": o, "model": m})
        else:
            dist["approx_marked"] += 1
            import math
            true = (math.sin if fn == "sin" else math.cos)(k * math.pi / 12)
            if abs(float(val) - true) > 1e-9:
                ctx.spec_failures.append({"stream": "exact-points", "input": line, "impl": o, "model": f"{true:.12f}", "spec": "sin / cos of a multiple of pi/12 within 1e-9 of the true value"})
            if not marked:
                ctx.spec_failures.append({"stream": "exact-points", "input": line, "impl": o, "model": m, "spec": "an irrational value shown as digits must be marked approx."})
            if m != "approx":
                ctx.model_disagreements.append({"stream": "exact-points", "input": line, "impl": o, "model": m})
    ctx.record_stream("exact-points", "sin and cos of every multiple of pi/12 in [-%d, %d] pi/12 (and the same angles in degrees): exact and unmarked at the documented points with the right value, marked elsewhere; "
                      "vs the Lean table (sinPi / cosPi, proved against Real.sin / Real.cos)" % (K, K), len(cases), len(cases), dist, [c[2] for c in cases[:3]], time.time() - t0)

FNS = ["sin", "cos", "tan", "asin", "acos", "atan", "sinh", "cosh", "tanh", "asinh", "acosh", "atanh", "exp", "ln", "log2", "log10"]

def gen_arg(r, fn):
    """a rational argument in the function's real domain, spread over ~40 orders of magnitude where the function allows"""
    def frac(lo, hi):
        d = 10 ** r.randint(0, 12)
        return F(r.randint(int(lo * d), int(hi * d)), d)
    if fn in ("asin", "acos", "atanh"):
        x = frac(-1, 1)
        if fn == "atanh" and abs(x) == 1: x = F(1, 2)
        return x
    if fn == "acosh":
        return 1 + abs(frac(0, 1)) * F(10) ** r.randint(-10, 20)
    if fn in ("sinh", "cosh"):
        return frac(-1, 1) * r.choice([1, 1, 10, 100, 700])
    if fn == "exp":
        # exp x is e^x on exact rationals: a denominator q costs a q-th root of a number with ~19·p digits (minutes from q ~ 10^4 on,
        # see DESIGN.md "performance cliff"); keep q small so that the check itself terminates
        q = r.choice([1, 1, 2, 4, 5, 10])
        return F(r.randint(-40 * q, 40 * q), q)
    if fn in ("ln", "log2", "log10"):
        return abs(frac(0, 1) + F(1, 10 ** 12)) * F(10) ** r.randint(-20, 20)
    if fn == "tanh":
        return frac(-1, 1) * r.choice([1, 10, 30])
    mag = r.choice([0, 0, 0, 1, 2, 3, 3, 5, 8, 12, 20]) if fn in ("sin", "cos", "tan") else r.randint(-20, 20)
    return frac(-1, 1) * F(10) ** mag

def run_accuracy(ctx, h, quick):
    t0 = time.time()
    r = ctx.rng
    cases = []
    for _ in range(1500 if quick else 30000):
        fn = r.choice(FNS)
        x = gen_arg(r, fn)
        cases.append((fn, x, f"{fn}({x.numerator}/{x.denominator})"))
    # rational powers that do not come out, and arguments that arrive as unreduced / many-limb fractions
    for _ in range(120 if quick else 3000):
        a, b = r.randint(1, 5), r.randint(2, 5)
        x = F(r.randint(1, 10 ** 6), r.randint(1, 10 ** 3))
        cases.append((f"pow:{a}/{b}", x, f"({x.numerator}/{x.denominator})^({a}/{b})"))
    for _ in range(100 if quick else 1500):
        fn = r.choice(["sin", "cos", "atan", "sinh", "tanh", "ln", "asinh", "exp"])
        base, e = r.choice([3, 7, 10]), r.randint(300, 800)
        k = r.randint(1, 5)
        cases.append((fn, F(k), f"{fn}({k} * {base}^{e} / {base}^{e})"))
        cases.append((fn, F(k, 2), f"{fn}({k} * {base}^{e} / (2 * {base}^{e}))"))
    ref = mpref([f"{fn} {x.numerator}/{x.denominator}" for fn, x, _ in cases])
    outs = ctx.run_lines_robust(h, ["eval"], ["@noapprox (" + c[2] + ") to fraction" for c in cases], env={"HARNESS_LINE_TIMEOUT_S": "30"})
    plain = ctx.run_lines_robust(h, ["eval"], [c[2] for c in cases], env={"HARNESS_LINE_TIMEOUT_S": "30"})
    dist = {"checked": 0, "errors": 0, "per_fn": {}, "worst_rel_err": 0.0, "large_args": 0, "unreduced_args": 0}
    for (fn, x, line), rv, o, pl in zip(cases, ref, outs, plain):
        if rv is None:
            continue
        true, cond = rv
        if "^" in line and " / " in line: dist["unreduced_args"] += 1
        if not o.startswith("ok "):
            # "an error when ... the result cannot be represented": only for results beyond the f64 range
            if abs(true) > F(10) ** 300 or (fn in ("exp",) and abs(x) > 700):
                dist["errors"] += 1; continue
            ctx.spec_failures.append({"stream": "accuracy", "input": line, "impl": o, "model": f"{float(true):.17g}", "spec": "the argument is inside the domain and the result is representable: a value is required"}); continue
        try:
            got = fc.read_text(o[3:], 10, ".")
        except Exception:
            ctx.spec_failures.append({"stream": "accuracy", "input": line, "impl": o, "model": f"{float(true):.17g}", "spec": "a real result is required for a real argument inside the domain"}); continue
        dist["checked"] += 1
        dist["per_fn"][fn.split(":")[0]] = dist["per_fn"].get(fn.split(":")[0], 0) + 1
        if abs(x) > 1000: dist["large_args"] += 1
        # 1e-9 x max(1, |true|), degrading with the condition number: the argument itself is rounded to a double (2^-52 relative)
        tol = F(1, 10 ** 9) * max(1, abs(true)) + cond * F(1, 2 ** 50)
        err = abs(got - true)
        rel = float(err / max(1, abs(true)))
        if abs(x) <= 1000: dist["worst_rel_err"] = max(dist["worst_rel_err"], rel)
        if err > tol:
            ctx.spec_failures.append({"stream": "accuracy", "input": line, "impl": f"{float(got):.17g}", "model": f"{float(true):.17g}", "spec": f"not within 1e-9 x max(1,|true|) (+ condition-number allowance): off by {float(err):.3e}"})
        if not pl.startswith("ok approx. ") and got != true:
            ctx.spec_failures.append({"stream": "accuracy", "input": line, "impl": pl, "model": "approx.", "spec": "a float-backed result must be marked approx."})
    ctx.record_stream("accuracy", "sin cos tan asin acos atan sinh cosh tanh asinh acosh atanh exp ln log2 log10 and non-rational powers on random rational arguments in the functions' real domains over ~40 orders of "
                      "magnitude, incl. arguments that arrive as unreduced fractions with 300-800 digit numerators; `@noapprox (f x) to fraction` vs a 60-digit mpmath reference "
                      "(tolerance 1e-9 x max(1,|true|) + |x f'(x)| 2^-50), and the approx. marker on the plain result", len(cases) * 2, len(set(c[2] for c in cases)), dist, [c[2] for c in cases[:3]], time.time() - t0)

def run_special(ctx, h, quick):
    """documented exact points given in canonical and non-canonical spellings; domain errors"""
    t0 = time.time()
    exact = [("ln 1", "0"), ("ln(3/3)", "0"), ("ln(0.5 * 2)", "0"), ("ln(1.5 - 0.5)", "0"), ("ln(2^64 / 2^64)", "0"),              ("7^0", "1"), ("(3/4)^0", "1"), ("(2.5)^(3 - 3)", "1"), ("7^1", "7"), ("(3/4)^1", "0.75"), ("(2.5)^(4/4)", "2.5"), ("(22/7)^(3 - 2) to fraction", "22/7"),
             ("sin 0", "0"), ("sin(pi)", "0"), ("cos 0", "1"), ("sin(pi/2)", "1"), ("cos(pi)", "-1"), ("sin(pi/6)", "0.5"), ("cos(pi/3)", "0.5"), ("sin(30 degrees)", "0.5"),
             ("cos(60 deg)", "0.5"), ("sin(100 gradians)", "1"), ("sin(1/4 turn)", "1") if False else ("sin(90 degrees)", "1"), ("cos(180 degrees)", "-1"), ("sin(450 degrees)", "1"), ("sin(-pi/6)", "-0.5")]
    errors = ["ln 0", "log2 0", "log10 0", "atanh 1", "atanh(-1)", "tan(pi/2)", "sinh 1000", "cosh 1000", "sinh(-800)"]
    marked = ["pi", "e", "sin 1", "cos 1", "tan 1", "exp 1", "ln 2", "log2 3", "log10 2", "sqrt 2", "2^(1/2)", "sin(pi/3)", "cos(pi/6)", "asin 1", "atan 1", "sinh 1", "sin(1 degree)", "pi^2", "e^2"]
    lines = [e[0] for e in exact] + errors + marked
    outs = ctx.run_lines_robust(h, ["eval"], lines, env={"HARNESS_LINE_TIMEOUT_S": "30"})
    for (line, want), o in zip(exact, outs):
        if o != "ok " + want:
            ctx.spec_failures.append({"stream": "special", "input": line, "impl": o, "model": want, "spec": "documented exact point (ln 1, x^0, x^1, sin/cos of multiples of pi/6 and pi/2, also via angle units): exact and unmarked"})
    for line, o in zip(errors, outs[len(exact):]):
        if not o.startswith("err "):
            ctx.spec_failures.append({"stream": "special", "input": line, "impl": o, "model": "an error", "spec": "outside the domain / not representable: an error, not a number"})
    consts = {"pi": F("3.14159265358979323846264338327950288"), "e": F("2.71828182845904523536028747135266249")}
    for line, o in zip(marked, outs[len(exact) + len(errors):]):
        if not o.startswith("ok approx. "):
            ctx.spec_failures.append({"stream": "special", "input": line, "impl": o, "model": "approx. ...", "spec": "an approximate value must be marked approx."})
        elif line in consts:
            got = fc.read_text(o[11:], 10, ".")
            if abs(got - consts[line]) > F(1, 10 ** 9):
                ctx.spec_failures.append({"stream": "special", "input": line, "impl": o, "model": str(float(consts[line])), "spec": "the constant is accurate to 1e-9"})
    # tan at multiples of pi/12 away from its poles
    import math
    tk = [k for k in range(-40, 41) if k % 12 != 6]
    touts = ctx.run_lines_robust(h, ["eval"], [f"@noapprox (tan(({k}) pi / 12)) to fraction" for k in tk], env={"HARNESS_LINE_TIMEOUT_S": "30"})
    for k, o in zip(tk, touts):
        true = math.tan(k * math.pi / 12)
        try:
            got = float(fc.read_text(o[3:], 10, ".")) if o.startswith("ok ") else None
        except Exception:
            got = None
        if got is None or abs(got - true) > 1e-9 * max(1.0, abs(true)):
            ctx.spec_failures.append({"stream": "special", "input": f"tan(({k}) pi / 12)", "impl": o[:80], "model": f"{true:.12f}", "spec": "tan of a multiple of pi/12 within 1e-9 x max(1, |true|)"})
    c2 = ctx.run_lines_robust(h, ["eval"], ["@noapprox pi to 30 dp", "@noapprox e to 17 dp"], env={"HARNESS_LINE_TIMEOUT_S": "30"})
    if not c2[0].startswith("ok 3.14159265358979323846"):
        ctx.spec_failures.append({"stream": "special", "input": "pi to 30 dp", "impl": c2[0], "model": "3.141592653589793238462643383279", "spec": "pi"})
    if not c2[1].startswith("ok 2.718281828459045"):
        ctx.spec_failures.append({"stream": "special", "input": "e to 17 dp", "impl": c2[1], "model": "2.718281828459045...", "spec": "e"})
    ctx.record_stream("special", "the documented exact points in canonical and non-canonical spellings (3/3, 0.5*2, 2^64/2^64, degrees, gradians), domain and overflow errors, and the marker on constants and "
                      "irrational values", len(lines) + 2, len(lines) + 2, {"exact": len(exact), "errors": len(errors), "marked": len(marked)}, lines[:3], time.time() - t0)

def run_bridge(ctx, h, quick):
    """from_f64 on raw bit patterns vs the Lean model and vs the exact value of the double"""
    t0 = time.time()
    r = ctx.rng
    pats = [0x3FF0000000000000, 0x43F0000000000000, 0x43EFFFFFFFFFFFFF, 0x7FF0000000000000, 0x7FF8000000000000, 0, 1, 0x000FFFFFFFFFFFFF, 0x0010000000000000, 0x7FEFFFFFFFFFFFFF, 0x4340000000000000]
    for _ in range(3000 if quick else 100000):
        e = r.choice([r.randint(0, 2047), r.randint(1023 - 70, 1023 + 70), r.randint(1075, 1200), 1023 + 63, 1023 + 64])
        pats.append((e << 52) | r.getrandbits(52))
    lines = [f"from_f64 {b}" for b in pats]
    impl = ctx.run_lines_robust(h, ["bigrat"], lines)
    model = ctx.run_lines(core.DRIVER, ["elem"], lines, timeout=900)[1]
    model += ["<missing>"] * (len(lines) - len(model))
    dist = {"finite": 0, "nonfinite": 0, "ge_2^64": 0, "tiny": 0}
    for b, line, a, m in zip(pats, lines, impl, model):
        e = (b >> 52) & 0x7ff
        if e == 2047:
            dist["nonfinite"] += 1
            if not a.startswith("err"):
                ctx.spec_failures.append({"stream": "bridge", "input": line, "impl": a, "model": m, "spec": "an infinite / NaN float is not a number: error"})
            if not m.startswith("err"):
                ctx.model_disagreements.append({"stream": "bridge", "input": line, "impl": a, "model": m})
            continue
        dist["finite"] += 1
        f = F(struct.unpack(">d", struct.pack(">Q", b))[0])
        if f >= 2 ** 64: dist["ge_2^64"] += 1
        if f < F(1, 2 ** 64): dist["tiny"] += 1
        if not a.startswith("ok "):
            ctx.spec_failures.append({"stream": "bridge", "input": line, "impl": a, "model": m, "spec": "a finite float converts"}); continue
        sg, n, d = gens.parse_rat(a[3:])
        val = F(gens.val_of(n), gens.val_of(d))
        if abs(val - f) >= F(1, 2 ** 63) or (f >= 2 ** 64 and val != f):
            ctx.spec_failures.append({"stream": "bridge", "input": line, "impl": str(float(val)), "model": str(float(f)), "spec": "the rational differs from the float by less than 2^-63 (exactly equal from 2^64 on)"})
        mw = m.split(" ")
        if not (mw[0] == "ok" and F(mw[1]) == val):
            ctx.model_disagreements.append({"stream": "bridge", "input": line, "impl": a, "model": m})
    ctx.record_stream("bridge", "BigRat::from_f64 through the hooks on raw bit patterns (all exponent ranges, subnormals, 2^63..2^64 boundary, huge, inf, NaN) vs the Lean model fromF64 and vs the exact value of the double",
                      len(lines), len(set(lines)), dist, lines[:3], time.time() - t0)

def run(ctx):
    quick = ctx.tier == "quick"
    h = ctx.harness()
    if h is None:
        ctx.proof_failures.append({"file": "harness", "decl": "harness build", "line": 0, "msg": getattr(ctx, "harness_error", "")})
        return ctx.finish()
    ctx.lean_build([MODULE])
    ctx.audit(MODULE, REL)
    if not quick:
        ctx.leanchecker(MODULE)
    run_exact_points(ctx, h, quick)
    run_special(ctx, h, quick)
    run_bridge(ctx, h, quick)
    run_accuracy(ctx, h, quick)
    return ctx.finish(rule="quick: multiples of pi/12 up to +-200, 1500 random arguments; thorough: up to +-1200 (100 pi), 30000 arguments")

def replay(ctx, rep):
    print(rep["first"]); return 0
