#!/bin/sh
# usage: tools/confirm_mutant.sh <ID> <N>   (worktree /tmp/mut/<ID>, mutant dir /tmp/mut/<ID>-out/mutant<N>)
# Confirms: patch applies+compiles, existing suite passes with it, demo fails with it and passes without.
ID=$1; N=$2; B=${MUT_BASE:-/tmp/mut}; W=$B/$ID; M=$B/$ID-out/mutant$N
export CARGO_NET_OFFLINE=true CARGO_TARGET_DIR=$W/target
cd $W || exit 2
git checkout -q -- . ; git clean -fdq -e target
git apply $M/patch.diff || { echo "RESULT $ID/$N apply-failed"; exit 1; }
if cargo test --workspace --offline >$M/suite.log 2>&1; then suite=pass; else suite=FAIL; fi
if sh $M/demo.sh $W >$M/demo_mut.log 2>&1; then dm=pass; else dm=fail; fi
git checkout -q -- . ; git clean -fdq -e target
if sh $M/demo.sh $W >$M/demo_clean.log 2>&1; then dc=pass; else dc=fail; fi
git checkout -q -- . ; git clean -fdq -e target
echo "RESULT $ID/$N suite=$suite demo_on_mutant=$dm demo_on_clean=$dc"
