/-
C02 — numeric literals and exact renderings round-trip in every base and style.
The theorems are at the level of digit groups: `litValue` is the arithmetic the lexer performs on the digit
groups it scans, `natDigits` / `digitsFrom` / `findCycle` are what the renderer emits.  Scanning characters
into digit groups (separators, prefixes) and the layout of the rendered text are executable model code tied
to the implementation by the correspondence run.
-/
import FendModel.Proofs.Format
import FendModel.Proofs.NumLitScan
import FendModel.Proofs.FormatLayout

namespace Fend.C02
open Fend.Fmt Fend.NumLit

/-- an integer rendered in any base reads back as itself; its digits are digits of the base, without a leading zero -/
theorem integer_roundtrip (b n : Nat) (hb : 2 ≤ b) :
    litValue ⟨b, natDigits b n, none, none, none⟩ = (n : Rat) ∧ (∀ d ∈ natDigits b n, d < b) ∧
    (0 < n → ∃ d t, natDigits b n = d :: t ∧ d ≠ 0) := by
  refine ⟨?_, natDigits_lt b n hb, natDigits_head b n hb⟩
  simp [litValue, valDigits_natDigits b n hb]

/-- the digits after the point are the canonical positional expansion: the (k+1)-th one is `⌊r·b^(k+1)/den⌋ mod b` -/
theorem expansion_canonical (b den r k : Nat) (hb : 2 ≤ b) (hr : r < den) :
    (digitsFrom b den r (k + 1)).getLast? = some ((r * b ^ (k + 1) / den) % b) := by
  simp [digitsFrom, digit_canonical b den r k (by omega) hr]

private theorem cast_invariant (b den r k : Nat) :
    (r : Rat) * (b : Rat) ^ k = (den : Rat) * (valDigits b (digitsFrom b den r k) : Nat) + (remAt b den r k : Nat) := by
  have := longdiv_invariant b den r k
  exact_mod_cast this

/-- a terminating expansion (`I.A`, remainder exhausted after `k` digits) reads back as exactly `num/den` -/
theorem terminating_roundtrip (b num den k : Nat) (hb : 2 ≤ b) (hden : 0 < den)
    (hterm : remAt b den (num % den) k = 0) :
    litValue ⟨b, natDigits b (num / den), some (digitsFrom b den (num % den) k), none, none⟩ = (num : Rat) / den := by
  simp only [litValue, valDigits_natDigits b _ hb, digitsFrom_length]
  have hinv := cast_invariant b den (num % den) k
  rw [hterm] at hinv
  have hb0 : (b : Rat) ≠ 0 := by exact_mod_cast (by omega : b ≠ 0)
  have hd0 : (den : Rat) ≠ 0 := by exact_mod_cast (by omega : den ≠ 0)
  have hbk : (b : Rat) ^ k ≠ 0 := pow_ne_zero _ hb0
  have hsplit : (num : Rat) = (den : Rat) * ((num / den : Nat) : Rat) + ((num % den : Nat) : Rat) := by
    exact_mod_cast (Nat.div_add_mod num den).symm
  have hv : ((valDigits b (digitsFrom b den (num % den) k) : Nat) : Rat) = ((num % den : Nat) : Rat) * (b : Rat) ^ k / den := by
    rw [hinv]; field_simp; push_cast; ring
  rw [hv, hsplit]
  field_simp

/-- a recurring expansion `I.A(B)` — `A` the `mu` digits before the cycle, `B` the `lam` digits of the cycle —
reads back as exactly `num/den` -/
theorem recurring_roundtrip (b num den mu lam : Nat) (hb : 2 ≤ b) (hden : 0 < den) (hlam : 0 < lam)
    (hcyc : remAt b den (num % den) mu = remAt b den (num % den) (mu + lam)) :
    litValue ⟨b, natDigits b (num / den), some (digitsFrom b den (num % den) mu),
      some (digitsFrom b den (remAt b den (num % den) mu) lam), none⟩ = (num : Rat) / den := by
  simp only [litValue, valDigits_natDigits b _ hb, digitsFrom_length, Option.getD_some]
  have h1 := cast_invariant b den (num % den) mu
  have h2 := cast_invariant b den (remAt b den (num % den) mu) lam
  rw [remAt_add, ← hcyc] at h2
  have hb1 : (1 : Rat) < b := by exact_mod_cast (by omega : 1 < b)
  have hb0 : (b : Rat) ≠ 0 := by linarith
  have hd0 : (den : Rat) ≠ 0 := by exact_mod_cast (by omega : den ≠ 0)
  have hbk : (b : Rat) ^ mu ≠ 0 := pow_ne_zero _ hb0
  have hbl : (b : Rat) ^ lam - 1 ≠ 0 := by
    have : (1 : Rat) < (b : Rat) ^ lam := one_lt_pow₀ hb1 (by omega)
    linarith
  have hsplit : (num : Rat) = (den : Rat) * ((num / den : Nat) : Rat) + ((num % den : Nat) : Rat) := by
    exact_mod_cast (Nat.div_add_mod num den).symm
  set R : Rat := ((remAt b den (num % den) mu : Nat) : Rat) with hR
  set v : Rat := ((valDigits b (digitsFrom b den (num % den) mu) : Nat) : Rat) with hv
  set w : Rat := ((valDigits b (digitsFrom b den (remAt b den (num % den) mu) lam) : Nat) : Rat) with hw
  set r0 : Rat := ((num % den : Nat) : Rat) with hr0
  -- R (b^lam - 1) = den w   and   r0 b^mu = den v + R
  have hRw : R = (den : Rat) * w / ((b : Rat) ^ lam - 1) := by
    field_simp; linarith
  have hr0v : r0 = ((den : Rat) * v + R) / (b : Rat) ^ mu := by
    field_simp; linarith
  rw [hsplit, hr0v, hRw]
  field_simp
  ring

/-- … and the cycle the renderer finds always satisfies the premises of `recurring_roundtrip` -/
theorem rendered_recurring_roundtrip (b num den mu lam : Nat) (hb : 2 ≤ b) (hden : 0 < den)
    (h : findCycle b den (num % den) = some (mu, lam)) :
    litValue ⟨b, natDigits b (num / den), some (digitsFrom b den (num % den) mu),
      some (digitsFrom b den (remAt b den (num % den) mu) lam), none⟩ = (num : Rat) / den := by
  obtain ⟨hlam, hcyc⟩ := findCycle_spec b den (num % den) mu lam h
  exact recurring_roundtrip b num den mu lam hb hden hlam hcyc

/-- improper and mixed fractions: `n/d` and `⌊n/d⌋ (n mod d)/d` denote the same value -/
theorem mixed_fraction_roundtrip (num den : Nat) (hden : 0 < den) :
    ((num / den : Nat) : Rat) + ((num % den : Nat) : Rat) / den = (num : Rat) / den := by
  have hd0 : (den : Rat) ≠ 0 := by exact_mod_cast (by omega : den ≠ 0)
  have hsplit : (num : Rat) = (den : Rat) * ((num / den : Nat) : Rat) + ((num % den : Nat) : Rat) := by
    exact_mod_cast (Nat.div_add_mod num den).symm
  rw [hsplit]; field_simp

/-- e-notation scales by the power of the base the notation defines -/
theorem exponent_value (b : Nat) (i e : List Nat) :
    litValue ⟨b, i, none, none, some (false, e)⟩ = (valDigits b i : Nat) * (b : Rat) ^ valDigits b e ∧
    litValue ⟨b, i, none, none, some (true, e)⟩ = (valDigits b i : Nat) / (b : Rat) ^ valDigits b e := by
  simp [litValue]

/-- positional notation: a digit string denotes Σ dᵢ·bⁱ (stated as the recurrence) -/
theorem positional (b d : Nat) (t : List Nat) : valDigits b (d :: t) = d * b ^ t.length + valDigits b t :=
  valDigits_cons b d t

/-! ### the round trip at the level of TEXT: the lexer run on the characters the renderer prints

`(b, p)` ranges over the renderings fend can read back by itself: binary / octal / hexadecimal with their `0b` / `0o` / `0x`
prefix, plain decimal, and EVERY base 2..36 with its `n#` prefix. -/

def Readable (b : Nat) (p : Pfx) : Prop := ((b = 2 ∨ b = 8 ∨ b = 16) ∧ p = .zero) ∨ (b = 10 ∧ p = .plain) ∨ ((2 ≤ b ∧ b ≤ 36) ∧ p = .custom)

/-- the text printed for an integer is read back, character by character, as that integer -/
theorem integer_text_roundtrip (b : Nat) (p : Pfx) (hr : Readable b p) (sep th : Char) (hs : SepOK sep th) (n : Nat) :
    ∃ parts, parseNumber sep th (fmtRat ⟨b, p, .exactFloat, sep⟩ false n 1).1 = .ok (.num parts [], p) ∧ litValue parts = (n : Rat) := by
  have htxt : (fmtRat ⟨b, p, .exactFloat, sep⟩ false n 1).1 = (fmtNat p b n none).1 := by simp [fmtRat, signed]
  rw [htxt]
  rcases hr with ⟨hb, rfl⟩ | ⟨rfl, rfl⟩ | ⟨⟨h2, h36⟩, rfl⟩
  · have hb2 : 2 ≤ b := by rcases hb with rfl | rfl | rfl <;> omega
    exact ⟨_, scan_zero_prefix b hb sep th hs n, (integer_roundtrip b n hb2).1⟩
  · exact ⟨_, scan_plain_decimal sep th hs n, (integer_roundtrip 10 n (by omega)).1⟩
  · exact ⟨_, scan_custom_prefix b h2 h36 sep th hs n, (integer_roundtrip b n h2).1⟩

/-- the text printed for a non-terminating fraction, `I.A(B)`, is what `fmtRat` produces … -/
theorem recurring_text (b : Nat) (p : Pfx) (hb : 2 ≤ b) (sep : Char) (num den mu lam : Nat) (hden1 : den ≠ 1)
    (hnt : terminates b den = false) (h : findCycle b den (num % den) = some (mu, lam)) :
    (fmtRat ⟨b, p, .exactFloat, sep⟩ false num den).1 =
      prefixChars p b ++ recurText b sep (num / den) (digitsFrom b den (num % den) mu) (digitsFrom b den (remAt b den (num % den) mu) lam) := by
  have hft := fmtNat_text p b (num / den) hb
  simp only [fmtRat, hden1, if_false, hnt]
  simp [h, signed, recurText, hft]

/-- … and it is read back, character by character, as exactly `num/den` -/
theorem recurring_text_roundtrip (b : Nat) (p : Pfx) (hr : Readable b p) (sep th : Char) (hs : SepOK sep th)
    (num den mu lam : Nat) (hden : 0 < den) (hden1 : den ≠ 1) (hnt : terminates b den = false)
    (h : findCycle b den (num % den) = some (mu, lam)) :
    ∃ parts, parseNumber sep th (fmtRat ⟨b, p, .exactFloat, sep⟩ false num den).1 = .ok (.num parts [], p) ∧
      litValue parts = (num : Rat) / den := by
  have hb2 : 2 ≤ b := by
    rcases hr with ⟨hb, _⟩ | ⟨rfl, _⟩ | ⟨⟨h2, _⟩, _⟩
    · rcases hb with rfl | rfl | rfl <;> omega
    · omega
    · exact h2
  obtain ⟨hlam, _⟩ := findCycle_spec b den (num % den) mu lam h
  have hr0 : num % den < den := Nat.mod_lt _ hden
  have ha := digitsFrom_lt b den (num % den) (by omega) hr0 mu
  have hc := digitsFrom_lt b den (remAt b den (num % den) mu) (by omega) (remAt_lt b den _ mu hr0) lam
  have hcne : digitsFrom b den (remAt b den (num % den) mu) lam ≠ [] := by
    intro hnil
    have := digitsFrom_length b den (remAt b den (num % den) mu) lam
    rw [hnil] at this; simp at this; omega
  rw [recurring_text b p hb2 sep num den mu lam hden1 hnt h]
  have hval := rendered_recurring_roundtrip b num den mu lam hb2 hden h
  rcases hr with ⟨hb, rfl⟩ | ⟨rfl, rfl⟩ | ⟨⟨h2, h36⟩, rfl⟩
  · exact ⟨_, scan_zero_prefix_recurring b hb sep th hs _ _ _ ha hc hcne, hval⟩
  · exact ⟨_, by simpa [prefixChars] using scan_plain_decimal_recurring sep th hs _ _ _ ha hc hcne, hval⟩
  · exact ⟨_, scan_custom_prefix_recurring b h2 h36 sep th hs _ _ _ ha hc hcne, hval⟩

/-- the text printed for a terminating fraction, `I.A`: integer part, separator, the long-division digits up to the vanishing
remainder without trailing zeros — read back, character by character, as exactly `num/den`.  `k` is the number of steps after
which the remainder vanishes (it exists because the expansion terminates; the renderer's own budget `den + 2` covers it) -/
theorem terminating_text_roundtrip (b : Nat) (p : Pfx) (hr : Readable b p) (sep th : Char) (hs : SepOK sep th)
    (num den k : Nat) (hden : 0 < den) (hden1 : den ≠ 1) (hterm : terminates b den = true) (hr0 : num % den ≠ 0)
    (hk : remAt b den (num % den) k = 0) (hbefore : ∀ j, j < k → remAt b den (num % den) j ≠ 0) (hfuel : k ≤ den + 1) :
    ∃ parts, parseNumber sep th (fmtRat ⟨b, p, .exactFloat, sep⟩ false num den).1 = .ok (.num parts [], p) ∧
      litValue parts = (num : Rat) / den := by
  have hb2 : 2 ≤ b := by
    rcases hr with ⟨hb, _⟩ | ⟨rfl, _⟩ | ⟨⟨h2, _⟩, _⟩
    · rcases hb with rfl | rfl | rfl <;> omega
    · omega
    · exact h2
  have hft := fmtNat_text p b (num / den) hb2
  -- the text
  have hloop := nonrec_text b den (num % den) .all (fun m => by simp) sep (prefixChars p b ++ (natDigits b (num / den)).map digitChar)
    false (num / den == 0) k (fun j hj => ⟨hbefore j hj, by simp⟩) (Or.inl hk) (den + 2) (by omega)
  set ds := digitsFrom b den (num % den) k with hds
  -- the digits are not all zero
  have hinv := longdiv_invariant b den (num % den) k
  rw [hk, Nat.add_zero, ← hds] at hinv
  have hvpos : valDigits b ds ≠ 0 := by
    intro h0; rw [h0, Nat.mul_zero] at hinv
    have : 0 < num % den * b ^ k := Nat.mul_pos (Nat.pos_of_ne_zero hr0) (Nat.pos_of_ne_zero (by positivity))
    omega
  have hsne : stripZ ds ≠ [] := by
    intro hnil
    have := strip_split ds
    rw [hnil, List.nil_append] at this
    rw [this, valDigits_zeros] at hvpos; exact hvpos rfl
  have hlt : ∀ d ∈ stripZ ds, d < b := by
    intro d hd
    have hmem : d ∈ ds := by rw [strip_split ds]; exact List.mem_append_left _ hd
    exact digitsFrom_lt b den (num % den) (by omega) (Nat.mod_lt _ hden) k d hmem
  have htxt : (fmtRat ⟨b, p, .exactFloat, sep⟩ false num den).1 =
      prefixChars p b ++ ((natDigits b (num / den)).map digitChar ++ sep :: (stripZ ds).map digitChar) := by
    simp only [fmtRat, hden1, if_false, hterm]
    simp [hloop, signed, renderDigits, hsne, hft]
  rw [htxt]
  -- the value
  have hval : litValue ⟨b, natDigits b (num / den), some (stripZ ds), none, none⟩ = (num : Rat) / den := by
    have h1 := terminating_roundtrip b num den k hb2 hden hk
    rw [← hds] at h1
    simp only [litValue, valDigits_natDigits b _ hb2, digitsFrom_length] at h1 ⊢
    rw [← h1, stripZ_value b hb2 ds, hds, digitsFrom_length]
  rcases hr with ⟨hb, rfl⟩ | ⟨rfl, rfl⟩ | ⟨⟨h2, h36⟩, rfl⟩
  · exact ⟨_, scan_zero_prefix_terminating b hb sep th hs _ _ hlt hsne, hval⟩
  · exact ⟨_, by simpa [prefixChars] using scan_plain_decimal_terminating sep th hs _ _ hlt hsne, hval⟩
  · exact ⟨_, scan_custom_prefix_terminating b h2 h36 sep th hs _ _ hlt hsne, hval⟩

/-- a decimal (or lower-base) integer literal with an exponent — `IeE`, `Ie+E`, `Ie-E` — is scanned, character by character,
into its digit groups, and denotes `I * b^E` resp. `I / b^E` -/
theorem exponent_literal_text (b : Nat) (hb2 : 2 ≤ b) (hb : b ≤ 10) (sep th : Char) (hs : SepOK sep th) (n : Nat) (sign : Option Bool)
    (d : Nat) (ds : List Nat) (hds : ∀ x ∈ d :: ds, x < b) :
    ∃ parts, parseBasic b sep th ((natDigits b n).map digitChar ++
        'e' :: ((match sign with | none => [] | some true => ['-'] | some false => ['+']) ++ (d :: ds).map digitChar)) = .ok (.num parts []) ∧
      litValue parts = if sign == some true then (n : Rat) / (b : Rat) ^ valDigits b (d :: ds) else (n : Rat) * (b : Rat) ^ valDigits b (d :: ds) := by
  refine ⟨_, parseBasic_exponent b hb2 hb sep th hs n sign d ds hds, ?_⟩
  have hv := valDigits_natDigits b n hb2
  cases hsg : (sign == some true) with
  | true => simp [litValue, hv]
  | false => simp [litValue, hv]

-- the scanner and the renderer on concrete literals / values (kernel-evaluated; these are tests, not the theorems)
example : (fmtRat ⟨10, .plain, .exactFloat, '.'⟩ false 1 6).1 = "0.1(6)".toList := by decide +kernel
example : (fmtRat ⟨12, .custom, .exactFloat, ','⟩ false 1 7).1 = "12#0,(186a35)".toList := by decide +kernel
example : (fmtRat ⟨16, .plain, .mixed, '.'⟩ true 22 7).1 = "-3 1/7".toList := by decide +kernel
example : findCycle 10 6 1 = some (1, 1) := by decide +kernel

end Fend.C02
