-- Root of the `FendModel` library: executable models (Model/), generated tables (Gen/),
-- helper lemmas (Proofs/) and the property theorems (Props/).
import FendModel.Model.BigUint
