"""C19 — the CLI is a faithful front-end to the core."""
import os, shutil, subprocess, time
from concurrent.futures import ThreadPoolExecutor
from vlib import core

MODULE = "FendModel.Props.C19"
REL = "FendModel/Props/C19.lean"

EXPRS = ["1 + 1", "x = 4", "x * 2", "y = x + 1; y", "2 kg to g", "1/0", "unknownthing", "()", "x", "\"str\"", "@no_trailing_newline 5", "a = 3 m", "a^2", "1", "+", "2",
         "5 to words", "x = 20", "x + 1", "@noapprox pi", "f = x: x + 1", "f 2", "", " ", "1,5", "true"]
FILES = {"s1.fend": "y = x * 2; y + 1", "s2.fend": "x = 7", "s3.fend": "1 +", "s4.fend": "z = 3\n", "empty.fend": "", "multi.fend": "a = 1; b = 2; a + b"}
FLAGS = ["-e", "--eval", "-f", "--file", "--", "-h", "--help", "help", "-v", "-V", "--version", "--default-config", "--print-default-config"]

def pk(s):
    return s.encode().hex() if s else "_"

def unpk(h):
    return "" if h == "_" else bytes.fromhex(h).decode("utf-8", "replace")

def gen_args(r):
    n = r.randint(0, 6)
    args = []
    for _ in range(n):
        k = r.random()
        if k < 0.5: args.append(r.choice(EXPRS))
        elif k < 0.62: args += [r.choice(["-e", "--eval"]), r.choice(EXPRS)] if r.random() < 0.9 else [r.choice(["-e", "--eval"])]
        elif k < 0.74: args += [r.choice(["-f", "--file"]), r.choice(list(FILES) + ["missing.fend"])] if r.random() < 0.9 else ["-f"]
        elif k < 0.86: args.append(r.choice(list(FILES) + ["missing.fend"]))
        elif k < 0.93: args.append("--")
        else: args.append(r.choice(FLAGS))
    return args

# (config file contents | None = absent, is it a well-formed file whose recognised keys must be applied?)
CONFIGS = [(None, False), ("", True), ("decimal-separator-style = \"comma\"\n", True), ("prompt = \"> \"\nunknown-key = 5\n", True), ("this is not toml = = =", False),
           ("coulomb-and-farad = true\n", True), ("enable-colors = false\nmax-history-size = 10\n", True),
           ("[[custom-units]]\nsingular = \"smoot\"\nplural = \"smoots\"\ndefinition = \"67 inches\"\n", True),
           ("decimal-separator-style = \"comma\"\ndecimal-separator-style = \"dot\"\n", False), ("enable-colors = \"yes\"\n", False),
           ("unknown-settings = \"ignore\"\nfoo = [1,2]\n", True), ("\xff\xfe broken".encode("latin1"), False), ("[colors]\nnumber = { foreground = \"red\" }\n", True),
           ("exchange-rate-source = \"nowhere\"\n", False), ("foo = { a = 1 }\nbar = true\n", True),
           # unknown keys of every TOML value type next to a recognised, observable setting
           ("decimal-separator-style = \"comma\"\nunknown-int = 5\n", True), ("unknown-bool = true\ndecimal-separator-style = \"comma\"\n", True),
           ("decimal-separator-style = \"comma\"\nunknown-array = [1, 2]\n", True), ("coulomb-and-farad = true\nunknown-str = \"x\"\nunknown-float = 1.5\n", True),
           ("decimal-separator-style = \"comma\"\n[unknown-table]\na = 1\n", True),
           ("rounding-digits = 12\n[[custom-units]]\nsingular = \"smoot\"\nplural = \"smoots\"\ndefinition = \"67 inches\"\n", True),
           ("coulomb-and-farad = 1\n", False), ("decimal-separator-style = \"semicolon\"\n", False)]

def run_fend(fend, d, args, config, stdin=None):
    cfg = os.path.join(d, "cfg")
    shutil.rmtree(d, ignore_errors=True)
    os.makedirs(cfg)
    for fn, txt in FILES.items():
        open(os.path.join(d, fn), "w").write(txt)
    if config is not None:
        with open(os.path.join(cfg, "config.toml"), "wb") as f:
            f.write(config if isinstance(config, bytes) else config.encode())
    env = {**os.environ, "FEND_CONFIG_DIR": cfg, "FEND_CACHE_DIR": os.path.join(d, "cache"), "FEND_STATE_DIR": os.path.join(d, "state"), "NO_COLOR": "1", "HOME": d}
    try:
        p = subprocess.run([fend] + args, cwd=d, capture_output=True, env=env, timeout=20, input=(stdin.encode() if stdin is not None else None),
                           stdin=(None if stdin is not None else subprocess.DEVNULL))
    except subprocess.TimeoutExpired:
        return None
    return p.returncode, p.stdout.decode("utf-8", "replace"), p.stderr.decode("utf-8", "replace")

def run(ctx):
    quick = ctx.tier == "quick"
    ctx.lean_build([MODULE])
    ctx.audit(MODULE, REL)
    if not quick:
        ctx.leanchecker(MODULE)
    fend = ctx.cli()
    h = ctx.harness()
    if fend is None or h is None:
        ctx.proof_failures.append({"file": "build", "decl": "cargo build (fend / harness)", "line": 0, "msg": getattr(ctx, "harness_error", "")})
        return ctx.finish()
    r = ctx.rng
    t0 = time.time()
    corpus = [["x = 20", "-f", "s1.fend"], ["x = 4", "s1.fend"], ["-e", "x = 4", "-f", "s1.fend", "1", "+", "1"], ["1", "+", "1"], ["@no_trailing_newline 5"], ["1/0", "2"], ["x = 4", "-e", "x"]]
    arglists = corpus + [gen_args(r) for _ in range(400 if quick else 6000)]
    # --- model: Action for every argument list
    files_part = ",".join(f"{pk(k)}={pk(v)}" for k, v in FILES.items())
    lines = [",".join(pk(a) for a in args) + ";" + files_part for args in arglists]
    acts = ctx.run_lines(core.DRIVER, ["cliargs"], lines, timeout=600)[1]
    # --- core results for the expression lists (in-process, same default settings as the CLI)
    evl, evi = [], []
    for i, a in enumerate(acts):
        if a.startswith("eval "):
            evl.append(a[5:]); evi.append(i)
    cres = ctx.run_lines_robust(h, ["evalhex"], evl, env={"HARNESS_LINE_TIMEOUT_S": "10"})
    cmap = dict(zip(evi, cres))
    runl = [cmap[i] for i in evi]
    mouts = ctx.run_lines(core.DRIVER, ["clirun"], runl, timeout=600)[1]
    mmap = dict(zip(evi, mouts))
    # --- the real binary
    wd = os.path.join(core.WORK, "c19")
    os.makedirs(wd, exist_ok=True)
    def work(i):
        return run_fend(fend, os.path.join(wd, f"t{i % 16}_{i}"), arglists[i], None)
    with ThreadPoolExecutor(16) as ex:
        real = list(ex.map(work, range(len(arglists))))
    for i in range(len(arglists)):
        shutil.rmtree(os.path.join(wd, f"t{i % 16}_{i}"), ignore_errors=True)
    dist = {}
    for i, (args, act, rl) in enumerate(zip(arglists, acts, real)):
        kind = act.split(" ")[0]
        dist[kind] = dist.get(kind, 0) + 1
        inp = "fend " + " ".join(repr(a) for a in args)
        if rl is None:
            ctx.spec_failures.append({"stream": "cli", "input": inp, "impl": "timeout", "model": act, "spec": "the program terminates"}); continue
        rc, so, se = rl
        if rc not in (0, 1):
            ctx.spec_failures.append({"stream": "cli", "input": inp, "impl": f"exit status {rc}: {se[:200]}", "model": act, "spec": "exit status is 0 or 1; never a crash"}); continue
        if kind == "eval":
            w = mmap[i].split(" ")
            exp_rc, exp_out, exp_err = int(w[1]), unpk(w[3]), unpk(w[5])
            if (rc, so, se) != (exp_rc, exp_out, exp_err):
                ctx.spec_failures.append({"stream": "cli", "input": inp, "impl": f"status={rc} stdout={so!r} stderr={se!r}", "model": f"status={exp_rc} stdout={exp_out!r} stderr={exp_err!r}",
                                          "spec": "prints exactly what the core returns for the last expression (variables carried over), status 1 + 'Error: msg' on the first error"})
        elif kind == "err":
            if rc != 1 or not se.startswith("Error: "):
                ctx.model_disagreements.append({"stream": "cli", "input": inp, "impl": f"status={rc} stderr={se!r}", "model": act})
        elif kind == "version":
            if rc != 0 or not so.strip() or so.strip()[0] not in "0123456789":
                ctx.model_disagreements.append({"stream": "cli", "input": inp, "impl": f"status={rc} stdout={so!r}", "model": act})
        elif kind == "help":
            if rc != 0 or "manual" not in so:
                ctx.model_disagreements.append({"stream": "cli", "input": inp, "impl": f"status={rc} stdout={so[:80]!r}", "model": act})
        elif kind == "defaultConfig":
            if rc != 0 or "prompt" not in so:
                ctx.model_disagreements.append({"stream": "cli", "input": inp, "impl": f"status={rc} stdout={so[:80]!r}", "model": act})
        elif kind == "repl":
            # stdin is /dev/null (not a terminal): one empty expression -> nothing printed, status 0
            if (rc, so) != (0, ""):
                ctx.model_disagreements.append({"stream": "cli", "input": inp, "impl": f"status={rc} stdout={so!r} stderr={se!r}", "model": act})
    ctx.record_stream("cli", "random argument lists mixing positional words, -e/--eval, -f/--file, names of files that do and do not exist, `--`, help/version flags; the built "
                      "binary's stdout, stderr and exit status vs the Lean model of Action::from_args + eval_exprs fed with fend_core results computed in-process",
                      len(arglists), len(set(map(tuple, arglists))), dist, [" ".join(a) for a in arglists[:3]], time.time() - t0)
    # --- stdin mode and configuration files
    t1 = time.time()
    cfg_cases = []
    probes = [["3/2"], ["1 C + 1 coulomb"], ["2 smoots to inches"], ["1 + 1"]]
    wf = {}
    for ci, (cfg, wellformed) in enumerate(CONFIGS):
        wf[cfg] = wellformed
        for pr in probes:
            cfg_cases.append((cfg, pr, None))
    for s in ["1 + 1", "x = 3; x * 2", "1/0", "", "@no_trailing_newline 7", "a = 2\n"]:
        cfg_cases.append((None, [], s))
    def work2(i):
        cfg, args, stdin = cfg_cases[i]
        return run_fend(fend, os.path.join(wd, f"c{i}"), args, cfg, stdin=stdin)
    with ThreadPoolExecutor(16) as ex:
        real2 = list(ex.map(work2, range(len(cfg_cases))))
    for i in range(len(cfg_cases)):
        shutil.rmtree(os.path.join(wd, f"c{i}"), ignore_errors=True)
    # expectations: which settings a config applies (recognised keys of a well-formed file), defaults otherwise
    def expect_cfg(cfg, expr):
        comma = coulomb = smoot = False
        if isinstance(cfg, str):
            if wf.get(cfg):
                comma = "\"comma\"" in cfg; coulomb = "coulomb-and-farad = true" in cfg; smoot = "smoot" in cfg
        if expr == "3/2": return (0, "1,5\n" if comma else "1.5\n")
        if expr == "1 + 1": return (0, "2\n")
        if expr == "1 C + 1 coulomb": return (0, "2 C\n") if coulomb else (1, "")
        if expr == "2 smoots to inches": return (0, "134 inches\n") if smoot else (1, "")
    cd = {"config_cases": 0, "stdin_cases": 0, "diagnostics_seen": 0}
    for (cfg, args, stdin), rl in zip(cfg_cases, real2):
        inp = f"config={cfg!r} args={args} stdin={stdin!r}"
        if rl is None or rl[0] not in (0, 1):
            ctx.spec_failures.append({"stream": "cli-config", "input": inp, "impl": str(rl)[:300], "model": "", "spec": "a bad configuration causes at worst a diagnostic, never a crash"}); continue
        rc, so, se = rl
        if stdin is None:
            cd["config_cases"] += 1
            erc, eso = expect_cfg(cfg, args[0])
            if se.strip(): cd["diagnostics_seen"] += 1
            if rc != erc or (erc == 0 and so != eso):
                ctx.spec_failures.append({"stream": "cli-config", "input": inp, "impl": f"status={rc} stdout={so!r} stderr={se[:200]!r}", "model": f"status={erc} stdout={eso!r}",
                                          "spec": "malformed config -> defaults (+ diagnostic); well-formed config -> recognised settings applied, unknown keys only warned about"})
        else:
            cd["stdin_cases"] += 1
            res = ctx.run_lines_robust(h, ["evalhex"], [pk(stdin)])[0]
            mo = ctx.run_lines(core.DRIVER, ["clirun"], [res])[1][0].split(" ")
            if (rc, so, se) != (int(mo[1]), unpk(mo[3]), unpk(mo[5])):
                ctx.spec_failures.append({"stream": "cli-config", "input": inp, "impl": f"status={rc} stdout={so!r} stderr={se!r}", "model": " ".join(mo)[:200],
                                          "spec": "standard input (not a terminal) is evaluated as one expression"})
    ctx.record_stream("cli-config", "absent / empty / malformed / non-UTF-8 / duplicate-key / ill-typed / unknown-key / custom-unit / comma / coulomb configs x probe expressions; stdin mode",
                      len(cfg_cases), len(cfg_cases), cd, [str(c)[:80] for c in cfg_cases[:3]], time.time() - t1)
    return ctx.finish(rule="argument lists drawn from a token grammar; configs from a fixed table of 23 well-formed and damaged files x 4 probes; distinct = distinct cases")

def replay(ctx, rep):
    print(rep["first"])
    return 0
