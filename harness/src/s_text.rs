//! Streams `json`, `inline`, `evalseq`, `eval`: text in and out as space-separated hex code points.
use crate::common::*;
use fend_core::Context;

pub fn parse_cps(s: &str) -> Option<String> {
    let t = s.trim();
    if t.is_empty() {
        return Some(String::new());
    }
    let mut out = String::new();
    for w in t.split(' ') {
        out.push(char::from_u32(u32::from_str_radix(w, 16).ok()?)?);
    }
    Some(out)
}

pub fn show_cps(s: &str) -> String {
    s.chars().map(|c| format!("{:x}", c as u32)).collect::<Vec<_>>().join(" ")
}

pub fn json_line(l: &str) -> String {
    let Some(input) = parse_cps(l) else { return "bad-op".into() };
    match guarded(|| {
        let mut out = String::new();
        fend_core::json::escape_string(&input, &mut out);
        out
    }) {
        Ok(o) => show_cps(&o),
        Err(_) => "panic".into(),
    }
}

/// deterministic stand-in for an exchange-rate source: a fixed rate per currency code
struct FixedRates;
impl fend_core::ExchangeRateFn for FixedRates {
    fn relative_to_base_currency(&self, currency: &str) -> Result<f64, Box<dyn std::error::Error + Send + Sync + 'static>> {
        Ok(match currency {
            "EUR" => 1.0,
            "USD" => 1.25,
            _ => 0.5 + f64::from(currency.bytes().map(u32::from).sum::<u32>() % 16) / 4.0,
        })
    }
}

fn ctx() -> Context {
    let mut c = Context::new();
    c.set_random_u32_fn(|| 4);
    c.set_exchange_rate_handler_v1(FixedRates);
    c
}

pub fn inline_line(l: &str) -> String {
    let Some(input) = parse_cps(l) else { return "bad-op".into() };
    let int = Counting::never();
    match guarded(|| {
        let mut c = ctx();
        let r = fend_core::substitute_inline_fend_expressions(&input, &mut c, &int);
        // the component enum is not nameable from outside the crate: kinds are read from to_json
        let parts: Vec<String> =
            r.get_parts().iter().map(|p| format!("P {}", show_cps(p.get_contents()))).collect();
        format!("{}#{}", parts.join("|"), show_cps(&r.to_json()))
    }) {
        Ok(o) => o,
        Err(_) => "panic".into(),
    }
}

/// `src|src|...` evaluated left to right in one fresh context
pub fn evalseq_line(l: &str) -> String {
    let int = Counting::never();
    let mut c = ctx();
    let mut outs = Vec::new();
    if l.trim().is_empty() {
        return String::new();
    }
    for src in l.split('|') {
        // every item is `E` followed by its (possibly empty) hex code points
        let Some(src) = src.strip_prefix('E') else { return "bad-op".into() };
        let Some(src) = parse_cps(src) else { return "bad-op".into() };
        let r = guarded(|| fend_core::evaluate_with_interrupt(&src, &mut c, &int));
        outs.push(match r {
            Ok(Ok(v)) => format!("O {}", show_cps(v.get_main_result())),
            Ok(Err(e)) => format!("X {}", show_cps(&e)),
            Err(_) => "panic".into(),
        });
    }
    outs.join("|")
}

/// `<terminator-hex> <body…>`: evaluates the literal `<terminator><body>` through the public API
pub fn strlit_line(l: &str) -> String {
    let Some(src) = parse_cps(l) else { return "bad-op".into() };
    if src.is_empty() {
        return "bad-op".into();
    }
    let mut c = ctx();
    match guarded(|| fend_core::evaluate(&src, &mut c)) {
        Ok(Ok(v)) => format!("ok {}", show_cps(v.get_main_result())).trim_end().to_string(),
        Ok(Err(e)) => format!("err {}", classify_str(&e)),
        Err(_) => "err panic".into(),
    }
}

fn classify_str(m: &str) -> &'static str {
    if m == "unterminated string literal" { "unterminated" }
    else if m.starts_with("expected an escape sequence between") { "backslashX" }
    else if m.starts_with("unknown escape sequence") { "unknownEscape" }
    else if m.starts_with("expected an uppercase letter") { "expectedLetterOrCode" }
    else if m.starts_with("invalid Unicode escape sequence") { "invalidUnicode" }
    else { "other" }
}

/// Stream `eval`: one fend expression per line (plain text, no newlines) evaluated in a fresh
/// default context; prints `ok <main result>` or `err <message>` (newlines escaped).
pub fn eval_line(l: &str) -> String {
    let mut c = ctx();
    let int = Counting::never();
    match guarded(|| fend_core::evaluate_with_interrupt(l, &mut c, &int)) {
        Ok(Ok(v)) => format!("ok {}", v.get_main_result().replace('\n', "\\n")),
        Ok(Err(e)) => format!("err {}", e.replace('\n', "\\n")),
        Err(p) => format!("panic {}", p.replace('\n', "\\n")),
    }
}

/// Stream `evalsep`: `<dot|comma> <expression>` evaluated in a fresh context with that decimal-separator style.
pub fn evalsep_line(l: &str) -> String {
    let Some((style, expr)) = l.split_once(' ') else { return "bad-op".into() };
    let mut c = ctx();
    c.set_decimal_separator_style(if style == "comma" { fend_core::DecimalSeparatorStyle::Comma } else { fend_core::DecimalSeparatorStyle::Dot });
    let int = Counting::never();
    match guarded(|| fend_core::evaluate_with_interrupt(expr, &mut c, &int)) {
        Ok(Ok(v)) => format!("ok {}", v.get_main_result().replace('\n', "\\n")),
        Ok(Err(e)) => format!("err {}", e.replace('\n', "\\n")),
        Err(p) => format!("panic {}", p.replace('\n', "\\n")),
    }
}

/// Stream `evalctx`: statements separated by ` ;; ` evaluated left to right in ONE context;
/// prints the results joined by ` ;; `.
pub fn evalctx_line(l: &str) -> String {
    let mut c = ctx();
    let int = Counting::never();
    let mut outs = Vec::new();
    for stmt in l.split(" ;; ") {
        outs.push(match guarded(|| fend_core::evaluate_with_interrupt(stmt, &mut c, &int)) {
            Ok(Ok(v)) => format!("ok {}", v.get_main_result().replace('\n', "\\n")),
            Ok(Err(e)) => format!("err {}", e.replace('\n', "\\n")),
            Err(p) => format!("panic {}", p.replace('\n', "\\n")),
        });
    }
    outs.join(" ;; ")
}

/// Stream `intfn`: `roman N` | `words N` | `char N` through the public API; text as hex code points.
pub fn intfn_line(l: &str) -> String {
    let ws: Vec<&str> = l.trim().split(' ').collect();
    if ws.len() != 2 { return "bad-op".into(); }
    let src = match ws[0] {
        "roman" => format!("{} to roman", ws[1]),
        "words" => format!("{} to words", ws[1]),
        "char" => format!("{} to char", ws[1]),
        _ => return "bad-op".into(),
    };
    let mut c = ctx();
    match guarded(|| fend_core::evaluate(&src, &mut c)) {
        Ok(Ok(v)) => format!("ok {}", show_cps(v.get_main_result())),
        Ok(Err(e)) => format!("err {}", if e.contains("must lie in the interval") { "outOfRange" }
            else if e.starts_with("zero cannot be represented") { "romanZero" }
            else if e.starts_with("invalid codepoint") { "invalidCodepoint" } else { "other" }),
        Err(_) => "err panic".into(),
    }
}

fn unpack(s: &str) -> Option<String> {
    if s == "_" { return Some(String::new()); }
    if s.len() % 2 != 0 { return None; }
    let b: Option<Vec<u8>> = (0..s.len()).step_by(2).map(|i| u8::from_str_radix(&s[i..i + 2], 16).ok()).collect();
    String::from_utf8(b?).ok()
}

fn pack(s: &str) -> String {
    if s.is_empty() { return "_".into(); }
    s.bytes().map(|b| format!("{b:02x}")).collect()
}

/// Stream `evalhex`: packed-hex expressions separated by `,`, evaluated left to right in ONE context with the
/// settings the CLI uses by default; stops at the first error like the CLI does. Output per expression:
/// `O:<emptyOrUnit>:<trailingNewline>:<text>` or `X:<msg>`.
pub fn evalhex_line(l: &str) -> String {
    let mut c = fend_core::Context::new();
    c.set_random_u32_fn(|| 4);
    c.set_output_mode_terminal();
    let int = Counting::never();
    let mut outs = Vec::new();
    for e in l.trim().split(',') {
        let Some(src) = unpack(e) else { return "bad-op".into() };
        match guarded(|| fend_core::evaluate_with_interrupt(&src, &mut c, &int)) {
            Ok(Ok(v)) => {
                let empty = v.get_main_result_spans().next().is_none() || v.is_unit_type();
                outs.push(format!("O:{}:{}:{}", u8::from(empty), u8::from(v.has_trailing_newline()), pack(v.get_main_result())));
            }
            Ok(Err(e)) => { outs.push(format!("X:{}", pack(&e))); break; }
            Err(p) => { outs.push(format!("X:{}", pack(&format!("panic {p}")))); break; }
        }
    }
    outs.join(",")
}

static ROLL_VALUE: std::sync::atomic::AtomicU32 = std::sync::atomic::AtomicU32::new(0);
fn fixed_rng() -> u32 {
    ROLL_VALUE.load(std::sync::atomic::Ordering::SeqCst)
}

/// Stream `roll`: `<u32> <expression>` evaluated with a random source that returns exactly that value.
pub fn roll_line(l: &str) -> String {
    let Some((r, src)) = l.trim().split_once(' ') else { return "bad-op".into() };
    let Ok(r) = r.parse::<u32>() else { return "bad-op".into() };
    ROLL_VALUE.store(r, std::sync::atomic::Ordering::SeqCst);
    let mut c = fend_core::Context::new();
    c.set_random_u32_fn(fixed_rng);
    let int = Counting::never();
    match guarded(|| fend_core::evaluate_with_interrupt(src, &mut c, &int)) {
        Ok(Ok(v)) => format!("ok {}", v.get_main_result().replace('\n', "\\n")),
        Ok(Err(e)) => format!("err {}", e.replace('\n', "\\n")),
        Err(p) => format!("panic {}", p.replace('\n', "\\n")),
    }
}

/// Stream `unitq`: `cf=<0|1> custom=<0|1> <expression…>` — evaluates the expression in a context with the given
/// coulomb/farad mode and (optionally) the fixed custom-unit list that the driver's `unitlookup` stream also uses.
pub fn unitq_line(l: &str) -> String {
    let mut it = l.trim().splitn(3, ' ');
    let (Some(cf), Some(cu), Some(src)) = (it.next(), it.next(), it.next()) else { return "bad-op".into() };
    let mut c = ctx();
    if cf == "cf=1" {
        c.use_coulomb_and_farad();
    }
    if cu == "custom=1" {
        use fend_core::CustomUnitAttribute as A;
        c.define_custom_unit_v1("florp", "florps", "3 kg", &A::None);
        c.define_custom_unit_v1("zib", "zibs", "!", &A::AllowLongPrefix);
        c.define_custom_unit_v1("smoot", "smoots", "67 inches", &A::AllowShortPrefix);
        c.define_custom_unit_v1("mile", "miles", "1852 m", &A::AllowLongPrefix);
        c.define_custom_unit_v1("hugo", "", "1000", &A::IsLongPrefix);
        c.define_custom_unit_v1("byteish", "", "8 bits", &A::Alias);
    }
    let int = Counting::never();
    match guarded(|| fend_core::evaluate_with_interrupt(src, &mut c, &int)) {
        Ok(Ok(v)) => format!("ok {}", v.get_main_result().replace('\n', "\\n")),
        Ok(Err(e)) => format!("err {}", e.replace('\n', "\\n")),
        Err(p) => format!("panic {}", p.replace('\n', "\\n")),
    }
}
