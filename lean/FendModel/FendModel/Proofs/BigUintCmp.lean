import FendModel.Proofs.BigUintMul
import Mathlib.Tactic.Positivity

namespace Fend.BigUint

def WFL (v : List Nat) : Prop := ∀ x ∈ v, x < B

theorem WF_iff_limbs (b : BigUint) : b.WF ↔ WFL b.limbs := by
  cases b <;> simp [WF, WFL, limbs]

theorem valL_lt (v : List Nat) (h : WFL v) : valL v < B ^ v.length := by
  induction v with
  | nil => simp [valL]
  | cons x xs ih =>
    have hx : x < B := h x (by simp)
    have hr := ih (fun y hy => h y (by simp [hy]))
    simp only [valL, List.length_cons, pow_succ]
    nlinarith [hx, hr]

/-- value of the low `i` limbs -/
def lowVal (b : BigUint) (i : Nat) : Nat := valL (b.limbs.take i)

theorem lowVal_succ (b : BigUint) (i : Nat) :
    lowVal b (i + 1) = lowVal b i + b.get i * B ^ i := by
  unfold lowVal
  rw [get_eq_limbs]
  generalize b.limbs = l
  induction l generalizing i with
  | nil => simp [valL]
  | cons x xs ih =>
    cases i with
    | zero => simp [valL]
    | succ i =>
      simp only [List.take_succ_cons, valL, List.getD_cons_succ]
      rw [ih i, pow_succ]; ring

theorem lowVal_lt (b : BigUint) (h : b.WF) (i : Nat) : lowVal b i < B ^ i := by
  unfold lowVal
  have hw : WFL (b.limbs.take i) := fun x hx => (WF_iff_limbs b).mp h x (List.mem_of_mem_take hx)
  have := valL_lt _ hw
  have hl : (b.limbs.take i).length ≤ i := by simp
  calc valL (b.limbs.take i) < B ^ (b.limbs.take i).length := this
    _ ≤ B ^ i := Nat.pow_le_pow_right B_pos hl

theorem lowVal_full (b : BigUint) (i : Nat) (h : b.valueLen ≤ i) : lowVal b i = val b := by
  unfold lowVal; rw [val_eq_limbs, List.take_of_length_le (by rw [← valueLen_eq_limbs]; exact h)]

theorem get_lt (b : BigUint) (h : b.WF) (i : Nat) : b.get i < B := by
  rw [get_eq_limbs]
  have hw := (WF_iff_limbs b).mp h
  by_cases hi : i < b.limbs.length
  · have : b.limbs.getD i 0 = b.limbs[i] := by simp [List.getD_eq_getElem?_getD, hi]
    rw [this]; exact hw _ (List.getElem_mem hi)
  · simp [List.getD_eq_getElem?_getD, List.getElem?_eq_none (Nat.le_of_not_lt hi)]; exact B_pos

theorem cmpLoop_spec (a b : BigUint) (ha : a.WF) (hb : b.WF) (i : Nat) :
    cmpLoop a b i = compare (lowVal a i) (lowVal b i) := by
  induction i with
  | zero => simp [cmpLoop, lowVal, valL]
  | succ i ih =>
    unfold cmpLoop
    rw [lowVal_succ, lowVal_succ]
    have la := lowVal_lt a ha i
    have lb := lowVal_lt b hb i
    have hp : 0 < B ^ i := Nat.pow_pos B_pos
    rcases Nat.lt_trichotomy (a.get i) (b.get i) with h | h | h
    · have h1 : compare (a.get i) (b.get i) = .lt := Nat.compare_eq_lt.mpr h
      simp only [h1]
      symm; apply Nat.compare_eq_lt.mpr
      have : (a.get i + 1) * B ^ i ≤ b.get i * B ^ i := Nat.mul_le_mul_right _ h
      nlinarith
    · have h1 : compare (a.get i) (b.get i) = .eq := Nat.compare_eq_eq.mpr h
      rw [h1]; simp only [ih]; rw [h]
      rcases Nat.lt_trichotomy (lowVal a i) (lowVal b i) with g | g | g
      · rw [Nat.compare_eq_lt.mpr g]; symm; apply Nat.compare_eq_lt.mpr; omega
      · rw [Nat.compare_eq_eq.mpr g]; symm; apply Nat.compare_eq_eq.mpr; omega
      · rw [Nat.compare_eq_gt.mpr g]; symm; apply Nat.compare_eq_gt.mpr; omega
    · have h1 : compare (a.get i) (b.get i) = .gt := Nat.compare_eq_gt.mpr h
      simp only [h1]
      symm; apply Nat.compare_eq_gt.mpr
      have : (b.get i + 1) * B ^ i ≤ a.get i * B ^ i := Nat.mul_le_mul_right _ h
      nlinarith

/-- comparison agrees with the order on values, for well-formed limb vectors of any shape -/
theorem cmp_val (a b : BigUint) (ha : a.WF) (hb : b.WF) : a.cmp b = compare (val a) (val b) := by
  unfold cmp
  split
  · simp [val]
  · rw [cmpLoop_spec a b ha hb, lowVal_full a _ (by omega), lowVal_full b _ (by omega)]

theorem ble_iff (a b : BigUint) (ha : a.WF) (hb : b.WF) : ble a b = true ↔ val a ≤ val b := by
  unfold ble; rw [cmp_val a b ha hb]
  rcases Nat.lt_trichotomy (val a) (val b) with g | g | g
  · rw [Nat.compare_eq_lt.mpr g]; simp; omega
  · rw [Nat.compare_eq_eq.mpr g]; simp; omega
  · rw [Nat.compare_eq_gt.mpr g]; simp; omega

theorem blt_iff (a b : BigUint) (ha : a.WF) (hb : b.WF) : blt a b = true ↔ val a < val b := by
  unfold blt; rw [cmp_val a b ha hb]
  rcases Nat.lt_trichotomy (val a) (val b) with g | g | g
  · rw [Nat.compare_eq_lt.mpr g]; simp; omega
  · rw [Nat.compare_eq_eq.mpr g]; simp; omega
  · rw [Nat.compare_eq_gt.mpr g]; simp; omega

theorem beq_iff (a b : BigUint) (ha : a.WF) (hb : b.WF) : beq a b = true ↔ val a = val b := by
  unfold beq; rw [cmp_val a b ha hb]
  rcases Nat.lt_trichotomy (val a) (val b) with g | g | g
  · rw [Nat.compare_eq_lt.mpr g]; simp; omega
  · rw [Nat.compare_eq_eq.mpr g]; simp; omega
  · rw [Nat.compare_eq_gt.mpr g]; simp; omega

end Fend.BigUint
