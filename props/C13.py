"""C13 — live preview is side-effect free."""
import time
from vlib import core
import translator.callback_sites as callback_sites

MODULE = "FendModel.Props.C13"
REL = "FendModel/Props/C13.lean"

SETUPS = ["", "a = 5", "a = 5 ;; f = x: x + a", "a = 3 kg ;; b = 2", "x = 10 ;; 1 + 1", "f = x: y: x y ;; a = f 2", "a = \"s\" ;; 1/0"]
INPUTS = ["1 + 1", "a = 7", "a = 7; a + 1", "b = a + roll d6", "roll d6", "sample d20", "1 USD to EUR", "5 EUR + 3 USD", "x = 1 USD to EUR; x", "a", "f 3", "()", "\"line\\nbreak\"",
          "2^2^2^2^2", "10^100", "1/3 to 60 dp", "a = ", "(((", "1 +", "_ = 9", "ans = 1; ans", "f = 5; f", "1,5 + 1", "1.5 + 1", "5 C to F", "1 florp + 1 kg", "\"" + "x" * 60 + "\"",
          "\"abc\\n\"", "\"\\nabc\"", "\"abc\" + \"\\n\"", "\"\\r\\nabc\"", "\"abc\\t\"", "\"\\tabc\"", "\"" + " " * 30 + "x" * 31 + "\"", "\"" + "x" * 31 + " " * 30 + "\"", "\"" + " " * 55 + "\"", "\"a\" + \"\\n\" + \"\"",
          "\" \\n \"", "\"\\u{0}abc\"", "\"abc\\u{7}\"", "\"x\" + \"" + " " * 52 + "\"",
          "x: x", "@debug 1", "@noapprox pi", "2 kilozib", "é + 1", "a = 1; b = 2; a + b", "sqrt 2", "100!", "1e3", "a == a", "not true", "3 to words", "earth", "@2024-02-29"]

def gen(r, n):
    out = []
    for _ in range(n):
        flags = f"comma={r.randint(0,1)} cf={r.randint(0,1)} rng={r.randint(0,1)} xr={r.choice([0,1,1,2])} custom={r.randint(0,1)} term={r.randint(0,1)}"
        setup = r.choice(SETUPS)
        inp = r.choice(INPUTS)
        if r.random() < 0.3:
            inp = inp + r.choice(["; ", " ", " + "]) + r.choice(INPUTS)
        if "comma=1" in flags and r.random() < 0.5:
            inp = inp.replace("1.5", "1,5")
        out.append(f"{flags} || {setup} || {inp}")
    return out

def run(ctx):
    quick = ctx.tier == "quick"
    callback_sites.generate()
    ctx.lean_build([MODULE])
    ctx.audit(MODULE, REL)
    if not quick:
        ctx.leanchecker(MODULE)
    h = ctx.harness()
    if h is None:
        ctx.proof_failures.append({"file": "harness", "decl": "harness build (verif-hooks)", "line": 0, "msg": getattr(ctx, "harness_error", "")})
        return ctx.finish()
    r = ctx.rng
    corpus = ["comma=0 cf=0 rng=1 xr=1 custom=1 || a = 5 ;; f = x: x + a || b = a + roll d6; 1 USD to EUR", "comma=0 cf=0 rng=1 xr=1 custom=0 term=1 || a = 5 || a + 1", "comma=1 cf=1 rng=0 xr=0 custom=1 term=1 || b = 2 || d6",
              "comma=1 cf=1 rng=1 xr=2 custom=0 || a = 5 || a = 7; _ = 3; ans"]
    cases = corpus + gen(r, 250 if quick else 8000)
    t0 = time.time()
    outs = ctx.run_lines_robust(h, ["preview"], cases, env={"HARNESS_LINE_TIMEOUT_S": "30"})
    dist = {"cases": len(cases), "prefix_previews": 0, "state_changed": 0, "handlers_changed": 0, "callbacks_during_preview": 0, "panics": 0, "filter_mismatch": 0,
            "nonempty_previews": 0}
    flines, fmeta = [], []
    for c, o in zip(cases, outs):
        f = dict(p.split("=", 1) for p in o.split("\t") if "=" in p)
        if "state" not in f:
            ctx.spec_failures.append({"stream": "previews", "input": c, "impl": o[:300], "model": "", "spec": "previewing returns normally"})
            continue
        if f["state"] != "same":
            dist["state_changed"] += 1
            ctx.spec_failures.append({"stream": "previews", "input": c, "impl": f["state"][:600], "model": "", "spec": "a preview leaves variables (incl. _ and ans) and settings exactly as they were"})
        if not f["handlers"].startswith("same"):
            dist["handlers_changed"] += 1
            ctx.spec_failures.append({"stream": "previews", "input": c, "impl": f["handlers"][:300], "model": "", "spec": "random source and exchange-rate handler are still installed after a preview"})
        if f["calls"] != "0":
            dist["callbacks_during_preview"] += 1
            ctx.spec_failures.append({"stream": "previews", "input": c, "impl": f"{f['calls']} host callback invocations during previews", "model": "",
                                      "spec": "no random number is drawn and no exchange rate is requested during a preview"})
        if f["panics"] != "none":
            dist["panics"] += 1
            ctx.spec_failures.append({"stream": "previews", "input": c, "impl": f["panics"][:300], "model": "", "spec": "preview never panics"})
        for pr in f["pairs"].split(";"):
            a = pr.split("|")
            if len(a) == 3:
                flines.append(a[0] + "|" + a[1]); fmeta.append((c, a[0], a[1], a[2]))
    dist["prefix_previews"] = len(flines)
    mouts = ctx.run_lines(core.DRIVER, ["preview"], flines, timeout=900)[1]
    for (c, pre, raw, got), m in zip(fmeta, mouts):
        if got.startswith("U") and got[1:].strip():
            ctx.spec_failures.append({"stream": "previews", "input": c, "impl": f"preview of prefix {pre!r} returned a unit-typed result", "model": "",
                                      "spec": "a preview never returns unit-typed text"})
        if got.startswith("U"):
            got = got[1:]
        if got.strip():
            dist["nonempty_previews"] += 1
            txt = "".join(chr(int(w, 16)) for w in got.split())
            if len(txt.encode()) > 50 or any(ord(ch) < 32 for ch in txt):
                ctx.spec_failures.append({"stream": "previews", "input": c, "impl": f"preview of prefix {pre!r} returned {txt!r}", "model": "",
                                          "spec": "a preview never returns multi-line or over-long text"})
        if m.strip() != got.strip():
            dist["filter_mismatch"] += 1
            ctx.model_disagreements.append({"stream": "previews", "input": c, "impl": f"prefix={pre} raw={raw} preview={got}", "model": m})
    ctx.record_stream("previews", "contexts built from flag combinations (decimal comma, coulomb/farad mode, terminal / plain output mode, rng present/absent, exchange handler present/absent/failing, "
                      "custom units) + setup statements; every prefix of the input previewed uninterrupted and with the interrupt firing at call 0/1/3/17/200; observable "
                      "state (13 probes incl. _/ans/settings/custom units), handler probes (roll d6, 1 USD to EUR) and callback counters compared before/after; each preview "
                      "result compared with the model's filter applied to the raw evaluation on an identical handler-less context",
                      len(cases), len(set(cases)), dist, cases[:3], time.time() - t0)
    return ctx.finish(rule="flag combinations x setup histories x preview inputs (assignments, rng / currency uses, errors, long / multi-line / unit results); "
                           "distinct = distinct case lines; all non-trivial")

def replay(ctx, rep):
    h = ctx.harness()
    f = rep["first"]
    print("case:", f["input"])
    for p in ctx.run_lines(h, ["preview"], [f["input"]])[1][0].split("\t"):
        print("  ", p[:500])
    return 0
