"""C17 — dice expressions denote the exact probability distribution."""
import re, time
from fractions import Fraction as F
from vlib import core

MODULE = "FendModel.Props.C17"
REL = "FendModel/Props/C17.lean"

def die(n, m):
    d = {F(0): F(1)}
    for _ in range(n):
        nd = {}
        for k, p in d.items():
            for f in range(1, m + 1):
                nd[k + f] = nd.get(k + f, 0) + p * F(1, m)
        d = nd
    return d

def comb(op, a, b):
    out = {}
    for x, px in a.items():
        for y, py in b.items():
            z = x + y if op == "+" else x - y if op == "-" else x * y if op == "*" else x / y
            out[z] = out.get(z, 0) + px * py
    return out

def gen_tree(r, depth):
    """-> (fend text, postfix tokens, exact pmf dict)"""
    if depth == 0 or r.random() < 0.35:
        if r.random() < 0.75:
            n, m = r.choice([(1, 2), (1, 4), (1, 6), (2, 6), (3, 4), (2, 3), (1, 20), (4, 2), (1, 12), (2, 8), (1, 3)])
            return (f"{n}d{m}" if n > 1 or r.random() < 0.5 else f"d{m}", f"d {n} {m}", die(n, m))
        k = r.randint(0, 6)
        return (str(k), f"n {k}", {F(k): F(1)})
    if r.random() < 0.12:
        t, pf, d = gen_tree(r, depth - 1)
        return (f"(-{t})", pf + " neg", {-k: p for k, p in d.items()})
    a, b = gen_tree(r, depth - 1), gen_tree(r, depth - 1)
    op = r.choice(["+", "+", "-", "-", "*", "/"])
    if op == "/" and any(k == 0 for k in b[2]):
        op = "+"
    if len(a[2]) * len(b[2]) > 900:
        return a
    return (f"({a[0]} {op} {b[0]})", f"{a[1]} {b[1]} {op}", comb(op, a[2], b[2]))

def parse_dist(txt):
    """`{ 2: 2.78%, ... }` -> [(text outcome, percent)] in listed order; single values -> None"""
    m = re.fullmatch(r"\{ (.*) \}", txt)
    if not m:
        return None
    out = []
    for part in m.group(1).split(", "):
        k, p = part.rsplit(": ", 1)
        out.append((k, float(p.rstrip("%"))))
    return out

def num_of(txt):
    t = txt.replace("approx. ", "")
    try:
        return F(t)
    except Exception:
        return None

def fmt_q(q):
    return f"{q.numerator}/{q.denominator}"

def run(ctx):
    quick = ctx.tier == "quick"
    ctx.lean_build([MODULE])
    ctx.audit(MODULE, REL)
    if not quick:
        ctx.leanchecker(MODULE)
    h = ctx.harness()
    if h is None:
        ctx.proof_failures.append({"file": "harness", "decl": "harness build", "line": 0, "msg": getattr(ctx, "harness_error", "")})
        return ctx.finish()
    r = ctx.rng
    t0 = time.time()
    trees = []
    NM = [(n, m) for n in range(1, 5 if quick else 7) for m in range(1, 13 if quick else 21)]
    for n, m in NM:
        trees.append((f"{n}d{m}", f"d {n} {m}", die(n, m)))
    trees += [("d6 + (d6 - 1)", "d 1 6 d 1 6 n 1 - +", comb("+", die(1, 6), comb("-", die(1, 6), {F(1): F(1)}))),
              ("(-d4)", "d 1 4 neg", {-k: p for k, p in die(1, 4).items()}), ("10 + (d3 - 1)", "n 10 d 1 3 n 1 - +", comb("+", {F(10): F(1)}, comb("-", die(1, 3), {F(1): F(1)})))]
    for _ in range(400 if quick else 6000):
        trees.append(gen_tree(r, r.randint(1, 3)))
    trees = [t for t in trees if len(t[2]) > 1]
    exprs = ["0 " + t[0] for t in trees]
    outs = ctx.run_lines_robust(h, ["roll"], exprs, env={"HARNESS_LINE_TIMEOUT_S": "20"})
    means = ctx.run_lines_robust(h, ["roll"], ["0 mean(" + t[0] + ")" for t in trees], env={"HARNESS_LINE_TIMEOUT_S": "20"})
    model = ctx.run_lines(core.DRIVER, ["dist"], [t[1] for t in trees], timeout=900)[1]
    dist = {"distributions": len(trees), "listing_wrong": 0, "mean_wrong": 0, "model_differs": 0, "roll_cases": 0, "roll_wrong": 0}
    for (txt, pf, pmf), o, mn, mo in zip(trees, outs, means, model):
        spec_sorted = sorted(pmf)
        # model vs independent convolution
        msorted = re.search(r"sorted=(\S*)", mo)
        mparts = re.search(r"parts=(\S*)", mo)
        if not msorted or [F(x) for x in msorted.group(1).split(",")] != spec_sorted or \
           {F(kp.split(":")[0]): F(kp.split(":")[1]) for kp in mparts.group(1).split(";")} != pmf:
            dist["model_differs"] += 1
            ctx.model_disagreements.append({"stream": "dice", "input": txt, "impl": "python exact convolution", "model": mo[:200]})
        lst = parse_dist(o[3:]) if o.startswith("ok ") else None
        ok = lst is not None and len(lst) == len(spec_sorted)
        if ok:
            for (k, pct), z in zip(lst, spec_sorted):
                kv = num_of(k)
                # non-integer outcomes are printed truncated to 10 decimal places
                if kv is None or abs(kv - z) > F(1, 10**9) or (z.denominator == 1 and kv != z) or abs(F(pct) - pmf[z] * 100) > F(1, 200) + F(1, 10**9):
                    ok = False
        if not ok:
            dist["listing_wrong"] += 1
            ctx.spec_failures.append({"stream": "dice", "input": txt, "impl": o[:300], "model": "; ".join(f"{fmt_q(z)}: {float(pmf[z]*100):.2f}%" for z in spec_sorted)[:300],
                                      "spec": "outcomes exactly the possible ones, in increasing order, each once, with the exact probability rounded to two decimals"})
        em = sum(k * p for k, p in pmf.items())
        got = num_of(mn[3:]) if mn.startswith("ok ") else None
        if got is None or (mn[3:].startswith("approx.") and abs(got - em) > F(1, 10**8)) or (not mn[3:].startswith("approx.") and got != em):
            dist["mean_wrong"] += 1
            ctx.spec_failures.append({"stream": "dice", "input": "mean(" + txt + ")", "impl": mn[:120], "model": fmt_q(em), "spec": "mean is the exact expectation"})
    # roll under a controlled random source: 0, 2^32-1, a grid, and every cumulative threshold +-1
    rolls, rmeta = [], []
    NROLL = 120 if quick else 500
    full_probe = set()
    for (txt, pf, pmf), mo in list(zip(trees, model))[:NROLL]:
        parts = [(F(kp.split(":")[0]), F(kp.split(":")[1])) for kp in re.search(r"parts=(\S*)", mo).group(1).split(";")]
        pts = {0, 1, 2**32 - 1, 2**32 - 2, 2**31}
        cum = 0
        for k, p in parts:
            cum += int(float(p) * 4294967295.0)
            pts |= {max(0, cum - 1), min(2**32 - 1, cum), min(2**32 - 1, cum + 1)}
        if len(pts) > 70:
            # many outcomes: probing every threshold costs one full evaluation of the dice expression each; sample them
            pts = set(r.sample(sorted(pts), 64)) | {0, 2**32 - 1}
        else:
            full_probe.add(txt)
        for v in sorted(pts) + [r.randrange(2**32) for _ in range(4)]:
            rolls.append(f"{v} roll({txt})"); rmeta.append((txt, pf, pmf, v))
    routs = ctx.run_lines_robust(h, ["roll"], rolls, env={"HARNESS_LINE_TIMEOUT_S": "20"})
    mrolls = ctx.run_lines(core.DRIVER, ["dist"], [f"{pf} roll {v}" for (_, pf, _, v) in rmeta], timeout=900)[1]
    seen_outcomes = {}
    for (txt, pf, pmf, v), o, mo in zip(rmeta, routs, mrolls):
        dist["roll_cases"] += 1
        got = num_of(o[3:]) if o.startswith("ok ") else None
        if got is not None and got not in pmf:
            near = [z for z in pmf if abs(z - got) <= F(1, 10**9)]
            got = near[0] if len(near) == 1 else got
        if got is None or got not in pmf:
            dist["roll_wrong"] += 1
            ctx.spec_failures.append({"stream": "dice", "input": f"roll({txt}) with random source = {v}", "impl": o[:100], "model": mo[-40:], "spec": "roll always yields a possible outcome"})
            continue
        seen_outcomes.setdefault(txt, set()).add(got)
        mm = re.search(r"roll=(\S+)", mo)
        if not mm or mm.group(1) == "none" or F(mm.group(1)) != got:
            ctx.model_disagreements.append({"stream": "dice", "input": f"roll({txt}) with random source = {v}", "impl": o[:100], "model": mo[-60:]})
    # each outcome of non-negligible probability (threshold >= 2) is produced by some probed value
    for (txt, pf, pmf) in trees[:NROLL]:
        if txt not in full_probe:
            continue
        missing = [z for z, p in pmf.items() if int(float(p) * 4294967295.0) >= 2 and z not in seen_outcomes.get(txt, set())]
        if missing:
            ctx.spec_failures.append({"stream": "dice", "input": f"roll({txt})", "impl": f"outcomes never produced at any probed threshold: {[fmt_q(z) for z in missing][:6]}", "model": "",
                                      "spec": "each outcome of non-negligible probability is produced by some value of the random source"})
    ctx.record_stream("dice", "all NdM with N<=4, M<=12 (N<=6, M<=20 thorough) plus random arithmetic combinations of dice; printed distribution, mean(...) and roll(...) under a "
                      "harness-controlled random function (0, 2^32-1, every cumulative threshold +-1, random values) vs exact convolution in Python and vs the Lean model",
                      len(trees) + len(rolls), len(set(t[0] for t in trees)) + len(set(rolls)), dist, [t[0] for t in trees[:3]], time.time() - t0)
    return ctx.finish(rule="enumerated NdM + grammar-generated dice arithmetic (depth <= 3, at most 900 outcome pairs); distinct = distinct expressions / (expression, random value) pairs",
                      extra={"exhaustive": False})

def replay(ctx, rep):
    print(rep["first"])
    return 0
