/-
Model of unit-name resolution: `units/builtin.rs::query_unit` and `units.rs::{query_unit_internal,
query_unit_case_sensitive, query_unit_static}` over the regenerated raw table (Gen/UnitsRaw.lean).
The result says WHICH table entry (and which prefix entry) a name resolves to; what the entry denotes
is the business of the resolved table (Gen/UnitsResolved.lean).
-/
import FendModel.Gen.UnitsRaw

namespace Fend.UnitLookup

inductive Rule | none | longAllowed | longPrefix | shortAllowed | shortPrefix
deriving DecidableEq, Repr

/-- the `l@ / lp@ / s@ / sp@` markers of `expr_unit` (applied in this order, as in the source) -/
def ruleOf (defn : String) : Rule :=
  let d := defn.trimAscii.toString
  let (r, d) := if d.startsWith "l@" then (Rule.longAllowed, (d.drop 2).toString) else (Rule.none, d)
  let (r, d) := if d.startsWith "lp@" then (Rule.longPrefix, (d.drop 3).toString) else (r, d)
  let (r, d) := if d.startsWith "s@" then (Rule.shortAllowed, (d.drop 2).toString) else (r, d)
  let (r, _) := if d.startsWith "sp@" then (Rule.shortPrefix, (d.drop 3).toString) else (r, d)
  if defn.trimAscii.toString = "$CURRENCY" then .longAllowed else r

abbrev Entry := String × String × String     -- singular, plural, definition

/-- `str::eq_ignore_ascii_case` (`Char.toLower` folds ASCII letters only) -/
def eqIgnoreAsciiCase (a b : String) : Bool := a.toList.map Char.toLower == b.toList.map Char.toLower

def asciiUpper (s : String) : String := String.ofList (s.toList.map Char.toUpper)

/-- `builtin::query_unit` -/
def queryBuiltin (table : List Entry) (shortTable : List (String × String)) (currencies : List String)
    (ident : String) (shortPrefixes caseSensitive : Bool) : Option Entry :=
  let sp := if shortPrefixes then
      shortTable.find? (fun (n, _) => n == ident || (!caseSensitive && eqIgnoreAsciiCase n ident))
    else none
  match sp with
  | some (n, d) => some (n, n, d)
  | none =>
    let key := if caseSensitive then ident else asciiUpper ident
    if currencies.contains key then some (key, key, "$CURRENCY") else
    let norm : Entry → Entry := fun (s, p, d) => (s, if p.isEmpty then s else p, d)
    match (table.map norm).find? (fun (s, p, _) => s == ident || p == ident) with
    | some e => some e
    | none =>
      if caseSensitive then none else
      -- the Rust returns at the first exact match while scanning; case-insensitive candidates are
      -- collected along the way and used only if there is exactly one
      match (table.map norm).filter (fun (s, p, _) => eqIgnoreAsciiCase s ident || eqIgnoreAsciiCase p ident) with
      | [e] => some e
      | _ => none

structure Cfg where
  custom : List Entry := []
  celsiusFahrenheit : Bool := true

/-- `query_unit_internal` -/
def queryInternal (table : List Entry) (shortTable : List (String × String)) (currencies : List String) (cfg : Cfg)
    (ident : String) (shortPrefixes caseSensitive wholeUnit : Bool) : Option Entry :=
  let cu := if !shortPrefixes then
      cfg.custom.find? (fun (s, p, _) =>
        let p := if p.isEmpty then s else p
        (ident == s || ident == p) || (!caseSensitive && (eqIgnoreAsciiCase s ident || eqIgnoreAsciiCase p ident)))
    else none
  match cu with
  | some (s, p, d) => some (s, if p.isEmpty then s else p, d)
  | none =>
    if wholeUnit && cfg.celsiusFahrenheit && ident == "C" then some ("C", "C", "=°C")
    else if wholeUnit && cfg.celsiusFahrenheit && ident == "F" then some ("F", "F", "=°F")
    else queryBuiltin table shortTable currencies ident shortPrefixes caseSensitive

inductive Found where
  | whole (e : Entry)
  | prefixed (pre : Entry) (base : Entry)
  | notFound
deriving DecidableEq, Repr

/-- the split loop of `query_unit_case_sensitive`: commit to the FIRST split where both halves exist -/
def splitLoop (table : List Entry) (shortTable : List (String × String)) (currencies : List String) (cfg : Cfg)
    (caseSensitive : Bool) : List Char → List Char → Found
  | _, [] => .notFound
  | pre, c :: rest =>
    let pre := pre ++ [c]
    if rest.isEmpty then .notFound else
    match queryInternal table shortTable currencies cfg (String.ofList pre) true caseSensitive false with
    | none => splitLoop table shortTable currencies cfg caseSensitive pre rest
    | some a =>
      match queryInternal table shortTable currencies cfg (String.ofList rest) false caseSensitive false with
      | none => splitLoop table shortTable currencies cfg caseSensitive pre rest
      | some b =>
        let ra := ruleOf a.2.2
        let rb := ruleOf b.2.2
        if (ra = .longPrefix ∧ rb = .longAllowed) ∨ (ra = .shortPrefix ∧ rb = .shortAllowed) then .prefixed a b
        else .notFound

def queryCaseSensitive (table : List Entry) (shortTable : List (String × String)) (currencies : List String) (cfg : Cfg)
    (ident : String) (caseSensitive : Bool) : Found :=
  match queryInternal table shortTable currencies cfg ident false caseSensitive true with
  | some e => .whole e
  | none => splitLoop table shortTable currencies cfg caseSensitive [] ident.toList

/-- `query_unit_static`: case-sensitive pass, then the insensitive one -/
def queryStatic (table : List Entry) (shortTable : List (String × String)) (currencies : List String) (cfg : Cfg)
    (ident : String) : Found :=
  match queryCaseSensitive table shortTable currencies cfg ident true with
  | .notFound => queryCaseSensitive table shortTable currencies cfg ident false
  | f => f

/-- on the regenerated table of the tree under test -/
def lookup (cfg : Cfg) (ident : String) : Found :=
  queryStatic Fend.Gen.unitDefs Fend.Gen.shortPrefixes Fend.Gen.currencyIdentifiers cfg ident

end Fend.UnitLookup
