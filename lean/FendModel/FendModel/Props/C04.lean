/-
C04 — unit conversions are exact, invertible and mutually consistent.
Algorithm theorems hold for ALL units with non-zero scales; the concrete factors fixed by standards are
table theorems over the regenerated resolved table (`Fend.C11.standards_hold`, re-exported here).
-/
import FendModel.Model.Units
import FendModel.Props.C11
import Mathlib.Tactic.FieldSimp
import Mathlib.Tactic.Ring
import Mathlib.Tactic.Linarith

namespace Fend.C04
open Fend.Units

/-- units without an additive offset (everything except a plain celsius / fahrenheit temperature) -/
def NoOffset (u : UnitV) : Prop := (reduce u.dims).2.2 = 0

/-- the single fixed ratio of a conversion between offset-free units -/
def ratio (a b : UnitV) : Rat := (a.scale * (reduce a.dims).2.1) / (b.scale * (reduce b.dims).2.1)

/-- converting multiplies by a single fixed ratio -/
theorem convert_is_ratio (bases : List Nat) (x : Rat) (a b : UnitV) (ha : NoOffset a) (hb : NoOffset b)
    (r : Rat) (h : convert bases x a b = some r) : r = x * ratio a b := by
  unfold convert at h
  unfold ratio
  unfold NoOffset at ha hb
  generalize reduce a.dims = ra at *
  generalize reduce b.dims = rb at *
  obtain ⟨da, adja, offa⟩ := ra
  obtain ⟨db, adjb, offb⟩ := rb
  simp only at ha hb h
  subst ha; subst hb
  split at h
  · injection h with h; subst h; ring
  · cases h

/-- scaling the quantity scales the result -/
theorem convert_linear (bases : List Nat) (k x : Rat) (a b : UnitV) (ha : NoOffset a) (hb : NoOffset b)
    (r : Rat) (h : convert bases x a b = some r) : convert bases (k * x) a b = some (k * r) := by
  have h1 := convert_is_ratio bases x a b ha hb r h
  unfold convert at h ⊢
  unfold NoOffset at ha hb
  generalize reduce a.dims = ra at *
  generalize reduce b.dims = rb at *
  obtain ⟨da, adja, offa⟩ := ra
  obtain ⟨db, adjb, offb⟩ := rb
  simp only at ha hb h ⊢
  subst ha; subst hb
  split at h
  · rename_i hs
    simp only [hs, if_true]
    injection h with h; subst h
    congr 1; ring
  · cases h

/-- converting back returns the original quantity exactly (offsets included: temperatures too) -/
theorem convert_inverse (bases : List Nat) (x : Rat) (a b : UnitV)
    (hsa : a.scale * (reduce a.dims).2.1 ≠ 0) (hsb : b.scale * (reduce b.dims).2.1 ≠ 0)
    (hsym : sameDims bases (reduce b.dims).1 (reduce a.dims).1 = sameDims bases (reduce a.dims).1 (reduce b.dims).1)
    (y : Rat) (h : convert bases x a b = some y) : convert bases y b a = some x := by
  unfold convert at h ⊢
  generalize reduce a.dims = ra at *
  generalize reduce b.dims = rb at *
  obtain ⟨da, adja, offa⟩ := ra
  obtain ⟨db, adjb, offb⟩ := rb
  simp only at hsa hsb hsym h ⊢
  split at h
  · rename_i hs
    rw [hsym, hs]
    simp only [if_true]
    injection h with h; subst h
    congr 1
    obtain ⟨a1, a2⟩ := mul_ne_zero_iff.mp hsa
    obtain ⟨b1, b2⟩ := mul_ne_zero_iff.mp hsb
    field_simp
    ring
  · cases h

/-- going through an intermediate unit gives the same answer as converting directly -/
theorem convert_transitive (bases : List Nat) (x : Rat) (a b c : UnitV)
    (hsb : b.scale * (reduce b.dims).2.1 ≠ 0)
    (y z : Rat) (h1 : convert bases x a b = some y) (h2 : convert bases y b c = some z)
    (hac : sameDims bases (reduce a.dims).1 (reduce c.dims).1 = true) :
    convert bases x a c = some z := by
  unfold convert at h1 h2 ⊢
  generalize reduce a.dims = ra at *
  generalize reduce b.dims = rb at *
  generalize reduce c.dims = rc at *
  obtain ⟨da, adja, offa⟩ := ra
  obtain ⟨db, adjb, offb⟩ := rb
  obtain ⟨dc, adjc, offc⟩ := rc
  simp only at hsb hac h1 h2 ⊢
  split at h1
  · split at h2
    · simp only [hac, if_true]
      injection h1 with h1; injection h2 with h2; subst h1; subst h2
      congr 1
      obtain ⟨b1, b2⟩ := mul_ne_zero_iff.mp hsb
      field_simp
      ring
    · cases h2
  · cases h1

/-- plain temperatures convert affinely: 0 °C = 32 °F = 273.15 K, 100 °C = 212 °F, -40 °C = -40 °F -/
theorem temperatures_affine :
    let C : UnitV := ⟨[(celsius, 1)], 1⟩
    let Fh : UnitV := ⟨[(fahrenheit, 1)], 1⟩
    let K : UnitV := ⟨[(kelvin, 1)], 1⟩
    convert [0, 1, 2] 0 C Fh = some 32 ∧ convert [0, 1, 2] 0 C K = some (27315 / 100) ∧
    convert [0, 1, 2] 100 C Fh = some 212 ∧ convert [0, 1, 2] (-40) C Fh = some (-40) ∧
    convert [0, 1, 2] 32 Fh C = some 0 := by
  refine ⟨?_, ?_, ?_, ?_, ?_⟩ <;> decide +kernel

/-- inside sums temperatures are scaled only: `x °C + y K = (x + y) °C`, `x K + y °F = x + 5y/9 K` -/
theorem temperatures_relative_in_sums (x y : Rat) :
    addIn [0, 1, 2] x ⟨[(celsius, 1)], 1⟩ y ⟨[(kelvin, 1)], 1⟩ = some (x + y) ∧
    addIn [0, 1, 2] x ⟨[(kelvin, 1)], 1⟩ y ⟨[(fahrenheit, 1)], 1⟩ = some (x + y * (5 / 9)) := by
  constructor
  · simp [addIn, reduce, isExactly, celsius, fahrenheit, kelvin, sameDims, expOf]
  · simp [addIn, reduce, isExactly, celsius, fahrenheit, kelvin, sameDims, expOf]

/-- the ratios agree with the defining standards (regenerated table, kernel-evaluated) -/
theorem standards_agree : Fend.Gen.standards.all (fun (i, r) => Fend.C11.row i == r) = true :=
  Fend.C11.standards_hold

end Fend.C04
