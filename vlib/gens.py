"""Structured generators. Every random choice derives from the one `random.Random` passed in."""
B = 1 << 64
SPECIAL = [0, 1, 2, 3, (1 << 63), (1 << 63) - 1, B - 1, B - 2, (1 << 62), (1 << 32), (1 << 32) - 1, 0xC000000000000000]

def limb(r):
    c = r.random()
    if c < 0.45:
        return r.choice(SPECIAL)
    if c < 0.6:
        return r.randrange(0, 1000)
    return r.getrandbits(64)

def val_of(raw):
    small, limbs = raw
    return sum(x << (64 * i) for i, x in enumerate(limbs))

def raw_uint(r, maxlimbs=6, allow_empty=False):
    """(is_small, limbs): Small and Large forms, leading zero limbs, boundary values."""
    c = r.random()
    if c < 0.25:
        return (True, [limb(r)])
    if c < 0.35:
        # canonical value presented with leading zero limbs
        n = r.randint(1, maxlimbs)
        return (False, [limb(r) for _ in range(n)] + [0] * r.randint(1, 2))
    if c < 0.5:
        # 2^(64k) + {-1,0,1}
        k = r.randint(1, maxlimbs)
        v = (1 << (64 * k)) + r.choice([-1, 0, 1])
        return from_val(v, r)
    if c < 0.55:
        n = r.randint(1, maxlimbs)
        return (False, [B - 1] * n)
    if allow_empty and c < 0.57:
        return (False, [])
    n = r.randint(1, maxlimbs)
    return (False, [limb(r) for _ in range(n)])

def from_val(v, r=None, small_ok=True):
    if v < B and small_ok and (r is None or r.random() < 0.7):
        return (True, [v])
    limbs = []
    while True:
        limbs.append(v & (B - 1))
        v >>= 64
        if v == 0:
            break
    if r is not None and r.random() < 0.15:
        limbs += [0] * r.randint(1, 2)
    return (False, limbs)

def show_uint(raw):
    small, limbs = raw
    return ("S%d" % limbs[0]) if small else ("L" + ",".join(str(x) for x in limbs))

def parse_uint(s):
    if s[0] == "S":
        return (True, [int(s[1:])])
    return (False, [int(x) for x in s[1:].split(",")] if len(s) > 1 else [])

def raw_rat(r, maxlimbs=3, zero_den=False):
    neg = r.random() < 0.4
    n = raw_uint(r, maxlimbs)
    c = r.random()
    if c < 0.3:
        d = (True, [1])
    elif c < 0.4:
        d = (False, [1] + [0] * r.randint(0, 1))
    else:
        d = raw_uint(r, maxlimbs)
        if val_of(d) == 0 and not zero_den:
            d = (True, [r.randint(1, 9)])
    return (neg, n, d)

def show_rat(q):
    return ("-" if q[0] else "+") + show_uint(q[1]) + "/" + show_uint(q[2])

def parse_rat(s):
    n, d = s[1:].split("/")
    return (s[0] == "-", parse_uint(n), parse_uint(d))
