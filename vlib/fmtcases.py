"""Shared by C02 / C03: an independent reading of fend's number notation (python ints / Fractions only)."""
import re
from fractions import Fraction as F
from math import gcd
from vlib import gens

DIG = "0123456789abcdefghijklmnopqrstuvwxyz"

def digits_of(n, base):
    if n == 0:
        return "0"
    s = ""
    while n:
        s = DIG[n % base] + s
        n //= base
    return s

def val_of_digits(s, base):
    v = 0
    for c in s:
        d = DIG.index(c.lower())
        if d >= base:
            raise ValueError("digit out of range")
        v = v * base + d
    return v

def expand(r, q, base):
    """canonical positional expansion of r/q (0 <= r < q): (non-recurring digits, recurring digits) — textbook
    long division remembering where each remainder was first seen"""
    seen, ds = {}, []
    while r != 0 and r not in seen:
        seen[r] = len(ds)
        r *= base
        ds.append(DIG[r // q])
        r %= q
    if r == 0:
        return "".join(ds), ""
    k = seen[r]
    return "".join(ds[:k]), "".join(ds[k:])

def terminates(q, base):
    g = gcd(q, base)
    while g > 1:
        while q % g == 0:
            q //= g
        g = gcd(q, base)
    return q == 1

def prefix(base, kind):
    if kind == "plain":
        return ""
    if kind == "zero":
        return {2: "0b", 8: "0o", 16: "0x"}[base]
    return f"{base}#"

def strip_prefix(tok, base, kind):
    p = prefix(base, kind)
    if not tok.startswith(p):
        raise ValueError(f"missing base prefix in {tok!r}")
    return tok[len(p):]

def read_positional(tok, base, sep):
    """`I`, `I.A`, `I.A(B)`, `.A` -> Fraction"""
    m = re.fullmatch(r"([0-9a-z]*)(?:%s([0-9a-z]*)(?:\(([0-9a-z]+)\))?)?" % re.escape(sep), tok)
    if not m or (m.group(1) == "" and m.group(2) is None):
        raise ValueError(f"not positional notation: {tok!r}")
    i, a, b = m.group(1), m.group(2) or "", m.group(3)
    v = F(val_of_digits(i, base)) if i else F(0)
    if a:
        v += F(val_of_digits(a, base), base ** len(a))
    if b:
        v += F(val_of_digits(b, base), (base ** len(b) - 1) * base ** len(a))
    return v

def read_text(text, base, sep, kind="plain"):
    """the value a rendered result denotes: optional '-', then integer / decimal / `a/b` / `i a/b`"""
    neg = text.startswith("-")
    if neg:
        text = text[1:]
    parts = text.split(" ")
    def frac(t):
        if "/" in t:
            n, d = t.split("/")
            return F(val_of_digits(strip_prefix(n, base, kind), base), val_of_digits(strip_prefix(d, base, kind), base))
        return read_positional(strip_prefix(t, base, kind), base, sep)
    if len(parts) == 1:
        v = frac(parts[0])
    elif len(parts) == 2 and "/" in parts[1] and "/" not in parts[0]:
        v = F(val_of_digits(strip_prefix(parts[0], base, kind), base)) + frac(parts[1])
    else:
        raise ValueError(f"unreadable: {text!r}")
    return -v if neg else v

def canonical(style, p, q, neg, base, sep, kind="plain"):
    """the canonical exact rendering of (-1)^neg p/q (p, q coprime, q > 0), or None when the style is not exact here"""
    P = prefix(base, kind)
    sg = "-" if neg and p != 0 else ""
    if q == 1:
        return sg + P + digits_of(p, base)
    term = terminates(q, base)
    if style == "fraction" or (style == "mixed" and p < q) or (style == "exact" and not term and p < q):
        return sg + P + digits_of(p, base) + "/" + P + digits_of(q, base)
    if style == "mixed" or (style == "exact" and not term):
        return sg + P + digits_of(p // q, base) + " " + P + digits_of(p % q, base) + "/" + P + digits_of(q, base)
    if style in ("float", "exact") or (style == "auto" and term):
        a, b = expand(p % q, q, base)
        return sg + P + digits_of(p // q, base) + sep + a + (f"({b})" if b else "")
    return None

def raw(p, q, neg, r=None):
    return gens.show_rat((neg, gens.from_val(p, r), gens.from_val(q, r)))
