"""C18 — strings, JSON escaping and inline substitution preserve text faithfully."""
import json
from vlib import core

MODULE = "FendModel.Props.C18"
REL = "FendModel/Props/C18.lean"

def hx(s):
    return " ".join("%x" % ord(c) for c in s)

def unhx(l):
    l = l.strip()
    return "".join(chr(int(w, 16)) for w in l.split(" ")) if l else ""

def is_scalar(n):
    return n < 0xD800 or 0xE000 <= n < 0x110000

def json_oracle(case, impl, model):
    """independent JSON parser: the escaper's output between quotes must decode to the input"""
    src = unhx(case)
    try:
        out = unhx(impl)
    except ValueError:
        return f"implementation output not decodable: {impl!r}"
    if any(not (0x20 <= ord(c) <= 0x7e) for c in out):
        return "escaped output contains a non-printable / non-ASCII character"
    try:
        dec = json.loads('"' + out + '"')
    except Exception as e:
        return f"escaped output is not valid JSON: {e}"
    # python keeps lone surrogates; compare as code point lists after pairing
    if dec.encode("utf-16", "surrogatepass").decode("utf-16", "surrogatepass") != src:
        return f"decodes to {dec!r}, expected {src!r}"
    return None

SIMPLE = {"\\": "\\", '"': '"', "'": "'", "a": "\x07", "b": "\x08", "e": "\x1b", "f": "\x0c", "n": "\n", "r": "\r", "t": "\t", "v": "\x0b"}

def ref_strlit(src):
    """independent reading of the documented escape rules; returns text, or None for 'some error', or 'skip'"""
    term, body = src[0], src[1:]
    out, i, skip = [], 0, False
    while i < len(body):
        ch = body[i]
        if skip and ch in " \t\n\x0c\r":
            i += 1; continue
        skip = False
        if ch == term:
            return "".join(out) if i == len(body) - 1 else "skip"
        if ch != "\\":
            out.append(ch); i += 1; continue
        if i + 1 >= len(body): return None
        n = body[i + 1]; i += 2
        if n in SIMPLE: out.append(SIMPLE[n])
        elif n == "z": skip = True
        elif n == "x":
            if i + 2 > len(body): return None
            if body[i] not in "01234567" or body[i + 1] not in "0123456789abcdefABCDEF": return None
            out.append(chr(int(body[i:i + 2], 16))); i += 2
        elif n == "u":
            if i >= len(body) or body[i] != "{": return None
            j = body.find("}", i)
            if j < 0: return None
            digits = body[i + 1:j]
            if not digits or any(d not in "0123456789abcdefABCDEF" for d in digits): return None
            v = int(digits, 16)
            if v > 0x10ffff or not is_scalar(v): return None
            out.append(chr(v)); i = j + 1
        elif n == "^":
            if i >= len(body): return None
            code = ord(body[i]) % 256; i += 1
            if not 63 <= code <= 95: return None
            out.append(chr(127 if code == 63 else code - 64))
        else: return None
    return None

def strlit_oracle(case, impl, model):
    exp = ref_strlit(unhx(case))
    if exp == "skip": return None
    if exp is None:
        return None if impl.startswith("err") and impl != "err panic" else f"documented escape rules reject this literal, implementation answered {impl!r}"
    if impl.startswith("ok") and unhx(impl[2:]) == exp: return None
    return f"documented escape rules give {exp!r}, implementation answered {impl!r}"

ATOMS_PLAIN = list("abcXYZ019 ._-+*/()[]{}<>!?#$%&=~^|;:,@`") + ["é", "中", "\U0001F600", "\U00020BB7"]
WS = [" ", "\t", "\n", "\r", "\x0c"]
ESC = ["\\\\", "\\\"", "\\'", "\\a", "\\b", "\\e", "\\f", "\\n", "\\r", "\\t", "\\v", "\\z"]

def gen_strlit(r):
    term = r.choice(['"', "'"])
    n = r.randint(0, 9)
    body = []
    for _ in range(n):
        c = r.random()
        if c < 0.3:
            ch = r.choice(ATOMS_PLAIN)
            body.append(ch)
        elif c < 0.45:
            body.append(r.choice(WS))
        elif c < 0.7:
            body.append(r.choice(ESC))
        elif c < 0.78:
            body.append("\\x%s%s" % (r.choice("01234567" if r.random() < 0.9 else "89af"), r.choice("0123456789abcdefABCDEF" if r.random() < 0.95 else "gz")))
        elif c < 0.88:
            v = r.choice([0, 0x41, 0x7e, 0x7f, 0xff, 0xd7ff, 0xd800, 0xdfff, 0xe000, 0xffff, 0x10000, 0x1F600, 0x20BB7, 0x10ffff, 0x110000, r.randrange(0, 0x110000)])
            digits = "%x" % v if r.random() < 0.8 else "%06X" % v
            body.append("\\u{" + digits + "}" if r.random() < 0.93 else r.choice(["\\u{}", "\\u{zz}", "\\u41", "\\u{12"]))
        elif c < 0.95:
            body.append("\\^" + r.choice("@ABHZ[\\]^_?" if r.random() < 0.9 else "a1 ŀ"))
        else:
            body.append("\\" + r.choice("qwy08 "))
    b = "".join(body)
    # the body must not contain the bare terminator (escaped ones are fine); strip unescaped ones
    out, i = [], 0
    while i < len(b):
        if b[i] == "\\" and i + 1 < len(b):
            out.append(b[i:i + 2]); i += 2
        elif b[i] == term:
            i += 1
        else:
            out.append(b[i]); i += 1
    b = "".join(out)
    if r.random() < 0.95:
        b += term
    return hx(term + b)

DOC_ATOMS = ["[[", "]]", "`", "[", "]", "1+1", "2 * 3", "x = 5", "x", "a b", "\"s\"", "1/0", " ", "\n", "text", "é", "\U00020BB7",
             "\"q\\\"\"", "\\", "3 kg to g", "@debug 1", "[[1]]"]

def gen_doc(r):
    n = r.randint(0, 14)
    return hx("".join(r.choice(DOC_ATOMS) for _ in range(n)))

def run(ctx):
    quick = ctx.tier == "quick"
    ctx.lean_build([MODULE])
    ctx.audit(MODULE, REL)
    if not quick:
        ctx.leanchecker(MODULE)
    h = ctx.harness()
    if h is None:
        ctx.proof_failures.append({"file": "harness", "decl": "harness build (verif-hooks)", "line": 0,
                                   "msg": getattr(ctx, "harness_error", "")})
        return ctx.finish()
    r = ctx.rng
    # ---- 1. escape_string on single scalars (exhaustive in the thorough tier)
    if quick:
        cps = list(range(0, 0x3000)) + [0xd7ff, 0xe000, 0xfffd, 0xfffe, 0xffff, 0x10000, 0x10001, 0x1ffff, 0x20000, 0x2ffff,
                                         0x30000, 0xeffff, 0xf0000, 0x100000, 0x10fffe, 0x10ffff]
        cps += [p * 0x10000 + o for p in range(17) for o in (0, 1, 0x3ff, 0x400, 0xfffe, 0xffff) if is_scalar(p * 0x10000 + o)]
        while len(cps) < 0x3000 + 50200:
            v = r.randrange(0, 0x110000)
            if is_scalar(v):
                cps.append(v)
    else:
        cps = [v for v in range(0x110000) if is_scalar(v)]
    lines = ["%x" % v for v in cps]
    ctx.diff_stream("json-scalars", lines, h, "json", oracle=json_oracle,
                    nontrivial=lambda c, a: not (0x20 <= int(c, 16) <= 0x7e),
                    what="json::escape_string on every single Unicode scalar value" + ("" if quick else " (exhaustive: all 1,112,064)")
                         + "; implementation vs Lean model, and vs Python's json decoder (independent spec)")
    # ---- 2. random mixtures
    pool = [0, 9, 10, 13, 0x1f, 0x20, 0x22, 0x5c, 0x2f, 0x7e, 0x7f, 0x80, 0xff, 0x2028, 0xd7ff, 0xe000, 0xffff, 0x10000, 0x1d54a, 0x20bb7, 0x10ffff]
    mix = []
    for _ in range(3000 if quick else 100000):
        n = r.randint(0, 12)
        mix.append(" ".join("%x" % (r.choice(pool) if r.random() < 0.6 else next(v for v in iter(lambda: r.randrange(0x110000), None) if is_scalar(v))) for _ in range(n)))
    cov = ctx.diff_stream("json-mixtures", mix, h, "json", oracle=json_oracle, nontrivial=lambda c, a: len(c) > 0,
                          what="json::escape_string on random mixtures incl. controls, quotes, surrogate-adjacent and astral characters")
    # ---- 3. the Lean specification decoder agrees with the independent parser on the implementation's outputs
    impl_out = ctx.run_lines(h, ["json"], mix[:1500])[1]
    quoted = ["22 " + o + (" " if o else "") + "22" for o in impl_out]
    quoted = [q.replace("  ", " ") for q in quoted]
    dec = ctx.run_lines(core.DRIVER, ["jsondec"], quoted)[1]
    bad = 0
    for src, d in zip(mix[:1500], dec):
        want = "some " + " ".join(w for w in src.split(" ") if w)
        if d.strip() != want.strip():
            bad += 1
            ctx.model_disagreements.append({"stream": "jsondec-spec", "input": src, "impl": d, "model": want})
    ctx.record_stream("jsondec-spec", "Lean RFC 8259 decoder (the spec of json_roundtrip) applied to the implementation's escaped output returns the input",
                      len(quoted), len(set(quoted)), {"mismatch": bad}, quoted[:2], 0)
    # ---- 4. string literals through the public API
    lits = [gen_strlit(r) for _ in range(6000 if quick else 150000)]
    lits = ["22 61 5c 7a 20 5c 74 20 62 22"] + lits
    ctx.diff_stream("string-literals", lits, h, "strlit", oracle=strlit_oracle,
                    canon=lambda a, b, c: (a.strip(), b.strip()) if b != "skip" else ("skip", "skip"),
                    nontrivial=lambda c, a: "5c" in c.split(" "),
                    what="grammar-generated string literals (all escape kinds, \\z skipping, both quote styles, malformed forms) evaluated "
                         "through fend_core::evaluate; result text / error class vs the Lean model of parse_string_literal")
    # ---- 5. inline substitution
    docs = [gen_doc(r) for _ in range(2500 if quick else 60000)]
    t0 = __import__("time").time()
    impl = ctx.run_lines_robust(h, ["inline"], docs)
    model = ctx.run_lines(core.DRIVER, ["inline"], docs)[1]
    seqs = []
    for m in model:
        srcs = ["E" + p[1:] for p in m.split("|") if p.startswith("E")]
        seqs.append("|".join(srcs))
    evals = ctx.run_lines_robust(h, ["evalseq"], seqs)
    dist = {"docs": len(docs), "with_expr": 0, "json_invalid": 0, "structure_mismatch": 0, "contents_mismatch": 0}
    for doc, im, mo, ev in zip(docs, impl, model, evals):
        mparts = [p for p in mo.split("|")] if mo else []
        exp = []
        evl = ev.split("|") if ev else []
        k = 0
        for p in mparts:
            if p.startswith("U"):
                exp.append(("unprocessed", unhx(p[1:])))
            else:
                e = evl[k] if k < len(evl) else "?"
                k += 1
                exp.append(("fend_output" if e.startswith("O") else "fend_error", unhx(e[1:]) if e[:1] in "OX" else None))
        if k:
            dist["with_expr"] += 1
        if im == "panic" or "#" not in im:
            ctx.spec_failures.append({"stream": "inline", "input": doc, "impl": im, "model": mo, "spec": "inline substitution panicked / produced no output"})
            continue
        parts_s, js = im.split("#", 1)
        contents = [unhx(p[1:]) for p in parts_s.split("|")] if parts_s else []
        try:
            arr = json.loads(unhx(js))
            got = [(o["type"], o["contents"]) for o in arr]
            if [c for _, c in got] != contents:
                raise ValueError("json parts differ from get_contents")
        except Exception as e:
            dist["json_invalid"] += 1
            ctx.spec_failures.append({"stream": "inline", "input": doc, "impl": im, "model": mo, "spec": f"to_json is not valid JSON with the same parts: {e}"})
            continue
        if got != exp:
            # structure (which text is outside / which is evaluated) vs contents
            if [t for t, _ in got] != [t for t, _ in exp] or [c for t, c in got if t == "unprocessed"] != [c for t, c in exp if t == "unprocessed"]:
                dist["structure_mismatch"] += 1
            else:
                dist["contents_mismatch"] += 1
            ctx.spec_failures.append({"stream": "inline", "input": doc, "impl": str(got), "model": str(exp),
                                      "spec": "parts differ from scanner model + independent evaluation of each [[expr]] in order"})
    ctx.record_stream("inline", "documents with nested/unbalanced brackets and backticks: parts (kind, contents) from to_json/get_contents vs the Lean scanner "
                      "model, evaluated parts vs an independent sequential evaluation of the model's sources, JSON validity via Python's json",
                      len(docs), len(set(docs)), dist, docs[:2], __import__("time").time() - t0)
    return ctx.finish(rule="scalars: enumerated (all in thorough tier); non-trivial = outside printable ASCII. mixtures/literals/documents: grammar-generated, "
                           "distinct = distinct case lines, non-trivial = contains an escape / a non-empty text / any text",
                      extra={"exhaustive": (not quick)})

def replay(ctx, rep):
    h = ctx.harness()
    f = rep["first"]
    st = {"json-scalars": "json", "json-mixtures": "json", "string-literals": "strlit", "inline": "inline"}.get(f["stream"], "json")
    print("case :", f["input"], "=", repr(unhx(f["input"])))
    print("impl :", ctx.run_lines(h, [st], [f["input"]])[1])
    print("model:", ctx.run_lines(core.DRIVER, [st], [f["input"]])[1])
    return 0
