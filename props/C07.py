"""C07 — evaluation is promptly interruptible and interruption leaves state sane."""
import re, time
from vlib import core

MODULE = "FendModel.Props.C07"
REL = "FendModel/Props/C07.lean"
GAP_MS = 1500          # "the time between successive checks stays bounded": what we call unbounded in this (unoptimised-ish) build
AFTER_MS = 1500        # "after a small bounded amount of further work"
EXTRA_POLLS = 4        # ... counted in calls of the predicate after the one that first said stop

def hx(s): return s.encode().hex()

def heavy_inputs(quick):
    """(name, text): work-heavy inputs of the kinds the property lists; each runs 10 ms .. a few s uninterrupted"""
    L = [
        ("huge-power", "va = 7^6000; vb = va mod 1000; vb"),
        ("power-chain", "va = 3^4000; vb = 5^4000; vc = va * vb; vc mod 997"),
        ("factorial", "va = 700!; vb = va / 699!; vb"),
        ("shift", "va = 1 << 12000; vb = va >> 11990; vb"),
        ("shift-n", "va = (2^64 + 1) << 9000; vb = va >> 8999; vb"),
        ("dice", "va = 10d10; vb = mean(va); vb"),
        ("dice-arith", "va = 6d6 * 2d6; vb = 5; vb"),
        ("recurring", "va = 1/9973; vb = va to float; vb"),
        ("long-dp", "va = 1/7; vb = va to 3000 dp; 1"),
        ("fibonacci", "va = fibonacci 15000; vb = va mod 1000; vb"),
        ("date-loop", "va = @2000-01-01 + 100000 days; vb = 3; va"),
        ("date-sub", "va = @2000-01-01 - 100000 days; vb = 3; vb"),
        ("words", "va = 10^60 - 1; vb = va to words; 2"),
        ("rational-power", "va = (3/2)^150; vb = va to 5 sf; 1"),
        ("root", "va = 2^(1/7); vb = va^7; vb"),
        ("gcd-sum", "va = 1/3^150 + 1/7^150 + 1/11^150; vb = va * 3^150; 1"),
        ("unit-conv", "va = 1 km == 1000 m; vb = 1 mile == 5280 ft; vb"),
        ("unit-compare", "va = 3 kg == 3000 g; vb = (1 hour == 3600 s); va"),
        ("pi-digits", "va = pi to 20 dp; vb = 2; vb"),
        ("exp", "va = exp 12; vb = ln 50; vb"),
        ("hex-format", "va = 7^4000 to hex; vb = 1; vb"),
        ("base-format", "va = 3^4000 to base 36; vb = 1; vb"),
        ("assign-then-fail", "va = 7^4000; vb = 1/0; vc = 5"),
        ("sum-chain", "va = " + " + ".join(str(i) for i in range(1, 300)) + "; vb = va * 2; vb"),
        ("juxtaposed-parse", "va = " + " ".join(["2"] + ["x"] * 0) + "3; vb = 1" ),
        ("deep-juxtapose", "va = " + "(2)" * 200 + "; vb = 1; vb"),
        ("modpow", "va = (7^5000) mod (2^127 - 1); vb = va; vb"),
        ("nCr", "va = 400 nCr 200; vb = va mod 10; vb"),
        ("complex-pow", "va = (1 + i)^3000; vb = real(va); 1"),
        ("sqrt-big", "va = sqrt(10^300 + 1); vb = 1; vb"),
    ]
    if not quick:
        L += [("huge-power-2", "va = 3^300000; vb = 2; vb"), ("factorial-2", "va = 20000!; vb = 1; vb"), ("dice-2", "va = 22d22; vb = 1; vb"), ("recurring-2", "va = 1/99991 to float; vb = 1; vb"),
              ("fibonacci-2", "va = fibonacci 300000; vb = 1; vb"), ("date-loop-2", "va = @2000-01-01 + 5000000 days; vb = 1; vb")]
    # inputs whose work is all in the parser (which has no interrupt parameter)
    P = [("parse-plus-chain-1500", "+".join(["1"] * 1500)), ("parse-minus-mul-chain", "-".join(["2*3"] * 700)), ("parse-juxtapose-1500", " ".join(["2 m"] * 750)), ("parse-string-concat-1500", "+".join(["'a'"] * 1500)), ("parse-nested-parens", "(1+" * 150 + "1" + ")" * 150)]
    return L, P

FUNC_EQ = ["(x: x + 1) == (x: x + 1)", "(\\x. 2x) != (\\x. 2x)", "lhs_fn = (x: 3 x^2); rhs_fn = (x: 3 x^2); verdict = (lhs_fn == rhs_fn); verdict", "(x: x + 1) == (x: x + 2)", "sin == sin", "sin != cos",
           "(x: y: x y) == (x: y: x y)", "f = x: x^2 + 1; g = x: x^2 + 1; f == g", "1 == 1", "2 m == 200 cm", "3 kg != 3000 g", "true == true", "'a' == 'a'", "@2020-01-01 == @2020-01-01", "() == ()", "(1, 2) == (1, 2)",
           "{a: 1} == {a: 1}", "[1, 2] == [1, 2]", "1 < 2", "2 m > 100 cm", "1/3 <= 0.34", "pi >= 3", "not (1 == 2)", "if 1 == 1 then 2 else 3", "(x: if x == 1 then 'one' else 'other') 1", "5 == 5 == true",
           "(1 + i) == (1 + i)", "1 km == 1000 m == true", "sqrt 2 == sqrt 2", "(x: sqrt x) == (x: sqrt x)", "(x: x 2 m) != (x: x 2 m)", "d6 == d6", "va = (x: 2 x) == (x: 2 x); vb = not va; vb",
           "sin(90 degrees)", "cos(180 deg)", "tan(45 °)", "sin(30°) + cos(60°)", "sin(1 turn / 4)", "sin(100 gradians)", "cos(pi/3)", "sin(pi/6 rad)", "tan(pi/4)", "sin(2)", "cos^2 pi", "sin 1°", "asin(sin(30°))",
           "1 light_year to m", "5 us_gal to L", "1 metric_ton to kg", "3 troy_oz to g", "i^5", "i^(2^20+3)", "(2i)^7", "(1+i)^i", "1 J/K to eV/K", "5 kg m^2 s^-2", "1 kWh to J", "100 km/h to m/s", "1 N m to J"]
RANDOM_OR_CLOCK = re.compile(r"roll|sample|today|now|tomorrow|yesterday|d\d|\dd\b", re.I)

def breadth_inputs(quick, r):
    """light inputs across every feature (the pinned suite's own inputs, the manual's examples, edge forms, equality of every value kind): the predicate
    is made to fire at EVERY poll of each, so a swallowed or mis-mapped interrupt anywhere in the evaluator shows up as a wrong answer"""
    from props import C06
    suite, manual = C06.suite_inputs()
    pool = [t for t in suite + manual + list(C06.FORMS) if not RANDOM_OR_CLOCK.search(t) and "\n" not in t and len(t) <= 100]
    pool = sorted(set(pool))
    pick = r.sample(pool, min(len(pool), 260 if quick else 700))
    texts = list(dict.fromkeys([x for x in FUNC_EQ if not RANDOM_OR_CLOCK.search(x)] + pick))
    return [(f"breadth[{t}]", t) for t in texts]

FIELD = re.compile(r"res=(\S*) polls=(\d+) fired=(\d) gap_us=(\d+) after_fire_us=(\d+) total_us=(\d+) vars=(.*)$")

def parse(o):
    m = FIELD.match(o)
    if not m:
        return None
    vars_ = dict(kv.split("=", 1) for kv in m.group(7).split("|"))
    return {"res": m.group(1), "polls": int(m.group(2)), "fired": m.group(3) == "1", "gap_ms": int(m.group(4)) / 1000, "after_ms": int(m.group(5)) / 1000, "total_ms": int(m.group(6)) / 1000, "vars": vars_}

def run(ctx):
    quick = ctx.tier == "quick"
    h = ctx.harness()
    if h is None:
        ctx.proof_failures.append({"file": "harness", "decl": "harness build", "line": 0, "msg": getattr(ctx, "harness_error", "")})
        return ctx.finish()
    # Tie A: the loops of the tree under test, classified by how they answer to the interrupt
    import translator.poll_sites as poll_sites
    poll_sites.generate()
    ctx.lean_build([MODULE])
    ctx.audit(MODULE, REL)
    if not quick:
        ctx.leanchecker(MODULE)
    t0 = time.time()
    r = ctx.rng
    heavy, parse_only = heavy_inputs(quick)
    breadth = breadth_inputs(quick, r)
    allin = heavy + parse_only + breadth
    is_breadth = {n for n, _ in breadth}
    # 1. uninterrupted reference runs
    hp = heavy + parse_only
    ref_lines = [f"eval never {hx(t)}" for _, t in allin] + [f"preview never {hx(t)}" for _, t in allin]
    out_hp = ctx.run_lines_robust(h, ["intr"], [f"eval never {hx(t)}" for _, t in hp] + [f"preview never {hx(t)}" for _, t in hp], env={"HARNESS_LINE_TIMEOUT_S": "120"})
    out_b = ctx.run_lines_robust(h, ["intr"], [f"eval never {hx(t)}" for _, t in breadth] + [f"preview never {hx(t)}" for _, t in breadth], env={"HARNESS_LINE_TIMEOUT_S": "3"})
    ref_out = out_hp[:len(hp)] + out_b[:len(breadth)] + out_hp[len(hp):] + out_b[len(breadth):]
    ref = {}
    dist = {"inputs": len(allin), "firing_points": 0, "interrupted": 0, "finished_same": 0, "max_gap_ms": 0.0, "max_after_fire_ms": 0.0, "polls_uninterrupted": {}, "preview_runs": 0}
    for idx, ((name, t), o) in enumerate(zip(allin + allin, ref_out)):
        mode = "eval" if idx < len(allin) else "preview"
        p = parse(o)
        ref[(mode, name)] = p
        if p is None:
            if name not in is_breadth:
                ctx.spec_failures.append({"stream": "interrupt", "input": f"heavy: {name} ({mode}, never fired)", "impl": o[:200], "model": "a result", "spec": "the uninterrupted run finishes (within 120 s)"})
            continue
        if mode == "eval":
            if name not in is_breadth: dist["polls_uninterrupted"][name] = p["polls"]
            dist["max_gap_ms"] = max(dist["max_gap_ms"], p["gap_ms"])
        if p["gap_ms"] > GAP_MS:
            ctx.spec_failures.append({"stream": "interrupt", "input": f"gap: {name} ({mode})", "impl": f"{p['gap_ms']:.0f} ms without a single check of the predicate ({p['polls']} checks in {p['total_ms']:.0f} ms)", "model": f"<= {GAP_MS} ms",
                                      "spec": "while running, the time between successive checks of the predicate stays bounded for every input"})
    # 1b. unbounded work under a deadline: the predicate turns true 200 ms after the start (a Ctrl-C, the CLI's hint budget, the web
    # timeout); a loop that polls stops within milliseconds of the deadline, a loop that lost its poll does not come back
    unbounded = [("days+", "@2000-01-01 + 10^12 days"), ("days-", "@2000-01-01 - 10^12 days"), ("weeks", "@2000-01-01 - 10^11 weeks"), ("months", "@2000-01-01 - 10^12 months"), ("years", "@2000-01-01 - 10^9 years"),
                 ("dice", "100000d100000"), ("dice-product", "1000d1000 * 1000d1000"), ("dice-mean", "mean(500d500)"), ("fibonacci", "fibonacci 10^9"), ("shift-right", "(1 << 10^7) >> 9999999"), ("shift-left", "1 << (2 * 10^8)"),
                 ("power", "3^(10^9)"), ("recurring", "1/(10^9+7) to float"), ("root", "2^0.12345"), ("exp", "exp 0.12345"), ("nCr", "10^6 nCr 500000"), ("nPr", "10^6 nPr 500000"), ("implicit-sum", " ".join(["2 m"] * 30000)),
                 ("decimal-places", "1/7 to 100000000 dp"), ("sig-figs", "pi to 1000000 sf"), ("hex", "3^(10^7) to hex"), ("base3", "(10^(10^6)) to base 3"), ("gcd", "(3^(10^6)+1)/(7^(10^6)+1) + 1"), ("mod", "3^(10^7) mod (2^521-1)"),
                 ("compare", "3^(10^6) == 3^(10^6) + 1"), ("sqrt", "sqrt(10^(10^6))"), ("lambda", "(x: x^(10^8)) 3"), ("unit-power", "(3 kg)^(10^8)"), ("to-string", '"a" + (3^(10^7) to string)'), ("factorial", "(10^6)!"),
                 ("words", "(10^3000 - 1) to words"), ("unit-convert", "3^(10^7) km to mm"), ("roman", "10^9 to roman"), ("statements", "va = 3^(10^7); vb = 5^(10^7); va * vb"), ("log2", "log2(1 << 1000000)"), ("log10", "log10(1 << 800000)"), ("ln", "ln(1 << 900000)"), ("bits-of-power", "log2(3^(10^6))"), ("preview:power", "3^(10^9)"), ("preview:days", "@2000-01-01 + 10^12 days")]
    lines_d = [f"{'deadline-preview' if n.startswith('preview:') else 'deadline'} 200 {hx(t)}" for n, t in unbounded]
    outs_d = ctx.run_lines_robust(h, ["intr"], lines_d, env={"HARNESS_LINE_TIMEOUT_S": "25"})
    dist["deadline_probes"] = {}
    for (name, t), o in zip(unbounded, outs_d):
        p = parse(o)
        if p is None:
            dist["deadline_probes"][name] = o[:60]
            ctx.spec_failures.append({"stream": "interrupt", "input": f"deadline: {name}", "impl": o[:200], "model": "err:interrupted shortly after 200 ms", "spec": "once the predicate returns true evaluation stops after a small bounded amount of further work (it had not returned 25 s later)"}); continue
        late = p["total_ms"] - 200 if p["fired"] or p["total_ms"] > 200 else 0
        dist["deadline_probes"][name] = {"polls": p["polls"], "late_ms": round(late, 1), "res": p["res"][:24]}
        if late > AFTER_MS:
            ctx.spec_failures.append({"stream": "interrupt", "input": f"deadline: {name}", "impl": f"returned {late:.0f} ms after the deadline ({p['polls']} checks of the predicate in {p['total_ms']:.0f} ms)", "model": f"<= {AFTER_MS} ms",
                                      "spec": "the time between successive checks of the predicate stays bounded / evaluation stops promptly once it returns true"})
        if p["fired"] and p["res"] not in ("err:interrupted",) and not name.startswith("preview:"):
            ctx.spec_failures.append({"stream": "interrupt", "input": f"deadline: {name}", "impl": p["res"], "model": "err:interrupted", "spec": "stops with the error 'interrupted'"})
    # breadth inputs must be deterministic (no dice, no clock): a second reference run has to agree, otherwise the input is left out
    live = [(n, t) for n, t in breadth if ref.get(("eval", n)) is not None and ref.get(("preview", n)) is not None]
    for n, t in breadth:
        if (n, t) not in live:
            ref[("eval", n)] = ref[("preview", n)] = None
    ref2 = ctx.run_lines_robust(h, ["intr"], [f"eval never {hx(t)}" for _, t in live] + [f"preview never {hx(t)}" for _, t in live], env={"HARNESS_LINE_TIMEOUT_S": "3"})
    dropped = costly = 0
    for idx, o in enumerate(ref2):
        name = live[idx % len(live)][0]
        mode = "eval" if idx < len(live) else "preview"
        p1, p2 = ref.get((mode, name)), parse(o)
        if p1 is not None and (p2 is None or p2["res"] != p1["res"] or p2["polls"] != p1["polls"] or p2["vars"] != p1["vars"]):
            ref[(mode, name)] = None; dropped += 1
        elif p1 is not None and (p1["total_ms"] > 25 or p1["polls"] > 3000):
            ref[(mode, name)] = None; costly += 1    # heavy work is the other family's job; every-poll sweeps need cheap inputs
    dist["breadth_inputs"] = len(breadth); dist["breadth_left_out_nondeterministic"] = dropped; dist["breadth_left_out_costly"] = costly
    # 2. every / sampled firing point
    lines, meta = [], []
    for name, t in allin:
        for mode in ("eval", "preview"):
            p = ref.get((mode, name))
            if p is None: continue
            n = p["polls"]
            if name in is_breadth:
                ks = set(range(0, min(n, 150 if quick else 200))) | {n}
                if mode == "preview":
                    ks = set(list(sorted(ks))[:: 4])
                for k in sorted(ks):
                    lines.append(f"{mode} {k} {hx(t)}"); meta.append((name, mode, k, t))
                continue
            ks = set(range(0, min(n, 40 if quick else 120)))
            ks |= {n - 1 - i for i in range(0, min(n, 25 if quick else 40))}
            ks |= {r.randrange(n) for _ in range(30 if quick else 100)} if n > 0 else set()
            ks |= {n, n + 5}
            if mode == "preview":
                ks = set(list(sorted(ks))[:: 3])
            for k in sorted(x for x in ks if x >= 0):
                lines.append(f"{mode} {k} {hx(t)}"); meta.append((name, mode, k, t))
    outs = ctx.run_lines_robust(h, ["intr"], lines, env={"HARNESS_LINE_TIMEOUT_S": "120"})
    # the driver materialises each synthetic trace (up to millions of events for the heaviest inputs): feed it in batches of bounded total size
    # the synthetic trace the model runs is uniform: for firing points beyond CAP polls the same question is asked CAP polls into a trace
    # (a 17-million-poll run would otherwise make the driver build a 50-million-event list); `shift` maps the model's answer back
    CAP = 300_000
    def capped(n, k):
        if k <= CAP: return (n, k, 0)
        d = k - CAP
        return (max(n - d, 0), CAP, d)
    mtriples = [capped(ref[(m[1], m[0])]['polls'], m[2]) for m in meta]
    mlines = [(n, k) for n, k, _ in mtriples]
    model, batch, weight = [], [], 0
    def flush():
        nonlocal batch, weight
        if batch:
            rc, o, e = ctx.run_lines(core.DRIVER, ["intr"], batch, timeout=900)
            o += ["<missing>"] * (len(batch) - len(o))
            model.extend(o[:len(batch)])
        batch, weight = [], 0
    for n, k in mlines:
        batch.append(f"{n} {k}"); weight += min(n, k + 2)
        if weight > 6_000_000 or len(batch) >= 5000: flush()
    flush()
    model += ["<missing>"] * (len(lines) - len(model))
    def unshift(mo, d):
        mm = re.match(r"(interrupted|finished) polls=(\d+)(.*)", mo)
        return f"{mm.group(1)} polls={int(mm.group(2)) + d}{mm.group(3)}" if (mm and d) else mo
    model = [unshift(mo, tr[2]) for mo, tr in zip(model, mtriples)]
    for (name, mode, k, t), o, mo in zip(meta, outs, model):
        dist["firing_points"] += 1
        if mode == "preview": dist["preview_runs"] += 1
        rp = ref[(mode, name)]
        p = parse(o)
        tag = f"{name} ({mode}, predicate true from call {k} on; {rp['polls']} calls when uninterrupted)"
        if p is None:
            ctx.spec_failures.append({"stream": "interrupt", "input": "fire: " + tag, "impl": o[:200], "model": "interrupted", "spec": "evaluation stops with 'interrupted' or finishes normally"}); continue
        dist["max_after_fire_ms"] = max(dist["max_after_fire_ms"], p["after_ms"])
        interrupted = p["res"] == "err:interrupted" if mode == "eval" else (p["fired"] and p["res"] != rp["res"])
        if mode == "eval":
            if p["res"] == "err:interrupted":
                dist["interrupted"] += 1
            elif p["res"] == rp["res"]:
                dist["finished_same"] += 1
            else:
                ctx.spec_failures.append({"stream": "interrupt", "input": "fire: " + tag, "impl": p["res"], "model": f"err:interrupted or {rp['res']}",
                                          "spec": "once the predicate returns true, evaluation stops with 'interrupted' or finishes with the same result an uninterrupted run gives"})
            # the model: fired within the polls of the uninterrupted run => interrupted AT that poll
            want = f"interrupted polls={k + 1}" if k < rp["polls"] else f"finished polls={rp['polls']}"
            got = ("interrupted" if p["res"] == "err:interrupted" else "finished") + f" polls={p['polls']}"
            if not mo.startswith(want) or got != want:
                # a run may legitimately finish although the predicate fired late (the last polls can be skipped by short-cuts); what may not happen is polling on after the stop
                # The trace model stops AT the poll that fires (k+1 calls).  fend has a few places that catch every error of a sub-computation, the
                # interrupt included, and fall back to another path (sin/cos/tan's angle conversion, the exact-trig table lookup, `a_b` unit lookup):
                # there the predicate is called again before the run stops.  The property allows "a small bounded amount of further work", so up to
                # EXTRA_POLLS further calls are accepted and counted; more than that is a run that kept going after being told to stop.
                extra = p["polls"] - (k + 1)
                if p["res"] == "err:interrupted":
                    dist["max_polls_after_fire"] = max(dist.get("max_polls_after_fire", 0), extra)
                    if extra > 0: dist["runs_with_polls_after_fire"] = dist.get("runs_with_polls_after_fire", 0) + 1
                if p["res"] == "err:interrupted" and not (0 <= extra <= EXTRA_POLLS):
                    ctx.spec_failures.append({"stream": "interrupt", "input": "fire: " + tag, "impl": got, "model": mo, "spec": f"stops after a small bounded amount of further work (at most {EXTRA_POLLS} further checks of the predicate)"})
                elif not mo.startswith(("interrupted polls=", "finished polls=")):
                    ctx.model_disagreements.append({"stream": "interrupt", "input": "fire: " + tag, "impl": got, "model": mo})
        # prompt
        if p["fired"] and p["after_ms"] > AFTER_MS:
            ctx.spec_failures.append({"stream": "interrupt", "input": "fire: " + tag, "impl": f"returned {p['after_ms']:.0f} ms after the predicate first said stop", "model": f"<= {AFTER_MS} ms",
                                      "spec": "stops after a small bounded amount of further work"})
        # sane state
        v, rv = p["vars"], rp["vars"]
        if v.get("pre") != "11" or v.get("1+1") != "2":
            ctx.spec_failures.append({"stream": "interrupt", "input": "fire: " + tag, "impl": f"pre={v.get('pre')} 1+1={v.get('1+1')}", "model": "pre=11 1+1=2", "spec": "afterwards the context is still usable and earlier variables are intact"})
        if mode == "preview":
            for nm in ("va", "vb", "vc", "_", "ans"):
                if not v.get(nm, "").startswith("!") and nm in ("va", "vb", "vc") or (nm in ("_", "ans") and v.get(nm) != "11"):
                    ctx.spec_failures.append({"stream": "interrupt", "input": "fire: " + tag, "impl": f"{nm}={v.get(nm)}", "model": "as before the preview", "spec": "a preview leaves no trace, interrupted or not"}); break
        else:
            order = ["va", "vb", "vc"]
            seen_unset = False
            for nm in order:
                cur, full = v.get(nm, ""), rv.get(nm, "")
                unset = cur.startswith("!")
                if not unset and cur != full:
                    ctx.spec_failures.append({"stream": "interrupt", "input": "fire: " + tag, "impl": f"{nm}={cur}", "model": f"unset or {full}", "spec": "no variable holds a partial value: assignments of completed statements are intact"}); break
                if not unset and seen_unset and not full.startswith("!"):
                    ctx.spec_failures.append({"stream": "interrupt", "input": "fire: " + tag, "impl": f"{nm} set although an earlier statement's variable is not", "model": "prefix of the statements", "spec": "statements complete in order"}); break
                if unset and not full.startswith("!"): seen_unset = True
            # `_`/`ans` are stored once the value is complete, before it is formatted: an interrupt during formatting leaves the
            # complete value there — never anything else
            if v.get("_") not in ("11", rv.get("_")) or v.get("ans") != v.get("_"):
                ctx.spec_failures.append({"stream": "interrupt", "input": "fire: " + tag, "impl": f"_={v.get('_')} ans={v.get('ans')}", "model": f"both 11 or both {rv.get('_')}", "spec": "`_`/`ans` hold the previous result or the complete new one, never a partial value"})
    ctx.record_stream("interrupt", "work-heavy inputs of every kind the property lists (huge powers, factorials, shifts, dice, recurring expansions, date loops, long parses, formatting in other bases, unit comparisons, ...) as "
                      "three-statement programs: an uninterrupted reference run (poll count, largest time between polls), then the predicate made to fire at every early / late call and at random calls in between, for "
                      "evaluate and for preview: result must be 'interrupted' or the reference result, return must be prompt, exactly k+1 polls are made (Lean trace machine), `pre` intact, context usable, each of "
                      "va/vb/vc unset or complete and in statement order, `_`/`ans` untouched by an interrupted run, previews traceless", len(ref_lines) + len(lines), len(set(lines)), dist, lines[:3], time.time() - t0)
    return ctx.finish(rule="quick: ~95 firing points per heavy input x 34 inputs x {eval, preview/3} + every poll (<= 150) of ~290 light inputs; thorough: ~260 per heavy input x 40 inputs + every poll (<= 200) of ~730 light inputs")

def replay(ctx, rep):
    print(rep["first"]); return 0
