/-
Character-level round trip: the lexer's number scanner, run on the TEXT the renderer produces, recovers exactly the digit
groups the renderer emitted — for integers in every base with each prefix style (`0b`/`0o`/`0x`, `n#`, plain decimal) and
for recurring expansions `I.A(B)` — so that, with the digit-group theorems of C02, the text reads back as the value.
-/
import FendModel.Proofs.Format

namespace Fend.NumLit
open Fend.Fmt

theorem digit_rt : ∀ d : Fin 36, ∀ b : Fin 37, d.val < b.val → digitOf (digitChar d.val) b.val = some d.val := by decide

theorem digit_plain : ∀ d : Fin 36, (digitChar d.val == '_') = false ∧ (digitChar d.val == ',') = false ∧
    (digitChar d.val == '.') = false ∧ (digitChar d.val == '(') = false ∧ (digitChar d.val == ')') = false := by decide

theorem digit10_not_d : ∀ d : Fin 10, digitChar d.val ≠ 'd' := by decide

theorem digitOf_digitChar (d b : Nat) (hd : d < b) (hb : b ≤ 36) : digitOf (digitChar d) b = some d :=
  digit_rt ⟨d, by omega⟩ ⟨b, by omega⟩ hd

/-- the thousands separator and the decimal separator are `,` and `.` in one order or the other -/
def SepOK (sep th : Char) : Prop := (sep = '.' ∧ th = ',') ∨ (sep = ',' ∧ th = '.')

theorem isSep_digitChar (d : Nat) (hd : d < 36) (th : Char) (hth : th = ',' ∨ th = '.') : isSep (digitChar d) th = false := by
  obtain ⟨h1, h2, h3, _, _⟩ := digit_plain ⟨d, hd⟩
  rcases hth with rfl | rfl <;> simp [isSep, h1, h2, h3]

/-- the scanner's view of what follows a digit run: nothing, or a character that is neither a digit of the base nor a separator -/
def Ends (b : Nat) (th : Char) (rest : List Char) : Prop :=
  rest = [] ∨ ∃ c r, rest = c :: r ∧ digitOf c b = none ∧ isSep c th = false

theorem intLoop_scan (allowSep : Bool) (b : Nat) (hb : b ≤ 36) (th : Char) (hth : th = ',' ∨ th = '.')
    (ds : List Nat) (hds : ∀ d ∈ ds, d < b) (rest : List Char) (hr : Ends b th rest) :
    ∀ (acc : List Nat) (fuel : Nat), ds.length + 1 ≤ fuel →
      intLoop allowSep b th fuel (ds.map digitChar ++ rest) acc = .ok (acc.reverse ++ ds, rest) := by
  induction ds with
  | nil =>
    intro acc fuel hf
    obtain ⟨f, rfl⟩ : ∃ f, fuel = f + 1 := ⟨fuel - 1, by omega⟩
    rcases hr with rfl | ⟨c, r, rfl, hc, hs⟩
    · simp [intLoop]
    · simp [intLoop, hs, hc]
  | cons d ds ih =>
    intro acc fuel hf
    obtain ⟨f, rfl⟩ : ∃ f, fuel = f + 1 := ⟨fuel - 1, by simp at hf; omega⟩
    have hd : d < b := hds d (by simp)
    have hs := isSep_digitChar d (by omega) th hth
    have hdo := digitOf_digitChar d b hd hb
    have := ih (fun x hx => hds x (by simp [hx])) (d :: acc) f (by simp at hf; omega)
    simp only [List.map_cons, List.cons_append, intLoop, hs, hdo, Bool.false_and, Bool.false_eq_true, if_false]
    rw [this]; simp

theorem parseInteger_scan (allowSep : Bool) (b : Nat) (hb : b ≤ 36) (th : Char) (hth : th = ',' ∨ th = '.')
    (d : Nat) (ds : List Nat) (hds : ∀ x ∈ d :: ds, x < b) (rest : List Char) (hr : Ends b th rest) :
    parseInteger allowSep b th ((d :: ds).map digitChar ++ rest) = .ok (d :: ds, rest) := by
  have hd : d < b := hds d (by simp)
  simp only [List.map_cons, List.cons_append, parseInteger, digitOf_digitChar d b hd hb]
  rw [intLoop_scan allowSep b hb th hth ds (fun x hx => hds x (by simp [hx])) rest hr [d] _ (by simp)]
  simp

theorem natDigits_cons (b n : Nat) (hb : 2 ≤ b) : ∃ d t, natDigits b n = d :: t := by
  by_cases hn : 0 < n
  · obtain ⟨d, t, h, _⟩ := natDigits_head b n hb hn; exact ⟨d, t, h⟩
  · have : n = 0 := by omega
    subst this
    exact ⟨0, [], by simp [natDigits, digitsAux]⟩

/-- the text of an integer (no prefix): its digits -/
theorem fmtNat_text (p : Pfx) (b n : Nat) (hb : 2 ≤ b) : (fmtNat p b n none).1 = prefixChars p b ++ (natDigits b n).map digitChar := by
  unfold fmtNat
  by_cases hn : n = 0
  · subst hn
    have : natDigits b 0 = [0] := by simp [natDigits, digitsAux]
    simp [this, digitChar]
  · simp [hn]

theorem diceNoCount_digit (b d : Nat) (hd : d < b) (hb : b ≤ 36) (tl : List Char) : diceNoCount b (digitChar d :: tl) = false := by
  unfold diceNoCount
  split
  · rename_i c r heq
    injection heq with h1 _
    by_cases h10 : b ≤ 10
    · exact absurd h1 (digit10_not_d ⟨d, by omega⟩)
    · simp [h10]
  · rfl

theorem expPart_nil (b : Nat) (th : Char) : expPart b th [] = .ok (none, []) := by
  unfold expPart; split <;> rfl

theorem supFollows_nil (b : Nat) : supFollows b [] = false := by simp [supFollows]

theorem diceAfter_nil (b : Nat) (f : Option (List Nat)) : diceAfter b f [] = false := by simp [diceAfter]

/-- **the scanner on a bare digit run** (what follows the prefix): the digit group is recovered, nothing else is produced -/
theorem parseBasic_digits (b : Nat) (hb2 : 2 ≤ b) (hb : b ≤ 36) (sep th : Char) (hs : SepOK sep th) (n : Nat) :
    parseBasic b sep th ((natDigits b n).map digitChar) = .ok (.num ⟨b, natDigits b n, none, none, none⟩ []) := by
  obtain ⟨d, t, hdt⟩ := natDigits_cons b n hb2
  have hlt := natDigits_lt b n hb2
  rw [hdt] at hlt ⊢
  have hth : th = ',' ∨ th = '.' := by rcases hs with ⟨_, h⟩ | ⟨_, h⟩; exact Or.inl h; exact Or.inr h
  have hd : d < b := hlt d (by simp)
  have hpi := parseInteger_scan true b hb th hth d t hlt [] (Or.inl rfl)
  simp only [List.append_nil, List.map_cons] at hpi
  obtain ⟨_, p2, p3, _, _⟩ := digit_plain ⟨d, by omega⟩
  have hnosep : (digitChar d == sep) = false := by rcases hs with ⟨h, _⟩ | ⟨h, _⟩ <;> rw [h] <;> assumption
  simp only [List.map_cons, parseBasic, diceNoCount_digit b d hd hb, hnosep, hpi, fracPart, diceAfter_nil, expPart_nil, supFollows_nil,
    Bool.false_eq_true, if_false]

theorem digitsFrom_lt (b den r : Nat) (hb : 0 < b) (hr : r < den) (k : Nat) : ∀ d ∈ digitsFrom b den r k, d < b := by
  induction k with
  | zero => simp [digitsFrom]
  | succ k ih =>
    intro d hd
    simp only [digitsFrom, List.mem_append, List.mem_singleton] at hd
    rcases hd with hd | rfl
    · exact ih d hd
    · rw [digit_canonical b den r k hb hr]; exact Nat.mod_lt _ hb

theorem seps_none : ∀ b : Fin 37, digitOf '.' b.val = none ∧ digitOf ',' b.val = none ∧ digitOf '(' b.val = none ∧
    digitOf ')' b.val = none ∧ digitOf '#' b.val = none := by decide

/-- integers with a `0b` / `0o` / `0x` prefix read back as their digit group in that base -/
theorem scan_zero_prefix (b : Nat) (hb : b = 2 ∨ b = 8 ∨ b = 16) (sep th : Char) (hs : SepOK sep th) (n : Nat) :
    parseNumber sep th (fmtNat .zero b n none).1 = .ok (.num ⟨b, natDigits b n, none, none, none⟩ [], .zero) := by
  have hb2 : 2 ≤ b := by rcases hb with rfl | rfl | rfl <;> omega
  have hb36 : b ≤ 36 := by rcases hb with rfl | rfl | rfl <;> omega
  rw [fmtNat_text .zero b n hb2]
  have hp := parseBasic_digits b hb2 hb36 sep th hs n
  rcases hb with rfl | rfl | rfl <;> simp [parseNumber, parseBasePrefix, prefixChars, hp]

theorem sep_facts (sep th : Char) (hs : SepOK sep th) (b : Nat) (hb : b ≤ 36) :
    digitOf sep b = none ∧ isSep sep th = false ∧ digitOf '(' b = none ∧ isSep '(' th = false ∧
    digitOf ')' b = none ∧ isSep ')' th = false := by
  obtain ⟨h1, h2, h3, h4, _⟩ := seps_none ⟨b, by omega⟩
  rcases hs with ⟨rfl, rfl⟩ | ⟨rfl, rfl⟩ <;> exact ⟨by assumption, by decide, h3, by decide, h4, by decide⟩

theorem plainDigits_scan (b : Nat) (hb : b ≤ 36) (th : Char) (hth : th = ',' ∨ th = '.') (a : List Nat) (ha : ∀ d ∈ a, d < b)
    (tl : List Char) (h3 : digitOf '(' b = none) (h4 : isSep '(' th = false) :
    plainDigits b th (a.map digitChar ++ '(' :: tl) = .ok (a, '(' :: tl) := by
  cases a with
  | nil => simp [plainDigits]
  | cons a0 at' =>
    have ha0 : a0 < b := ha a0 (by simp)
    obtain ⟨_, _, _, q4, _⟩ := digit_plain ⟨a0, by omega⟩
    have hne : digitChar a0 ≠ '(' := by simpa using q4
    have := parseInteger_scan true b hb th hth a0 at' ha ('(' :: tl) (Or.inr ⟨'(', _, rfl, h3, h4⟩)
    simp only [List.map_cons, List.cons_append] at this ⊢
    unfold plainDigits
    split
    · rename_i tl' heq; injection heq with h1 _; exact absurd h1 hne
    · exact this

theorem recurPart_scan (b : Nat) (hb : b ≤ 36) (th : Char) (hth : th = ',' ∨ th = '.') (fs : List Nat) (c0 : Nat) (ct : List Nat)
    (hc : ∀ d ∈ c0 :: ct, d < b) (h5 : digitOf ')' b = none) (h6 : isSep ')' th = false) :
    recurPart b th fs ('(' :: ((c0 :: ct).map digitChar ++ [')'])) = .ok (some fs, some (c0 :: ct), []) := by
  have hc0 : c0 < b := hc c0 (by simp)
  have hC := parseInteger_scan true b hb th hth c0 ct hc [')'] (Or.inr ⟨')', [], rfl, h5, h6⟩)
  simp only [List.map_cons, List.cons_append] at hC ⊢
  simp only [recurPart, digitOf_digitChar c0 b hc0 hb, hC]

/-- **the scanner on a recurring expansion** `I.A(B)`: integer digits, separator, the digits before the cycle (possibly none),
the cycle in parentheses -/
theorem parseBasic_recurring (b : Nat) (hb2 : 2 ≤ b) (hb : b ≤ 36) (sep th : Char) (hs : SepOK sep th) (ip : Nat)
    (a c : List Nat) (ha : ∀ d ∈ a, d < b) (hc : ∀ d ∈ c, d < b) (hcne : c ≠ []) :
    parseBasic b sep th ((natDigits b ip).map digitChar ++ sep :: (a.map digitChar ++ '(' :: (c.map digitChar ++ [')']))) =
      .ok (.num ⟨b, natDigits b ip, some a, some c, none⟩ []) := by
  obtain ⟨d, t, hdt⟩ := natDigits_cons b ip hb2
  have hlt := natDigits_lt b ip hb2
  rw [hdt] at hlt ⊢
  have hth : th = ',' ∨ th = '.' := by rcases hs with ⟨_, h⟩ | ⟨_, h⟩; exact Or.inl h; exact Or.inr h
  have hd : d < b := hlt d (by simp)
  obtain ⟨s1, s2, s3, s4, s5, s6⟩ := sep_facts sep th hs b hb
  obtain ⟨c0, ct, rfl⟩ : ∃ c0 ct, c = c0 :: ct := by
    cases c with
    | nil => exact absurd rfl hcne
    | cons c0 ct => exact ⟨c0, ct, rfl⟩
  have hI := parseInteger_scan true b hb th hth d t hlt (sep :: (a.map digitChar ++ '(' :: ((c0 :: ct).map digitChar ++ [')'])))
    (Or.inr ⟨sep, _, rfl, s1, s2⟩)
  obtain ⟨_, p2, p3, _, _⟩ := digit_plain ⟨d, by omega⟩
  have hnosep : (digitChar d == sep) = false := by rcases hs with ⟨h, _⟩ | ⟨h, _⟩ <;> rw [h] <;> assumption
  have hA := plainDigits_scan b hb th hth a ha ((c0 :: ct).map digitChar ++ [')']) s3 s4
  have hR := recurPart_scan b hb th hth a c0 ct hc s5 s6
  simp only [List.map_cons, List.cons_append] at hI hA hR ⊢
  simp only [parseBasic, diceNoCount_digit b d hd hb, hnosep, hI, fracPart, beq_self_eq_true, if_true, hA, hR, diceAfter_nil,
    expPart_nil, supFollows_nil, Bool.false_eq_true, if_false]

theorem digit10_zero : ∀ d : Fin 10, digitChar d.val = '0' → d.val = 0 := by decide

/-- decimal integers without a prefix: the base-prefix attempt fails (no `#` follows) and the digits are read in base 10 -/
theorem scan_plain_decimal (sep th : Char) (hs : SepOK sep th) (n : Nat) :
    parseNumber sep th (fmtNat .plain 10 n none).1 = .ok (.num ⟨10, natDigits 10 n, none, none, none⟩ [], .plain) := by
  rw [fmtNat_text .plain 10 n (by omega)]
  have hp := parseBasic_digits 10 (by omega) (by omega) sep th hs n
  have hth : th = ',' ∨ th = '.' := by rcases hs with ⟨_, h⟩ | ⟨_, h⟩; exact Or.inl h; exact Or.inr h
  obtain ⟨d, t, hdt⟩ := natDigits_cons 10 n (by omega)
  have hlt := natDigits_lt 10 n (by omega)
  have hpre : ∃ e, parseBasePrefix th ((natDigits 10 n).map digitChar) = .error e := by
    rw [hdt] at hlt ⊢
    have hd : d < 10 := hlt d (by simp)
    by_cases h0 : digitChar d = '0'
    · have hd0 : d = 0 := digit10_zero ⟨d, hd⟩ h0
      have ht : t = [] := by
        by_cases hn : 0 < n
        · obtain ⟨d', t', h', hne⟩ := natDigits_head 10 n (by omega) hn
          rw [hdt] at h'; injection h' with h1 _; omega
        · have : n = 0 := by omega
          subst this
          have : natDigits 10 0 = [0] := by simp [natDigits, digitsAux]
          rw [this] at hdt; injection hdt with _ h2; exact h2.symm
      subst ht
      simp [parseBasePrefix, h0]
    · have hpi := parseInteger_scan false 10 (by omega) th hth d t hlt [] (Or.inl rfl)
      simp only [List.append_nil, List.map_cons] at hpi
      unfold parseBasePrefix
      simp only [List.map_cons]
      split
      · rename_i rest heq; injection heq with h1 _; exact absurd h1 h0
      · simp only [hpi]
        split
        · exact ⟨_, rfl⟩
        · split
          · exact ⟨_, rfl⟩
          · exact ⟨_, rfl⟩
  obtain ⟨e, he⟩ := hpre
  simp [parseNumber, prefixChars, he, hp]

theorem recurPart_nil (b : Nat) (th : Char) (fs : List Nat) : recurPart b th fs [] = .ok (some fs, none, []) := by
  simp [recurPart]

/-- **the scanner on a terminating expansion** `I.A` (at least one digit after the point) -/
theorem parseBasic_terminating (b : Nat) (hb2 : 2 ≤ b) (hb : b ≤ 36) (sep th : Char) (hs : SepOK sep th) (ip : Nat)
    (a : List Nat) (ha : ∀ d ∈ a, d < b) (hane : a ≠ []) :
    parseBasic b sep th ((natDigits b ip).map digitChar ++ sep :: a.map digitChar) =
      .ok (.num ⟨b, natDigits b ip, some a, none, none⟩ []) := by
  obtain ⟨d, t, hdt⟩ := natDigits_cons b ip hb2
  have hlt := natDigits_lt b ip hb2
  rw [hdt] at hlt ⊢
  have hth : th = ',' ∨ th = '.' := by rcases hs with ⟨_, h⟩ | ⟨_, h⟩; exact Or.inl h; exact Or.inr h
  have hd : d < b := hlt d (by simp)
  obtain ⟨s1, s2, _⟩ := sep_facts sep th hs b hb
  obtain ⟨a0, at', rfl⟩ : ∃ a0 at', a = a0 :: at' := by
    cases a with
    | nil => exact absurd rfl hane
    | cons a0 at' => exact ⟨a0, at', rfl⟩
  have ha0 : a0 < b := ha a0 (by simp)
  have hI := parseInteger_scan true b hb th hth d t hlt (sep :: (a0 :: at').map digitChar) (Or.inr ⟨sep, _, rfl, s1, s2⟩)
  have hA := parseInteger_scan true b hb th hth a0 at' ha [] (Or.inl rfl)
  obtain ⟨_, p2, p3, _, _⟩ := digit_plain ⟨d, by omega⟩
  have hnosep : (digitChar d == sep) = false := by rcases hs with ⟨h, _⟩ | ⟨h, _⟩ <;> rw [h] <;> assumption
  obtain ⟨_, _, _, q4, _⟩ := digit_plain ⟨a0, by omega⟩
  have hne : digitChar a0 ≠ '(' := by simpa using q4
  have hpd : plainDigits b th (digitChar a0 :: at'.map digitChar) = .ok (a0 :: at', []) := by
    simp only [List.map_cons, List.append_nil] at hA
    unfold plainDigits
    split
    · rename_i tl heq; injection heq with h1 _; exact absurd h1 hne
    · exact hA
  simp only [List.map_cons, List.cons_append] at hI ⊢
  simp only [parseBasic, diceNoCount_digit b d hd hb, hnosep, hI, fracPart, beq_self_eq_true, if_true, hpd, recurPart_nil, diceAfter_nil,
    expPart_nil, supFollows_nil, Bool.false_eq_true, if_false]

/-- the text of a recurring rendering after the prefix -/
def recurText (b : Nat) (sep : Char) (ip : Nat) (a c : List Nat) : List Char :=
  (natDigits b ip).map digitChar ++ sep :: (a.map digitChar ++ '(' :: (c.map digitChar ++ [')']))

theorem scan_zero_prefix_recurring (b : Nat) (hb : b = 2 ∨ b = 8 ∨ b = 16) (sep th : Char) (hs : SepOK sep th) (ip : Nat)
    (a c : List Nat) (ha : ∀ d ∈ a, d < b) (hc : ∀ d ∈ c, d < b) (hcne : c ≠ []) :
    parseNumber sep th (prefixChars .zero b ++ recurText b sep ip a c) = .ok (.num ⟨b, natDigits b ip, some a, some c, none⟩ [], .zero) := by
  have hb2 : 2 ≤ b := by rcases hb with rfl | rfl | rfl <;> omega
  have hb36 : b ≤ 36 := by rcases hb with rfl | rfl | rfl <;> omega
  have hp := parseBasic_recurring b hb2 hb36 sep th hs ip a c ha hc hcne
  unfold recurText
  rcases hb with rfl | rfl | rfl <;> simp [parseNumber, parseBasePrefix, prefixChars, hp]

theorem scan_plain_decimal_recurring (sep th : Char) (hs : SepOK sep th) (ip : Nat)
    (a c : List Nat) (ha : ∀ d ∈ a, d < 10) (hc : ∀ d ∈ c, d < 10) (hcne : c ≠ []) :
    parseNumber sep th (recurText 10 sep ip a c) = .ok (.num ⟨10, natDigits 10 ip, some a, some c, none⟩ [], .plain) := by
  have hp := parseBasic_recurring 10 (by omega) (by omega) sep th hs ip a c ha hc hcne
  have hth : th = ',' ∨ th = '.' := by rcases hs with ⟨_, h⟩ | ⟨_, h⟩; exact Or.inl h; exact Or.inr h
  obtain ⟨s1, s2, _⟩ := sep_facts sep th hs 10 (by omega)
  obtain ⟨d, t, hdt⟩ := natDigits_cons 10 ip (by omega)
  have hlt := natDigits_lt 10 ip (by omega)
  have hsep0 : sep ≠ 'x' ∧ sep ≠ 'o' ∧ sep ≠ 'b' ∧ sep ≠ '#' := by rcases hs with ⟨rfl, _⟩ | ⟨rfl, _⟩ <;> decide
  have hpre : ∃ e, parseBasePrefix th (recurText 10 sep ip a c) = .error e := by
    unfold recurText
    rw [hdt] at hlt ⊢
    have hd : d < 10 := hlt d (by simp)
    by_cases h0 : digitChar d = '0'
    · have hd0 : d = 0 := digit10_zero ⟨d, hd⟩ h0
      have ht : t = [] := by
        by_cases hn : 0 < ip
        · obtain ⟨d', t', h', hne⟩ := natDigits_head 10 ip (by omega) hn
          rw [hdt] at h'; injection h' with h1 _; omega
        · have : ip = 0 := by omega
          subst this
          have : natDigits 10 0 = [0] := by simp [natDigits, digitsAux]
          rw [this] at hdt; injection hdt with _ h2; exact h2.symm
      subst ht
      simp only [List.map_cons, List.map_nil, List.cons_append, List.nil_append, h0]
      unfold parseBasePrefix
      simp only
      split
      · rename_i heq; cases heq
      · rename_i r heq; injection heq with h1 _; exact absurd h1 hsep0.1
      · rename_i r heq; injection heq with h1 _; exact absurd h1 hsep0.2.1
      · rename_i r heq; injection heq with h1 _; exact absurd h1 hsep0.2.2.1
      · exact ⟨_, rfl⟩
    · have hpi := parseInteger_scan false 10 (by omega) th hth d t hlt
        (sep :: (a.map digitChar ++ '(' :: (c.map digitChar ++ [')']))) (Or.inr ⟨sep, _, rfl, s1, s2⟩)
      simp only [List.map_cons, List.cons_append] at hpi ⊢
      unfold parseBasePrefix
      split
      · rename_i rest heq; injection heq with h1 _; exact absurd h1 h0
      · simp only [hpi]
        split
        · exact ⟨_, rfl⟩
        · split
          · exact ⟨_, rfl⟩
          · split
            · rename_i r heq; injection heq with h1 _; exact absurd h1 hsep0.2.2.2
            · exact ⟨_, rfl⟩
            · exact ⟨_, rfl⟩
  obtain ⟨e, he⟩ := hpre
  have hp' : parseBasic 10 sep th (recurText 10 sep ip a c) = .ok (.num ⟨10, natDigits 10 ip, some a, some c, none⟩ []) := hp
  simp [parseNumber, he, hp']

theorem scan_zero_prefix_terminating (b : Nat) (hb : b = 2 ∨ b = 8 ∨ b = 16) (sep th : Char) (hs : SepOK sep th) (ip : Nat)
    (a : List Nat) (ha : ∀ d ∈ a, d < b) (hane : a ≠ []) :
    parseNumber sep th (prefixChars .zero b ++ ((natDigits b ip).map digitChar ++ sep :: a.map digitChar)) =
      .ok (.num ⟨b, natDigits b ip, some a, none, none⟩ [], .zero) := by
  have hb2 : 2 ≤ b := by rcases hb with rfl | rfl | rfl <;> omega
  have hb36 : b ≤ 36 := by rcases hb with rfl | rfl | rfl <;> omega
  have hp := parseBasic_terminating b hb2 hb36 sep th hs ip a ha hane
  rcases hb with rfl | rfl | rfl <;> simp [parseNumber, parseBasePrefix, prefixChars, hp]

theorem scan_plain_decimal_terminating (sep th : Char) (hs : SepOK sep th) (ip : Nat)
    (a : List Nat) (ha : ∀ d ∈ a, d < 10) (hane : a ≠ []) :
    parseNumber sep th ((natDigits 10 ip).map digitChar ++ sep :: a.map digitChar) =
      .ok (.num ⟨10, natDigits 10 ip, some a, none, none⟩ [], .plain) := by
  have hp := parseBasic_terminating 10 (by omega) (by omega) sep th hs ip a ha hane
  have hth : th = ',' ∨ th = '.' := by rcases hs with ⟨_, h⟩ | ⟨_, h⟩; exact Or.inl h; exact Or.inr h
  obtain ⟨s1, s2, _⟩ := sep_facts sep th hs 10 (by omega)
  obtain ⟨d, t, hdt⟩ := natDigits_cons 10 ip (by omega)
  have hlt := natDigits_lt 10 ip (by omega)
  have hsep0 : sep ≠ 'x' ∧ sep ≠ 'o' ∧ sep ≠ 'b' ∧ sep ≠ '#' := by rcases hs with ⟨rfl, _⟩ | ⟨rfl, _⟩ <;> decide
  have hpre : ∃ e, parseBasePrefix th ((natDigits 10 ip).map digitChar ++ sep :: a.map digitChar) = .error e := by
    rw [hdt] at hlt ⊢
    have hd : d < 10 := hlt d (by simp)
    by_cases h0 : digitChar d = '0'
    · have hd0 : d = 0 := digit10_zero ⟨d, hd⟩ h0
      have ht : t = [] := by
        by_cases hn : 0 < ip
        · obtain ⟨d', t', h', hne⟩ := natDigits_head 10 ip (by omega) hn
          rw [hdt] at h'; injection h' with h1 _; omega
        · have : ip = 0 := by omega
          subst this
          have : natDigits 10 0 = [0] := by simp [natDigits, digitsAux]
          rw [this] at hdt; injection hdt with _ h2; exact h2.symm
      subst ht
      simp only [List.map_cons, List.map_nil, List.cons_append, List.nil_append, h0]
      unfold parseBasePrefix
      simp only
      split
      · rename_i heq; cases heq
      · rename_i r heq; injection heq with h1 _; exact absurd h1 hsep0.1
      · rename_i r heq; injection heq with h1 _; exact absurd h1 hsep0.2.1
      · rename_i r heq; injection heq with h1 _; exact absurd h1 hsep0.2.2.1
      · exact ⟨_, rfl⟩
    · have hpi := parseInteger_scan false 10 (by omega) th hth d t hlt (sep :: a.map digitChar) (Or.inr ⟨sep, _, rfl, s1, s2⟩)
      simp only [List.map_cons, List.cons_append] at hpi ⊢
      unfold parseBasePrefix
      split
      · rename_i rest heq; injection heq with h1 _; exact absurd h1 h0
      · simp only [hpi]
        split
        · exact ⟨_, rfl⟩
        · split
          · exact ⟨_, rfl⟩
          · split
            · rename_i r heq; injection heq with h1 _; exact absurd h1 hsep0.2.2.2
            · exact ⟨_, rfl⟩
            · exact ⟨_, rfl⟩
  obtain ⟨e, he⟩ := hpre
  simp [parseNumber, he, hp]

/-! ### e-notation (bases up to 10): `I e E`, `I e+E`, `I e-E` -/

theorem e_facts : ∀ b : Fin 11, digitOf 'e' b.val = none := by decide
theorem e_sep : isSep 'e' ',' = false ∧ isSep 'e' '.' = false ∧ ('e' == '.') = false ∧ ('e' == ',') = false := by decide
theorem digit10_isDigit : ∀ d : Fin 10, (digitChar d.val).isDigit = true ∧ digitChar d.val ≠ '-' ∧ digitChar d.val ≠ '+' := by decide

theorem diceAfter_e (b : Nat) (f : Option (List Nat)) (tl : List Char) : diceAfter b f ('e' :: tl) = false := by
  simp [diceAfter]

theorem expSign_digit (c : Char) (tl : List Char) (h1 : c ≠ '-') (h2 : c ≠ '+') : expSign (c :: tl) = (false, c :: tl) := by
  unfold expSign
  split
  · rename_i r heq; injection heq with h _; exact absurd h h1
  · rename_i r heq; injection heq with h _; exact absurd h h2
  · rfl

/-- `expPart` on `e`, an optional sign, and a digit run -/
theorem expPart_scan (b : Nat) (hb2 : 2 ≤ b) (hb : b ≤ 10) (th : Char) (hth : th = ',' ∨ th = '.') (sign : Option Bool)
    (d : Nat) (ds : List Nat) (hds : ∀ x ∈ d :: ds, x < b) :
    expPart b th ('e' :: ((match sign with | none => [] | some true => ['-'] | some false => ['+']) ++ (d :: ds).map digitChar)) =
      .ok (some (sign == some true, d :: ds), []) := by
  have hd : d < b := hds d (by simp)
  obtain ⟨hdig, hnm, hnp⟩ := digit10_isDigit ⟨d, by omega⟩
  have hpi := parseInteger_scan true b (by omega) th hth d ds hds [] (Or.inl rfl)
  simp only [List.append_nil, List.map_cons] at hpi
  unfold expPart
  simp only [hb, if_true, List.map_cons]
  cases sign with
  | none =>
    simp only [List.nil_append, beq_self_eq_true, Bool.true_or, if_true, hdig, expSign_digit _ _ hnm hnp, hpi]
    rfl
  | some sg =>
    cases sg with
    | true => simp [expSign, hpi]
    | false => simp [expSign, hpi]

/-- **the scanner on an integer with an exponent** (bases up to 10) -/
theorem parseBasic_exponent (b : Nat) (hb2 : 2 ≤ b) (hb : b ≤ 10) (sep th : Char) (hs : SepOK sep th) (n : Nat) (sign : Option Bool)
    (d : Nat) (ds : List Nat) (hds : ∀ x ∈ d :: ds, x < b) :
    parseBasic b sep th ((natDigits b n).map digitChar ++
        'e' :: ((match sign with | none => [] | some true => ['-'] | some false => ['+']) ++ (d :: ds).map digitChar)) =
      .ok (.num ⟨b, natDigits b n, none, none, some (sign == some true, d :: ds)⟩ []) := by
  obtain ⟨i0, it, hdt⟩ := natDigits_cons b n hb2
  have hlt := natDigits_lt b n hb2
  rw [hdt] at hlt ⊢
  have hth : th = ',' ∨ th = '.' := by rcases hs with ⟨_, h⟩ | ⟨_, h⟩; exact Or.inl h; exact Or.inr h
  have hi0 : i0 < b := hlt i0 (by simp)
  have he : digitOf 'e' b = none := e_facts ⟨b, by omega⟩
  have hes : isSep 'e' th = false := by rcases hth with rfl | rfl; exact e_sep.1; exact e_sep.2.1
  have hI := parseInteger_scan true b (by omega) th hth i0 it hlt
    ('e' :: ((match sign with | none => [] | some true => ['-'] | some false => ['+']) ++ (d :: ds).map digitChar))
    (Or.inr ⟨'e', _, rfl, he, hes⟩)
  obtain ⟨_, p2, p3, _, _⟩ := digit_plain ⟨i0, by omega⟩
  have hnosep : (digitChar i0 == sep) = false := by rcases hs with ⟨h, _⟩ | ⟨h, _⟩ <;> rw [h] <;> assumption
  have hesep : ('e' == sep) = false := by rcases hs with ⟨h, _⟩ | ⟨h, _⟩ <;> rw [h]; exact e_sep.2.2.1; exact e_sep.2.2.2
  have hE := expPart_scan b hb2 hb th hth sign d ds hds
  simp only [List.map_cons, List.cons_append] at hI ⊢
  simp only [parseBasic, diceNoCount_digit b i0 hi0 (by omega), hnosep, hI, fracPart, hesep, diceAfter_e, Bool.false_eq_true, if_false]
  simp only [List.map_cons] at hE
  rw [hE]
  simp [supFollows_nil]

/-! ### `n#` prefixes: every base 2..36 -/

theorem base_text : ∀ b : Fin 37, 2 ≤ b.val → (toString b.val).toList = (natDigits 10 b.val).map digitChar := by decide
theorem base_go : ∀ b : Fin 37, 2 ≤ b.val → parseBasePrefix.go (natDigits 10 b.val) 0 = some b.val := by decide
theorem base_head : ∀ b : Fin 37, 2 ≤ b.val → ((natDigits 10 b.val).map digitChar).head? ≠ some '0' := by decide

theorem hash_facts : digitOf '#' 10 = none ∧ isSep '#' ',' = false ∧ isSep '#' '.' = false := by decide

/-- the `n#` prefix is read back as the base `n` -/
theorem parseBasePrefix_custom (b : Nat) (hb2 : 2 ≤ b) (hb : b ≤ 36) (th : Char) (hth : th = ',' ∨ th = '.') (r : List Char) :
    parseBasePrefix th (prefixChars .custom b ++ r) = .ok (b, .custom, r) := by
  have ht := base_text ⟨b, by omega⟩ hb2
  have hg := base_go ⟨b, by omega⟩ hb2
  have hh := base_head ⟨b, by omega⟩ hb2
  simp only at ht hg hh
  obtain ⟨d, t, hdt⟩ := natDigits_cons 10 b (by omega)
  have hlt := natDigits_lt 10 b (by omega)
  rw [hdt] at hlt hg hh ht
  have hsep : isSep '#' th = false := by rcases hth with rfl | rfl; exact hash_facts.2.1; exact hash_facts.2.2
  have hpi := parseInteger_scan false 10 (by omega) th hth d t hlt ('#' :: r) (Or.inr ⟨'#', r, rfl, hash_facts.1, hsep⟩)
  have hne : digitChar d ≠ '0' := by
    intro h0; apply hh; simp [h0]
  simp only [prefixChars, ht, List.append_assoc, List.singleton_append]
  simp only [List.map_cons, List.cons_append] at hpi ⊢
  unfold parseBasePrefix
  split
  · rename_i rest heq; injection heq with h1 _; exact absurd h1 hne
  · simp only [hpi, hg]
    have : ¬ b < 2 := by omega
    simp [this]

theorem scan_custom_prefix (b : Nat) (hb2 : 2 ≤ b) (hb : b ≤ 36) (sep th : Char) (hs : SepOK sep th) (n : Nat) :
    parseNumber sep th (fmtNat .custom b n none).1 = .ok (.num ⟨b, natDigits b n, none, none, none⟩ [], .custom) := by
  have hth : th = ',' ∨ th = '.' := by rcases hs with ⟨_, h⟩ | ⟨_, h⟩; exact Or.inl h; exact Or.inr h
  rw [fmtNat_text .custom b n hb2]
  simp only [parseNumber, parseBasePrefix_custom b hb2 hb th hth, parseBasic_digits b hb2 hb sep th hs n]

theorem scan_custom_prefix_terminating (b : Nat) (hb2 : 2 ≤ b) (hb : b ≤ 36) (sep th : Char) (hs : SepOK sep th) (ip : Nat)
    (a : List Nat) (ha : ∀ d ∈ a, d < b) (hane : a ≠ []) :
    parseNumber sep th (prefixChars .custom b ++ ((natDigits b ip).map digitChar ++ sep :: a.map digitChar)) =
      .ok (.num ⟨b, natDigits b ip, some a, none, none⟩ [], .custom) := by
  have hth : th = ',' ∨ th = '.' := by rcases hs with ⟨_, h⟩ | ⟨_, h⟩; exact Or.inl h; exact Or.inr h
  simp only [parseNumber, parseBasePrefix_custom b hb2 hb th hth, parseBasic_terminating b hb2 hb sep th hs ip a ha hane]

theorem scan_custom_prefix_recurring (b : Nat) (hb2 : 2 ≤ b) (hb : b ≤ 36) (sep th : Char) (hs : SepOK sep th) (ip : Nat)
    (a c : List Nat) (ha : ∀ d ∈ a, d < b) (hc : ∀ d ∈ c, d < b) (hcne : c ≠ []) :
    parseNumber sep th (prefixChars .custom b ++ recurText b sep ip a c) = .ok (.num ⟨b, natDigits b ip, some a, some c, none⟩ [], .custom) := by
  have hth : th = ',' ∨ th = '.' := by rcases hs with ⟨_, h⟩ | ⟨_, h⟩; exact Or.inl h; exact Or.inr h
  have hp := parseBasic_recurring b hb2 hb sep th hs ip a c ha hc hcne
  unfold recurText
  simp only [parseNumber, parseBasePrefix_custom b hb2 hb th hth, hp]

end Fend.NumLit
