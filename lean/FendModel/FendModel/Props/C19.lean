/-
C19 — the CLI is a faithful front-end to the core.
-/
import FendModel.Model.Cli

namespace Fend.C19
open Fend.Cli

/-- what printing the result of the LAST expression adds -/
def printLast (out : Out) : CoreRes → Out
  | .ok t u n => if u then out else { out with stdout := out.stdout ++ t ++ (if n then "\n" else "") }
  | .err msg => { out with stderr := out.stderr ++ "Error: " ++ msg ++ "\n", status := 1 }

/-- when every earlier expression succeeds, the output is exactly what the core returns for the
LAST expression (evaluated in the context the earlier ones left): its text, a newline iff the
core asks for one, nothing for `()`/empty results; earlier results are never printed -/
theorem last_printed {σ} (coreEval : σ → String → σ × CoreRes) (ctx : σ) (pre : List String) (e : String) (out : Out)
    (hok : ∀ c x, x ∈ pre → ∃ t u n, (coreEval c x).2 = .ok t u n) :
    ∃ c, evalExprs coreEval ctx (pre ++ [e]) out = printLast out (coreEval c e).2 := by
  induction pre generalizing ctx with
  | nil =>
    refine ⟨ctx, ?_⟩
    simp only [List.nil_append]
    unfold evalExprs
    generalize coreEval ctx e = ce
    obtain ⟨c', r⟩ := ce
    cases r with
    | ok t u n => cases u <;> simp [printLast, evalExprs]
    | err msg => simp [printLast]
  | cons x rest ih =>
    obtain ⟨t, u, n, h1⟩ := hok ctx x (by simp)
    simp only [List.cons_append]
    unfold evalExprs
    generalize coreEval ctx x = ce at h1
    obtain ⟨c', r⟩ := ce
    simp only at h1; subst h1
    have hne : (rest ++ [e]).isEmpty = false := by cases rest <;> simp
    simp only [hne, Bool.false_and, Bool.false_eq_true, if_false]
    exact ih c' (fun c y hy => hok c y (by simp [hy]))

/-- status is 1 iff some evaluated expression fails; then stderr gets exactly `Error: <msg>` for
the first failure and no later expression is evaluated (nothing more is appended) -/
theorem first_error_stops {σ} (coreEval : σ → String → σ × CoreRes) (ctx : σ) (pre : List String)
    (e : String) (post : List String) (out : Out) (msg : String)
    (hpre : ∀ c x, x ∈ pre → ∃ t u n, (coreEval c x).2 = .ok t u n)
    (herr : ∀ c, (coreEval c e).2 = .err msg) :
    evalExprs coreEval ctx (pre ++ e :: post) out =
      { out with stderr := out.stderr ++ "Error: " ++ msg ++ "\n", status := 1 } := by
  induction pre generalizing ctx out with
  | nil =>
    simp only [List.nil_append]
    unfold evalExprs
    have := herr ctx
    generalize coreEval ctx e = ce at this
    obtain ⟨c', r⟩ := ce
    simp only at this; subst this
    rfl
  | cons x rest ih =>
    obtain ⟨t, u, n, h1⟩ := hpre ctx x (by simp)
    simp only [List.cons_append]
    unfold evalExprs
    generalize coreEval ctx x = ce at h1
    obtain ⟨c', r⟩ := ce
    simp only at h1; subst h1
    have hne : (rest ++ e :: post).isEmpty = false := by cases rest <;> simp
    simp only [hne, Bool.false_and, Bool.false_eq_true, if_false]
    exact ih c' out (fun c y hy => hpre c y (by simp [hy]))

/-- variables carry over: the context in which each expression is evaluated is the one left by
the previous expression -/
theorem vars_carry {σ} (coreEval : σ → String → σ × CoreRes) (ctx : σ) (e : String) (rest : List String)
    (t : String) (u n : Bool) (c' : σ) (h : coreEval ctx e = (c', .ok t u n)) :
    states coreEval ctx (e :: rest) = ctx :: states coreEval c' rest := by
  simp [states, h]

/-- `help` wins over everything, then `--version`, then `--default-config` (before `--`) -/
theorem help_wins (args : List String) (rf : String → Option String) (st : ArgState)
    (h : argLoop rf args {} = .ok st) (hh : st.help = true) : fromArgs args rf = .ok .help := by
  simp [fromArgs, h, hh]

/-- plain positional words (none of them an option, a readable file or blank) are joined by single
spaces into ONE expression -/
def plainWord (rf : String → Option String) (w : String) : Prop :=
  w ∉ ["help", "--help", "-h", "--version", "-v", "-V", "--default-config", "--print-default-config",
        "-f", "--file", "-e", "--eval", "--"] ∧ rf w = none ∧ isBlank w = false

theorem argLoop_plain (rf : String → Option String) (ws : List String) (st : ArgState)
    (hw : ∀ w ∈ ws, plainWord rf w) :
    argLoop rf ws st = .ok { st with expr := ws.foldl (fun acc w => if acc.isEmpty then w else acc ++ " " ++ w) st.expr } := by
  induction ws generalizing st with
  | nil => rfl
  | cons w ws ih =>
    obtain ⟨h1, h2, h3⟩ := hw w (by simp)
    simp only [List.mem_cons, List.not_mem_nil, or_false, not_or] at h1
    obtain ⟨a1, a2, a3, a4, a5, a6, a7, a8, a9, a10, a11, a12, a13⟩ := h1
    unfold argLoop
    simp only [a1, a2, a3, a4, a5, a6, a7, a8, a9, a10, a11, a12, a13, decide_false, Bool.or_false,
      Bool.and_false, Bool.false_eq_true, if_false, h2, h3]
    have hrf : (if st.beforeDD = true then (none : Option String) else none) = none := by split <;> rfl
    rw [hrf]
    simp only
    rw [ih _ (fun x hx => hw x (by simp [hx]))]
    rfl

end Fend.C19
