"""C04 — unit conversions are exact, invertible and mutually consistent."""
import time
from fractions import Fraction as F
from vlib import core, unitcases
from translator import units_resolved

MODULE = "FendModel.Props.C04"
REL = "FendModel/Props/C04.lean"

def run(ctx):
    quick = ctx.tier == "quick"
    h = ctx.harness()
    if h is None:
        ctx.proof_failures.append({"file": "harness", "decl": "harness build", "line": 0, "msg": getattr(ctx, "harness_error", "")})
        return ctx.finish()
    units_resolved.generate(ctx, h)          # Tie A: the standards theorem is over the regenerated table
    ctx.lean_build([MODULE])
    ctx.audit(MODULE, REL)
    if not quick:
        ctx.leanchecker(MODULE)
    if ctx.proof_failures:
        # a table theorem no longer checks: look for the concrete unit on which it fails
        for inp, impl, spec in units_resolved.table_failures():
            if "standards" in spec or "spellings" in spec:
                ctx.spec_failures.append({"stream": "unit-table", "input": inp, "impl": impl, "model": "", "spec": spec})
    t0 = time.time()
    r = ctx.rng
    ok, ids = unitcases.load(ctx, h, quick=quick)
    classes = {}
    for n, (s, pi, d) in ok.items():
        if d and s != 0 and not n.startswith(("$", "£", "¥", "€")) and n.isascii() or n in ("°C", "°F"):
            classes.setdefault((unitcases.reduce_dims(d), pi), []).append(n)
    classes = {k: v for k, v in classes.items() if len(v) >= 2}
    keys = list(classes)
    def pick_x():
        return r.choice([F(1), F(0), F(5), F(-3), F(7, 3), F(r.randint(1, 10**6), r.randint(1, 999)), F(10**20 + 7), F(1, 10**12)])
    temp = {"celsius", "fahrenheit", "°C", "°F", "oC", "oF", "C", "F"}
    cases = []   # (expr, kind, payload)
    pairs = []
    if quick:
        for _ in range(1200):
            k = r.choice(keys); a, b = r.sample(classes[k], 2); pairs.append((a, b))
    else:
        for k in keys:
            for a in classes[k]:
                for b in classes[k]:
                    if a != b: pairs.append((a, b))
        r.shuffle(pairs); pairs = pairs[:60000]
    pairs += [("inch", "cm"), ("lb", "kg"), ("mile", "km"), ("°C", "°F"), ("°F", "°C"), ("°C", "kelvin"), ("kelvin", "°F"), ("sqdm", "cm2"), ("EiB", "PiB") if "EiB" in ok else ("byte", "bit"), ("MB", "Mb") if "MB" in ok and "Mb" in ok else ("byte", "bit")]
    exprs, meta = [], []
    for a, b in pairs:
        if a not in ok or b not in ok: continue
        x = pick_x()
        exprs.append(f"@noapprox (({unitcases.q(x)}) {a} to {b}) to fraction"); meta.append(("direct", a, b, x))
        exprs.append(f"@noapprox ((({unitcases.q(x)}) {a} to {b}) to {a}) to fraction"); meta.append(("inverse", a, b, x))
    for _ in range(400 if quick else 10000):
        k = r.choice(keys)
        if len(classes[k]) < 3: continue
        a, b, c = r.sample(classes[k], 3); x = pick_x()
        exprs.append(f"@noapprox ((({unitcases.q(x)}) {a} to {c}) to {b}) to fraction"); meta.append(("via", a, b, x, c))
        kk = r.choice([F(2), F(-7, 3), F(10**9)])
        if not ({a, b} & temp):
            exprs.append(f"@noapprox (({unitcases.q(kk * x)}) {a} to {b}) to fraction"); meta.append(("direct", a, b, kk * x))
    # temperatures inside sums and compound units scale only
    for (e, want) in [("@noapprox (10 °C + 5 kelvin) to fraction", "15 °C"), ("@noapprox (1 kelvin + 9 °F) to fraction", "6 kelvin"), ("@noapprox (0 °C to °F) to fraction", "32 °F"),
                      ("@noapprox (0 °C to kelvin) to fraction", "5463/20 kelvin"), ("@noapprox (100 °C to °F) to fraction", "212 °F"), ("@noapprox (-40 °F to °C) to fraction", "-40 °C"),
                      ("@noapprox (9 J/°F to J/kelvin) to fraction", "81/5 J / kelvin"), ("@noapprox (1 inch to cm) to fraction", "127/50 cm"), ("@noapprox (1 lb to kg) to fraction", "45359237/100000000 kg")]:
        exprs.append(e); meta.append(("fixed", want))
    # temperatures to the first power INSIDE compound units convert by scale only (no offset), whatever the other factor is
    tsc = {"°C": F(1), "celsius": F(1), "kelvin": F(1), "K": F(1), "°F": F(5, 9), "fahrenheit": F(5, 9)}
    others = [u for u in ("min", "W", "m", "s", "hour", "kg", "mile", "J", "bar") if u in ok]
    for _ in range(150 if quick else 4000):
        t1, t2 = r.choice(list(tsc)), r.choice(list(tsc))
        u = r.choice(others); x = r.choice([F(1), F(5), F(10), F(-3), F(7, 2), F(r.randint(1, 999), r.randint(1, 99))])
        shape = r.choice(["{t}/{u}", "{t} {u}", "{t}/{u}^2", "{t} {u}/s"])
        a_, b_ = shape.format(t=t1, u=u), shape.format(t=t2, u=u)
        exprs.append(f"@noapprox (({unitcases.q(x)}) {a_} to {b_}) to fraction"); meta.append(("tempcompound", x * tsc[t1] / tsc[t2]))
        if r.random() < 0.3:
            y = r.choice([F(2), F(5), F(1, 3)])
            exprs.append(f"@noapprox ((({unitcases.q(x)}) {a_} + ({unitcases.q(y)}) {b_}) to {a_}) to fraction"); meta.append(("tempcompound", x + y * tsc[t2] / tsc[t1]))
    outs = ctx.run_lines_robust(h, ["eval"], exprs, env={"HARNESS_LINE_TIMEOUT_S": "20"})
    # model lines
    mlines, midx = [], []
    for i, m in enumerate(meta):
        if m[0] in ("direct", "inverse", "via"):
            a, b, x = m[1], m[2], m[3]
            sa, _, da = ok[a]; sb, _, db = ok[b]
            mlines.append(f"convert {unitcases.q(x)} {unitcases.q(sa)} {unitcases.dims_str(da, ids)} {unitcases.q(sb)} {unitcases.dims_str(db, ids)}"); midx.append(i)
    mouts = dict(zip(midx, ctx.run_lines(core.DRIVER, ["units"], mlines, timeout=900)[1]))
    dist = {"direct": 0, "inverse": 0, "via": 0, "fixed": 0, "tempcompound": 0, "skipped_approx": 0}
    for i, (m, o) in enumerate(zip(meta, outs)):
        dist[m[0]] += 1
        if m[0] == "tempcompound":
            got = unitcases.lead_number(o)
            if got != m[1]:
                ctx.spec_failures.append({"stream": "conversions", "input": exprs[i], "impl": o[:120], "model": unitcases.q(m[1]),
                                          "spec": "temperatures convert by scale only inside sums and compound units (no offset, and the other factors of the unit are kept)"})
            continue
        if m[0] == "fixed":
            if o != "ok " + m[1]:
                ctx.spec_failures.append({"stream": "conversions", "input": exprs[i], "impl": o[:120], "model": m[1], "spec": "temperatures: affine for plain `to`, scale-only in sums/compounds; standard-defined factors"})
            continue
        got = unitcases.lead_number(o)
        if got is None:
            if o.startswith("ok approx") or "approx" in o:
                dist["skipped_approx"] += 1; continue
            ctx.spec_failures.append({"stream": "conversions", "input": exprs[i], "impl": o[:160], "model": mouts.get(i, ""), "spec": "a conversion between units of the same dimension yields a number"}); continue
        a, b, x = m[1], m[2], m[3]
        mo = mouts.get(i, "")
        mv = F(mo[3:]) if mo.startswith("ok ") else None
        if m[0] == "inverse":
            if got != x:
                ctx.spec_failures.append({"stream": "conversions", "input": exprs[i], "impl": o[:120], "model": unitcases.q(x), "spec": "converting back returns the original quantity exactly"})
        elif mv is None or got != mv:
            # direct / via: the model's value is the single fixed ratio applied to x (proved: convert_is_ratio, convert_transitive)
            tgt = ctx.spec_failures if (m[0] == "via") else ctx.model_disagreements
            tgt.append({"stream": "conversions", "input": exprs[i], "impl": o[:120], "model": mo, "spec": "going through an intermediate unit gives the same answer as converting directly"})
    # implicit conversions: a compound result is silently re-expressed in a default unit (liter, newton, joule, ... or a lone base unit); that
    # re-expression is a conversion like any other and must agree with the explicit one and with the table's ratios
    t1 = time.time()
    byd = {}
    for (d, pi), ns in classes.items():
        if pi == 0 and not (set(ns) & temp):
            byd[d] = [n for n in ns if n not in temp]
    def dmul(d1, d2, sgn):
        o = dict(d1)
        for b, e in d2:
            o[b] = o.get(b, 0) + sgn * e
        return tuple(sorted((b, e) for b, e in o.items() if e != 0))
    targets = {}
    for nm in ("hertz", "newton", "pascal", "joule", "watt", "ohm", "volt", "liter", "meter", "second", "kilogram", "ampere", "kelvin", "mole", "candela", "bit"):
        if nm in ok and ok[nm][1] == 0:
            targets[unitcases.reduce_dims(ok[nm][2])] = nm
    combos = []
    for d1 in byd:
        for d2 in byd:
            for sgn, op in ((1, "*"), (-1, "/")):
                if dmul(d1, d2, sgn) in targets and d1 and d2:
                    combos.append((d1, d2, op))
    iexprs, imeta = [], []
    for _ in range(600 if quick else 12000):
        if not combos: break
        d1, d2, op = r.choice(combos)
        a, b = r.choice(byd[d1]), r.choice(byd[d2])
        x, y = r.choice([F(1), F(2), F(3), F(50), F(7, 2), F(1, 8)]), r.choice([F(1), F(1), F(2), F(5), F(3, 4)])
        iexprs.append(f"@noapprox ((({unitcases.q(x)}) {a}) {op} (({unitcases.q(y)}) {b})) to fraction"); imeta.append((a, b, op, x, y))
    for e in ["1 hectare * 1 m", "2 are * 50 cm", "1 acre * 1 ft", "1 J / (1 Pa)", "3 kW * 2 s / (1 bar)", "1 N * 1 m", "1 W * 1 hour", "1 V / (1 A)", "1 W / (1 A)", "1 J / (1 m)", "1 N / (1 m^2)", "1 / (1 ms)", "1 km / (1 km/h)", "1 gallon / (1 inch^2)"]:
        iexprs.append(f"@noapprox ({e}) to fraction"); imeta.append(None)
    io = ctx.run_lines_robust(h, ["eval"], iexprs, env={"HARNESS_LINE_TIMEOUT_S": "20"})
    import re as _re
    second, smeta = [], []
    for e, m, o in zip(iexprs, imeta, io):
        mm = _re.match(r"ok (-?[0-9]+(?:/[0-9]+)?) (.+)$", o)
        if not mm: continue
        v, U = F(mm.group(1)), mm.group(2)
        inner = e[len("@noapprox "):-len(" to fraction")]
        second.append(f"@noapprox ({inner} to {U}) to fraction"); smeta.append((e, m, o, v, U))
    so = ctx.run_lines_robust(h, ["eval"], second, env={"HARNESS_LINE_TIMEOUT_S": "20"}) if second else []
    idist = {"implicit_results": len(iexprs), "with_unit": len(second), "explicit_agrees": 0, "table_checked": 0, "explicit_unparsed": 0, "shown_in": {}}
    for (e, m, o, v, U), o2 in zip(smeta, so):
        idist["shown_in"][U] = idist["shown_in"].get(U, 0) + 1
        if not o2.startswith("ok "):
            idist["explicit_unparsed"] += 1
        elif o2 != o:
            ctx.spec_failures.append({"stream": "implicit", "input": e, "impl": f"shown as `{o[3:]}`, but converting the same quantity explicitly to `{U}` gives `{o2[3:]}`", "model": "",
                                      "spec": "a conversion multiplies by one fixed ratio: the unit fend chooses by itself for a compound result and the explicit `to` into that unit must show the same quantity"})
            continue
        else:
            idist["explicit_agrees"] += 1
        if m is not None and U in ok and ok[U][1] == 0:
            a, b, op, x, y = m
            want = x * ok[a][0] * (y * ok[b][0] if op == "*" else 1 / (y * ok[b][0])) / ok[U][0]
            idist["table_checked"] += 1
            if v != want:
                ctx.spec_failures.append({"stream": "implicit", "input": e, "impl": o[:120], "model": f"{unitcases.q(want)} {U}", "spec": "the ratios agree with the table's defining scales (the shown quantity is not the computed one)"})
    ctx.record_stream("implicit", "products and quotients of two quantities whose combined dimension is one fend re-expresses by itself (liter, newton, pascal, joule, watt, ohm, volt, hertz, a lone base unit), "
                      "units drawn from every dimension-class pair of the regenerated table that combines to such a dimension, plus named shapes (area x length, energy / pressure, power x time, ...): the implicit "
                      "result must equal the explicit conversion into the unit shown, and the value implied by the table's scales", len(iexprs) + len(second), len(set(iexprs)), idist, iexprs[:3], time.time() - t1)
    ctx.record_stream("conversions", "pairs and triples of unit names (incl. randomly prefixed ones) inside each dimension class of the regenerated resolved table, rational magnitudes; "
                      "`@noapprox (x A to B) to fraction`, there-and-back, via an intermediate unit, scaled quantities, temperature forms; vs the Lean conversion model fed with the "
                      "resolved scales/dimensions, and vs the algebraic laws directly", len(exprs), len(set(exprs)), dist, exprs[:3], time.time() - t0)
    return ctx.finish(rule="dimension classes from the regenerated table; quick: 1200 random ordered pairs + 400 triples; thorough: all ordered pairs (capped at 60000); distinct = distinct expressions")

def replay(ctx, rep):
    print(rep["first"]); return 0
