import FendModel.Proofs.SerializePrim

namespace Fend.Ser
open BigUint (small large)

def U64 (n : Nat) : Prop := n < 18446744073709551616

def UintRep : BigUint → Prop
  | .small n => U64 n
  | .large v => v ≠ [] ∧ U64 v.length ∧ ∀ x ∈ v, U64 x

theorem deUint_ser (b : BigUint) (h : UintRep b) (rest : Bytes) :
    deUint (serUint b ++ rest) = .ok (b, rest) := by
  cases b with
  | small n =>
    simp only [serUint, List.cons_append, List.nil_append, deUint, deU8_cons, andThen_ok, if_true]
    rw [deU64_ser n h rest, andThen_ok]
  | large v =>
    obtain ⟨hne, hl, hx⟩ := h
    have hlen : v.length ≠ 0 := by simpa using hne
    have e : serUint (large v) ++ rest = 2 :: (serU64 v.length ++ (v.flatMap serU64 ++ rest)) := by
      simp only [serUint, List.cons_append, List.nil_append, List.append_assoc]
    rw [e]
    unfold deUint
    rw [deU8_cons, andThen_ok, if_neg (by decide), if_pos rfl, deU64_ser _ hl, andThen_ok, if_neg hlen,
      deListN_ser serU64 deU64 v rest (fun x hxm r => deU64_ser x (hx x hxm) r), andThen_ok]

def RatRep (q : BigRat) : Prop := UintRep q.num ∧ UintRep q.den ∧ isZeroU q.den = false

theorem deRat_ser (q : BigRat) (h : RatRep q) (rest : Bytes) :
    deRat (serRat q ++ rest) = .ok (q, rest) := by
  obtain ⟨neg, n, d⟩ := q
  cases neg
  · simp only [serRat, List.cons_append, List.nil_append, List.append_assoc, deRat, deU8_cons, andThen_ok,
      Bool.false_eq_true, if_false]
    rw [if_neg (by decide), deUint_ser n h.1, andThen_ok, deUint_ser d h.2.1, andThen_ok]; simp [h.2.2]
  · simp only [serRat, List.cons_append, List.nil_append, List.append_assoc, deRat, deU8_cons, andThen_ok,
      if_true]
    rw [if_neg (by decide), deUint_ser n h.1, andThen_ok, deUint_ser d h.2.1, andThen_ok]; simp [h.2.2]

def RealRep : Real → Prop
  | .simple q => RatRep q
  | .pi q => RatRep q

theorem deReal_ser (x : Real) (h : RealRep x) (rest : Bytes) :
    deReal (serReal x ++ rest) = .ok (x, rest) := by
  cases x with
  | simple q =>
    simp only [serReal, List.cons_append, List.nil_append, deReal, deU8_cons, andThen_ok, if_true]
    rw [deRat_ser q h, andThen_ok]
  | pi q =>
    simp only [serReal, List.cons_append, List.nil_append, deReal, deU8_cons, andThen_ok]
    rw [if_neg (by decide), if_pos trivial, deRat_ser q h, andThen_ok]

def ComplexRep (c : Complex) : Prop := RealRep c.re ∧ RealRep c.im

theorem deComplex_ser (c : Complex) (h : ComplexRep c) (rest : Bytes) :
    deComplex (serComplex c ++ rest) = .ok (c, rest) := by
  obtain ⟨a, b⟩ := c
  simp only [serComplex, List.append_assoc, deComplex]
  rw [deReal_ser a h.1, andThen_ok, deReal_ser b h.2, andThen_ok]

def BaseRep : Base → Prop
  | .custom b => 2 ≤ b ∧ b ≤ 36
  | .plain b => 2 ≤ b ∧ b ≤ 36
  | _ => True

theorem deBase_ser (b : Base) (h : BaseRep b) (rest : Bytes) :
    deBase (serBase b ++ rest) = .ok (b, rest) := by
  cases b with
  | custom k =>
    have h1 : ¬ (k < 2 ∨ k > 36) := by simp only [BaseRep] at h; omega
    simp only [serBase, List.cons_append, List.nil_append, deBase, deU8_cons, andThen_ok]
    rw [if_neg (by decide), if_neg (by decide), if_neg (by decide), if_pos trivial, if_neg h1]
  | plain k =>
    have h1 : ¬ (k < 2 ∨ k > 36) := by simp only [BaseRep] at h; omega
    simp only [serBase, List.cons_append, List.nil_append, deBase, deU8_cons, andThen_ok]
    rw [if_neg (by decide), if_neg (by decide), if_neg (by decide), if_neg (by decide), if_pos trivial, if_neg h1]
  | binary => rfl
  | octal => rfl
  | hex => rfl

def FmtRep : Fmt → Prop
  | .dp n => U64 n
  | .sf n => U64 n
  | _ => True

theorem deFmt_ser (f : Fmt) (h : FmtRep f) (rest : Bytes) :
    deFmt (serFmt f ++ rest) = .ok (f, rest) := by
  cases f with
  | dp n =>
    simp only [serFmt, List.cons_append, List.nil_append, deFmt, deU8_cons, andThen_ok]
    rw [if_neg (by decide), if_neg (by decide), if_neg (by decide), if_neg (by decide), if_pos trivial,
      deU64_ser n h, andThen_ok]
  | sf n =>
    simp only [serFmt, List.cons_append, List.nil_append, deFmt, deU8_cons, andThen_ok]
    rw [if_neg (by decide), if_neg (by decide), if_neg (by decide), if_neg (by decide), if_neg (by decide),
      if_pos trivial, deU64_ser n h, andThen_ok]
  | improper => rfl
  | mixed => rfl
  | exactFloat => rfl
  | exact => rfl
  | auto => rfl

def BaseEntryRep (p : Str × Complex) : Prop := StrRep p.1 ∧ ComplexRep p.2

theorem deBaseEntry_ser (p : Str × Complex) (h : BaseEntryRep p) (rest : Bytes) :
    deBaseEntry (serStr p.1 ++ serComplex p.2 ++ rest) = .ok (p, rest) := by
  obtain ⟨k, v⟩ := p
  simp only [deBaseEntry, List.append_assoc]
  rw [deStr_ser k h.1, andThen_ok, deComplex_ser v h.2, andThen_ok]

def NamedUnitRep (u : NamedUnit) : Prop :=
  StrRep u.pref ∧ StrRep u.singular ∧ StrRep u.plural ∧ U64 u.base.length ∧
    (∀ p ∈ u.base, BaseEntryRep p) ∧ ComplexRep u.scale

theorem deNamedUnit_ser (u : NamedUnit) (h : NamedUnitRep u) (rest : Bytes) :
    deNamedUnit (serNamedUnit u ++ rest) = .ok (u, rest) := by
  obtain ⟨p, s, pl, a, b, sc⟩ := u
  obtain ⟨h1, h2, h3, h4, h5, h6⟩ := h
  simp only [serNamedUnit, List.append_assoc, deNamedUnit]
  rw [deStr_ser p h1, andThen_ok, deStr_ser s h2, andThen_ok, deStr_ser pl h3, andThen_ok,
    deBool_ser, andThen_ok,
    deList_ser (fun p : Str × Complex => serStr p.1 ++ serComplex p.2) deBaseEntry b _ h4
      (fun x hx r => deBaseEntry_ser x (h5 x hx) r),
    andThen_ok, deComplex_ser sc h6, andThen_ok]

def UnitExpRep (u : UnitExp) : Prop := NamedUnitRep u.unit ∧ ComplexRep u.exp

theorem deUnitExp_ser (u : UnitExp) (h : UnitExpRep u) (rest : Bytes) :
    deUnitExp (serUnitExp u ++ rest) = .ok (u, rest) := by
  obtain ⟨n, e⟩ := u
  simp only [serUnitExp, List.append_assoc, deUnitExp]
  rw [deNamedUnit_ser n h.1, andThen_ok, deComplex_ser e h.2, andThen_ok]

def DistEntryRep (p : Complex × BigRat) : Prop := ComplexRep p.1 ∧ RatRep p.2

theorem deDistEntry_ser (p : Complex × BigRat) (h : DistEntryRep p) (rest : Bytes) :
    deDistEntry (serComplex p.1 ++ serRat p.2 ++ rest) = .ok (p, rest) := by
  obtain ⟨c, q⟩ := p
  simp only [deDistEntry, List.append_assoc]
  rw [deComplex_ser c h.1, andThen_ok, deRat_ser q h.2, andThen_ok]

def NumberRep (n : Number) : Prop :=
  U64 n.dist.length ∧ (∀ p ∈ n.dist, DistEntryRep p) ∧
  U64 n.unit.length ∧ (∀ u ∈ n.unit, UnitExpRep u) ∧ BaseRep n.base ∧ FmtRep n.fmt

theorem deNumber_ser (n : Number) (h : NumberRep n) (rest : Bytes) :
    deNumber (serNumber n ++ rest) = .ok (n, rest) := by
  obtain ⟨d, u, e, b, f, s⟩ := n
  obtain ⟨h1, h2, h3, h4, h5, h6⟩ := h
  simp only [serNumber, List.append_assoc, deNumber]
  rw [deList_ser (fun p : Complex × BigRat => serComplex p.1 ++ serRat p.2) deDistEntry d _ h1
      (fun x hx r => deDistEntry_ser x (h2 x hx) r), andThen_ok,
    deList_ser serUnitExp deUnitExp u _ h3 (fun x hx r => deUnitExp_ser x (h4 x hx) r), andThen_ok,
    deBool_ser, andThen_ok, deBase_ser b h5, andThen_ok, deFmt_ser f h6, andThen_ok, deBool_ser, andThen_ok]

def DateRep (d : SDate) : Prop :=
  d.year ≠ 0 ∧ -2147483648 ≤ d.year ∧ d.year < 2147483648 ∧ 1 ≤ d.month ∧ d.month ≤ 12 ∧ 1 ≤ d.day ∧ d.day ≤ 31

theorem deDate_ser (d : SDate) (h : DateRep d) (rest : Bytes) :
    deDate (serDate d ++ rest) = .ok (d, rest) := by
  obtain ⟨y, m, dd⟩ := d
  obtain ⟨h0, h1, h2, h3, h4, h5, h6⟩ := h
  simp only at h0 h1 h2 h3 h4 h5 h6
  simp only [serDate, List.append_assoc, deDate]
  rw [deI32_ser y h1 h2, andThen_ok, if_neg h0]
  simp only [List.cons_append, List.nil_append, deMonth, deU8_cons, andThen_ok]
  rw [if_pos ⟨h3, h4⟩, andThen_ok, deU8_cons, andThen_ok, if_neg (by omega)]

/-- every built-in function name is read back as the same function -/
theorem deBuiltin_table :
    ∀ i, i < builtinNames.length →
      builtinAccepted.idxOf? (builtinNames.getD i []) = some i ∧
      builtinNames.idxOf (builtinNames.getD i []) = i ∧
      (builtinNames.getD i []).length < 18446744073709551616 ∧ validUtf8 (builtinNames.getD i []) = true := by
  decide

theorem deBuiltin_ser (i : Nat) (h : i < builtinNames.length) (rest : Bytes) :
    deBuiltin (serBuiltin i ++ rest) = .ok (i, rest) := by
  obtain ⟨h1, h2, h3⟩ := deBuiltin_table i h
  simp only [serBuiltin, deBuiltin]
  rw [deStr_ser _ h3, andThen_ok]
  simp only [h1, h2]

end Fend.Ser
