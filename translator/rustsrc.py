"""Tiny Rust source helpers shared by the translators (Tie A): comment stripping and extraction of
function bodies by brace matching. Good enough for fend's flat, rustfmt-formatted sources."""
import os, re

REPO = os.environ.get("VERIF_REPO", "/repo")

def strip_comments(src):
    out, i, n = [], 0, len(src)
    while i < n:
        if src.startswith("//", i):
            while i < n and src[i] != "\n": i += 1
        elif src.startswith("/*", i):
            j = src.find("*/", i + 2); i = n if j < 0 else j + 2
        elif src[i] == '"':
            j = i + 1
            while j < n and src[j] != '"':
                j += 2 if src[j] == "\\" else 1
            out.append(src[i:j + 1]); i = j + 1
        elif src[i] == "'" and i + 2 < n and (src[i + 2] == "'" or (src[i + 1] == "\\" and src.find("'", i + 2) - i <= 8)):
            j = src.find("'", i + 2 if src[i + 1] != "\\" else i + 3)
            out.append(src[i:j + 1]); i = j + 1
        else:
            out.append(src[i]); i += 1
    return "".join(out)

def rust_files(sub="core/src"):
    base = os.path.join(REPO, sub)
    for d, _, fs in os.walk(base):
        for f in sorted(fs):
            if f.endswith(".rs") and "verif_hooks" not in f:
                yield os.path.relpath(os.path.join(d, f), REPO), open(os.path.join(d, f)).read()

def functions(src):
    """yield (name, body_text) for every `fn name(...) {...}` (non-nested view: nested fns appear too)"""
    s = strip_comments(src)
    for m in re.finditer(r"\bfn\s+([A-Za-z_][A-Za-z0-9_]*)\s*(<[^>{]*>)?\s*\(", s):
        i = s.find("{", m.end())
        semi = s.find(";", m.end())
        if i < 0 or (0 <= semi < i):
            continue
        depth, j = 0, i
        while j < len(s):
            if s[j] == "{": depth += 1
            elif s[j] == "}":
                depth -= 1
                if depth == 0: break
            j += 1
        yield m.group(1), s[i:j + 1]

def without_tests(src):
    k = src.find("#[cfg(test)]")
    return src if k < 0 else src[:k]
