/-
Model of `core/src/num/dist.rs`: distributions as lists of (outcome, probability) over exact
rationals (core `Rat`), `new_die`, `bop` (merge into the first equal outcome, else append), `Neg`,
`mean`, `sample` (cumulative `saturating_sub` from the u32; the one floating-point step, the
threshold `((p as f64) * u32::MAX) as u32`, is a parameter `thr`), and the outcome order of `format`.
-/
namespace Fend.Dist

abbrev Dist := List (Rat × Rat)

def outcomes (d : Dist) : List Rat := d.map (·.1)

/-- merge `(n, p)` into the first part with an equal outcome, or append it -/
def insertMerge : Dist → Rat → Rat → Dist
  | [], n, p => [(n, p)]
  | (k, q) :: rest, n, p => if k = n then (k, q + p) :: rest else (k, q) :: insertMerge rest n p

/-- the inner loop of `bop` for one left part -/
def bopInner (f : Rat → Rat → Rat) (n1 p1 : Rat) : Dist → Dist → Dist
  | [], parts => parts
  | (n2, p2) :: rest, parts => bopInner f n1 p1 rest (insertMerge parts (f n1 n2) (p1 * p2))

def bopOuter (f : Rat → Rat → Rat) (rhs : Dist) : Dist → Dist → Dist
  | [], parts => parts
  | (n1, p1) :: rest, parts => bopOuter f rhs rest (bopInner f n1 p1 rhs parts)

/-- `Dist::bop` -/
def bop (f : Rat → Rat → Rat) (a b : Dist) : Dist := bopOuter f b a []

/-- a single fair die -/
def die1 (faces : Nat) : Dist := (List.range faces).map fun i => (((i + 1 : Nat) : Rat), 1 / (faces : Rat))

def addDice : Nat → Nat → Dist → Dist
  | 0, _, acc => acc
  | k + 1, faces, acc => addDice k faces (bop (· + ·) acc (die1 faces))

/-- `Dist::new_die(count, faces)` (both non-zero) -/
def newDie (count faces : Nat) : Dist :=
  if count > 1 then addDice (count - 1) faces (die1 faces) else die1 faces

def neg (d : Dist) : Dist := d.map fun (k, p) => (-k, p)

/-- `Dist::mean` -/
def mean (d : Dist) : Option Rat :=
  match d with
  | [] => none
  | [(k, _)] => some k
  | _ => some (d.foldl (fun acc (k, p) => k * p + acc) 0)

/-- `Dist::sample` for a distribution with more than one part: `random` is the u32 drawn,
`thr p` the u32 threshold of probability `p` -/
def sampleLoop (thr : Rat → Nat) : Dist → Nat → Option Rat → Option Rat
  | [], _, res => res
  | (k, p) :: rest, random, _ =>
    let random := random - thr p        -- saturating_sub
    if random = 0 then some k else sampleLoop thr rest random (some k)

def sample (thr : Rat → Nat) (d : Dist) (random : Nat) : Option Rat :=
  match d with
  | [(k, _)] => some k
  | _ => sampleLoop thr d random none

/-- probability mass the distribution gives to `z` -/
def prob : Dist → Rat → Rat
  | [], _ => 0
  | (k, p) :: rest, z => (if k = z then p else 0) + prob rest z

def total : Dist → Rat
  | [] => 0
  | (_, p) :: rest => p + total rest

/-- specification of the push-forward: Σ_{x ∈ a} Σ_{y ∈ b} [f x y = z] · pₓ · p_y -/
def convInner (f : Rat → Rat → Rat) (n1 p1 : Rat) : Dist → Rat → Rat
  | [], _ => 0
  | (n2, p2) :: rest, z => (if f n1 n2 = z then p1 * p2 else 0) + convInner f n1 p1 rest z
def conv (f : Rat → Rat → Rat) : Dist → Dist → Rat → Rat
  | [], _, _ => 0
  | (n1, p1) :: rest, b, z => convInner f n1 p1 b z + conv f rest b z

/-- insertion sort by outcome: the order in which `format` lists the parts -/
def insertSorted (x : Rat × Rat) : Dist → Dist
  | [] => [x]
  | y :: ys => if x.1 ≤ y.1 then x :: y :: ys else y :: insertSorted x ys
def sorted (d : Dist) : Dist := d.foldr insertSorted []

end Fend.Dist
