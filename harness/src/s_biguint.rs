//! Stream `biguint`: raw limb vectors in, raw limb vectors out, through the hooks.
use crate::common::*;
use fend_core::verif_hooks as h;

pub fn line(l: &str) -> String {
    let ws: Vec<&str> = l.trim().split(' ').collect();
    let int = Counting::never();
    let res = guarded(|| -> Result<String, String> {
        match ws.as_slice() {
            ["fibonacci", n] => {
                let n: usize = n.parse().map_err(|_| "bad-op".to_string())?;
                h::biguint_fibonacci(n, &int).map(|r| show_uint(&r))
            }
            [op, a] => {
                let a = parse_uint(a).ok_or("bad-op")?;
                h::biguint_op1(op, &a, &int)
                    .map(|v| v.iter().map(show_uint).collect::<Vec<_>>().join(" "))
            }
            [op, a, b] => {
                let a = parse_uint(a).ok_or("bad-op")?;
                let b = parse_uint(b).ok_or("bad-op")?;
                h::biguint_op2(op, &a, &b, &int).map(|v| {
                    if *op == "cmp" {
                        format!("{}", v[0].1[0] as i64)
                    } else {
                        v.iter().map(show_uint).collect::<Vec<_>>().join(" ")
                    }
                })
            }
            _ => Err("bad-op".to_string()),
        }
    });
    match res {
        Ok(Ok(s)) => format!("ok {s}"),
        Ok(Err(e)) if e == "bad-op" || e.starts_with("unknown op") => "bad-op".to_string(),
        Ok(Err(e)) => format!("err {}", classify(&e)),
        Err(_p) => "err panic".to_string(),
    }
}
