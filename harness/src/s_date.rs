//! Stream `date`: calendar arithmetic through the public API.
//!   `Y M D (op N)*`  op ∈ +d -d -w -m -y   ->  `@Y-M-D op N unit ...`
//!   `lit <hex code points>`                 ->  `@<text>`
//! Output: `ok Y M D W` (W: 0 = Sunday) | `nonexistent Y M D` | `err <msg>` | `panic`.
use crate::common::*;
use crate::s_text::parse_cps;
use fend_core::Context;

const MONTHS: [&str; 12] = ["January", "February", "March", "April", "May", "June", "July", "August",
    "September", "October", "November", "December"];
const DAYS: [&str; 7] = ["Sunday", "Monday", "Tuesday", "Wednesday", "Thursday", "Friday", "Saturday"];

fn month_no(s: &str) -> Option<usize> { MONTHS.iter().position(|m| *m == s).map(|i| i + 1) }

/// "Thursday, 29 February 2024" / "Saturday, 31 December 1 BC"
fn parse_date_text(s: &str) -> Option<String> {
    let (wd, rest) = s.split_once(", ")?;
    let w = DAYS.iter().position(|d| *d == wd)?;
    let parts: Vec<&str> = rest.split(' ').collect();
    if parts.len() < 3 { return None; }
    let d: u32 = parts[0].parse().ok()?;
    let m = month_no(parts[1])?;
    let mut y: i64 = parts[2].parse().ok()?;
    if parts.len() == 4 && parts[3] == "BC" { y = -y; }
    Some(format!("ok {y} {m} {d} {w}"))
}

/// "February 29, 2023 does not exist, did you mean ..."
fn parse_nonexistent(e: &str) -> Option<String> {
    let head = e.split(" does not exist").next()?;
    if head.len() == e.len() { return None; }
    let (md, y) = head.split_once(", ")?;
    let (m, d) = md.split_once(' ')?;
    Some(format!("nonexistent {} {} {}", y.trim(), month_no(m)?, d))
}

pub fn line(l: &str) -> String {
    let ws: Vec<&str> = l.trim().split(' ').collect();
    let src = if ws.first() == Some(&"lit") {
        let Some(t) = parse_cps(&ws[1..].join(" ")) else { return "bad-op".into() };
        format!("@{t}")
    } else {
        if ws.len() < 3 || (ws.len() - 3) % 2 != 0 { return "bad-op".into(); }
        let mut s = format!("@{}-{:02}-{:02}", ws[0], ws[1].parse::<u32>().unwrap_or(0), ws[2].parse::<u32>().unwrap_or(0));
        for ch in ws[3..].chunks(2) {
            let (sign, unit) = match ch[0] {
                "+d" => ('+', "days"), "-d" => ('-', "days"), "-w" => ('-', "weeks"),
                "-m" => ('-', "months"), "-y" => ('-', "years"), _ => return "bad-op".into(),
            };
            s = format!("{s} {sign} {} {unit}", ch[1]);
        }
        s
    };
    let int = Counting::never();
    let mut c = Context::new();
    match guarded(|| fend_core::evaluate_with_interrupt(&src, &mut c, &int)) {
        Ok(Ok(v)) => parse_date_text(v.get_main_result()).unwrap_or_else(|| format!("other {}", v.get_main_result())),
        Ok(Err(e)) => parse_nonexistent(&e).unwrap_or_else(|| {
            if ws.first() == Some(&"lit") { "err".into() } else { format!("err {e}") }
        }),
        Err(_) => "panic".into(),
    }
}
