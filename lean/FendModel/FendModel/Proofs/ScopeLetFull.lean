/-
Referential transparency of a bound name, in general: `x = e; b` and `b[x := (e)]` compute related results for an ARBITRARY
body `b` (lambdas, applications, stored closures, assignments to other names, sequences) when `e` is a closed arithmetic
expression — provided `b` neither re-binds nor re-assigns `x`, and the functions already stored in variables do not mention
`x` (globals are late-bound: a stored `f = y: y + x` would see the new `x` on one side only).  The left side looks `x` up in
the variables (one step); the right side re-evaluates `(e)` (up to `depth e + 1` steps): the simulation runs the right side
with that much more fuel and is stated up to fuel exhaustion of the left side.
-/
import FendModel.Proofs.ScopeBetaFull

namespace Fend.Scope.LetF
open Fend.Scope

section
variable (x : String) (e : Expr) (q : Rat)

/-- no binder and no assignment of `x` anywhere inside -/
def HygL : Expr → Bool
  | .num _ => true
  | .unitLit => true
  | .var _ => true
  | .parens t => HygL t
  | .neg t => HygL t
  | .bop _ a b => HygL a && HygL b
  | .lam y b => y != x && HygL b
  | .app f a => HygL f && HygL a
  | .assign y t => y != x && HygL t
  | .seq a b => HygL a && HygL b

/-- `x` does not occur at all -/
def NoX (t : Expr) : Bool := !(namesOf t).contains x

def sub (m : Bool) (t : Expr) : Expr := if m then subst x e t else t

def Pre (m : Bool) (t : Expr) : Prop := if m then HygL x t = true else NoX x t = true

/-- scopes of the same shape, no binding named `x`, arguments related in one of the two modes -/
inductive SRelL : Scope → Scope → Prop
  | nil : SRelL .nil .nil
  | cons (m : Bool) (p : String) (a : Expr) (C C' S T : Scope) :
      p ≠ x → Pre x m a → SRelL C C' → SRelL S T → SRelL (.cons p a C S) (.cons p (sub x e m a) C' T)

def VR : Value → Value → Prop
  | .num r, w => w = .num r
  | .unit, w => w = .unit
  | .fn p body C, w => ∃ m C', w = .fn p (sub x e m body) C' ∧ Pre x m body ∧ p ≠ x ∧ SRelL x e C C'

/-- the variables: the left side holds `x ↦ q`; every other name is related -/
def VsRx (vs vs' : Vars) : Prop :=
  lookup vs x = some (.num q) ∧
  ∀ y, y ≠ x → (lookup vs y = none ∧ lookup vs' y = none) ∨ (∃ v v', lookup vs y = some v ∧ lookup vs' y = some v' ∧ VR x e v v')

def ResR (a b : Except Err Value × Vars) : Prop :=
  a.1 = .error .fuel ∨
  (VsRx x e q a.2 b.2 ∧
    match a.1, b.1 with
    | .error er, .error er' => er = er'
    | .ok v, .ok v' => VR x e v v'
    | _, _ => False)

theorem find_rel {S T : Scope} (h : SRelL x e S T) (y : String) :
    (S.find y = none ∧ T.find y = none) ∨
    (∃ a C m C', S.find y = some (a, C) ∧ T.find y = some (sub x e m a, C') ∧ Pre x m a ∧ SRelL x e C C') := by
  induction h with
  | nil => left; simp [Scope.find]
  | cons m p a C C' S T _ hp hC _ _ ihS =>
    by_cases hpy : p = y
    · right; exact ⟨a, C, m, C', by simp [Scope.find, hpy], by simp [Scope.find, hpy], hp, hC⟩
    · simpa [Scope.find, hpy] using ihS

theorem find_x {S T : Scope} (h : SRelL x e S T) : S.find x = none ∧ T.find x = none := by
  induction h with
  | nil => simp [Scope.find]
  | cons m p a C C' S T hpx _ _ _ _ ihS => simpa [Scope.find, hpx] using ihS

theorem setVar_rel (vs vs' : Vars) (h : VsRx x e q vs vs') (y : String) (hy : y ≠ x) (v v' : Value) (hv : VR x e v v') :
    VsRx x e q (setVar vs y v) (setVar vs' y v') := by
  obtain ⟨hx, hall⟩ := h
  refine ⟨by rw [lookup_setVar_other vs y x v (Ne.symm hy)]; exact hx, fun z hz => ?_⟩
  by_cases hzy : z = y
  · subst hzy
    right; exact ⟨v, v', lookup_setVar_same vs z v, lookup_setVar_same vs' z v', hv⟩
  · rw [lookup_setVar_other vs y z v hzy, lookup_setVar_other vs' y z v' hzy]; exact hall z hz

theorem ResR_cases {a b : Except Err Value × Vars} (h : ResR x e q a b) :
    a.1 = .error .fuel ∨
    (∃ er vs vs', a = (.error er, vs) ∧ b = (.error er, vs') ∧ VsRx x e q vs vs') ∨
    (∃ v v' vs vs', a = (.ok v, vs) ∧ b = (.ok v', vs') ∧ VR x e v v' ∧ VsRx x e q vs vs') := by
  rcases h with h | ⟨hvs, hres⟩
  · exact Or.inl h
  · right
    obtain ⟨a1, a2⟩ := a
    obtain ⟨b1, b2⟩ := b
    cases a1 with
    | error er => cases b1 with
      | error er' => left; simp only at hres; subst hres; exact ⟨er, a2, b2, rfl, rfl, hvs⟩
      | ok v' => exact hres.elim
    | ok v => cases b1 with
      | error er' => exact hres.elim
      | ok v' => right; exact ⟨v, v', a2, b2, rfl, rfl, hres, hvs⟩

theorem VR_cases {v v' : Value} (h : VR x e v v') :
    (∃ r, v = .num r ∧ v' = .num r) ∨ (v = .unit ∧ v' = .unit) ∨
    (∃ p body C m C', v = .fn p body C ∧ v' = .fn p (sub x e m body) C' ∧ Pre x m body ∧ p ≠ x ∧ SRelL x e C C') := by
  cases v with
  | num r => left; exact ⟨r, rfl, h⟩
  | unit => right; left; exact ⟨rfl, h⟩
  | fn p body C => right; right; obtain ⟨m, C', hw, hp, hpx, hr⟩ := h; exact ⟨p, body, C, m, C', rfl, hw, hp, hpx, hr⟩

theorem resR_err (er : Err) {vs vs' : Vars} (h : VsRx x e q vs vs') : ResR x e q (.error er, vs) (.error er, vs') := Or.inr ⟨h, rfl⟩
theorem resR_ok {v v' : Value} {vs vs' : Vars} (hv : VR x e v v') (h : VsRx x e q vs vs') : ResR x e q (.ok v, vs) (.ok v', vs') := Or.inr ⟨h, hv⟩
theorem resR_fuel {vs : Vars} {b : Except Err Value × Vars} : ResR x e q (.error .fuel, vs) b := Or.inl rfl

theorem pre_un (m : Bool) (t t1 : Expr) (h : Pre x m t) (hh : HygL x t = true → HygL x t1 = true)
    (hn : NoX x t = true → NoX x t1 = true) : Pre x m t1 := by
  cases m with
  | true => exact hh h
  | false => exact hn h

/-- **the simulation** (right side with `depth e + 1` more fuel) -/
theorem sim (bi : List (String × Rat)) (he : closedArith e = true) (hq : ceval e = .ok q) (D : Nat) (hD : depth e < D) :
    ∀ (f : Nat) (t : Expr) (m : Bool) (S T : Scope) (vs vs' : Vars),
      SRelL x e S T → Pre x m t → VsRx x e q vs vs' →
      ResR x e q (eval bi f t S vs) (eval bi (f + D) (sub x e m t) T vs') := by
  intro f
  induction f with
  | zero => intro t m S T vs vs' _ _ _; simp only [eval]; exact resR_fuel x e q
  | succ f ih =>
    intro t m S T vs vs' hrel hpre hvs
    have hfu : f + 1 + D = (f + D) + 1 := by omega
    rw [hfu]
    cases t with
    | num r =>
      have hs : sub x e m (.num r) = .num r := by cases m <;> rfl
      rw [hs]; simp only [eval]; exact resR_ok x e q rfl hvs
    | unitLit =>
      have hs : sub x e m .unitLit = .unitLit := by cases m <;> rfl
      rw [hs]; simp only [eval]; exact resR_ok x e q rfl hvs
    | parens t1 =>
      have hs : sub x e m (.parens t1) = .parens (sub x e m t1) := by cases m <;> rfl
      rw [hs]; simp only [eval]
      exact ih t1 m S T vs vs' hrel (pre_un x m _ t1 hpre (by simp [HygL]) (by simp [NoX, namesOf])) hvs
    | var y =>
      by_cases hyx : y = x
      · subst hyx
        cases m with
        | false => exact absurd hpre (by simp [Pre, NoX, namesOf])
        | true =>
          have hs : sub y e true (.var y) = .parens e := by simp [sub, subst]
          rw [hs]
          obtain ⟨f1, _⟩ := find_x y e hrel
          have hfuel : depth e ≤ f + D := by omega
          simp only [eval, f1, hvs.1, eval_closed bi e he (f + D) hfuel T vs', hq]
          exact resR_ok y e q (show VR y e (.num q) (.num q) from rfl) hvs
      · have hs : sub x e m (.var y) = .var y := by
          cases m with
          | false => rfl
          | true => simp [sub, subst, hyx]
        rw [hs]
        rcases find_rel x e hrel y with ⟨h1, h2⟩ | ⟨a, C, m', C', h1, h2, hp', hC⟩
        · simp only [eval, h1, h2]
          rcases hvs.2 y hyx with ⟨l1, l2⟩ | ⟨v, v', l1, l2, hv⟩
          · simp only [l1, l2]
            cases bi.find? (fun p => p.1 = y) with
            | none => exact resR_err x e q _ hvs
            | some pq => obtain ⟨_, r⟩ := pq; exact resR_ok x e q rfl hvs
          · simp only [l1, l2]; exact resR_ok x e q hv hvs
        · simp only [eval, h1, h2]
          exact ih a m' C C' vs vs' hC hp' hvs
    | neg t1 =>
      have hs : sub x e m (.neg t1) = .neg (sub x e m t1) := by cases m <;> rfl
      rw [hs]; simp only [eval]
      rcases ResR_cases x e q (ih t1 m S T vs vs' hrel (pre_un x m _ t1 hpre (by simp [HygL]) (by simp [NoX, namesOf])) hvs)
        with hfl | ⟨er, w, w', h1, h2, hw⟩ | ⟨v, v', w, w', h1, h2, hv, hw⟩
      · left
        rcases hL : eval bi f t1 S vs with ⟨r1, w1⟩
        rw [hL] at hfl; simp only at hfl; subst hfl; rfl
      · rw [h1, h2]; exact resR_err x e q er hw
      · rw [h1, h2]
        rcases VR_cases x e hv with ⟨r, e1', e2'⟩ | ⟨e1', e2'⟩ | ⟨p, body, C, m', C', e1', e2', _, _, _⟩
        · subst e1'; subst e2'; exact resR_ok x e q rfl hw
        · subst e1'; subst e2'; exact resR_err x e q .badOperands hw
        · subst e1'; subst e2'; exact resR_err x e q .badOperands hw
    | bop op a b =>
      have hs : sub x e m (.bop op a b) = .bop op (sub x e m a) (sub x e m b) := by cases m <;> rfl
      have hpa : Pre x m a := pre_un x m _ a hpre (by simp [HygL]; intro h _; exact h) (by simp [NoX, namesOf]; intro h _; exact h)
      have hpb : Pre x m b := pre_un x m _ b hpre (by simp [HygL]) (by simp [NoX, namesOf])
      rw [hs]; simp only [eval]
      rcases ResR_cases x e q (ih a m S T vs vs' hrel hpa hvs) with hfl | ⟨er, w, w', h1, h2, hw⟩ | ⟨va, va', w, w', h1, h2, hva, hw⟩
      · left
        rcases hL : eval bi f a S vs with ⟨r1, w1⟩
        rw [hL] at hfl; simp only at hfl; subst hfl; rfl
      · rw [h1, h2]; exact resR_err x e q er hw
      · rw [h1, h2]; simp only
        rcases ResR_cases x e q (ih b m S T w w' hrel hpb hw) with hfl | ⟨er, u, u', g1, g2, hu⟩ | ⟨vb, vb', u, u', g1, g2, hvb, hu⟩
        · left
          rcases hL : eval bi f b S w with ⟨r1, w1⟩
          rw [hL] at hfl; simp only at hfl; subst hfl; rfl
        · rw [g1, g2]; exact resR_err x e q er hu
        · rw [g1, g2]; simp only
          rcases VR_cases x e hva with ⟨qa, ea, ea'⟩ | ⟨ea, ea'⟩ | ⟨p, body, C, m', C', ea, ea', _, _, _⟩ <;>
          rcases VR_cases x e hvb with ⟨qb, eb, eb'⟩ | ⟨eb, eb'⟩ | ⟨p2, body2, C2, m2, C2', eb, eb', _, _, _⟩ <;>
          subst ea <;> subst ea' <;> subst eb <;> subst eb' <;> simp only
          · cases arith op qa qb with
            | ok r => exact resR_ok x e q rfl hu
            | error er => exact resR_err x e q er hu
          all_goals exact resR_err x e q .badOperands hu
    | lam y b =>
      cases m with
      | false =>
        have hn : NoX x (.lam y b) = true := hpre
        have hyx : y ≠ x := by
          intro h; subst h; simp [NoX, namesOf] at hn
        have hb : NoX x b = true := by simp [NoX, namesOf] at hn ⊢; exact hn.2
        simp only [sub, eval]
        exact resR_ok x e q ⟨false, T, rfl, hb, hyx, hrel⟩ hvs
      | true =>
        have hn : HygL x (.lam y b) = true := hpre
        simp only [HygL, Bool.and_eq_true, bne_iff_ne, ne_eq] at hn
        have hs : sub x e true (.lam y b) = .lam y (sub x e true b) := by simp [sub, subst, hn.1]
        rw [hs]; simp only [eval]
        exact resR_ok x e q ⟨true, T, rfl, hn.2, hn.1, hrel⟩ hvs
    | app fn a =>
      have hs : sub x e m (.app fn a) = .app (sub x e m fn) (sub x e m a) := by cases m <;> rfl
      have hpf : Pre x m fn := pre_un x m _ fn hpre (by simp [HygL]; intro h _; exact h) (by simp [NoX, namesOf]; intro h _; exact h)
      have hpa : Pre x m a := pre_un x m _ a hpre (by simp [HygL]) (by simp [NoX, namesOf])
      rw [hs]; simp only [eval]
      rcases ResR_cases x e q (ih fn m S T vs vs' hrel hpf hvs) with hfl | ⟨er, w, w', h1, h2, hw⟩ | ⟨vf, vf', w, w', h1, h2, hvf, hw⟩
      · left
        rcases hL : eval bi f fn S vs with ⟨r1, w1⟩
        rw [hL] at hfl; simp only at hfl; subst hfl; rfl
      · rw [h1, h2]; exact resR_err x e q er hw
      · rw [h1, h2]
        rcases VR_cases x e hvf with ⟨r, e1, e2⟩ | ⟨e1, e2⟩ | ⟨p, body, C, m', C', e1, e2, hbp, hpx, hC⟩
        · subst e1; subst e2; simp only
          rcases ResR_cases x e q (ih a m S T w w' hrel hpa hw) with hfl | ⟨er, u, u', g1, g2, hu⟩ | ⟨va, va', u, u', g1, g2, hva, hu⟩
          · left
            rcases hL : eval bi f a S w with ⟨r1, w1⟩
            rw [hL] at hfl; simp only at hfl; subst hfl; rfl
          · rw [g1, g2]; exact resR_err x e q er hu
          · rw [g1, g2]
            rcases VR_cases x e hva with ⟨qa, ea, ea'⟩ | ⟨ea, ea'⟩ | ⟨p2, body2, C2, m2, C2', ea, ea', _, _, _⟩ <;>
              subst ea <;> subst ea' <;> simp only
            · exact resR_ok x e q rfl hu
            · exact resR_err x e q .badOperands hu
            · exact resR_err x e q .badOperands hu
        · subst e1; subst e2; exact resR_err x e q .notAFunction hw
        · subst e1; subst e2; simp only
          exact ih body m' _ _ w w' (.cons m p a S T C C' hpx hpa hrel hC) hbp hw
    | assign y rhs =>
      have hs : sub x e m (.assign y rhs) = .assign y (sub x e m rhs) := by cases m <;> rfl
      have hyx : y ≠ x := by
        cases m with
        | false => intro h; subst h; have : NoX y (.assign y rhs) = true := hpre; simp [NoX, namesOf] at this
        | true => have : HygL x (.assign y rhs) = true := hpre; simp [HygL] at this; exact this.1
      rw [hs]; simp only [eval]
      rcases ResR_cases x e q (ih rhs m S T vs vs' hrel (pre_un x m _ rhs hpre (by simp [HygL]) (by simp [NoX, namesOf])) hvs)
        with hfl | ⟨er, w, w', h1, h2, hw⟩ | ⟨v, v', w, w', h1, h2, hv, hw⟩
      · left
        rcases hL : eval bi f rhs S vs with ⟨r1, w1⟩
        rw [hL] at hfl; simp only at hfl; subst hfl; rfl
      · rw [h1, h2]; exact resR_err x e q er hw
      · rw [h1, h2]; exact resR_ok x e q hv (setVar_rel x e q w w' hw y hyx v v' hv)
    | seq a b =>
      have hs : sub x e m (.seq a b) = .seq (sub x e m a) (sub x e m b) := by cases m <;> rfl
      have hpa : Pre x m a := pre_un x m _ a hpre (by simp [HygL]; intro h _; exact h) (by simp [NoX, namesOf]; intro h _; exact h)
      have hpb : Pre x m b := pre_un x m _ b hpre (by simp [HygL]) (by simp [NoX, namesOf])
      rw [hs]; simp only [eval]
      rcases ResR_cases x e q (ih a m S T vs vs' hrel hpa hvs) with hfl | ⟨er, w, w', h1, h2, hw⟩ | ⟨va, va', w, w', h1, h2, hva, hw⟩
      · left
        rcases hL : eval bi f a S vs with ⟨r1, w1⟩
        rw [hL] at hfl; simp only at hfl; subst hfl; rfl
      · rw [h1, h2]; exact resR_err x e q er hw
      · rw [h1, h2]; exact ih b m S T w w' hrel hpb hw

/-- **binding a name = writing the parenthesised expression in its place**, for arbitrary bodies -/
theorem let_full (bi : List (String × Rat)) (b : Expr) (he : closedArith e = true) (hq : ceval e = .ok q) (hb : HygL x b = true)
    (vs : Vars)
    (hgood : ∀ y, y ≠ x → lookup vs y = none ∨ ∃ v, lookup vs y = some v ∧ VR x e v v)
    (F : Nat) (hF : depth e + 1 ≤ F) :
    ResR x e q (eval bi (F + 1) (.seq (.assign x e) b) .nil vs) (eval bi (F + (depth e + 1)) (subst x e b) .nil vs) := by
  obtain ⟨g, rfl⟩ : ∃ g, F = g + 1 := ⟨F - 1, by omega⟩
  have hfe : depth e ≤ g := by omega
  have hl : eval bi (g + 1 + 1) (.seq (.assign x e) b) .nil vs = eval bi (g + 1) b .nil (setVar vs x (.num q)) := by
    simp only [eval, eval_closed bi e he g hfe .nil vs, hq]
  rw [hl]
  have hvs : VsRx x e q (setVar vs x (.num q)) vs := by
    refine ⟨lookup_setVar_same vs x _, fun y hy => ?_⟩
    rw [lookup_setVar_other vs x y _ hy]
    rcases hgood y hy with h | ⟨v, h, hv⟩
    · exact Or.inl ⟨h, h⟩
    · exact Or.inr ⟨v, v, h, h, hv⟩
  have := sim x e q bi he hq (depth e + 1) (by omega) (g + 1) b true .nil .nil _ vs .nil hb hvs
  simpa [sub] using this

/-- what an observer sees: whenever the left side produces a number (resp. a non-fuel error, unit), the right side produces
the same with `depth e + 1` more fuel -/
theorem let_full_observable (bi : List (String × Rat)) (b : Expr) (he : closedArith e = true) (hq : ceval e = .ok q) (hb : HygL x b = true)
    (vs : Vars) (hgood : ∀ y, y ≠ x → lookup vs y = none ∨ ∃ v, lookup vs y = some v ∧ VR x e v v)
    (F : Nat) (hF : depth e + 1 ≤ F) :
    (∀ r, (eval bi (F + 1) (.seq (.assign x e) b) .nil vs).1 = .ok (.num r) →
      (eval bi (F + (depth e + 1)) (subst x e b) .nil vs).1 = .ok (.num r)) ∧
    ((eval bi (F + 1) (.seq (.assign x e) b) .nil vs).1 = .ok .unit →
      (eval bi (F + (depth e + 1)) (subst x e b) .nil vs).1 = .ok .unit) ∧
    (∀ er, er ≠ .fuel → (eval bi (F + 1) (.seq (.assign x e) b) .nil vs).1 = .error er →
      (eval bi (F + (depth e + 1)) (subst x e b) .nil vs).1 = .error er) := by
  have h := let_full x e q bi b he hq hb vs hgood F hF
  rcases ResR_cases x e q h with hfl | ⟨er, w, w', h1, h2, _⟩ | ⟨v, v', w, w', h1, h2, hv, _⟩
  · refine ⟨fun r hr => ?_, fun hu => ?_, fun er hne her => ?_⟩
    · rw [hfl] at hr; cases hr
    · rw [hfl] at hu; cases hu
    · rw [hfl] at her; injection her with her; exact absurd her.symm hne
  · rw [h1, h2]; simp
  · rw [h1, h2]
    rcases VR_cases x e hv with ⟨r, e1, e2⟩ | ⟨e1, e2⟩ | ⟨p, body, C, m', C', e1, e2, _, _, _⟩ <;> subst e1 <;> subst e2 <;> simp

/-- numbers, unit and closures that do not mention `x` (in body, parameter, captured scopes) are admissible stored values -/
theorem VR_num (r : Rat) : VR x e (.num r) (.num r) := rfl
theorem VR_unit : VR x e .unit .unit := rfl
theorem VR_closed_fn (p : String) (body : Expr) (hp : p ≠ x) (hbody : NoX x body = true) : VR x e (.fn p body .nil) (.fn p body .nil) :=
  ⟨false, .nil, rfl, hbody, hp, .nil⟩

end
end Fend.Scope.LetF
