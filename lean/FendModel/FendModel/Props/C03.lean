/-
C03 — the approx. marker and digit truncation never misstate a value.
-/
import FendModel.Model.Root
import FendModel.Proofs.Format
import FendModel.Proofs.FormatLayout
import FendModel.Proofs.BigUintRoot
import FendModel.Proofs.BigRatRoot
import Mathlib.Tactic.Ring
import Mathlib.Tactic.Linarith
import Mathlib.Tactic.FieldSimp
import Mathlib.Tactic.Positivity
import Mathlib.Algebra.Order.Field.Basic
import Mathlib.Data.Rat.Lemmas

namespace Fend.C03
open Fend.Fmt Fend.Root

/-- **truncation**: the first `n` digits after the point denote the value cut off after `n` places — never
more than the value, less than one unit of the last place below it — and nothing was dropped exactly when the
remainder the formatter tests (`current_numerator == 0`) is zero -/
theorem truncation_bound (b den r n : Nat) (hb : 2 ≤ b) (hr : r < den) :
    let shown : Rat := (valDigits b (digitsFrom b den r n) : Nat) / (b : Rat) ^ n
    shown ≤ (r : Rat) / den ∧ (r : Rat) / den - shown < 1 / (b : Rat) ^ n ∧
    (shown = (r : Rat) / den ↔ remAt b den r n = 0) := by
  intro shown
  have hinv : (r : Rat) * (b : Rat) ^ n = (den : Rat) * (valDigits b (digitsFrom b den r n) : Nat) + (remAt b den r n : Nat) := by
    exact_mod_cast longdiv_invariant b den r n
  have hlt : ((remAt b den r n : Nat) : Rat) < den := by exact_mod_cast remAt_lt b den r n hr
  have hge : (0 : Rat) ≤ (remAt b den r n : Nat) := by positivity
  have hd : (0 : Rat) < den := by exact_mod_cast (by omega : 0 < den)
  have hbn : (0 : Rat) < (b : Rat) ^ n := by
    have : (0 : Rat) < b := by exact_mod_cast (by omega : 0 < b)
    positivity
  have key : (r : Rat) / den - shown = ((remAt b den r n : Nat) : Rat) / (den * (b : Rat) ^ n) := by
    simp only [shown]
    field_simp
    linarith
  refine ⟨?_, ?_, ?_⟩
  · have : (0 : Rat) ≤ (r : Rat) / den - shown := by rw [key]; positivity
    linarith
  · rw [key, div_lt_div_iff₀ (by positivity) hbn]
    nlinarith
  · constructor
    · intro h
      have h0 : ((remAt b den r n : Nat) : Rat) / (den * (b : Rat) ^ n) = 0 := by rw [← key, h]; ring
      have hne : (den : Rat) * (b : Rat) ^ n ≠ 0 := by positivity
      have := (div_eq_zero_iff.mp h0).resolve_right hne
      exact_mod_cast this
    · intro h
      have : (r : Rat) / den - shown = 0 := by rw [key, h]; simp
      linarith

/-- **the text of `x to n dp`** (and of any terminating expansion): the formatter's loop, started on the fractional remainder
`r`, stops at the first index `k` where the remainder vanishes or `k = n`; what it returns is the integer part followed — when
a non-zero digit was produced — by the separator and the first `k` long-division digits without trailing zeros, and its
`exact` result is `remainder at k = 0`.  Together with `truncation_bound` (about exactly those digits) and `stripZ_value`
(dropping trailing zeros keeps the value) the printed text is the truncation of the value, marked exactly when digits were
dropped; a value that prints as zero loses its minus sign. -/
theorem dp_text (b den r : Nat) (md : MaxDigits) (hmd : ∀ m, md ≠ .ign m) (sep : Char) (intTxt : List Char) (neg intZero : Bool)
    (k : Nat) (hbefore : ∀ j, j < k → remAt b den r j ≠ 0 ∧ md ≠ .dp j) (hstop : remAt b den r k = 0 ∨ md = .dp k)
    (fuel : Nat) (hfuel : k + 1 ≤ fuel) :
    nonrecLoop b den md sep intTxt neg intZero fuel r 0 0 false [] =
      (if startedOf (digitsFrom b den r k) then neg else neg && !intZero,
       renderDigits intTxt sep (digitsFrom b den r k), remAt b den r k == 0) :=
  nonrec_text b den r md hmd sep intTxt neg intZero k hbefore hstop fuel hfuel

theorem shown_digits_value (b : Nat) (hb : 2 ≤ b) (ds : List Nat) :
    ((valDigits b (stripZ ds) : Nat) : Rat) / (b : Rat) ^ (stripZ ds).length = ((valDigits b ds : Nat) : Rat) / (b : Rat) ^ ds.length :=
  stripZ_value b hb ds

/-! ### integer roots -/

theorem rootLoop_spec (x n : Nat) (hn : 1 ≤ n) (fuel low high : Nat) (hl : low ^ n < x) (hh : x < high ^ n)
    (r : Nat) (e : Bool) (h : rootLoop x n fuel low high = some (r, e)) :
    (e = true → r ^ n = x) ∧ (e = false → r ^ n < x ∧ x < (r + 1) ^ n) := by
  induction fuel generalizing low high with
  | zero => simp [rootLoop] at h
  | succ fuel ih =>
    unfold rootLoop at h
    simp only at h
    split at h
    · rename_i heq
      injection h with h; injection h with h1 h2; subst h1; subst h2
      exact ⟨fun _ => heq, fun hc => by cases hc⟩
    · rename_i hne
      by_cases hgt : ((low + high) / 2) ^ n > x
      · simp only [hgt, if_true] at h
        split at h
        · rename_i hw
          injection h with h; injection h with h1 h2; subst h1; subst h2
          refine ⟨fun hc => (by cases hc), fun _ => ⟨hl, ?_⟩⟩
          have : (low + high) / 2 ≤ low + 1 := by omega
          exact lt_of_lt_of_le hgt (Nat.pow_le_pow_left this n)
        · exact ih low ((low + high) / 2) hl hgt h
      · simp only [hgt, if_false] at h
        have hlt : ((low + high) / 2) ^ n < x := by omega
        split at h
        · rename_i hw
          injection h with h; injection h with h1 h2; subst h1; subst h2
          refine ⟨fun hc => (by cases hc), fun _ => ⟨hlt, ?_⟩⟩
          have : high ≤ (low + high) / 2 + 1 := by omega
          exact lt_of_lt_of_le hh (Nat.pow_le_pow_left this n)
        · exact ih ((low + high) / 2) high hlt hh h

theorem two_pow_bits (x : Nat) (hx : x ≠ 0) : x < 2 ^ (Nat.log2 x + 1) := by
  exact (Nat.log2_lt hx).mp (Nat.lt_succ_self _)

/-- **integer roots**: the result is the floor of the true root, and it is flagged exact iff it IS the root -/
theorem rootNat_spec (x n : Nat) (hn : 1 ≤ n) (r : Nat) (e : Bool) (h : rootNat x n = some (r, e)) :
    (e = true → r ^ n = x) ∧ (e = false → r ^ n < x ∧ x < (r + 1) ^ n) := by
  unfold rootNat at h
  split at h
  · rename_i hc
    injection h with h; injection h with h1 h2; subst h1; subst h2
    refine ⟨fun _ => ?_, fun hc => by cases hc⟩
    rcases hc with h0 | h0 | h0
    · rw [h0]; exact Nat.zero_pow (by omega)
    · rw [h0]; exact Nat.one_pow n
    · rw [h0]; exact Nat.pow_one _
  · rename_i hc
    have hx0 : x ≠ 0 := fun h0 => hc (Or.inl h0)
    have hx1 : x ≠ 1 := fun h1 => hc (Or.inr (Or.inl h1))
    apply rootLoop_spec x n hn _ 1 _ (by rw [Nat.one_pow]; omega) _ r e h
    -- x < (2^(bits/n + 2))^n
    have hb := two_pow_bits x hx0
    have : Nat.log2 x + 1 ≤ ((Nat.log2 x + 1) / n + 1 + 1) * n := by
      have := Nat.div_add_mod (Nat.log2 x + 1) n
      have hm := Nat.mod_lt (Nat.log2 x + 1) (by omega : n > 0)
      nlinarith
    calc x < 2 ^ (Nat.log2 x + 1) := hb
      _ ≤ 2 ^ (((Nat.log2 x + 1) / n + 1 + 1) * n) := Nat.pow_le_pow_right (by omega) this
      _ = (2 ^ ((Nat.log2 x + 1) / n + 1 + 1)) ^ n := by rw [Nat.pow_mul]

/-- an integer root is reported exact exactly when the number is a perfect power -/
theorem rootNat_exact_iff (x n : Nat) (hn : 1 ≤ n) (r : Nat) (e : Bool) (h : rootNat x n = some (r, e)) :
    e = true ↔ ∃ k, k ^ n = x := by
  obtain ⟨h1, h2⟩ := rootNat_spec x n hn r e h
  constructor
  · intro he; exact ⟨r, h1 he⟩
  · rintro ⟨k, hk⟩
    cases e with
    | true => rfl
    | false =>
      obtain ⟨ha, hb⟩ := h2 rfl
      rw [← hk] at ha hb
      have h3 : r < k := lt_of_pow_lt_pow_left₀ n (by omega) ha
      have h4 : k < r + 1 := lt_of_pow_lt_pow_left₀ n (by omega) hb
      omega

/-- **rational roots**: a root of a fraction in lowest terms is reported exact exactly when the true result is
rational, and then it is that rational -/
theorem ratRoot_exact_iff (num den n : Nat) (hn : 1 ≤ n) (hnum : 0 < num) (hden : 0 < den) (hco : Nat.Coprime num den)
    (v : Rat) (e : Bool) (h : ratRoot num den n = some (v, e)) :
    (e = true → v ^ n = (num : Rat) / den) ∧ (e = true ↔ ∃ q : Rat, 0 ≤ q ∧ q ^ n = (num : Rat) / den) := by
  unfold ratRoot at h
  rw [if_neg (by omega)] at h
  cases ha : rootNat num n with
  | none => rw [ha] at h; simp at h
  | some pa =>
    obtain ⟨a, ea⟩ := pa
    cases hb : rootNat den n with
    | none => rw [ha, hb] at h; simp at h
    | some pb =>
      obtain ⟨b, eb⟩ := pb
      rw [ha, hb] at h
      simp only at h
      have hA := rootNat_spec num n hn a ea ha
      have hB := rootNat_spec den n hn b eb hb
      have hAi := rootNat_exact_iff num n hn a ea ha
      have hBi := rootNat_exact_iff den n hn b eb hb
      have hexact : ea = true ∧ eb = true → ((a : Rat) / b) ^ n = (num : Rat) / den := by
        rintro ⟨h1, h2⟩
        rw [div_pow]
        have := hA.1 h1; have := hB.1 h2
        congr 1 <;> exact_mod_cast ‹_›
      have hiff : (ea && eb) = true ↔ ∃ q : Rat, 0 ≤ q ∧ q ^ n = (num : Rat) / den := by
        constructor
        · intro hboth
          simp only [Bool.and_eq_true] at hboth
          exact ⟨(a : Rat) / b, by positivity, hexact hboth⟩
        · rintro ⟨q, hq0, hq⟩
          -- q^n in lowest terms is q.num^n / q.den^n; so num and den are perfect powers
          have hnd : ((num : Rat) / den).num = num ∧ ((num : Rat) / den).den = den := by
            have hc : Nat.Coprime (num : Int).natAbs den := by simpa using hco
            constructor
            · have h1 := Rat.num_div_eq_of_coprime (a := (num : Int)) (b := (den : Int)) (by exact_mod_cast hden) (by simpa using hc)
              rw [Int.cast_natCast, Int.cast_natCast] at h1
              exact h1
            · have h2 := Rat.den_div_eq_of_coprime (a := (num : Int)) (b := (den : Int)) (by exact_mod_cast hden) (by simpa using hc)
              rw [Int.cast_natCast, Int.cast_natCast] at h2
              exact Int.natCast_inj.mp h2
          have hqn : (q ^ n).num = q.num ^ n := Rat.num_pow q n
          have hqd : (q ^ n).den = q.den ^ n := Rat.den_pow q n
          rw [hq] at hqn hqd
          have hqnum0 : 0 ≤ q.num := Rat.num_nonneg.mpr hq0
          have e1 : ea = true := hAi.mpr ⟨q.num.toNat, by
            have : ((q.num.toNat : Int)) ^ n = (num : Int) := by
              rw [Int.toNat_of_nonneg hqnum0, ← hqn, hnd.1]
            exact_mod_cast this⟩
          have e2 : eb = true := hBi.mpr ⟨q.den, by rw [← hqd, hnd.2]⟩
          simp [e1, e2]
      split at h
      · rename_i hboth
        injection h with h; injection h with h1 h2; subst h1; subst h2
        simp only [Bool.and_eq_true] at hboth
        exact ⟨fun _ => hexact hboth, ⟨fun _ => hiff.mp (by simp [hboth.1, hboth.2]), fun _ => rfl⟩⟩
      · rename_i hnot
        injection h with h; injection h with h1 h2; subst h2
        refine ⟨fun hc => (by cases hc), ⟨fun hc => (by cases hc), fun hq => ?_⟩⟩
        exact absurd (hiff.mpr hq) hnot

/-! ### approximate roots: 50 halvings -/

theorem iterLoop_spec (val : Rat) (n k : Nat) (low high : Rat) (hl : low ^ n < val) (hh : val ≤ high ^ n) :
    let p := iterLoop val n k low high
    p.1 ^ n < val ∧ val ≤ p.2 ^ n ∧ p.2 - p.1 = (high - low) / 2 ^ k := by
  induction k generalizing low high with
  | zero => simp [iterLoop, hl, hh]
  | succ k ih =>
    simp only [iterLoop]
    split
    · rename_i hg
      obtain ⟨a, b, c⟩ := ih ((low + high) / 2) high hg hh
      refine ⟨a, b, ?_⟩
      rw [c]; field_simp; ring
    · rename_i hg
      obtain ⟨a, b, c⟩ := ih low ((low + high) / 2) hl (not_lt.mp hg)
      refine ⟨a, b, ?_⟩
      rw [c]; field_simp; ring

/-- an inexact root is bracketed: the returned value is the midpoint of an interval of width `2^-50` whose
end points have `n`-th powers on either side of the radicand (so it is within `2^-51` of the true root, which
is at least 1: relative error below `1e-12`) -/
theorem iterRoot_bracket (low val n : Nat) (hl : low ^ n < val) (hh : val < (low + 1) ^ n) :
    ∃ l h : Rat, iterRoot low val n = (l + h) / 2 ∧ l ^ n < (val : Rat) ∧ (val : Rat) ≤ h ^ n ∧ h - l = 1 / 2 ^ 50 := by
  have hl' : ((low : Nat) : Rat) ^ n < (val : Rat) := by exact_mod_cast hl
  have hh' : (val : Rat) ≤ ((low : Rat) + 1) ^ n := by
    have : (val : Rat) < (((low + 1 : Nat)) : Rat) ^ n := by exact_mod_cast hh
    push_cast at this; exact le_of_lt this
  obtain ⟨a, b, c⟩ := iterLoop_spec (val : Rat) n 50 (low : Rat) ((low : Rat) + 1) hl' hh'
  refine ⟨(iterLoop (val : Rat) n 50 (low : Rat) ((low : Rat) + 1)).1, (iterLoop (val : Rat) n 50 (low : Rat) ((low : Rat) + 1)).2, rfl, a, b, ?_⟩
  rw [c]; ring

/-! ### the exact flag -/

/-- a result is unmarked only if every value it was computed from, and every operation applied, was exact:
anything computed from an approximate value stays marked -/
theorem flag_sound (t : FExpr) : flag t = true → allExact t = true := by
  induction t with
  | leaf e => simp [flag, allExact]
  | op1 o a ih => simp only [flag, allExact, Bool.and_eq_true]; exact fun ⟨h1, h2⟩ => ⟨ih h1, h2⟩
  | op2 o a b iha ihb =>
    simp only [flag, allExact, Bool.and_eq_true]
    exact fun ⟨⟨h1, h2⟩, h3⟩ => ⟨⟨iha h1, ihb h2⟩, h3⟩
  | addZero a ih => simpa [flag, allExact] using ih

theorem flag_eq (t : FExpr) : flag t = allExact t := by
  induction t with
  | leaf e => rfl
  | op1 o a ih => simp [flag, allExact, ih]
  | op2 o a b iha ihb => simp [flag, allExact, iha, ihb]
  | addZero a ih => simpa [flag, allExact] using ih

-- non-vacuity / tests on instances
example : rootNat 27 3 = some (3, true) ∧ rootNat 28 3 = some (3, false) ∧ rootNat (10 ^ 40) 2 = some (10 ^ 20, true) := by
  refine ⟨?_, ?_, ?_⟩ <;> decide +kernel
example : flag (.op2 true (.leaf true) (.op1 false (.leaf true))) = false := by decide

/-- the limb-level `BigUint::root_n` computes what the bisection on natural numbers computes (value and flag), for every
limb representation -/
theorem biguint_root_refines (self n : BigUint) (hs : self.WF) (hn : n.WF) (hn1 : 1 ≤ BigUint.val n) (hnB : BigUint.val n < B) :
    match Root.rootNat (BigUint.val self) (BigUint.val n) with
    | some (g, e) => ∃ gb, BigUint.rootN self n = .ok (gb, e) ∧ BigUint.val gb = g ∧ gb.WF
    | none => BigUint.rootN self n = .error .other := BigUint.rootN_refines self n hs hn hn1 hnB

/-- hence, on limb vectors: the returned value is the floor of the n-th root, and the result is flagged exact exactly when
the radicand is a perfect n-th power -/
theorem biguint_root_exact_iff (self n g : BigUint) (e : Bool) (hs : self.WF) (hn : n.WF) (hn1 : 1 ≤ BigUint.val n) (hnB : BigUint.val n < B)
    (h : BigUint.rootN self n = .ok (g, e)) :
    ((e = true → BigUint.val g ^ BigUint.val n = BigUint.val self) ∧
     (e = false → BigUint.val g ^ BigUint.val n < BigUint.val self ∧ BigUint.val self < (BigUint.val g + 1) ^ BigUint.val n)) ∧
    (e = true ↔ ∃ k, k ^ BigUint.val n = BigUint.val self) := by
  have hr := BigUint.rootN_refines self n hs hn hn1 hnB
  cases hroot : Root.rootNat (BigUint.val self) (BigUint.val n) with
  | none => rw [hroot] at hr; simp only at hr; rw [hr] at h; cases h
  | some ge =>
    obtain ⟨g', e'⟩ := ge
    rw [hroot] at hr
    obtain ⟨gb, hgb, hv, _⟩ := hr
    rw [hgb] at h
    injection h with h
    injection h with h1 h2
    subst h1; subst h2
    rw [← hv] at hroot
    exact ⟨rootNat_spec _ _ hn1 _ _ hroot, rootNat_exact_iff _ _ hn1 _ _ hroot⟩

section
open BigRat BigUint Cx

/-- **`BigRat::root_n` refines `ratRoot`**: for a non-negative radicand and an index denoting an integer `1 ≤ n < 2^64` -/
theorem bigrat_root_refines (f : Nat) (x n : BigRat) (wx : OKQ x) (hxn : x.neg = false) (wn : WFQ n) (hi : IntExp n)
    (hnn : n.neg = false) (h1 : 1 ≤ expN n) (hB : expN n < B) :
    match Root.ratRoot (val x.num) (val x.den) (expN n) with
    | some (v, e) => ∃ q, BigRat.rootN (pow (f + 1)) x n = .ok (q, e) ∧ valQ q = v
    | none => ∃ er, BigRat.rootN (pow (f + 1)) x n = .error er := by
  obtain ⟨n', hsn, wn', hd1, hnum, hneg'⟩ := simplify_int n wn hi
  have hden1 : denIsOne n' = true := (denIsOne_iff n' wn'.2).mpr hd1
  have hn'neg : n'.neg = false := by rw [hneg', hnn]
  have hguard : (!denIsOne n' || n'.neg) = false := by simp [hden1, hn'neg]
  have hv1 : 1 ≤ val n'.num := by rw [hnum]; exact h1
  have hvB : val n'.num < B := by rw [hnum]; exact hB
  unfold BigRat.rootN Root.ratRoot
  simp only [hxn, Bool.and_false, Bool.false_eq_true, if_false, hsn, bind, Except.bind, hguard]
  by_cases hz : val x.num = 0
  · have : numIsZero x = true := (numIsZero_iff x wx.1.1).mpr hz
    simp only [this, hz, if_true]
    exact ⟨x, rfl, (valQ_eq_zero_iff x wx.2).mpr hz⟩
  · have hzf : numIsZero x = false := by
      cases h : numIsZero x with
      | false => rfl
      | true => exact absurd ((numIsZero_iff x wx.1.1).mp h) hz
    simp only [hzf, hz, Bool.false_eq_true, if_false]
    have rn := BigUint.rootN_refines x.num n'.num wx.1.1 wn'.1 hv1 hvB
    have rd := BigUint.rootN_refines x.den n'.num wx.1.2 wn'.1 hv1 hvB
    rw [hnum] at rn rd
    cases ha : Root.rootNat (val x.num) (expN n) with
    | none => rw [ha] at rn; simp only at rn; simp only [rn]; exact ⟨_, rfl⟩
    | some pa =>
      obtain ⟨a, ea⟩ := pa
      rw [ha] at rn
      obtain ⟨ga, hga, hgav, hgaw⟩ := rn
      simp only [hga]
      cases hb : Root.rootNat (val x.den) (expN n) with
      | none => rw [hb] at rd; simp only at rd; simp only [rd]; exact ⟨_, rfl⟩
      | some pb =>
        obtain ⟨b, eb⟩ := pb
        rw [hb] at rd
        obtain ⟨gb, hgb, hgbv, hgbw⟩ := rd
        simp only [hgb]
        by_cases hboth : (ea && eb) = true
        · simp only [hboth, if_true]
          refine ⟨⟨false, ga, gb⟩, rfl, ?_⟩
          simp [valQ, hgav, hgbv]
        · have hbf : (ea && eb) = false := by simpa using hboth
          simp only [hbf, Bool.false_eq_true, if_false]
          have hspecb : eb = true → b ≠ 0 := by
            intro he; subst he
            have hspec := (rootNat_spec (val x.den) (expN n) h1 b true hb).1 rfl
            intro hb0
            rw [hb0, Nat.zero_pow (by omega)] at hspec
            exact wx.2 hspec.symm
          -- the final division never divides by zero
          have fin : ∀ nr dr : BigRat, OKQ nr → OKQ dr → valQ dr ≠ 0 →
              ∃ q, BigRat.div nr dr = .ok q ∧ valQ q = valQ nr / valQ dr := by
            intro nr dr _ hdro hdr0
            have hzd : numIsZero dr = false := by
              cases h : numIsZero dr with
              | false => rfl
              | true => exact absurd ((valQ_eq_zero_iff dr hdro.2).mpr ((numIsZero_iff dr hdro.1.1).mp h)) hdr0
            obtain ⟨q, hq, hqv⟩ := (div_valQ nr dr hdro.1.1).2 hzd
            exact ⟨q, hq, hqv hdro.2⟩
          have okA : OKQ (ofUint ga) := ofUint_ok ga hgaw
          have okB : OKQ (ofUint gb) := ofUint_ok gb hgbw
          have vA : valQ (ofUint ga) = ((a : Nat) : Rat) := by rw [valQ_ofUint, hgav]
          have vB : valQ (ofUint gb) = ((b : Nat) : Rat) := by rw [valQ_ofUint, hgbv]
          cases ea with
          | true =>
            cases eb with
            | true => simp at hbf
            | false =>
              obtain ⟨dq, hdq, hdqo, hdqv⟩ := iterRootN_refines f gb x.den n'.num hgbw wx.1.2 wn'.1 hv1 hvB
              rw [hgbv, hnum] at hdqv
              simp only [if_true, hdq, Bool.false_eq_true, if_false]
              obtain ⟨q, hq, hqv⟩ := fin (ofUint ga) dq okA hdqo (by rw [hdqv]; exact ne_of_gt (iterRoot_pos b _ _))
              exact ⟨q, by simp only [hq], by rw [hqv, vA, hdqv]⟩
          | false =>
            obtain ⟨nq, hnq, hnqo, hnqv⟩ := iterRootN_refines f ga x.num n'.num hgaw wx.1.1 wn'.1 hv1 hvB
            rw [hgav, hnum] at hnqv
            cases eb with
            | true =>
              simp only [if_true, hnq, Bool.false_eq_true, if_false]
              obtain ⟨q, hq, hqv⟩ := fin nq (ofUint gb) hnqo okB (by rw [vB]; exact_mod_cast hspecb rfl)
              exact ⟨q, by simp only [hq], by rw [hqv, vB, hnqv]⟩
            | false =>
              obtain ⟨dq, hdq, hdqo, hdqv⟩ := iterRootN_refines f gb x.den n'.num hgbw wx.1.2 wn'.1 hv1 hvB
              rw [hgbv, hnum] at hdqv
              simp only [hnq, hdq, Bool.false_eq_true, if_false]
              obtain ⟨q, hq, hqv⟩ := fin nq dq hnqo hdqo (by rw [hdqv]; exact ne_of_gt (iterRoot_pos b _ _))
              exact ⟨q, by simp only [hq], by rw [hqv, hnqv, hdqv]⟩

/-- hence, at the bignum level: for a non-negative fraction in lowest terms, `BigRat::root_n` flags its result exact exactly
when the radicand has a rational n-th root, and an exact result IS that root -/
theorem bigrat_root_exact_iff (f : Nat) (x n : BigRat) (wx : OKQ x) (hxn : x.neg = false) (wn : WFQ n) (hi : IntExp n)
    (hnn : n.neg = false) (h1 : 1 ≤ expN n) (hB : expN n < B) (hnum : 0 < val x.num) (hco : Nat.Coprime (val x.num) (val x.den))
    (q : BigRat) (e : Bool) (h : BigRat.rootN (pow (f + 1)) x n = .ok (q, e)) :
    (e = true → valQ q ^ expN n = ((val x.num : Nat) : Rat) / (val x.den : Nat)) ∧
    (e = true ↔ ∃ s : Rat, 0 ≤ s ∧ s ^ expN n = ((val x.num : Nat) : Rat) / (val x.den : Nat)) := by
  have hr := bigrat_root_refines f x n wx hxn wn hi hnn h1 hB
  cases hroot : Root.ratRoot (val x.num) (val x.den) (expN n) with
  | none => rw [hroot] at hr; obtain ⟨er, her⟩ := hr; rw [her] at h; cases h
  | some ve =>
    obtain ⟨v, e'⟩ := ve
    rw [hroot] at hr
    obtain ⟨q', hq', hv⟩ := hr
    rw [hq'] at h
    injection h with h
    injection h with hq he
    subst hq; subst he
    rw [hv]
    exact ratRoot_exact_iff _ _ _ h1 hnum (Nat.pos_of_ne_zero wx.2) hco v e' hroot

/-- **`BigRat::pow` with a fractional exponent refines `ratPow`**: for a non-negative base in lowest terms and a positive
exponent p/q in lowest terms with q ≥ 2 (the integer case is C01's `rat_pow_nonneg_int`), value and exactness flag agree -/
theorem bigrat_pow_refines (f : Nat) (x e : BigRat) (wx : OKQ x) (hxn : x.neg = false) (we : OKQ e) (hen : e.neg = false)
    (hcx : Nat.Coprime (val x.num) (val x.den)) (hce : Nat.Coprime (val e.num) (val e.den))
    (hq2 : val e.den ≠ 1) (hqB : val e.den < B) (hpB : val e.num < B) (h00 : ¬ (val x.num = 0 ∧ val e.num = 0)) :
    match Root.ratPow (val x.num) (val x.den) false (val e.num) (val e.den) with
    | some (v, ex) => ∃ r, BigRat.pow (f + 2) x e = .ok (r, ex) ∧ valQ r = v
    | none => ∃ er, BigRat.pow (f + 2) x e = .error er := by
  obtain ⟨x', hsx, _, wx', dx', hnx, hnumx, hdenx⟩ := simplify_spec x wx.1 wx.2
  obtain ⟨e', hse, _, we', de', hne, hnume, hdene⟩ := simplify_spec e we.1 we.2
  rw [Nat.Coprime.gcd_eq_one hcx, Nat.div_one] at hnumx hdenx
  rw [Nat.Coprime.gcd_eq_one hce, Nat.div_one] at hnume hdene
  have hx'neg : x'.neg = false := by rw [hnx, hxn]
  have he'neg : e'.neg = false := by rw [hne, hen]
  have hden1 : denIsOne e' = false := by
    cases h : denIsOne e' with
    | false => rfl
    | true => exact absurd (by rw [← hdene]; exact (denIsOne_iff e' we'.2).mp h) hq2
  have heven := isEven_val e'.num we'.1
  obtain ⟨_, _, p3⟩ := pow_spec x'.num e'.num wx'.1 we'.1
  obtain ⟨_, _, q3⟩ := pow_spec x'.den e'.num wx'.2 we'.1
  rw [hnumx, hnume] at p3
  rw [hdenx, hnume] at q3
  obtain ⟨pn, hpn, hpnv, hpnw⟩ := p3 h00 (Or.inr hpB)
  obtain ⟨pd, hpd, hpdv, hpdw⟩ := q3 (fun h => wx.2 h.1) (Or.inr hpB)
  have hpd0 : val pd ≠ 0 := by rw [hpdv]; exact pow_ne_zero _ wx.2
  have hres : OKQ (⟨false, pn, pd⟩ : BigRat) := ⟨⟨hpnw, hpdw⟩, hpd0⟩
  have wn : WFQ (⟨false, e'.den, small 1⟩ : BigRat) := ⟨we'.2, by show 1 < B; decide⟩
  have hi : IntExp (⟨false, e'.den, small 1⟩ : BigRat) := ⟨by show (1 : Nat) ≠ 0; decide, by show (1 : Nat) ∣ val e'.den; exact Nat.one_dvd _⟩
  have hexp : expN (⟨false, e'.den, small 1⟩ : BigRat) = val e.den := by show val e'.den / 1 = _; rw [Nat.div_one, hdene]
  have hq1 : 1 ≤ val e.den := Nat.one_le_iff_ne_zero.mpr we.2
  have hr := bigrat_root_refines f ⟨false, pn, pd⟩ ⟨false, e'.den, small 1⟩ hres rfl wn hi rfl (by rw [hexp]; exact hq1) (by rw [hexp]; exact hqB)
  rw [hexp] at hr
  have hunf : BigRat.pow (f + 2) x e = BigRat.rootN (BigRat.pow (f + 1)) ⟨false, pn, pd⟩ ⟨false, e'.den, small 1⟩ := by
    conv_lhs => unfold BigRat.pow
    simp [hsx, hse, hx'neg, he'neg, hden1, heven, hpn, hpd, bind, Except.bind]
  rw [hunf]
  simp only [Root.ratPow, hq2, if_false]
  show match (match Root.ratRoot (val x.num ^ val e.num) (val x.den ^ val e.num) (val e.den) with
      | none => none
      | some (v, e) => if false = true then some (1 / v, e) else some (v, e)) with
    | some (v, ex) => _
    | none => _
  have hvn : val (⟨false, pn, pd⟩ : BigRat).num = val x.num ^ val e.num := hpnv
  have hvd : val (⟨false, pn, pd⟩ : BigRat).den = val x.den ^ val e.num := hpdv
  rw [hvn, hvd] at hr
  cases hroot : Root.ratRoot (val x.num ^ val e.num) (val x.den ^ val e.num) (val e.den) with
  | none => rw [hroot] at hr; exact hr
  | some ve => obtain ⟨v, ex⟩ := ve; rw [hroot] at hr; exact hr

end

end Fend.C03
