#!/bin/sh
# MANIFEST.setup_cmd: build the Lean project, the driver and the harness once, offline.
set -e
cd "$(dirname "$0")"
mkdir -p .work evidence
export CARGO_NET_OFFLINE=true
(cd lean/FendModel && lake build FendModel fend_model_driver)
[ -f harness/Cargo.lock ] || cp /repo/Cargo.lock harness/Cargo.lock
(cd harness && cargo build --offline)
(cd /repo && CARGO_TARGET_DIR=/verif/.work/target-cli cargo build --offline -p fend)
echo setup-ok
