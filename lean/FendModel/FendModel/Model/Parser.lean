/-
Model of `parser.rs` over tokens, for the operator fragment of C08: number literals, identifiers,
parentheses, the documented operator symbols, number-unit juxtaposition (`parse_apply_cont`), mixed
fractions and implicit sums.  Not modelled: `of`, `light <ident>`, string / date literals, `\x.` lambdas,
prefix currency units (`$5`) — the generator never emits them.

The Rust is a ladder of mutually recursive functions with `while` loops; here every call (to any level, and
every loop iteration) is one step of a single fuel-indexed function `run`, the level (with the loop's
accumulated expression) being an argument.
-/
namespace Fend.Parser

inductive Sym where
  | openP | closeP | add | sub | mul | div | mod | pow | bitAnd | bitOr | bitXor | shl | shr
  | comb | perm | fact | conv | fn_ | eq2 | ne | eq | semi
deriving DecidableEq, Repr

inductive Tok where
  | num (s : String)
  | ident (s : String)
  | sym (s : Sym)
deriving DecidableEq, Repr

inductive Bop where
  | plus | implicitPlus | minus | mul | div | mod | pow
  | bitAnd | bitOr | bitXor | shl | shr | comb | perm
deriving DecidableEq, Repr

inductive Expr where
  | num (s : String)
  | unit
  | ident (s : String)
  | parens (e : Expr)
  | neg (e : Expr)
  | pos (e : Expr)
  | udiv (e : Expr)
  | fact (e : Expr)
  | bop (op : Bop) (a b : Expr)
  | apply (a b : Expr)
  | applyFn (a b : Expr)
  | applyMul (a b : Expr)
  | as_ (a b : Expr)
  | fn_ (x : String) (b : Expr)
  | assign (x : String) (b : Expr)
  | equality (isEq : Bool) (a b : Expr)
  | stmts (a b : Expr)
deriving DecidableEq, Repr

abbrev Res := Option (Expr × List Tok)

def isNum : Expr → Bool | .num _ => true | _ => false
def isApplyMul : Expr → Bool | .applyMul _ _ => true | _ => false

/-- which function of the ladder is running, with the state of its loop -/
inductive Lv where
  | statements | stmtLoop (res : Expr)
  | assignment | equality | function
  | permutation | permLoop (res : Expr)
  | combination | combLoop (res : Expr)
  | bitOr | orLoop (res : Expr)
  | bitXor | xorLoop (res : Expr)
  | bitAnd | andLoop (res : Expr)
  | shifts | shiftLoop (res : Expr)
  | additive | addLoop (res : Expr)
  | implicitAdd
  | multiplicative | mulLoop (res : Expr)
  | power (allowUnary : Bool)
  | factorial | factLoop (res : Expr)
  | atom
  | mixedFraction (lhs : Expr)
  | applyCont (lhs : Expr)

def symHead (input : List Tok) (s : Sym) : Option (List Tok) :=
  match input with
  | .sym s' :: rest => if s' = s then some rest else none
  | _ => none

/-- generic left-associative level: `res (op next)*` -/
def leftLoop (run : Lv → List Tok → Res) (next : Lv) (loop : Expr → Lv) (ops : List (Sym × Bop))
    (res : Expr) (input : List Tok) : Res :=
  match input with
  | .sym s :: rest =>
    match ops.find? (fun p => p.1 = s) with
    | some (_, op) =>
      match run next rest with
      | some (rhs, rest') => run (loop (.bop op res rhs)) rest'
      | none => none
    | none => some (res, input)
  | _ => some (res, input)

def run : Nat → Lv → List Tok → Res
  | 0, _, _ => none
  | fuel + 1, lv, input =>
    let go := run fuel
    match lv with
    | .statements =>
      match input with
      | .sym .semi :: rest => go .statements rest
      | [] => some (.unit, [])
      | _ => match go .assignment input with
        | some (r, rest) => go (.stmtLoop r) rest
        | none => none
    | .stmtLoop res =>
      match input with
      | .sym .semi :: rest =>
        match rest with
        | [] => go (.stmtLoop res) rest
        | .sym .semi :: _ => go (.stmtLoop res) rest
        | _ => match go .assignment rest with
          | some (rhs, rest') => go (.stmtLoop (.stmts res rhs)) rest'
          | none => none
      | _ => some (res, input)
    | .assignment =>
      match go .equality input with
      | some (lhs, rest) =>
        match symHead rest .eq with
        | some rest' =>
          match lhs with
          | .ident s => match go .assignment rest' with
            | some (rhs, r) => some (.assign s rhs, r)
            | none => none
          | _ => none
        | none => some (lhs, rest)
      | none => none
    | .equality =>
      match go .function input with
      | some (lhs, rest) =>
        match rest with
        | .sym .eq2 :: rest' => match go .function rest' with
          | some (rhs, r) => some (.equality true lhs rhs, r)
          | none => none
        | .sym .ne :: rest' => match go .function rest' with
          | some (rhs, r) => some (.equality false lhs rhs, r)
          | none => none
        | _ => some (lhs, rest)
      | none => none
    | .function =>
      match go .permutation input with
      | some (lhs, rest) =>
        match symHead rest .fn_ with
        | some rest' =>
          match lhs with
          | .ident s => match go .function rest' with
            | some (rhs, r) => some (.fn_ s rhs, r)
            | none => none
          | _ => none
        | none => some (lhs, rest)
      | none => none
    | .permutation => match go .combination input with
      | some (r, rest) => go (.permLoop r) rest | none => none
    | .permLoop res => leftLoop go .combination .permLoop [(.perm, .perm)] res input
    | .combination => match go .bitOr input with
      | some (r, rest) => go (.combLoop r) rest | none => none
    | .combLoop res => leftLoop go .bitOr .combLoop [(.comb, .comb)] res input
    | .bitOr => match go .bitXor input with
      | some (r, rest) => go (.orLoop r) rest | none => none
    | .orLoop res => leftLoop go .bitXor .orLoop [(.bitOr, .bitOr)] res input
    | .bitXor => match go .bitAnd input with
      | some (r, rest) => go (.xorLoop r) rest | none => none
    | .xorLoop res => leftLoop go .bitAnd .xorLoop [(.bitXor, .bitXor)] res input
    | .bitAnd => match go .shifts input with
      | some (r, rest) => go (.andLoop r) rest | none => none
    | .andLoop res => leftLoop go .shifts .andLoop [(.bitAnd, .bitAnd)] res input
    | .shifts => match go .additive input with
      | some (r, rest) => go (.shiftLoop r) rest | none => none
    | .shiftLoop res => leftLoop go .additive .shiftLoop [(.shl, .shl), (.shr, .shr)] res input
    | .additive => match go .implicitAdd input with
      | some (r, rest) => go (.addLoop r) rest | none => none
    | .addLoop res =>
      -- a failing continuation (`+` followed by something that does not parse) ends the loop
      match input with
      | .sym .add :: rest => match go .implicitAdd rest with
        | some (t, r) => go (.addLoop (.bop .plus res t)) r
        | none => some (res, input)
      | .sym .sub :: rest => match go .implicitAdd rest with
        | some (t, r) => go (.addLoop (.bop .minus res t)) r
        | none => some (res, input)
      | .sym .conv :: rest => match go .implicitAdd rest with
        | some (t, r) => go (.addLoop (.as_ res t)) r
        | none => some (res, input)
      | _ => some (res, input)
    | .implicitAdd =>
      match go .multiplicative input with
      | some (res, rest) =>
        match go .implicitAdd rest with
        | some (rhs, remaining) =>
          let okR := match rhs with
            | .applyMul _ _ => true
            | .bop .implicitPlus _ _ => true
            | .num _ => true
            | .unit => true
            | _ => false
          if isApplyMul res && okR then some (.bop .implicitPlus res rhs, remaining) else some (res, rest)
        | none => some (res, rest)
      | none => none
    | .multiplicative => match go (.power true) input with
      | some (r, rest) => go (.mulLoop r) rest | none => none
    | .mulLoop res =>
      let tryOp (rest : List Tok) (op : Bop) : Option Res :=
        match go (.power true) rest with
        | some (t, r) => some (go (.mulLoop (.bop op res t)) r)
        | none => none
      let viaSym : Option Res := match input with
        | .sym .mul :: rest => tryOp rest .mul
        | .sym .div :: rest => tryOp rest .div
        | .sym .mod :: rest => tryOp rest .mod
        | .ident "%" :: rest =>
          -- `%` as modulo: not when directly followed by an operator other than `(`
          let blocked := match rest with
            | .sym .openP :: _ => false
            | .sym _ :: _ => true
            | _ => false
          if blocked then none else tryOp rest .mod
        | _ => none
      match viaSym with
      | some r => r
      | none =>
        match go (.mixedFraction res) input with
        | some (nr, rest) => go (.mulLoop nr) rest
        | none =>
          match go (.applyCont res) input with
          | some (nr, rest) => go (.mulLoop nr) rest
          | none => some (res, input)
    | .power allowUnary =>
      let unary : Option Res :=
        if allowUnary then
          match input with
          | .sym .sub :: rest => some (match go (.power true) rest with
            | some (r, rem) => some (.neg r, rem) | none => none)
          | .sym .add :: rest => some (match go (.power true) rest with
            | some (r, rem) => some (.pos r, rem) | none => none)
          | .sym .div :: rest => some (match go (.power true) rest with
            | some (r, rem) => some (.udiv r, rem) | none => none)
          | _ => none
        else none
      match unary with
      | some r => r
      | none =>
        match go .factorial input with
        | some (res, rest) =>
          match symHead rest .pow with
          | some rest' => match go (.power true) rest' with
            | some (rhs, rem) => some (.bop .pow res rhs, rem)
            | none => none
          | none => some (res, rest)
        | none => none
    | .factorial => match go .atom input with
      | some (r, rest) => go (.factLoop r) rest | none => none
    | .factLoop res =>
      match symHead input .fact with
      | some rest => go (.factLoop (.fact res)) rest
      | none => some (res, input)
    | .atom =>
      match input with
      | .num s :: rest => some (.num s, rest)
      | .ident s :: rest => some (.ident s, rest)
      | .sym .openP :: rest =>
        match rest with
        | .sym .closeP :: rest' => some (.unit, rest')
        | _ =>
          match go .statements rest with
          | some (inner, rest') =>
            match rest' with
            | [] => some (.parens inner, [])          -- closing parenthesis may be omitted at the end of input
            | .sym .closeP :: r => some (.parens inner, r)
            | _ => none
          | none => none
      | _ => none
    | .mixedFraction lhs =>
      let shape : Option (Bool × Expr × Option Expr) := match lhs with
        | .num _ => some (true, lhs, none)
        | .neg x => if isNum x then some (false, lhs, none) else none
        | .bop .mul a b => match b with
          | .num _ => some (true, b, some a)
          | .neg x => if isNum x then some (false, b, some a) else none
          | _ => none
        | _ => none
      match shape with
      | none => none
      | some (positive, l, other) =>
        match go (.power false) input with
        | some (top, rest) =>
          if !isNum top then none else
          match symHead rest .div with
          | some rest' =>
            match go (.power false) rest' with
            | some (bottom, rem) =>
              if !isNum bottom then none else
              let rhs := Expr.bop .div top bottom
              let mf := if positive then Expr.bop .plus l rhs else Expr.bop .minus l rhs
              some (match other with | some o => .bop .mul o mf | none => mf, rem)
            | none => none
          | none => none
        | none => none
    | .applyCont lhs =>
      match go (.power false) input with
      | some (rhs, rest) =>
        let lhsNumLike := match lhs with
          | .num _ => true | .neg _ => true | .applyMul _ _ => true | _ => false
        match rhs with
        | .num _ =>
          if lhsNumLike then
            match lhs with
            | .neg b => if !isNum b then some (.apply lhs rhs, rest) else none
            | _ => none
          else some (.applyFn lhs rhs, rest)
        | .bop .pow a _ =>
          if lhsNumLike then (if isNum a then none else some (.apply lhs rhs, rest))
          else some (.apply lhs rhs, rest)          -- falls to the later arms: lhs is not a number / ApplyMul here
        | _ =>
          match lhs with
          | .num _ => some (.applyMul lhs rhs, rest)
          | .applyMul _ _ => some (.applyMul lhs rhs, rest)
          | _ => some (.apply lhs rhs, rest)
      | none => none

/-- `parse_tokens` -/
def parse (toks : List Tok) : Option Expr :=
  match run (64 * (toks.length + 2)) .statements toks with
  | some (e, []) => some e
  | _ => none

def bopText : Bop → String
  | .plus => "+" | .implicitPlus => " " | .minus => "-" | .mul => "*" | .div => "/" | .mod => " mod " | .pow => "^"
  | .bitAnd => "&" | .bitOr => "|" | .bitXor => " xor " | .shl => "<<" | .shr => ">>" | .comb => "nCr" | .perm => "nPr"

/-- `Expr::format`: the fully parenthesised text fend shows for a lambda body -/
def fmt : Expr → String
  | .num s => s
  | .unit => "()"
  | .ident s => s
  | .parens e => "(" ++ fmt e ++ ")"
  | .neg e => "(-" ++ fmt e ++ ")"
  | .pos e => "(+" ++ fmt e ++ ")"
  | .udiv e => "(/" ++ fmt e ++ ")"
  | .fact e => fmt e ++ "!"
  | .bop op a b => "(" ++ fmt a ++ bopText op ++ fmt b ++ ")"
  | .apply a b => "(" ++ fmt a ++ " (" ++ fmt b ++ "))"
  | .applyFn a b => "(" ++ fmt a ++ " " ++ fmt b ++ ")"
  | .applyMul a b => "(" ++ fmt a ++ " " ++ fmt b ++ ")"
  | .as_ a b => "(" ++ fmt a ++ " as " ++ fmt b ++ ")"
  | .fn_ x b => "\\" ++ x ++ "." ++ fmt b
  | .assign x b => x ++ " = " ++ fmt b
  | .equality e a b => fmt a ++ (if e then " == " else " != ") ++ fmt b
  | .stmts a b => fmt a ++ "; " ++ fmt b

end Fend.Parser
