from . import gens
from .gens import show_uint, raw_uint, val_of, from_val

def cases(r, n, ops, maxlimbs=6):
    out = []
    # regression corpus first: inputs that exposed defects
    corpus = {
        "add": ["add S1 L18446744073709551615,18446744073709551615",
                "add S3 L18446744073709551615,18446744073709551615,18446744073709551615"],
        "pow": ["pow S2 L5,0"],
        "try_as_usize": ["try_as_usize L5,0"],
        "lshift_n": ["lshift_n S1 L5,0"],
    }
    for op in ops:
        out += corpus.get(op, [])
    while len(out) < n:
        op = r.choice(ops)
        a = raw_uint(r, maxlimbs); b = raw_uint(r, maxlimbs)
        if op == "sub":
            if val_of(a) < val_of(b): a, b = b, a
            if r.random() < 0.15:   # cancelling history: (x + y) - x
                b = a if r.random() < 0.3 else b
        elif op in ("divmod", "div", "rem", "gcd"):
            if r.random() < 0.15:
                # a divisor that is numerically small but stored with two or more zero limbs on top (what a cancelling subtraction leaves),
                # against a dividend with fewer limbs that is numerically larger
                b = (False, [r.choice([1, 2, 3, 5, 7, r.randrange(1, 2**64)])] + [0] * r.randint(2, 4))
                a = (True, [r.randrange(0, 2**64)]) if r.random() < 0.6 else (False, [r.randrange(0, 2**64), r.randrange(0, 2**64)] + [0] * r.randint(0, 1))
                out.append(op + " " + show_uint(a) + " " + show_uint(b)); continue
            if r.random() < 0.3:  # divisor shares structure: multiple of b plus small remainder
                q = val_of(raw_uint(r, 2)); vb = val_of(b)
                a = from_val(q * vb + (r.randrange(vb) if vb and r.random() < 0.5 else 0), r)
            if r.random() < 0.1: b = (True, [r.choice([0, 1, 2])])
            if r.random() < 0.05: b = a
        elif op == "pow":
            a = raw_uint(r, 2)
            c = r.random()
            if c < 0.7: b = (True, [r.randrange(0, 40)])
            elif c < 0.8: b = (False, [r.randrange(0, 20)] + [0] * r.randint(0, 2))
            elif c < 0.9:
                b = raw_uint(r, 3)
                if val_of(b) > 60 and val_of(a) > 1: a = (True, [r.choice([0, 1])])
            else: a, b = (True, [0]), (True, [0])
        elif op == "factorial":
            a = from_val(r.choice([0, 1, 2, 3, 20, 21, 25, 34, 35, r.randrange(0, 120)]), r); b = None
        elif op == "fibonacci":
            out.append("fibonacci %d" % r.choice([0, 1, 2, 3, 93, 94, 95, 186, 187, r.randrange(0, 400)])); continue
        elif op in ("lshift_n", "rshift_n"):
            c = r.random()
            if c < 0.8: b = from_val(r.choice([0, 1, 63, 64, 65, 127, 128, 129, r.randrange(0, 300)]), r)
            elif c < 0.9: b = (False, [r.randrange(0, 200)] + [0] * r.randint(1, 2))
            else: b = gens.from_val(2**64 + r.randrange(0, 2**64), r)      # beyond usize: must be rejected
        elif op in ("try_as_usize", "lshift", "rshift", "is_zero", "is_even"):
            b = None
        elif op == "root_n":
            a = raw_uint(r, 3)
            k = r.choice([1, 2, 2, 2, 3, 3, 4, 5, 7, 12, 64, 65, 200])
            if r.random() < 0.4:
                base = val_of(raw_uint(r, 1)) % (1 << (192 // k) if k < 64 else 4)
                a = from_val(base ** k + r.choice([0, 0, 1, -1]) if base > 1 else base ** k, r)
            b = from_val(k, r)
        out.append(op + " " + show_uint(a) + ("" if b is None else " " + show_uint(b)))
    return out
