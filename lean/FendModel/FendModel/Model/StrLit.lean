/-
Model of `core/src/lexer.rs::parse_string_literal` / `parse_unicode_escape` over code points.
Input: the characters AFTER the opening quote. Output: the literal's text and the rest.
-/
import FendModel.Model.Json

namespace Fend.StrLit
open Fend.Json (isScalar hexVal)

inductive SErr where
  | unterminated | backslashX | unknownEscape | expectedLetterOrCode | invalidUnicode
deriving DecidableEq, Repr

def SErr.name : SErr → String
  | .unterminated => "unterminated" | .backslashX => "backslashX" | .unknownEscape => "unknownEscape"
  | .expectedLetterOrCode => "expectedLetterOrCode" | .invalidUnicode => "invalidUnicode"

/-- `char::is_ascii_whitespace` -/
def isAsciiWs (c : Nat) : Bool := c = 32 || c = 9 || c = 10 || c = 12 || c = 13

/-- the loop of `parse_unicode_escape`, after the `{` -/
def parseUni : List Nat → Nat → Bool → Except SErr (Nat × List Nat)
  | [], _, _ => .error .unterminated
  | c :: rest, acc, zeroLen =>
    match hexVal c with
    | some d =>
      let v := acc * 16 + d
      if v > 0x10ffff then .error .invalidUnicode else parseUni rest v false
    | none =>
      if c = 125 then
        if zeroLen then .error .invalidUnicode
        else if isScalar acc then .ok (acc, rest) else .error .invalidUnicode
      else .error .invalidUnicode

/-- simple one-character escapes -/
def simple (c : Nat) : Option Nat :=
  if c = 92 then some 92 else if c = 34 then some 34 else if c = 39 then some 39
  else if c = 97 then some 7 else if c = 98 then some 8 else if c = 101 then some 27
  else if c = 102 then some 12 else if c = 110 then some 10 else if c = 114 then some 13
  else if c = 116 then some 9 else if c = 118 then some 11 else none

def octVal (c : Nat) : Option Nat := if 48 ≤ c ∧ c ≤ 55 then some (c - 48) else none

def go (term : Nat) : Nat → List Nat → Bool → List Nat → Except SErr (List Nat × List Nat)
  | 0, _, _, _ => .error .unterminated
  | fuel + 1, cs, skip, acc =>
    match cs with
    | [] => .error .unterminated
    | ch :: rest =>
      if skip && isAsciiWs ch then go term fuel rest true acc
      else if ch = term then .ok (acc.reverse, rest)
      else if ch = 92 then
        match rest with
        | [] => .error .unterminated
        | next :: rest =>
          match simple next with
          | some e => go term fuel rest false (e :: acc)
          | none =>
            if next = 120 then           -- \x
              match rest with
              | h1 :: h2 :: rest =>
                match octVal h1, hexVal h2 with
                | some a, some b => go term fuel rest false ((a * 16 + b) :: acc)
                | _, _ => .error .backslashX
              | _ => .error .unterminated
            else if next = 117 then      -- \u{…}
              match rest with
              | [] => .error .unterminated
              | b :: rest =>
                if b ≠ 123 then .error .invalidUnicode else
                match parseUni rest 0 true with
                | .error e => .error e
                | .ok (v, rest) => go term fuel rest false (v :: acc)
            else if next = 122 then go term fuel rest true acc   -- \z
            else if next = 94 then       -- \^X
              match rest with
              | [] => .error .unterminated
              | l :: rest =>
                let code := l % 256      -- `letter as u8`
                if 63 ≤ code ∧ code ≤ 95 then
                  go term fuel rest false ((if code = 63 then 127 else code - 64) :: acc)
                else .error .expectedLetterOrCode
            else .error .unknownEscape
      else go term fuel rest false (ch :: acc)

/-- `cs` = everything after the opening quote -/
def parseStringLiteral (term : Nat) (cs : List Nat) : Except SErr (List Nat × List Nat) :=
  go term (cs.length + 1) cs false []

/-- a canonical escaper (spec side of the round trip): only the terminator and the
backslash need escaping -/
def escapeCanon (term : Nat) (s : List Nat) : List Nat :=
  s.flatMap fun c => if c = term ∨ c = 92 then [92, c] else [c]

end Fend.StrLit
