/-
Canonical form of deserialized variable tables, for comparing two byte images that differ only in
hash-map iteration order (`HashMap<BaseUnit, Complex>` inside `NamedUnit`, the variable table itself).
Used by the driver only; no theorem depends on it.
-/
import FendModel.Model.Serialize

namespace Fend.Ser

def bytesLt : Bytes → Bytes → Bool
  | [], [] => false
  | [], _ :: _ => true
  | _ :: _, [] => false
  | a :: as, b :: bs => if a < b then true else if b < a then false else bytesLt as bs

def insertBy {α} (key : α → Bytes) (x : α) : List α → List α
  | [] => [x]
  | y :: ys => if bytesLt (key x) (key y) then x :: y :: ys
               else if key x == key y then x :: ys      -- duplicate key: the later one wins
               else y :: insertBy key x ys

/-- stable: later duplicates replace earlier ones, like `HashMap::insert` -/
def sortBy {α} (key : α → Bytes) (l : List α) : List α := l.foldl (fun acc x => insertBy key x acc) []

def canonNamedUnit (u : NamedUnit) : NamedUnit := { u with base := sortBy (·.1) u.base }
def canonNumber (n : Number) : Number :=
  { n with unit := n.unit.map fun ue => { ue with unit := canonNamedUnit ue.unit } }

mutual
def canonV : Value → Value
  | .num n => .num (canonNumber n)
  | .fn p e s => .fn p (canonE e) (canonO s)
  | .object kvs => .object (canonK kvs)
  | v => v
def canonK : KVs → KVs
  | .nil => .nil
  | .cons k v r => .cons k (canonV v) (canonK r)
def canonE : Expr → Expr
  | .literal v => .literal (canonV v)
  | .ident s => .ident s
  | .parens e => .parens (canonE e)
  | .unaryMinus e => .unaryMinus (canonE e)
  | .unaryPlus e => .unaryPlus (canonE e)
  | .unaryDiv e => .unaryDiv (canonE e)
  | .factorial e => .factorial (canonE e)
  | .bop op a b => .bop op (canonE a) (canonE b)
  | .apply a b => .apply (canonE a) (canonE b)
  | .applyFunctionCall a b => .applyFunctionCall (canonE a) (canonE b)
  | .applyMul a b => .applyMul (canonE a) (canonE b)
  | .as_ a b => .as_ (canonE a) (canonE b)
  | .fn s e => .fn s (canonE e)
  | .of_ s e => .of_ s (canonE e)
  | .assign s e => .assign s (canonE e)
  | .statements a b => .statements (canonE a) (canonE b)
  | .equality q a b => .equality q (canonE a) (canonE b)
def canonS : Scope → Scope
  | .mk i e vs inner => .mk i (canonE e) (canonO vs) (canonO inner)
def canonO : OptScope → OptScope
  | .none => .none
  | .some s => .some (canonS s)
end

def canonVars (vars : List (Str × Value)) : List (Str × Value) :=
  sortBy (·.1) (vars.map fun p => (p.1, canonV p.2))

end Fend.Ser
