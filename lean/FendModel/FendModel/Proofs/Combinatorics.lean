/-
`nCr` / `nPr` (`BigRat::combination`, `BigRat::permutation`) on natural-number arguments: binomial coefficient and
falling factorial, `outOfRange` exactly when r > n.
-/
import FendModel.Proofs.IntFns
import FendModel.Proofs.BigRatField
import Mathlib.Data.Nat.Choose.Basic
import Mathlib.Data.Nat.Choose.Cast
import Mathlib.Data.Nat.Factorial.Basic

namespace Fend
open BigUint

theorem factSpec_eq (n : Nat) : factSpec n = n.factorial := by
  induction n with
  | zero => rfl
  | succ n ih => rw [factSpec, ih, Nat.factorial_succ]

namespace BigUint

theorem factLoop_WF (fuel : Nat) (self res r : BigUint) (hs : self.WF) (hres : res.WF)
    (h : factLoop fuel self res = .ok r) : r.WF := by
  induction fuel generalizing self res with
  | zero => simp [factLoop] at h
  | succ fuel ih =>
    unfold factLoop at h
    by_cases hlt : blt (small 1) self = true
    · simp only [hlt, if_true] at h
      have hv1 : val (small 1) = 1 := rfl
      have h1 : 1 < val self := by have := (blt_iff _ _ one_WF hs).mp hlt; rwa [hv1] at this
      obtain ⟨s, hsub, _, hw⟩ := sub_val self (small 1) hs one_WF (by rw [hv1]; omega)
      rw [hsub] at h
      exact ih s (mul res self) hw (mul_WF _ _ hres hs) h
    · simp only [hlt] at h
      cases h; exact hres

theorem factorial_spec (n : BigUint) (hn : n.WF) :
    ∃ r, factorial n = .ok r ∧ val r = (val n).factorial ∧ r.WF := by
  obtain ⟨r, h, hv⟩ := factorial_val n hn
  exact ⟨r, h, by rw [hv, factSpec_eq], factLoop_WF _ _ _ _ hn one_WF h⟩

end BigUint

namespace BigRat

theorem asUint_nat (a : BigUint) : asUint (ofUint a) = .ok a := by
  have h1 : denIsOne (ofUint a) = true := by
    show BigUint.beq (small 1) (small 1) = true
    decide
  have h1' : denIsOne ⟨false, a, small 1⟩ = true := h1
  simp [asUint, simplify, h1', ofUint, bind, Except.bind]

theorem factorial_nat (a : BigUint) (ha : a.WF) :
    ∃ f, factorial (ofUint a) = .ok (ofUint f) ∧ val f = (val a).factorial ∧ f.WF := by
  obtain ⟨f, hf, hv, hw⟩ := factorial_spec a ha
  exact ⟨f, by simp [factorial, asUint_nat, hf, bind, Except.bind], hv, hw⟩

/-- `n - r` on natural-number operands: the difference with denominator 1, or a negative non-zero value -/
theorem sub_nat (a b : BigUint) (ha : a.WF) (hb : b.WF) :
    (val b ≤ val a → ∃ d, add (ofUint a) (negate (ofUint b)) = .ok ⟨false, d, small 1⟩ ∧ val d = val a - val b ∧ d.WF) ∧
    (val a < val b → ∃ d, add (ofUint a) (negate (ofUint b)) = .ok ⟨true, d, small 1⟩ ∧ val d ≠ 0 ∧ d.WF) := by
  have hbeq : BigUint.beq (small 1) (small 1) = true := by decide
  have hadd : add (ofUint a) (negate (ofUint b)) = addTail true a b (small 1) := by
    show (if false = true then _ else addPos (ofUint a) (negate (ofUint b))) = _
    rw [if_neg (by simp), addPos_eq]
    show (if BigUint.beq (small 1) (small 1) = true then addTail true a b (small 1) else _) = _
    rw [if_pos hbeq]
  rw [hadd]
  constructor
  · intro hle
    have hlt : BigUint.blt a b = false := by
      cases h : BigUint.blt a b with
      | false => rfl
      | true => have := (blt_iff a b ha hb).mp h; omega
    obtain ⟨d, hd, hv, hw⟩ := sub_val a b ha hb hle
    exact ⟨d, by simp [addTail, hlt, hd, bind, Except.bind], hv, hw⟩
  · intro hlt'
    have hlt : BigUint.blt a b = true := (blt_iff a b ha hb).mpr hlt'
    obtain ⟨d, hd, hv, hw⟩ := sub_val b a hb ha (Nat.le_of_lt hlt')
    exact ⟨d, by simp [addTail, hlt, hd, bind, Except.bind], by omega, hw⟩

theorem asUint_den1 (neg : Bool) (d : BigUint) (hd : d.WF) :
    asUint ⟨neg, d, small 1⟩ = if neg && val d ≠ 0 then .error .outOfRange else .ok d := by
  have h1 : denIsOne ⟨neg, d, small 1⟩ = true := by
    show BigUint.beq (small 1) (small 1) = true
    decide
  have hz : numIsZero ⟨neg, d, small 1⟩ = decide (val d = 0) := by
    by_cases h : val d = 0
    · rw [decide_eq_true h]; exact (numIsZero_iff _ hd).mpr h
    · rw [decide_eq_false h]
      cases hh : numIsZero ⟨neg, d, small 1⟩ with
      | false => rfl
      | true => exact absurd ((numIsZero_iff _ hd).mp hh) h
  simp only [asUint, simplify, h1, if_true, bind, Except.bind, hz]
  cases neg <;> by_cases h : val d = 0 <;> simp [h]

/-- `n nCr r` for natural numbers: the binomial coefficient; out of range exactly when r > n -/
theorem combination_nat (a b : BigUint) (ha : a.WF) (hb : b.WF) :
    (val b ≤ val a → ∃ q, combination (ofUint a) (ofUint b) = .ok q ∧ valQ q = ((val a).choose (val b) : Nat)) ∧
    (val a < val b → combination (ofUint a) (ofUint b) = .error .outOfRange) := by
  obtain ⟨nf, hnf, hnfv, hnfw⟩ := factorial_nat a ha
  obtain ⟨rf, hrf, hrfv, hrfw⟩ := factorial_nat b hb
  obtain ⟨s1, s2⟩ := sub_nat a b ha hb
  constructor
  · intro hle
    obtain ⟨d, hd, hdv, hdw⟩ := s1 hle
    obtain ⟨df, hdf, hdfv, hdfw⟩ := factorial_spec d hdw
    have hfd : factorial ⟨false, d, small 1⟩ = .ok (ofUint df) := by
      simp [factorial, asUint_den1 false d hdw, hdf, bind, Except.bind]
    have hm : mul (ofUint rf) (ofUint df) = ⟨false, BigUint.mul rf df, BigUint.mul (small 1) (small 1)⟩ := rfl
    have hmnum : val (mul (ofUint rf) (ofUint df)).num ≠ 0 := by
      rw [hm]; show val (BigUint.mul rf df) ≠ 0
      rw [mul_val, hrfv, hdfv]; exact Nat.mul_ne_zero (Nat.factorial_ne_zero _) (Nat.factorial_ne_zero _)
    have hmw : (mul (ofUint rf) (ofUint df)).num.WF := mul_WF _ _ hrfw hdfw
    have hz : numIsZero (mul (ofUint rf) (ofUint df)) = false := by
      cases hh : numIsZero (mul (ofUint rf) (ofUint df)) with
      | false => rfl
      | true => exact absurd ((numIsZero_iff _ hmw).mp hh) hmnum
    obtain ⟨q, hq, hqv⟩ := (div_valQ (ofUint nf) (mul (ofUint rf) (ofUint df)) hmw).2 hz
    refine ⟨q, by simp only [combination, hnf, hrf, hd, hfd, hq, bind, Except.bind], ?_⟩
    rw [hqv (by show val (BigUint.mul (small 1) (small 1)) ≠ 0; rw [mul_val]; decide), mul_valQ]
    simp only [valQ, ofUint, Bool.false_eq_true, if_false, hnfv, hrfv, hdfv, hdv]
    have : ((val (small 1) : Nat) : Rat) = 1 := by simp [val]
    rw [this, Nat.cast_choose Rat hle]
    simp
  · intro hlt
    obtain ⟨d, hd, hd0, hdw⟩ := s2 hlt
    have hfd : factorial ⟨true, d, small 1⟩ = .error .outOfRange := by
      simp [factorial, asUint_den1 true d hdw, hd0, bind, Except.bind]
    simp only [combination, hnf, hrf, hd, hfd, bind, Except.bind]

/-- `n nPr r` for natural numbers: n! / (n-r)!; out of range exactly when r > n -/
theorem permutation_nat (a b : BigUint) (ha : a.WF) (hb : b.WF) :
    (val b ≤ val a → ∃ q, permutation (ofUint a) (ofUint b) = .ok q ∧ valQ q = ((val a).descFactorial (val b) : Nat)) ∧
    (val a < val b → permutation (ofUint a) (ofUint b) = .error .outOfRange) := by
  obtain ⟨nf, hnf, hnfv, hnfw⟩ := factorial_nat a ha
  obtain ⟨s1, s2⟩ := sub_nat a b ha hb
  constructor
  · intro hle
    obtain ⟨d, hd, hdv, hdw⟩ := s1 hle
    obtain ⟨df, hdf, hdfv, hdfw⟩ := factorial_spec d hdw
    have hfd : factorial ⟨false, d, small 1⟩ = .ok (ofUint df) := by
      simp [factorial, asUint_den1 false d hdw, hdf, bind, Except.bind]
    have hmnum : val (ofUint df).num ≠ 0 := by
      show val df ≠ 0; rw [hdfv]; exact Nat.factorial_ne_zero _
    have hz : numIsZero (ofUint df) = false := by
      cases hh : numIsZero (ofUint df) with
      | false => rfl
      | true => exact absurd ((numIsZero_iff _ hdfw).mp hh) hmnum
    obtain ⟨q, hq, hqv⟩ := (div_valQ (ofUint nf) (ofUint df) hdfw).2 hz
    refine ⟨q, by simp only [permutation, asUint_nat, hnf, hd, hfd, hq, bind, Except.bind], ?_⟩
    rw [hqv (by show val (small 1) ≠ 0; decide)]
    simp only [valQ, ofUint, Bool.false_eq_true, if_false, hnfv, hdfv, hdv]
    have : ((val (small 1) : Nat) : Rat) = 1 := by simp [val]
    rw [this]
    have hdf0 : (((val a - val b).factorial : Nat) : Rat) ≠ 0 := by exact_mod_cast Nat.factorial_ne_zero _
    have := Nat.factorial_mul_descFactorial hle
    field_simp
    exact_mod_cast this.symm
  · intro hlt
    obtain ⟨d, hd, hd0, hdw⟩ := s2 hlt
    have hfd : factorial ⟨true, d, small 1⟩ = .error .outOfRange := by
      simp [factorial, asUint_den1 true d hdw, hd0, bind, Except.bind]
    simp only [permutation, asUint_nat, hnf, hd, hfd, bind, Except.bind]

/-- `a mod b` for natural numbers: the remainder; `moduloByZero` exactly for b = 0 -/
theorem modulo_nat (a b : BigUint) (ha : a.WF) (hb : b.WF) :
    (val b = 0 → modulo (ofUint a) (ofUint b) = .error .moduloByZero) ∧
    (val b ≠ 0 → ∃ r, modulo (ofUint a) (ofUint b) = .ok ⟨false, r, small 1⟩ ∧ val r = val a % val b) := by
  have h1 : ∀ c : BigUint, denIsOne ⟨false, c, small 1⟩ = true := fun c => by
    show BigUint.beq (small 1) (small 1) = true
    decide
  constructor
  · intro h0
    have hz : numIsZero (ofUint b) = true := (numIsZero_iff _ hb).mpr h0
    simp [modulo, hz]
  · intro h0
    have hz : numIsZero ⟨false, b, small 1⟩ = false := by
      cases hh : numIsZero ⟨false, b, small 1⟩ with
      | false => rfl
      | true => exact absurd ((numIsZero_iff ⟨false, b, small 1⟩ hb).mp hh) h0
    obtain ⟨q, r, hqr, _, hr, _, _⟩ := divmod_val a b ha hb h0
    exact ⟨r, by simp [modulo, ofUint, hz, simplify, h1, hqr, bind, Except.bind], hr⟩

end BigRat
end Fend
