"""C01 — exact arithmetic on rationals and complex rationals."""
from fractions import Fraction as F
from vlib import core, nat_oracle, biguint_cases, gens, exprgen

MODULE = "FendModel.Props.C01"
REL = "FendModel/Props/C01.lean"
ALLOWED = {"division by zero": "divideByZero", "zero to the power of zero is undefined": "zeroPowZero",
           "exponent too large": "exponentTooLarge"}

# ------------------------------------------------------------------ BigRat op level
def rat_val(q):
    neg, n, d = q
    dv = gens.val_of(d)
    if dv == 0:
        return None
    v = F(gens.val_of(n), dv)
    return -v if neg else v

def parse_rat_result(line):
    ws = line.split(" ")
    if ws[0] == "err":
        return ("err", ws[1] if len(ws) > 1 else "?")
    if ws[0] != "ok":
        return ("bad", line)
    if len(ws) >= 2 and ws[1] and ws[1][0] in "+-" and "/" in ws[1]:
        q = gens.parse_rat(ws[1])
        return ("ok", rat_val(q), ws[2] if len(ws) > 2 else None)
    return ("ok", int(ws[1]), None)

def rat_expected(case):
    ws = case.split(" ")
    op = ws[0]
    a = rat_val(gens.parse_rat(ws[1]))
    b = rat_val(gens.parse_rat(ws[2])) if len(ws) > 2 else None
    if a is None or (len(ws) > 2 and b is None):
        return None
    if op == "add": return ("ok", a + b)
    if op == "sub": return ("ok", a - b)
    if op == "mul": return ("ok", a * b)
    if op == "div": return ("err", {"divideByZero"}) if b == 0 else ("ok", a / b)
    if op == "neg": return ("ok", -a)
    if op == "simplify": return ("ok", a)
    if op == "cmp": return ("ok", (a > b) - (a < b))
    if op == "pow":
        if b.denominator != 1: return None
        e = b.numerator
        if a == 0 and e == 0: return ("err", {"zeroPowZero"})
        if a == 0 and e < 0: return ("err", {"divideByZero"})
        if abs(e) >= 2**64: return ("err", {"exponentTooLarge"})
        return ("ok", a ** e, "exact")
    return None

def rat_oracle(case, impl, model):
    exp = rat_expected(case)
    if exp is None:
        return None
    got = parse_rat_result(impl)
    if exp[0] == "ok":
        if got[0] == "ok" and got[1] == exp[1] and (len(exp) < 3 or got[2] == exp[2]):
            return None
        return f"exact value {exp[1]} ({exp[2] if len(exp) > 2 else ''}) expected, implementation answered {impl!r}"
    if got[0] == "err" and got[1] in exp[1]:
        return None
    return f"expected error {sorted(exp[1])}, implementation answered {impl!r}"

def rat_canon(a, b, case):
    return (parse_rat_result(a), parse_rat_result(b))

def rat_cases(r, n, maxlimbs):
    out = ["pow -S2/S1 +L3,0/S1", "pow -S2/S3 +L3,0,0/L1,0", "add +S1/S1 +L18446744073709551615,18446744073709551615/S1"]
    ops = ["add", "sub", "mul", "div", "neg", "simplify", "cmp", "pow"]
    while len(out) < n:
        op = r.choice(ops)
        a = gens.raw_rat(r, maxlimbs)
        b = gens.raw_rat(r, maxlimbs)
        if op in ("add", "sub", "cmp") and r.random() < 0.3:
            b = (b[0], b[1], a[2])           # equal denominators: the other branch of add_internal
        if op in ("add", "sub") and r.random() < 0.1:
            b = (not a[0] if op == "add" else a[0], a[1], a[2])   # exact cancellation
        if op == "div" and r.random() < 0.1:
            b = (b[0], (False, [0, 0]) if r.random() < 0.5 else (True, [0]), b[2])
        if op == "pow":
            a = gens.raw_rat(r, 1)
            e = r.choice([0, 1, 2, 3, 4, 5, 7, 16, r.randrange(0, 24)])
            c = r.random()
            if c < 0.5: num, den = (True, [e]), (True, [1])
            elif c < 0.75: num, den = (False, [e] + [0] * r.randint(1, 2)), (True, [1])      # leading zero limbs
            elif c < 0.9: num, den = (True, [e * 3]), (False, [3, 0])                        # unreduced exponent
            else: num, den = (True, [e]), (False, [1, 0])
            b = (r.random() < 0.35, num, den)
            if r.random() < 0.08: a = (a[0], (True, [0]), a[2])
        if op in ("neg", "simplify"):
            out.append(f"{op} {gens.show_rat(a)}")
        else:
            out.append(f"{op} {gens.show_rat(a)} {gens.show_rat(b)}")
    return out

# ------------------------------------------------------------------ complex layer on raw rational parts
def cx_cases(r, n, maxlimbs):
    out = []
    zero = [(True, [0]), (False, [0, 0]), (False, [0])]
    while len(out) < n:
        op = r.choice(["cadd", "cmul", "cdiv"])
        parts = [gens.raw_rat(r, maxlimbs) for _ in range(4)]
        for i in range(4):
            if r.random() < 0.22: parts[i] = (parts[i][0], r.choice(zero), parts[i][2])   # zero parts in every representation: short-cuts, real-only fast path
        if r.random() < 0.1: parts[2] = parts[0]
        if r.random() < 0.1: parts[3] = (not parts[1][0], parts[1][1], parts[1][2])        # conjugate pairs
        out.append(op + " " + " ".join(gens.show_rat(p) for p in parts))
    return out

def cx_parse(line):
    ws = line.split(" ")
    if ws[0] == "err": return ("err", ws[1] if len(ws) > 1 else "?")
    if ws[0] != "ok" or len(ws) < 4: return ("bad", line)
    return ("ok", rat_val(gens.parse_rat(ws[1])), rat_val(gens.parse_rat(ws[2])), ws[3])

def cx_canon(a, b, case):
    return (cx_parse(a), cx_parse(b))

def cx_oracle(case, impl, model):
    ws = case.split(" ")
    u, v, x, y = [rat_val(gens.parse_rat(w)) for w in ws[1:5]]
    if None in (u, v, x, y): return None
    if ws[0] == "cadd": exp = (u + x, v + y)
    elif ws[0] == "cmul": exp = (u * x - v * y, u * y + v * x)
    else:
        s2 = x * x + y * y
        exp = None if s2 == 0 else ((u * x + v * y) / s2, (v * x - u * y) / s2)
    got = cx_parse(impl)
    if exp is None:
        return None if got == ("err", "divideByZero") else f"division by 0 + 0i: the only admissible outcome is the division-by-zero error, implementation answered {impl!r}"
    if got[0] == "ok" and (got[1], got[2]) == exp and got[3] == "exact":
        return None
    return f"exact value ({exp[0]}) + ({exp[1]})i expected and flagged exact, implementation answered {impl!r}"

# ------------------------------------------------------------------ API level
def api_cases(r, n, depth):
    cases, meta = [], []
    # regression corpus first (inputs that exposed defects D20, D1, D21)
    for t, v in [("(1 + 0xffffffffffffffffffffffffffffffff)", F(2**128)), ("2^((2^64+5)-2^64)", F(32)), ("(-2)^(6/3)", F(4)),
                 ("(-2/3)^((2^64+3)-2^64)", F(-8, 27)), ("(2^192 - (2^128 - 1))", F(2**192 - 2**128 + 1))]:
        cases.append(f"{t} to base 10 to fraction"); meta.append(("val", v))
    while len(cases) < n:
        try:
            if r.random() < 0.7:
                t, v = exprgen.tree(r, r.randint(1, depth))
                cases.append(f"{t} to base 10 to fraction"); meta.append(("val", v))
            else:
                t, (re, im) = exprgen.ctree(r, r.randint(1, depth - 1))
                if r.random() < 0.5:
                    cases.append(f"real({t}) to base 10 to fraction"); meta.append(("val", re))
                else:
                    cases.append(f"imag({t}) to base 10 to fraction"); meta.append(("val", im))
        except exprgen.Undefined as u:
            continue
        except (OverflowError, ZeroDivisionError):
            continue
    # expressions whose only admissible outcome is one of the documented errors
    for t, k in [("1/0", "divideByZero"), ("0^0", "zeroPowZero"), ("(1/3 - 2/6)^0", "zeroPowZero"), ("2^(2^64)", "exponentTooLarge"),
                 ("(3/7)/((2^64+5)-2^64-5)", "divideByZero"), ("2^(-(2^70))", "exponentTooLarge")]:
        cases.append(t); meta.append(("err", k))
    return cases, meta

def run(ctx):
    quick = ctx.tier == "quick"
    ctx.lean_build([MODULE])
    ctx.audit(MODULE, REL)
    if not quick:
        ctx.leanchecker(MODULE)
    h = ctx.harness()
    if h is None:
        ctx.proof_failures.append({"file": "harness", "decl": "harness build (verif-hooks)", "line": 0,
                                   "msg": getattr(ctx, "harness_error", "")})
        return ctx.finish()
    env = {"HARNESS_LINE_TIMEOUT_S": "2"}
    n = 4000 if quick else 30000
    lines = biguint_cases.cases(ctx.rng, n, nat_oracle.C01_OPS + ["is_even"], maxlimbs=6 if quick else 16)
    ctx.diff_stream("biguint-ops", lines, h, "biguint", canon=nat_oracle.canon, oracle=nat_oracle.oracle,
                    nontrivial=lambda c, a: "L" in c, env=env,
                    what="BigUint add/sub/mul/divmod/cmp/gcd/pow/is_even on raw limb vectors through the hooks; "
                         "implementation vs Lean model (value + error class) and vs Python int arithmetic (spec)")
    rl = rat_cases(ctx.rng, 3000 if quick else 20000, 3 if quick else 10)
    ctx.diff_stream("bigrat-ops", rl, h, "bigrat", canon=rat_canon, oracle=rat_oracle,
                    nontrivial=lambda c, a: "L" in c, env=env,
                    what="BigRat add/sub/mul/div/neg/simplify/cmp/pow(integer exponents, incl. negative, unreduced and non-canonical) on raw "
                         "(sign, limbs, limbs) through the hooks; vs Lean model and vs Python Fraction arithmetic (spec)")
    cl = cx_cases(ctx.rng, 2500 if quick else 20000, 3 if quick else 8)
    ctx.diff_stream("complex-ops", cl, h, "bigrat", canon=cx_canon, oracle=cx_oracle,
                    nontrivial=lambda c, a: "L" in c, env=env,
                    what="Exact<Complex> add / mul / div on four raw rational parts (zero parts in every representation, conjugate pairs, real-only operands) "
                         "through the hooks; vs the Lean model of complex.rs + the Exact<Real> short-cuts, and vs Gaussian-rational arithmetic in Python (spec)")
    # API level: random Arith trees through fend_core::evaluate
    cases, meta = api_cases(ctx.rng, 1500 if quick else 20000, 5 if quick else 6)
    import time
    t0 = time.time()
    outs = ctx.run_lines_robust(h, ["eval"], cases, env={"HARNESS_LINE_TIMEOUT_S": "20"})
    dist = {}
    for c, m, o in zip(cases, meta, outs):
        if m[0] == "val":
            want = "ok " + exprgen.show_fraction(m[1])
            key = "value"
            if o != want:
                key = "MISMATCH"
                ctx.spec_failures.append({"stream": "api-trees", "input": c, "impl": o, "model": want,
                                          "spec": f"exact value is {exprgen.show_fraction(m[1])} (Python Fraction); an 'approx.' marker or another value is a violation"})
        else:
            key = "error:" + m[1]
            if not (o.startswith("err ") and ALLOWED.get(o[4:]) == m[1]):
                key = "MISMATCH"
                ctx.spec_failures.append({"stream": "api-trees", "input": c, "impl": o, "model": "err " + m[1],
                                          "spec": "only the documented error is admissible here"})
        dist[key] = dist.get(key, 0) + 1
    ctx.record_stream("api-trees", "random expression trees over integer/decimal/recurring/fraction/based literals, + - * / unary minus, integer powers "
                      "(incl. exponents produced by cancelling histories) and complex field operations with real/imag/conjugate, evaluated as "
                      "`E to fraction` through fend_core::evaluate and compared with exact Fraction arithmetic",
                      len(cases), len(set(cases)), dist, cases[:3], time.time() - t0)
    return ctx.finish(rule="operand generator of DESIGN.md section 7 (limbs from {0,1,2^63,2^64-1,random}, leading zero limbs, "
                           "Small/Large forms, 2^(64k)+-1, cancelling histories); op cases are non-trivial when an operand is a "
                           "multi-limb (Large) vector; tree cases: all distinct texts; distinct = distinct case lines")

def replay(ctx, rep):
    h = ctx.harness()
    f = rep["first"]
    case = f["input"]
    st = {"biguint-ops": "biguint", "bigrat-ops": "bigrat", "complex-ops": "bigrat", "api-trees": "eval"}[f.get("stream", "biguint-ops")]
    print("case :", case)
    print("impl :", ctx.run_lines(h, [st], [case])[1])
    if st != "eval":
        print("model:", ctx.run_lines(core.DRIVER, [st], [case])[1])
        print("spec :", nat_oracle.expected(case) if st == "biguint" else rat_expected(case))
    else:
        print("spec :", f.get("model"))
    return 0
