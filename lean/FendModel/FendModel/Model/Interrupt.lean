/-
Model of interruptible evaluation at the level the hosts observe: an evaluation is a trace of events — units of
primitive work, polls of the host's predicate (`test_int`), and stores into the context (`variables.insert`,
which happens only with a completely computed value) — and `test_int` turns the first poll at which the
predicate says "stop" into `Err(Interrupted)`, which every caller propagates with `?`.
-/
namespace Fend.Intr

inductive Ev where
  | work (n : Nat)
  | poll
  | store (x : String) (v : Int)
deriving DecidableEq, Repr

inductive Outcome where
  | finished
  | interrupted
deriving DecidableEq, Repr

abbrev Vars := List (String × Int)

/-- the predicate: says "stop" from its `fireAt`-th call on (calls are numbered from 0) -/
def fires (fireAt : Nat) (call : Nat) : Bool := decide (fireAt ≤ call)

/-- outcome, number of polls made, variables, and the work done AFTER the poll that fired -/
def run (fireAt : Nat) : List Ev → Nat → Vars → Outcome × Nat × Vars × Nat
  | [], polls, vars => (.finished, polls, vars, 0)
  | .work _ :: rest, polls, vars => run fireAt rest polls vars
  | .poll :: rest, polls, vars =>
    if fires fireAt polls then (.interrupted, polls + 1, vars, 0)      -- `test_int` returns Err here; nothing runs after it
    else run fireAt rest (polls + 1) vars
  | .store x v :: rest, polls, vars => run fireAt rest polls ((x, v) :: vars)

def countPolls : List Ev → Nat
  | [] => 0
  | .poll :: r => countPolls r + 1
  | _ :: r => countPolls r

def stores : List Ev → List (String × Int)
  | [] => []
  | .store x v :: r => (x, v) :: stores r
  | _ :: r => stores r

/-- the events before the `k`-th poll (polls numbered from 0) -/
def beforePoll : Nat → List Ev → List Ev
  | _, [] => []
  | 0, .poll :: _ => []
  | k + 1, .poll :: r => .poll :: beforePoll k r
  | k, e :: r => e :: beforePoll k r

/-- largest amount of work between two successive polls (or the ends) -/
def maxGap : List Ev → Nat → Nat → Nat
  | [], cur, best => max cur best
  | .work n :: r, cur, best => maxGap r (cur + n) best
  | .poll :: r, cur, best => maxGap r 0 (max cur best)
  | .store _ _ :: r, cur, best => maxGap r cur best

end Fend.Intr
