/-
C13 — live preview is side-effect free.
-/
import FendModel.Model.Preview
import FendModel.Gen.CallbackSites

namespace Fend.C13
open Fend.Preview

/-- whatever the evaluator does — succeed, fail, get interrupted, assign variables, change
settings — the context after a preview is exactly the context before it -/
theorem preview_restores {V} (eval : Evaluator V) (input : String) (ctx : Ctx V) :
    (evaluatePreview eval input ctx).ctx = ctx := by
  unfold evaluatePreview
  simp only
  split <;> rfl

/-- during a preview no random number is drawn and no exchange rate is requested -/
theorem preview_silent {V} (eval : Evaluator V) (h : CallbacksOnlyViaContext eval)
    (input : String) (ctx : Ctx V) : (evaluatePreview eval input ctx).trace = [] := by
  unfold evaluatePreview
  simp only
  have ht : (eval input { ctx with randomU32 := none, getExchangeRate := none }).trace = [] := by
    apply List.eq_nil_iff_forall_not_mem.mpr
    intro cb hcb
    rcases h input _ cb hcb with ⟨_, h1⟩ | ⟨_, h1⟩ <;> simp at h1
  split <;> exact ht

/-- a preview never returns empty, unit-typed, over-long, echo-only or multi-line text -/
theorem preview_filter {V} (eval : Evaluator V) (input : String) (ctx : Ctx V) (r : String × Bool)
    (h : (evaluatePreview eval input ctx).result = some r) :
    r.1.isEmpty = false ∧ r.2 = false ∧ r.1.utf8ByteSize ≤ 50 ∧
    (r.1.trimAscii.toString == input.trimAscii.toString) = false ∧
    (∀ c ∈ r.1.toList, 32 ≤ c.toNat) := by
  unfold evaluatePreview at h
  simp only at h
  split at h
  · simp at h
  · rename_i r0 _
    unfold filter at h
    split at h
    · simp at h
    · rename_i hc
      injection h with h; subst h
      simp only [Bool.or_eq_true, not_or, Bool.not_eq_true, decide_eq_false_iff_not, Nat.not_lt] at hc
      obtain ⟨⟨⟨⟨h1, h2⟩, h3⟩, h4⟩, h5⟩ := hc
      refine ⟨h1, h2, by simpa using h3, h4, ?_⟩
      intro c hcm
      unfold hasControl at h5
      have := List.any_eq_false.mp h5 c hcm
      simpa using this

/-- Tie A: the only reads of the two callback fields in the evaluator are the two modelled sites
(dice sampling and the currency branch of unit lookup); everything else is the public setters, the
`Debug` impl and the preview function itself. A new read site changes the regenerated table. -/
theorem callback_sites_as_modelled :
    Fend.Gen.callbackReadSites =
      [("core/src/num/dist.rs", "sample", "random_u32"),
       ("core/src/units.rs", "expr_unit", "get_exchange_rate")] := by decide

-- non-vacuity: an evaluator that assigns a variable, flips settings and draws a random number when
-- it can, satisfies the hypothesis of `preview_silent`
example : CallbacksOnlyViaContext (fun (_ : String) (c : Ctx Nat) =>
    { result := some ("5", false), ctx := { c with variables := c.variables + 1, fcMode := !c.fcMode },
      trace := if c.randomU32.isSome then [.rng] else [] }) := by
  intro input c cb hcb
  by_cases h : c.randomU32.isSome
  · simp [h] at hcb; exact Or.inl ⟨hcb, h⟩
  · simp [h] at hcb

end Fend.C13
