import FendModel.Model.Dist

namespace Fend.Dist

theorem prob_insertMerge (parts : Dist) (n p z : Rat) :
    prob (insertMerge parts n p) z = prob parts z + (if n = z then p else 0) := by
  induction parts with
  | nil => simp only [insertMerge, prob]; grind
  | cons kq rest ih =>
    obtain ⟨k, q⟩ := kq
    unfold insertMerge
    by_cases h : k = n
    · subst h
      simp only [if_true, prob]
      by_cases hz : k = z <;> simp [hz] <;> grind
    · simp only [h, if_false, prob, ih]
      grind

theorem total_insertMerge (parts : Dist) (n p : Rat) : total (insertMerge parts n p) = total parts + p := by
  induction parts with
  | nil => simp only [insertMerge, total]; grind
  | cons kq rest ih =>
    obtain ⟨k, q⟩ := kq
    unfold insertMerge
    by_cases h : k = n
    · simp only [h, if_true, total]; grind
    · simp only [h, if_false, total, ih]; grind

theorem prob_bopInner (f : Rat → Rat → Rat) (n1 p1 : Rat) (rhs parts : Dist) (z : Rat) :
    prob (bopInner f n1 p1 rhs parts) z = prob parts z + convInner f n1 p1 rhs z := by
  induction rhs generalizing parts with
  | nil => simp only [bopInner, convInner]; grind
  | cons np rest ih =>
    obtain ⟨n2, p2⟩ := np
    simp only [bopInner, convInner, ih, prob_insertMerge]
    grind

theorem prob_bopOuter (f : Rat → Rat → Rat) (rhs lhs parts : Dist) (z : Rat) :
    prob (bopOuter f rhs lhs parts) z = prob parts z + conv f lhs rhs z := by
  induction lhs generalizing parts with
  | nil => simp only [bopOuter, conv]; grind
  | cons np rest ih =>
    obtain ⟨n1, p1⟩ := np
    simp only [bopOuter, conv, ih, prob_bopInner]
    grind

/-- arithmetic on distributions is the push-forward of the product measure (independent rolls) -/
theorem prob_bop (f : Rat → Rat → Rat) (a b : Dist) (z : Rat) : prob (bop f a b) z = conv f a b z := by
  unfold bop; rw [prob_bopOuter]; simp only [prob]; grind

theorem total_bopInner (f : Rat → Rat → Rat) (n1 p1 : Rat) (rhs parts : Dist) :
    total (bopInner f n1 p1 rhs parts) = total parts + p1 * total rhs := by
  induction rhs generalizing parts with
  | nil => simp only [bopInner, total]; grind
  | cons np rest ih =>
    obtain ⟨n2, p2⟩ := np
    simp only [bopInner, total, ih, total_insertMerge]
    grind

theorem total_bopOuter (f : Rat → Rat → Rat) (rhs lhs parts : Dist) :
    total (bopOuter f rhs lhs parts) = total parts + total lhs * total rhs := by
  induction lhs generalizing parts with
  | nil => simp only [bopOuter, total]; grind
  | cons np rest ih =>
    obtain ⟨n1, p1⟩ := np
    simp only [bopOuter, total, ih, total_bopInner]
    grind

/-- probabilities multiply: if both operands sum to 1, so does the result -/
theorem total_bop (f : Rat → Rat → Rat) (a b : Dist) : total (bop f a b) = total a * total b := by
  unfold bop; rw [total_bopOuter]; simp only [total]; grind

/-- outcomes stay pairwise distinct -/
theorem nodup_insertMerge (parts : Dist) (n p : Rat) (h : (outcomes parts).Nodup) :
    (outcomes (insertMerge parts n p)).Nodup ∧ ∀ x, x ∈ outcomes (insertMerge parts n p) → x = n ∨ x ∈ outcomes parts := by
  induction parts with
  | nil => simp [insertMerge, outcomes]
  | cons kq rest ih =>
    obtain ⟨k, q⟩ := kq
    simp only [outcomes, List.map_cons, List.nodup_cons] at h
    unfold insertMerge
    by_cases hk : k = n
    · simp only [hk, if_true, outcomes, List.map_cons, List.nodup_cons]
      subst hk
      exact ⟨h, fun x hx => by simp at hx; rcases hx with rfl | hx <;> simp_all⟩
    · simp only [hk, if_false, outcomes, List.map_cons, List.nodup_cons]
      obtain ⟨ih1, ih2⟩ := ih h.2
      refine ⟨⟨?_, ih1⟩, ?_⟩
      · intro hm
        rcases ih2 k hm with rfl | hm'
        · exact hk rfl
        · exact h.1 hm'
      · intro x hx
        simp only [List.mem_cons] at hx
        rcases hx with rfl | hx
        · right; simp
        · rcases ih2 x hx with rfl | hx'
          · left; rfl
          · right; simp [outcomes] at hx' ⊢; right; exact hx'

theorem nodup_bopInner (f : Rat → Rat → Rat) (n1 p1 : Rat) (rhs parts : Dist) (h : (outcomes parts).Nodup) :
    (outcomes (bopInner f n1 p1 rhs parts)).Nodup := by
  induction rhs generalizing parts with
  | nil => simpa [bopInner] using h
  | cons np rest ih =>
    obtain ⟨n2, p2⟩ := np
    exact ih _ (nodup_insertMerge parts _ _ h).1

theorem nodup_bopOuter (f : Rat → Rat → Rat) (rhs lhs parts : Dist) (h : (outcomes parts).Nodup) :
    (outcomes (bopOuter f rhs lhs parts)).Nodup := by
  induction lhs generalizing parts with
  | nil => simpa [bopOuter] using h
  | cons np rest ih =>
    obtain ⟨n1, p1⟩ := np
    exact ih _ (nodup_bopInner f n1 p1 rhs parts h)

/-- every outcome is listed once -/
theorem nodup_bop (f : Rat → Rat → Rat) (a b : Dist) : (outcomes (bop f a b)).Nodup :=
  nodup_bopOuter f b a [] (by simp [outcomes])

/-- whatever the random source returns and whatever the threshold function is, `roll` yields one of
the listed outcomes (for a non-empty distribution) -/
theorem sampleLoop_mem (thr : Rat → Nat) (d : Dist) (random : Nat) (res : Option Rat)
    (hres : ∀ r, res = some r → r ∈ outcomes d ∨ True) :
    ∀ r, sampleLoop thr d random res = some r → r ∈ outcomes d ∨ res = some r := by
  induction d generalizing random res with
  | nil => intro r h; simp [sampleLoop] at h; exact Or.inr h
  | cons kp rest ih =>
    obtain ⟨k, p⟩ := kp
    intro r h
    unfold sampleLoop at h
    simp only at h
    split at h
    · injection h with h; subst h; left; simp [outcomes]
    · rcases ih (random - thr p) (some k) (fun _ _ => Or.inr trivial) r h with hm | hm
      · left; simp [outcomes] at hm ⊢; right; exact hm
      · injection hm with hm; subst hm; left; simp [outcomes]

theorem sample_possible (thr : Rat → Nat) (d : Dist) (random : Nat) (r : Rat)
    (h : sample thr d random = some r) : r ∈ outcomes d := by
  unfold sample at h
  split at h
  · injection h with h; subst h; simp [outcomes]
  · rcases sampleLoop_mem thr d random none (fun _ h => by simp at h) r h with hm | hm
    · exact hm
    · simp at hm

theorem sample_total (thr : Rat → Nat) (d : Dist) (random : Nat) (hne : d ≠ []) :
    ∃ r, sample thr d random = some r := by
  unfold sample
  split
  · exact ⟨_, rfl⟩
  · have : ∀ (d : Dist) (random : Nat) (res : Option Rat), (d ≠ [] ∨ res.isSome) → ∃ r, sampleLoop thr d random res = some r := by
      intro d
      induction d with
      | nil => intro random res h; rcases h with h | h; exact absurd rfl h; simp [sampleLoop]; exact Option.isSome_iff_exists.mp h
      | cons kp rest ih =>
        obtain ⟨k, p⟩ := kp
        intro random res _
        unfold sampleLoop
        simp only
        split
        · exact ⟨k, rfl⟩
        · exact ih _ (some k) (Or.inr rfl)
    exact this d random none (Or.inl hne)

end Fend.Dist
