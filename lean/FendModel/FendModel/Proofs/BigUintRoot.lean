/-
`BigUint::root_n` on limb vectors refines the bisection on natural numbers (`Fend.Root.rootNat`, for which C03 proves
"floor of the n-th root, flagged exact iff the radicand is a perfect n-th power"): same value, same exactness flag,
for every limb representation of radicand and index.
-/
import FendModel.Model.Root
import FendModel.Proofs.BigRatPow

namespace Fend
namespace BigUint

theorem log2_shift (V x : Nat) (hV : V ≠ 0) (hx : x < B) : Nat.log2 (x + B * V) = Nat.log2 V + 64 := by
  have hne : x + B * V ≠ 0 := by have : 0 < B * V := Nat.mul_pos B_pos (Nat.pos_of_ne_zero hV); omega
  rw [Nat.log2_eq_iff hne]
  have h1 := Nat.log2_self_le hV
  have h2 := @Nat.lt_log2_self V
  have hB : B = 2 ^ 64 := by decide
  constructor
  · rw [Nat.pow_add, hB, Nat.mul_comm (2 ^ V.log2)]
    calc 2 ^ 64 * 2 ^ V.log2 ≤ 2 ^ 64 * V := Nat.mul_le_mul_left _ h1
      _ ≤ x + 2 ^ 64 * V := Nat.le_add_left _ _
  · rw [show V.log2 + 64 + 1 = 64 + (V.log2 + 1) by omega, Nat.pow_add, hB]
    have : V + 1 ≤ 2 ^ (V.log2 + 1) := h2
    calc x + 2 ^ 64 * V < 2 ^ 64 + 2 ^ 64 * V := by rw [hB] at hx; omega
      _ = 2 ^ 64 * (V + 1) := by ring
      _ ≤ 2 ^ 64 * 2 ^ (V.log2 + 1) := Nat.mul_le_mul_left _ this

theorem bitsGo_val (v : List Nat) (hw : WFL v) (i acc : Nat) :
    bits.go v i acc = if valL v = 0 then acc else Nat.log2 (valL v) + 1 + i * 64 := by
  induction v generalizing i acc with
  | nil => simp [bits.go, valL]
  | cons x xs ih =>
    have hx : x < B := hw x (by simp)
    have hxs : WFL xs := fun y hy => hw y (by simp [hy])
    simp only [bits.go, valL]
    rw [ih hxs]
    by_cases hV : valL xs = 0
    · simp only [hV, if_true, Nat.mul_zero, Nat.add_zero]
      by_cases h0 : x = 0
      · simp [h0]
      · simp [h0]
    · have hne : x + B * valL xs ≠ 0 := by
        have : 0 < B * valL xs := Nat.mul_pos B_pos (Nat.pos_of_ne_zero hV); omega
      simp only [hV, if_false, hne]
      rw [log2_shift _ _ hV hx]; ring

theorem bits_val (a : BigUint) (ha : a.WF) (h0 : val a ≠ 0) : bits a = some (Nat.log2 (val a) + 1) := by
  cases a with
  | small n => simp only [bits, val] at *; simp [h0]
  | large v =>
    have hw : WFL v := by simpa [WF, WFL] using ha
    simp only [bits, val] at *
    rw [bitsGo_val v hw]; simp [h0]

/-- the bisection loop on limb vectors follows the loop on natural numbers step for step -/
theorem rootLoop_refines (self n : BigUint) (hs : self.WF) (hn : n.WF) (hn1 : 1 ≤ val n) (hnB : val n < B) (fuel : Nat) :
    ∀ low high : BigUint, low.WF → high.WF → val low ≤ val high →
      match Root.rootLoop (val self) (val n) fuel (val low) (val high) with
      | some (g, e) => ∃ gb, rootLoop self n fuel low high = .ok (gb, e) ∧ val gb = g ∧ gb.WF
      | none => rootLoop self n fuel low high = .error .other := by
  induction fuel with
  | zero => intro low high _ _ _; simp [Root.rootLoop, rootLoop]
  | succ f ih =>
    intro low high hl hh hle
    have w1 : (small 1).WF := by show 1 < B; decide
    obtain ⟨hgv, hgw⟩ := rshift_val (add low high) (add_WF low high hl hh)
    rw [add_val] at hgv
    obtain ⟨_, _, p3⟩ := pow_spec (rshift (add low high)) n hgw hn
    obtain ⟨res, hres, hresv, hresw⟩ := p3 (fun h => by omega) (Or.inr hnB)
    rw [hgv] at hresv
    have hcmp := cmp_val res self hresw hs
    rw [hresv] at hcmp
    unfold Root.rootLoop rootLoop
    simp only [hres, hcmp]
    have hgl : val low ≤ (val low + val high) / 2 := by omega
    have hgh : (val low + val high) / 2 ≤ val high := by omega
    rcases Nat.lt_trichotomy (((val low + val high) / 2) ^ val n) (val self) with hlt | heq | hgt
    · rw [Nat.compare_eq_lt.mpr hlt]
      have hne : ¬ ((val low + val high) / 2) ^ val n = val self := by omega
      have hng : ¬ ((val low + val high) / 2) ^ val n > val self := by omega
      simp only [hne, hng, if_false]
      obtain ⟨d, hd, hdv, hdw⟩ := sub_val high (rshift (add low high)) hh hgw (by rw [hgv]; exact hgh)
      rw [hgv] at hdv
      simp only [hd]
      by_cases hd1 : val high - (val low + val high) / 2 ≤ 1
      · have : ble d (small 1) = true := (ble_iff d _ hdw w1).mpr (by rw [hdv]; exact hd1)
        simp only [this, hd1, if_true]
        exact ⟨_, rfl, hgv, hgw⟩
      · have : ble d (small 1) = false := by
          cases hb : ble d (small 1) with
          | false => rfl
          | true => exact absurd (by rw [← hdv]; exact (ble_iff d _ hdw w1).mp hb) hd1
        simp only [this, hd1, if_false, Bool.false_eq_true]
        have := ih (rshift (add low high)) high hgw hh (by rw [hgv]; exact hgh)
        rw [hgv] at this
        exact this
    · rw [Nat.compare_eq_eq.mpr heq]
      simp only [heq, if_true]
      exact ⟨_, rfl, hgv, hgw⟩
    · rw [Nat.compare_eq_gt.mpr hgt]
      have hne : ¬ ((val low + val high) / 2) ^ val n = val self := by omega
      simp only [hne, hgt, if_false, if_true]
      obtain ⟨d, hd, hdv, hdw⟩ := sub_val (rshift (add low high)) low hgw hl (by rw [hgv]; exact hgl)
      rw [hgv] at hdv
      simp only [hd]
      by_cases hd1 : (val low + val high) / 2 - val low ≤ 1
      · have : ble d (small 1) = true := (ble_iff d _ hdw w1).mpr (by rw [hdv]; exact hd1)
        simp only [this, hd1, if_true]
        exact ⟨low, rfl, rfl, hl⟩
      · have : ble d (small 1) = false := by
          cases hb : ble d (small 1) with
          | false => rfl
          | true => exact absurd (by rw [← hdv]; exact (ble_iff d _ hdw w1).mp hb) hd1
        simp only [this, hd1, if_false, Bool.false_eq_true]
        have := ih low (rshift (add low high)) hl hgw (by rw [hgv]; exact hgl)
        rw [hgv] at this
        exact this

/-- **`BigUint::root_n` = the bisection on natural numbers**, for an index `1 ≤ n < 2^64` -/
theorem rootN_refines (self n : BigUint) (hs : self.WF) (hn : n.WF) (hn1 : 1 ≤ val n) (hnB : val n < B) :
    match Root.rootNat (val self) (val n) with
    | some (g, e) => ∃ gb, rootN self n = .ok (gb, e) ∧ val gb = g ∧ gb.WF
    | none => rootN self n = .error .other := by
  have w0 : (small 0).WF := B_pos
  have w1 : (small 1).WF := by show 1 < B; decide
  have b0 : beq self (small 0) = true ↔ val self = 0 := beq_iff self _ hs w0
  have b1 : beq self (small 1) = true ↔ val self = 1 := beq_iff self _ hs w1
  have bn : beq n (small 1) = true ↔ val n = 1 := beq_iff n _ hn w1
  unfold Root.rootNat rootN
  by_cases hc : val self = 0 ∨ val self = 1 ∨ val n = 1
  · have : (beq self (small 0) || beq self (small 1) || beq n (small 1)) = true := by
      rcases hc with h | h | h
      · simp [b0.mpr h]
      · simp [b1.mpr h]
      · simp [bn.mpr h]
    simp only [hc, this, if_true]
    exact ⟨self, rfl, rfl, hs⟩
  · have h0 : val self ≠ 0 := fun h => hc (Or.inl h)
    have hb : (beq self (small 0) || beq self (small 1) || beq n (small 1)) = false := by
      have e0 : beq self (small 0) = false := by
        cases h : beq self (small 0) with | false => rfl | true => exact absurd (Or.inl (b0.mp h)) hc
      have e1 : beq self (small 1) = false := by
        cases h : beq self (small 1) with | false => rfl | true => exact absurd (Or.inr (Or.inl (b1.mp h))) hc
      have e2 : beq n (small 1) = false := by
        cases h : beq n (small 1) with | false => rfl | true => exact absurd (Or.inr (Or.inr (bn.mp h))) hc
      simp [e0, e1, e2]
    have hfit : n.fitsU64 = true := (fits_iff n hn).mpr hnB
    have hg0 : n.get 0 = val n := get0_of_fits n hfit
    have hgne : ¬ n.get 0 = 0 := by rw [hg0]; omega
    simp only [hc, hb, if_false, Bool.false_eq_true, hfit, Bool.not_true, bits_val self hs h0, hg0]
    obtain ⟨high, hhigh, hhv, hhw⟩ := lshiftN_val (small 1) (small ((Nat.log2 (val self) + 1) / val n + 1 + 1)) w1 (by simp [limbs]) rfl
    simp only [hhigh]
    have h1v : val (small 1) = 1 := rfl
    have hkv : val (small ((Nat.log2 (val self) + 1) / val n + 1 + 1)) = (Nat.log2 (val self) + 1) / val n + 1 + 1 := rfl
    rw [h1v, hkv, Nat.one_mul] at hhv
    have := rootLoop_refines self n hs hn hn1 hnB ((Nat.log2 (val self) + 1) / val n + 1 + 4) (small 1) high w1 hhw
      (by rw [h1v, hhv]; exact Nat.one_le_two_pow)
    rw [h1v, hhv] at this
    have hn0 : ¬ val n = 0 := by omega
    simp only [hn0, if_false]
    exact this

end BigUint
end Fend
