/-
`BigRat::root_n` (integer roots of numerator and denominator by `BigUint::root_n`, 50 bisection steps of `iter_root_n` for the
part that does not come out) refines `Fend.Root.ratRoot` on the denoted values: same value, same exactness flag.
-/
import FendModel.Proofs.BigUintRoot
import FendModel.Proofs.Complex

namespace Fend
namespace BigRat
open BigUint Cx

theorem ofUint_ok (a : BigUint) (ha : a.WF) : OKQ (ofUint a) :=
  ⟨⟨ha, by show 1 < B; decide⟩, by show (1 : Nat) ≠ 0; decide⟩

theorem valQ_ofUint (a : BigUint) : valQ (ofUint a) = (val a : Nat) := by
  show (if false = true then -1 else 1) * ((val a : Nat) : Rat) / ((1 : Nat) : Rat) = _
  simp

theorem intExp_ofUint (a : BigUint) : IntExp (ofUint a) ∧ expN (ofUint a) = val a :=
  ⟨⟨by show (1 : Nat) ≠ 0; decide, by show (1 : Nat) ∣ val a; exact Nat.one_dvd _⟩, by show val a / 1 = val a; simp⟩

/-- the 50-step bisection of `iter_root_n`, step for step -/
theorem iterGo_refines (f : Nat) (v nn : BigUint) (hv : v.WF) (hnn : nn.WF) (hn1 : 1 ≤ val nn) (hnB : val nn < B) (k : Nat) :
    ∀ lo hi : BigRat, OKQ lo → OKQ hi →
      ∃ lo' hi', iterRootN.go (pow (f + 1)) (ofUint v) (ofUint nn) k lo hi = .ok (lo', hi') ∧ OKQ lo' ∧ OKQ hi' ∧
        (valQ lo', valQ hi') = Root.iterLoop ((val v : Nat) : Rat) (val nn) k (valQ lo) (valQ hi) := by
  induction k with
  | zero => intro lo hi hlo hhi; exact ⟨lo, hi, rfl, hlo, hhi, rfl⟩
  | succ k ih =>
    intro lo hi hlo hhi
    obtain ⟨s, hs, hsv, hsw, hsd⟩ := add_valQ lo hi hlo.1 hhi.1 hlo.2 hhi.2
    have h2 : OKQ (ofNat64 2) := ofNat64_ok 2 (by decide)
    have h2v : valQ (ofNat64 2) = 2 := by rw [valQ_ofNat64]; norm_num
    obtain ⟨_, dq⟩ := rdiv_val s (ofNat64 2) ⟨hsw, hsd⟩ h2
    -- `div s 2` directly (not through the Real short-cuts)
    have hz2 : numIsZero (ofNat64 2) = false := by
      cases h : numIsZero (ofNat64 2) with
      | false => rfl
      | true => exact absurd ((numIsZero_iff (ofNat64 2) h2.1.1).mp h) (by show (2 : Nat) ≠ 0; decide)
    obtain ⟨g, hg, hgv⟩ := (div_valQ s (ofNat64 2) h2.1.1).2 hz2
    have hgt : g = ⟨signOfProduct s.neg false, BigUint.mul s.num (small 1), BigUint.mul s.den (small 2)⟩ := by
      simp [BigRat.div, hz2] at hg; exact hg.symm
    have hgo : OKQ g := by
      rw [hgt]
      refine ⟨⟨mul_WF _ _ hsw.1 (by show 1 < B; decide), mul_WF _ _ hsw.2 (by show 2 < B; decide)⟩, ?_⟩
      show val (BigUint.mul s.den (small 2)) ≠ 0
      rw [BigUint.mul_val]; exact Nat.mul_ne_zero hsd (by show (2 : Nat) ≠ 0; decide)
    have hgval : valQ g = (valQ lo + valQ hi) / 2 := by rw [hgv h2.2, hsv, h2v]
    obtain ⟨ie, ien⟩ := intExp_ofUint nn
    obtain ⟨_, _, p3⟩ := pow_nonneg_int f g (ofUint nn) hgo.1 hgo.2 (ofUint_ok nn hnn).1 ie rfl
    rw [ien] at p3
    obtain ⟨p, hp, hpv, hpw, hpd, _⟩ := p3 (fun h => by omega) hnB
    have hcmp := cmp_valQ p (ofUint v) hpw (ofUint_ok v hv).1 hpd (ofUint_ok v hv).2
    rw [hpv, valQ_ofUint, hgval] at hcmp
    have hcd : cmpD p (ofUint v) = compare (((valQ lo + valQ hi) / 2) ^ val nn) ((val v : Nat) : Rat) := by simp [cmpD, hcmp]
    simp only [iterRootN.go, hs, hg, hp, bind, Except.bind, hcd, Root.iterLoop]
    by_cases hlt : ((valQ lo + valQ hi) / 2) ^ val nn < ((val v : Nat) : Rat)
    · rw [compare_lt_iff_lt.mpr hlt]
      simp only [hlt, if_true]
      obtain ⟨lo', hi', h, o1, o2, hv'⟩ := ih g hi hgo hhi
      rw [hgval] at hv'
      exact ⟨lo', hi', by simpa using h, o1, o2, hv'⟩
    · have hne : (compare (((valQ lo + valQ hi) / 2) ^ val nn) ((val v : Nat) : Rat) == Ordering.lt) = false := by
        cases hc : compare (((valQ lo + valQ hi) / 2) ^ val nn) ((val v : Nat) : Rat) with
        | lt => exact absurd (compare_lt_iff_lt.mp hc) hlt
        | eq => rfl
        | gt => rfl
      simp only [hne, hlt, if_false, Bool.false_eq_true]
      obtain ⟨lo', hi', h, o1, o2, hv'⟩ := ih lo g hlo hgo
      rw [hgval] at hv'
      exact ⟨lo', hi', by simpa using h, o1, o2, hv'⟩

theorem iterRootN_refines (f : Nat) (low v nn : BigUint) (hl : low.WF) (hv : v.WF) (hnn : nn.WF) (hn1 : 1 ≤ val nn) (hnB : val nn < B) :
    ∃ q, iterRootN (pow (f + 1)) (ofUint low) (ofUint v) (ofUint nn) = .ok q ∧ OKQ q ∧
      valQ q = Root.iterRoot (val low) (val v) (val nn) := by
  have h1 : OKQ (ofNat64 1) := ofNat64_ok 1 (by decide)
  have hlo := ofUint_ok low hl
  obtain ⟨high, hh, hhv, hhw, hhd⟩ := add_valQ (ofUint low) (ofNat64 1) hlo.1 h1.1 hlo.2 h1.2
  obtain ⟨lo', hi', hgo, o1, o2, hvals⟩ := iterGo_refines f v nn hv hnn hn1 hnB 50 (ofUint low) high hlo ⟨hhw, hhd⟩
  obtain ⟨s, hs, hsv, hsw, hsd⟩ := add_valQ lo' hi' o1.1 o2.1 o1.2 o2.2
  have h2 : OKQ (ofNat64 2) := ofNat64_ok 2 (by decide)
  have h2v : valQ (ofNat64 2) = 2 := by rw [valQ_ofNat64]; norm_num
  have hz2 : numIsZero (ofNat64 2) = false := by
    cases h : numIsZero (ofNat64 2) with
    | false => rfl
    | true => exact absurd ((numIsZero_iff (ofNat64 2) h2.1.1).mp h) (by show (2 : Nat) ≠ 0; decide)
  obtain ⟨g, hg, hgv⟩ := (div_valQ s (ofNat64 2) h2.1.1).2 hz2
  have hgt : g = ⟨signOfProduct s.neg false, BigUint.mul s.num (small 1), BigUint.mul s.den (small 2)⟩ := by
    simp [BigRat.div, hz2] at hg; exact hg.symm
  have hgo' : OKQ g := by
    rw [hgt]
    refine ⟨⟨mul_WF _ _ hsw.1 (by show 1 < B; decide), mul_WF _ _ hsw.2 (by show 2 < B; decide)⟩, ?_⟩
    show val (BigUint.mul s.den (small 2)) ≠ 0
    rw [BigUint.mul_val]; exact Nat.mul_ne_zero hsd (by show (2 : Nat) ≠ 0; decide)
  refine ⟨g, ?_, hgo', ?_⟩
  · simp only [iterRootN, hh, bind, Except.bind, hgo, hs, hg]
  · rw [hgv h2.2, hsv, h2v]
    have e1 : valQ lo' = (Root.iterLoop ((val v : Nat) : Rat) (val nn) 50 (valQ (ofUint low)) (valQ high)).1 := congrArg Prod.fst hvals
    have e2 : valQ hi' = (Root.iterLoop ((val v : Nat) : Rat) (val nn) 50 (valQ (ofUint low)) (valQ high)).2 := congrArg Prod.snd hvals
    rw [e1, e2, hhv, valQ_ofUint, valQ_ofNat64]
    simp [Root.iterRoot]

theorem iterLoop_bounds (v : Rat) (n k : Nat) (low high : Rat) (h : low < high) :
    low ≤ (Root.iterLoop v n k low high).1 ∧ (Root.iterLoop v n k low high).1 < (Root.iterLoop v n k low high).2 := by
  induction k generalizing low high with
  | zero => simp [Root.iterLoop, h]
  | succ k ih =>
    simp only [Root.iterLoop]
    split
    · obtain ⟨a, b⟩ := ih ((low + high) / 2) high (by linarith)
      exact ⟨by linarith, b⟩
    · exact ih low ((low + high) / 2) (by linarith)

theorem iterRoot_pos (low v n : Nat) : 0 < Root.iterRoot low v n := by
  obtain ⟨a, b⟩ := iterLoop_bounds (v : Rat) n 50 (low : Rat) ((low : Rat) + 1) (by linarith)
  have h0 : (0 : Rat) ≤ (low : Rat) := by exact_mod_cast Nat.zero_le low
  simp only [Root.iterRoot]
  linarith

end BigRat
end Fend
