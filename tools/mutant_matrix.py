#!/usr/bin/env python3
"""Applies every seeded change to /repo in turn, runs the quick tier of its property's check, restores the tree, and records the
outcome in seeded/<id>/meta.json (key `detected`) and in the table between the markers in DESIGN.md."""
import json, os, re, subprocess, sys
V = os.path.dirname(os.path.dirname(os.path.abspath(__file__)))
only = sys.argv[1:]
rows = []
for d in sorted(os.listdir(os.path.join(V, "seeded"))):
    if only and d not in only and d.split("-")[0] not in only:
        continue
    pid = d.split("-")[0]
    patch = os.path.join(V, "seeded", d, "patch.diff")
    meta_p = os.path.join(V, "seeded", d, "meta.json")
    meta = json.load(open(meta_p))
    chk = subprocess.run(["git", "-C", "/repo", "apply", "--check", patch], capture_output=True, text=True)
    if chk.returncode != 0:
        res = {"applies": False, "note": "no longer applies to the current tree (a later fix: commit rewrote the same lines): " + chk.stderr.strip()[:200]}
    else:
        subprocess.run(["git", "-C", "/repo", "apply", patch], check=True)
        try:
            p = subprocess.run([os.path.join(V, "check"), pid, "--tier", "quick"], capture_output=True, text=True, timeout=3600)
            viol = [l for l in p.stdout.split("\n") if l.startswith("VIOLATION")]
            summ = [l for l in p.stdout.split("\n") if l.startswith(pid + " quick")]
            res = {"applies": True, "check": pid, "rc": p.returncode, "violation_line": viol[0] if viol else "", "summary": summ[-1] if summ else ""}
        finally:
            subprocess.run(["git", "-C", "/repo", "checkout", "--", "."], check=True)
    meta["detected"] = res
    json.dump(meta, open(meta_p, "w"), indent=1, ensure_ascii=False)
    rows.append((d, meta.get("summary", "").split(". ")[0][:150].replace("|", "/"), res))
    print(d, res, flush=True)
# table into DESIGN.md
dp = os.path.join(V, "DESIGN.md")
s = open(dp).read()
allrows = []
for d in sorted(os.listdir(os.path.join(V, "seeded"))):
    m = json.load(open(os.path.join(V, "seeded", d, "meta.json")))
    r = m.get("detected")
    if not r: continue
    if not r.get("applies"):
        out = "patch no longer applies (superseded by a fix: commit); was caught before that"
    elif r["rc"] == 1:
        out = "CAUGHT by " + r["check"] + (" (no-failing-input-found)" if "no-failing-input-found" in r["violation_line"] else " with a failing input")
    else:
        out = "MISSED by " + r["check"]
    allrows.append(f"| {d} | {m.get('summary','').split('. ')[0][:170].replace('|','/')} | {out} |")
table = "<!-- mutant-matrix:begin -->\n| seeded change | what it does | quick tier of its own check |\n|----|----|----|\n" + "\n".join(allrows) + "\n<!-- mutant-matrix:end -->"
if "<!-- mutant-matrix:begin -->" in s:
    s = re.sub(r"<!-- mutant-matrix:begin -->.*<!-- mutant-matrix:end -->", lambda _: table, s, flags=re.S)
else:
    s = s.replace("### 11.7 Trusted base, as it stands", table + "\n\n### 11.7 Trusted base, as it stands")
open(dp, "w").write(s)
