//! Stream `preview` (C13): `comma=0 cf=0 rng=1 xr=1 custom=1 || setup ;; setup ... || input`
//! Builds context A from the flags + setup, snapshots it, previews every prefix of `input` under several
//! interrupt schedules, and reports: whether anything observable changed, how often the host callbacks
//! were invoked during previews, and (raw result on an equivalent handler-less context, preview result)
//! pairs for the driver's filter model.
use crate::common::*;
use crate::s_text::show_cps;
use fend_core::{Context, CustomUnitAttribute, DecimalSeparatorStyle};
use std::sync::atomic::{AtomicU64, Ordering};

static RNG_CALLS: AtomicU64 = AtomicU64::new(0);
static XR_CALLS: AtomicU64 = AtomicU64::new(0);

fn rng() -> u32 {
    RNG_CALLS.fetch_add(1, Ordering::SeqCst);
    7
}

struct Xr(bool);
impl fend_core::ExchangeRateFn for Xr {
    fn relative_to_base_currency(&self, currency: &str) -> Result<f64, Box<dyn std::error::Error + Send + Sync + 'static>> {
        XR_CALLS.fetch_add(1, Ordering::SeqCst);
        if self.0 {
            return Err("no rates today".into());
        }
        Ok(match currency {
            "EUR" => 1.0,
            "USD" => 1.25,
            _ => 2.0,
        })
    }
}

fn build(flags: &[(&str, &str)], setup: &str, with_handlers: bool) -> Context {
    let mut c = Context::new();
    for (k, v) in flags {
        match (*k, *v) {
            ("comma", "1") => c.set_decimal_separator_style(DecimalSeparatorStyle::Comma),
            ("cf", "1") => c.use_coulomb_and_farad(),
            ("term", "1") => c.set_output_mode_terminal(),
            ("rng", "1") if with_handlers => c.set_random_u32_fn(rng),
            ("xr", "1") if with_handlers => c.set_exchange_rate_handler_v1(Xr(false)),
            ("xr", "2") if with_handlers => c.set_exchange_rate_handler_v1(Xr(true)),
            ("custom", "1") => {
                c.define_custom_unit_v1("florp", "florps", "3 kg", &CustomUnitAttribute::None);
                c.define_custom_unit_v1("zib", "zibs", "!", &CustomUnitAttribute::AllowLongPrefix);
            }
            _ => {}
        }
    }
    let int = Counting::never();
    if !setup.trim().is_empty() {
        for s in setup.split(" ;; ") {
            let _ = guarded(|| fend_core::evaluate_with_interrupt(s, &mut c, &int));
        }
    }
    c
}

fn probe(c: &Context) -> String {
    // observable state: saved variables + behaviour of settings + handlers still installed
    let mut img = Vec::new();
    let _ = c.serialize_variables(&mut img);
    // variables are a hash map: order-independent digest = sorted probes of a fixed name set instead of raw bytes
    let int = Counting::never();
    let mut out = vec![format!("n={}", img.len())];
    for p in ["_", "ans", "a", "b", "f", "x", "1,5 + 1", "1.5 + 1", "1 C + 1 coulomb", "1 florp to kg", "1 kilozib to zib", "f 2", "a + 1", "d2"] {
        let mut cc = c.clone();
        let r = guarded(|| fend_core::evaluate_with_interrupt(p, &mut cc, &int));
        out.push(match r {
            Ok(Ok(v)) => format!("ok {}", v.get_main_result()),
            Ok(Err(e)) => format!("err {e}"),
            Err(p) => format!("panic {p}"),
        });
    }
    out.join("\u{1}").replace(['\n', '\t'], " ")
}

fn handlers_probe(c: &Context) -> String {
    let int = Counting::never();
    let mut out = vec![];
    for p in ["roll d6", "1 USD to EUR"] {
        let mut cc = c.clone();
        out.push(match guarded(|| fend_core::evaluate_with_interrupt(p, &mut cc, &int)) {
            Ok(Ok(v)) => format!("ok {}", v.get_main_result()),
            Ok(Err(e)) => format!("err {e}"),
            Err(p) => format!("panic {p}"),
        });
    }
    out.join("\u{1}")
}

pub fn line(l: &str) -> String {
    let parts: Vec<&str> = l.splitn(3, " || ").collect();
    if parts.len() != 3 {
        return "bad-op".into();
    }
    let flags: Vec<(&str, &str)> = parts[0].split(' ').filter_map(|kv| kv.split_once('=')).collect();
    let (setup, input) = (parts[1], parts[2]);
    let mut a = build(&flags, setup, true);
    let b = build(&flags, setup, false);
    let before = probe(&a);
    let handlers_before = handlers_probe(&a);
    let (r0, x0) = (RNG_CALLS.load(Ordering::SeqCst), XR_CALLS.load(Ordering::SeqCst));
    let mut pairs = Vec::new();
    let mut panics = Vec::new();
    let mut prefixes: Vec<&str> = input.char_indices().map(|(i, _)| &input[..i]).collect();
    prefixes.push(input);
    for pre in prefixes {
        // never-interrupted preview, compared with the raw evaluation on the handler-less twin
        let int = Counting::never();
        let pv = guarded(|| fend_core::evaluate_preview_with_interrupt(pre, &mut a, &int));
        let mut bb = b.clone();
        let raw = guarded(|| fend_core::evaluate_with_interrupt(pre, &mut bb, &int));
        let raw_s = match raw {
            Ok(Ok(v)) => format!("O:{}:{}", u8::from(v.is_unit_type()), show_cps(v.get_main_result())),
            Ok(Err(_)) => "E".to_string(),
            Err(p) => { panics.push(format!("eval `{pre}`: {p}")); "E".to_string() }
        };
        let pv_s = match pv {
            Ok(r) => format!("{}{}", if r.is_unit_type() { "U" } else { "" }, show_cps(r.get_main_result())),
            Err(p) => { panics.push(format!("preview `{pre}`: {p}")); String::new() }
        };
        pairs.push(format!("{}|{}|{}", show_cps(pre), raw_s, pv_s));
        // interrupted previews: the predicate turns true at its k-th call
        for k in [0u64, 1, 3, 17, 200] {
            let int = Counting::at(k);
            if let Err(p) = guarded(|| fend_core::evaluate_preview_with_interrupt(pre, &mut a, &int)) {
                panics.push(format!("preview@{k} `{pre}`: {p}"));
            }
        }
    }
    let (r1, x1) = (RNG_CALLS.load(Ordering::SeqCst), XR_CALLS.load(Ordering::SeqCst));
    let after = probe(&a);
    let handlers_after = handlers_probe(&a);
    format!(
        "state={}\thandlers={}\tcalls={}\tpanics={}\tpairs={}",
        if before == after { "same".to_string() } else { format!("DIFF before=[{before}] after=[{after}]") },
        if handlers_before == handlers_after { format!("same [{}]", handlers_after.replace('\u{1}', " / ")) } else { format!("DIFF [{handlers_before}] -> [{handlers_after}]") },
        (r1 - r0) + (x1 - x0),
        if panics.is_empty() { "none".to_string() } else { panics.join(" ;; ").replace(['\n', '\t'], " ") },
        pairs.join(";")
    )
}
