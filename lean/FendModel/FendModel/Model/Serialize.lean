/-
Model of the variable serialization format (`Context::{serialize,deserialize}_variables` and every
`serialize`/`deserialize` pair underneath: serialize.rs, value.rs, ast.rs, scope.rs, ident.rs,
built_in_function.rs, num/{biguint,bigrat,real,complex,dist,unit,base,formatting_style}.rs,
num/unit/{named_unit,unit_exponent,base_unit}.rs, date*.rs).

Bytes are `Nat`s (< 256 for everything `ser` emits).  `u64`/`usize` are 8 big-endian bytes, `i32` 4,
`bool` one byte 0/1, strings are length + UTF-8 bytes, options are a presence flag.
Deserializers are functions `Bytes → Except DErr (α × Bytes)` (the unread rest is returned);
`DErr.eof` is the `IoError` of a short read, `DErr.bad` is `DeserializationError`.
`alloc` events (C14) are modelled in `Model/SerializeCost.lean`.
-/
import FendModel.Model.BigRat

namespace Fend.Ser

abbrev Bytes := List Nat

inductive DErr where
  | eof | bad
deriving DecidableEq, Repr

/-- a deserializer -/
abbrev D (α : Type) := Bytes → Except DErr (α × Bytes)

@[inline] def D.pure {α} (a : α) : D α := fun bs => .ok (a, bs)
@[inline] def D.bind {α β} (d : D α) (f : α → D β) : D β := fun bs =>
  match d bs with
  | .error e => .error e
  | .ok (a, r) => f a r
instance : Monad D where
  pure := D.pure
  bind := D.bind
def D.fail {α} (e : DErr) : D α := fun _ => .error e

/-- sequencing: run `f` on the value and the unread rest of a successful read -/
@[inline] def andThen {α β} (r : Except DErr (α × Bytes)) (f : α → Bytes → Except DErr (β × Bytes)) :
    Except DErr (β × Bytes) :=
  match r with
  | .error e => .error e
  | .ok (a, bs) => f a bs

/-! ### primitives (serialize.rs) -/

def serU8 (n : Nat) : Bytes := [n]
def serU64 (n : Nat) : Bytes :=
  [n / 72057594037927936 % 256, n / 281474976710656 % 256, n / 1099511627776 % 256,
   n / 4294967296 % 256, n / 16777216 % 256, n / 65536 % 256, n / 256 % 256, n % 256]
def serBool (b : Bool) : Bytes := [if b then 1 else 0]
/-- two's complement, big endian -/
def serI32 (i : Int) : Bytes :=
  let n := (i % 4294967296).toNat
  [n / 16777216 % 256, n / 65536 % 256, n / 256 % 256, n % 256]

def deU8 : D Nat
  | [] => .error .eof
  | b :: r => .ok (b, r)

def deU64 : D Nat
  | a :: b :: c :: d :: e :: f :: g :: h :: r =>
    .ok (a * 72057594037927936 + b * 281474976710656 + c * 1099511627776 + d * 4294967296
         + e * 16777216 + f * 65536 + g * 256 + h, r)
  | _ => .error .eof

def deBool : D Bool
  | [] => .error .eof
  | b :: r => if b = 0 then .ok (false, r) else if b = 1 then .ok (true, r) else .error .bad

def deI32 : D Int
  | a :: b :: c :: d :: r =>
    let n := a * 16777216 + b * 65536 + c * 256 + d
    .ok (if n ≥ 2147483648 then (n : Int) - 4294967296 else (n : Int), r)
  | _ => .error .eof

/-- `for _ in 0..n { v.push(T::deserialize(read)?) }` -/
def deListN {α} (d : D α) : Nat → D (List α)
  | 0 => D.pure []
  | n + 1 => fun bs =>
    match d bs with
    | .error e => .error e
    | .ok (a, r) =>
      match deListN d n r with
      | .error e => .error e
      | .ok (as, r') => .ok (a :: as, r')

/-- length-prefixed sequence -/
def serList {α} (f : α → Bytes) (l : List α) : Bytes := serU64 l.length ++ l.flatMap f
def deList {α} (d : D α) : D (List α) := fun bs =>
  andThen (deU64 bs) fun n bs => deListN d n bs

/-! ### UTF-8 validation (`String::from_utf8`), Unicode Table 3-7 -/

def isCont (b : Nat) : Bool := 128 ≤ b && b ≤ 191

def validUtf8 : Bytes → Bool
  | [] => true
  | b :: rest =>
    if b ≤ 127 then validUtf8 rest
    else if 194 ≤ b && b ≤ 223 then
      match rest with
      | c :: rest => isCont c && validUtf8 rest
      | _ => false
    else if 224 ≤ b && b ≤ 239 then
      match rest with
      | c :: d :: rest =>
        (if b = 224 then 160 ≤ c && c ≤ 191 else if b = 237 then 128 ≤ c && c ≤ 159 else isCont c)
          && isCont d && validUtf8 rest
      | _ => false
    else if 240 ≤ b && b ≤ 244 then
      match rest with
      | c :: d :: e :: rest =>
        (if b = 240 then 144 ≤ c && c ≤ 191 else if b = 244 then 128 ≤ c && c ≤ 143 else isCont c)
          && isCont d && isCont e && validUtf8 rest
      | _ => false
    else false

abbrev Str := Bytes

def serStr (s : Str) : Bytes := serU64 s.length ++ s
def deStr : D Str := fun bs =>
  andThen (deU64 bs) fun n bs =>
  andThen (deListN deU8 n bs) fun s bs =>
  if validUtf8 s then .ok (s, bs) else .error .bad

/-! ### numbers -/

def serUint : BigUint → Bytes
  | .small n => [1] ++ serU64 n
  | .large v => [2] ++ serU64 v.length ++ v.flatMap serU64

def deUint : D BigUint := fun bs =>
  andThen (deU8 bs) fun k bs =>
  if k = 1 then andThen (deU64 bs) fun n bs => .ok (.small n, bs)
  else if k = 2 then
    andThen (deU64 bs) fun len bs =>
    if len = 0 then .error .bad else
    andThen (deListN deU64 len bs) fun v bs => .ok (.large v, bs)
  else .error .bad

/-- `den == 0.into()`: value comparison, whatever the representation -/
def isZeroU : BigUint → Bool
  | .small n => n == 0
  | .large v => v.all (· == 0)

def serRat (q : BigRat) : Bytes := [if q.neg then 1 else 2] ++ serUint q.num ++ serUint q.den
def deRat : D BigRat := fun bs =>
  andThen (deU8 bs) fun s bs =>
  if s ≠ 1 ∧ s ≠ 2 then .error .bad else
  andThen (deUint bs) fun n bs =>
  andThen (deUint bs) fun d bs => if isZeroU d then .error .bad else .ok (⟨s = 1, n, d⟩, bs)

inductive Real where
  | simple (q : BigRat) | pi (q : BigRat)
deriving DecidableEq, Repr, Inhabited

def serReal : Real → Bytes
  | .simple q => [1] ++ serRat q
  | .pi q => [2] ++ serRat q
def deReal : D Real := fun bs =>
  andThen (deU8 bs) fun k bs =>
  if k = 1 then andThen (deRat bs) fun q bs => .ok (.simple q, bs)
  else if k = 2 then andThen (deRat bs) fun q bs => .ok (.pi q, bs)
  else .error .bad

structure Complex where
  re : Real
  im : Real
deriving DecidableEq, Repr, Inhabited

def serComplex (c : Complex) : Bytes := serReal c.re ++ serReal c.im
def deComplex : D Complex := fun bs =>
  andThen (deReal bs) fun a bs =>
  andThen (deReal bs) fun b bs => .ok (⟨a, b⟩, bs)

inductive Base where
  | binary | octal | hex | custom (b : Nat) | plain (b : Nat)
deriving DecidableEq, Repr, Inhabited

def serBase : Base → Bytes
  | .binary => [1] | .octal => [2] | .hex => [3] | .custom b => [4, b] | .plain b => [5, b]
def deBase : D Base := fun bs =>
  andThen (deU8 bs) fun k bs =>
  if k = 1 then .ok (.binary, bs) else if k = 2 then .ok (.octal, bs) else if k = 3 then .ok (.hex, bs)
  else if k = 4 then
    andThen (deU8 bs) fun b bs => if b < 2 ∨ b > 36 then .error .bad else .ok (.custom b, bs)
  else if k = 5 then
    andThen (deU8 bs) fun b bs => if b < 2 ∨ b > 36 then .error .bad else .ok (.plain b, bs)
  else .error .bad

inductive Fmt where
  | improper | mixed | exactFloat | exact | dp (n : Nat) | sf (n : Nat) | auto
deriving DecidableEq, Repr, Inhabited

def serFmt : Fmt → Bytes
  | .improper => [1] | .mixed => [2] | .exactFloat => [3] | .exact => [4]
  | .dp n => [5] ++ serU64 n | .sf n => [6] ++ serU64 n | .auto => [7]
def deFmt : D Fmt := fun bs =>
  andThen (deU8 bs) fun k bs =>
  if k = 1 then .ok (.improper, bs) else if k = 2 then .ok (.mixed, bs) else if k = 3 then .ok (.exactFloat, bs)
  else if k = 4 then .ok (.exact, bs)
  else if k = 5 then andThen (deU64 bs) fun n bs => .ok (.dp n, bs)
  else if k = 6 then andThen (deU64 bs) fun n bs => .ok (.sf n, bs)
  else if k = 7 then .ok (.auto, bs)
  else .error .bad

structure NamedUnit where
  pref : Str
  singular : Str
  plural : Str
  alias : Bool
  base : List (Str × Complex)
  scale : Complex
deriving DecidableEq, Repr, Inhabited

def serNamedUnit (u : NamedUnit) : Bytes :=
  serStr u.pref ++ serStr u.singular ++ serStr u.plural ++ serBool u.alias
    ++ serList (fun p => serStr p.1 ++ serComplex p.2) u.base ++ serComplex u.scale
def deBaseEntry : D (Str × Complex) := fun bs =>
  andThen (deStr bs) fun k bs => andThen (deComplex bs) fun v bs => .ok ((k, v), bs)
def deNamedUnit : D NamedUnit := fun bs =>
  andThen (deStr bs) fun p bs =>
  andThen (deStr bs) fun s bs =>
  andThen (deStr bs) fun pl bs =>
  andThen (deBool bs) fun a bs =>
  andThen (deList deBaseEntry bs) fun b bs =>
  andThen (deComplex bs) fun sc bs => .ok (⟨p, s, pl, a, b, sc⟩, bs)

structure UnitExp where
  unit : NamedUnit
  exp : Complex
deriving DecidableEq, Repr, Inhabited

def serUnitExp (u : UnitExp) : Bytes := serNamedUnit u.unit ++ serComplex u.exp
def deUnitExp : D UnitExp := fun bs =>
  andThen (deNamedUnit bs) fun u bs => andThen (deComplex bs) fun e bs => .ok (⟨u, e⟩, bs)

structure Number where
  dist : List (Complex × BigRat)
  unit : List UnitExp
  exact : Bool
  base : Base
  fmt : Fmt
  simplifiable : Bool
deriving DecidableEq, Repr, Inhabited

def serNumber (n : Number) : Bytes :=
  serList (fun p => serComplex p.1 ++ serRat p.2) n.dist ++ serList serUnitExp n.unit
    ++ serBool n.exact ++ serBase n.base ++ serFmt n.fmt ++ serBool n.simplifiable
def deDistEntry : D (Complex × BigRat) := fun bs =>
  andThen (deComplex bs) fun c bs => andThen (deRat bs) fun p bs => .ok ((c, p), bs)
def deNumber : D Number := fun bs =>
  andThen (deList deDistEntry bs) fun d bs =>
  andThen (deList deUnitExp bs) fun u bs =>
  andThen (deBool bs) fun e bs =>
  andThen (deBase bs) fun b bs =>
  andThen (deFmt bs) fun f bs =>
  andThen (deBool bs) fun s bs => .ok (⟨d, u, e, b, f, s⟩, bs)

/-! ### dates -/

structure SDate where
  year : Int
  month : Nat
  day : Nat
deriving DecidableEq, Repr, Inhabited

def serDate (d : SDate) : Bytes := serI32 d.year ++ [d.month] ++ [d.day]
def deMonth : D Nat := fun bs =>
  andThen (deU8 bs) fun m bs => if 1 ≤ m ∧ m ≤ 12 then .ok (m, bs) else .error .bad
def deDate : D SDate := fun bs =>
  andThen (deI32 bs) fun y bs =>
  if y = 0 then .error .bad else
  andThen (deMonth bs) fun m bs =>
  andThen (deU8 bs) fun d bs =>
  if d = 0 ∨ d ≥ 32 then .error .bad else .ok (⟨y, m, d⟩, bs)

/-! ### built-in function names (`as_str` / `try_from_str`); regenerated and compared by Tie A -/

/-- UTF-8 bytes of the names `as_str` returns, in declaration order:
approximately, abs, sin, cos, tan, asin, acos, atan, sinh, cosh, tanh, asinh, acosh, atanh, ln, log2, log10, base, sample, mean, not, conjugate, real, imag, arg, floor, ceil, round, fibonacci -/
def builtinNames : List Bytes :=
  [[97, 112, 112, 114, 111, 120, 105, 109, 97, 116, 101, 108, 121],
   [97, 98, 115],
   [115, 105, 110],
   [99, 111, 115],
   [116, 97, 110],
   [97, 115, 105, 110],
   [97, 99, 111, 115],
   [97, 116, 97, 110],
   [115, 105, 110, 104],
   [99, 111, 115, 104],
   [116, 97, 110, 104],
   [97, 115, 105, 110, 104],
   [97, 99, 111, 115, 104],
   [97, 116, 97, 110, 104],
   [108, 110],
   [108, 111, 103, 50],
   [108, 111, 103, 49, 48],
   [98, 97, 115, 101],
   [115, 97, 109, 112, 108, 101],
   [109, 101, 97, 110],
   [110, 111, 116],
   [99, 111, 110, 106, 117, 103, 97, 116, 101],
   [114, 101, 97, 108],
   [105, 109, 97, 103],
   [97, 114, 103],
   [102, 108, 111, 111, 114],
   [99, 101, 105, 108],
   [114, 111, 117, 110, 100],
   [102, 105, 98, 111, 110, 97, 99, 99, 105]]

/-- the names `try_from_str` accepts -/
def builtinAccepted : List Bytes := builtinNames

/-- built-in functions are identified by their index in `builtinNames` -/
def serBuiltin (i : Nat) : Bytes := serStr (builtinNames.getD i [])
def deBuiltin : D Nat := fun bs =>
  andThen (deStr bs) fun s bs =>
  match builtinAccepted.idxOf? s with
  | some _ => .ok (builtinNames.idxOf s, bs)
  | none => .error .bad

/-! ### values, expressions, scopes -/

mutual
inductive Value where
  | num (n : Number) | builtin (i : Nat) | format (f : Fmt) | dp | sf | base (b : Base)
  | fn (param : Str) (body : Expr) (scope : OptScope)
  | object (kvs : KVs)
  | string (s : Str) | unit | bool (b : Bool) | month (m : Nat) | dayOfWeek (d : Nat)
  | date (d : SDate)
inductive KVs where
  | nil | cons (k : Str) (v : Value) (rest : KVs)
inductive Expr where
  | literal (v : Value) | ident (s : Str)
  | parens (e : Expr) | unaryMinus (e : Expr) | unaryPlus (e : Expr) | unaryDiv (e : Expr)
  | factorial (e : Expr)
  | bop (op : Nat) (a b : Expr) | apply (a b : Expr) | applyFunctionCall (a b : Expr)
  | applyMul (a b : Expr) | as_ (a b : Expr)
  | fn (s : Str) (e : Expr) | of_ (s : Str) (e : Expr) | assign (s : Str) (e : Expr)
  | statements (a b : Expr) | equality (isEq : Bool) (a b : Expr)
inductive Scope where
  | mk (ident : Str) (expr : Expr) (vscope : OptScope) (inner : OptScope)
inductive OptScope where
  | none | some (s : Scope)
end

def KVs.length : KVs → Nat
  | .nil => 0
  | .cons _ _ r => r.length + 1

mutual
def serValue : Value → Bytes
  | .num n => [0] ++ serNumber n
  | .builtin i => [1] ++ serBuiltin i
  | .format f => [2] ++ serFmt f
  | .dp => [3]
  | .sf => [4]
  | .base b => [5] ++ serBase b
  | .fn p e s => [6] ++ serStr p ++ serExpr e ++ serOptScope s
  | .object kvs => [7] ++ serU64 kvs.length ++ serKVs kvs
  | .string s => [8] ++ serStr s
  | .unit => [9]
  | .bool b => [10] ++ serBool b
  | .month m => [11, m]
  | .dayOfWeek d => [12, d]
  | .date d => [13] ++ serDate d
def serKVs : KVs → Bytes
  | .nil => []
  | .cons k v r => serStr k ++ serValue v ++ serKVs r
def serExpr : Expr → Bytes
  | .literal v => [0] ++ serValue v
  | .ident s => [1] ++ serStr s
  | .parens e => [2] ++ serExpr e
  | .unaryMinus e => [3] ++ serExpr e
  | .unaryPlus e => [4] ++ serExpr e
  | .unaryDiv e => [5] ++ serExpr e
  | .factorial e => [6] ++ serExpr e
  | .bop op a b => [7, op] ++ serExpr a ++ serExpr b
  | .apply a b => [8] ++ serExpr a ++ serExpr b
  | .applyFunctionCall a b => [9] ++ serExpr a ++ serExpr b
  | .applyMul a b => [10] ++ serExpr a ++ serExpr b
  | .as_ a b => [11] ++ serExpr a ++ serExpr b
  | .fn s e => [12] ++ serStr s ++ serExpr e
  | .of_ s e => [13] ++ serStr s ++ serExpr e
  | .assign s e => [14] ++ serStr s ++ serExpr e
  | .statements a b => [15] ++ serExpr a ++ serExpr b
  | .equality q a b => [16] ++ serBool q ++ serExpr a ++ serExpr b
def serScope : Scope → Bytes
  | .mk i e vs inner => serStr i ++ serExpr e ++ serOptScope vs ++ serOptScope inner
def serOptScope : OptScope → Bytes
  | .none => [0]
  | .some s => [1] ++ serScope s
end

mutual
def deValue : Nat → D Value
  | 0 => fun _ => .error .bad        -- fuel exhausted; fuel = input length suffices
  | fuel + 1 => fun bs =>
    andThen (deU8 bs) fun k bs =>
    if k = 0 then andThen (deNumber bs) fun n bs => .ok (.num n, bs)
    else if k = 1 then andThen (deBuiltin bs) fun i bs => .ok (.builtin i, bs)
    else if k = 2 then andThen (deFmt bs) fun f bs => .ok (.format f, bs)
    else if k = 3 then .ok (.dp, bs)
    else if k = 4 then .ok (.sf, bs)
    else if k = 5 then andThen (deBase bs) fun b bs => .ok (.base b, bs)
    else if k = 6 then
      andThen (deStr bs) fun p bs =>
      andThen (deExpr fuel bs) fun e bs =>
      andThen (deOptScope fuel bs) fun s bs => .ok (.fn p e s, bs)
    else if k = 7 then
      andThen (deU64 bs) fun n bs =>
      andThen (deKVs fuel n bs) fun kvs bs => .ok (.object kvs, bs)
    else if k = 8 then andThen (deStr bs) fun s bs => .ok (.string s, bs)
    else if k = 9 then .ok (.unit, bs)
    else if k = 10 then andThen (deBool bs) fun b bs => .ok (.bool b, bs)
    else if k = 11 then andThen (deMonth bs) fun m bs => .ok (.month m, bs)
    else if k = 12 then andThen (deU8 bs) fun d bs => if d ≤ 6 then .ok (.dayOfWeek d, bs) else .error .bad
    else if k = 13 then andThen (deDate bs) fun d bs => .ok (.date d, bs)
    else .error .bad
def deKVs : Nat → Nat → D KVs
  | 0, _ => fun _ => .error .bad
  | _ + 1, 0 => fun bs => .ok (.nil, bs)
  | fuel + 1, n + 1 => fun bs =>
    andThen (deStr bs) fun k bs =>
    andThen (deValue fuel bs) fun v bs =>
    andThen (deKVs fuel n bs) fun r bs => .ok (.cons k v r, bs)
def deExpr : Nat → D Expr
  | 0 => fun _ => .error .bad
  | fuel + 1 => fun bs =>
    andThen (deU8 bs) fun k bs =>
    let one (c : Expr → Expr) := andThen (deExpr fuel bs) fun e bs => .ok (c e, bs)
    let two (c : Expr → Expr → Expr) (bs : Bytes) :=
      andThen (deExpr fuel bs) fun a bs => andThen (deExpr fuel bs) fun b bs => .ok (c a b, bs)
    let named (c : Str → Expr → Expr) :=
      andThen (deStr bs) fun s bs => andThen (deExpr fuel bs) fun e bs => .ok (c s e, bs)
    if k = 0 then andThen (deValue fuel bs) fun v bs => .ok (.literal v, bs)
    else if k = 1 then andThen (deStr bs) fun s bs => .ok (.ident s, bs)
    else if k = 2 then one .parens
    else if k = 3 then one .unaryMinus
    else if k = 4 then one .unaryPlus
    else if k = 5 then one .unaryDiv
    else if k = 6 then one .factorial
    else if k = 7 then
      andThen (deU8 bs) fun op bs => if op ≤ 13 then two (.bop op) bs else .error .bad
    else if k = 8 then two .apply bs
    else if k = 9 then two .applyFunctionCall bs
    else if k = 10 then two .applyMul bs
    else if k = 11 then two .as_ bs
    else if k = 12 then named .fn
    else if k = 13 then named .of_
    else if k = 14 then named .assign
    else if k = 15 then two .statements bs
    else if k = 16 then andThen (deBool bs) fun q bs => two (.equality q) bs
    else .error .bad
def deScope : Nat → D Scope
  | 0 => fun _ => .error .bad
  | fuel + 1 => fun bs =>
    andThen (deStr bs) fun i bs =>
    andThen (deExpr fuel bs) fun e bs =>
    andThen (deOptScope fuel bs) fun vs bs =>
    andThen (deOptScope fuel bs) fun inner bs => .ok (.mk i e vs inner, bs)
def deOptScope : Nat → D OptScope
  | 0 => fun _ => .error .bad
  | fuel + 1 => fun bs =>
    andThen (deBool bs) fun present bs =>
    if present then andThen (deScope fuel bs) fun s bs => .ok (.some s, bs) else .ok (.none, bs)
end

/-! ### the variable table -/

def serVars (vars : List (Str × Value)) : Bytes :=
  serU64 vars.length ++ vars.flatMap fun p => serStr p.1 ++ serValue p.2

def deVarsN (fuel : Nat) : Nat → D (List (Str × Value))
  | 0 => D.pure []
  | n + 1 => fun bs =>
    andThen (deStr bs) fun k bs =>
    andThen (deValue fuel bs) fun v bs =>
    andThen (deVarsN fuel n bs) fun r bs => .ok ((k, v) :: r, bs)

/-- `deserialize_variables`: the list of (name, value) pairs in stream order (the Rust inserts
them into a `HashMap`; a later duplicate wins) -/
def dropRest {α} : Except DErr (α × Bytes) → Except DErr α
  | .error e => .error e
  | .ok (a, _) => .ok a

def deVars (bs : Bytes) : Except DErr (List (Str × Value)) :=
  dropRest (andThen (deU64 bs) fun n r => deVarsN (bs.length + 1) n r)

end Fend.Ser
