"""Run under python3-vt (mpmath): reads `fn p/q` lines, prints `<value> <x*f'(x)>` with 45 significant digits, or `dom`
when the real function is undefined there.  The independent high-precision reference for C15."""
import sys
from mpmath import mp, mpf, sin, cos, tan, asin, acos, atan, sinh, cosh, tanh, asinh, acosh, atanh, exp, log, sqrt, diff, nstr, cbrt
mp.dps = 60
F = {"sin": sin, "cos": cos, "tan": tan, "asin": asin, "acos": acos, "atan": atan, "sinh": sinh, "cosh": cosh, "tanh": tanh,
     "asinh": asinh, "acosh": acosh, "atanh": atanh, "exp": exp, "ln": log, "log2": lambda x: log(x, 2), "log10": lambda x: log(x, 10),
     "sqrt": sqrt, "cbrt": cbrt}
DOM = {"asin": lambda x: -1 <= x <= 1, "acos": lambda x: -1 <= x <= 1, "acosh": lambda x: x >= 1, "atanh": lambda x: -1 < x < 1,
       "ln": lambda x: x > 0, "log2": lambda x: x > 0, "log10": lambda x: x > 0, "sqrt": lambda x: x >= 0}
for line in sys.stdin:
    try:
        fn, arg = line.split()
        if fn.startswith("pow:"):            # pow:<a/b> x  => x^(a/b)
            a, b = fn[4:].split("/")
            e = mpf(int(a)) / mpf(int(b))
            f = lambda x, e=e: x ** e
            dom = lambda x: x > 0
        else:
            f = F[fn]; dom = DOM.get(fn, lambda x: True)
        p, q = arg.split("/")
        x = mpf(int(p)) / mpf(int(q))
        if not dom(x):
            print("dom"); continue
        v = f(x)
        d = diff(f, x) * x if x != 0 else mpf(0)
        print(nstr(v, 45), nstr(abs(d), 20))
    except Exception as e:
        print("dom")
