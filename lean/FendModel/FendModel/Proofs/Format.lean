/-
Lemmas about digit strings and long division for C02 / C03.
-/
import FendModel.Model.NumLit
import Mathlib.Tactic.Ring
import Mathlib.Tactic.Linarith
import Mathlib.Tactic.FieldSimp
import Mathlib.Tactic.Push
import Mathlib.Algebra.Order.Field.Basic
import Mathlib.Data.Rat.Defs
import Mathlib.Data.Nat.Cast.Field

namespace Fend.Fmt

theorem valDigits_foldl (b : Nat) (ds : List Nat) (a : Nat) :
    ds.foldl (fun a d => a * b + d) a = a * b ^ ds.length + valDigits b ds := by
  unfold valDigits
  induction ds generalizing a with
  | nil => simp
  | cons d t ih =>
    simp only [List.foldl_cons, List.length_cons]
    rw [ih (a * b + d), ih (0 * b + d)]
    ring

theorem valDigits_cons (b d : Nat) (t : List Nat) : valDigits b (d :: t) = d * b ^ t.length + valDigits b t := by
  have := valDigits_foldl b t (0 * b + d)
  simp only [valDigits, List.foldl_cons] at this ⊢
  rw [this]; simp

theorem valDigits_append_single (b : Nat) (ds : List Nat) (d : Nat) : valDigits b (ds ++ [d]) = valDigits b ds * b + d := by
  simp [valDigits, List.foldl_append]

theorem digitsAux_val (b : Nat) (hb : 2 ≤ b) (fuel n : Nat) (acc : List Nat) (hf : n < fuel) :
    valDigits b (digitsAux b fuel n acc) = n * b ^ acc.length + valDigits b acc := by
  induction fuel generalizing n acc with
  | zero => omega
  | succ fuel ih =>
    unfold digitsAux
    split
    · rw [valDigits_cons]
    · rename_i hnb
      have hlt : n / b < n := Nat.div_lt_self (by omega) (by omega)
      rw [ih (n / b) (n % b :: acc) (by omega), valDigits_cons]
      simp only [List.length_cons, pow_succ]
      have := Nat.div_add_mod n b
      calc n / b * (b ^ acc.length * b) + (n % b * b ^ acc.length + valDigits b acc)
          = (b * (n / b) + n % b) * b ^ acc.length + valDigits b acc := by ring
        _ = n * b ^ acc.length + valDigits b acc := by rw [this]

/-- reading back the digits of `n` gives `n` -/
theorem valDigits_natDigits (b n : Nat) (hb : 2 ≤ b) : valDigits b (natDigits b n) = n := by
  unfold natDigits
  rw [digitsAux_val b hb (n + 1) n [] (by omega)]
  simp [valDigits]

theorem digitsAux_lt (b : Nat) (hb : 2 ≤ b) (fuel n : Nat) (acc : List Nat) (hf : n < fuel) (hacc : ∀ d ∈ acc, d < b) :
    ∀ d ∈ digitsAux b fuel n acc, d < b := by
  induction fuel generalizing n acc with
  | zero => omega
  | succ fuel ih =>
    unfold digitsAux
    split
    · intro d hd
      cases hd with
      | head => assumption
      | tail _ h => exact hacc d h
    · have hlt : n / b < n := Nat.div_lt_self (by omega) (by omega)
      apply ih (n / b) (n % b :: acc) (by omega)
      intro d hd
      cases hd with
      | head => exact Nat.mod_lt _ (by omega)
      | tail _ h => exact hacc d h

/-- every rendered digit is a digit of the base -/
theorem natDigits_lt (b n : Nat) (hb : 2 ≤ b) : ∀ d ∈ natDigits b n, d < b :=
  digitsAux_lt b hb (n + 1) n [] (by omega) (by simp)

theorem digitsAux_head (b : Nat) (hb : 2 ≤ b) (fuel n : Nat) (acc : List Nat) (hf : n < fuel) (hn : 0 < n) :
    ∃ d t, digitsAux b fuel n acc = d :: t ∧ d ≠ 0 := by
  induction fuel generalizing n acc with
  | zero => omega
  | succ fuel ih =>
    unfold digitsAux
    split
    · exact ⟨n, acc, rfl, by omega⟩
    · rename_i hnb
      have hlt : n / b < n := Nat.div_lt_self (by omega) (by omega)
      have hpos : 0 < n / b := Nat.div_pos (by omega) (by omega)
      exact ih (n / b) (n % b :: acc) (by omega) hpos

/-- no leading zero: the rendering of a positive integer is its canonical digit string -/
theorem natDigits_head (b n : Nat) (hb : 2 ≤ b) (hn : 0 < n) : ∃ d t, natDigits b n = d :: t ∧ d ≠ 0 :=
  digitsAux_head b hb (n + 1) n [] (by omega) hn

theorem digitsFrom_length (b den r k : Nat) : (digitsFrom b den r k).length = k := by
  induction k with
  | zero => rfl
  | succ k ih => simp [digitsFrom, ih]

/-- the long-division invariant: after `k` steps, `r·b^k = den · (digits so far) + remainder` -/
theorem longdiv_invariant (b den r k : Nat) :
    r * b ^ k = den * valDigits b (digitsFrom b den r k) + remAt b den r k := by
  induction k with
  | zero => simp [digitsFrom, remAt, valDigits]
  | succ k ih =>
    simp only [digitsFrom, remAt, valDigits_append_single, pow_succ]
    have h := Nat.div_add_mod (remAt b den r k * b) den
    calc r * (b ^ k * b) = (r * b ^ k) * b := by ring
      _ = (den * valDigits b (digitsFrom b den r k) + remAt b den r k) * b := by rw [ih]
      _ = den * (valDigits b (digitsFrom b den r k) * b) + remAt b den r k * b := by ring
      _ = den * (valDigits b (digitsFrom b den r k) * b) + (den * (remAt b den r k * b / den) + remAt b den r k * b % den) := by rw [h]
      _ = _ := by ring

theorem remAt_lt (b den r k : Nat) (hr : r < den) : remAt b den r k < den := by
  cases k with
  | zero => exact hr
  | succ k => exact Nat.mod_lt _ (by omega)

theorem remAt_add (b den r m n : Nat) : remAt b den (remAt b den r m) n = remAt b den r (m + n) := by
  induction n with
  | zero => rfl
  | succ n ih =>
    have : m + (n + 1) = (m + n) + 1 := by omega
    rw [this]
    simp only [remAt, ih]

/-- each produced digit is the digit of the canonical positional expansion of `r/den`:
`⌊r·b^(k+1)/den⌋ mod b` -/
theorem digit_canonical (b den r k : Nat) (hb : 0 < b) (hr : r < den) :
    remAt b den r k * b / den = (r * b ^ (k + 1) / den) % b := by
  have hden : 0 < den := by omega
  have hinv := longdiv_invariant b den r (k + 1)
  simp only [digitsFrom, valDigits_append_single] at hinv
  have hlt := remAt_lt b den r (k + 1) hr
  have hq : r * b ^ (k + 1) / den = valDigits b (digitsFrom b den r k) * b + remAt b den r k * b / den := by
    rw [hinv]
    rw [Nat.mul_add_div hden, Nat.div_eq_of_lt hlt]; simp
  rw [hq]
  have hd : remAt b den r k * b / den < b := by
    have := remAt_lt b den r k hr
    apply Nat.div_lt_of_lt_mul
    exact Nat.mul_lt_mul_of_pos_right this hb
  rw [Nat.add_comm, Nat.add_mul_mod_self_right, Nat.mod_eq_of_lt hd]

theorem remsList_get (b den : Nat) (k r i : Nat) (hi : i < k) : (remsList b den r k)[i]? = some (remAt b den r i) := by
  induction k generalizing r i with
  | zero => omega
  | succ k ih =>
    cases i with
    | zero => simp [remsList, remAt]
    | succ i =>
      simp only [remsList, List.getElem?_cons_succ]
      rw [ih ((r * b) % den) i (by omega)]
      congr 1
      clear ih hi
      induction i with
      | zero => simp [remAt]
      | succ i ihi => simp only [remAt, ihi]

/-- what the cycle search returns is a genuine cycle of the remainder sequence -/
theorem findCycle_spec (b den r mu lam : Nat) (h : findCycle b den r = some (mu, lam)) :
    0 < lam ∧ remAt b den r mu = remAt b den r (mu + lam) := by
  unfold findCycle at h
  obtain ⟨i, hi, hfi⟩ := List.exists_of_findSome?_eq_some h
  rw [Option.map_eq_some_iff] at hfi
  obtain ⟨j, hj, hpair⟩ := hfi
  have hjmem := List.mem_of_find?_eq_some hj
  have hp := List.find?_some hj
  simp only [List.mem_range] at hi hjmem
  injection hpair with h1 h2
  subst h1
  have hlam : lam = i - j := h2.symm
  simp only [List.getElem?_toArray, beq_iff_eq] at hp
  rw [remsList_get b den (den + 2) r j (by omega), remsList_get b den (den + 2) r i hi] at hp
  injection hp with hp
  refine ⟨by omega, ?_⟩
  rw [hp]; congr 1; omega

end Fend.Fmt
