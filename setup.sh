#!/bin/sh
# MANIFEST.setup_cmd: build the Lean project, the driver and the harness once, offline.
set -e
cd "$(dirname "$0")"
mkdir -p .work evidence
export CARGO_NET_OFFLINE=true
# regenerate the Tie A tables first (the property modules import them), then build everything in one parallel lake run so that
# the per-check `lake build <module>` calls are no-ops
python3 - <<'PY'
import sys
sys.path.insert(0, ".")
for m in ("alloc_sites", "callback_sites", "panic_sites", "poll_sites"):
    getattr(__import__("translator." + m, fromlist=["generate"]), "generate")()
PY
(cd lean/FendModel && lake build FendModel fend_model_driver $(ls FendModel/Props/*.lean | sed 's#/#.#g; s#\.lean$##'))
[ -f harness/Cargo.lock ] || cp /repo/Cargo.lock harness/Cargo.lock
(cd harness && cargo build --offline)
(cd /repo && CARGO_TARGET_DIR=/verif/.work/target-cli cargo build --offline -p fend)
echo setup-ok
