/-
C12 — saved variables reload to the same values.
`serValue`/`deValue` etc. mirror every serialize/deserialize pair byte for byte (Model/Serialize.lean).
-/
import FendModel.Proofs.SerializeVars

namespace Fend.C12
open Fend.Ser

/-- every representable value — numbers with units/format/base, strings, dates, distributions,
objects, built-in functions, closures with (nested) captured scopes — is read back exactly,
and the reader stops exactly at the end of the value -/
theorem value_roundtrip (v : Value) (rest : Bytes) (h : RepV v) :
    deValue (sizeV v) (serValue v ++ rest) = .ok (v, rest) :=
  deValue_ser v (sizeV v) rest h (Nat.le_refl _)

/-- more fuel never hurts: the statement for any sufficient fuel -/
theorem value_roundtrip_fuel (v : Value) (fuel : Nat) (rest : Bytes) (h : RepV v) (hf : sizeV v ≤ fuel) :
    deValue fuel (serValue v ++ rest) = .ok (v, rest) := deValue_ser v fuel rest h hf

/-- closures: a captured scope chain is read back exactly -/
theorem scope_roundtrip (o : OptScope) (rest : Bytes) (h : RepO o) :
    deOptScope (sizeO o) (serOptScope o ++ rest) = .ok (o, rest) :=
  deOptScope_ser o (sizeO o) rest h (Nat.le_refl _)

/-- the whole variable table -/
theorem context_roundtrip (vars : List (Str × Value)) (h : VarsRep vars) (rest : Bytes) :
    deVars (serVars vars ++ rest) = .ok vars := vars_roundtrip vars h rest

/-- every built-in function is saved under a name that is read back as the same function -/
theorem builtin_names_inverse (i : Nat) (h : i < builtinNames.length) (rest : Bytes) :
    deBuiltin (serBuiltin i ++ rest) = .ok (i, rest) := deBuiltin_ser i h rest

/-- D8 on the pinned tree: `try_from_str` knew 24 of the 29 names; `floor` (index 25) was one
of the five that could not be read back -/
theorem pinned_builtin_missing :
    let pinnedAccepted := builtinNames.filter
      (fun n => n ∉ [[109, 101, 97, 110], [97, 114, 103], [102, 108, 111, 111, 114], [99, 101, 105, 108], [114, 111, 117, 110, 100]])
    pinnedAccepted.length = 24 ∧ pinnedAccepted.idxOf? (builtinNames.getD 25 []) = none := by
  decide

-- non-vacuity: a curried closure applied to one argument, i.e. a closure with a captured scope
-- whose captured expression is itself a literal closure — representable, hence covered
example : RepV (.fn [120] (.bop 0 (.ident [120]) (.ident [121]))
    (.some (.mk [121] (.literal (.bool true)) .none .none))) := by
  simp [RepV, RepE, RepO, RepS, StrRep, validUtf8]

end Fend.C12
