//! `fend-verif-harness <stream>`: reads one case per line on stdin, runs the real
//! fend code in-process (feature `verif-hooks`), prints one canonical answer per line.
mod common;
mod s_bigrat;
mod s_biguint;
mod s_date;
mod s_preview;
mod s_crash;
mod s_intr;
mod s_serde;
mod s_text;

use std::io::{self, BufRead, Write};

#[global_allocator]
static ALLOC: s_serde::Counting2 = s_serde::Counting2;

fn main() {
    let args: Vec<String> = std::env::args().collect();
    let stream = args.get(1).map(String::as_str).unwrap_or("");
    if std::env::var("HARNESS_SHOW_PANICS").is_err() { common::silence_panics(); }
    let f: fn(&str) -> String = match stream {
        "biguint" => s_biguint::line,
        "bigrat" => s_bigrat::line,
        "date" => s_date::line,
        "eval" => s_text::eval_line,
        "evalctx" => s_text::evalctx_line,
        "evalsep" => s_text::evalsep_line,
        "ratfmt" => s_bigrat::fmt_line,
        "json" => s_text::json_line,
        "inline" => s_text::inline_line,
        "intfn" => s_text::intfn_line,
        "evalseq" => s_text::evalseq_line,
        "unitq" => s_text::unitq_line,
        "roll" => s_text::roll_line,
        "evalhex" => s_text::evalhex_line,
        "strlit" => s_text::strlit_line,
        "preview" => s_preview::line,
        "crash" => s_crash::line,
        "intr" => s_intr::line,
        "serde" => s_serde::serde_line,
        "deser" => s_serde::deser_line,
        _ => {
            eprintln!("usage: fend-verif-harness <stream>");
            std::process::exit(2);
        }
    };
    // Watchdog: a case that runs longer than HARNESS_LINE_TIMEOUT_S (default 20 s) is answered
    // `err timeout` and the process exits; the python side resumes after that line.
    let limit: u64 = std::env::var("HARNESS_LINE_TIMEOUT_S").ok().and_then(|v| v.parse().ok()).unwrap_or(20);
    let started = std::sync::Arc::new(std::sync::atomic::AtomicU64::new(0)); // ms since epoch of current line, 0 = idle
    {
        let started = started.clone();
        std::thread::spawn(move || loop {
            std::thread::sleep(std::time::Duration::from_millis(200));
            let s = started.load(std::sync::atomic::Ordering::SeqCst);
            if s != 0 && now_ms().saturating_sub(s) > limit * 1000 {
                // stdout is flushed after every line, so exactly the lines before this one are out
                println!("err timeout phase={}", common::PHASE.load(std::sync::atomic::Ordering::SeqCst));
                std::process::exit(3);
            }
        });
    }
    let stdin = io::stdin();
    let mut out = io::stdout(); // not locked across lines: the watchdog must be able to print
    for l in stdin.lock().lines() {
        let l = l.expect("read");
        started.store(now_ms(), std::sync::atomic::Ordering::SeqCst);
        let r = f(&l);
        started.store(0, std::sync::atomic::Ordering::SeqCst);
        writeln!(out, "{r}").expect("write");
        out.flush().expect("flush");
    }
}

fn now_ms() -> u64 {
    std::time::SystemTime::now().duration_since(std::time::UNIX_EPOCH).map(|d| d.as_millis() as u64).unwrap_or(0)
}
