/-
Line protocol shared by the driver streams: textual encodings of raw values.
  BigUint : `S<n>` | `L<l0>,<l1>,...` (little-endian decimal limbs; `L` alone = empty vector)
  BigRat  : `<+|-><BigUint>/<BigUint>`
-/
import FendModel.Model.BigUint
import FendModel.Model.BigRat

namespace Fend.Proto
open Fend

def parseUint (s : String) : Option BigUint :=
  match s.toList with
  | 'S' :: rest => (String.ofList rest).toNat?.map BigUint.small
  | 'L' :: rest =>
    if rest.isEmpty then some (.large []) else
    let parts := (String.ofList rest).splitOn ","
    let ns := parts.filterMap (·.toNat?)
    if ns.length = parts.length then some (.large ns) else none
  | _ => none

def showUint : BigUint → String
  | .small n => s!"S{n}"
  | .large v => "L" ++ ",".intercalate (v.map toString)

def parseRat (s : String) : Option BigRat :=
  match s.toList with
  | sg :: rest =>
    if sg ≠ '+' ∧ sg ≠ '-' then none else
    match (String.ofList rest).splitOn "/" with
    | [n, d] => match parseUint n, parseUint d with
      | some n, some d => some ⟨sg == '-', n, d⟩
      | _, _ => none
    | _ => none
  | _ => none

def showRat (q : BigRat) : String :=
  (if q.neg then "-" else "+") ++ showUint q.num ++ "/" ++ showUint q.den

def showR {α} (f : α → String) : R α → String
  | .ok a => "ok " ++ f a
  | .error e => "err " ++ e.name

def showOrd : Ordering → String
  | .lt => "-1" | .eq => "0" | .gt => "1"

end Fend.Proto
