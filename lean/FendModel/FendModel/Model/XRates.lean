/-
Model of `cli/src/exchange_rates.rs`: cache framing (`load_cached_data`), the EU and UN parsers and
the first-match lookup, over UTF-8 bytes. Slicing operations that can panic in Rust (`split_at`,
`&s[a..]` out of range or off a char boundary) return `XErr.panic`; `str::parse::<f64>` is a parameter
`pf` (the model hands back the TEXT of each rate; the number is `pf text`).
-/
import FendModel.Model.Serialize

namespace Fend.XRates

abbrev Bytes := List Nat

inductive XErr where
  | invalid      -- any ordinary error ("failed to load exchange rates", bad timestamp, expired, …)
  | panic
deriving DecidableEq, Repr

abbrev X (α : Type) := Except XErr α

def cp (s : String) : Bytes := s.toList.map Char.toNat

/-- index of the first occurrence of `needle` -/
def findSub (needle : Bytes) : Bytes → Option Nat
  | [] => if needle.isPrefixOf [] then some 0 else none
  | h :: t => if needle.isPrefixOf (h :: t) then some 0 else (findSub needle t).map (· + 1)

/-- a byte index is a char boundary iff it is the end or not a continuation byte -/
def isBoundary (s : Bytes) (i : Nat) : Bool :=
  if i = s.length then true else
  match s[i]? with
  | none => false
  | some b => !(128 ≤ b && b < 192)

/-- `str::split_at(i)`: panics off a boundary / out of range -/
def splitAt (s : Bytes) (i : Nat) : X (Bytes × Bytes) :=
  if isBoundary s i then .ok (s.take i, s.drop i) else .error .panic

/-- `&s[i..]` -/
def sliceFrom (s : Bytes) (i : Nat) : X Bytes :=
  if isBoundary s i then .ok (s.drop i) else .error .panic

/-- length in bytes of a White_Space character at the head of `s` (0 if there is none) -/
def wsLen : Bytes → Nat
  | 9 :: _ | 10 :: _ | 11 :: _ | 12 :: _ | 13 :: _ | 32 :: _ => 1
  | 194 :: 133 :: _ | 194 :: 160 :: _ => 2
  | 225 :: 154 :: 128 :: _ => 3
  | 226 :: 128 :: b :: _ => if (128 ≤ b && b ≤ 138) || b = 168 || b = 169 || b = 175 then 3 else 0
  | 226 :: 129 :: 159 :: _ => 3
  | 227 :: 128 :: 128 :: _ => 3
  | _ => 0

def trimStart : Nat → Bytes → Bytes
  | 0, s => s
  | fuel + 1, s => if wsLen s = 0 then s else trimStart fuel (s.drop (wsLen s))

/-- whitespace character (given reversed) at the END of a string -/
def wsLenRev : Bytes → Nat
  | 9 :: _ | 10 :: _ | 11 :: _ | 12 :: _ | 13 :: _ | 32 :: _ => 1
  | 133 :: 194 :: _ | 160 :: 194 :: _ => 2
  | 128 :: 154 :: 225 :: _ => 3
  | b :: 128 :: 226 :: _ => if (128 ≤ b && b ≤ 138) || b = 168 || b = 169 || b = 175 then 3 else 0
  | 159 :: 129 :: 226 :: _ => 3
  | 128 :: 128 :: 227 :: _ => 3
  | _ => 0

def trimEndRev : Nat → Bytes → Bytes
  | 0, s => s
  | fuel + 1, s => if wsLenRev s = 0 then s else trimEndRev fuel (s.drop (wsLenRev s))

/-- `str::trim` -/
def trim (s : Bytes) : Bytes :=
  let a := trimStart (s.length + 1) s
  (trimEndRev (a.length + 1) a.reverse).reverse

/-- `str::lines` (the `\r` of a `\r\n` is left to `trim`) -/
def splitLines : Bytes → List Bytes
  | [] => []
  | s =>
    let rec go : Bytes → Bytes → List Bytes
      | [], acc => if acc.isEmpty then [] else [acc.reverse]
      | 10 :: rest, acc => acc.reverse :: go rest []
      | b :: rest, acc => go rest (b :: acc)
    go s []

/-- `trim_start_matches(pat)` -/
def trimStartMatches (pat : Bytes) : Nat → Bytes → Bytes
  | 0, s => s
  | fuel + 1, s => if pat.isPrefixOf s && !pat.isEmpty then trimStartMatches pat fuel (s.drop pat.length) else s

/-- one line of the EU file: `none` = not a rate line -/
def euLine (l : Bytes) : X (Option (Bytes × Bytes)) :=
  let l := trim l
  if !(cp "<Cube currency=").isPrefixOf l then .ok none else
  if !(cp "<Cube currency='").isPrefixOf l then .error .invalid else
  let l := l.drop (cp "<Cube currency='").length
  if !isBoundary l 3 then .error .invalid else      -- the repaired guard
  match splitAt l 3 with
  | .error e => .error e
  | .ok (currency, l) =>
    let l := trimStartMatches (cp "' rate='") (l.length + 1) l
    match findSub [39] l with
    | none => .error .invalid
    | some i => .ok (some (currency, l.take i))

def euLines : List Bytes → X (List (Bytes × Bytes))
  | [] => .ok []
  | l :: ls =>
    match euLine l with
    | .error e => .error e
    | .ok none => euLines ls
    | .ok (some p) =>
      match euLines ls with
      | .error e => .error e
      | .ok ps => .ok (p :: ps)

/-- `parse_exchange_rates_eu`: (currency, rate text) pairs after the implicit `EUR = 1.0`;
`okRate` is `parse::<f64>` succeeding with a normal number -/
def parseEU (okRate : Bytes → Bool) (xml : Bytes) : X (List (Bytes × Bytes)) :=
  match euLines (splitLines xml) with
  | .error e => .error e
  | .ok ps =>
    -- the Rust fails at the first unparsable rate; order of checks does not matter for the class
    if ps.any (fun p => !okRate p.2) then .error .invalid
    else if ps.length + 1 < 10 then .error .invalid
    else .ok ps

/-- the scanning loop of `parse_exchange_rates_un` -/
def unLoop (okRate : Bytes → Bool) : Nat → Bytes → X (List (Bytes × Bytes))
  | 0, _ => .error .invalid
  | fuel + 1, s =>
    if s.isEmpty then .ok [] else
    match findSub (cp "<f_curr_code>") s with
    | none =>
      if s = cp "\r\n\t</UN_OPERATIONAL_RATES>\r\n</UN_OPERATIONAL_RATES_DATASET>" then .ok [] else .error .invalid
    | some start =>
      match sliceFrom s (start + 13) with
      | .error e => .error e
      | .ok s =>
        match findSub (cp "</f_curr_code>") s with
        | none => .error .invalid
        | some e1 =>
          let currency := s.take e1
          match sliceFrom s (e1 + 14) with
          | .error e => .error e
          | .ok s =>
            match findSub (cp "<rate>") s with
            | none => .error .invalid
            | some st =>
              match sliceFrom s (st + 6) with
              | .error e => .error e
              | .ok s =>
                match findSub (cp "</rate>") s with
                | none => .error .invalid
                | some e2 =>
                  let rate := s.take e2
                  if !okRate rate then .error .invalid else
                  match sliceFrom s (e2 + 7) with
                  | .error e => .error e
                  | .ok s =>
                    match unLoop okRate fuel s with
                    | .error e => .error e
                    | .ok ps => .ok ((currency, rate) :: ps)

def parseUN (okRate : Bytes → Bool) (xml : Bytes) : X (List (Bytes × Bytes)) :=
  match findSub (cp "<UN_OPERATIONAL_RATES>") xml with
  | none => .error .invalid
  | some i =>
    match sliceFrom xml i with
    | .error e => .error e
    | .ok s => unLoop okRate (s.length + 1) s

/-- `u64::from_str`: optional `+`, at least one ASCII digit, no overflow -/
def parseU64 (s : Bytes) : Option Nat :=
  let d := match s with | 43 :: r => r | r => r
  if d.isEmpty || !d.all (fun b => 48 ≤ b && b ≤ 57) then none else
  let v := d.foldl (fun a b => a * 10 + (b - 48)) 0
  if v < 18446744073709551616 then some v else none

/-- `load_cached_data` framing: the text after the first `;` (the `;` itself included, as in the Rust) -/
def loadCached (contents : Bytes) (now maxAge : Nat) : X Bytes :=
  if !Fend.Ser.validUtf8 contents then .error .invalid else      -- `fs::read_to_string`
  match findSub [59] contents with
  | none => .error .invalid
  | some i =>
    match splitAt contents i with
    | .error e => .error e
    | .ok (ts, xml) =>
      match parseU64 ts with
      | none => .error .invalid
      | some t => if now < t then .error .invalid else if now - t > maxAge then .error .invalid else .ok xml

inductive Source | eu | un
deriving DecidableEq, Repr

/-- what a conversion sees: the rate TEXT of `currency` (first match), `none` = the implicit base
currency, or an error (falls through to the network, which is an error offline) -/
def lookup (src : Source) (okRate : Bytes → Bool) (contents : Bytes) (now maxAge : Nat) (currency : Bytes) :
    X (Option Bytes) :=
  match loadCached contents now maxAge with
  | .error e => .error e
  | .ok xml =>
    match (match src with | .eu => parseEU okRate xml | .un => parseUN okRate xml) with
    | .error e => .error e
    | .ok ps =>
      let base := match src with | .eu => cp "EUR" | .un => cp "USD"
      if currency = base then .ok none else
      match ps.find? (fun p => p.1 = currency) with
      | some p => .ok (some p.2)
      | none => .error .invalid

end Fend.XRates
