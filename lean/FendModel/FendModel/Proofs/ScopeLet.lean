/-
Referential transparency of a variable bound to a closed arithmetic expression (C09, first sentence):
`x = e; b` computes what `b[x := (e)]` computes.
-/
import FendModel.Model.Scope

namespace Fend.Scope

theorem lookup_setVar_same (vs : Vars) (x : String) (v : Value) : lookup (setVar vs x v) x = some v := by
  induction vs with
  | nil => simp [setVar, lookup]
  | cons p t ih =>
    obtain ⟨k, w⟩ := p
    unfold setVar
    split
    · rename_i h; simp [lookup, h]
    · rename_i h; simp [lookup, h, ih]

theorem lookup_setVar_other (vs : Vars) (x y : String) (v : Value) (h : y ≠ x) : lookup (setVar vs x v) y = lookup vs y := by
  induction vs with
  | nil => simp [setVar, lookup, Ne.symm h]
  | cons p t ih =>
    obtain ⟨k, w⟩ := p
    unfold setVar
    split
    · rename_i hk; subst hk; simp [lookup, Ne.symm h]
    · simp only [lookup]; split <;> simp_all

/-- expressions made of numbers, parentheses, unary minus and + - * / only -/
def closedArith : Expr → Bool
  | .num _ => true
  | .parens e => closedArith e
  | .neg e => closedArith e
  | .bop _ a b => closedArith a && closedArith b
  | _ => false

/-- their value, computed without any context -/
def ceval : Expr → Except Err Rat
  | .num q => .ok q
  | .parens e => ceval e
  | .neg e => match ceval e with | .ok q => .ok (-q) | .error er => .error er
  | .bop op a b =>
    match ceval a with
    | .error er => .error er
    | .ok x => match ceval b with
      | .error er => .error er
      | .ok y => arith op x y
  | _ => .error .badOperands

def depth : Expr → Nat
  | .parens e => depth e + 1
  | .neg e => depth e + 1
  | .bop _ a b => max (depth a) (depth b) + 1
  | .lam _ b => depth b + 1
  | .app f a => max (depth f) (depth a) + 1
  | .assign _ e => depth e + 1
  | .seq a b => max (depth a) (depth b) + 1
  | _ => 1

/-- a closed arithmetic expression evaluates to its value in every scope and context, and changes nothing -/
theorem eval_closed (bi : List (String × Rat)) (e : Expr) (he : closedArith e = true) :
    ∀ fuel, depth e ≤ fuel → ∀ sc vs, eval bi fuel e sc vs =
      (match ceval e with | .ok q => .ok (.num q) | .error er => .error er, vs) := by
  induction e with
  | num q => intro fuel hf sc vs; cases fuel with | zero => simp [depth] at hf | succ f => simp [eval, ceval]
  | parens e ih =>
    intro fuel hf sc vs
    cases fuel with
    | zero => simp [depth] at hf
    | succ f => simp only [eval, ceval]; exact ih (by simpa [closedArith] using he) f (by simp [depth] at hf; omega) sc vs
  | neg e ih =>
    intro fuel hf sc vs
    cases fuel with
    | zero => simp [depth] at hf
    | succ f =>
      simp only [eval, ceval]
      rw [ih (by simpa [closedArith] using he) f (by simp [depth] at hf; omega) sc vs]
      cases ceval e <;> rfl
  | bop op a b iha ihb =>
    intro fuel hf sc vs
    simp only [closedArith, Bool.and_eq_true] at he
    cases fuel with
    | zero => simp [depth] at hf
    | succ f =>
      simp only [depth] at hf
      simp only [eval, ceval]
      rw [iha he.1 f (by omega) sc vs]
      cases ha : ceval a with
      | error er => rfl
      | ok x =>
        simp only
        rw [ihb he.2 f (by omega) sc vs]
        cases hb : ceval b with
        | error er => rfl
        | ok y => simp only; cases arith op x y <;> rfl
  | unitLit => simp [closedArith] at he
  | var y => simp [closedArith] at he
  | lam y b _ => simp [closedArith] at he
  | app f a _ _ => simp [closedArith] at he
  | assign y e _ => simp [closedArith] at he
  | seq a b _ _ => simp [closedArith] at he

/-- bodies without binders, applications or assignments -/
def plainBody : Expr → Bool
  | .num _ => true
  | .unitLit => true
  | .var _ => true
  | .parens e => plainBody e
  | .neg e => plainBody e
  | .bop _ a b => plainBody a && plainBody b
  | .seq a b => plainBody a && plainBody b
  | _ => false

/-- a plain body never changes the variables -/
theorem plain_keeps_vars (bi : List (String × Rat)) (b : Expr) (hb : plainBody b = true) :
    ∀ fuel sc vs, (∀ y a c, sc.find y = some (a, c) → False) → (eval bi fuel b sc vs).2 = vs := by
  induction b with
  | num q => intro fuel sc vs _; cases fuel <;> simp [eval]
  | unitLit => intro fuel sc vs _; cases fuel <;> simp [eval]
  | var y =>
    intro fuel sc vs hsc
    cases fuel with
    | zero => simp [eval]
    | succ f =>
      simp only [eval]
      cases hfind : sc.find y with
      | some p => exact absurd hfind (by intro h; exact hsc y p.1 p.2 (by simpa using h))
      | none =>
        simp only
        cases lookup vs y with
        | some v => rfl
        | none => cases bi.find? (fun p => p.1 = y) <;> rfl
  | parens e ih => intro fuel sc vs hsc; cases fuel with | zero => simp [eval] | succ f => simpa [eval] using ih (by simpa [plainBody] using hb) f sc vs hsc
  | neg e ih =>
    intro fuel sc vs hsc
    cases fuel with
    | zero => simp [eval]
    | succ f =>
      have := ih (by simpa [plainBody] using hb) f sc vs hsc
      simp only [eval]
      cases h : eval bi f e sc vs with
      | mk r vs' =>
        rw [h] at this; simp only at this; subst this
        cases r with
        | error er => rfl
        | ok v => cases v <;> rfl
  | bop op a b iha ihb =>
    intro fuel sc vs hsc
    simp only [plainBody, Bool.and_eq_true] at hb
    cases fuel with
    | zero => simp [eval]
    | succ f =>
      have ha := iha hb.1 f sc vs hsc
      simp only [eval]
      cases h1 : eval bi f a sc vs with
      | mk r1 vs1 =>
        rw [h1] at ha; simp only at ha; subst ha
        cases r1 with
        | error er => rfl
        | ok va =>
          simp only
          have hb' := ihb hb.2 f sc vs1 hsc
          cases h2 : eval bi f b sc vs1 with
          | mk r2 vs2 =>
            rw [h2] at hb'; simp only at hb'; subst hb'
            cases r2 with
            | error er => rfl
            | ok vb =>
              cases va <;> cases vb <;> simp only <;> first | rfl | (split <;> rfl)
  | seq a b iha ihb =>
    intro fuel sc vs hsc
    simp only [plainBody, Bool.and_eq_true] at hb
    cases fuel with
    | zero => simp [eval]
    | succ f =>
      have ha := iha hb.1 f sc vs hsc
      simp only [eval]
      cases h1 : eval bi f a sc vs with
      | mk r1 vs1 =>
        rw [h1] at ha; simp only at ha; subst ha
        cases r1 with
        | error er => rfl
        | ok va => simpa using ihb hb.2 f sc vs1 hsc
  | lam y b _ => simp [plainBody] at hb
  | app f a _ _ => simp [plainBody] at hb
  | assign y e _ => simp [plainBody] at hb


theorem nil_find (y : String) (a : Expr) (c : Scope) : Scope.nil.find y = some (a, c) → False := by simp [Scope.find]

theorem subst_plain (x : String) (e b : Expr) (he : closedArith e = true) (hb : plainBody b = true) : plainBody (subst x e b) = true := by
  have hpe : ∀ e, closedArith e = true → plainBody e = true := by
    intro e
    induction e with
    | num q => intro _; rfl
    | parens e ih => intro h; simpa [plainBody] using ih (by simpa [closedArith] using h)
    | neg e ih => intro h; simpa [plainBody] using ih (by simpa [closedArith] using h)
    | bop op a b iha ihb =>
      intro h; simp only [closedArith, Bool.and_eq_true] at h
      simp [plainBody, iha h.1, ihb h.2]
    | unitLit => intro h; simp [closedArith] at h
    | var y => intro h; simp [closedArith] at h
    | lam y b _ => intro h; simp [closedArith] at h
    | app f a _ _ => intro h; simp [closedArith] at h
    | assign y e _ => intro h; simp [closedArith] at h
    | seq a b _ _ => intro h; simp [closedArith] at h
  induction b with
  | num q => rfl
  | unitLit => rfl
  | var y => simp only [subst]; split <;> simp [plainBody, hpe e he]
  | parens b ih => simpa [subst, plainBody] using ih (by simpa [plainBody] using hb)
  | neg b ih => simpa [subst, plainBody] using ih (by simpa [plainBody] using hb)
  | bop op a b iha ihb =>
    simp only [plainBody, Bool.and_eq_true] at hb
    simp [subst, plainBody, iha hb.1, ihb hb.2]
  | seq a b iha ihb =>
    simp only [plainBody, Bool.and_eq_true] at hb
    simp [subst, plainBody, iha hb.1, ihb hb.2]
  | lam y b _ => simp [plainBody] at hb
  | app f a _ _ => simp [plainBody] at hb
  | assign y e _ => simp [plainBody] at hb

/-- **using a bound name = writing the parenthesised expression in its place**: with `x` bound to the value of a closed
arithmetic expression `e`, a plain body `b` computes exactly what `b[x := (e)]` computes without the binding — same value
or the same error — for every context and all sufficient fuel -/
theorem let_transparent (bi : List (String × Rat)) (x : String) (e : Expr) (q : Rat) (he : closedArith e = true) (hq : ceval e = .ok q)
    (b : Expr) (hb : plainBody b = true) :
    ∀ fuel, depth (subst x e b) ≤ fuel → ∀ vs,
      (eval bi fuel b .nil (setVar vs x (.num q))).1 = (eval bi fuel (subst x e b) .nil vs).1 := by
  induction b with
  | num q' => intro fuel hf vs; cases fuel <;> simp [eval, subst]
  | unitLit => intro fuel hf vs; cases fuel <;> simp [eval, subst]
  | var y =>
    intro fuel hf vs
    cases fuel with
    | zero => simp [eval]
    | succ f =>
      by_cases hy : y = x
      · subst hy
        simp only [subst, if_true, depth] at hf ⊢
        have hc := eval_closed bi e he f (by omega) .nil vs
        simp [eval, Scope.find, lookup_setVar_same, hc, hq]
      · simp [eval, subst, hy, Scope.find, lookup_setVar_other _ _ _ _ hy]
        cases lookup vs y with
        | some v => rfl
        | none => cases bi.find? (fun p => p.1 = y) <;> rfl
  | parens b ih =>
    intro fuel hf vs
    cases fuel with
    | zero => simp [eval]
    | succ f => simp only [eval, subst]; exact ih (by simpa [plainBody] using hb) f (by simp [subst, depth] at hf; omega) vs
  | neg b ih =>
    intro fuel hf vs
    cases fuel with
    | zero => simp [eval]
    | succ f =>
      have h := ih (by simpa [plainBody] using hb) f (by simp [subst, depth] at hf; omega) vs
      simp only [eval, subst]
      cases h1 : eval bi f b .nil (setVar vs x (.num q)) with
      | mk r1 v1 =>
        cases h2 : eval bi f (subst x e b) .nil vs with
        | mk r2 v2 =>
          rw [h1, h2] at h; simp only at h; subst h
          cases r1 with
          | error er => rfl
          | ok v => cases v <;> rfl
  | bop op a b iha ihb =>
    intro fuel hf vs
    simp only [plainBody, Bool.and_eq_true] at hb
    cases fuel with
    | zero => simp [eval]
    | succ f =>
      simp only [subst, depth] at hf
      have ha := iha hb.1 f (by omega) vs
      have hka := plain_keeps_vars bi a hb.1 f .nil (setVar vs x (.num q)) nil_find
      have hka' := plain_keeps_vars bi (subst x e a) (subst_plain x e a he hb.1) f .nil vs nil_find
      have hb' := ihb hb.2 f (by omega) vs
      have hkb := plain_keeps_vars bi b hb.2 f .nil (setVar vs x (.num q)) nil_find
      have hkb' := plain_keeps_vars bi (subst x e b) (subst_plain x e b he hb.2) f .nil vs nil_find
      simp only [eval, subst]
      cases h1 : eval bi f a .nil (setVar vs x (.num q)) with
      | mk r1 v1 =>
        cases h2 : eval bi f (subst x e a) .nil vs with
        | mk r2 v2 =>
          rw [h1] at ha hka; rw [h2] at ha hka'
          simp only at ha hka hka'
          subst ha; subst hka; have hka2 := hka'.symm; subst hka2
          cases r1 with
          | error er => rfl
          | ok va =>
            simp only
            cases h3 : eval bi f b .nil (setVar vs x (.num q)) with
            | mk r3 v3 =>
              cases h4 : eval bi f (subst x e b) .nil vs with
              | mk r4 v4 =>
                rw [h3] at hb' hkb; rw [h4] at hb' hkb'
                simp only at hb' hkb hkb'
                subst hb'; subst hkb; have hkb2 := hkb'.symm; subst hkb2
                cases r3 with
                | error er => rfl
                | ok vb => cases va <;> cases vb <;> simp only <;> first | rfl | (split <;> rfl)
  | seq a b iha ihb =>
    intro fuel hf vs
    simp only [plainBody, Bool.and_eq_true] at hb
    cases fuel with
    | zero => simp [eval]
    | succ f =>
      simp only [subst, depth] at hf
      have ha := iha hb.1 f (by omega) vs
      have hka := plain_keeps_vars bi a hb.1 f .nil (setVar vs x (.num q)) nil_find
      have hka' := plain_keeps_vars bi (subst x e a) (subst_plain x e a he hb.1) f .nil vs nil_find
      have hb' := ihb hb.2 f (by omega) vs
      simp only [eval, subst]
      cases h1 : eval bi f a .nil (setVar vs x (.num q)) with
      | mk r1 v1 =>
        cases h2 : eval bi f (subst x e a) .nil vs with
        | mk r2 v2 =>
          rw [h1] at ha hka; rw [h2] at ha hka'
          simp only at ha hka hka'
          subst ha; subst hka; have hka2 := hka'.symm; subst hka2
          cases r1 with
          | error er => rfl
          | ok va => simpa using hb'
  | lam y b _ => simp [plainBody] at hb
  | app f a _ _ => simp [plainBody] at hb
  | assign y e' _ => simp [plainBody] at hb

/-- the statement form: `x = e; b` at the top level yields what `b[x := (e)]` yields -/
theorem let_statement (bi : List (String × Rat)) (x : String) (e : Expr) (q : Rat) (he : closedArith e = true) (hq : ceval e = .ok q)
    (b : Expr) (hb : plainBody b = true) (fuel : Nat) (hf : depth (subst x e b) ≤ fuel) (hfe : depth e + 1 ≤ fuel) (vs : Vars) :
    (eval bi (fuel + 1) (.seq (.assign x e) b) .nil vs).1 = (eval bi fuel (subst x e b) .nil vs).1 := by
  obtain ⟨f, rfl⟩ : ∃ f, fuel = f + 1 := ⟨fuel - 1, by omega⟩
  have hc := eval_closed bi e he f (by omega) .nil vs
  have hassign : eval bi (f + 1) (.assign x e) .nil vs = (.ok (.num q), setVar vs x (.num q)) := by
    simp [eval, hc, hq]
  simp only [eval] at hassign ⊢
  rw [hassign]
  exact let_transparent bi x e q he hq b hb (f + 1) hf vs

end Fend.Scope
