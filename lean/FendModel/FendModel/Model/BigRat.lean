/-
Executable model of `core/src/num/bigrat.rs` (exact arithmetic part):
`add_internal`, `mul`, `div`, `neg`, `simplify`, `pow` (integer and fractional exponents via
`root_n`), `modulo`, `factorial`/`apply_uint_op`, `bitwise`, `combination`, `permutation`,
`try_as_usize`, `Ord`.  Same conventions as `Model/BigUint.lean`.
-/
import FendModel.Model.BigUint

namespace Fend

structure BigRat where
  neg : Bool
  num : BigUint
  den : BigUint
deriving DecidableEq, Repr, Inhabited

namespace BigRat
open BigUint (small large)

def ofNat64 (n : Nat) : BigRat := ⟨false, small n, small 1⟩
def ofUint (n : BigUint) : BigRat := ⟨false, n, small 1⟩

def negate (x : BigRat) : BigRat := { x with neg := !x.neg }

def signOfProduct (a b : Bool) : Bool := a != b

def numIsZero (x : BigRat) : Bool := BigUint.beq x.num (small 0)
def denIsOne (x : BigRat) : Bool := BigUint.beq x.den (small 1)

def simplify (x : BigRat) : R BigRat :=
  if denIsOne x then .ok x else do
    let g ← BigUint.gcd x.num x.den
    let n ← BigUint.div x.num g
    let d ← BigUint.div x.den g
    .ok { x with num := n, den := d }

/-- `add_internal` for a non-negative left operand -/
def addPos (a b : BigRat) : R BigRat :=
  if BigUint.beq a.den b.den then
    if b.neg && BigUint.blt a.num b.num then do
      let n ← BigUint.sub b.num a.num
      .ok ⟨true, n, a.den⟩
    else do
      let n ← if !b.neg then .ok (BigUint.add a.num b.num) else BigUint.sub a.num b.num
      .ok ⟨false, n, a.den⟩
  else do
    let g ← BigUint.gcd a.den b.den
    let nd ← BigUint.div (BigUint.mul a.den b.den) g
    let x ← BigUint.div (BigUint.mul a.num b.den) g
    let y ← BigUint.div (BigUint.mul b.num a.den) g
    if b.neg && BigUint.blt x y then do
      let n ← BigUint.sub y x
      .ok ⟨true, n, nd⟩
    else do
      let n ← if !b.neg then .ok (BigUint.add x y) else BigUint.sub x y
      .ok ⟨false, n, nd⟩

/-- `a + b == -((-a) + (-b))` when `a` is negative -/
def add (a b : BigRat) : R BigRat :=
  if a.neg then do
    let r ← addPos (negate a) (negate b)
    .ok (negate r)
  else addPos a b

def sub (a b : BigRat) : R BigRat := add a (negate b)

def mul (a b : BigRat) : BigRat :=
  ⟨signOfProduct a.neg b.neg, BigUint.mul a.num b.num, BigUint.mul a.den b.den⟩

def div (a b : BigRat) : R BigRat :=
  if numIsZero b then .error .divideByZero
  else .ok ⟨signOfProduct a.neg b.neg, BigUint.mul a.num b.den, BigUint.mul a.den b.num⟩

/-- `Ord for BigRat`: sign of `self - other`; `none` = the `unwrap()` of an error -/
def cmp (a b : BigRat) : Option Ordering :=
  match add a (negate b) with
  | .error _ => none
  | .ok d => some (if BigUint.beq d.num (small 0) then .eq else if !d.neg then .gt else .lt)

def cmpD (a b : BigRat) : Ordering := (cmp a b).getD .eq

/-- 50 bisection steps of `iter_root_n`; `powf` is `pow` (tied below) -/
def iterRootN (powf : BigRat → BigRat → R (BigRat × Bool)) (low val n : BigRat) : R BigRat := do
  let high ← add low (ofNat64 1)
  let rec go : Nat → BigRat → BigRat → R (BigRat × BigRat)
    | 0, lo, hi => .ok (lo, hi)
    | k + 1, lo, hi => do
      let s ← add lo hi
      let guess ← div s (ofNat64 2)
      let (p, _) ← powf guess n
      if cmpD p val == .lt then go k guess hi else go k lo guess
  let (lo, hi) ← go 50 low high
  let s ← add lo hi
  div s (ofNat64 2)

def rootN (powf : BigRat → BigRat → R (BigRat × Bool)) (x n : BigRat) : R (BigRat × Bool) := do
  if !numIsZero x && x.neg then .error .rootsOfNegative else
  let n ← simplify n
  if !denIsOne n || n.neg then .error .nonIntegerNegRoots else
  let nn := n.num
  if numIsZero x then .ok (x, true) else
  let (rn, en) ← BigUint.rootN x.num nn
  let (rd, ed) ← BigUint.rootN x.den nn
  if en && ed then .ok (⟨false, rn, rd⟩, true) else
  let numRat ← if en then .ok (ofUint rn) else iterRootN powf (ofUint rn) (ofUint x.num) (ofUint nn)
  let denRat ← if ed then .ok (ofUint rd) else iterRootN powf (ofUint rd) (ofUint x.den) (ofUint nn)
  let q ← div numRat denRat
  .ok (q, false)

/-- `BigRat::pow`; fuel bounds the recursion (negative exponent: one level; the bisection of
`iter_root_n` calls `pow` with integer exponents only) -/
def pow : Nat → BigRat → BigRat → R (BigRat × Bool)
  | 0, _, _ => .error .other
  | fuel + 1, x, e => do
    let x ← simplify x
    let e ← simplify e
    if !numIsZero x && x.neg && !denIsOne e then .error .rootsOfNegative else
    if e.neg then
      let (r, ex) ← pow fuel x { e with neg := false }
      let q ← div (ofNat64 1) r
      .ok (q, ex)
    else
      let even ← BigUint.isEven e.num
      let sign := if !x.neg || even then false else true
      let pn ← BigUint.pow x.num e.num
      let pd ← BigUint.pow x.den e.num
      let res : BigRat := ⟨sign, pn, pd⟩
      if denIsOne e then .ok (res, true)
      else rootN (pow fuel) res ⟨false, e.den, small 1⟩

def powTop (x e : BigRat) : R (BigRat × Bool) := pow 4 x e

def modulo (a b : BigRat) : R BigRat := do
  if numIsZero b then .error .moduloByZero else
  let a ← simplify a
  let b ← simplify b
  if (a.neg && !numIsZero a) || b.neg || !denIsOne a || !denIsOne b then .error .moduloForPositiveInts
  else
    let (_, r) ← BigUint.divmod a.num b.num
    .ok ⟨false, r, small 1⟩

/-- `apply_uint_op`: the operand as a natural number or the documented error -/
def asUint (x : BigRat) : R BigUint := do
  let x ← simplify x
  if !denIsOne x then .error .mustBeInteger
  else if x.neg && !numIsZero x then .error .outOfRange
  else .ok x.num

def factorial (x : BigRat) : R BigRat := do
  let n ← asUint x
  let f ← BigUint.factorial n
  .ok (ofUint f)

def bitwise (op : String) (a b : BigRat) : R BigRat := do
  let x ← asUint a
  let y ← asUint b
  let r ← match op with
    | "and" => BigUint.bitwiseAnd x y
    | "or" => BigUint.bitwiseOr x y
    | "xor" => BigUint.bitwiseXor x y
    | "shl" => BigUint.lshiftN x y
    | _ => BigUint.rshiftN x y
  .ok (ofUint r)

def combination (n r : BigRat) : R BigRat := do
  let nf ← factorial n
  let rf ← factorial r
  let d ← add n (negate r)
  let df ← factorial d
  div nf (mul rf df)

def permutation (n r : BigRat) : R BigRat := do
  let _ ← asUint r
  let nf ← factorial n
  let d ← add n (negate r)
  let df ← factorial d
  div nf df

def tryAsUsize (x : BigRat) : R Nat := do
  if x.neg && !numIsZero x then .error .negativeNumbers else
  let x ← simplify x
  if !denIsOne x then .error .fractionToInteger else BigUint.tryAsUsize x.num

end BigRat
end Fend
