"""Shared by C04 / C05: the resolved unit table of the tree under test and helpers to talk to the driver."""
import re
from fractions import Fraction as F
from translator import units

SPECIAL = {"kelvin": 0, "celsius": 1, "fahrenheit": 2}

def load(ctx, h, with_prefixes=True, quick=True):
    table, short, currencies = units.generate_raw()
    names = [n for n in dict.fromkeys([x for _, s, p, _ in table for x in (s, p) if x]) if n not in ("'", '"') and " " not in n]
    long_allowed = [s for _, s, p, d in table if units.rule_of(d)[0] == "longAllowed"]
    long_prefixes = [s for _, s, p, d in table if units.rule_of(d)[0] == "longPrefix" and s not in ("quarter", "semi", "demi", "hemi", "half", "double", "triple", "treble")]
    r = ctx.rng
    extra = []
    if with_prefixes:
        for n in (long_allowed if not quick else r.sample(long_allowed, min(25, len(long_allowed)))):
            for p in r.sample(long_prefixes, 2):
                extra.append(p + n)
    res = units.resolve(ctx, h, names + extra)
    # a proper unit prints as `1 <name> (= <scale> <base units>)`: one component, leading number 1
    # (physical constants such as `gravity` are numeric aliases and cannot be conversion targets)
    def proper(o):
        return re.match(r"ok 1 \S+ \((?:[^,=()]+, )?= [^()]*\)(?: \(base|$)", o) is not None
    ok = {n: v[0] for n, v in res.items() if v[0] is not None and proper(v[1])}
    bases = sorted({b for v in ok.values() for b in v[2]})
    ids = dict(SPECIAL)
    for b in bases:
        if b not in ids:
            ids[b] = len(ids)
    return ok, ids

def reduce_dims(d):
    """python mirror of the renaming only (used to group units into dimension classes)"""
    out = {}
    for b, e in d.items():
        b2 = "kelvin" if b in ("celsius", "fahrenheit") else b
        out[b2] = out.get(b2, 0) + e
    return tuple(sorted((b, e) for b, e in out.items() if e != 0))

def q(x):
    x = F(x)
    return f"{x.numerator}/{x.denominator}"

def dims_str(d, ids):
    if not d:
        return "-"
    return ",".join(f"{ids[b]}:{q(e)}" for b, e in sorted(d.items(), key=lambda kv: ids[kv[0]]))

def lead_number(out):
    """'ok 127/10 cm' -> Fraction(127,10); None when absent / approx"""
    m = re.match(r"ok (-?[0-9]+(?:/[0-9]+)?)(?: |$)", out)
    return F(m.group(1)) if m else None
