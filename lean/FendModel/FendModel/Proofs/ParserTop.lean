/-
The top of the grammar over complete operator chains: `==` / `!=` (one comparison, between two chains), `=` (right-nested
assignments to identifiers) and `;` (statement sequences, folded to the left) parse back to exactly the tree the manual's
table prescribes.
-/
import FendModel.Proofs.Parser

namespace Fend.Parser

/-- Eq ::= C6 | C6 == C6 | C6 != C6 -/
inductive EqT where
  | plain (c : Chain 6)
  | cmp (isEq : Bool) (l r : Chain 6)

def EqT.toExpr : EqT → Expr
  | .plain c => c.toExpr
  | .cmp b l r => .equality b l.toExpr r.toExpr

def EqT.toToks : EqT → List Tok
  | .plain c => c.toToks
  | .cmp b l r => l.toToks ++ .sym (if b then .eq2 else .ne) :: r.toToks

/-- As ::= Eq | ident = As -/
inductive AsT where
  | plain (e : EqT)
  | assign (x : String) (a : AsT)

def AsT.toExpr : AsT → Expr
  | .plain e => e.toExpr
  | .assign x a => .assign x a.toExpr

def AsT.toToks : AsT → List Tok
  | .plain e => e.toToks
  | .assign x a => .ident x :: .sym .eq :: a.toToks

/-- what may follow a statement: end of input, `)` or `;` -/
def StopA (rest : List Tok) : Prop := rest = [] ∨ (∃ r, rest = .sym .closeP :: r) ∨ (∃ r, rest = .sym .semi :: r)

/-- what may follow a comparison: the above or `=` -/
def StopE (rest : List Tok) : Prop := StopA rest ∨ ∃ r, rest = .sym .eq :: r

theorem function_of_chain (c : Chain 6) :
    ∃ F, ∀ fuel, F ≤ fuel → ∀ rest, Follow 6 rest → symHead rest .fn_ = none →
      run fuel .function (c.toToks ++ rest) = some (c.toExpr, rest) := by
  obtain ⟨F, hF⟩ := good_main c (chain_good (by omega) c)
  refine ⟨F + 1, fun fuel hf rest hr hfn => ?_⟩
  obtain ⟨g, rfl⟩ : ∃ g, fuel = g + 1 := ⟨fuel - 1, by omega⟩
  exact function_step g _ _ _ (by simpa [entryLv] using hF g (by omega) rest hr) hfn

theorem stopE_follow (rest : List Tok) (h : StopE rest) : Follow 6 rest ∧ symHead rest .fn_ = none ∧
    (∀ r, rest ≠ .sym .eq2 :: r) ∧ (∀ r, rest ≠ .sym .ne :: r) := by
  rcases h with (rfl | ⟨r, rfl⟩ | ⟨r, rfl⟩) | ⟨r, rfl⟩
  · exact ⟨Or.inl rfl, rfl, by simp, by simp⟩
  · exact ⟨Or.inr ⟨_, _, rfl, by decide⟩, by simp [symHead], by simp, by simp⟩
  · exact ⟨Or.inr ⟨_, _, rfl, by decide⟩, by simp [symHead], by simp, by simp⟩
  · exact ⟨Or.inr ⟨_, _, rfl, by decide⟩, by simp [symHead], by simp, by simp⟩

theorem eqt_ok (e : EqT) : ∃ F, ∀ fuel, F ≤ fuel → ∀ rest, StopE rest →
    run fuel .equality (e.toToks ++ rest) = some (e.toExpr, rest) := by
  cases e with
  | plain c =>
    obtain ⟨F, hF⟩ := function_of_chain c
    refine ⟨F + 1, fun fuel hf rest hr => ?_⟩
    obtain ⟨g, rfl⟩ : ∃ g, fuel = g + 1 := ⟨fuel - 1, by omega⟩
    obtain ⟨h1, h2, h3, h4⟩ := stopE_follow rest hr
    have := hF g (by omega) rest h1 h2
    rcases hr with (rfl | ⟨r, rfl⟩ | ⟨r, rfl⟩) | ⟨r, rfl⟩ <;> (try simp only [List.append_nil] at this) <;> simp [EqT.toToks, EqT.toExpr, run, this]
  | cmp b l r =>
    obtain ⟨Fl, hFl⟩ := function_of_chain l
    obtain ⟨Fr, hFr⟩ := function_of_chain r
    refine ⟨max Fl Fr + 1, fun fuel hf rest hr => ?_⟩
    obtain ⟨g, rfl⟩ : ∃ g, fuel = g + 1 := ⟨fuel - 1, by omega⟩
    obtain ⟨h1, h2, _, _⟩ := stopE_follow rest hr
    have hl := hFl g (by omega) (.sym (if b then .eq2 else .ne) :: (r.toToks ++ rest))
      (Or.inr ⟨_, _, rfl, by cases b <;> decide⟩) (by cases b <;> simp [symHead])
    have hr' := hFr g (by omega) rest h1 h2
    have htoks : (EqT.cmp b l r).toToks ++ rest = l.toToks ++ .sym (if b then .eq2 else .ne) :: (r.toToks ++ rest) := by
      simp [EqT.toToks]
    rw [htoks]
    simp only [run, hl, EqT.toExpr]
    cases b <;> simp [hr']

/-- an identifier in front of `=` is read as that identifier by the comparison level (every loop in between stops at `=`) -/
theorem ident_before_eq (x : String) (more : List Tok) (fuel : Nat) (hf : 16 ≤ fuel) :
    run fuel .equality (.ident x :: .sym .eq :: more) = some (.ident x, .sym .eq :: more) := by
  obtain ⟨g, rfl⟩ : ∃ g, fuel = g + 16 := ⟨fuel - 16, by omega⟩
  simp [run, symHead, leftLoop]

theorem ast_ok (a : AsT) : ∃ F, ∀ fuel, F ≤ fuel → ∀ rest, StopA rest →
    run fuel .assignment (a.toToks ++ rest) = some (a.toExpr, rest) := by
  induction a with
  | plain e =>
    obtain ⟨F, hF⟩ := eqt_ok e
    refine ⟨F + 1, fun fuel hf rest hr => ?_⟩
    obtain ⟨g, rfl⟩ : ∃ g, fuel = g + 1 := ⟨fuel - 1, by omega⟩
    have := hF g (by omega) rest (Or.inl hr)
    simp only [AsT.toToks, AsT.toExpr, run, this]
    rcases hr with rfl | ⟨r, rfl⟩ | ⟨r, rfl⟩ <;> simp [symHead]
  | assign x a ih =>
    obtain ⟨F, hF⟩ := ih
    refine ⟨max F 16 + 1, fun fuel hf rest hr => ?_⟩
    obtain ⟨g, rfl⟩ : ∃ g, fuel = g + 1 := ⟨fuel - 1, by omega⟩
    have h1 := ident_before_eq x (a.toToks ++ rest) g (by omega)
    have h2 := hF g (by omega) rest hr
    simp only [AsT.toToks, AsT.toExpr, List.cons_append, run, h1, symHead, if_true, h2]

/-- how a statement's text may begin -/
def AStart (t0 : Tok) : Prop := Starts t0 ∨ ∃ x, t0 = .ident x

theorem eqt_starts (e : EqT) : ∃ t0 ts, e.toToks = t0 :: ts ∧ Starts t0 := by
  cases e with
  | plain c => exact chain_starts c
  | cmp b l r =>
    obtain ⟨t0, ts, h, hs⟩ := chain_starts l
    exact ⟨t0, ts ++ .sym (if b then .eq2 else .ne) :: r.toToks, by simp [EqT.toToks, h], hs⟩

theorem ast_starts (a : AsT) : ∃ t0 ts, a.toToks = t0 :: ts ∧ AStart t0 := by
  cases a with
  | plain e => obtain ⟨t0, ts, h, hs⟩ := eqt_starts e; exact ⟨t0, ts, h, Or.inl hs⟩
  | assign x a => exact ⟨.ident x, .sym .eq :: a.toToks, rfl, Or.inr ⟨x, rfl⟩⟩

/-- `a ; b ; c` is `stmts (stmts a b) c` -/
def foldStmts (acc : Expr) : List AsT → Expr
  | [] => acc
  | b :: t => foldStmts (.stmts acc b.toExpr) t

def semiToks : List AsT → List Tok
  | [] => []
  | b :: t => .sym .semi :: (b.toToks ++ semiToks t)

def EndS (rest : List Tok) : Prop := rest = [] ∨ ∃ r, rest = .sym .closeP :: r

theorem semiToks_stop (t : List AsT) (rest : List Tok) (hr : EndS rest) : StopA (semiToks t ++ rest) := by
  cases t with
  | nil => rcases hr with rfl | ⟨r, rfl⟩; exact Or.inl rfl; exact Or.inr (Or.inl ⟨r, rfl⟩)
  | cons b t => exact Or.inr (Or.inr ⟨_, rfl⟩)

theorem stmtLoop_ok (t : List AsT) : ∀ acc : Expr, ∃ F, ∀ fuel, F ≤ fuel → ∀ rest, EndS rest →
    run fuel (.stmtLoop acc) (semiToks t ++ rest) = some (foldStmts acc t, rest) := by
  induction t with
  | nil =>
    intro acc
    refine ⟨1, fun fuel hf rest hr => ?_⟩
    obtain ⟨g, rfl⟩ : ∃ g, fuel = g + 1 := ⟨fuel - 1, by omega⟩
    exact stmtLoop_stops g acc rest hr
  | cons b t ih =>
    intro acc
    obtain ⟨Fb, hFb⟩ := ast_ok b
    obtain ⟨Ft, hFt⟩ := ih (.stmts acc b.toExpr)
    refine ⟨max Fb Ft + 1, fun fuel hf rest hr => ?_⟩
    obtain ⟨g, rfl⟩ : ∃ g, fuel = g + 1 := ⟨fuel - 1, by omega⟩
    have h1 := hFb g (by omega) (semiToks t ++ rest) (semiToks_stop t rest hr)
    have h2 := hFt g (by omega) rest hr
    obtain ⟨t0, ts, hts, hs⟩ := ast_starts b
    have htoks : semiToks (b :: t) ++ rest = .sym .semi :: (t0 :: (ts ++ (semiToks t ++ rest))) := by
      simp [semiToks, hts]
    rw [htoks]
    rw [hts] at h1
    simp only [List.cons_append] at h1
    rcases hs with (⟨n, rfl⟩ | rfl | rfl) | ⟨x, rfl⟩ <;> simp [run, h1, h2, foldStmts]

/-- **statement sequences**: `a1 ; a2 ; … ; an`, each `ai` a chain, a comparison of two chains, or (nested) assignments of one,
parse from the statement level to the left-folded `stmts` tree, consuming all input (or up to a closing parenthesis) -/
theorem statements_ok (a : AsT) (t : List AsT) : ∃ F, ∀ fuel, F ≤ fuel → ∀ rest, EndS rest →
    run fuel .statements (a.toToks ++ (semiToks t ++ rest)) = some (foldStmts a.toExpr t, rest) := by
  obtain ⟨Fa, hFa⟩ := ast_ok a
  obtain ⟨Ft, hFt⟩ := stmtLoop_ok t a.toExpr
  refine ⟨max Fa Ft + 1, fun fuel hf rest hr => ?_⟩
  obtain ⟨g, rfl⟩ : ∃ g, fuel = g + 1 := ⟨fuel - 1, by omega⟩
  have h1 := hFa g (by omega) (semiToks t ++ rest) (semiToks_stop t rest hr)
  have h2 := hFt g (by omega) rest hr
  obtain ⟨t0, ts, hts, hs⟩ := ast_starts a
  rw [hts] at h1 ⊢
  simp only [List.cons_append] at h1 ⊢
  rcases hs with (⟨n, rfl⟩ | rfl | rfl) | ⟨x, rfl⟩ <;> simp [run, h1, h2]

/-! ### fractions as the renderer writes them: `N/D`, `I N/D`, `-I N/D` (token level, any digit strings) -/

theorem improper_fraction_parse (n d : String) (g : Nat) :
    run (g + 40) .statements [.num n, .sym .div, .num d] = some (.bop .div (.num n) (.num d), []) := by
  simp [run, leftLoop, symHead]

/-- a mixed fraction is read as the SUM of its integer part and its fraction (the juxtaposition is not a product here) -/
theorem mixed_fraction_parse (i n d : String) (g : Nat) :
    run (g + 40) .statements [.num i, .num n, .sym .div, .num d] = some (.bop .plus (.num i) (.bop .div (.num n) (.num d)), []) := by
  simp [run, leftLoop, symHead, isNum]

/-- … and a negative one as `(-I) - N/D`, i.e. `-(I + N/D)` -/
theorem neg_mixed_fraction_parse (i n d : String) (g : Nat) :
    run (g + 40) .statements [.sym .sub, .num i, .num n, .sym .div, .num d] =
      some (.bop .minus (.neg (.num i)) (.bop .div (.num n) (.num d)), []) := by
  simp [run, leftLoop, symHead, isNum]

/-! ### number-unit juxtaposition (token level, any number / identifier strings other than `%`) -/

theorem jux_add (a u b v : String) (hu : u ≠ "%") (hv : v ≠ "%") (g : Nat) :
    run (g + 60) .statements [.num a, .ident u, .sym .add, .num b, .ident v] =
      some (.bop .plus (.applyMul (.num a) (.ident u)) (.applyMul (.num b) (.ident v)), []) := by
  simp [run, leftLoop, symHead, isNum, isApplyMul, hu, hv]

theorem jux_sub (a u b v : String) (hu : u ≠ "%") (hv : v ≠ "%") (g : Nat) :
    run (g + 60) .statements [.num a, .ident u, .sym .sub, .num b, .ident v] =
      some (.bop .minus (.applyMul (.num a) (.ident u)) (.applyMul (.num b) (.ident v)), []) := by
  simp [run, leftLoop, symHead, isNum, isApplyMul, hu, hv]

theorem jux_shl (a u b v : String) (hu : u ≠ "%") (hv : v ≠ "%") (g : Nat) :
    run (g + 60) .statements [.num a, .ident u, .sym .shl, .num b, .ident v] =
      some (.bop .shl (.applyMul (.num a) (.ident u)) (.applyMul (.num b) (.ident v)), []) := by
  simp [run, leftLoop, symHead, isNum, isApplyMul, hu, hv]

theorem jux_shr (a u b v : String) (hu : u ≠ "%") (hv : v ≠ "%") (g : Nat) :
    run (g + 60) .statements [.num a, .ident u, .sym .shr, .num b, .ident v] =
      some (.bop .shr (.applyMul (.num a) (.ident u)) (.applyMul (.num b) (.ident v)), []) := by
  simp [run, leftLoop, symHead, isNum, isApplyMul, hu, hv]

theorem jux_bitAnd (a u b v : String) (hu : u ≠ "%") (hv : v ≠ "%") (g : Nat) :
    run (g + 60) .statements [.num a, .ident u, .sym .bitAnd, .num b, .ident v] =
      some (.bop .bitAnd (.applyMul (.num a) (.ident u)) (.applyMul (.num b) (.ident v)), []) := by
  simp [run, leftLoop, symHead, isNum, isApplyMul, hu, hv]

theorem jux_bitXor (a u b v : String) (hu : u ≠ "%") (hv : v ≠ "%") (g : Nat) :
    run (g + 60) .statements [.num a, .ident u, .sym .bitXor, .num b, .ident v] =
      some (.bop .bitXor (.applyMul (.num a) (.ident u)) (.applyMul (.num b) (.ident v)), []) := by
  simp [run, leftLoop, symHead, isNum, isApplyMul, hu, hv]

theorem jux_bitOr (a u b v : String) (hu : u ≠ "%") (hv : v ≠ "%") (g : Nat) :
    run (g + 60) .statements [.num a, .ident u, .sym .bitOr, .num b, .ident v] =
      some (.bop .bitOr (.applyMul (.num a) (.ident u)) (.applyMul (.num b) (.ident v)), []) := by
  simp [run, leftLoop, symHead, isNum, isApplyMul, hu, hv]

theorem jux_comb (a u b v : String) (hu : u ≠ "%") (hv : v ≠ "%") (g : Nat) :
    run (g + 60) .statements [.num a, .ident u, .sym .comb, .num b, .ident v] =
      some (.bop .comb (.applyMul (.num a) (.ident u)) (.applyMul (.num b) (.ident v)), []) := by
  simp [run, leftLoop, symHead, isNum, isApplyMul, hu, hv]

theorem jux_perm (a u b v : String) (hu : u ≠ "%") (hv : v ≠ "%") (g : Nat) :
    run (g + 60) .statements [.num a, .ident u, .sym .perm, .num b, .ident v] =
      some (.bop .perm (.applyMul (.num a) (.ident u)) (.applyMul (.num b) (.ident v)), []) := by
  simp [run, leftLoop, symHead, isNum, isApplyMul, hu, hv]

/-- juxtaposition and `*` / `/` share a level and group from the left -/
theorem jux_mul (a u b v : String) (hu : u ≠ "%") (hv : v ≠ "%") (g : Nat) :
    run (g + 60) .statements [.num a, .ident u, .sym .mul, .num b, .ident v] =
      some (.apply (.bop .mul (.applyMul (.num a) (.ident u)) (.num b)) (.ident v), []) ∧
    run (g + 60) .statements [.num a, .ident u, .sym .div, .num b, .ident v] =
      some (.apply (.bop .div (.applyMul (.num a) (.ident u)) (.num b)) (.ident v), []) ∧
    run (g + 60) .statements [.num a, .ident u, .ident v] =
      some (.applyMul (.applyMul (.num a) (.ident u)) (.ident v), []) := by
  refine ⟨?_, ?_, ?_⟩ <;> simp [run, leftLoop, symHead, isNum, isApplyMul, hu, hv]

/-- `^`, `!` and unary minus bind tighter than juxtaposition -/
theorem jux_tighter (a u k : String) (hu : u ≠ "%") (g : Nat) :
    run (g + 60) .statements [.num a, .ident u, .sym .pow, .num k] =
      some (.apply (.num a) (.bop .pow (.ident u) (.num k)), []) ∧
    run (g + 60) .statements [.num a, .ident u, .sym .fact] =
      some (.applyMul (.num a) (.fact (.ident u)), []) ∧
    run (g + 60) .statements [.sym .sub, .num a, .ident u] =
      some (.apply (.neg (.num a)) (.ident u), []) := by
  refine ⟨?_, ?_, ?_⟩ <;> simp [run, leftLoop, symHead, isNum, isApplyMul, hu]

/-- implicit sums of quantities (`5 ft 3 in`), conversion with `to` below `+`, and function application by juxtaposition -/
theorem jux_more (a u b v w f : String) (hu : u ≠ "%") (hv : v ≠ "%") (hw : w ≠ "%") (g : Nat) :
    run (g + 60) .statements [.num a, .ident u, .num b, .ident v] =
      some (.bop .implicitPlus (.applyMul (.num a) (.ident u)) (.applyMul (.num b) (.ident v)), []) ∧
    run (g + 60) .statements [.num a, .ident u, .sym .conv, .ident v] = some (.as_ (.applyMul (.num a) (.ident u)) (.ident v), []) ∧
    run (g + 60) .statements [.num a, .ident u, .sym .add, .num b, .ident v, .sym .conv, .ident w] =
      some (.as_ (.bop .plus (.applyMul (.num a) (.ident u)) (.applyMul (.num b) (.ident v))) (.ident w), []) ∧
    run (g + 60) .statements [.ident f, .num a] = some (.applyFn (.ident f) (.num a), []) := by
  refine ⟨?_, ?_, ?_, ?_⟩ <;> simp [run, leftLoop, symHead, isNum, isApplyMul, hu, hv, hw]

/-- unary `+` and `/`, chained conversions (left-nested), a lambda `x: body` taking everything to its right, and unary minus
against `^` on both sides (`-a^b` = `-(a^b)`, `a^-b` = `a^(-b)`) -/
theorem shapes_unary_lambda (a b u v x : String) (hu : u ≠ "%") (hv : v ≠ "%") (hx : x ≠ "%") (g : Nat) :
    run (g + 60) .statements [.sym .add, .num a] = some (.pos (.num a), []) ∧
    run (g + 60) .statements [.sym .div, .num a] = some (.udiv (.num a), []) ∧
    run (g + 60) .statements [.num a, .sym .conv, .ident u, .sym .conv, .ident v] = some (.as_ (.as_ (.num a) (.ident u)) (.ident v), []) ∧
    run (g + 60) .statements [.ident x, .sym .fn_, .ident x, .sym .add, .num a] = some (.fn_ x (.bop .plus (.ident x) (.num a)), []) ∧
    run (g + 60) .statements [.sym .sub, .num a, .sym .pow, .num b] = some (.neg (.bop .pow (.num a) (.num b)), []) ∧
    run (g + 60) .statements [.num a, .sym .pow, .sym .sub, .num b] = some (.bop .pow (.num a) (.neg (.num b)), []) := by
  refine ⟨?_, ?_, ?_, ?_, ?_, ?_⟩ <;> simp [run, leftLoop, symHead, isNum, isApplyMul, hu, hv, hx]

end Fend.Parser
