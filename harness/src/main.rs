//! `fend-verif-harness <stream>`: reads one case per line on stdin, runs the real
//! fend code in-process (feature `verif-hooks`), prints one canonical answer per line.
mod common;
mod s_biguint;
mod s_text;

use std::io::{self, BufRead, Write};

fn main() {
    let args: Vec<String> = std::env::args().collect();
    let stream = args.get(1).map(String::as_str).unwrap_or("");
    common::silence_panics();
    let f: fn(&str) -> String = match stream {
        "biguint" => s_biguint::line,
        "json" => s_text::json_line,
        "inline" => s_text::inline_line,
        "evalseq" => s_text::evalseq_line,
        "strlit" => s_text::strlit_line,
        _ => {
            eprintln!("usage: fend-verif-harness <stream>");
            std::process::exit(2);
        }
    };
    let stdin = io::stdin();
    let stdout = io::stdout();
    let mut out = io::BufWriter::new(stdout.lock());
    for l in stdin.lock().lines() {
        let l = l.expect("read");
        writeln!(out, "{}", f(&l)).expect("write");
    }
}
