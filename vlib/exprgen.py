"""Arithmetic expression trees for C01 (and reused elsewhere): fend text + exact value (Fraction / complex pair)."""
from fractions import Fraction as F

class Undefined(Exception):
    def __init__(self, kind): self.kind = kind

def lit(r):
    """(text, Fraction)"""
    c = r.random()
    if c < 0.25:
        n = r.choice([0, 1, 2, 3, 7, 10, 12, 255, 1000, 2**32, 2**63, 2**64 - 1, 2**64, 2**64 + 1, 2**128 - 1, 2**128, 10**20, 10**40 + 7, r.getrandbits(r.choice([8, 70, 130, 200]))])
        return (str(n), F(n))
    if c < 0.4:
        a = r.randrange(0, 10**r.randint(1, 12)); k = r.randint(1, 8)
        b = r.randrange(0, 10**k)
        return ("%d.%0*d" % (a, k, b), F(a) + F(b, 10**k))
    if c < 0.5:
        # recurring decimal a.b(c)
        a = r.randrange(0, 50); kb = r.randint(0, 3); b = r.randrange(0, 10**kb) if kb else 0
        kc = r.randint(1, 4); cc = r.randrange(0, 10**kc)
        txt = "%d.%s(%0*d)" % (a, ("%0*d" % (kb, b)) if kb else "", kc, cc)
        val = F(a) + (F(b, 10**kb) if kb else 0) + F(cc, (10**kc - 1) * 10**kb)
        return (txt, val)
    if c < 0.65:
        p = r.randrange(0, 10**r.randint(1, 25)); q = r.randrange(1, 10**r.randint(1, 25))
        return ("(%d/%d)" % (p, q), F(p, q))
    if c < 0.75:
        n = r.getrandbits(r.choice([8, 64, 65, 128, 130]))
        return (r.choice([hex(n), bin(n), oct(n)]), F(n))
    if c < 0.82:
        b = r.randint(2, 36); n = r.getrandbits(r.choice([10, 70])); digs = "0123456789abcdefghijklmnopqrstuvwxyz"
        s, m = "", n
        while True:
            s = digs[m % b] + s; m //= b
            if m == 0: break
        return ("%d#%s" % (b, s), F(n))
    if c < 0.9:
        # value reached through a cancelling history: non-canonical limb vector inside fend
        k = r.choice([64, 128, 192]); j = r.randrange(0, 50)
        return ("((2^%d+%d)-2^%d)" % (k, j, k), F(j))
    m = r.randrange(1, 10**6); e = r.randint(0, 30)
    return ("%de%d" % (m, e), F(m) * 10**e)

def tree(r, depth):
    """-> (text, value: Fraction); raises Undefined for division by zero / 0^0 inside"""
    if depth == 0 or r.random() < 0.2:
        return lit(r)
    c = r.random()
    if c < 0.2:
        a, va = tree(r, depth - 1); b, vb = tree(r, depth - 1); return ("(%s + %s)" % (a, b), va + vb)
    if c < 0.4:
        a, va = tree(r, depth - 1); b, vb = tree(r, depth - 1); return ("(%s - %s)" % (a, b), va - vb)
    if c < 0.6:
        a, va = tree(r, depth - 1); b, vb = tree(r, depth - 1)
        if max(abs(va.numerator), va.denominator).bit_length() + max(abs(vb.numerator), vb.denominator).bit_length() > 6000:
            return (a, va)
        return ("(%s * %s)" % (a, b), va * vb)
    if c < 0.75:
        a, va = tree(r, depth - 1); b, vb = tree(r, depth - 1)
        if vb == 0: raise Undefined("divideByZero")
        return ("(%s / %s)" % (a, b), va / vb)
    if c < 0.83:
        a, va = tree(r, depth - 1); return ("(-%s)" % a, -va)
    # integer power
    a, va = tree(r, min(depth - 1, 2))
    e = r.choice([0, 1, 2, 3, 5, 8, -1, -2, -3, r.randint(-6, 12)])
    form = r.random()
    if form < 0.5 or e < 0: et = "(%d)" % e
    elif form < 0.8: et = "((2^64+%d)-2^64)" % e
    else: et = "(%d/%d)" % (e * 3, 3)
    if va == 0 and e == 0: raise Undefined("zeroPowZero")
    if va == 0 and e < 0: raise Undefined("divideByZero")
    bits = max(abs(va.numerator), va.denominator).bit_length()
    if bits * abs(e) > 5000:
        return (a, va)
    return ("(%s ^ %s)" % (a, et), va ** e)

def ctree(r, depth):
    """complex rationals: -> (text, (re, im))"""
    if depth == 0 or r.random() < 0.25:
        c = r.random()
        if c < 0.3:
            t, v = lit(r); return (t, (v, F(0)))
        if c < 0.5:
            t, v = lit(r); return ("(%s i)" % t if not t[0].isdigit() or True else t, (F(0), v))
        a, va = lit(r); b, vb = lit(r)
        return ("(%s + %s i)" % (a, b), (va, vb))
    c = r.random()
    if c < 0.2:
        a, (ar, ai) = ctree(r, depth - 1); b, (br, bi) = ctree(r, depth - 1); return ("(%s + %s)" % (a, b), (ar + br, ai + bi))
    if c < 0.4:
        a, (ar, ai) = ctree(r, depth - 1); b, (br, bi) = ctree(r, depth - 1); return ("(%s - %s)" % (a, b), (ar - br, ai - bi))
    if c < 0.6:
        a, (ar, ai) = ctree(r, depth - 1); b, (br, bi) = ctree(r, depth - 1)
        return ("(%s * %s)" % (a, b), (ar * br - ai * bi, ar * bi + ai * br))
    if c < 0.78:
        a, (ar, ai) = ctree(r, depth - 1); b, (br, bi) = ctree(r, depth - 1)
        d = br * br + bi * bi
        if d == 0: raise Undefined("divideByZero")
        return ("(%s / %s)" % (a, b), ((ar * br + ai * bi) / d, (ai * br - ar * bi) / d))
    if c < 0.86:
        a, (ar, ai) = ctree(r, depth - 1); return ("(-%s)" % a, (-ar, -ai))
    if c < 0.93:
        a, (ar, ai) = ctree(r, depth - 1); return ("conjugate(%s)" % a, (ar, -ai))
    if c < 0.97:
        a, (ar, ai) = ctree(r, depth - 1); return ("real(%s)" % a, (ar, F(0)))
    a, (ar, ai) = ctree(r, depth - 1); return ("imag(%s)" % a, (ai, F(0)))

def show_fraction(v):
    """fend's `to fraction` rendering of an exact rational"""
    if v.denominator == 1:
        return str(v.numerator)
    return "%d/%d" % (v.numerator, v.denominator)
