/-
C20 — a damaged exchange-rate cache cannot crash fend or yield wrong rates.
-/
import FendModel.Model.XRates
import FendModel.Proofs.Utf8Boundary

namespace Fend.C20
open Fend.XRates

theorem splitAt_ok_of_boundary (s : Bytes) (i : Nat) (h : isBoundary s i = true) :
    splitAt s i = .ok (s.take i, s.drop i) := by
  simp [splitAt, h]

/-- one EU line never panics: `split_at(3)` is only reached behind the boundary check -/
theorem euLine_no_panic (l : Bytes) : euLine l ≠ .error .panic := by
  unfold euLine
  simp only
  split
  · simp
  · split
    · simp
    · split
      · simp
      · rename_i hb
        have hb : isBoundary (List.drop (cp "<Cube currency='").length (trim l)) 3 = true := by
          cases hx : isBoundary (List.drop (cp "<Cube currency='").length (trim l)) 3 <;> simp_all
        rw [splitAt_ok_of_boundary _ _ hb]
        simp only
        split <;> simp

theorem euLines_no_panic (ls : List Bytes) : euLines ls ≠ .error .panic := by
  induction ls with
  | nil => simp [euLines]
  | cons l ls ih =>
    unfold euLines
    have := euLine_no_panic l
    split
    · rename_i e he; intro h; injection h with h; subst h; exact this he
    · exact ih
    · split
      · rename_i e he; intro h; injection h with h; subst h; exact ih he
      · simp

/-- the EU parser never panics, whatever bytes the cache holds (in particular on every prefix) -/
theorem parseEU_no_panic (okRate : Bytes → Bool) (xml : Bytes) : parseEU okRate xml ≠ .error .panic := by
  unfold parseEU
  have := euLines_no_panic (splitLines xml)
  split
  · rename_i e he; intro h; injection h with h; subst h; exact this he
  · split
    · simp
    · split <;> simp

/-- the pinned tree had no boundary check: a line cut inside the currency code panicked (D11) -/
theorem pinned_split_panics :
    splitAt [85, 83] 3 = .error .panic ∧ splitAt [85, 226, 130, 172] 3 = .error .panic := ⟨rfl, rfl⟩

/-! ### every reported rate stands verbatim in the file -/

theorem infix_trans {a b c : Bytes} (h1 : a <:+: b) (h2 : b <:+: c) : a <:+: c := List.IsInfix.trans h1 h2

theorem trimStart_suffix (fuel : Nat) (s : Bytes) : trimStart fuel s <:+ s := by
  induction fuel generalizing s with
  | zero => exact List.suffix_refl s
  | succ f ih =>
    unfold trimStart
    split
    · exact List.suffix_refl s
    · exact (ih _).trans (List.drop_suffix _ s)

theorem trimEndRev_suffix (fuel : Nat) (s : Bytes) : trimEndRev fuel s <:+ s := by
  induction fuel generalizing s with
  | zero => exact List.suffix_refl s
  | succ f ih =>
    unfold trimEndRev
    split
    · exact List.suffix_refl s
    · exact (ih _).trans (List.drop_suffix _ s)

theorem trim_infix (s : Bytes) : trim s <:+: s := by
  unfold trim
  simp only
  have h1 := trimStart_suffix (s.length + 1) s
  have h2 := trimEndRev_suffix ((trimStart (s.length + 1) s).length + 1) (trimStart (s.length + 1) s).reverse
  have h3 : (trimEndRev ((trimStart (s.length + 1) s).length + 1) (trimStart (s.length + 1) s).reverse).reverse
      <+: trimStart (s.length + 1) s := by
    have := List.reverse_prefix.mpr h2
    simpa using this
  exact h3.isInfix.trans h1.isInfix

theorem trimStartMatches_suffix (pat : Bytes) (fuel : Nat) (s : Bytes) : trimStartMatches pat fuel s <:+ s := by
  induction fuel generalizing s with
  | zero => exact List.suffix_refl s
  | succ f ih =>
    unfold trimStartMatches
    split
    · exact (ih _).trans (List.drop_suffix _ s)
    · exact List.suffix_refl s

/-- the rate text of an accepted EU line is a contiguous piece of that line -/
theorem euLine_verbatim (l cur rate : Bytes) (h : euLine l = .ok (some (cur, rate))) : rate <:+: l := by
  unfold euLine at h
  simp only at h
  split at h
  · simp at h
  · split at h
    · simp at h
    · split at h
      · simp at h
      · rename_i hb
        have hb : isBoundary (List.drop (cp "<Cube currency='").length (trim l)) 3 = true := by
          cases hx : isBoundary (List.drop (cp "<Cube currency='").length (trim l)) 3 <;> simp_all
        rw [splitAt_ok_of_boundary _ _ hb] at h
        simp only at h
        split at h
        · simp at h
        · rename_i i hi
          injection h with h; injection h with h; injection h with _ h
          subst h
          have a1 := (List.take_prefix i (trimStartMatches (cp "' rate='")
            ((List.drop 3 (List.drop (cp "<Cube currency='").length (trim l))).length + 1)
            (List.drop 3 (List.drop (cp "<Cube currency='").length (trim l))))).isInfix
          have a2 := (trimStartMatches_suffix (cp "' rate='")
            ((List.drop 3 (List.drop (cp "<Cube currency='").length (trim l))).length + 1)
            (List.drop 3 (List.drop (cp "<Cube currency='").length (trim l)))).isInfix
          have a3 := (List.drop_suffix 3 (List.drop (cp "<Cube currency='").length (trim l))).isInfix
          have a4 := (List.drop_suffix (cp "<Cube currency='").length (trim l)).isInfix
          exact a1.trans (a2.trans (a3.trans (a4.trans (trim_infix l))))

theorem splitLines_go_infix (rest acc : Bytes) :
    ∀ l ∈ splitLines.go rest acc, l <:+: acc.reverse ++ rest := by
  induction rest generalizing acc with
  | nil =>
    intro l hl
    unfold splitLines.go at hl
    split at hl
    · simp at hl
    · simp at hl; subst hl; simp
  | cons b rest ih =>
    intro l hl
    by_cases hb : b = 10
    · subst hb
      unfold splitLines.go at hl
      simp only [List.mem_cons] at hl
      rcases hl with rfl | hl
      · exact ⟨[], 10 :: rest, by simp⟩
      · have := ih [] l hl
        simp only [List.reverse_nil, List.nil_append] at this
        exact this.trans ⟨acc.reverse ++ [10], [], by simp⟩
    · have hgo : splitLines.go (b :: rest) acc = splitLines.go rest (b :: acc) := by
        conv => lhs; unfold splitLines.go
        split
        · rename_i h; cases h
        · rename_i h; injection h with h1 _; exact absurd h1 hb
        · rename_i h; injection h with h1 h2; subst h1; subst h2; rfl
      rw [hgo] at hl
      have := ih (b :: acc) l hl
      simpa using this

theorem splitLines_infix (s : Bytes) : ∀ l ∈ splitLines s, l <:+: s := by
  intro l hl
  unfold splitLines at hl
  split at hl
  · simp at hl
  · have := splitLines_go_infix s [] l hl
    simpa using this

theorem euLines_verbatim (ls : List Bytes) (ps : List (Bytes × Bytes)) (h : euLines ls = .ok ps) :
    ∀ p ∈ ps, ∃ l ∈ ls, p.2 <:+: l := by
  induction ls generalizing ps with
  | nil => simp [euLines] at h; subst h; simp
  | cons l ls ih =>
    unfold euLines at h
    split at h
    · simp at h
    · intro p hp
      obtain ⟨l', hl', hi⟩ := ih ps h p hp
      exact ⟨l', by simp [hl'], hi⟩
    · rename_i q hq
      split at h
      · simp at h
      · rename_i qs hqs
        injection h with h; subst h
        intro p hp
        rcases List.mem_cons.mp hp with rfl | hp
        · exact ⟨l, by simp, euLine_verbatim l p.1 p.2 hq⟩
        · obtain ⟨l', hl', hi⟩ := ih qs hqs p hp
          exact ⟨l', by simp [hl'], hi⟩

/-- EU source: every rate the parser reports stands verbatim (as a contiguous piece) in the XML -/
theorem parseEU_verbatim (okRate : Bytes → Bool) (xml : Bytes) (ps : List (Bytes × Bytes))
    (h : parseEU okRate xml = .ok ps) : ∀ p ∈ ps, p.2 <:+: xml := by
  unfold parseEU at h
  split at h
  · simp at h
  · rename_i qs hqs
    split at h
    · simp at h
    · split at h
      · simp at h
      · injection h with h; subst h
        intro p hp
        obtain ⟨l, hl, hi⟩ := euLines_verbatim _ _ hqs p hp
        exact hi.trans (splitLines_infix xml l hl)

/-- the XML handed to the parsers is a suffix of the cache file -/
theorem loadCached_suffix (contents xml : Bytes) (now maxAge : Nat) (h : loadCached contents now maxAge = .ok xml) :
    xml <:+ contents := by
  unfold loadCached at h
  split at h
  · simp at h
  cases hf : findSub [59] contents with
  | none => simp [hf] at h
  | some i =>
    simp only [hf] at h
    unfold splitAt at h
    by_cases hb : isBoundary contents i = true
    · simp only [hb, if_true] at h
      cases hp : parseU64 (List.take i contents) with
      | none => simp [hp] at h
      | some t =>
        simp only [hp] at h
        by_cases h1 : now < t
        · simp [h1] at h
        · simp only [h1, if_false] at h
          by_cases h2 : now - t > maxAge
          · simp [h2] at h
          · simp only [h2, if_false] at h
            injection h with h; subst h; exact List.drop_suffix i contents
    · simp [hb] at h

/-- EU cache: a conversion either fails with an error or uses a rate whose text is present verbatim
in the cache file as presented — never panics, never invents a rate -/
theorem eu_lookup_verbatim (okRate : Bytes → Bool) (contents : Bytes) (now maxAge : Nat) (cur rate : Bytes)
    (h : lookup .eu okRate contents now maxAge cur = .ok (some rate)) : rate <:+: contents := by
  unfold lookup at h
  split at h
  · simp at h
  · rename_i xml hx
    simp only at h
    split at h
    · simp at h
    · rename_i ps hps
      split at h
      · simp at h
      · split at h
        · rename_i p hp
          injection h with h; injection h with h; subst h
          have hm := List.mem_of_find?_eq_some hp
          exact (parseEU_verbatim okRate xml ps hps p hm).trans (loadCached_suffix _ _ _ _ hx).isInfix
        · simp at h

/-- crash-point form: for EVERY truncation point `n` of a good cache file, a reported rate stands
verbatim in the good file -/
theorem eu_prefix_safe (okRate : Bytes → Bool) (good : Bytes) (n now maxAge : Nat) (cur rate : Bytes)
    (h : lookup .eu okRate (good.take n) now maxAge cur = .ok (some rate)) : rate <:+: good :=
  (eu_lookup_verbatim okRate _ now maxAge cur rate h).trans (List.take_prefix n good).isInfix

theorem findSub_byte (c : Nat) (s : Bytes) (i : Nat) (h : findSub [c] s = some i) : s[i]? = some c := by
  induction s generalizing i with
  | nil => simp [findSub, List.isPrefixOf] at h
  | cons b t ih =>
    unfold findSub at h
    by_cases hp : List.isPrefixOf [c] (b :: t) = true
    · simp only [hp, if_true] at h
      injection h with h; subst h
      simp [List.isPrefixOf] at hp
      simp [hp]
    · simp only [hp] at h
      simp only [Bool.false_eq_true, if_false, Option.map_eq_some_iff] at h
      obtain ⟨j, hj, rfl⟩ := h
      simpa using ih j hj

theorem loadCached_no_panic (contents : Bytes) (now maxAge : Nat) : loadCached contents now maxAge ≠ .error .panic := by
  unfold loadCached
  split
  · simp
  cases hf : findSub [59] contents with
  | none => simp
  | some i =>
    simp only
    have hbyte := findSub_byte 59 contents i hf
    have hb : isBoundary contents i = true := by
      unfold isBoundary
      split
      · rfl
      · simp [hbyte]
    simp only [splitAt, hb, if_true]
    split
    · simp
    · split
      · simp
      · split <;> simp

theorem eu_lookup_no_panic (okRate : Bytes → Bool) (contents : Bytes) (now maxAge : Nat) (cur : Bytes) :
    lookup .eu okRate contents now maxAge cur ≠ .error .panic := by
  unfold lookup
  split
  · rename_i e he
    intro h; injection h with h; subst h
    exact loadCached_no_panic _ _ _ he
  · simp only
    split
    · rename_i e he
      intro h; injection h with h; subst h
      exact parseEU_no_panic okRate _ he
    · split
      · simp
      · split <;> simp


/-! ### the UN file -/

theorem sliceFrom_suffix (s : Bytes) (i : Nat) (t : Bytes) (h : sliceFrom s i = .ok t) : t <:+ s := by
  unfold sliceFrom at h
  split at h
  · injection h with h; subst h; exact List.drop_suffix i s
  · cases h

/-- every (currency, rate) pair the UN scanning loop reports stands verbatim in the text it scanned -/
theorem unLoop_verbatim (okRate : Bytes → Bool) (fuel : Nat) (s : Bytes) (ps : List (Bytes × Bytes))
    (h : unLoop okRate fuel s = .ok ps) : ∀ p ∈ ps, p.1 <:+: s ∧ p.2 <:+: s := by
  induction fuel generalizing s ps with
  | zero => simp [unLoop] at h
  | succ fuel ih =>
    unfold unLoop at h
    split at h
    · injection h with h; subst h; intro p hp; cases hp
    · split at h
      · split at h
        · injection h with h; subst h; intro p hp; cases hp
        · cases h
      · rename_i start _
        split at h
        · cases h
        · rename_i s1 hs1
          split at h
          · cases h
          · rename_i e1 _
            split at h
            · cases h
            · rename_i s2 hs2
              split at h
              · cases h
              · rename_i st _
                split at h
                · cases h
                · rename_i s3 hs3
                  split at h
                  · cases h
                  · rename_i e2 _
                    have i1 : s1 <:+ s := sliceFrom_suffix _ _ _ hs1
                    have i2 : s2 <:+ s1 := sliceFrom_suffix _ _ _ hs2
                    have i3 : s3 <:+ s2 := sliceFrom_suffix _ _ _ hs3
                    by_cases hok : okRate (List.take e2 s3) = true
                    · simp only [hok, Bool.not_true, Bool.false_eq_true, if_false] at h
                      cases hs4 : sliceFrom s3 (e2 + 7) with
                      | error e => simp [hs4] at h
                      | ok s4 =>
                        simp only [hs4] at h
                        have i4 : s4 <:+ s3 := sliceFrom_suffix _ _ _ hs4
                        cases hrest : unLoop okRate fuel s4 with
                        | error e => simp [hrest] at h
                        | ok rest =>
                          simp only [hrest] at h
                          injection h with h; subst h
                          intro p hp
                          cases hp with
                          | head =>
                            exact ⟨(List.take_prefix e1 s1).isInfix.trans i1.isInfix,
                              (List.take_prefix e2 s3).isInfix.trans ((i3.trans (i2.trans i1)).isInfix)⟩
                          | tail _ hp' =>
                            have := ih s4 rest hrest p hp'
                            have i : s4 <:+: s := (i4.trans (i3.trans (i2.trans i1))).isInfix
                            exact ⟨this.1.trans i, this.2.trans i⟩
                    · simp [hok] at h

theorem parseUN_verbatim (okRate : Bytes → Bool) (xml : Bytes) (ps : List (Bytes × Bytes)) (h : parseUN okRate xml = .ok ps) :
    ∀ p ∈ ps, p.2 <:+: xml := by
  unfold parseUN at h
  split at h
  · cases h
  · split at h
    · cases h
    · rename_i s hs
      intro p hp
      exact (unLoop_verbatim okRate _ s ps h p hp).2.trans (sliceFrom_suffix _ _ _ hs).isInfix

/-- UN cache: a reported rate stands verbatim in the cache file as presented, hence — crash-point form — for EVERY
truncation point of a good file, in the good file -/
theorem un_lookup_verbatim (okRate : Bytes → Bool) (contents : Bytes) (now maxAge : Nat) (cur rate : Bytes)
    (h : lookup .un okRate contents now maxAge cur = .ok (some rate)) : rate <:+: contents := by
  unfold lookup at h
  split at h
  · simp at h
  · rename_i xml hx
    simp only at h
    split at h
    · simp at h
    · rename_i ps hps
      split at h
      · simp at h
      · split at h
        · rename_i p hp
          injection h with h; injection h with h; subst h
          have hm := List.mem_of_find?_eq_some hp
          exact (parseUN_verbatim okRate xml ps hps p hm).trans (loadCached_suffix _ _ _ _ hx).isInfix
        · simp at h

theorem un_prefix_safe (okRate : Bytes → Bool) (good : Bytes) (n now maxAge : Nat) (cur rate : Bytes)
    (h : lookup .un okRate (good.take n) now maxAge cur = .ok (some rate)) : rate <:+: good :=
  (un_lookup_verbatim okRate _ now maxAge cur rate h).trans (List.take_prefix n good).isInfix


/-! ### the UN file never panics either (valid UTF-8 is what `read_to_string` guarantees) -/

private theorem n1 : cp "<f_curr_code>" ≠ [] ∧ (∀ b ∈ cp "<f_curr_code>", b < 128) ∧ (cp "<f_curr_code>").length = 13 := by
  refine ⟨by decide, by decide, by decide⟩
private theorem n2 : cp "</f_curr_code>" ≠ [] ∧ (∀ b ∈ cp "</f_curr_code>", b < 128) ∧ (cp "</f_curr_code>").length = 14 := by
  refine ⟨by decide, by decide, by decide⟩
private theorem n3 : cp "<rate>" ≠ [] ∧ (∀ b ∈ cp "<rate>", b < 128) ∧ (cp "<rate>").length = 6 := by
  refine ⟨by decide, by decide, by decide⟩
private theorem n4 : cp "</rate>" ≠ [] ∧ (∀ b ∈ cp "</rate>", b < 128) ∧ (cp "</rate>").length = 7 := by
  refine ⟨by decide, by decide, by decide⟩

/-- the scanning loop of the UN parser never panics on (a suffix at a character boundary of) valid UTF-8: every slice it
takes starts right after an ASCII needle it has just found -/
theorem unLoop_no_panic (okRate : Bytes → Bool) (S : Bytes) (hv : Fend.Ser.validUtf8 S = true) :
    ∀ fuel off, off ≤ S.length → unLoop okRate fuel (S.drop off) ≠ .error .panic := by
  intro fuel
  induction fuel with
  | zero => intro off _; simp [unLoop]
  | succ fuel ih =>
    intro off hoff h
    unfold unLoop at h
    split at h
    · cases h
    · cases hf1 : findSub (cp "<f_curr_code>") (S.drop off) with
      | none => simp only [hf1] at h; split at h <;> cases h
      | some start =>
        simp only [hf1] at h
        obtain ⟨hs1, ho1⟩ := slice_after_needle S hv off hoff _ n1.1 n1.2.1 start hf1
        rw [n1.2.2] at hs1 ho1
        rw [hs1] at h
        simp only at h
        cases hf2 : findSub (cp "</f_curr_code>") (S.drop (off + (start + 13))) with
        | none => simp [hf2] at h
        | some e1 =>
          simp only [hf2] at h
          obtain ⟨hs2, ho2⟩ := slice_after_needle S hv _ ho1 _ n2.1 n2.2.1 e1 hf2
          rw [n2.2.2] at hs2 ho2
          rw [hs2] at h
          simp only at h
          cases hf3 : findSub (cp "<rate>") (S.drop (off + (start + 13) + (e1 + 14))) with
          | none => simp [hf3] at h
          | some st =>
            simp only [hf3] at h
            obtain ⟨hs3, ho3⟩ := slice_after_needle S hv _ ho2 _ n3.1 n3.2.1 st hf3
            rw [n3.2.2] at hs3 ho3
            rw [hs3] at h
            simp only at h
            cases hf4 : findSub (cp "</rate>") (S.drop (off + (start + 13) + (e1 + 14) + (st + 6))) with
            | none => simp [hf4] at h
            | some e2 =>
              simp only [hf4] at h
              obtain ⟨hs4, ho4⟩ := slice_after_needle S hv _ ho3 _ n4.1 n4.2.1 e2 hf4
              rw [n4.2.2] at hs4 ho4
              split at h
              · cases h
              · rw [hs4] at h
                simp only at h
                have := ih _ ho4
                cases hr : unLoop okRate fuel (S.drop (off + (start + 13) + (e1 + 14) + (st + 6) + (e2 + 7))) with
                | error e =>
                  rw [hr] at h this
                  simp only at h
                  injection h with h
                  subst h
                  exact this rfl
                | ok ps => rw [hr] at h; cases h

/-- the whole UN path: cache framing, parser, lookup — no panic for ANY cache contents -/
theorem un_lookup_no_panic (okRate : Bytes → Bool) (contents : Bytes) (now maxAge : Nat) (cur : Bytes) :
    lookup .un okRate contents now maxAge cur ≠ .error .panic := by
  unfold lookup
  cases hl : loadCached contents now maxAge with
  | error e =>
    simp only
    intro h; injection h with h; subst h
    exact loadCached_no_panic contents now maxAge hl
  | ok xml =>
    simp only
    -- the XML is a suffix of the valid file, starting at the `;`, which is a character boundary
    have hvalid : Fend.Ser.validUtf8 contents = true := by
      unfold loadCached at hl
      split at hl
      · cases hl
      · rename_i hnv; simpa using hnv
    obtain ⟨k, hk, hxml⟩ : ∃ k, k ≤ contents.length ∧ xml = contents.drop k := by
      have hsuf := loadCached_suffix contents xml now maxAge hl
      exact ⟨contents.length - xml.length, by omega, List.suffix_iff_eq_drop.mp hsuf⟩
    subst hxml
    unfold parseUN
    cases hf : findSub (cp "<UN_OPERATIONAL_RATES>") (contents.drop k) with
    | none => simp
    | some i =>
      simp only
      have hb : (cp "<UN_OPERATIONAL_RATES>") ≠ [] ∧ (∀ b ∈ cp "<UN_OPERATIONAL_RATES>", b < 128) := ⟨by decide, by decide⟩
      -- `&s[i..]` at the START of a found ASCII needle: the needle's first byte is ASCII, hence not a continuation byte
      have hspec := findSub_spec _ (contents.drop k) i hf
      have h0 := hspec.2 0 (by have := List.length_pos_iff.mpr hb.1; omega)
      have hbound : isBoundary (contents.drop k) i = true := by
        have hlt : i < (contents.drop k).length := by
          have := hspec.1; have := List.length_pos_iff.mpr hb.1; omega
        simp only [isBoundary]
        have hne : ¬ (i = (contents.drop k).length) := by omega
        simp only [hne, if_false]
        simp only [Nat.add_zero] at h0
        rw [h0]
        have : (cp "<UN_OPERATIONAL_RATES>")[0]? = some 60 := by decide
        rw [this]; decide
      simp only [sliceFrom, hbound, if_true]
      have hdrop : (contents.drop k).drop i = contents.drop (k + i) := by simp [List.drop_drop, Nat.add_comm]
      rw [hdrop]
      have hle : k + i ≤ contents.length := by
        have := hspec.1; simp at this; omega
      cases hu : unLoop okRate ((contents.drop (k + i)).length + 1) (contents.drop (k + i)) with
      | error e =>
        simp only
        intro h; injection h with h; subst h
        exact unLoop_no_panic okRate contents hvalid _ (k + i) hle hu
      | ok ps =>
        simp only
        split
        · simp
        · split <;> simp

end Fend.C20
