/-
Expression trees over the four field operations and negation, evaluated with the model of `BigRat`
(`add`, `sub`, `mul`, `div`, `negate`): the result denotes the true rational value of the tree, whatever the
shape of the tree and however unreduced / oddly represented the intermediate values are; the only error is
division by an operand whose value is zero.
-/
import FendModel.Proofs.BigRatAdd

namespace Fend
namespace BigRat
open BigUint

inductive QExpr where
  | lit (x : BigRat)
  | neg (a : QExpr)
  | add (a b : QExpr)
  | sub (a b : QExpr)
  | mul (a b : QExpr)
  | div (a b : QExpr)

/-- evaluation with the modelled operations, left operand first (as `ast::evaluate` does) -/
def evalQ : QExpr → R BigRat
  | .lit x => .ok x
  | .neg a => match evalQ a with
    | .ok x => .ok (negate x)
    | .error e => .error e
  | .add a b => match evalQ a with
    | .ok x => (match evalQ b with
      | .ok y => BigRat.add x y
      | .error e => .error e)
    | .error e => .error e
  | .sub a b => match evalQ a with
    | .ok x => (match evalQ b with
      | .ok y => BigRat.sub x y
      | .error e => .error e)
    | .error e => .error e
  | .mul a b => match evalQ a with
    | .ok x => (match evalQ b with
      | .ok y => .ok (BigRat.mul x y)
      | .error e => .error e)
    | .error e => .error e
  | .div a b => match evalQ a with
    | .ok x => (match evalQ b with
      | .ok y => BigRat.div x y
      | .error e => .error e)
    | .error e => .error e

/-- the mathematical value; `none` when some divisor is zero -/
def denote : QExpr → Option Rat
  | .lit x => some (valQ x)
  | .neg a => (denote a).map (fun q => -q)
  | .add a b => do let x ← denote a; let y ← denote b; some (x + y)
  | .sub a b => do let x ← denote a; let y ← denote b; some (x - y)
  | .mul a b => do let x ← denote a; let y ← denote b; some (x * y)
  | .div a b => do let x ← denote a; let y ← denote b; if y = 0 then none else some (x / y)

/-- every literal is a well-formed fraction with a non-zero denominator -/
def LeavesOK : QExpr → Prop
  | .lit x => WFQ x ∧ val x.den ≠ 0
  | .neg a => LeavesOK a
  | .add a b | .sub a b | .mul a b | .div a b => LeavesOK a ∧ LeavesOK b

theorem mul_WFQ (a b : BigRat) (wa : WFQ a) (wb : WFQ b) (da : val a.den ≠ 0) (db : val b.den ≠ 0) :
    WFQ (mul a b) ∧ val (mul a b).den ≠ 0 :=
  ⟨⟨mul_WF _ _ wa.1 wb.1, mul_WF _ _ wa.2 wb.2⟩, by
    show val (BigUint.mul a.den b.den) ≠ 0
    rw [mul_val]; exact Nat.mul_ne_zero da db⟩

theorem valQ_eq_zero_iff (b : BigRat) (db : val b.den ≠ 0) : valQ b = 0 ↔ val b.num = 0 := by
  have h2 : ((val b.den : Nat) : Rat) ≠ 0 := by exact_mod_cast db
  unfold valQ
  constructor
  · intro h
    rw [div_eq_zero_iff] at h
    rcases h with h | h
    · cases hn : b.neg <;> simp [hn] at h <;> exact_mod_cast h
    · exact absurd h h2
  · intro h; simp [h]

/-- the outcome of evaluating a tree: a value denoting the tree's rational, or `divideByZero` exactly when a divisor is zero -/
theorem evalQ_spec (e : QExpr) (hl : LeavesOK e) :
    (∀ q, denote e = some q → ∃ r, evalQ e = .ok r ∧ valQ r = q ∧ WFQ r ∧ val r.den ≠ 0) ∧
    (denote e = none → evalQ e = .error .divideByZero) := by
  induction e with
  | lit x => exact ⟨fun q h => ⟨x, rfl, by simpa [denote] using h, hl.1, hl.2⟩, fun h => by simp [denote] at h⟩
  | neg a ih =>
    obtain ⟨ih1, ih2⟩ := ih hl
    constructor
    · intro q h
      cases ha : denote a with
      | none => simp [denote, ha] at h
      | some x =>
        obtain ⟨r, hr, hv, hw, hd⟩ := ih1 x ha
        simp [denote, ha] at h
        exact ⟨negate r, by simp [evalQ, hr], by rw [negate_valQ, hv, h], hw, hd⟩
    · intro h
      have : denote a = none := by
        cases ha : denote a with
        | none => rfl
        | some x => simp [denote, ha] at h
      simp [evalQ, ih2 this]
  | add a b iha ihb =>
    obtain ⟨a1, a2⟩ := iha hl.1
    obtain ⟨b1, b2⟩ := ihb hl.2
    cases ha : denote a with
    | none => exact ⟨fun q h => by simp [denote, ha] at h, fun _ => by simp [evalQ, a2 ha]⟩
    | some x =>
      obtain ⟨r, hr, hv, hw, hd⟩ := a1 x ha
      cases hb : denote b with
      | none => exact ⟨fun q h => by simp [denote, ha, hb] at h, fun _ => by simp [evalQ, hr, b2 hb]⟩
      | some y =>
        obtain ⟨s, hs, hsv, hsw, hsd⟩ := b1 y hb
        obtain ⟨t, ht, htv, htw, htd⟩ := add_valQ r s hw hsw hd hsd
        refine ⟨fun q h => ?_, fun h => by simp [denote, ha, hb] at h⟩
        simp [denote, ha, hb] at h
        exact ⟨t, by simp [evalQ, hr, hs, ht], by rw [htv, hv, hsv, h], htw, htd⟩
  | sub a b iha ihb =>
    obtain ⟨a1, a2⟩ := iha hl.1
    obtain ⟨b1, b2⟩ := ihb hl.2
    cases ha : denote a with
    | none => exact ⟨fun q h => by simp [denote, ha] at h, fun _ => by simp [evalQ, a2 ha]⟩
    | some x =>
      obtain ⟨r, hr, hv, hw, hd⟩ := a1 x ha
      cases hb : denote b with
      | none => exact ⟨fun q h => by simp [denote, ha, hb] at h, fun _ => by simp [evalQ, hr, b2 hb]⟩
      | some y =>
        obtain ⟨s, hs, hsv, hsw, hsd⟩ := b1 y hb
        obtain ⟨t, ht, htv, htw, htd⟩ := sub_valQ r s hw hsw hd hsd
        refine ⟨fun q h => ?_, fun h => by simp [denote, ha, hb] at h⟩
        simp [denote, ha, hb] at h
        exact ⟨t, by simp [evalQ, hr, hs, ht], by rw [htv, hv, hsv, h], htw, htd⟩
  | mul a b iha ihb =>
    obtain ⟨a1, a2⟩ := iha hl.1
    obtain ⟨b1, b2⟩ := ihb hl.2
    cases ha : denote a with
    | none => exact ⟨fun q h => by simp [denote, ha] at h, fun _ => by simp [evalQ, a2 ha]⟩
    | some x =>
      obtain ⟨r, hr, hv, hw, hd⟩ := a1 x ha
      cases hb : denote b with
      | none => exact ⟨fun q h => by simp [denote, ha, hb] at h, fun _ => by simp [evalQ, hr, b2 hb]⟩
      | some y =>
        obtain ⟨s, hs, hsv, hsw, hsd⟩ := b1 y hb
        obtain ⟨mw, md⟩ := mul_WFQ r s hw hsw hd hsd
        refine ⟨fun q h => ?_, fun h => by simp [denote, ha, hb] at h⟩
        simp [denote, ha, hb] at h
        exact ⟨BigRat.mul r s, by simp [evalQ, hr, hs], by rw [mul_valQ, hv, hsv, h], mw, md⟩
  | div a b iha ihb =>
    obtain ⟨a1, a2⟩ := iha hl.1
    obtain ⟨b1, b2⟩ := ihb hl.2
    cases ha : denote a with
    | none => exact ⟨fun q h => by simp [denote, ha] at h, fun _ => by simp [evalQ, a2 ha]⟩
    | some x =>
      obtain ⟨r, hr, hv, hw, hd⟩ := a1 x ha
      cases hb : denote b with
      | none => exact ⟨fun q h => by simp [denote, ha, hb] at h, fun _ => by simp [evalQ, hr, b2 hb]⟩
      | some y =>
        obtain ⟨s, hs, hsv, hsw, hsd⟩ := b1 y hb
        obtain ⟨dz, dnz⟩ := div_valQ r s hsw.1
        by_cases hy : y = 0
        · have hs0 : val s.num = 0 := (valQ_eq_zero_iff s hsd).mp (by rw [hsv, hy])
          have hz : numIsZero s = true := (numIsZero_iff s hsw.1).mpr hs0
          exact ⟨fun q h => by simp [denote, ha, hb, hy] at h, fun _ => by simp [evalQ, hr, hs, dz hz]⟩
        · have hs0 : val s.num ≠ 0 := fun h0 => hy (by rw [← hsv]; exact (valQ_eq_zero_iff s hsd).mpr h0)
          have hz : numIsZero s = false := by
            cases hzz : numIsZero s with
            | false => rfl
            | true => exact absurd ((numIsZero_iff s hsw.1).mp hzz) hs0
          obtain ⟨t, ht, htv⟩ := dnz hz
          have htt : t = ⟨signOfProduct r.neg s.neg, BigUint.mul r.num s.den, BigUint.mul r.den s.num⟩ := by
            simp [BigRat.div, hz] at ht; exact ht.symm
          refine ⟨fun q h => ?_, fun h => by simp [denote, ha, hb, hy] at h⟩
          simp [denote, ha, hb, hy] at h
          refine ⟨t, by simp [evalQ, hr, hs, ht], by rw [htv hsd, hv, hsv, h], ?_, ?_⟩
          · rw [htt]; exact ⟨mul_WF _ _ hw.1 hsw.2, mul_WF _ _ hw.2 hsw.1⟩
          · rw [htt]; show val (BigUint.mul r.den s.num) ≠ 0
            rw [mul_val]; exact Nat.mul_ne_zero hd hs0

end BigRat
end Fend
