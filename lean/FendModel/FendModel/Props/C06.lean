/-
C06 — no input can crash fend.

A Lean function cannot panic, so what can be machine-checked is (a) that the explicit panic constructs of the
tree under test are exactly the reviewed ones (Tie A: the table is regenerated from /repo on every run; a new
`unwrap`, `unreachable!`, `assert!`, `split_at` or `ilog` breaks `sites_reviewed`), and (b) discharge lemmas
for the sites whose unreachability is arithmetic.  Implicit panics (indexing, overflow), stack depth and
termination are runtime truth: they are hunted by the correspondence run (token soup, mutations, prefixes,
nesting ramps under a catch_unwind harness with overflow checks on), not proved.
-/
import FendModel.Gen.PanicSites
import FendModel.Proofs.ComplexTree
import FendModel.Proofs.BigUintShiftN

namespace Fend.C06

/-- the reviewed panic constructs with the reason each cannot be reached from input text -/
def reviewed : List ((String × String × String × Nat) × String) := [
  (("core/src/date.rs", "day_of_week", "unreachable", 1), "rem_euclid 7 is in 0..6 (weekday_index_in_range)"),
  (("core/src/date.rs", "today", "unwrap", 2), "conversion of the host clock value; only with a host time callback"),
  (("core/src/date/day.rs", "new", "assert", 1), "callers pass 1..=31: parser-validated, or computed from a month length"),
  (("core/src/date/parser.rs", "parse_char", "split_at", 1), "split at len_utf8 of the first char"),
  (("core/src/date/year.rs", "new", "assert", 1), "parser rejects year 0; next/prev step over it (year_step_nonzero)"),
  (("core/src/json.rs", "escape_string", "unwrap", 4), "write! into a String cannot fail"),
  (("core/src/lexer.rs", "next_token", "split_at", 4), "indices taken from char_indices / len_utf8 of scanned chars"),
  (("core/src/lexer.rs", "next_token", "unwrap", 1), "peeked char known to exist"),
  (("core/src/lexer.rs", "parse_basic_number", "unwrap", 1), "`following.is_some() &&` guards the unwrap"),
  (("core/src/lexer.rs", "parse_char", "split_at", 1), "split at len_utf8 of the first char"),
  (("core/src/lexer.rs", "parse_date", "split_at", 4), "split_at(1) after matching an ASCII digit or '-'"),
  (("core/src/lexer.rs", "parse_ident", "split_at", 2), "byte index accumulated from len_utf8 of scanned chars"),
  (("core/src/lexer.rs", "parse_quote_unit", "split_at", 4), "split after an ASCII quote / len_utf8"),
  (("core/src/lexer.rs", "parse_string_literal", "split_at", 2), "index from char_indices"),
  (("core/src/lexer.rs", "parse_string_literal", "unwrap", 2), "char::from_u32 of a value checked below 0x80 / digit parse of scanned hex digits"),
  (("core/src/lexer.rs", "parse_symbol", "split_at", 1), "split at len_utf8 of a char matched by starts_with"),
  (("core/src/lexer.rs", "skip_whitespace_and_comments", "split_at", 2), "split at len_utf8 / at a found newline"),
  (("core/src/lib.rs", "dummy_currency_handler", "panic", 1), "test helper, only installed by tests"),
  (("core/src/lib.rs", "evaluate_with_interrupt_internal", "unwrap", 1), "write! into a String cannot fail"),
  (("core/src/num/bigrat.rs", "add_internal", "assert", 1), "both operands positive: callers dispatch on sign first"),
  (("core/src/num/bigrat.rs", "cmp", "unwrap", 1), "subtraction under the Never interrupt cannot be interrupted"),
  (("core/src/num/bigrat.rs", "format_trailing_digits", "panic", 1), "Brent's search on a non-terminating fraction never sees the remainder 0 (C02 findCycle_spec)"),
  (("core/src/num/bigrat.rs", "format_trailing_digits", "split_at", 2), "ASCII digit string split at digit counts"),
  (("core/src/num/biguint.rs", "bits", "ilog", 2), "Small(0) excluded by callers (is_zero checked) / top limb non-zero"),
  (("core/src/num/biguint.rs", "bits", "unwrap", 1), "u32 to u64"),
  (("core/src/num/biguint.rs", "format", "expect", 1), "base is 2..=36, never 0"),
  (("core/src/num/biguint.rs", "format", "unwrap", 1), "digit value below the base has a character"),
  (("core/src/num/biguint.rs", "ilog2", "assert", 1), "callers exclude zero"),
  (("core/src/num/biguint.rs", "log2", "ilog", 1), "called on positive numbers only"),
  (("core/src/num/biguint.rs", "lshift_n", "unreachable", 1), "value was just made Large"),
  (("core/src/num/biguint.rs", "mul_internal", "unreachable", 1), "value was just made Large"),
  (("core/src/num/biguint.rs", "sub", "assert", 1), "callers compare first (C01 sub_exact hypothesis)"),
  (("core/src/num/biguint.rs", "sub", "unreachable", 1), "value was just made Large"),
  (("core/src/num/complex.rs", "pow", "unreachable", 1), "a non-negative integer modulo 4 is 0..3; negative exponents are inverted first (mod4_lt)"),
  (("core/src/num/continued_fraction.rs", "format", "panic", 1), "module not reachable from evaluation (unused experimental type)"),
  (("core/src/num/continued_fraction.rs", "next", "unwrap", 10), "module not reachable from evaluation"),
  (("core/src/num/continued_fraction.rs", "shift_down", "unwrap", 4), "module not reachable from evaluation"),
  (("core/src/num/continued_fraction.rs", "shift_right", "unwrap", 4), "module not reachable from evaluation"),
  (("core/src/num/dist.rs", "format", "unwrap", 1), "comparison under the Never interrupt cannot be interrupted"),
  (("core/src/num/dist.rs", "new_die", "assert", 2), "lexer rejects zero counts / faces before calling"),
  (("core/src/num/dist.rs", "one_point", "unwrap", 1), "length checked to be 1"),
  (("core/src/units.rs", "construct_prefixed_unit", "assert", 1), "prefix / unit rule checked by the caller (C11 prefix_only_when_allowed)"),
  (("core/src/units.rs", "get_completions_for_prefix", "split_at", 1), "index from rfind of an ASCII char / len_utf8"),
  (("core/src/units.rs", "query_unit", "split_at", 2), "split_at_checked-style loop over char boundaries"),
  (("core/src/units.rs", "query_unit_case_sensitive", "split_at", 1), "index from char_indices"),
  (("core/src/units.rs", "query_unit_case_sensitive", "unwrap", 1), "first char of a non-empty remainder (loop guard `split_idx < ident.len()`); the second unwrap this entry used to cover — first char of the identifier — WAS reachable with an empty identifier from a saved image (defect D28, repaired: the review reason had been wrong)"),
  (("core/src/units/builtin.rs", "query_unit", "unwrap", 1), "exactly one candidate was just counted")
]

/-- **Tie A**: every explicit panic construct in today's fend-core (outside tests) is a reviewed one, with the
reviewed multiplicity -/
theorem sites_reviewed : Fend.Gen.panicSites.all (fun s => reviewed.any (fun r => r.1 == s)) = true := by
  decide +kernel

/-- `day_of_week`: the index matched against 0..6 is in range for EVERY year (also BC), month offset and day -/
theorem weekday_index_in_range (d1 m day : Int) : 0 ≤ (d1 + m + (day - 1)) % 7 ∧ (d1 + m + (day - 1)) % 7 < 7 :=
  ⟨Int.emod_nonneg _ (by decide), Int.emod_lt_of_pos _ (by decide)⟩

/-- `Complex::pow`: a natural number modulo 4 is one of the four matched arms -/
theorem mod4_lt (n : Nat) : n % 4 = 0 ∨ n % 4 = 1 ∨ n % 4 = 2 ∨ n % 4 = 3 := by omega

/-- `Year::next` / `prev` never construct year 0 (the `assert!(year != 0)` of `Year::new`) -/
def yearNext (y : Int) : Int := if y = -1 then 1 else y + 1
def yearPrev (y : Int) : Int := if y = 1 then -1 else y - 1
theorem year_step_nonzero (y : Int) (h : y ≠ 0) : yearNext y ≠ 0 ∧ yearPrev y ≠ 0 := by
  unfold yearNext yearPrev
  constructor <;> split <;> omega

/-- the stepping functions are only called below the ends of the i32 range (the `checked_*` guards): no overflow -/
theorem year_step_in_range (y : Int) (h0 : y ≠ 0) (lo : -2147483648 < y) (hi : y < 2147483647) :
    -2147483648 ≤ yearPrev y ∧ yearNext y ≤ 2147483647 := by
  unfold yearNext yearPrev
  constructor <;> split <;> omega

/-- superscript exponents: digits are folded most significant first, no fixed-width power of ten is formed -/
def foldDigits (ds : List Nat) : Nat := ds.foldl (fun a d => a * 10 + d) 0
example : foldDigits [9, 9, 9, 9, 9, 9, 9, 9, 9, 9, 9, 9, 9, 9, 9, 9, 9, 9, 9, 9, 9, 9] = 9999999999999999999999 := by decide

/-! ### panic-freedom of the modelled arithmetic core

In the models of `biguint.rs` / `bigrat.rs` / `complex.rs` every Rust panic site (overflow, index out of range,
`unreachable!`, `assert!`, `unwrap` on an error) is the result `.error .panic`.  The refinement theorems of C01 / C10 give, as
corollaries, that this result is never produced on the inputs the evaluator can build. -/

/-- evaluating ANY expression tree over + - * / unary minus on well-formed rational literals never reaches a panic site
(`BigUint::sub` underflow, `lshift` on an empty vector, `Ord::cmp`'s unwrap, ... are all unreachable from here) -/
theorem field_eval_never_panics (e : BigRat.QExpr) (hl : BigRat.LeavesOK e) : BigRat.evalQ e ≠ .error .panic := by
  obtain ⟨h1, h2⟩ := BigRat.evalQ_spec e hl
  cases hd : BigRat.denote e with
  | none => rw [h2 hd]; intro h; cases h
  | some q => obtain ⟨r, hr, _⟩ := h1 q hd; rw [hr]; intro h; cases h

/-- the same for trees over complex rationals (with conjugate) -/
theorem complex_eval_never_panics (e : Cx.CExpr) (hl : Cx.LeavesOKC e) : Cx.evalC e ≠ .error .panic := by
  obtain ⟨h1, h2⟩ := Cx.evalC_spec e hl
  cases hd : Cx.denoteC e with
  | none => rw [h2 hd]; intro h; cases h
  | some z => obtain ⟨r, hr, _⟩ := h1 z hd; rw [hr]; intro h; cases h

/-- long division, gcd and both shifts return a value (or `divideByZero`) on every well-formed limb vector: their internal
`sub` never underflows, `lshift` never sees an empty vector, the gcd loop never runs out of fuel -/
theorem bignum_core_never_panics (a b : BigUint) (ha : a.WF) (hb : b.WF) (hne : a.limbs ≠ []) :
    BigUint.divmod a b ≠ .error .panic ∧ BigUint.gcd a b ≠ .error .panic ∧
    (b.fitsU64 = true → BigUint.lshiftN a b ≠ .error .panic ∧ BigUint.rshiftN a b ≠ .error .panic) := by
  refine ⟨?_, ?_, fun hf => ⟨?_, ?_⟩⟩
  · by_cases h0 : BigUint.val b = 0
    · rw [BigUint.divmod_zero a b hb h0]; intro h; cases h
    · obtain ⟨q, r, h, _⟩ := BigUint.divmod_val a b ha hb h0; rw [h]; intro h; cases h
  · obtain ⟨g, h, _⟩ := BigUint.gcd_val a b ha hb; rw [h]; intro h; cases h
  · obtain ⟨r, h, _⟩ := BigUint.lshiftN_val a b ha hne hf; rw [h]; intro h; cases h
  · obtain ⟨r, h, _⟩ := BigUint.rshiftN_val a b ha hf; rw [h]; intro h; cases h

end Fend.C06
