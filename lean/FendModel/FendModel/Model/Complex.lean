/-
Executable model of the complex layer of `core/src/num/complex.rs` (`impl Exact<Complex>`: `add`, `mul`, `div`,
`Neg`, `conjugate`) over exact rational parts, together with the slice of `core/src/num/real.rs` it calls
(`Exact<Real>::{add, mul, div}` on `Pattern::Simple`, with their zero short-cuts, and `Real::is_zero`).
Same conventions as `Model/BigRat.lean`; no imports beyond it.
-/
import FendModel.Model.BigRat

namespace Fend

structure Cx where
  re : BigRat
  im : BigRat
deriving DecidableEq, Repr, Inhabited

namespace Cx
open BigRat (ofNat64 negate)
open BigUint (small large)

/-- `BigRat::is_definitely_zero`: only the `Small(0)` numerator -/
def defZero (a : BigRat) : Bool :=
  match a.num with
  | small n => n == 0
  | large _ => false

/-- `Real::is_zero`: `a.is_definitely_zero() || a == &0.into()` (`==` is `cmp(..) == Equal`) -/
def isZero (a : BigRat) : Bool := defZero a || (BigRat.cmpD a (ofNat64 0) == .eq)

/-- `Exact<Real>::add` on exact rationals -/
def radd (a b : BigRat) : R BigRat :=
  if isZero a then .ok b else if isZero b then .ok a else BigRat.add a b

/-- `Exact<Real>::mul` on exact rationals -/
def rmul (a b : BigRat) : R BigRat :=
  if isZero a then .ok a else if isZero b then .ok b else .ok (BigRat.mul a b)

/-- `Exact<Real>::div` on exact rationals -/
def rdiv (a b : BigRat) : R BigRat :=
  if isZero b then .error .divideByZero else if isZero a then .ok a else BigRat.div a b

def neg (c : Cx) : Cx := ⟨negate c.re, negate c.im⟩
def conj (c : Cx) : Cx := ⟨c.re, negate c.im⟩

def add (a b : Cx) : R Cx :=
  match radd a.re b.re with
  | .error e => .error e
  | .ok re => match radd a.im b.im with
    | .error e => .error e
    | .ok im => .ok ⟨re, im⟩

/-- `(a + bi)(c + di) = (ac - bd) + (ad + bc)i` -/
def mul (a b : Cx) : R Cx := do
  let p1 ← rmul a.re b.re
  let p2 ← rmul a.im b.im
  let re ← radd p1 (negate p2)
  let p3 ← rmul a.re b.im
  let p4 ← rmul a.im b.re
  let im ← radd p3 p4
  .ok ⟨re, im⟩

/-- `(u + vi) / (x + yi) = (1/(x^2 + y^2)) * ((ux + vy) + (vx - uy)i)`, with the both-real short-cut -/
def div (a b : Cx) : R Cx :=
  if isZero a.im && isZero b.im then do
    let re ← rdiv a.re b.re
    .ok ⟨re, ofNat64 0⟩
  else do
    let prod1 ← rmul b.re b.re
    let prod2 ← rmul b.im b.im
    let sum ← radd prod1 prod2
    let realPart ← rdiv (ofNat64 1) sum
    let prod3 ← rmul a.re b.re
    let prod4 ← rmul a.im b.im
    let real2 ← radd prod3 prod4
    let prod5 ← rmul a.im b.re
    let prod6 ← rmul a.re b.im
    let imag2 ← radd prod5 (negate prod6)
    mul ⟨realPart, ofNat64 0⟩ ⟨real2, imag2⟩

end Cx
end Fend
