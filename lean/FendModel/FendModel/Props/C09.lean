/-
C09 — variables and lambdas are referentially transparent and lexically scoped.
-/
import FendModel.Model.Scope
import FendModel.Proofs.ScopeLet
import FendModel.Proofs.ScopeBetaFull
import FendModel.Proofs.ScopeLetFull

namespace Fend.C09
open Fend.Scope

theorem lookup_insert_same (vs : Vars) (x : String) (v : Value) : ∃ w, lookup (setVar vs x v) x = some w ∧
    (∀ q, v = .num q → w = .num q) ∧ (v = .unit → w = .unit) := by
  induction vs with
  | nil => exact ⟨v, by simp [setVar, lookup], fun q h => h, fun h => h⟩
  | cons p t ih =>
    obtain ⟨k, w⟩ := p
    unfold setVar
    split
    · rename_i h; exact ⟨v, by simp [lookup, h], fun q h => h, fun h => h⟩
    · rename_i h
      obtain ⟨w', h1, h2, h3⟩ := ih
      exact ⟨w', by simp [lookup, h, h1], h2, h3⟩

theorem lookup_insert_other (vs : Vars) (x y : String) (v : Value) (h : y ≠ x) :
    (lookup (setVar vs x v) y).isSome = (lookup vs y).isSome := by
  induction vs with
  | nil => simp [setVar, lookup, Ne.symm h]
  | cons p t ih =>
    obtain ⟨k, w⟩ := p
    unfold setVar
    split
    · rename_i hk; subst hk; simp [lookup, Ne.symm h]
    · simp only [lookup]; split <;> simp_all

/-- `_` and `ans` hold the most recently computed result: right after a successful input a read of either
finds a value, and for a number (or the unit value) it is that very result -/
theorem ans_holds_result (bi : List (String × Rat)) (fuel : Nat) (e : Expr) (vs vs' : Vars) (v : Value)
    (h : evalInput bi fuel e vs = (.ok v, vs')) :
    (∃ w, lookup vs' "ans" = some w ∧ (∀ q, v = .num q → w = .num q) ∧ (v = .unit → w = .unit)) := by
  unfold evalInput at h
  split at h
  · rename_i v0 vs0 _
    injection h with h1 h2
    injection h1 with h1
    subst h1; subst h2
    exact lookup_insert_same _ "ans" v0
  · injection h with h1 _; cases h1

/-- an input that fails to compute a value does not touch `_` / `ans` beyond what the evaluation itself did:
no result is recorded -/
theorem failure_records_nothing (bi : List (String × Rat)) (fuel : Nat) (e : Expr) (vs : Vars) (er : Err)
    (h : (eval bi fuel e .nil vs).1 = .error er) : evalInput bi fuel e vs = (.error er, (eval bi fuel e .nil vs).2) := by
  unfold evalInput
  generalize eval bi fuel e .nil vs = r at *
  obtain ⟨r1, r2⟩ := r
  simp only at h
  subst h
  rfl

/-- inner parameters shadow outer ones -/
theorem inner_shadows_outer (x : String) (a : Expr) (c inner : Scope) :
    (Scope.cons x a c inner).find x = some (a, c) ∧ ∀ y, y ≠ x → (Scope.cons x a c inner).find y = inner.find y := by
  constructor
  · simp [Scope.find]
  · intro y hy; simp [Scope.find, Ne.symm hy]

/-- resolution order: a parameter beats a user variable beats a built-in -/
theorem resolution_order (bi : List (String × Rat)) (fuel : Nat) (x : String) (sc : Scope) (vs : Vars) :
    (∀ a c, sc.find x = some (a, c) → eval bi (fuel + 1) (.var x) sc vs = eval bi fuel a c vs) ∧
    (∀ v, sc.find x = none → lookup vs x = some v → eval bi (fuel + 1) (.var x) sc vs = (.ok v, vs)) := by
  constructor
  · intro a c h; simp [eval, h]
  · intro v h1 h2; simp [eval, h1, h2]

/-- a closure keeps the bindings it was created with, and a call binds the argument lazily together with the
scope of the call site -/
theorem closure_and_call (bi : List (String × Rat)) (fuel : Nat) (x : String) (b r : Expr) (sc : Scope) (vs : Vars) :
    eval bi (fuel + 1) (.lam x b) sc vs = (.ok (.fn x b sc), vs) ∧
    (∀ f p body custom vs', eval bi fuel f sc vs = (.ok (.fn p body custom), vs') →
      eval bi (fuel + 1) (.app f r) sc vs = eval bi fuel body (.cons p r sc custom) vs') := by
  constructor
  · simp [eval]
  · intro f p body custom vs' h; simp [eval, h]

/-- bodies without binders, applications or assignments -/
def firstOrder : Expr → Bool
  | .num _ => true
  | .unitLit => true
  | .var _ => true
  | .parens e => firstOrder e
  | .neg e => firstOrder e
  | .bop _ a b => firstOrder a && firstOrder b
  | .lam _ _ => false
  | .app _ _ => false
  | .assign _ _ => false
  | .seq a b => firstOrder a && firstOrder b

theorem body_subst (bi : List (String × Rat)) (x : String) (r : Expr) (sc : Scope) (b : Expr) (hb : firstOrder b = true) :
    ∀ (fuel : Nat) (vs : Vars), eval bi fuel b (.cons x r sc sc) vs = eval bi fuel (subst x r b) sc vs := by
  induction b with
  | num q => intro fuel vs; cases fuel <;> simp [eval, subst]
  | unitLit => intro fuel vs; cases fuel <;> simp [eval, subst]
  | var y =>
    intro fuel vs
    cases fuel with
    | zero => simp [eval]
    | succ fuel =>
      by_cases hy : y = x
      · subst hy; simp [eval, subst, Scope.find]
      · simp [eval, subst, Scope.find, hy, Ne.symm hy]
  | parens e ih =>
    intro fuel vs
    cases fuel with
    | zero => simp [eval]
    | succ fuel => simp only [eval, subst]; exact ih (by simpa [firstOrder] using hb) fuel vs
  | neg e ih =>
    intro fuel vs
    cases fuel with
    | zero => simp [eval]
    | succ fuel => simp only [eval, subst]; rw [ih (by simpa [firstOrder] using hb) fuel vs]
  | bop op a b iha ihb =>
    intro fuel vs
    simp only [firstOrder, Bool.and_eq_true] at hb
    cases fuel with
    | zero => simp [eval]
    | succ fuel =>
      simp only [eval, subst]
      rw [iha hb.1 fuel vs]
      cases h : eval bi fuel (subst x r a) sc vs with
      | mk res vs1 =>
        cases res with
        | error er => rfl
        | ok va => simp only; rw [ihb hb.2 fuel vs1]
  | lam y b _ => simp [firstOrder] at hb
  | app f a _ _ => simp [firstOrder] at hb
  | assign y e _ => simp [firstOrder] at hb
  | seq a b iha ihb =>
    intro fuel vs
    simp only [firstOrder, Bool.and_eq_true] at hb
    cases fuel with
    | zero => simp [eval]
    | succ fuel =>
      simp only [eval, subst]
      rw [iha hb.1 fuel vs]
      cases h : eval bi fuel (subst x r a) sc vs with
      | mk res vs1 =>
        cases res with
        | error er => rfl
        | ok va => simp only; rw [ihb hb.2 fuel vs1]

/-- **β for first-order bodies**: applying `\x. b` to ANY argument expression `r` (evaluated lazily, possibly
failing, possibly with effects) gives exactly what substituting `(r)` for `x` in `b` gives — same value or error,
same final variables — in every scope and context -/
theorem beta_first_order (bi : List (String × Rat)) (x : String) (b r : Expr) (hb : firstOrder b = true)
    (fuel : Nat) (sc : Scope) (vs : Vars) :
    eval bi (fuel + 2) (.app (.lam x b) r) sc vs = eval bi (fuel + 1) (subst x r b) sc vs := by
  have h1 : eval bi (fuel + 1) (.lam x b) sc vs = (.ok (.fn x b sc), vs) := by simp [eval]
  have := (closure_and_call bi (fuel + 1) x b r sc vs).2 (.lam x b) x b sc vs h1
  rw [this]
  exact body_subst bi x r sc b hb (fuel + 1) vs

/-- **β in full** (lexical scoping of lambdas): for an ARBITRARY body `b` — nested lambdas, applications, closures stored in
variables and called later, assignments, sequences — and an ARBITRARY argument expression `r` (lazily evaluated, possibly
failing, possibly with effects, possibly mentioning free names and lambdas of its own), applying `\x. b` to `r` and evaluating
`b` with `(r)` written in place of `x` give related results in every scope and context, with the same fuel: the same error,
or the same number, or unit, or closures that differ only by that substitution; and the variables afterwards are related in
the same way.  Hygiene hypothesis: no binder inside `b` re-binds `x` or a name occurring in `r` (the classical side condition
of capture-avoiding substitution; `subst` here is the plain textual one). -/
theorem beta (bi : List (String × Rat)) (x : String) (b r : Expr) (hb : Hyg x r b = true) (fuel : Nat) (sc : Scope) (vs : Vars) :
    ResR x r (eval bi (fuel + 2) (.app (.lam x b) r) sc vs) (eval bi (fuel + 1) (subst x r b) sc vs) :=
  beta_full x r bi b hb fuel sc vs

/-- … and what an observer of the result sees is identical -/
theorem beta_observable (bi : List (String × Rat)) (x : String) (b r : Expr) (hb : Hyg x r b = true) (fuel : Nat) (sc : Scope) (vs : Vars) :
    (∀ er, (eval bi (fuel + 2) (.app (.lam x b) r) sc vs).1 = .error er ↔ (eval bi (fuel + 1) (subst x r b) sc vs).1 = .error er) ∧
    (∀ q, (eval bi (fuel + 2) (.app (.lam x b) r) sc vs).1 = .ok (.num q) ↔ (eval bi (fuel + 1) (subst x r b) sc vs).1 = .ok (.num q)) ∧
    ((eval bi (fuel + 2) (.app (.lam x b) r) sc vs).1 = .ok .unit ↔ (eval bi (fuel + 1) (subst x r b) sc vs).1 = .ok .unit) ∧
    ((∃ p body C, (eval bi (fuel + 2) (.app (.lam x b) r) sc vs).1 = .ok (.fn p body C)) ↔
      (∃ p body C, (eval bi (fuel + 1) (subst x r b) sc vs).1 = .ok (.fn p body C))) :=
  beta_full_observable x r bi b hb fuel sc vs

-- non-vacuity: b = `(\y. (\z. y + z + x) x) x` hands `x` on twice through nested lambdas; r = `k + 1` has a free name
example : Hyg "x" (.bop .add (.var "k") (.num 1))
    (.app (.lam "y" (.app (.lam "z" (.bop .add (.bop .add (.var "y") (.var "z")) (.var "x"))) (.var "x"))) (.var "x")) = true := by decide

/-- **binding a name and using it = writing the parenthesised expression in its place** (top level, closed arithmetic
right-hand side, body without binders / applications / assignments): `x = e; b` yields exactly what `b[x := (e)]` yields —
the same value or the same error — in every context, for all sufficient fuel -/
theorem let_transparent (bi : List (String × Rat)) (x : String) (e : Expr) (q : Rat) (he : closedArith e = true) (hq : ceval e = .ok q)
    (b : Expr) (hb : plainBody b = true) (fuel : Nat) (hf : depth (subst x e b) ≤ fuel) (hfe : depth e + 1 ≤ fuel) (vs : Vars) :
    (eval bi (fuel + 1) (.seq (.assign x e) b) .nil vs).1 = (eval bi fuel (subst x e b) .nil vs).1 :=
  let_statement bi x e q he hq b hb fuel hf hfe vs

/-- **binding a name and using it = writing the parenthesised expression in its place, for ARBITRARY bodies**: with `e` a closed
arithmetic expression of value `q`, `x = e; b` and `b[x := (e)]` give related results — the same error, the same number or unit,
closures differing only by that substitution — and related variables, whenever `b` neither re-binds nor re-assigns `x` and the
values already stored do not mention `x` (`hgood`: each is related to itself; numbers, unit and closures without `x` are).
The right side re-evaluates `(e)` at every use, so it is given `depth e + 1` more fuel; the statement is up to fuel exhaustion
of the left side (first disjunct of `ResR`). -/
theorem let_general (bi : List (String × Rat)) (x : String) (e : Expr) (q : Rat) (b : Expr) (he : closedArith e = true) (hq : ceval e = .ok q)
    (hb : LetF.HygL x b = true) (vs : Vars)
    (hgood : ∀ y, y ≠ x → lookup vs y = none ∨ ∃ v, lookup vs y = some v ∧ LetF.VR x e v v)
    (F : Nat) (hF : depth e + 1 ≤ F) :
    LetF.ResR x e q (eval bi (F + 1) (.seq (.assign x e) b) .nil vs) (eval bi (F + (depth e + 1)) (subst x e b) .nil vs) :=
  LetF.let_full x e q bi b he hq hb vs hgood F hF

theorem let_general_observable (bi : List (String × Rat)) (x : String) (e : Expr) (q : Rat) (b : Expr) (he : closedArith e = true) (hq : ceval e = .ok q)
    (hb : LetF.HygL x b = true) (vs : Vars)
    (hgood : ∀ y, y ≠ x → lookup vs y = none ∨ ∃ v, lookup vs y = some v ∧ LetF.VR x e v v)
    (F : Nat) (hF : depth e + 1 ≤ F) :
    (∀ r, (eval bi (F + 1) (.seq (.assign x e) b) .nil vs).1 = .ok (.num r) →
      (eval bi (F + (depth e + 1)) (subst x e b) .nil vs).1 = .ok (.num r)) ∧
    ((eval bi (F + 1) (.seq (.assign x e) b) .nil vs).1 = .ok .unit →
      (eval bi (F + (depth e + 1)) (subst x e b) .nil vs).1 = .ok .unit) ∧
    (∀ er, er ≠ .fuel → (eval bi (F + 1) (.seq (.assign x e) b) .nil vs).1 = .error er →
      (eval bi (F + (depth e + 1)) (subst x e b) .nil vs).1 = .error er) :=
  LetF.let_full_observable x e q bi b he hq hb vs hgood F hF

-- non-vacuity: b = `g = (y: y * x); g (x + 1)` uses x under a lambda stored in a variable and as an argument; no prior variables
example : LetF.HygL "x" (.seq (.assign "g" (.lam "y" (.bop .mul (.var "y") (.var "x")))) (.app (.var "g") (.bop .add (.var "x") (.num 1)))) = true ∧
    (∀ y, y ≠ "x" → lookup ([] : Vars) y = none ∨ ∃ v, lookup ([] : Vars) y = some v ∧ LetF.VR "x" (.num 2) v v) :=
  ⟨by decide, fun _ _ => Or.inl rfl⟩

-- non-vacuity: `(\x. x * x + k) (2 + 1)` with k = 10 evaluates to 19 both ways
example : (eval [] 10 (.app (.lam "x" (.bop .add (.bop .mul (.var "x") (.var "x")) (.var "k"))) (.bop .add (.num 2) (.num 1))) .nil
    [("k", .num 10)]).1.toOption.isSome = true := by decide +kernel

end Fend.C09
