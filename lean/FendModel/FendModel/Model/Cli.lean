/-
Model of the command-line front end: `cli/src/args.rs::Action::from_args` and
`cli/src/main.rs::{eval_exprs, eval_and_print_res}` (plus the stdin mode of `real_main`).
The core evaluator and the file system are parameters.
-/
namespace Fend.Cli

inductive Action where
  | help | version | repl | eval (exprs : List String) | defaultConfig
deriving DecidableEq, Repr

inductive ArgErr where
  | expectedFilename | expectedExpression | unreadable (file : String)
deriving DecidableEq, Repr

structure ArgState where
  help : Bool := false
  version : Bool := false
  defaultConfig : Bool := false
  beforeDD : Bool := true
  exprs : List String := []      -- reversed
  expr : String := ""
deriving Repr

def isBlank (s : String) : Bool := s.trimAscii.toString.isEmpty

/-- push the pending positional expression, then `x` -/
def flushThen (st : ArgState) (x : String) : ArgState :=
  if st.expr.isEmpty then { st with exprs := x :: st.exprs }
  else { st with exprs := x :: st.expr :: st.exprs, expr := "" }

/-- the `while idx < args.len()` loop -/
def argLoop (readFile : String → Option String) : List String → ArgState → Except ArgErr ArgState
  | [], st => .ok st
  | arg :: rest, st =>
    if st.beforeDD && (arg = "help" || arg = "--help" || arg = "-h") then argLoop readFile rest { st with help := true }
    else if st.beforeDD && (arg = "--version" || arg = "-v" || arg = "-V") then argLoop readFile rest { st with version := true }
    else if st.beforeDD && (arg = "--default-config" || arg = "--print-default-config") then
      argLoop readFile rest { st with defaultConfig := true }
    else if st.beforeDD && (arg = "-f" || arg = "--file") then
      match rest with
      | [] => .error .expectedFilename
      | f :: rest =>
        match readFile f with
        | none => .error (.unreadable f)
        | some contents => argLoop readFile rest (flushThen st contents)
    else if st.beforeDD && (arg = "-e" || arg = "--eval") then
      match rest with
      | [] => .error .expectedExpression
      | e :: rest => argLoop readFile rest (flushThen st e)
    else if st.beforeDD && arg = "--" then argLoop readFile rest { st with beforeDD := false }
    else
      match (if st.beforeDD then readFile arg else none) with
      | some contents => argLoop readFile rest (flushThen st contents)
      | none =>
        if isBlank arg then argLoop readFile rest st
        else argLoop readFile rest { st with expr := if st.expr.isEmpty then arg else st.expr ++ " " ++ arg }

def fromArgs (args : List String) (readFile : String → Option String) : Except ArgErr Action :=
  match argLoop readFile args {} with
  | .error e => .error e
  | .ok st =>
    .ok (if st.help then .help else if st.version then .version else if st.defaultConfig then .defaultConfig
         else if st.exprs.isEmpty && st.expr.isEmpty then .repl
         else .eval ((if st.expr.isEmpty then st.exprs else st.expr :: st.exprs).reverse))

/-- what the core returns for one expression -/
inductive CoreRes where
  | ok (text : String) (emptyOrUnit : Bool) (trailingNewline : Bool)
  | err (msg : String)
deriving DecidableEq, Repr

structure Out where
  stdout : String := ""
  stderr : String := ""
  status : Nat := 0
deriving DecidableEq, Repr

/-- `eval_exprs`: one shared context `σ` folded left to right; only the last result is printed;
the first error stops everything with status 1 -/
def evalExprs {σ} (coreEval : σ → String → σ × CoreRes) : σ → List String → Out → Out
  | _, [], out => out
  | ctx, e :: rest, out =>
    match coreEval ctx e with
    | (_, .err msg) => { out with stderr := out.stderr ++ "Error: " ++ msg ++ "\n", status := 1 }
    | (ctx', .ok text emptyOrUnit nl) =>
      let out := if rest.isEmpty && !emptyOrUnit then { out with stdout := out.stdout ++ text ++ (if nl then "\n" else "") } else out
      evalExprs coreEval ctx' rest out

/-- the states at which each expression is evaluated (for `vars_carry`) -/
def states {σ} (coreEval : σ → String → σ × CoreRes) : σ → List String → List σ
  | _, [] => []
  | ctx, e :: rest =>
    match coreEval ctx e with
    | (_, .err _) => [ctx]
    | (ctx', .ok _ _ _) => ctx :: states coreEval ctx' rest

end Fend.Cli
