/-
Value-level model of roots and rational powers: `BigUint::root_n` (bisection on integers with an exactness
flag), `BigRat::root_n` / `iter_root_n` (50 halvings on rationals), `BigRat::pow`, and of the `exact` flag
algebra (`Exact<T>`: every operation ANDs the flags of its operands with its own exactness).
Limb-level behaviour of the arithmetic these call is the business of C01.
-/
namespace Fend.Root

/-- the bisection loop of `BigUint::root_n`: invariant `low^n < x < high^n` -/
def rootLoop (x n : Nat) : Nat → Nat → Nat → Option (Nat × Bool)
  | 0, _, _ => none
  | fuel + 1, low, high =>
    let guess := (low + high) / 2
    if guess ^ n = x then some (guess, true)
    else
      let low' := if guess ^ n > x then low else guess
      let high' := if guess ^ n > x then guess else high
      if high' - low' ≤ 1 then some (low', false) else rootLoop x n fuel low' high'

/-- `BigUint::root_n` for `n ≥ 1` (value, exact) -/
def rootNat (x n : Nat) : Option (Nat × Bool) :=
  if x = 0 ∨ x = 1 ∨ n = 1 then some (x, true)
  else
    let bits := Nat.log2 x + 1
    let maxBits := bits / n + 1
    rootLoop x n (maxBits + 4) 1 (2 ^ (maxBits + 1))

/-- `iter_root_n`: `k` halvings of `[low, high]` around the `n`-th root of `val` -/
def iterLoop (val : Rat) (n : Nat) : Nat → Rat → Rat → Rat × Rat
  | 0, low, high => (low, high)
  | k + 1, low, high =>
    let guess := (low + high) / 2
    if guess ^ n < val then iterLoop val n k guess high else iterLoop val n k low guess

def iterRoot (low : Nat) (val n : Nat) : Rat :=
  let p := iterLoop (val : Rat) n 50 (low : Rat) ((low : Rat) + 1)
  (p.1 + p.2) / 2

/-- `BigRat::root_n` on a positive simplified `num/den`, `n ≥ 1`: (value, exact) -/
def ratRoot (num den n : Nat) : Option (Rat × Bool) :=
  if num = 0 then some (0, true) else
  match rootNat num n, rootNat den n with
  | some (a, ea), some (b, eb) =>
    if ea && eb then some ((a : Rat) / (b : Rat), true)
    else
      let nr : Rat := if ea then (a : Rat) else iterRoot a num n
      let dr : Rat := if eb then (b : Rat) else iterRoot b den n
      some (nr / dr, false)
  | _, _ => none

/-- `BigRat::pow` for a non-negative base `num/den` and exponent `(-1)^neg p/q` (both simplified) -/
def ratPow (num den : Nat) (neg : Bool) (p q : Nat) : Option (Rat × Bool) :=
  let core : Option (Rat × Bool) :=
    if q = 1 then some (((num : Rat) / (den : Rat)) ^ p, true)
    else
      -- (num^p / den^p) is again in lowest terms
      ratRoot (num ^ p) (den ^ p) q
  match core with
  | none => none
  | some (v, e) => if neg then some (1 / v, e) else some (v, e)

/-! ### the `exact` flag -/

/-- expressions as far as exactness is concerned: a leaf carries whether its value is exact, an operation
whether it is itself exact on these operands (a root that does not come out, a transcendental function, a
truncating conversion are not) -/
inductive FExpr where
  | leaf (exact : Bool)
  | op1 (opExact : Bool) (a : FExpr)
  | op2 (opExact : Bool) (a b : FExpr)
  | addZero (a : FExpr)          -- `a + 0` with an EXACT zero on the right: returns `a` itself
deriving Repr

def flag : FExpr → Bool
  | .leaf e => e
  | .op1 o a => flag a && o
  | .op2 o a b => flag a && flag b && o
  | .addZero a => flag a

def allExact : FExpr → Bool
  | .leaf e => e
  | .op1 o a => allExact a && o
  | .op2 o a b => allExact a && allExact b && o
  | .addZero a => allExact a

end Fend.Root
