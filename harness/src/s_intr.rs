//! Stream `intr` (C07): `<eval|preview> <k> <hex utf-8 input>`.  The input is evaluated in a context that already
//! holds `pre = 11`, under a predicate that starts returning true at its k-th call (k = `never` for none) and that
//! records when each call happens.  Reported: the result, the number of calls, whether it fired, the largest time
//! between successive calls (also start -> first call and last call -> return), the time from firing to return,
//! and the context afterwards (a fixed set of names read back under a never-firing predicate).
use crate::common::*;
use std::cell::Cell;
use std::time::Instant;

struct Timed {
    polls: Cell<u64>,
    fire_at: u64,
    last: Cell<Instant>,
    max_gap_us: Cell<u128>,
    fired_at: Cell<Option<Instant>>,
}
impl fend_core::Interrupt for Timed {
    fn should_interrupt(&self) -> bool {
        let now = Instant::now();
        let gap = now.duration_since(self.last.get()).as_micros();
        if gap > self.max_gap_us.get() {
            self.max_gap_us.set(gap);
        }
        self.last.set(now);
        let n = self.polls.get();
        self.polls.set(n + 1);
        if n >= self.fire_at {
            if self.fired_at.get().is_none() {
                self.fired_at.set(Some(now));
            }
            true
        } else {
            false
        }
    }
}

fn unhex(h: &str) -> Option<String> {
    let b: Option<Vec<u8>> = (0..h.len()).step_by(2).map(|i| h.get(i..i + 2).and_then(|x| u8::from_str_radix(x, 16).ok())).collect();
    String::from_utf8(b?).ok()
}

fn digest(s: &str) -> String {
    // long results are compared by length + a simple hash + head
    if s.len() <= 60 {
        return s.replace(' ', "_");
    }
    let mut h: u64 = 1469598103934665603;
    for b in s.bytes() {
        h = (h ^ u64::from(b)).wrapping_mul(1099511628211);
    }
    let head: String = s.chars().take(20).collect();
    format!("{}..len{}h{:x}", head.replace(' ', "_"), s.len(), h)
}

struct Clock {
    polls: Cell<u64>,
    until: Instant,
    fired_at: Cell<Option<Instant>>,
}
impl fend_core::Interrupt for Clock {
    fn should_interrupt(&self) -> bool {
        self.polls.set(self.polls.get() + 1);
        if self.fired_at.get().is_some() {
            return true;
        }
        let now = Instant::now();
        if now >= self.until {
            self.fired_at.set(Some(now));
            true
        } else {
            false
        }
    }
}

/// `deadline <ms> <hex input>`: the predicate turns true `ms` after the start (a Ctrl-C / a hint budget / a web timeout);
/// reports how long after that the call returned.  Work that never polls does not return at all (runner timeout).
fn deadline_line(ms: u64, text: &str, preview: bool) -> String {
    let mut c = fend_core::Context::new();
    let start = Instant::now();
    let int = Clock { polls: Cell::new(0), until: start + std::time::Duration::from_millis(ms), fired_at: Cell::new(None) };
    let res = if preview {
        match guarded(|| fend_core::evaluate_preview_with_interrupt(text, &mut c, &int)) {
            Ok(v) => format!("ok:{}", digest(v.get_main_result())),
            Err(p) => format!("panic:{}", digest(&p)),
        }
    } else {
        match guarded(|| fend_core::evaluate_with_interrupt(text, &mut c, &int)) {
            Ok(Ok(v)) => format!("ok:{}", digest(v.get_main_result())),
            Ok(Err(e)) => format!("err:{}", digest(&e)),
            Err(p) => format!("panic:{}", digest(&p)),
        }
    };
    let end = Instant::now();
    let after = int.fired_at.get().map_or(0, |t| end.duration_since(t).as_micros());
    format!("res={} polls={} fired={} gap_us=0 after_fire_us={} total_us={} vars=-=-", res, int.polls.get(), u8::from(int.fired_at.get().is_some()), after, end.duration_since(start).as_micros())
}

pub fn line(l: &str) -> String {
    let ws: Vec<&str> = l.trim().split(' ').collect();
    let [mode, k, hex] = ws.as_slice() else { return "bad-op".into() };
    if *mode == "deadline" || *mode == "deadline-preview" {
        let Some(text) = unhex(hex) else { return "bad-op".into() };
        let Ok(ms) = k.parse::<u64>() else { return "bad-op".into() };
        return deadline_line(ms, &text, *mode == "deadline-preview");
    }
    let Some(text) = unhex(hex) else { return "bad-op".into() };
    let fire_at: u64 = if *k == "never" { u64::MAX } else { match k.parse() { Ok(v) => v, Err(_) => return "bad-op".into() } };
    let mut c = fend_core::Context::new();
    let never = Counting::never();
    let _ = fend_core::evaluate_with_interrupt("pre = 11", &mut c, &never);
    let start = Instant::now();
    let int = Timed { polls: Cell::new(0), fire_at, last: Cell::new(start), max_gap_us: Cell::new(0), fired_at: Cell::new(None) };
    let res = match *mode {
        "eval" => match guarded(|| fend_core::evaluate_with_interrupt(&text, &mut c, &int)) {
            Ok(Ok(v)) => format!("ok:{}", digest(v.get_main_result())),
            Ok(Err(e)) => format!("err:{}", digest(&e)),
            Err(p) => format!("panic:{}", digest(&p)),
        },
        "preview" => match guarded(|| fend_core::evaluate_preview_with_interrupt(&text, &mut c, &int)) {
            Ok(v) => format!("ok:{}", digest(v.get_main_result())),
            Err(p) => format!("panic:{}", digest(&p)),
        },
        _ => return "bad-op".into(),
    };
    let end = Instant::now();
    let tail = end.duration_since(int.last.get()).as_micros();
    let gap = int.max_gap_us.get().max(tail);
    let after = int.fired_at.get().map_or(0, |t| end.duration_since(t).as_micros());
    let mut vars = Vec::new();
    for name in ["pre", "va", "vb", "vc", "_", "ans", "1 + 1"] {
        let mut cc = c.clone();
        let d = Deadline::ms(3000);
        vars.push(match guarded(|| fend_core::evaluate_with_interrupt(name, &mut cc, &d)) {
            Ok(Ok(v)) => format!("{}={}", name.replace(' ', ""), digest(v.get_main_result())),
            Ok(Err(e)) => format!("{}=!{}", name.replace(' ', ""), digest(&e)),
            Err(p) => format!("{}=PANIC:{}", name.replace(' ', ""), digest(&p)),
        });
    }
    format!("res={} polls={} fired={} gap_us={} after_fire_us={} total_us={} vars={}", res, int.polls.get(), u8::from(int.fired_at.get().is_some()), gap, after,
            end.duration_since(start).as_micros(), vars.join("|"))
}
