//! Streams for C12 / C14.
//!  `serde`: `stmt ;; stmt ;; ... || probe ;; probe ...` — run the statements in one context, save the
//!           variables, evaluate the probes; load the image into a fresh context, evaluate the probes
//!           again, save again. Output: `img=<hex>\timg2=<hex>\tp1=<r|r|..>\tp2=<..>` (or `saveerr`/`loaderr`).
//!  `deser`: `<hex image>` — Context::deserialize_variables on arbitrary bytes, then (if loaded) print
//!           every variable named v0..v9/f0.. and save again. Output: class + largest single allocation.
use crate::common::*;
use fend_core::Context;
use std::alloc::{GlobalAlloc, Layout, System};
use std::sync::atomic::{AtomicUsize, Ordering};

pub struct Counting2;
static MAX_ALLOC: AtomicUsize = AtomicUsize::new(0);
unsafe impl GlobalAlloc for Counting2 {
    unsafe fn alloc(&self, l: Layout) -> *mut u8 {
        MAX_ALLOC.fetch_max(l.size(), Ordering::Relaxed);
        unsafe { System.alloc(l) }
    }
    unsafe fn dealloc(&self, p: *mut u8, l: Layout) {
        unsafe { System.dealloc(p, l) }
    }
    unsafe fn realloc(&self, p: *mut u8, l: Layout, n: usize) -> *mut u8 {
        MAX_ALLOC.fetch_max(n, Ordering::Relaxed);
        unsafe { System.realloc(p, l, n) }
    }
}

fn hex(b: &[u8]) -> String {
    let mut s = String::with_capacity(b.len() * 2);
    for x in b {
        s.push_str(&format!("{x:02x}"));
    }
    s
}

fn unhex(s: &str) -> Option<Vec<u8>> {
    let s = s.trim();
    if s.len() % 2 != 0 {
        return None;
    }
    (0..s.len()).step_by(2).map(|i| u8::from_str_radix(&s[i..i + 2], 16).ok()).collect()
}

fn ctx() -> Context {
    let mut c = Context::new();
    c.set_random_u32_fn(|| 4);
    c
}

fn ev(c: &mut Context, src: &str) -> String {
    ev_ms(c, src, 3000)
}

fn ev_ms(c: &mut Context, src: &str, ms: u64) -> String {
    // budgeted: a loaded value may be astronomically large; evaluation is then interrupted, which is fine
    let int = Deadline::ms(ms);
    match guarded(|| fend_core::evaluate_with_interrupt(src, c, &int)) {
        Ok(Ok(v)) => format!("ok {}", v.get_main_result().replace(['\n', '|', '\t'], " ")),
        Ok(Err(e)) => format!("err {}", e.replace(['\n', '|', '\t'], " ")),
        Err(p) => format!("panic {}", p.replace(['\n', '|', '\t'], " ")),
    }
}

pub fn serde_line(l: &str) -> String {
    let (stmts, probes) = l.split_once(" || ").unwrap_or((l, ""));
    let mut c = ctx();
    for s in stmts.split(" ;; ") {
        let _ = ev(&mut c, s);
    }
    let mut img = Vec::new();
    if let Err(e) = c.serialize_variables(&mut img) {
        return format!("saveerr {e}");
    }
    let probes: Vec<&str> = if probes.is_empty() { vec![] } else { probes.split(" ;; ").collect() };
    let p1: Vec<String> = probes.iter().map(|p| ev(&mut c.clone(), p)).collect();
    let mut c2 = ctx();
    match guarded(|| c2.deserialize_variables(&mut img.as_slice())) {
        Ok(Ok(())) => {}
        Ok(Err(e)) => return format!("img={}\tloaderr {e}", hex(&img)),
        Err(p) => return format!("img={}\tloadpanic {p}", hex(&img)),
    }
    let p2: Vec<String> = probes.iter().map(|p| ev(&mut c2.clone(), p)).collect();
    let mut img2 = Vec::new();
    if let Err(e) = c2.serialize_variables(&mut img2) {
        return format!("img={}\tsave2err {e}", hex(&img));
    }
    format!("img={}\timg2={}\tp1={}\tp2={}", hex(&img), hex(&img2), p1.join("|"), p2.join("|"))
}

pub fn deser_line(l: &str) -> String {
    let Some(bytes) = unhex(l) else { return "bad-op".into() };
    let mut c = ctx();
    MAX_ALLOC.store(0, Ordering::Relaxed);
    PHASE.store(1, Ordering::SeqCst); // 1 = loading
    let r = guarded(|| c.deserialize_variables(&mut bytes.as_slice()));
    PHASE.store(2, Ordering::SeqCst); // 2 = using the loaded context
    let maxa = MAX_ALLOC.load(Ordering::Relaxed);
    match r {
        Ok(Ok(())) => {
            // a context that loaded must be usable: print every variable, apply it, save again
            let mut after = Vec::new();
            for name in ["v0", "v1", "v2", "v3", "f0", "f1", "_", "ans"] {
                // does the variable exist at all? (cheap check so absent names cost one evaluation)
                let a = ev_ms(&mut c.clone(), name, 40);
                if a.starts_with("err unknown identifier") {
                    continue;
                }
                let mut bad = vec![];
                if a.starts_with("panic") { bad.push(a.clone()); }
                let mut numeric = false;
                for tmpl in ["{} 2", "{} to hex", "{} + 1 day", "{} + 3 days", "{} + 400 days", "{} - 1 day", "{} - 400 days", "{} - 1 month", "{} - 13 months", "{} - 1 year", "{} + 1", "{} * {}", "-{}", "{} to fraction", "{} to 3 sf", "sqrt {}", "{} == {}", "roll {}"] {
                    let r = ev_ms(&mut c.clone(), &tmpl.replace("{}", name), 12);
                    if r.starts_with("panic") { bad.push(format!("`{}`: {r}", tmpl.replace("{}", name))); }
                    if tmpl == "{} + 1" && r.starts_with("ok") { numeric = true; }
                }
                if numeric {
                    // numbers and distributions: every consumer of numerator / denominator / outcome lists
                    for tmpl in ["log2 {}", "ln {}", "{} to float", "1 / {}", "{}^2", "{}^-1", "{} mod 3", "floor {}", "round {}", "{} to 5 dp", "{} to words", "{} to mixed_fraction", "{} / {}", "{} - {}", "abs {}", "{}!", "{} to binary", "real {}", "{} to m", "{} 1 kg", "sin {}"] {
                        let r = ev_ms(&mut c.clone(), &tmpl.replace("{}", name), 6);
                        if r.starts_with("panic") { bad.push(format!("`{}`: {r}", tmpl.replace("{}", name))); }
                    }
                }
                if !bad.is_empty() {
                    after.push(format!("{name}:{}", bad.join(" / ")));
                }
            }
            let mut out = Vec::new();
            let s = guarded(|| c.serialize_variables(&mut out));
            let resave = match s {
                Ok(Ok(())) => format!("resave={}", hex(&out)),
                Ok(Err(e)) => format!("resaveerr {e}"),
                Err(p) => format!("resavepanic {p}"),
            };
            // debugging aid: HARNESS_DESER_PROBE="expr ;; expr" evaluates extra expressions in the loaded context
            let extra = match std::env::var("HARNESS_DESER_PROBE") {
                Ok(p) => format!("\tprobe={}", p.split(" ;; ").map(|e| ev_ms(&mut c.clone(), e, 2000)).collect::<Vec<_>>().join(" | ")),
                Err(_) => String::new(),
            };
            format!("ok\tmaxalloc={maxa}\tuse={}\t{resave}{extra}", if after.is_empty() { "fine".to_string() } else { after.join(",") })
        }
        Ok(Err(e)) => format!("err {}\tmaxalloc={maxa}", if e == "failed to deserialize object" { "bad" } else if e == "I/O error" { "eof" } else { "other" }),
        Err(p) => format!("panic {}\tmaxalloc={maxa}", p.replace(['\n', '\t'], " ")),
    }
}
