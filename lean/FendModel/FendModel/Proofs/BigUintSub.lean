import FendModel.Proofs.BigUintCmp

namespace Fend.BigUint

/-- value of limbs `i .. i+len-1` of `other` -/
def seg (other : BigUint) : Nat → Nat → Nat
  | _, 0 => 0
  | i, len + 1 => other.get i + B * seg other (i + 1) len

theorem seg_eq (other : BigUint) (i len : Nat) :
    seg other i len = valL ((other.limbs.drop i).take len) := by
  induction len generalizing i with
  | zero => simp [seg, valL]
  | succ len ih =>
    rw [seg, ih, get_eq_limbs]
    cases hd : other.limbs.drop i with
    | nil =>
      have hlen : other.limbs.length ≤ i := by simpa using hd
      have : other.limbs.drop (i + 1) = [] := by simp; omega
      simp [this, valL, List.getD_eq_getElem?_getD, List.getElem?_eq_none hlen]
    | cons x rest =>
      have hi : i < other.limbs.length := by
        by_contra hcon
        have : other.limbs.drop i = [] := by simp; omega
        rw [this] at hd; cases hd
      have h1 : other.limbs.getD i 0 = x := by
        have := List.getElem_cons_drop (h := hi)
        rw [hd] at this
        rw [List.getD_eq_getElem?_getD, List.getElem?_eq_getElem hi, Option.getD_some]
        injection this
      have h2 : other.limbs.drop (i + 1) = rest := by
        rw [← List.drop_drop, hd]; rfl
      rw [List.getD_eq_getElem?_getD] at h1
      simp [h1, h2, valL]

theorem seg_full (other : BigUint) (len : Nat) (h : other.valueLen ≤ len) :
    seg other 0 len = val other := by
  rw [seg_eq]; simp only [List.drop_zero]
  exact lowVal_full other len h

theorem subLoop_spec (other : BigUint) (ho : other.WF) (res : List Nat) (hr : WFL res)
    (i carry : Nat) (hc : carry ≤ 1) :
    valL (subLoop other res i carry).1 + seg other i res.length + carry
      = valL res + (subLoop other res i carry).2 * B ^ res.length
    ∧ (subLoop other res i carry).1.length = res.length
    ∧ WFL (subLoop other res i carry).1
    ∧ (subLoop other res i carry).2 ≤ 1 := by
  induction res generalizing i carry with
  | nil => simp [subLoop, seg, valL, WFL]; exact hc
  | cons a rest ih =>
    have ha : a < B := hr a (by simp)
    have hrest : WFL rest := fun y hy => hr y (by simp [hy])
    have hb : other.get i < B := get_lt other ho i
    unfold subLoop
    simp only []
    split
    · rename_i hcond
      simp only [Bool.and_eq_true, Bool.not_eq_true', decide_eq_true_eq] at hcond
      obtain ⟨_, hge⟩ := hcond
      obtain ⟨h1, h2, h3, h4⟩ := ih hrest (i + 1) 0 (by omega)
      refine ⟨?_, by simp [h2], ?_, h4⟩
      · simp only [valL, seg, List.length_cons, pow_succ]
        have hx : a - other.get i - carry + other.get i + carry = a := by omega
        nlinarith [h1, hx]
      · intro y hy
        rcases List.mem_cons.mp hy with rfl | hy
        · omega
        · exact h3 y hy
    · rename_i hcond
      have hlt : a < other.get i + carry := by
        by_contra hcon
        apply hcond
        simp only [Bool.and_eq_true, Bool.not_eq_true', decide_eq_true_eq]
        refine ⟨?_, by omega⟩
        by_contra hx
        simp only [Bool.not_eq_false, Bool.and_eq_true, beq_iff_eq] at hx
        have hB : B = 18446744073709551616 := rfl
        omega
      obtain ⟨h1, h2, h3, h4⟩ := ih hrest (i + 1) 1 (by omega)
      have hmod : (a + B - other.get i - carry) % B = a + B - other.get i - carry :=
        Nat.mod_eq_of_lt (by omega)
      refine ⟨?_, by simp [h2], ?_, h4⟩
      · simp only [valL, seg, List.length_cons, pow_succ, hmod]
        have hx : a + B - other.get i - carry + other.get i + carry = a + B := by omega
        nlinarith [h1, hx]
      · intro y hy
        rcases List.mem_cons.mp hy with rfl | hy
        · exact Nat.mod_lt _ B_pos
        · exact h3 y hy

theorem WFL_append_zeros (v : List Nat) (k : Nat) (h : WFL v) : WFL (v ++ List.replicate k 0) := by
  intro x hx
  rcases List.mem_append.mp hx with hx | hx
  · exact h x hx
  · have := List.eq_of_mem_replicate hx; subst this; exact B_pos

/-- subtraction never panics when `b ≤ a`, and is exact -/
theorem sub_val (a b : BigUint) (ha : a.WF) (hb : b.WF) (h : val b ≤ val a) :
    ∃ r, a.sub b = .ok r ∧ val r = val a - val b ∧ r.WF := by
  unfold sub
  split
  · rename_i x y
    simp only [val] at h
    have : ¬ x < y := by omega
    simp only [this, if_false]
    exact ⟨_, rfl, by simp [val], by simp only [WF] at ha ⊢; omega⟩
  · rw [cmp_val a b ha hb]
    rcases Nat.lt_or_ge (val b) (val a) with hlt | hge
    · rw [Nat.compare_eq_gt.mpr hlt]
      simp only []
      by_cases hz : b.isZero = true
      · simp only [hz, if_true]
        exact ⟨a, rfl, by rw [(isZero_iff b).mp hz]; simp, ha⟩
      · simp only [hz]
        rw [if_neg (by simp)]
        -- the padded limb vector
        have hpad : ∃ res, res = (if a.limbs.length < b.valueLen
            then a.limbs ++ List.replicate (b.valueLen - a.limbs.length) 0 else a.limbs)
            ∧ valL res = val a ∧ WFL res ∧ b.valueLen ≤ res.length := by
          refine ⟨_, rfl, ?_, ?_, ?_⟩
          · split
            · rw [valL_append, valL_replicate_zero, val_eq_limbs]; simp
            · rw [val_eq_limbs]
          · split
            · exact WFL_append_zeros _ _ ((WF_iff_limbs a).mp ha)
            · exact (WF_iff_limbs a).mp ha
          · split
            · simp; omega
            · omega
        obtain ⟨res, hres, hv, hw, hl⟩ := hpad
        rw [← hres]
        obtain ⟨h1, h2, h3, h4⟩ := subLoop_spec b hb res hw 0 0 (by omega)
        rw [seg_full b _ hl, hv] at h1
        generalize subLoop b res 0 0 = out at *
        obtain ⟨r, c⟩ := out
        simp only at *
        have hrlt := valL_lt r h3
        rw [h2] at hrlt
        have hc0 : c = 0 := by
          by_contra hne
          have : c = 1 := by omega
          subst this
          omega
        subst hc0
        simp only [ne_eq, not_true_eq_false, if_false]
        refine ⟨_, rfl, ?_, by simpa [WF, WFL] using h3⟩
        show valL r = val a - val b
        omega
    · have heq : val a = val b := by omega
      rw [Nat.compare_eq_eq.mpr heq]
      refine ⟨_, rfl, ?_, by simp only [WF]; exact B_pos⟩
      show 0 = val a - val b
      omega

end Fend.BigUint
