/-
`BigRat::round_with` (floor / ceil / round): the whole function, not only its decision — exact integer division by the
proved `divmod`, the half-way comparison by the proved `cmp`, the increment by the proved `add`.
-/
import FendModel.Proofs.IntFns
import FendModel.Proofs.BigRatField

namespace Fend
namespace BigRat
open BigUint

theorem roundWith_val (mode : RoundMode) (x : BigRat) (wx : WFQ x) (dx : val x.den ≠ 0) :
    ∃ n, roundWith mode x = .ok ⟨x.neg, n, small 1⟩ ∧ n.WF ∧
      val n = roundMag mode x.neg (val x.num / val x.den) (val x.num % val x.den) (val x.den) := by
  obtain ⟨q, r, hqr, hq, hr, hqw, hrw⟩ := divmod_val x.num x.den wx.1 wx.2 dx
  have w0 : (small 0).WF := B_pos
  have w1 : (small 1).WF := by show 1 < B; decide
  have w2 : (small 2).WF := by show 2 < B; decide
  have hcmp : BigUint.cmp (BigUint.mul r (small 2)) x.den = compare (2 * (val x.num % val x.den)) (val x.den) := by
    rw [cmp_val _ _ (mul_WF _ _ hrw w2) wx.2, mul_val, hr]
    congr 1
    show val x.num % val x.den * 2 = _
    ring
  by_cases hz : val x.num % val x.den = 0
  · have hb : BigUint.beq r (small 0) = true := (beq_iff r _ hrw w0).mpr (by rw [hr, hz]; rfl)
    exact ⟨q, by simp [roundWith, hqr, hb, bind, Except.bind], hqw, by simp [roundMag, hz, hq]⟩
  · have hb : BigUint.beq r (small 0) = false := by
      cases h : BigUint.beq r (small 0) with
      | false => rfl
      | true => exact absurd (by rw [← hr]; exact (beq_iff r _ hrw w0).mp h) hz
    by_cases ha : awayFromZero mode x.neg (compare (2 * (val x.num % val x.den)) (val x.den)) = true
    · refine ⟨BigUint.add q (small 1), by simp [roundWith, hqr, hb, hcmp, ha, bind, Except.bind], add_WF _ _ hqw w1, ?_⟩
      simp only [roundMag, hz, if_false, ha, if_true, add_val, hq]
      rfl
    · have ha' : awayFromZero mode x.neg (compare (2 * (val x.num % val x.den)) (val x.den)) = false := by simpa using ha
      exact ⟨q, by simp [roundWith, hqr, hb, hcmp, ha', bind, Except.bind], hqw, by simp [roundMag, hz, ha', hq]⟩

end BigRat
end Fend
