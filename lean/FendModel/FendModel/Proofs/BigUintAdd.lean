import FendModel.Model.BigUint
import Mathlib.Tactic.Ring
import Mathlib.Tactic.Linarith

namespace Fend.BigUint

theorem valL_append (v w : List Nat) : valL (v ++ w) = valL v + B ^ v.length * valL w := by
  induction v with
  | nil => simp [valL]
  | cons x xs ih => simp [valL, ih, pow_succ]; ring

theorem valL_replicate_zero (k : Nat) : valL (List.replicate k 0) = 0 := by
  induction k with
  | zero => simp [valL]
  | succ k ih => simp [List.replicate_succ, valL, ih]

/-- writing limb `i` of a vector that is long enough -/
theorem valL_set (v : List Nat) (i x : Nat) (h : i < v.length) :
    valL (v.set i x) + v.getD i 0 * B ^ i = valL v + x * B ^ i := by
  induction v generalizing i with
  | nil => simp at h
  | cons y ys ih =>
    cases i with
    | zero => simp [valL]; ring
    | succ i =>
      have := ih i (by simpa using h)
      simp [valL, pow_succ] at *
      nlinarith [this]

theorem getD_append_replicate (v : List Nat) (k i : Nat) :
    (v ++ List.replicate k 0).getD i 0 = v.getD i 0 := by
  simp only [List.getD_eq_getElem?_getD, List.getElem?_append]
  split
  · rfl
  · rename_i h
    have : v[i]? = none := List.getElem?_eq_none (by omega)
    simp [this, List.getElem?_replicate]
    split <;> simp

theorem valL_setL (v : List Nat) (i x : Nat) :
    valL (setL v i x) + v.getD i 0 * B ^ i = valL v + x * B ^ i := by
  unfold setL
  have h : i < (v ++ List.replicate (i + 1 - v.length) 0).length := by simp; omega
  have := valL_set _ i x h
  rw [getD_append_replicate] at this
  rw [this, valL_append, valL_replicate_zero]; ring

theorem getD_setL (v : List Nat) (i x j : Nat) :
    (setL v i x).getD j 0 = if j = i then x else v.getD j 0 := by
  unfold setL
  simp only [List.getD_eq_getElem?_getD, List.getElem?_set]
  by_cases hji : j = i
  · subst hji
    have : j < v.length + (j + 1 - v.length) := by omega
    simp [this]
  · have : ¬ i = j := fun h => hji h.symm
    simp only [this, if_false, hji]
    have := getD_append_replicate v (i + 1 - v.length) j
    simpa [List.getD_eq_getElem?_getD] using this

theorem val_set (s : BigUint) (i x : Nat) :
    val (s.set i x) + s.get i * B ^ i = val s + x * B ^ i := by
  cases s with
  | small n =>
    unfold BigUint.set
    by_cases h0 : i = 0
    · subst h0; simp [val, get]; ring
    · by_cases hx : x = 0
      · simp [h0, hx, val, get]
      · simp only [h0, hx, if_false, val, get]
        have := valL_setL [n] i x
        have hg : [n].getD i 0 = 0 := by
          cases i with
          | zero => exact absurd rfl h0
          | succ i => simp
        rw [hg] at this
        simp [valL] at this
        omega
  | large v => simp only [BigUint.set, val, get]; exact valL_setL v i x

theorem get_set (s : BigUint) (i x j : Nat) :
    (s.set i x).get j = if j = i then x else s.get j := by
  cases s with
  | small n =>
    unfold BigUint.set
    by_cases h0 : i = 0
    · subst h0; simp only [if_true, get]; split <;> rfl
    · by_cases hx : x = 0
      · subst hx; simp only [h0, if_false, if_true, get]
        by_cases hj : j = i
        · subst hj; simp [h0]
        · simp [hj]
      · simp only [h0, hx, if_false, get, getD_setL]
        by_cases hj : j = i
        · simp [hj]
        · simp only [hj, if_false]
          cases j with
          | zero => simp
          | succ j => simp
  | large v => simp only [BigUint.set, get]; exact getD_setL v i x j

/-- limb `k` of `other << (64*shift)` -/
def shiftedLimb (other : BigUint) (shift k : Nat) : Nat :=
  if k ≥ shift then other.get (k - shift) else 0

/-- Σ_{k=i}^{n-1} f k, by the same upward recursion as the loops -/
def sumFrom (f : Nat → Nat) (n i : Nat) : Nat :=
  if _h : i < n then f i + sumFrom f n (i + 1) else 0
termination_by n - i

theorem sumFrom_congr (f g : Nat → Nat) (n i : Nat) (h : ∀ k, i ≤ k → k < n → f k = g k) :
    sumFrom f n i = sumFrom g n i := by
  fun_induction sumFrom f n i with
  | case1 i hlt ih =>
    rw [sumFrom.eq_def g]; simp only [hlt, dite_true]
    rw [h i (Nat.le_refl _) hlt, ih (fun k hk hk' => h k (by omega) hk')]
  | case2 i hlt => rw [sumFrom.eq_def g]; simp [hlt]

theorem sumFrom_zero_prefix (f : Nat → Nat) (n s i : Nat) (h : ∀ k, k < s → f k = 0)
    (his : i ≤ s) (hsn : s ≤ n) : sumFrom f n i = sumFrom f n s := by
  fun_induction sumFrom f n i with
  | case1 i hlt ih =>
    by_cases hi : i = s
    · subst hi; conv => rhs; rw [sumFrom]
      simp [hlt]
    · rw [h i (by omega), ih (by omega)]; simp
  | case2 i hlt =>
    have : i = s := by omega
    subst this; rw [sumFrom]; simp [hlt]

/-- the limbs of `v`, placed at limb offset `s`, sum to `B^s * valL v` -/
theorem sumFrom_limbs (v : List Nat) (s n : Nat) (h : s + v.length ≤ n) :
    sumFrom (fun k => (if k ≥ s then v.getD (k - s) 0 else 0) * B ^ k) n s = B ^ s * valL v := by
  induction v generalizing s with
  | nil =>
    have : sumFrom (fun k => (if k ≥ s then ([] : List Nat).getD (k - s) 0 else 0) * B ^ k) n s
         = sumFrom (fun _ => 0) n s := sumFrom_congr _ _ _ _ (by intro k _ _; simp)
    rw [this]; simp [valL]
    generalize s = i
    fun_induction sumFrom (fun _ => 0) n i <;> simp_all
  | cons x xs ih =>
    by_cases hlt : s < n
    · rw [sumFrom]; simp only [hlt, dif_pos]
      have hc : sumFrom (fun k => (if k ≥ s then (x :: xs).getD (k - s) 0 else 0) * B ^ k) n (s + 1)
              = sumFrom (fun k => (if k ≥ s + 1 then xs.getD (k - (s + 1)) 0 else 0) * B ^ k) n (s + 1) := by
        apply sumFrom_congr
        intro k hk _
        have h1 : k ≥ s := by omega
        have h2 : k - s = (k - (s + 1)) + 1 := by omega
        simp [h1, hk, h2]
      rw [hc, ih (s + 1) (by simp at h; omega)]
      simp [valL, pow_succ]; ring
    · simp at h; omega

theorem get_eq_limbs (b : BigUint) (j : Nat) : b.get j = b.limbs.getD j 0 := by
  cases b with
  | small n => cases j <;> simp [get, limbs]
  | large v => simp [get, limbs]

theorem val_eq_limbs (b : BigUint) : b.val = valL b.limbs := by
  cases b <;> simp [val, limbs, valL]

theorem valueLen_eq_limbs (b : BigUint) : b.valueLen = b.limbs.length := by
  cases b <;> simp [valueLen, limbs]

def tailSum (other : BigUint) (shift n i : Nat) : Nat :=
  sumFrom (fun k => shiftedLimb other shift k * B ^ k) n i

theorem tailSum_full (other : BigUint) (shift n : Nat) (h : other.valueLen + shift ≤ n) :
    tailSum other shift n 0 = val other * B ^ shift := by
  unfold tailSum
  rw [sumFrom_zero_prefix _ n shift 0 (by intro k hk; simp [shiftedLimb]; omega) (by omega) (by omega)]
  have : (fun k => shiftedLimb other shift k * B ^ k)
       = (fun k => (if k ≥ shift then other.limbs.getD (k - shift) 0 else 0) * B ^ k) := by
    funext k; simp [shiftedLimb, get_eq_limbs]
  rw [this, sumFrom_limbs _ _ _ (by rw [← valueLen_eq_limbs]; omega), val_eq_limbs]; ring

theorem carry_arith (V V' a m q c b d P T : Nat) (hs : V' + a * P = V + m * P)
    (hdm : B * q + m = a + b * d + c) :
    V' + q * (P * B) + d * T = V + c * P + d * (b * P + T) := by
  have h3 : (B * q + m) * P = (a + b * d + c) * P := by rw [hdm]
  nlinarith [h3, hs]

theorem aaiLoop_spec (other : BigUint) (d shift n : Nat) (i : Nat) (s : BigUint) (c : Nat)
    (hle : i ≤ n) :
    val (aaiLoop other d shift n i s c).1 + (aaiLoop other d shift n i s c).2 * B ^ n
      = val s + c * B ^ i + d * tailSum other shift n i
    ∧ (∀ j, n ≤ j → (aaiLoop other d shift n i s c).1.get j = s.get j) := by
  fun_induction aaiLoop other d shift n i s c with
  | case1 i s c hlt a b sum ih =>
    have ih := ih (by omega)
    obtain ⟨h1, h2⟩ := ih
    constructor
    · have hs := val_set s i (sum % B)
      have hdm := Nat.div_add_mod sum B
      rw [h1]
      have ht : tailSum other shift n i = shiftedLimb other shift i * B ^ i + tailSum other shift n (i + 1) := by
        unfold tailSum; rw [sumFrom]; simp [hlt]
      rw [ht]
      have hb : shiftedLimb other shift i = b := rfl
      rw [hb]
      have hsum : sum = a + b * d + c := rfl
      have ha : s.get i = a := rfl
      rw [ha] at hs
      rw [pow_succ]
      exact carry_arith _ _ a (sum % B) (sum / B) c b d (B ^ i) _ hs (by rw [hdm])
    · intro j hj
      rw [h2 j hj, get_set]
      have : j ≠ i := by omega
      simp [this]
  | case2 i s c hlt =>
    have : i = n := by omega
    subst this
    unfold tailSum; rw [sumFrom]; simp

theorem get_beyond (b : BigUint) (j : Nat) (h : b.valueLen ≤ j) : b.get j = 0 := by
  rw [get_eq_limbs]; rw [valueLen_eq_limbs] at h
  simp [List.getD_eq_getElem?_getD, List.getElem?_eq_none h]

/-- `self += (other * d) << (64 * shift)`, for every representation of the operands -/
theorem addAssignInternal_val (self other : BigUint) (d shift : Nat) :
    val (addAssignInternal self other d shift) = val self + val other * d * B ^ shift := by
  unfold addAssignInternal
  have hspec := aaiLoop_spec other d shift (max self.valueLen (other.valueLen + shift)) 0 self 0 (by omega)
  obtain ⟨h1, h2⟩ := hspec
  have hg : (aaiLoop other d shift (max self.valueLen (other.valueLen + shift)) 0 self 0).1.get
      (max self.valueLen (other.valueLen + shift)) = 0 := by
    rw [h2 _ (Nat.le_refl _)]; exact get_beyond _ _ (by omega)
  rw [tailSum_full other shift _ (by omega)] at h1
  show val (if (aaiLoop other d shift (max self.valueLen (other.valueLen + shift)) 0 self 0).2 ≠ 0
      then (aaiLoop other d shift (max self.valueLen (other.valueLen + shift)) 0 self 0).1.set
        (max self.valueLen (other.valueLen + shift))
        (aaiLoop other d shift (max self.valueLen (other.valueLen + shift)) 0 self 0).2
      else (aaiLoop other d shift (max self.valueLen (other.valueLen + shift)) 0 self 0).1) = _
  generalize aaiLoop other d shift (max self.valueLen (other.valueLen + shift)) 0 self 0 = res at *
  obtain ⟨s', c'⟩ := res
  simp only at *
  by_cases hc : c' = 0
  · subst hc; simp at h1 ⊢; rw [h1]; ring
  · simp only [hc, ne_eq, not_false_eq_true, if_true]
    have := val_set s' (max self.valueLen (other.valueLen + shift)) c'
    rw [hg] at this
    simp only [zero_mul, add_zero, pow_zero] at this h1
    rw [this, h1]; ring

theorem add_val (a b : BigUint) : val (a.add b) = val a + val b := by
  unfold add; rw [addAssignInternal_val]; simp

end Fend.BigUint
