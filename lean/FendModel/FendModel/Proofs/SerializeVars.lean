import FendModel.Proofs.SerializeValue

namespace Fend.Ser

theorem serU64_length (n : Nat) : (serU64 n).length = 8 := rfl
theorem serStr_length (s : Str) : (serStr s).length = 8 + s.length := by simp [serStr, serU64_length]

mutual
theorem sizeV_le : ∀ v : Value, sizeV v ≤ (serValue v).length
  | .num n => by simp [sizeV, serValue]
  | .builtin i => by simp [sizeV, serValue]
  | .format f => by simp [sizeV, serValue]
  | .dp => by simp [sizeV, serValue]
  | .sf => by simp [sizeV, serValue]
  | .base b => by simp [sizeV, serValue]
  | .fn p e s => by
    have := sizeE_le e; have := sizeO_le s
    simp only [sizeV, serValue, List.length_append, List.length_cons, List.length_nil]; omega
  | .object kvs => by
    have := sizeK_le kvs
    simp only [sizeV, serValue, List.length_append, List.length_cons, List.length_nil, serU64_length]; omega
  | .string s => by simp [sizeV, serValue]
  | .unit => by simp [sizeV, serValue]
  | .bool b => by simp [sizeV, serValue]
  | .month m => by simp [sizeV, serValue]
  | .dayOfWeek d => by simp [sizeV, serValue]
  | .date d => by simp [sizeV, serValue]
theorem sizeK_le : ∀ k : KVs, sizeK k ≤ (serKVs k).length + 1
  | .nil => by simp [sizeK, serKVs]
  | .cons k v r => by
    have := sizeV_le v; have := sizeK_le r
    simp only [sizeK, serKVs, List.length_append, serStr_length]; omega
theorem sizeE_le : ∀ e : Expr, sizeE e ≤ (serExpr e).length
  | .literal v => by
    have := sizeV_le v
    simp only [sizeE, serExpr, List.length_append, List.length_cons, List.length_nil]; omega
  | .ident s => by simp [sizeE, serExpr]
  | .parens e | .unaryMinus e | .unaryPlus e | .unaryDiv e | .factorial e => by
    have := sizeE_le e
    simp only [sizeE, serExpr, List.length_append, List.length_cons, List.length_nil]; omega
  | .bop _ a b | .apply a b | .applyFunctionCall a b | .applyMul a b | .as_ a b | .statements a b
  | .equality _ a b => by
    have := sizeE_le a; have := sizeE_le b
    simp only [sizeE, serExpr, List.length_append, List.length_cons, List.length_nil]; omega
  | .fn _ e | .of_ _ e | .assign _ e => by
    have := sizeE_le e
    simp only [sizeE, serExpr, List.length_append, List.length_cons, List.length_nil]; omega
theorem sizeS_le : ∀ s : Scope, sizeS s ≤ (serScope s).length
  | .mk i e vs inner => by
    have := sizeE_le e; have := sizeO_le vs; have := sizeO_le inner
    simp only [sizeS, serScope, List.length_append, serStr_length]; omega
theorem sizeO_le : ∀ o : OptScope, sizeO o ≤ (serOptScope o).length
  | .none => by simp [sizeO, serOptScope]
  | .some s => by
    have := sizeS_le s
    simp only [sizeO, serOptScope, List.length_append, List.length_cons, List.length_nil]; omega
end

def VarsRep (vars : List (Str × Value)) : Prop :=
  vars.length < 18446744073709551616 ∧ ∀ p ∈ vars, StrRep p.1 ∧ RepV p.2

theorem deVarsN_ser (vars : List (Str × Value)) (fuel : Nat) (rest : Bytes)
    (h : ∀ p ∈ vars, StrRep p.1 ∧ RepV p.2) (hf : ∀ p ∈ vars, sizeV p.2 ≤ fuel) :
    deVarsN fuel vars.length ((vars.flatMap fun p => serStr p.1 ++ serValue p.2) ++ rest) = .ok (vars, rest) := by
  induction vars with
  | nil => rfl
  | cons p ps ih =>
    obtain ⟨k, v⟩ := p
    simp only [List.length_cons, List.flatMap_cons, List.append_assoc, deVarsN]
    have hp := h (k, v) (by simp)
    rw [deStr_ser k hp.1, andThen_ok, deValue_ser v fuel _ hp.2 (hf (k, v) (by simp)), andThen_ok,
      ih (fun q hq => h q (by simp [hq])) (fun q hq => hf q (by simp [hq])), andThen_ok]

theorem flatMap_length_ge (vars : List (Str × Value)) (p : Str × Value) (hp : p ∈ vars) :
    (serValue p.2).length ≤ (vars.flatMap fun p => serStr p.1 ++ serValue p.2).length := by
  induction vars with
  | nil => simp at hp
  | cons q qs ih =>
    simp only [List.flatMap_cons, List.length_append]
    rcases List.mem_cons.mp hp with rfl | h
    · omega
    · have := ih h; omega

/-- Saved variables reload to the same values: for every representable variable table (every
kind of value, closures with captured scopes included), reading back what was written yields
exactly the same table; trailing bytes are ignored. -/
theorem vars_roundtrip (vars : List (Str × Value)) (h : VarsRep vars) (rest : Bytes) :
    deVars (serVars vars ++ rest) = .ok vars := by
  have hfuel : ∀ p ∈ vars, sizeV p.2 ≤ (serVars vars ++ rest).length + 1 := by
    intro p hp
    have h1 := sizeV_le p.2
    have h2 := flatMap_length_ge vars p hp
    simp only [serVars, List.length_append, serU64_length]
    omega
  generalize hF : (serVars vars ++ rest).length + 1 = fuel at hfuel
  unfold deVars
  rw [hF]
  unfold serVars
  rw [List.append_assoc, deU64_ser _ h.1, andThen_ok, deVarsN_ser vars fuel rest h.2 hfuel]
  rfl

end Fend.Ser
