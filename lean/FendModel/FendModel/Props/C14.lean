/-
C14 — loading variable bytes is memory-safe for arbitrary input.
The deserializer model (Model/Serialize.lean) is a total function into `ok | eof | bad`: it has no
panic outcome because, after the repairs, no read can reach one. The theorems below are the facts that
make that true and that later evaluation relies on; Tie A pins the absence of pre-allocations.
-/
import FendModel.Proofs.SerializeVars
import FendModel.Gen.AllocSites

namespace Fend.C14
open Fend.Ser

/-- Tie A: no deserializer pre-allocates from a length it has just read (regenerated table). -/
theorem no_untrusted_prealloc : Fend.Gen.allocSites = [] := by decide

/-- a successful element-by-element read of `n` elements, each consuming at least one byte, implies
`n ≤ input length`: a huge length field can only end in the ordinary short-read error -/
theorem deListN_bounded {α} (d : D α) (hd : ∀ bs a r, d bs = .ok (a, r) → r.length < bs.length)
    (n : Nat) (bs : Bytes) (l : List α) (r : Bytes) (h : deListN d n bs = .ok (l, r)) :
    l.length = n ∧ r.length + n ≤ bs.length := by
  induction n generalizing bs l r with
  | zero => simp [deListN, D.pure] at h; obtain ⟨rfl, rfl⟩ := h; simp
  | succ n ih =>
    unfold deListN at h
    cases hd1 : d bs with
    | error e => simp [hd1] at h
    | ok p =>
      obtain ⟨a, r1⟩ := p
      simp only [hd1] at h
      cases hd2 : deListN d n r1 with
      | error e => simp [hd2] at h
      | ok q =>
        obtain ⟨as, r2⟩ := q
        simp only [hd2] at h
        injection h with h; injection h with h1 h2
        subst h1; subst h2
        have := ih r1 as r2 hd2
        have := hd bs a r1 hd1
        simp; omega

theorem deU8_consumes (bs : Bytes) (a : Nat) (r : Bytes) (h : deU8 bs = .ok (a, r)) : r.length < bs.length := by
  cases bs with
  | nil => simp [deU8] at h
  | cons b t => simp [deU8] at h; obtain ⟨_, rfl⟩ := h; simp

theorem deU64_consumes (bs : Bytes) (a : Nat) (r : Bytes) (h : deU64 bs = .ok (a, r)) : r.length < bs.length := by
  unfold deU64 at h
  split at h
  · injection h with h; injection h with _ h; subst h; simp only [List.length_cons]; omega
  · simp at h

/-- a string of claimed length `n` is only accepted if `n` bytes are really there -/
theorem string_length_honest (bs : Bytes) (s : Str) (r : Bytes) (h : deStr bs = .ok (s, r)) :
    s.length + r.length + 8 ≤ bs.length ∧ validUtf8 s = true := by
  unfold deStr at h
  cases h1 : deU64 bs with
  | error e => simp [h1, andThen] at h
  | ok p =>
    obtain ⟨n, r1⟩ := p
    simp only [h1, andThen] at h
    cases h2 : deListN deU8 n r1 with
    | error e => simp [h2] at h
    | ok q =>
      obtain ⟨l, r2⟩ := q
      simp only [h2] at h
      split at h
      · rename_i hv
        injection h with h; injection h with ha hb; subst ha; subst hb
        obtain ⟨hl, hb⟩ := deListN_bounded deU8 deU8_consumes n r1 l r2 h2
        have : r1.length + 8 = bs.length := by
          unfold deU64 at h1
          split at h1
          · injection h1 with h1; injection h1 with _ h1; subst h1; simp
          · simp at h1
        exact ⟨by omega, hv⟩
      · simp at h

/-- a loaded base is always in 2..=36 (so printing can neither divide by zero, loop, nor index a
missing digit) -/
theorem base_validated (bs : Bytes) (b : Base) (r : Bytes) (h : deBase bs = .ok (b, r)) : BaseRep b := by
  unfold deBase at h
  cases h1 : deU8 bs with
  | error e => simp [h1, andThen] at h
  | ok p =>
    obtain ⟨k, r1⟩ := p
    simp only [h1, andThen] at h
    by_cases k1 : k = 1
    · simp only [k1, if_true] at h; injection h with h; injection h with h _; subst h; trivial
    by_cases k2 : k = 2
    · simp only [k1, k2, if_true, if_false] at h; injection h with h; injection h with h _; subst h; trivial
    by_cases k3 : k = 3
    · simp only [k1, k2, k3, if_true, if_false] at h; injection h with h; injection h with h _; subst h; trivial
    by_cases k4 : k = 4
    · simp only [k1, k2, k3, k4, if_true, if_false] at h
      cases h2 : deU8 r1 with
      | error e => simp [h2] at h
      | ok q =>
        obtain ⟨x, r2⟩ := q
        simp only [h2] at h
        by_cases hx : x < 2 ∨ x > 36
        · simp [hx] at h
        · simp only [hx, if_false] at h
          injection h with h; injection h with h _; subst h
          simp only [BaseRep]; omega
    by_cases k5 : k = 5
    · simp only [k1, k2, k3, k4, k5, if_true, if_false] at h
      cases h2 : deU8 r1 with
      | error e => simp [h2] at h
      | ok q =>
        obtain ⟨x, r2⟩ := q
        simp only [h2] at h
        by_cases hx : x < 2 ∨ x > 36
        · simp [hx] at h
        · simp only [hx, if_false] at h
          injection h with h; injection h with h _; subst h
          simp only [BaseRep]; omega
    · simp [k1, k2, k3, k4, k5] at h

/-- a loaded big integer always has at least one limb -/
theorem uint_nonempty (bs : Bytes) (b : BigUint) (r : Bytes) (h : deUint bs = .ok (b, r)) : b.limbs ≠ [] := by
  unfold deUint at h
  cases h1 : deU8 bs with
  | error e => simp [h1, andThen] at h
  | ok p =>
    obtain ⟨k, r1⟩ := p
    simp only [h1, andThen] at h
    split at h
    · cases h2 : deU64 r1 with
      | error e => simp [h2] at h
      | ok q =>
        obtain ⟨n, r2⟩ := q
        simp only [h2] at h
        injection h with h; injection h with h _; subst h; simp [BigUint.limbs]
    · split at h
      · cases h2 : deU64 r1 with
        | error e => simp [h2] at h
        | ok q =>
          obtain ⟨n, r2⟩ := q
          simp only [h2] at h
          split at h
          · simp at h
          · rename_i hn
            cases h3 : deListN deU64 n r2 with
            | error e => simp [h3] at h
            | ok q2 =>
              obtain ⟨v, r3⟩ := q2
              simp only [h3] at h
              injection h with h; injection h with h _; subst h
              obtain ⟨hl, _⟩ := deListN_bounded deU64 deU64_consumes n r2 v r3 h3
              simp only [BigUint.limbs]
              intro hv; subst hv; simp at hl; exact hn hl.symm
      · simp at h

/-- a loaded rational has a non-zero denominator (whatever its limb representation): later arithmetic never divides by,
or takes the logarithm of, a zero denominator -/
theorem rat_den_nonzero (bs : Bytes) (q : BigRat) (r : Bytes) (h : deRat bs = .ok (q, r)) : isZeroU q.den = false := by
  unfold deRat at h
  cases h1 : deU8 bs with
  | error e => simp [h1, andThen] at h
  | ok p =>
    obtain ⟨s, r1⟩ := p
    simp only [h1, andThen] at h
    split at h
    · cases h
    · cases h2 : deUint r1 with
      | error e => simp [h2] at h
      | ok p2 =>
        obtain ⟨n, r2⟩ := p2
        simp only [h2] at h
        cases h3 : deUint r2 with
        | error e => simp [h3] at h
        | ok p3 =>
          obtain ⟨d, r3⟩ := p3
          simp only [h3] at h
          split at h
          · cases h
          · rename_i hz
            injection h with h; injection h with h4 h5
            subst h4
            simpa using hz

/-- a loaded date has a non-zero year, a month in 1..12 and a day in 1..31 -/
theorem date_validated (bs : Bytes) (d : SDate) (r : Bytes) (h : deDate bs = .ok (d, r)) :
    d.year ≠ 0 ∧ 1 ≤ d.month ∧ d.month ≤ 12 ∧ 1 ≤ d.day ∧ d.day ≤ 31 := by
  unfold deDate at h
  cases h1 : deI32 bs with
  | error e => simp [h1, andThen] at h
  | ok p =>
    obtain ⟨y, r1⟩ := p
    simp only [h1, andThen] at h
    by_cases hy : y = 0
    · simp [hy] at h
    · simp only [hy, if_false] at h
      unfold deMonth at h
      cases h2 : deU8 r1 with
      | error e => simp [h2, andThen] at h
      | ok q =>
        obtain ⟨m, r2⟩ := q
        simp only [h2, andThen] at h
        by_cases hm : 1 ≤ m ∧ m ≤ 12
        · simp only [hm, and_self, if_true] at h
          cases h3 : deU8 r2 with
          | error e => simp [h3] at h
          | ok q3 =>
            obtain ⟨dd, r3⟩ := q3
            simp only [h3] at h
            by_cases hd : dd = 0 ∨ dd ≥ 32
            · simp [hd] at h
            · simp only [hd, if_false] at h
              injection h with h; injection h with h _; subst h
              refine ⟨hy, hm.1, hm.2, ?_, ?_⟩ <;> simp only <;> omega
        · simp [hm] at h

-- non-vacuity: the validators do accept something
example : deBase [5, 10, 99] = .ok (.plain 10, [99]) := by rfl
example : deBase [5, 0, 99] = .error .bad ∧ deBase [4, 37] = .error .bad ∧ deUint [2, 0,0,0,0,0,0,0,0] = .error .bad := ⟨rfl, rfl, rfl⟩

end Fend.C14
