/-
Model of name binding in the evaluator: `scope.rs` (`Scope::with_variable`, `Scope::get`, lazy variables with
their captured scope), `ast.rs` (`resolve_identifier`: scope, then user variables, then built-ins; `Expr::Fn`,
`Expr::Assign`, `Expr::Statements`, application), `value.rs` (`Value::apply` on `Fn` and on numbers),
`eval.rs` (`evaluate_to_spans`: `_` / `ans`).  Numbers are exact rationals with + - * / and unary minus;
built-in names are a parameter table of constants.
-/
namespace Fend.Scope

inductive Op where
  | add | sub | mul | div
deriving DecidableEq, Repr

inductive Expr where
  | num (q : Rat)
  | unitLit
  | var (x : String)
  | parens (e : Expr)
  | neg (e : Expr)
  | bop (op : Op) (a b : Expr)
  | lam (x : String) (body : Expr)
  | app (f a : Expr)
  | assign (x : String) (e : Expr)
  | seq (a b : Expr)
deriving Repr

/-- `Option<Arc<Scope>>`: a chain of lazily bound parameters, each with the scope of its call site -/
inductive Scope where
  | nil
  | cons (ident : String) (arg : Expr) (captured : Scope) (inner : Scope)
deriving Repr

inductive Value where
  | num (q : Rat)
  | unit
  | fn (param : String) (body : Expr) (scope : Scope)
deriving Repr

inductive Err where
  | unknownIdent (x : String)
  | divByZero
  | notAFunction
  | badOperands
  | fuel
deriving DecidableEq, Repr

abbrev Vars := List (String × Value)

def lookup (vs : Vars) (x : String) : Option Value :=
  match vs with
  | [] => none
  | (k, v) :: t => if k = x then some v else lookup t x

/-- `HashMap::insert` -/
def setVar (vs : Vars) (x : String) (v : Value) : Vars :=
  match vs with
  | [] => [(x, v)]
  | (k, w) :: t => if k = x then (k, v) :: t else (k, w) :: setVar t x v

/-- `Scope::get` without the evaluation: the binding an identifier resolves to -/
def Scope.find : Scope → String → Option (Expr × Scope)
  | .nil, _ => none
  | .cons i a c inner, x => if i = x then some (a, c) else inner.find x

def arith (op : Op) (a b : Rat) : Except Err Rat :=
  match op with
  | .add => .ok (a + b)
  | .sub => .ok (a - b)
  | .mul => .ok (a * b)
  | .div => if b = 0 then .error .divByZero else .ok (a / b)

/-- `ast::evaluate`; the variables are threaded because `=` mutates the context even when a later step fails -/
def eval (builtins : List (String × Rat)) : Nat → Expr → Scope → Vars → Except Err Value × Vars
  | 0, _, _, vs => (.error .fuel, vs)
  | fuel + 1, e, sc, vs =>
    let ev := eval builtins fuel
    match e with
    | .num q => (.ok (.num q), vs)
    | .unitLit => (.ok .unit, vs)
    | .parens x => ev x sc vs
    | .var x =>
      match sc.find x with
      | some (a, captured) => ev a captured vs                   -- a parameter: evaluate the argument where it was written
      | none =>
        match lookup vs x with
        | some v => (.ok v, vs)                                    -- user variable
        | none =>
          match builtins.find? (fun p => p.1 = x) with
          | some (_, q) => (.ok (.num q), vs)                      -- built-in
          | none => (.error (.unknownIdent x), vs)
    | .neg x =>
      match ev x sc vs with
      | (.ok (.num q), vs) => (.ok (.num (-q)), vs)
      | (.ok _, vs) => (.error .badOperands, vs)
      | (.error er, vs) => (.error er, vs)
    | .bop op a b =>
      match ev a sc vs with
      | (.error er, vs) => (.error er, vs)
      | (.ok va, vs) =>
        match ev b sc vs with
        | (.error er, vs) => (.error er, vs)
        | (.ok vb, vs) =>
          match va, vb with
          | .num x, .num y => (match arith op x y with | .ok r => (.ok (.num r), vs) | .error er => (.error er, vs))
          | _, _ => (.error .badOperands, vs)
    | .lam x b => (.ok (.fn x b sc), vs)                           -- a closure keeps the scope it was created in
    | .app f a =>
      match ev f sc vs with
      | (.error er, vs) => (.error er, vs)
      | (.ok (.fn param body custom), vs) => ev body (.cons param a sc custom) vs
      | (.ok (.num x), vs) =>
        match ev a sc vs with                                       -- a number applied to something multiplies
        | (.ok (.num y), vs) => (.ok (.num (x * y)), vs)
        | (.ok _, vs) => (.error .badOperands, vs)
        | (.error er, vs) => (.error er, vs)
      | (.ok .unit, vs) => (.error .notAFunction, vs)
    | .assign x rhs =>
      match ev rhs sc vs with
      | (.ok v, vs) => (.ok v, setVar vs x v)
      | (.error er, vs) => (.error er, vs)
    | .seq a b =>
      match ev a sc vs with
      | (.ok _, vs) => ev b sc vs
      | (.error er, vs) => (.error er, vs)

/-- `evaluate_to_spans`: one input line; on success `_` and `ans` are set to the result -/
def evalInput (builtins : List (String × Rat)) (fuel : Nat) (e : Expr) (vs : Vars) : Except Err Value × Vars :=
  match eval builtins fuel e .nil vs with
  | (.ok v, vs) => (.ok v, setVar (setVar vs "_" v) "ans" v)
  | (.error er, vs) => (.error er, vs)

/-- capture-avoiding? no — plain textual substitution of a parenthesised expression for a name, stopping at a
binder of the same name: what "writing the parenthesised expression in its place" means -/
def subst (x : String) (r : Expr) : Expr → Expr
  | .num q => .num q
  | .unitLit => .unitLit
  | .var y => if y = x then .parens r else .var y
  | .parens e => .parens (subst x r e)
  | .neg e => .neg (subst x r e)
  | .bop op a b => .bop op (subst x r a) (subst x r b)
  | .lam y b => if y = x then .lam y b else .lam y (subst x r b)
  | .app f a => .app (subst x r f) (subst x r a)
  | .assign y e => .assign y (subst x r e)
  | .seq a b => .seq (subst x r a) (subst x r b)

end Fend.Scope
