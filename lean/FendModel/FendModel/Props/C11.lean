/-
C11 — every built-in and custom unit name resolves, coherently with its family.
Table theorems are complete kernel evaluations (`decide +kernel`) over the REGENERATED table of what
the tree under test resolves each name to; algorithm theorems are about the lookup model and hold for
every table and every custom-unit configuration.
-/
import FendModel.Model.UnitLookup
import FendModel.Gen.UnitsResolved

namespace Fend.C11
open Fend.Gen Fend.UnitLookup

def row (i : Nat) : Option Res := resolved.getD i none

/-- `r^k` on reduced fractions; exponents of the family bases are integers, so `e * k` stays reduced -/
def powRes (k : Nat) (r : Res) : Res :=
  ⟨(r.scale.1 ^ k, r.scale.2 ^ k), (r.pi.1 * k, r.pi.2), r.dims.map fun (b, e) => (b, (e.1 * k, e.2))⟩

/-- every singular and plural name of the table evaluates without error -/
theorem all_resolve : status.all (· ≠ 2) = true := by decide +kernel

/-- singular and plural denote the same quantity -/
theorem plural_eq_singular : singularPlural.all (fun (s, p) => row s == row p) = true := by decide +kernel

/-- a name defined as exactly another name (short / long spellings, aliases) denotes the same quantity -/
theorem short_long_agree : sameAs.all (fun (a, b) => row a == row b) = true := by decide +kernel

/-- the square / cubic shorthand families agree with their long forms: sqX = X2 = X^2, cbX = X3 = X^3 -/
theorem families_agree :
    families.all (fun (x, y, k) => (row y).isSome && row y == (row x).map (powRes k)) = true := by decide +kernel

/-- (C04) the factors fixed by the defining standards -/
theorem standards_hold : standards.all (fun (i, r) => row i == r) = true := by decide +kernel

/-! ### the lookup algorithm, for every table and configuration -/

/-- custom units from the host configuration take precedence over everything built in -/
theorem custom_first (table : List Entry) (sh : List (String × String)) (cur : List String) (cfg : Cfg)
    (ident : String) (cs whole : Bool) (e : Entry)
    (h : cfg.custom.find? (fun (s, p, _) =>
        let p := if p.isEmpty then s else p
        (ident == s || ident == p) || (!cs && (eqIgnoreAsciiCase s ident || eqIgnoreAsciiCase p ident))) = some e) :
    queryInternal table sh cur cfg ident false cs whole = some (e.1, if e.2.1.isEmpty then e.1 else e.2.1, e.2.2) := by
  unfold queryInternal
  simp only [Bool.not_false, if_true]
  rw [h]

/-- a prefixed reading is only ever produced when the prefix's and the unit's rules permit it:
names that must not take a prefix do not -/
theorem prefix_only_when_allowed (table : List Entry) (sh : List (String × String)) (cur : List String) (cfg : Cfg)
    (cs : Bool) (pre rest : List Char) (a b : Entry)
    (h : splitLoop table sh cur cfg cs pre rest = .prefixed a b) :
    (ruleOf a.2.2 = .longPrefix ∧ ruleOf b.2.2 = .longAllowed) ∨ (ruleOf a.2.2 = .shortPrefix ∧ ruleOf b.2.2 = .shortAllowed) := by
  induction rest generalizing pre with
  | nil => simp [splitLoop] at h
  | cons c rest ih =>
    unfold splitLoop at h
    simp only at h
    split at h
    · simp at h
    · split at h
      · exact ih _ h
      · split at h
        · exact ih _ h
        · split at h
          · rename_i hc
            injection h with h1 h2; subst h1; subst h2; exact hc
          · simp at h

/-- lookup is deterministic when a name is defined twice: the first definition in table order wins -/
theorem first_definition_wins (table : List Entry) (sh : List (String × String)) (cur : List String)
    (ident : String) (e : Entry) (hcur : cur.contains ident = false)
    (h : (table.map (fun (s, p, d) => (s, (if p.isEmpty then s else p), d))).find?
        (fun (s, p, _) => s == ident || p == ident) = some e) :
    queryBuiltin table sh cur ident false true = some e := by
  unfold queryBuiltin
  simp only [Bool.false_eq_true, if_false, if_true, hcur]
  rw [h]

end Fend.C11
