/-
C08 — operators bind as the manual's precedence table says.

Proved for EVERY tree (unbounded), `roundtrip`: take the manual's table as a stratified grammar —

    F ::= number | ( C6 ) | F !                     `!` binds tightest
    U ::= - U | F | F ^ U                           `^` right-associative, above unary minus, which may start an exponent
    M ::= U | M (* | / | mod) U                     left-associative
    A ::= M | A (+ | -) M                           left-associative
    C1 ::= A | C1 (<< | >>) A     C2 ::= C1 | C2 & C1     C3 ::= C2 | C3 xor C2
    C4 ::= C3 | C4 `|` C3         C5 ::= C4 | C5 nCr C4   C6 ::= C5 | C6 nPr C5

— then for every tree of this grammar (parentheses only where the grammar says `( C6 )`, nested to any depth) the parser
model, started at the statement level with enough fuel, returns exactly that tree and consumes all input.  Every operator
expression over number literals written without redundant parentheses IS such a tree, so this is "an expression with no
redundant parentheses evaluates as its fully parenthesised form" at the level of parse trees, and `parens_transparent` is the
statement about adding parentheses.  The six ladder levels share one generic induction (`leftLoop`).

Not proved (carried by the correspondence run and by the kernel-evaluated instances, which are TESTS of the model):
number-unit juxtaposition, mixed fractions and implicit sums, `to`, unary `+` and `/`, identifiers and function application,
and the levels `== != = ;` above the ladder when their operands are not ladder trees.  Fuel: the theorem says "for all
sufficiently large fuel"; that `parse`'s own budget `64·(n+2)` is sufficient is checked by the correspondence run, not proved.
-/
import FendModel.Proofs.ParserArith
import FendModel.Proofs.ParserTop

namespace Fend.C08
open Fend.Parser

private def n (k : Nat) : Tok := .num (toString k)
private def s (x : Sym) : Tok := .sym x
private def N (k : Nat) : Expr := .num (toString k)

/-- `!` above `^`: `2^3!` = 2^(3!) -/
theorem fact_above_pow : parse [n 2, s .pow, n 3, s .fact] = some (.bop .pow (N 2) (.fact (N 3))) := by decide +kernel
/-- `^` is right-associative -/
theorem pow_right_assoc : parse [n 2, s .pow, n 3, s .pow, n 2] = some (.bop .pow (N 2) (.bop .pow (N 3) (N 2))) := by decide +kernel
/-- `^` above unary minus: `-2^2` = -(2^2); a unary minus may start an exponent: `2^-3^2` = 2^(-(3^2)) -/
theorem pow_above_neg : parse [s .sub, n 2, s .pow, n 2] = some (.neg (.bop .pow (N 2) (N 2))) ∧
    parse [n 2, s .pow, s .sub, n 3, s .pow, n 2] = some (.bop .pow (N 2) (.neg (.bop .pow (N 3) (N 2)))) := by
  constructor <;> decide +kernel
/-- unary minus above `*`: `-2*3` = (-2)*3 -/
theorem neg_above_mul : parse [s .sub, n 2, s .mul, n 3] = some (.bop .mul (.neg (N 2)) (N 3)) := by decide +kernel
/-- `* / mod` are left-associative and share a level; juxtaposition binds at the same level -/
theorem mul_left_assoc : parse [n 8, s .div, n 4, s .mul, n 2, s .mod, n 3] = some (.bop .mod (.bop .mul (.bop .div (N 8) (N 4)) (N 2)) (N 3)) ∧
    parse [n 2, .ident "kg", s .mul, n 3] = some (.bop .mul (.applyMul (N 2) (.ident "kg")) (N 3)) ∧
    parse [n 2, .ident "kg", s .pow, n 2] = some (.apply (N 2) (.bop .pow (.ident "kg") (N 2))) := by
  refine ⟨?_, ?_, ?_⟩ <;> decide +kernel
/-- `*` above `+ -`, which are left-associative -/
theorem mul_above_add : parse [n 1, s .add, n 2, s .mul, n 3, s .sub, n 4] = some (.bop .minus (.bop .plus (N 1) (.bop .mul (N 2) (N 3))) (N 4)) := by decide +kernel
/-- `+` above `<< >>` above `&` above `xor` above `|` above `nCr` above `nPr` -/
theorem bitwise_ladder :
    parse [n 1, s .shl, n 2, s .add, n 3, s .bitAnd, n 4, s .bitXor, n 5, s .bitOr, n 6, s .comb, n 7, s .perm, n 8] =
      some (.bop .perm (.bop .comb (.bop .bitOr (.bop .bitXor (.bop .bitAnd (.bop .shl (N 1) (.bop .plus (N 2) (N 3))) (N 4)) (N 5)) (N 6)) (N 7)) (N 8)) ∧
    parse [n 8, s .perm, n 7, s .comb, n 6, s .bitOr, n 5, s .bitXor, n 4, s .bitAnd, n 3, s .shr, n 2, s .sub, n 1] =
      some (.bop .perm (N 8) (.bop .comb (N 7) (.bop .bitOr (N 6) (.bop .bitXor (N 5) (.bop .bitAnd (N 4) (.bop .shr (N 3) (.bop .minus (N 2) (N 1)))))))) := by
  constructor <;> decide +kernel
/-- `nPr` above `== !=` above `=` above `;` -/
theorem top_ladder :
    parse [.ident "a", s .eq, n 1, s .perm, n 2, s .eq2, n 3, s .semi, .ident "a"] =
      some (.stmts (.assign "a" (.equality true (.bop .perm (N 1) (N 2)) (N 3))) (.ident "a")) := by decide +kernel
/-- redundant parentheses only add a `Parens` node around the same tree -/
theorem parens_example : parse [s .openP, n 1, s .add, n 2, s .closeP, s .mul, n 3] = some (.bop .mul (.parens (.bop .plus (N 1) (N 2))) (N 3)) := by
  decide +kernel

/-! ### the unbounded theorem -/

/-- a number literal as an operand of the ladder -/
def num (n : String) : Chain 0 := .base (.num n) [.num n] ⟨_, _, rfl, Or.inl ⟨n, rfl⟩⟩ (num_base n)

/-- a complete parenthesised tree as an operand of the ladder -/
def paren (c : Chain 6) : Chain 0 :=
  .base (.parens c.toExpr) (.sym .openP :: (c.toToks ++ [.sym .closeP])) ⟨_, _, rfl, Or.inr (Or.inl rfl)⟩ (paren_base c)

/-- F ::= number -/
def fNum (n : String) : FTree :=
  .atom (.num n) (.num n) [] ⟨Or.inl ⟨n, rfl⟩, rfl, 1, fun fuel hf rest => by
    obtain ⟨f, rfl⟩ : ∃ f, fuel = f + 1 := ⟨fuel - 1, by omega⟩
    simp [run]⟩

/-- F ::= ( C6 ) -/
def fParen (c : Chain 6) : FTree :=
  .atom (.parens c.toExpr) (.sym .openP) (c.toToks ++ [.sym .closeP]) ⟨Or.inr rfl, rfl, paren_atom c⟩

/-- C0 ::= A : a sum of products of powers is an operand of the ladder -/
def ofSum (a : ATree) : Chain 0 := .base a.toExpr a.toToks (atree_starts a) (atree_base a)

/-- **operators bind as the table says, for every tree of the stratified grammar** (built with `fNum`, `fParen`, `FTree.fact`,
`UTree.*`, `MTree.*`, `ATree.*`, `ofSum`, `Chain.up`, `Chain.snoc`): with enough fuel, parsing its text from the statement
level yields exactly the tree and consumes all input -/
theorem roundtrip (c : Chain 6) : ∃ F, ∀ fuel, F ≤ fuel → run fuel .statements c.toToks = some (c.toExpr, []) := by
  obtain ⟨F, hF⟩ := statements_of_chain c
  exact ⟨F, fun fuel hf => by simpa using hF fuel hf [] (Or.inl rfl)⟩

/-- adding parentheses around a sub-tree the table already groups only inserts a `Parens` node around the same tree -/
theorem parens_transparent (c : Chain 6) :
    ∃ F, ∀ fuel, F ≤ fuel → run fuel .statements (.sym .openP :: (c.toToks ++ [.sym .closeP])) = some (.parens c.toExpr, []) := by
  have := roundtrip (.up (.up (.up (.up (.up (.up (paren c)))))))
  simpa [Chain.toToks, Chain.toExpr, paren] using this

-- non-vacuity: `1 << 2 & 3 | (4 nCr 5 nCr 6) nPr 7` is such a chain; its tree is ((((1<<2)&3)|((4 nCr 5) nCr 6)) nPr 7
private def ex : Chain 6 :=
  .snoc (.up (.up (.snoc (.up (.up (.snoc (.up (.snoc (.up (num "1")) .shl .shl (by simp [opsLv]) (num "2"))) .bitAnd .bitAnd (by simp [opsLv])
    (.up (num "3"))))) .bitOr .bitOr (by simp [opsLv])
    (.up (.up (.up (paren (.up (.snoc (.snoc (.up (.up (.up (.up (.up (num "4")))))) .comb .comb (by simp [opsLv]) (.up (.up (.up (.up (num "5"))))))
      .comb .comb (by simp [opsLv]) (.up (.up (.up (.up (num "6"))))))))))))))
    .perm .perm (by simp [opsLv]) (.up (.up (.up (.up (.up (num "7"))))))

example : ex.toExpr = .bop .perm (.bop .bitOr (.bop .bitAnd (.bop .shl (.num "1") (.num "2")) (.num "3"))
    (.parens (.bop .comb (.bop .comb (.num "4") (.num "5")) (.num "6")))) (.num "7") := rfl

-- non-vacuity with the arithmetic levels: `-2^3! * (1 + 2) - 4 << 5` is ((((-(2^(3!))) * ((1+2))) - 4) << 5)
private def ex2 : Chain 6 :=
  .up (.up (.up (.up (.up (.snoc (.up (ofSum
    (.snoc (.one (.snoc (.one (.neg (.pow (fNum "2") (.plain (.fact (fNum "3")))))) .mul .mul (by simp [mulOps])
      (.plain (fParen (.up (.up (.up (.up (.up (.up (ofSum (.snoc (.one (.one (.plain (fNum "1")))) .add .plus (by simp [addOps]) (.one (.plain (fNum "2")))))))))))))))
      .sub .minus (by simp [addOps]) (.one (.plain (fNum "4"))))))
    .shl .shl (by simp [opsLv]) (ofSum (.one (.one (.plain (fNum "5"))))))))))

example : ex2.toExpr = .bop .shl (.bop .minus (.bop .mul (.neg (.bop .pow (.num "2") (.fact (.num "3")))) (.parens (.bop .plus (.num "1") (.num "2")))) (.num "4")) (.num "5") := rfl
example : ex2.toToks = [.sym .sub, .num "2", .sym .pow, .num "3", .sym .fact, .sym .mul, .sym .openP, .num "1", .sym .add, .num "2", .sym .closeP,
    .sym .sub, .num "4", .sym .shl, .num "5"] := rfl

/-- **the top of the table** (`==`/`!=` above `=` above `;`): a sequence `a1 ; a2 ; … ; an` in which each `ai` is a complete
operator chain, one comparison of two chains, or (right-nested) assignments of such to identifiers, parses from the statement
level — with enough fuel — to exactly `stmts (… (stmts a1 a2) …) an` with `assign x (…)` and `equality` nodes where the table
puts them, and consumes all input -/
theorem roundtrip_top (a : AsT) (t : List AsT) :
    ∃ F, ∀ fuel, F ≤ fuel → run fuel .statements (a.toToks ++ semiToks t) = some (foldStmts a.toExpr t, []) := by
  obtain ⟨F, hF⟩ := statements_ok a t
  exact ⟨F, fun fuel hf => by simpa using hF fuel hf [] (Or.inl rfl)⟩

/-- the three fraction layouts the renderer writes (`N/D`, `I N/D`, `-I N/D`) parse — for any digit strings, with any fuel
from 40 up — to the quotient, to the SUM integer part + fraction, and to `(-I) - N/D`: the juxtaposition inside a mixed
fraction is addition, not the multiplication juxtaposition means elsewhere (with C02's `mixed_fraction_roundtrip` this is the
value the renderer started from) -/
theorem fraction_layouts (i n d : String) (g : Nat) :
    run (g + 40) .statements [.num n, .sym .div, .num d] = some (.bop .div (.num n) (.num d), []) ∧
    run (g + 40) .statements [.num i, .num n, .sym .div, .num d] = some (.bop .plus (.num i) (.bop .div (.num n) (.num d)), []) ∧
    run (g + 40) .statements [.sym .sub, .num i, .num n, .sym .div, .num d] =
      some (.bop .minus (.neg (.num i)) (.bop .div (.num n) (.num d)), []) :=
  ⟨improper_fraction_parse n d g, mixed_fraction_parse i n d g, neg_mixed_fraction_parse i n d g⟩

/-- **number-unit juxtaposition sits at the multiplicative level**: for every operator of a lower level — `+ - << >> & xor | nCr
nPr` — `a u OP b v` is `(a u) OP (b v)`; with `*` / `/` it groups from the left, `a u * b v` = `((a u) * b) v`; and `^`, `!`,
unary minus bind tighter: `a u^k` = `a (u^k)`, `a u!` = `a (u!)`, `-a u` = `(-a) u`.  For any number strings `a b k` and
any identifiers `u v` (other than the modulo sign `%`), with any fuel from 60 up. -/
theorem juxtaposition_level (a u b v k : String) (hu : u ≠ "%") (hv : v ≠ "%") (g : Nat) :
    (∀ s op, (s, op) ∈ [(Sym.add, Bop.plus), (.sub, .minus), (.shl, .shl), (.shr, .shr), (.bitAnd, .bitAnd), (.bitXor, .bitXor),
        (.bitOr, .bitOr), (.comb, .comb), (.perm, .perm)] →
      run (g + 60) .statements [.num a, .ident u, .sym s, .num b, .ident v] =
        some (.bop op (.applyMul (.num a) (.ident u)) (.applyMul (.num b) (.ident v)), [])) ∧
    run (g + 60) .statements [.num a, .ident u, .sym .mul, .num b, .ident v] =
      some (.apply (.bop .mul (.applyMul (.num a) (.ident u)) (.num b)) (.ident v), []) ∧
    run (g + 60) .statements [.num a, .ident u, .sym .div, .num b, .ident v] =
      some (.apply (.bop .div (.applyMul (.num a) (.ident u)) (.num b)) (.ident v), []) ∧
    run (g + 60) .statements [.num a, .ident u, .ident v] = some (.applyMul (.applyMul (.num a) (.ident u)) (.ident v), []) ∧
    run (g + 60) .statements [.num a, .ident u, .sym .pow, .num k] = some (.apply (.num a) (.bop .pow (.ident u) (.num k)), []) ∧
    run (g + 60) .statements [.num a, .ident u, .sym .fact] = some (.applyMul (.num a) (.fact (.ident u)), []) ∧
    run (g + 60) .statements [.sym .sub, .num a, .ident u] = some (.apply (.neg (.num a)) (.ident u), []) := by
  obtain ⟨m1, m2, m3⟩ := jux_mul a u b v hu hv g
  obtain ⟨t1, t2, t3⟩ := jux_tighter a u k hu g
  refine ⟨fun s op h => ?_, m1, m2, m3, t1, t2, t3⟩
  simp only [List.mem_cons, Prod.mk.injEq, List.mem_nil_iff, or_false] at h
  rcases h with ⟨rfl, rfl⟩ | ⟨rfl, rfl⟩ | ⟨rfl, rfl⟩ | ⟨rfl, rfl⟩ | ⟨rfl, rfl⟩ | ⟨rfl, rfl⟩ | ⟨rfl, rfl⟩ | ⟨rfl, rfl⟩ | ⟨rfl, rfl⟩
  · exact jux_add a u b v hu hv g
  · exact jux_sub a u b v hu hv g
  · exact jux_shl a u b v hu hv g
  · exact jux_shr a u b v hu hv g
  · exact jux_bitAnd a u b v hu hv g
  · exact jux_bitXor a u b v hu hv g
  · exact jux_bitOr a u b v hu hv g
  · exact jux_comb a u b v hu hv g
  · exact jux_perm a u b v hu hv g

/-- further shapes, symbolic in their strings: an implicit sum of two quantities (`5 ft 3 in`) is one `implicitPlus` of two
juxtapositions; `to` applies to everything on its left down to the additive level (`a u + b v to w` converts the SUM); a
function name followed by a number is an application -/
theorem more_shapes (a u b v w f : String) (hu : u ≠ "%") (hv : v ≠ "%") (hw : w ≠ "%") (g : Nat) :
    run (g + 60) .statements [.num a, .ident u, .num b, .ident v] =
      some (.bop .implicitPlus (.applyMul (.num a) (.ident u)) (.applyMul (.num b) (.ident v)), []) ∧
    run (g + 60) .statements [.num a, .ident u, .sym .conv, .ident v] = some (.as_ (.applyMul (.num a) (.ident u)) (.ident v), []) ∧
    run (g + 60) .statements [.num a, .ident u, .sym .add, .num b, .ident v, .sym .conv, .ident w] =
      some (.as_ (.bop .plus (.applyMul (.num a) (.ident u)) (.applyMul (.num b) (.ident v))) (.ident w), []) ∧
    run (g + 60) .statements [.ident f, .num a] = some (.applyFn (.ident f) (.num a), []) :=
  jux_more a u b v w f hu hv hw g

/-- unary plus and division signs, chained `to` (left-nested), a lambda body extending to the right, and the two meetings of
unary minus with `^`: `-a^b` is `-(a^b)` (power binds tighter on its left) while `a^-b` is `a^(-b)` -/
theorem unary_lambda_shapes (a b u v x : String) (hu : u ≠ "%") (hv : v ≠ "%") (hx : x ≠ "%") (g : Nat) :
    run (g + 60) .statements [.sym .add, .num a] = some (.pos (.num a), []) ∧
    run (g + 60) .statements [.sym .div, .num a] = some (.udiv (.num a), []) ∧
    run (g + 60) .statements [.num a, .sym .conv, .ident u, .sym .conv, .ident v] = some (.as_ (.as_ (.num a) (.ident u)) (.ident v), []) ∧
    run (g + 60) .statements [.ident x, .sym .fn_, .ident x, .sym .add, .num a] = some (.fn_ x (.bop .plus (.ident x) (.num a)), []) ∧
    run (g + 60) .statements [.sym .sub, .num a, .sym .pow, .num b] = some (.neg (.bop .pow (.num a) (.num b)), []) ∧
    run (g + 60) .statements [.num a, .sym .pow, .sym .sub, .num b] = some (.bop .pow (.num a) (.neg (.num b)), []) :=
  shapes_unary_lambda a b u v x hu hv hx g

-- non-vacuity: `a = b = 1 == 2 ; 3 != 4 ; 5` is stmts (stmts (assign a (assign b (1 == 2))) (3 != 4)) 5
private def c6 (n : String) : Chain 6 := .up (.up (.up (.up (.up (.up (num n))))))
private def exTop : AsT := .assign "a" (.assign "b" (.plain (.cmp true (c6 "1") (c6 "2"))))
private def exRest : List AsT := [.plain (.cmp false (c6 "3") (c6 "4")), .plain (.plain (c6 "5"))]

example : foldStmts exTop.toExpr exRest
    = .stmts (.stmts (.assign "a" (.assign "b" (.equality true (.num "1") (.num "2")))) (.equality false (.num "3") (.num "4"))) (.num "5") := rfl
example : exTop.toToks ++ semiToks exRest = [.ident "a", .sym .eq, .ident "b", .sym .eq, .num "1", .sym .eq2, .num "2", .sym .semi,
    .num "3", .sym .ne, .num "4", .sym .semi, .num "5"] := rfl

end Fend.C08
