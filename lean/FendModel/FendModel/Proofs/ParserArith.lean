/-
Round trip of the arithmetic levels of the parser model below the ladder of `Proofs/Parser.lean`:
atoms, `!`, right-associative `^` with unary minus, `* / mod`, `+ -`.
-/
import FendModel.Proofs.Parser

namespace Fend.Parser

/-- an atom: text starting with a number or `(` that the atom level parses in front of anything -/
def AtomOK (e : Expr) (t0 : Tok) (ts : List Tok) : Prop :=
  ((∃ n, t0 = .num n) ∨ t0 = .sym .openP) ∧ isApplyMul e = false ∧ ∃ F, ∀ fuel, F ≤ fuel → ∀ rest, run fuel .atom (t0 :: ts ++ rest) = some (e, rest)

/-- `atom !*` -/
inductive FTree where
  | atom (e : Expr) (t0 : Tok) (ts : List Tok) (ok : AtomOK e t0 ts)
  | fact (f : FTree)

def FTree.base : FTree → Expr × Tok × List Tok
  | .atom e t0 ts _ => (e, t0, ts)
  | .fact f => f.base
def FTree.nfact : FTree → Nat
  | .atom .. => 0
  | .fact f => f.nfact + 1
def applyFacts : Nat → Expr → Expr
  | 0, e => e
  | n + 1, e => applyFacts n (.fact e)
def FTree.toExpr (f : FTree) : Expr := applyFacts f.nfact f.base.1
def FTree.toToks (f : FTree) : List Tok := f.base.2.1 :: (f.base.2.2 ++ List.replicate f.nfact (.sym .fact))

theorem FTree.base_ok (f : FTree) : AtomOK f.base.1 f.base.2.1 f.base.2.2 := by
  induction f with
  | atom e t0 ts ok => exact ok
  | fact f ih => exact ih

/-- the `!` loop eats `n` factorial signs and stops in front of anything else -/
theorem factLoop_eats (n : Nat) (e : Expr) (rest : List Tok) (hrest : symHead rest .fact = none) (fuel : Nat) (hf : n + 1 ≤ fuel) :
    run fuel (.factLoop e) (List.replicate n (.sym .fact) ++ rest) = some (applyFacts n e, rest) := by
  induction n generalizing e fuel with
  | zero =>
    obtain ⟨g, rfl⟩ : ∃ g, fuel = g + 1 := ⟨fuel - 1, by omega⟩
    simp [run, hrest, applyFacts]
  | succ n ih =>
    obtain ⟨g, rfl⟩ : ∃ g, fuel = g + 1 := ⟨fuel - 1, by omega⟩
    simp only [List.replicate_succ, List.cons_append]
    have : run (g + 1) (.factLoop e) (.sym .fact :: (List.replicate n (.sym .fact) ++ rest)) =
        run g (.factLoop (.fact e)) (List.replicate n (.sym .fact) ++ rest) := by simp [run, symHead]
    rw [this, ih (.fact e) g (by omega)]
    simp [applyFacts]

theorem ftree_ok (f : FTree) : ∃ F, ∀ fuel, F ≤ fuel → ∀ rest, symHead rest .fact = none →
    run fuel .factorial (f.toToks ++ rest) = some (f.toExpr, rest) := by
  obtain ⟨_, _, F, hF⟩ := f.base_ok
  refine ⟨F + f.nfact + 2, fun fuel hfuel rest hrest => ?_⟩
  obtain ⟨g, rfl⟩ : ∃ g, fuel = g + 1 := ⟨fuel - 1, by omega⟩
  have ha := hF g (by omega) (List.replicate f.nfact (.sym .fact) ++ rest)
  simp only [FTree.toToks, List.cons_append, List.append_assoc]
  simp only [List.cons_append] at ha
  rw [factorial_step g _ _ _ ha]
  exact factLoop_eats f.nfact f.base.1 rest hrest g (by omega)

theorem ftree_starts (f : FTree) : ∃ t0 ts, f.toToks = t0 :: ts ∧ ((∃ n, t0 = .num n) ∨ t0 = .sym .openP) :=
  ⟨f.base.2.1, _, rfl, f.base_ok.1⟩

/-- unary minus and right-associative `^`:  U ::= `-` U | F | F `^` U -/
inductive UTree where
  | neg (u : UTree)
  | plain (f : FTree)
  | pow (f : FTree) (u : UTree)

def UTree.toExpr : UTree → Expr
  | .neg u => .neg u.toExpr
  | .plain f => f.toExpr
  | .pow f u => .bop .pow f.toExpr u.toExpr
def UTree.toToks : UTree → List Tok
  | .neg u => .sym .sub :: u.toToks
  | .plain f => f.toToks
  | .pow f u => f.toToks ++ .sym .pow :: u.toToks

/-- what may follow a `U`: not `!` and not `^` (those would have been consumed) -/
def StopU (rest : List Tok) : Prop := symHead rest .fact = none ∧ symHead rest .pow = none

theorem power_some (fuel : Nat) (t0 : Tok) (toks : List Tok) (r : Expr) (rest rest' : List Tok) (rhs : Expr) (rem : List Tok)
    (hstart : (∃ n, t0 = .num n) ∨ t0 = .sym .openP) (h : run fuel .factorial (t0 :: toks) = some (r, rest))
    (hp : symHead rest .pow = some rest') (hr : run fuel (.power true) rest' = some (rhs, rem)) :
    run (fuel + 1) (.power true) (t0 :: toks) = some (.bop .pow r rhs, rem) := by
  rcases hstart with ⟨n, rfl⟩ | rfl <;> simp [run, h, hp, hr]

theorem utree_ok (u : UTree) : ∃ F, ∀ fuel, F ≤ fuel → ∀ rest, StopU rest →
    run fuel (.power true) (u.toToks ++ rest) = some (u.toExpr, rest) := by
  induction u with
  | neg u ih =>
    obtain ⟨F, hF⟩ := ih
    refine ⟨F + 1, fun fuel hfuel rest hrest => ?_⟩
    obtain ⟨g, rfl⟩ : ∃ g, fuel = g + 1 := ⟨fuel - 1, by omega⟩
    have := hF g (by omega) rest hrest
    simp [UTree.toToks, UTree.toExpr, run, this]
  | plain f =>
    obtain ⟨F, hF⟩ := ftree_ok f
    obtain ⟨t0, ts, hts, hstart⟩ := ftree_starts f
    refine ⟨F + 1, fun fuel hfuel rest hrest => ?_⟩
    obtain ⟨g, rfl⟩ : ∃ g, fuel = g + 1 := ⟨fuel - 1, by omega⟩
    have h := hF g (by omega) rest hrest.1
    simp only [UTree.toToks, UTree.toExpr]
    rw [hts] at h ⊢
    simp only [List.cons_append] at h ⊢
    exact power_step g t0 _ _ rest hstart h hrest.2
  | pow f u ih =>
    obtain ⟨F, hF⟩ := ftree_ok f
    obtain ⟨Fu, hFu⟩ := ih
    obtain ⟨t0, ts, hts, hstart⟩ := ftree_starts f
    refine ⟨F + Fu + 1, fun fuel hfuel rest hrest => ?_⟩
    obtain ⟨g, rfl⟩ : ∃ g, fuel = g + 1 := ⟨fuel - 1, by omega⟩
    have h := hF g (by omega) (.sym .pow :: (u.toToks ++ rest)) (by simp [symHead])
    have hu := hFu g (by omega) rest hrest
    simp only [UTree.toToks, UTree.toExpr, List.append_assoc, List.cons_append]
    rw [hts] at h ⊢
    simp only [List.cons_append] at h ⊢
    exact power_some g t0 _ _ _ (u.toToks ++ rest) _ rest hstart h (by simp [symHead]) hu

theorem utree_starts (u : UTree) : ∃ t0 ts, u.toToks = t0 :: ts ∧ ((∃ n, t0 = .num n) ∨ t0 = .sym .openP ∨ t0 = .sym .sub) := by
  cases u with
  | neg u => exact ⟨_, _, rfl, Or.inr (Or.inr rfl)⟩
  | plain f =>
    obtain ⟨t0, ts, h, hs⟩ := ftree_starts f
    exact ⟨t0, ts, h, hs.elim Or.inl (fun h => Or.inr (Or.inl h))⟩
  | pow f u =>
    obtain ⟨t0, ts, h, hs⟩ := ftree_starts f
    exact ⟨t0, ts ++ .sym .pow :: u.toToks, by simp [UTree.toToks, h], hs.elim Or.inl (fun h => Or.inr (Or.inl h))⟩


/-! ### `* / mod` -/

def mulOps : List (Sym × Bop) := [(.mul, .mul), (.div, .div), (.mod, .mod)]

inductive MTree where
  | one (u : UTree)
  | snoc (m : MTree) (s : Sym) (op : Bop) (h : (s, op) ∈ mulOps) (u : UTree)

def MTree.toExpr : MTree → Expr
  | .one u => u.toExpr
  | .snoc m _ op _ u => .bop op m.toExpr u.toExpr
def MTree.toToks : MTree → List Tok
  | .one u => u.toToks
  | .snoc m s _ _ u => m.toToks ++ .sym s :: u.toToks

/-- what may follow a product: the end, or a symbol that is `+`, `-` or may follow a sum -/
def FollowM (rest : List Tok) : Prop := rest = [] ∨ ∃ s r, rest = .sym s :: r ∧ (followSym 0 s = true ∨ s = .add ∨ s = .sub)

theorem follow0_followM (rest : List Tok) (h : Follow 0 rest) : FollowM rest := by
  rcases h with h | ⟨s, r, h1, h2⟩
  · exact Or.inl h
  · exact Or.inr ⟨s, r, h1, Or.inl h2⟩

theorem followM_stopU (rest : List Tok) (h : FollowM rest) : StopU rest := by
  rcases h with rfl | ⟨s, r, rfl, hs⟩
  · exact ⟨rfl, rfl⟩
  · rcases hs with hs | rfl | rfl
    · cases s <;> simp [followSym] at hs <;> simp [StopU, symHead]
    · simp [StopU, symHead]
    · simp [StopU, symHead]

theorem powerFalse_fails (fuel : Nat) (rest : List Tok) (h : FollowM rest) : run fuel (.power false) rest = none := by
  cases fuel with
  | zero => rfl
  | succ fuel =>
    have hfact : run fuel .factorial rest = none := by
      cases fuel with
      | zero => rfl
      | succ fuel =>
        have hatom : run fuel .atom rest = none := by
          cases fuel with
          | zero => rfl
          | succ fuel =>
            rcases h with rfl | ⟨s, r, rfl, hs⟩
            · simp [run]
            · rcases hs with hs | rfl | rfl
              · cases s <;> simp [followSym] at hs <;> simp [run]
              · simp [run]
              · simp [run]
        simp [run, hatom]
    simp [run, hfact]

theorem mulLoop_stopsM (fuel : Nat) (res : Expr) (rest : List Tok) (h : FollowM rest) :
    run (fuel + 1) (.mulLoop res) rest = some (res, rest) := by
  have hp := powerFalse_fails fuel rest h
  have h1 : run fuel (.mixedFraction res) rest = none := by
    cases fuel with
    | zero => rfl
    | succ fuel =>
      simp only [run]
      split
      · rfl
      · simp [powerFalse_fails fuel rest h]
  have h2 : run fuel (.applyCont res) rest = none := by
    cases fuel with
    | zero => rfl
    | succ fuel => simp [run, powerFalse_fails fuel rest h]
  rcases h with rfl | ⟨s, r, rfl, hs⟩
  · simp [run, h1, h2]
  · rcases hs with hs | rfl | rfl
    · cases s <;> simp [followSym] at hs <;> simp [run, h1, h2]
    · simp [run, h1, h2]
    · simp [run, h1, h2]

theorem mulLoop_step (fuel : Nat) (res : Expr) (s : Sym) (op : Bop) (h : (s, op) ∈ mulOps) (input : List Tok) (t : Expr) (r : List Tok)
    (hu : run fuel (.power true) input = some (t, r)) :
    run (fuel + 1) (.mulLoop res) (.sym s :: input) = run fuel (.mulLoop (.bop op res t)) r := by
  simp [mulOps] at h
  rcases h with ⟨rfl, rfl⟩ | ⟨rfl, rfl⟩ | ⟨rfl, rfl⟩ <;> simp [run, hu]

theorem mulOp_stopU (s : Sym) (op : Bop) (h : (s, op) ∈ mulOps) (r : List Tok) : StopU (.sym s :: r) := by
  simp [mulOps] at h
  rcases h with ⟨rfl, rfl⟩ | ⟨rfl, rfl⟩ | ⟨rfl, rfl⟩ <;> simp [StopU, symHead]

theorem mtree_loop (m : MTree) : ∃ F d, ∀ fuel, F ≤ fuel → ∀ t, StopU t →
    run (fuel + d) .multiplicative (m.toToks ++ t) = run fuel (.mulLoop m.toExpr) t := by
  induction m with
  | one u =>
    obtain ⟨F, hF⟩ := utree_ok u
    exact ⟨F, 1, fun fuel hf t ht => by
      simpa [MTree.toToks, MTree.toExpr] using multiplicative_step fuel _ _ _ (hF fuel hf t ht)⟩
  | snoc m s op h u ih =>
    obtain ⟨Fm, dm, hFm⟩ := ih
    obtain ⟨Fu, hFu⟩ := utree_ok u
    refine ⟨Fm + Fu, dm + 1, fun fuel hf t ht => ?_⟩
    have h1 := hFm (fuel + 1) (by omega) (.sym s :: (u.toToks ++ t)) (mulOp_stopU s op h _)
    have h2 := hFu fuel (by omega) t ht
    have h3 := mulLoop_step fuel m.toExpr s op h (u.toToks ++ t) u.toExpr t h2
    have hadd : fuel + (dm + 1) = fuel + 1 + dm := by omega
    simp only [MTree.toToks, MTree.toExpr, List.append_assoc, List.cons_append]
    rw [hadd, h1, h3]

theorem mtree_ok (m : MTree) : ∃ F, ∀ fuel, F ≤ fuel → ∀ rest, FollowM rest →
    run fuel .multiplicative (m.toToks ++ rest) = some (m.toExpr, rest) := by
  obtain ⟨F, d, hF⟩ := mtree_loop m
  refine ⟨F + d + 1, fun fuel hfuel rest hrest => ?_⟩
  have hsplit : fuel = (fuel - d - 1 + 1) + d := by omega
  rw [hsplit, hF (fuel - d - 1 + 1) (by omega) rest (followM_stopU rest hrest)]
  exact mulLoop_stopsM (fuel - d - 1) m.toExpr rest hrest

/-! ### `+ -` -/

theorem applyFacts_notMul (n : Nat) (e : Expr) (h : isApplyMul e = false) : isApplyMul (applyFacts n e) = false := by
  induction n generalizing e with
  | zero => exact h
  | succ n ih => exact ih (.fact e) rfl

theorem ftree_notMul (f : FTree) : isApplyMul f.toExpr = false := applyFacts_notMul _ _ f.base_ok.2.1

theorem mtree_notMul (m : MTree) : isApplyMul m.toExpr = false := by
  cases m with
  | one u => cases u with
    | neg u => rfl
    | plain f => exact ftree_notMul f
    | pow f u => rfl
  | snoc m s op h u => rfl

theorem implicitAdd_of_mul (fuel : Nat) (input : List Tok) (r : Expr) (rest : List Tok)
    (h : run fuel .multiplicative input = some (r, rest)) (hr : isApplyMul r = false) :
    run (fuel + 1) .implicitAdd input = some (r, rest) := by
  simp only [run, h]
  cases run fuel .implicitAdd rest with
  | none => rfl
  | some p => simp [hr]

def addOps : List (Sym × Bop) := [(.add, .plus), (.sub, .minus)]

inductive ATree where
  | one (m : MTree)
  | snoc (a : ATree) (s : Sym) (op : Bop) (h : (s, op) ∈ addOps) (m : MTree)

def ATree.toExpr : ATree → Expr
  | .one m => m.toExpr
  | .snoc a _ op _ m => .bop op a.toExpr m.toExpr
def ATree.toToks : ATree → List Tok
  | .one m => m.toToks
  | .snoc a s _ _ m => a.toToks ++ .sym s :: m.toToks

theorem addLoop_step (fuel : Nat) (res : Expr) (s : Sym) (op : Bop) (h : (s, op) ∈ addOps) (input : List Tok) (t : Expr) (r : List Tok)
    (hm : run fuel .implicitAdd input = some (t, r)) :
    run (fuel + 1) (.addLoop res) (.sym s :: input) = run fuel (.addLoop (.bop op res t)) r := by
  simp [addOps] at h
  rcases h with ⟨rfl, rfl⟩ | ⟨rfl, rfl⟩ <;> simp [run, hm]

theorem addOp_followM (s : Sym) (op : Bop) (h : (s, op) ∈ addOps) (r : List Tok) : FollowM (.sym s :: r) := by
  simp [addOps] at h
  rcases h with ⟨rfl, rfl⟩ | ⟨rfl, rfl⟩
  · exact Or.inr ⟨_, _, rfl, Or.inr (Or.inl rfl)⟩
  · exact Or.inr ⟨_, _, rfl, Or.inr (Or.inr rfl)⟩

theorem atree_loop (a : ATree) : ∃ F d, ∀ fuel, F ≤ fuel → ∀ t, FollowM t →
    run (fuel + d) .additive (a.toToks ++ t) = run (fuel + 1) (.addLoop a.toExpr) t := by
  induction a with
  | one m =>
    obtain ⟨F, hF⟩ := mtree_ok m
    refine ⟨F, 2, fun fuel hf t ht => ?_⟩
    have h1 := implicitAdd_of_mul fuel _ _ _ (hF fuel hf t ht) (mtree_notMul m)
    simpa [ATree.toToks, ATree.toExpr] using additive_step (fuel + 1) _ _ _ h1
  | snoc a s op h m ih =>
    obtain ⟨Fa, da, hFa⟩ := ih
    obtain ⟨Fm, hFm⟩ := mtree_ok m
    refine ⟨Fa + Fm, da + 1, fun fuel hf t ht => ?_⟩
    have h1 := hFa (fuel + 1) (by omega) (.sym s :: (m.toToks ++ t)) (addOp_followM s op h _)
    have h2 := implicitAdd_of_mul fuel _ _ _ (hFm fuel (by omega) t ht) (mtree_notMul m)
    have h3 := addLoop_step (fuel + 1) a.toExpr s op h (m.toToks ++ t) m.toExpr t h2
    have hadd : fuel + (da + 1) = fuel + 1 + da := by omega
    simp only [ATree.toToks, ATree.toExpr, List.append_assoc, List.cons_append]
    rw [hadd, h1, h3]

/-- a sum of products of powers of atoms is an operand of the ladder above -/
theorem atree_base (a : ATree) : ∃ F, ∀ fuel, F ≤ fuel → ∀ rest, Follow 0 rest →
    run fuel .additive (a.toToks ++ rest) = some (a.toExpr, rest) := by
  obtain ⟨F, d, hF⟩ := atree_loop a
  refine ⟨F + d + 1, fun fuel hfuel rest hrest => ?_⟩
  have hsplit : fuel = (fuel - d) + d := by omega
  rw [hsplit, hF (fuel - d) (by omega) rest (follow0_followM rest hrest)]
  exact addLoop_stops (fuel - d) a.toExpr rest hrest

theorem atree_starts (a : ATree) : ∃ t0 ts, a.toToks = t0 :: ts ∧ ((∃ n, t0 = .num n) ∨ t0 = .sym .openP ∨ t0 = .sym .sub) := by
  induction a with
  | one m =>
    induction m with
    | one u => simpa [ATree.toToks, MTree.toToks] using utree_starts u
    | snoc m s op h u ih =>
      obtain ⟨t0, ts, hh, hs⟩ := ih
      simp only [ATree.toToks, MTree.toToks] at hh ⊢
      exact ⟨t0, ts ++ .sym s :: u.toToks, by simp [hh], hs⟩
  | snoc a s op h m ih =>
    obtain ⟨t0, ts, hh, hs⟩ := ih
    exact ⟨t0, ts ++ .sym s :: m.toToks, by simp [ATree.toToks, hh], hs⟩

end Fend.Parser
