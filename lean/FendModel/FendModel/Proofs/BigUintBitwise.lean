/-
Bitwise and / or / xor on limb vectors are the bitwise operations on the values, for limb vectors of ANY two lengths.
-/
import FendModel.Model.BigUint

namespace Fend
namespace BigUint

theorem B_pow : B = 2 ^ 64 := by decide

/-- the three operations work limb by limb -/
structure LimbOp (f : Nat → Nat → Nat) : Prop where
  divp : ∀ a b n, f a b / 2 ^ n = f (a / 2 ^ n) (b / 2 ^ n)
  modp : ∀ a b n, f a b % 2 ^ n = f (a % 2 ^ n) (b % 2 ^ n)
  zero : f 0 0 = 0

theorem and_op : LimbOp (· &&& ·) := ⟨fun _ _ _ => Nat.and_div_two_pow, fun _ _ _ => Nat.and_mod_two_pow, by simp⟩
theorem or_op : LimbOp (· ||| ·) := ⟨fun _ _ _ => Nat.or_div_two_pow, fun _ _ _ => Nat.or_mod_two_pow, by simp⟩
theorem xor_op : LimbOp (· ^^^ ·) := ⟨fun _ _ _ => Nat.xor_div_two_pow, fun _ _ _ => Nat.xor_mod_two_pow, by simp⟩

theorem limb_split (f : Nat → Nat → Nat) (hf : LimbOp f) (x y X Y : Nat) (hx : x < B) (hy : y < B) :
    f (x + B * X) (y + B * Y) = f x y + B * f X Y := by
  have h := (Nat.mod_add_div (f (x + B * X) (y + B * Y)) B).symm
  rw [B_pow] at h hx hy ⊢
  rw [hf.modp, hf.divp] at h
  have e1 : (x + 2 ^ 64 * X) % 2 ^ 64 = x := by rw [Nat.add_mul_mod_self_left]; exact Nat.mod_eq_of_lt hx
  have e2 : (y + 2 ^ 64 * Y) % 2 ^ 64 = y := by rw [Nat.add_mul_mod_self_left]; exact Nat.mod_eq_of_lt hy
  have e3 : (x + 2 ^ 64 * X) / 2 ^ 64 = X := by
    rw [Nat.add_mul_div_left _ _ (by decide : 0 < 2 ^ 64), Nat.div_eq_of_lt hx]; simp
  have e4 : (y + 2 ^ 64 * Y) / 2 ^ 64 = Y := by
    rw [Nat.add_mul_div_left _ _ (by decide : 0 < 2 ^ 64), Nat.div_eq_of_lt hy]; simp
  rw [e1, e2, e3, e4] at h
  exact h

/-- `zipLimbs f v w` denotes `f` of the values when the missing high limbs of `w` count as zero and `f a 0` keeps the
high limbs of `v` (true for or / xor; for and the high limbs vanish) — stated via the value of `v` truncated or not -/
theorem zip_val_same (f : Nat → Nat → Nat) (hf : LimbOp f) : ∀ (v w : List Nat), (∀ x ∈ v, x < B) → (∀ x ∈ w, x < B) → w.length ≤ v.length →
    valL (zipLimbs f v w) = f (valL v) (valL w) := by
  intro v
  induction v with
  | nil => intro w _ _ hl; have : w = [] := by cases w <;> simp_all
           subst this; simp [zipLimbs, valL, hf.zero]
  | cons a as ih =>
    intro w hv hw hl
    have ha : a < B := hv a (by simp)
    have has : ∀ x ∈ as, x < B := fun x hx => hv x (by simp [hx])
    cases w with
    | nil =>
      have := ih [] has (by simp) (by simp)
      simp only [zipLimbs, valL] at this ⊢
      rw [this]
      have h := limb_split f hf a 0 (valL as) 0 ha (by decide)
      simpa using h.symm
    | cons b bs =>
      have hb : b < B := hw b (by simp)
      have hbs : ∀ x ∈ bs, x < B := fun x hx => hw x (by simp [hx])
      have := ih bs has hbs (by simpa using hl)
      simp only [zipLimbs, valL]
      rw [this, limb_split f hf a b _ _ ha hb]

theorem valL_append_zeros (v : List Nat) (n : Nat) : valL (v ++ List.replicate n 0) = valL v := by
  induction v with
  | nil => induction n with
    | zero => rfl
    | succ n ih => simp only [List.nil_append] at ih; simp [List.replicate_succ, valL, ih]
  | cons x xs ih => simp [valL, ih]

theorem mem_append_zeros (v : List Nat) (n : Nat) (h : ∀ x ∈ v, x < B) : ∀ x ∈ v ++ List.replicate n 0, x < B := by
  intro x hx
  rcases List.mem_append.mp hx with h1 | h1
  · exact h x h1
  · have := List.eq_of_mem_replicate h1; subst this; decide

/-- `or` / `xor`: both keep the other operand's high limbs (`f a 0 = a`) -/
theorem orXor_val (f : Nat → Nat → Nat) (hf : LimbOp f) (hcomm : ∀ a b, f a b = f b a) (hz : ∀ a, f a 0 = a)
    (a b r : BigUint) (ha : a.WF) (hb : b.WF) (h : orXor f a b = .ok r) : val r = f (val a) (val b) := by
  cases a with
  | small x =>
    cases b with
    | small y => simp [orXor] at h; subst h; rfl
    | large w =>
      cases w with
      | nil => simp [orXor] at h
      | cons y ys =>
        simp only [orXor] at h; injection h with h; subst h
        have hy : y < B := hb y (by simp)
        have := limb_split f hf y x (valL ys) 0 hy ha
        simp only [Nat.mul_zero, Nat.add_zero, hz] at this
        simp only [val, valL]
        rw [hcomm x, this]
  | large v =>
    cases b with
    | small y =>
      cases v with
      | nil => simp [orXor] at h
      | cons x xs =>
        simp only [orXor] at h; injection h with h; subst h
        have hx : x < B := ha x (by simp)
        have := limb_split f hf x y (valL xs) 0 hx hb
        simp only [Nat.mul_zero, Nat.add_zero, hz] at this
        simp only [val, valL]
        rw [this]
    | large w =>
      simp only [orXor] at h; injection h with h; subst h
      simp only [val]
      by_cases hl : v.length < w.length
      · simp only [hl, if_true]
        rw [zip_val_same f hf _ w (mem_append_zeros v _ ha) hb (by simp; omega), valL_append_zeros]
      · simp only [hl, if_false]
        exact zip_val_same f hf v w ha hb (by omega)

/-- `and`: the result has the length of the right operand; limbs of the left beyond it vanish -/
theorem zip_and_val : ∀ (w v : List Nat), (∀ x ∈ w, x < B) → (∀ x ∈ v, x < B) →
    valL (zipLimbs (· &&& ·) w v) = valL w &&& valL v := by
  intro w
  induction w with
  | nil => intro v _ _; simp [zipLimbs, valL]
  | cons a as ih =>
    intro v hw hv
    have ha : a < B := hw a (by simp)
    have has : ∀ x ∈ as, x < B := fun x hx => hw x (by simp [hx])
    cases v with
    | nil =>
      have := ih [] has (by simp)
      simp only [zipLimbs, valL] at this ⊢
      simp [this]
    | cons b bs =>
      have hb : b < B := hv b (by simp)
      have hbs : ∀ x ∈ bs, x < B := fun x hx => hv x (by simp [hx])
      simp only [zipLimbs, valL]
      rw [ih bs has hbs, limb_split _ and_op a b _ _ ha hb]

theorem and_val (a b r : BigUint) (ha : a.WF) (hb : b.WF) (h : bitwiseAnd a b = .ok r) : val r = val a &&& val b := by
  cases a with
  | small x =>
    cases b with
    | small y => simp [bitwiseAnd] at h; subst h; rfl
    | large w =>
      cases w with
      | nil => simp only [bitwiseAnd, headD] at h; cases h
      | cons y ys =>
        simp only [bitwiseAnd, headD] at h
        injection h with h; subst h
        have hy : y < B := hb y (by simp)
        have := limb_split _ and_op x y 0 (valL ys) ha hy
        simp only [Nat.mul_zero, Nat.add_zero, Nat.zero_and] at this
        simp only [val, valL]
        exact this.symm
  | large v =>
    cases b with
    | small y =>
      cases v with
      | nil => simp only [bitwiseAnd, headD] at h; cases h
      | cons x xs =>
        simp only [bitwiseAnd, headD] at h
        injection h with h; subst h
        have hx : x < B := ha x (by simp)
        have := limb_split _ and_op x y (valL xs) 0 hx hb
        simp only [Nat.mul_zero, Nat.add_zero, Nat.and_zero] at this
        simp only [val, valL]
        exact this.symm
    | large w =>
      simp only [bitwiseAnd] at h; injection h with h; subst h
      simp only [val]
      rw [zip_and_val w v hb ha, Nat.and_comm]

theorem or_val (a b r : BigUint) (ha : a.WF) (hb : b.WF) (h : bitwiseOr a b = .ok r) : val r = val a ||| val b :=
  orXor_val (· ||| ·) or_op (fun a b => Nat.or_comm a b) (fun a => Nat.or_zero a) a b r ha hb h

theorem xor_val (a b r : BigUint) (ha : a.WF) (hb : b.WF) (h : bitwiseXor a b = .ok r) : val r = val a ^^^ val b :=
  orXor_val (· ^^^ ·) xor_op (fun a b => Nat.xor_comm a b) (fun a => Nat.xor_zero a) a b r ha hb h

end BigUint
end Fend
