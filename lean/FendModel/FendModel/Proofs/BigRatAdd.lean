/-
Rational addition (`BigRat::add_internal`): for all operands (unreduced fractions, any limb vectors, any
signs, equal or different denominators) the result denotes the sum.  The different-denominator path goes
through `gcd`/`div`/`mul` on BigUint, whose exactness is proved in `BigUintGcd`/`BigUintDivmod`/`BigUintMul`.
-/
import FendModel.Proofs.BigRatMulDiv
import FendModel.Proofs.BigUintGcd

namespace Fend
namespace BigRat
open BigUint

def WFQ (x : BigRat) : Prop := x.num.WF ∧ x.den.WF

/-- the common tail of both branches of `add_internal`: numerators `x`, `y` over the denominator `nd` -/
def addTail (bneg : Bool) (x y nd : BigUint) : R BigRat :=
  if bneg && BigUint.blt x y then do
    let n ← BigUint.sub y x
    .ok ⟨true, n, nd⟩
  else do
    let n ← if !bneg then .ok (BigUint.add x y) else BigUint.sub x y
    .ok ⟨false, n, nd⟩

theorem addPos_eq (a b : BigRat) :
    addPos a b =
      if BigUint.beq a.den b.den then addTail b.neg a.num b.num a.den
      else (do
        let g ← BigUint.gcd a.den b.den
        let nd ← BigUint.div (BigUint.mul a.den b.den) g
        let x ← BigUint.div (BigUint.mul a.num b.den) g
        let y ← BigUint.div (BigUint.mul b.num a.den) g
        addTail b.neg x y nd) := by
  unfold addPos addTail; rfl

theorem addTail_valQ (bneg : Bool) (x y nd : BigUint) (hx : x.WF) (hy : y.WF) (hnd : nd.WF) :
    ∃ r, addTail bneg x y nd = .ok r ∧
      valQ r = ((val x : Nat) : Rat) / (val nd : Nat) + (if bneg then -1 else 1) * ((val y : Nat) : Rat) / (val nd : Nat)
      ∧ WFQ r ∧ r.den = nd := by
  unfold addTail
  by_cases hc : (bneg && BigUint.blt x y) = true
  · obtain ⟨hbn, hlt⟩ : bneg = true ∧ BigUint.blt x y = true := by simpa using hc
    have hlt' : val x < val y := (blt_iff x y hx hy).mp hlt
    obtain ⟨n, hn, hnv, hnw⟩ := sub_val y x hy hx (Nat.le_of_lt hlt')
    refine ⟨⟨true, n, nd⟩, by simp only [hc, if_true, hn, bind, Except.bind], ?_, ⟨hnw, hnd⟩, rfl⟩
    subst hbn
    simp only [valQ, if_true, hnv]
    rw [Nat.cast_sub (Nat.le_of_lt hlt')]
    ring
  · have hc' : (bneg && BigUint.blt x y) = false := by simpa using hc
    simp only [hc', Bool.false_eq_true, if_false]
    cases hbn : bneg with
    | false =>
      refine ⟨⟨false, BigUint.add x y, nd⟩, by simp [bind, Except.bind], ?_, ⟨add_WF x y hx hy, hnd⟩, rfl⟩
      simp only [valQ, Bool.false_eq_true, if_false, add_val]
      push_cast
      ring
    | true =>
      have hge : val y ≤ val x := by
        rw [hbn] at hc'
        have : BigUint.blt x y = false := by simpa using hc'
        have h2 : ¬ val x < val y := fun h => by
          rw [(blt_iff x y hx hy).mpr h] at this; cases this
        omega
      obtain ⟨n, hn, hnv, hnw⟩ := sub_val x y hx hy hge
      refine ⟨⟨false, n, nd⟩, by simp [hn, bind, Except.bind], ?_, ⟨hnw, hnd⟩, rfl⟩
      simp only [valQ, Bool.false_eq_true, if_false, if_true, hnv]
      rw [Nat.cast_sub hge]
      ring

theorem addPos_valQ (a b : BigRat) (ha : a.neg = false) (wa : WFQ a) (wb : WFQ b)
    (da : val a.den ≠ 0) (db : val b.den ≠ 0) :
    ∃ r, addPos a b = .ok r ∧ valQ r = valQ a + valQ b ∧ WFQ r ∧ val r.den ≠ 0 := by
  rw [addPos_eq]
  have hda : ((val a.den : Nat) : Rat) ≠ 0 := by exact_mod_cast da
  have hdb : ((val b.den : Nat) : Rat) ≠ 0 := by exact_mod_cast db
  by_cases hden : BigUint.beq a.den b.den = true
  · have hd : val a.den = val b.den := (beq_iff a.den b.den wa.2 wb.2).mp hden
    simp only [hden, if_true]
    obtain ⟨r, hr, hv, hw, hrd⟩ := addTail_valQ b.neg a.num b.num a.den wa.1 wb.1 wa.2
    refine ⟨r, hr, ?_, hw, by rw [hrd]; exact da⟩
    rw [hv]
    simp only [valQ, ha, Bool.false_eq_true, if_false, hd]
    ring
  · have hden' : BigUint.beq a.den b.den = false := by simpa using hden
    simp only [hden', Bool.false_eq_true, if_false]
    obtain ⟨g, hg, hgv, hgw⟩ := gcd_val a.den b.den wa.2 wb.2
    have hG0 : val g ≠ 0 := by
      rw [hgv]; exact fun h => da (Nat.eq_zero_of_gcd_eq_zero_left h)
    have hGa : val g ∣ val a.den := by rw [hgv]; exact Nat.gcd_dvd_left _ _
    have hGb : val g ∣ val b.den := by rw [hgv]; exact Nat.gcd_dvd_right _ _
    obtain ⟨nd, hnd, hndv, hndw⟩ := div_val (BigUint.mul a.den b.den) g (mul_WF _ _ wa.2 wb.2) hgw hG0
    obtain ⟨x, hx, hxv, hxw⟩ := div_val (BigUint.mul a.num b.den) g (mul_WF _ _ wa.1 wb.2) hgw hG0
    obtain ⟨y, hy, hyv, hyw⟩ := div_val (BigUint.mul b.num a.den) g (mul_WF _ _ wb.1 wa.2) hgw hG0
    rw [mul_val] at hndv hxv hyv
    have e1 : val nd * val g = val a.den * val b.den := by
      rw [hndv]; exact Nat.div_mul_cancel (Dvd.dvd.mul_right hGa _)
    have e2 : val x * val g = val a.num * val b.den := by
      rw [hxv]; exact Nat.div_mul_cancel (Dvd.dvd.mul_left hGb _)
    have e3 : val y * val g = val b.num * val a.den := by
      rw [hyv]; exact Nat.div_mul_cancel (Dvd.dvd.mul_left hGa _)
    have hnd0 : val nd ≠ 0 := by
      intro h0; rw [h0] at e1
      have : val a.den * val b.den ≠ 0 := Nat.mul_ne_zero da db
      omega
    obtain ⟨r, hr, hv, hw, hrd⟩ := addTail_valQ b.neg x y nd hxw hyw hndw
    refine ⟨r, by simp only [hg, hnd, hx, hy, bind, Except.bind]; exact hr, ?_, hw, by rw [hrd]; exact hnd0⟩
    rw [hv]
    have hGq : ((val g : Nat) : Rat) ≠ 0 := by exact_mod_cast hG0
    have hndq : ((val nd : Nat) : Rat) ≠ 0 := by exact_mod_cast hnd0
    have q1 : ((val nd : Nat) : Rat) * (val g : Nat) = (val a.den : Nat) * (val b.den : Nat) := by exact_mod_cast e1
    have q2 : ((val x : Nat) : Rat) * (val g : Nat) = (val a.num : Nat) * (val b.den : Nat) := by exact_mod_cast e2
    have q3 : ((val y : Nat) : Rat) * (val g : Nat) = (val b.num : Nat) * (val a.den : Nat) := by exact_mod_cast e3
    have hx' : ((val x : Nat) : Rat) / (val nd : Nat) = (val a.num : Nat) / (val a.den : Nat) := by
      rw [div_eq_div_iff hndq hda]
      have : ((val x : Nat) : Rat) * (val a.den : Nat) * (val g : Nat) = (val a.num : Nat) * (val nd : Nat) * (val g : Nat) := by
        calc ((val x : Nat) : Rat) * (val a.den : Nat) * (val g : Nat)
            = ((val x : Nat) : Rat) * (val g : Nat) * (val a.den : Nat) := by ring
          _ = (val a.num : Nat) * ((val a.den : Nat) * (val b.den : Nat)) := by rw [q2]; ring
          _ = (val a.num : Nat) * (val nd : Nat) * (val g : Nat) := by rw [← q1]; ring
      exact mul_right_cancel₀ hGq this
    have hy' : ((val y : Nat) : Rat) / (val nd : Nat) = (val b.num : Nat) / (val b.den : Nat) := by
      rw [div_eq_div_iff hndq hdb]
      have : ((val y : Nat) : Rat) * (val b.den : Nat) * (val g : Nat) = (val b.num : Nat) * (val nd : Nat) * (val g : Nat) := by
        calc ((val y : Nat) : Rat) * (val b.den : Nat) * (val g : Nat)
            = ((val y : Nat) : Rat) * (val g : Nat) * (val b.den : Nat) := by ring
          _ = (val b.num : Nat) * ((val a.den : Nat) * (val b.den : Nat)) := by rw [q3]; ring
          _ = (val b.num : Nat) * (val nd : Nat) * (val g : Nat) := by rw [← q1]; ring
      exact mul_right_cancel₀ hGq this
    rw [hx', mul_div_assoc, hy']
    simp only [valQ, ha, Bool.false_eq_true, if_false]
    ring

theorem negate_WFQ (a : BigRat) (h : WFQ a) : WFQ (negate a) := h

/-- `a + b` for every sign of `a` -/
theorem add_valQ (a b : BigRat) (wa : WFQ a) (wb : WFQ b) (da : val a.den ≠ 0) (db : val b.den ≠ 0) :
    ∃ r, add a b = .ok r ∧ valQ r = valQ a + valQ b ∧ WFQ r ∧ val r.den ≠ 0 := by
  unfold add
  cases han : a.neg with
  | false =>
    simp only [Bool.false_eq_true, if_false]
    exact addPos_valQ a b han wa wb da db
  | true =>
    simp only [if_true]
    obtain ⟨r, hr, hv, hw, hd⟩ := addPos_valQ (negate a) (negate b) (by simp [negate, han]) wa wb da db
    refine ⟨negate r, by simp only [hr, bind, Except.bind], ?_, hw, hd⟩
    rw [negate_valQ, hv, negate_valQ, negate_valQ]; ring

theorem sub_valQ (a b : BigRat) (wa : WFQ a) (wb : WFQ b) (da : val a.den ≠ 0) (db : val b.den ≠ 0) :
    ∃ r, sub a b = .ok r ∧ valQ r = valQ a - valQ b ∧ WFQ r ∧ val r.den ≠ 0 := by
  obtain ⟨r, hr, hv, hw, hd⟩ := add_valQ a (negate b) wa wb da db
  exact ⟨r, hr, by rw [hv, negate_valQ]; ring, hw, hd⟩

end BigRat
end Fend
