#!/usr/bin/env python3
"""Regenerates MANIFEST.json from the table below and from which props/Cxx.py exist."""
import json, os, subprocess
V = os.path.dirname(os.path.dirname(os.path.abspath(__file__)))
ALL = [f"C{i:02d}" for i in range(1, 21)]
INFO = {
 "C01": dict(
   text="Lean 4 theorems (kernel-checked, no sorry, axioms propext/Classical.choice/Quot.sound only) that the model of BigUint add / multiply-accumulate / mul / cmp / sub equals Nat arithmetic for EVERY limb vector (any size, canonical or not); the model is tied to the Rust by a differential run on raw limb vectors through the verif-hooks feature (value + error class) with Python int arithmetic as independent search oracle. Proof is the right level because the quantifier (all operand sizes and all carry chains) is unbounded.",
   note="Trusted: Lean kernel + 3 standard axioms; hand-written model tied to code only by the correspondence run; python/Rust harness unverified. divmod/gcd/pow/BigRat/Complex layers are currently covered by correspondence + oracle only (theorems being added; see evidence.theorems for what is proved on a given run).",
   technique="Lean 4 refinement proof (BigUint -> Nat) + differential correspondence on raw limbs", ref="7/C01"),
 "C18": dict(
   text="Lean 4 theorems, for EVERY Unicode string: jsonDecode('\"' ++ escape s ++ '\"') = s against an RFC 8259 decoder written as the spec, escape output is printable ASCII, inline substitution reassembles to the input and every [[expr]] part carries exactly eval(expr) for an arbitrary evaluator, canonical string literals round-trip for both quote styles, and the documented escape table (decide). Tied to the Rust by differential runs: every Unicode scalar through json::escape_string (exhaustive in thorough), random mixtures, grammar-generated string literals through fend_core::evaluate, inline documents; Python json + an independent reading of the escape rules as search oracles.",
   note="Trusted: Lean kernel + 3 axioms; the RFC 8259 decoder in Model/Json.lean as the meaning of 'valid JSON that decodes to the text' (cross-checked against Python's json on every run); hand-written models tied to the code by correspondence only; evaluation of [[expr]] itself is a parameter.",
   technique="Lean 4 round-trip proofs (escape/decode, scanner invariant) + differential correspondence", ref="7/C18"),
 "C16": dict(
   text="Lean 4 theorems for EVERY date of year >= 1 and EVERY offset, against an independent ordinal-day calendar: next = ordinal+1 and stays real, prev(next d)=d, add n days then subtract n days is the identity and moves n ordinals, the weekday formula equals ordinal mod 7 (hence consecutive weekdays across all boundaries), - n months / years lands on the calendar-correct month or reports non-existence, accepted literals are real dates of year 1000..i32::MAX. Tied to the Rust by differential runs through fend_core::evaluate (date chains, literal grammar; every day 1000-9999 in the thorough tier) with Python datetime as independent search oracle.",
   note="Trusted: Lean kernel + 3 axioms; the ordinal calendar in Model/Date.lean as the meaning of 'proleptic Gregorian' (cross-checked against Python datetime on every run); model tied to the code by correspondence only. Literal completeness (every real date IS accepted) is carried by correspondence + decide examples, soundness is proved. BC dates are outside the property.",
   technique="Lean 4 refinement proof (date code -> ordinal calendar, omega) + differential correspondence", ref="7/C16"),
 "C10": dict(
   text="Lean 4 theorems for all arguments: fibonacci = the Fibonacci recurrence, factorial = n! (never fails), one-bit left/right shift = *2 and /2 on values for every limb vector, the rounding decision of floor/ceil/round yields the integer z with z <= x < z+1 / z-1 < x <= z / nearest with ties away from zero, and the greedy roman decomposition denotes n. Executable Lean models of nCr/nPr, mod, and/or/xor, multi-bit shifts, words, roman, char are diffed against the implementation on every run (raw limb vectors through the hooks, BigRat level, text level, and API level with arguments produced by cancelling histories) with Python int/Fraction arithmetic and independent text readers as search oracles.",
   note="Proved: fib, factorial, shl1/shr1, rounding decision, roman denotation. Carried by correspondence + oracle only (no theorem yet): bitwise and/or/xor, lshift_n/rshift_n composition, nCr/nPr, mod, to_words, char/codepoint, and the divmod that floor/ceil/round call. Trusted: Lean kernel + 3 axioms, harness/python.",
   technique="Lean 4 refinement proofs (BigUint -> Nat functions) + differential correspondence", ref="7/C10"),
 "C12": dict(
   text="Lean 4 theorem by mutual structural induction: for EVERY representable value (14 Value constructors, 17 Expr constructors, scopes and optional scopes nested to any depth, numbers with distributions / units / bases / formats, dates, strings, all 29 built-in functions) deserialize(serialize v ++ rest) = (v, rest), and the same for the whole variable table. The byte-level model is tied to the Rust by parsing the REAL serialized bytes of random statement histories with the model (it must reproduce them byte for byte), by comparing the image written after a real reload (order-independently), and by 7 behavioural probes per variable before and after the reload.",
   note="Trusted: Lean kernel + 3 axioms; Model/Serialize.lean is hand-written (tie: real bytes are parsed and re-emitted by the model on every run); 'behaves exactly as before' beyond structural equality of the reloaded table is covered by the probes (evaluation is a function of the table). HashMap iteration order is canonicalised before comparing.",
   technique="Lean 4 mutual-induction round-trip proof + correspondence on real serialized bytes", ref="7/C12"),
 "C14": dict(
   text="Lean 4 theorems about the deserializer model for ALL byte strings: a length field can never make a read succeed unless that many elements are really present (so a huge length ends in the short-read error), accepted strings are valid UTF-8 of honest length, a loaded Base is in 2..=36, a loaded big integer has at least one limb, a loaded date has year != 0 / month 1..12 / day 1..31; plus a regenerated table (Tie A) proving that no deserializer pre-allocates from a length it has just read. Tied to the Rust by running Context::deserialize_variables on every truncation, byte substitution, extreme length field and random bytes of valid images under a counting allocator and an address-space limit, comparing the ok/error class and the reloaded table with the model, then printing/applying/re-saving every loaded variable.",
   note="Partial: stack depth is runtime truth the model cannot exhibit — recursion depth is linear in the input and a ~10 KB image of nested tags overflows the stack (recorded as KNOWN-FINDING D5, not repaired). 'Loaded context can be evaluated without crashing' is carried by the use-phase of the correspondence run (with an interrupt deadline), not by a theorem. Trusted: Lean kernel + 3 axioms, translator/alloc_sites.py, harness.",
   technique="Lean 4 inversion lemmas over the deserializer model + regenerated allocation-site table + differential fault injection on images", ref="7/C14"),
 "C13": dict(
   text="Lean 4 theorems over a model of evaluate_preview_with_interrupt in which the evaluator is an ARBITRARY function (may mutate any context field, fail, or be interrupted): the context after a preview equals the context before it; an evaluator that can reach host callbacks only through the context fields invokes none during a preview; a returned preview is non-empty, not unit-typed, at most 50 bytes, not an echo of the input and free of control characters. The hypothesis 'callbacks only via context' is pinned to the source by a regenerated table of every read of random_u32 / get_exchange_rate (Tie A). Tied to the Rust by previewing every prefix of generated inputs on contexts built from all flag combinations, uninterrupted and with interrupts fired at several call counts, with counting rng / exchange-rate callbacks and before/after probes.",
   note="Trusted: Lean kernel + 3 axioms; translator/callback_sites.py (regex scan of function bodies); the harness's probe set as the observable state of a Context (variables, _/ans, separator style, C/F mode, custom units, handlers).",
   technique="Lean 4 proof parametric in the evaluator + regenerated callback-site table + differential correspondence", ref="7/C13"),
 "C20": dict(
   text="Lean 4 theorems over a byte-level model of the cache framing, the EU parser and the lookup, for ALL file contents: the EU path never panics (the only partial operation, split_at(3), is reached behind a boundary check; the ';' split is always on a boundary), every reported rate text is a contiguous piece of the file as presented, and therefore for EVERY truncation point of a good file a reported rate stands verbatim in the good file. Tied to the Rust by running the built fend binary on every prefix (sampled in quick), single-character substitutions incl. multi-byte characters, framing variants, non-UTF-8 and random edits of representative EU and UN cache files, comparing the rate it prints with the model's rate text and with the numbers that stand verbatim in the file.",
   note="Partial: str::parse::<f64> and is_normal are a parameter of the model (okRate); the UN parser is modelled and diffed but its no-panic/verbatim theorems are not proved yet (its slices follow a successful find of a longer ASCII needle); Unicode White_Space trimming is modelled by an explicit table. Representative cache files are constructed from the formats the parsers accept (no network). Trusted: Lean kernel + 3 axioms, python runner.",
   technique="Lean 4 proof (no-panic + infix/verbatim lemmas over bytes) + differential runs of the built binary on damaged caches", ref="7/C20"),
 "C19": dict(
   text="Lean 4 theorems over a model of Action::from_args and eval_exprs with the core evaluator and the file system as parameters: when every earlier expression succeeds the output is exactly what the core returns for the LAST expression in the context the earlier ones left (newline iff requested, nothing for ()/empty); the first failing expression yields status 1, 'Error: msg' on stderr and nothing is evaluated after it; the context is threaded from each expression to the next; help wins; plain positional words are joined by single spaces into one expression. Tied to the Rust by running the built binary on random argument lists (positional / -e / -f / -- / existing and missing files / flags), stdin mode and 15 well-formed and damaged config files, comparing stdout, stderr and exit status with the model fed with fend_core results computed in-process.",
   note="Partial: the toml crate and the ConfigVisitor decision logic are not modelled in Lean — configuration behaviour (absent/malformed -> defaults + diagnostic; unknown keys warned; recognised keys applied) is checked only by the binary-level stream against a hand-written expectation table. Trusted: Lean kernel + 3 axioms, python runner, the in-process core as oracle for expression results.",
   technique="Lean 4 proofs over a parametric CLI model + differential runs of the built binary", ref="7/C19"),
 "C17": dict(
   text="Lean 4 theorems over exact rationals for ALL distributions and ALL binary operations: arithmetic on dice is the push-forward of the product measure (prob (bop f a b) z = sum over x,y with f x y = z of p_x p_y), the listed outcomes are pairwise distinct, total probability multiplies (so stays 1), and roll yields a listed outcome for EVERY value of the random source and EVERY threshold function (the floating-point step is a parameter), and always yields something. Tied to the Rust by evaluating all NdM (N<=4, M<=12; more in thorough) and random dice arithmetic through fend_core, comparing the printed distribution, mean(...) and roll(...) under a harness-controlled random function at 0, 2^32-1, every cumulative threshold +-1 and random points with exact convolution (Python Fractions) and with the Lean model.",
   note="Partial: the two-decimal percentages come from f64 formatting (checked to within half a unit of the last digit against the exact value, not proved); the sampling threshold ((p as f64) * u32::MAX) as u32 is a parameter of the theorem and is reproduced with floats in the driver for the correspondence. new_die = N-fold convolution is checked by kernel decide on instances and by the correspondence run, not proved for all N, M. Trusted: Lean kernel + 3 axioms, harness.",
   technique="Lean 4 proofs over a list-of-(outcome,probability) model with core Rat + differential correspondence incl. controlled random source", ref="7/C17"),
 "C04": dict(
   text="Lean 4 theorems over exact rationals about the conversion algorithm (reduce every compound unit to base units with an accumulated scale, compare the base-unit exponents, multiply by the ratio of the scales), for ALL units with non-zero scales and ALL quantities: a conversion multiplies by the single ratio scale(a)/scale(b) and is linear, converting back returns the original quantity exactly (offsets included), going through an intermediate unit equals converting directly, plain celsius/fahrenheit/kelvin convert affinely and are scaled only inside sums; the concrete factors fixed by standards (SI, international yard and pound, binary and SI bytes, ...) are table theorems (decide +kernel) over the resolved table REGENERATED from the tree on every run. Tied to the Rust by converting random compound units (products, quotients, powers, prefixed spellings) there, back and via intermediates through fend_core and comparing the exact fractions with the model fed by the tree's own resolved table and with Python Fractions.",
   note="Trusted: translator/units*.py (parsing of builtin.rs and of @debug output), Lean kernel + 3 axioms. Irrational scale powers (e.g. sqrt of a scaled unit) and approximate units are excluded from exact comparison. D15 (`1 kg + (approx. 0) m` accepted) was repaired in /repo.",
   technique="Lean 4 algebraic proofs over a rational conversion model + regenerated standards table (decide +kernel) + differential correspondence", ref="7/C04"),
 "C11": dict(
   text="The quantifier is the finite unit table of the tree under test, so the table is REGENERATED on every run — raw tuples parsed from builtin.rs, and what the built tree resolves every singular/plural name to (exact rationals x pi^k and base-unit exponents, read from `@debug 1 <name>`) — and complete kernel evaluations (decide +kernel, no sampling) prove: every name resolves, singular = plural, short/long spellings agree, sqX = X2 = X^2 and cbX = X3 = X^3, and ~40 standards-defined factors. Lean theorems about the lookup model, for every table and custom-unit configuration: custom units take precedence, a prefixed reading is produced only when the prefix's and the unit's rules allow it, the first definition of a doubly-defined name wins. The lookup model runs over the regenerated raw table and is diffed against the implementation on every name x case variant x long/short prefix, with custom units of every attribute kind and both C/F modes.",
   note="Trusted: translator/units.py (regex extraction of the const tables; parsing of @debug output), Lean kernel + 3 axioms. Approximate units (pi^2, ln) are only checked to resolve, not compared. Observed and NOT claimed as a defect: a custom `is-long-prefix` unit never acts as a prefix (prefix lookups skip custom units); `gal`/`gals` resolve to different definitions because `gal` is defined twice (first definition wins).",
   technique="regenerated tables + Lean decide +kernel over them + Lean lemmas on the lookup model + exhaustive differential lookup", ref="7/C11"),
}
def main():
    hooks = subprocess.check_output("git -C /repo log --format=%H --grep='verif-hooks' --grep='verif hooks' -i", shell=True, text=True).split()
    checks, na = [], []
    for pid in ALL:
        if os.path.exists(os.path.join(V, "props", pid + ".py")) and pid in INFO:
            i = INFO[pid]
            checks.append({
                "property_id": pid,
                "quick_cmd": f"./check {pid} --tier quick",
                "thorough_cmd": f"./check {pid} --tier thorough",
                "evidence_file": f"/verif/evidence/{pid}.json",
                "replay_cmd_template": f"./check {pid} --replay {{path}}",
                "engine": "lean4-proof+correspondence",
                "level_claimed": {"category": "proof", "text": i["text"], "design_ref": "DESIGN.md section " + i["ref"]},
                "level_note": i["note"],
                "technique": i["technique"],
            })
        else:
            na.append({"property_id": pid, "reason": "not claimed yet: model/theorems for this property are not built at this commit (construction order in DESIGN.md section 9); the technique applies"})
    m = {
        "version": 1,
        "setup_cmd": "./setup.sh",
        "hooks": {
            "guard": "cargo feature `verif-hooks` on fend-core (off by default)",
            "enable": "harness/Cargo.toml path-depends on /repo/core with features=[\"verif-hooks\"]; cargo build --offline in /verif/harness",
            "baseline_off_cmd": "cd /repo && cargo test --workspace --no-fail-fast --offline",
            "source_commits": hooks,
            "add_only": True,
        },
        "engines": [{"name": "lean4-proof+correspondence", "path": "/verif/check",
                     "serves_properties": [c["property_id"] for c in checks],
                     "kind_free_text": "Lean 4 theorems over hand-written executable models (lean/FendModel), regenerated tables (translator/), differential correspondence against the real code (harness/), python driver (vlib/, props/)"}],
        "checks": checks,
        "not_applicable": na,
        "notes": "See DESIGN.md. known_findings.json lists repaired (fixed:) and recorded defects.",
    }
    json.dump(m, open(os.path.join(V, "MANIFEST.json"), "w"), indent=1)
    print("claimed:", [c["property_id"] for c in checks])
if __name__ == "__main__":
    main()
