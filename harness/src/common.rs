//! Shared helpers: interrupt implementations, error classification, raw-value text encoding,
//! panic capture.
use std::cell::Cell;
use std::panic::{self, AssertUnwindSafe};

pub use fend_core::verif_hooks::{RawRat, RawUint};

/// which phase of a multi-phase case is running (reported by the watchdog on a timeout)
pub static PHASE: std::sync::atomic::AtomicUsize = std::sync::atomic::AtomicUsize::new(0);

/// Never fires, counts polls.
#[derive(Default)]
pub struct Counting {
    pub polls: Cell<u64>,
    pub fire_at: Cell<u64>, // u64::MAX = never
}
impl Counting {
    pub fn never() -> Self {
        Self { polls: Cell::new(0), fire_at: Cell::new(u64::MAX) }
    }
    pub fn at(k: u64) -> Self {
        Self { polls: Cell::new(0), fire_at: Cell::new(k) }
    }
}
impl fend_core::Interrupt for Counting {
    fn should_interrupt(&self) -> bool {
        let n = self.polls.get();
        self.polls.set(n + 1);
        n >= self.fire_at.get()
    }
}

static POLL_CAP: std::sync::OnceLock<u64> = std::sync::OnceLock::new();

/// Fires once a deadline has passed (checked every 64th poll to keep polling cheap).
pub struct Deadline {
    pub polls: Cell<u64>,
    pub until: std::time::Instant,
}
impl Deadline {
    pub fn ms(ms: u64) -> Self {
        Self { polls: Cell::new(0), until: std::time::Instant::now() + std::time::Duration::from_millis(ms) }
    }
}
impl fend_core::Interrupt for Deadline {
    fn should_interrupt(&self) -> bool {
        let n = self.polls.get();
        self.polls.set(n + 1);
        // HARNESS_USE_POLL_CAP=<n>: also stop after n polls (used to tell an unbounded recursion, which polls on every level and
        // is stopped by the cap before the stack runs out, from any other way of dying)
        let cap = *POLL_CAP.get_or_init(|| std::env::var("HARNESS_USE_POLL_CAP").ok().and_then(|v| v.parse().ok()).unwrap_or(0));
        if cap > 0 && n >= cap {
            return true;
        }
        n % 64 == 63 && std::time::Instant::now() >= self.until
    }
}

/// Map a `FendError` display text to the small error enum the Lean model uses.
pub fn classify(msg: &str) -> &'static str {
    let m = msg;
    if m == "division by zero" { "divideByZero" }
    else if m == "zero to the power of zero is undefined" { "zeroPowZero" }
    else if m == "exponent too large" { "exponentTooLarge" }
    else if m.contains("must lie in the interval") { "outOfRange" }
    else if m == "value is too large" { "valueTooLarge" }
    else if m == "negative numbers are not allowed" { "negativeNumbers" }
    else if m == "cannot convert fraction to integer" { "fractionToInteger" }
    else if m.ends_with("is not an integer") { "mustBeInteger" }
    else if m == "modulo by zero" { "moduloByZero" }
    else if m == "modulo is only supported for positive integers" { "moduloForPositiveInts" }
    else if m == "roots of negative numbers are not supported" { "rootsOfNegative" }
    else if m == "cannot compute non-integer or negative roots" { "nonIntegerNegRoots" }
    else if m == "failed to deserialize object" { "deser" }
    else if m == "interrupted" { "interrupted" }
    else { "other" }
}

pub fn parse_uint(s: &str) -> Option<RawUint> {
    if let Some(r) = s.strip_prefix('S') {
        Some((true, vec![r.parse().ok()?]))
    } else if let Some(r) = s.strip_prefix('L') {
        if r.is_empty() {
            return Some((false, vec![]));
        }
        let mut v = Vec::new();
        for p in r.split(',') {
            v.push(p.parse().ok()?);
        }
        Some((false, v))
    } else {
        None
    }
}

pub fn show_uint(r: &RawUint) -> String {
    if r.0 {
        format!("S{}", r.1[0])
    } else {
        let parts: Vec<String> = r.1.iter().map(|x| x.to_string()).collect();
        format!("L{}", parts.join(","))
    }
}

/// `+S1/S2`
pub fn parse_rat(s: &str) -> Option<RawRat> {
    let neg = match s.as_bytes().first()? {
        b'+' => false,
        b'-' => true,
        _ => return None,
    };
    let (n, d) = s[1..].split_once('/')?;
    Some((neg, parse_uint(n)?, parse_uint(d)?))
}

pub fn show_rat(r: &RawRat) -> String {
    format!("{}{}/{}", if r.0 { '-' } else { '+' }, show_uint(&r.1), show_uint(&r.2))
}

/// Run `f`, turning a panic into `Err(payload text)`.
pub fn guarded<T>(f: impl FnOnce() -> T) -> Result<T, String> {
    match panic::catch_unwind(AssertUnwindSafe(f)) {
        Ok(v) => Ok(v),
        Err(p) => {
            let msg = if let Some(s) = p.downcast_ref::<&str>() {
                (*s).to_string()
            } else if let Some(s) = p.downcast_ref::<String>() {
                s.clone()
            } else {
                "<non-string panic>".to_string()
            };
            Err(msg)
        }
    }
}

pub fn silence_panics() {
    panic::set_hook(Box::new(|_| {}));
}
