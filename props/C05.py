"""C05 — dimensional analysis is sound: incompatible quantities never combine."""
import re, time
from fractions import Fraction as F
from vlib import core, unitcases
from translator import units, units_resolved

MODULE = "FendModel.Props.C05"
REL = "FendModel/Props/C05.lean"

INCOMPAT = re.compile(r"are incompatible|expected a unitless number")

class T:
    __slots__ = ("expr", "model", "dims", "val", "depth")
    def __init__(s, expr, model, dims, val, depth):
        s.expr, s.model, s.dims, s.val, s.depth = expr, model, dims, val, depth

def phys_of(d):
    return dict(unitcases.reduce_dims(d))

def same(a, b):
    return {k: v for k, v in a.items() if v} == {k: v for k, v in b.items() if v}

def debug_dims(out):
    """base-unit exponents of an `@debug` answer, whatever the number looks like; None if unparseable"""
    if not out.startswith("ok "):
        return None
    body = re.sub(r"\[([0-9, ]+)\]", units._limbs, out[3:])     # multi-limb integers print as limb lists
    k = body.rfind(" (base ")
    if k < 0:
        return None
    body = body[:k]
    if body.endswith("(unitless)"):
        return {}
    dims = {}
    comps = list(units.COMP.finditer(body))
    if not comps:
        return None
    for c in comps:
        e = F(c.group(3)) if c.group(3) else F(1)
        try:
            _, _, d = units.parse_scale_base(c.group(2))
        except Exception:
            return None
        for b, x in d.items():
            dims[b] = dims.get(b, 0) + x * e
    return {k: v for k, v in dims.items() if v != 0}

class Gen:
    def __init__(self, ctx, ok, ids):
        self.r = ctx.rng
        self.ok, self.ids = ok, ids
        self.names = [n for n, (s, pi, d) in ok.items() if d and s != 0 and (re.fullmatch(r"[A-Za-z_][A-Za-z0-9_]*", n) or n in ("°C", "°F"))
                      and n not in ("in", "to", "as", "of", "per", "mod", "xor", "and", "or", "i", "e", "pi", "true", "false", "light", "lights")]      # `light <unit>` is special syntax
        # a name defined twice (gal / gals, …) is displayed in a spelling that reads back as the OTHER unit: leave those out
        table, _, _ = units.raw_table()
        twice = set()
        for _, sg, pl, _ in table:
            if sg in ok and pl in ok and ok[sg] != ok[pl]:
                twice |= {sg, pl}
        self.names = [n for n in self.names if n not in twice]
        self.classes = {}
        for n in self.names:
            self.classes.setdefault(unitcases.reduce_dims(ok[n][2]), []).append(n)
        self.common = [n for n in ("m", "s", "kg", "ft", "hour", "K", "°C", "°F", "A", "N", "J", "W", "Hz", "L", "acre", "mph", "lb", "cm", "USD", "EUR", "byte", "bit", "mol", "cd", "Pa", "V", "ohm", "minute", "mile", "kWh", "celsius", "fahrenheit", "kelvin") if n in self.names]

    def name(self):
        r = self.r
        return r.choice(self.common) if r.random() < 0.6 else r.choice(self.names)

    def leaf(self, n=None, x=None):
        r = self.r
        n = n or self.name()
        s, pi, d = self.ok[n]
        if x is None:
            x = r.choice([F(1), F(2), F(3), F(5), F(7, 2), F(12), F(1, 4), F(r.randint(1, 99))])
        xs = str(x.numerator) if x.denominator == 1 else f"({x.numerator}/{x.denominator})"
        val = x * s if pi == 0 and not (set(d) & {"celsius", "fahrenheit"}) else None
        return T(f"({xs} {n})", ["L", unitcases.dims_str(d, self.ids)], phys_of(d), val, 0)

    def number(self, x):
        x = F(x)
        xs = str(x.numerator) if x.denominator == 1 else f"({x.numerator}/{x.denominator})"
        return T(xs, ["L", "-"], {}, x, 0)

    def like(self, t):
        """something of the same dimension as t"""
        r = self.r
        key = tuple(sorted((b, e) for b, e in (t.dims or {}).items() if e))
        if key in self.classes and r.random() < 0.8:
            return self.leaf(r.choice(self.classes[key]))
        k = r.choice([2, 3, 10])
        return T(f"({k} * {t.expr})", ["M", "L", "-"] + t.model, t.dims, None if t.val is None else k * t.val, t.depth + 1)

    def unitless(self):
        """an expression that is a pure number (possibly through cancelling units), with its value"""
        r = self.r
        c = r.random()
        if c < 0.4:
            return self.number(r.choice([2, 3, -1, -2, F(1, 2), F(3, 2), F(1, 3), 0, 4]))
        n = self.name()
        s, pi, d = self.ok[n]
        if pi != 0 or set(d) & {"celsius", "fahrenheit"}:
            return self.number(2)
        a, b = r.choice([(6, 2), (4, 2), (3, 1), (2, 1), (3, 6)])
        key = unitcases.reduce_dims(d)
        m = r.choice(self.classes[key])
        s2, pi2, d2 = self.ok[m]
        q = F(a) * s / (F(b) * s2) if pi2 == 0 and not (set(d2) & {"celsius", "fahrenheit"}) else None
        if q is None or q.denominator > 6 or abs(q.numerator) > 8:
            m, q, d2 = n, F(a, b), d
        return T(f"(({a} {n}) / ({b} {m}))", ["D", "L", unitcases.dims_str(d, self.ids), "L", unitcases.dims_str(d2, self.ids)], {}, q, 1)

    def tree(self, depth):
        r = self.r
        if depth <= 0 or r.random() < 0.15:
            return self.leaf()
        a = self.tree(depth - 1)
        if a.dims is None:            # already failing: wrap it so that the failure must propagate
            b = self.leaf()
            return T(f"({a.expr} * {b.expr})", ["M"] + a.model + b.model, None, None, a.depth + 1)
        c = r.random()
        if c < 0.22:
            b = self.tree(depth - 1 - r.randint(0, 1))
            if b.dims is None:
                return T(f"({a.expr} * {b.expr})", ["M"] + a.model + b.model, None, None, max(a.depth, b.depth) + 1)
            dims = {k: a.dims.get(k, 0) + b.dims.get(k, 0) for k in set(a.dims) | set(b.dims)}
            val = a.val * b.val if a.val is not None and b.val is not None else None
            return T(f"({a.expr} * {b.expr})", ["M"] + a.model + b.model, dims, val, max(a.depth, b.depth) + 1)
        if c < 0.42:
            b = self.tree(depth - 1 - r.randint(0, 1))
            if b.dims is None:
                return T(f"({a.expr} / {b.expr})", ["D"] + a.model + b.model, None, None, max(a.depth, b.depth) + 1)
            dims = {k: a.dims.get(k, 0) - b.dims.get(k, 0) for k in set(a.dims) | set(b.dims)}
            val = a.val / b.val if a.val is not None and b.val is not None and b.val != 0 else None
            return T(f"({a.expr} / {b.expr})", ["D"] + a.model + b.model, dims, val, max(a.depth, b.depth) + 1)
        if c < 0.57:
            e = self.unitless() if r.random() < 0.85 else self.leaf()
            q = e.val if not e.dims else F(1)
            dims = {k: v * q for k, v in a.dims.items()} if not any(e.dims.values()) else None
            val = a.val ** int(q) if (dims is not None and a.val is not None and q.denominator == 1 and (a.val != 0 or q > 0) and abs(q) <= 4) else None
            return T(f"({a.expr} ^ {e.expr})", ["P", unitcases.q(q)] + a.model + e.model, dims, val, max(a.depth, e.depth) + 1)
        if c < 0.80:
            sub = r.random() < 0.4
            mode = r.random()
            if mode < 0.5:
                b = self.like(a)
            elif mode < 0.6:      # an exact zero of any dimension on the right: the one permitted no-op
                n = self.name()
                d = self.ok[n][2]
                zs = r.choice(["0", "0.0", "(3 - 3)"])
                if r.random() < 0.3:
                    b = T(zs, ["L", "-"], {}, F(0), 0)
                else:
                    b = T(f"({zs} {n})", ["L", unitcases.dims_str(d, self.ids)], phys_of(d), F(0), 0)
                op = "-" if sub else "+"
                return T(f"({a.expr} {op} {b.expr})", ["A", "1"] + a.model + b.model, a.dims, a.val, a.depth + 1)
            elif mode < 0.7:      # zero on the LEFT is no excuse
                n = self.name()
                d = self.ok[n][2]
                z = T(f"(0 {n})", ["L", unitcases.dims_str(d, self.ids)], phys_of(d), F(0), 0)
                okd = same(z.dims, a.dims)
                if not okd and a.val is None:
                    return a          # a's value is not tracked: it could be an exact zero, which may be added to anything
                return T(f"({z.expr} + {a.expr})", ["A", "0"] + z.model + a.model, z.dims if okd else None, a.val if okd else None, a.depth + 1)
            else:
                b = self.tree(depth - 1 - r.randint(0, 1))
                if b.dims is None:
                    return T(f"({a.expr} + {b.expr})", ["A", "0"] + a.model + b.model, None, None, max(a.depth, b.depth) + 1)
                if b.val is None and not same(a.dims, b.dims):
                    # the value of b is not tracked (a function result may be an EXACT zero, which is the permitted no-op): use an operand whose value is known
                    b = self.leaf()
            okd = same(a.dims, b.dims)
            # keep values positive and non-zero: subtract only what is known to be smaller
            if sub and not (a.val is not None and b.val is not None and a.val > b.val and okd):
                sub = False
            if b.val is not None and b.val == 0:
                okd = True; z = "1"
            else:
                z = "0"
            val = None
            if okd and a.val is not None and b.val is not None:
                val = a.val - b.val if sub else a.val + b.val
            return T(f"({a.expr} {'-' if sub else '+'} {b.expr})", ["A", z] + a.model + b.model, a.dims if okd else None, val, max(a.depth, b.depth) + 1)
        if c < 0.92:
            # conversion: the right-hand side is a unit expression of value one
            mode = r.random()
            key = tuple(sorted((b, e) for b, e in a.dims.items() if e))
            if mode < 0.45 and key in self.classes:
                n = r.choice(self.classes[key])
                tgt, tm, td = n, ["L", unitcases.dims_str(self.ok[n][2], self.ids)], phys_of(self.ok[n][2])
            elif mode < 0.7 and key:
                parts, pm, first = [], [], True
                for b, e in key:
                    parts.append(f"{b}^({unitcases.q(e)})")
                tgt = " ".join(parts)
                tm = None
                for b, e in key:
                    leaf = ["P", unitcases.q(e), "L", unitcases.dims_str({b: F(1)}, self.ids), "L", "-"]
                    tm = leaf if tm is None else ["M"] + tm + leaf
                td = dict(key)
            else:
                n1, n2 = self.name(), self.name()
                if r.random() < 0.5:
                    tgt, tm, td = n1, ["L", unitcases.dims_str(self.ok[n1][2], self.ids)], phys_of(self.ok[n1][2])
                else:
                    d1, d2 = self.ok[n1][2], self.ok[n2][2]
                    tgt = f"{n1} {n2}^-1"
                    tm = ["M", "L", unitcases.dims_str(d1, self.ids), "P", "-1/1", "L", unitcases.dims_str(d2, self.ids), "L", "-"]
                    p1, p2 = phys_of(d1), phys_of(d2)
                    td = {k: p1.get(k, 0) - p2.get(k, 0) for k in set(p1) | set(p2)}
            okd = same(a.dims, td)
            return T(f"({a.expr} to {tgt})", ["C"] + a.model + tm, td if okd else None, None, a.depth + 1)
        # functions that need pure numbers
        arg = a if r.random() < 0.6 else self.unitless()
        okd = not any(arg.dims.values())
        if r.random() < 0.5:
            f = r.choice(["ln", "log10", "log2", "exp", "factorial-ish"])
            expr = f"({arg.expr})!" if f == "factorial-ish" else f"{f}({arg.expr})"
            return T(f"({expr})", ["F"] + arg.model, {} if okd else None, None, arg.depth + 1)
        other = self.unitless() if r.random() < 0.6 else self.leaf()
        okd2 = okd and not any(other.dims.values())
        op = r.choice(["mod", "xor", "and", "or", "<<", ">>", "nCr", "permute"])
        if r.random() < 0.5:
            return T(f"({arg.expr} {op} {other.expr})", ["G"] + arg.model + other.model, {} if okd2 else None, None, max(arg.depth, other.depth) + 1)
        return T(f"({other.expr} {op} {arg.expr})", ["G"] + other.model + arg.model, {} if okd2 else None, None, max(arg.depth, other.depth) + 1)

def show(d):
    return " ".join(f"{b}^{e}" for b, e in sorted(d.items()) if e) or "(dimensionless)"

def run(ctx):
    quick = ctx.tier == "quick"
    h = ctx.harness()
    if h is None:
        ctx.proof_failures.append({"file": "harness", "decl": "harness build", "line": 0, "msg": getattr(ctx, "harness_error", "")})
        return ctx.finish()
    ctx.lean_build([MODULE])
    ctx.audit(MODULE, REL)
    if not quick:
        ctx.leanchecker(MODULE)
    t0 = time.time()
    ok, ids = unitcases.load(ctx, h, with_prefixes=False, quick=quick)
    if len(ids) > 40:
        ctx.model_disagreements.append({"stream": "trees", "input": "base-unit count", "impl": str(len(ids)), "model": "40", "spec": "driver compares base ids 0..39"})
    g = Gen(ctx, ok, ids)
    inv = {v: k for k, v in ids.items()}
    N = 3000 if quick else 60000
    trees = [g.tree(ctx.rng.choice([1, 2, 2, 3, 3, 4, 5])) for _ in range(N)]
    # fixed shapes the statement names
    def fixed(expr, model, dims):
        trees.append(T(expr, model, dims, None, 1))
    L = lambda n: ["L", unitcases.dims_str(ok[n][2], ids)]
    need = ("lb", "m", "s", "K", "°C")
    if not all(n in ok for n in need):
        ctx.model_disagreements.append({"stream": "trees", "input": "fixed shapes", "impl": str([n for n in need if n not in ok]), "model": "", "spec": "unit names used by the fixed shapes are missing from the resolved table"})
    else:
        fixed("(1 lb + (sqrt 2 - sqrt 2) m)", ["A", "0"] + L("lb") + L("m"), None)          # an APPROXIMATE zero is not the permitted no-op
        fixed("(1 lb + (sin(pi)) m)", ["A", "1"] + L("lb") + L("m"), phys_of(ok["lb"][2]))   # sin(pi) is an exact zero
        fixed("(1 lb + 0 m)", ["A", "1"] + L("lb") + L("m"), phys_of(ok["lb"][2]))
        fixed("(1 lb - 0.0 s)", ["A", "1"] + L("lb") + L("s"), phys_of(ok["lb"][2]))
        fixed("(0 lb + 1 m)", ["A", "0"] + L("lb") + L("m"), None)
        fixed("((1 °C) (1 m) to K)", ["C", "M"] + L("°C") + L("m") + L("K"), None)
        fixed("((1 °C) (1 m) + 1 K)", ["A", "0", "M"] + L("°C") + L("m") + L("K"), None)
        fixed("(1 K + (1 °C) (1 m))", ["A", "0"] + L("K") + ["M"] + L("°C") + L("m"), None)
        fixed("((1 °C) (1 K) to K)", ["C", "M"] + L("°C") + L("K") + L("K"), None)
        fixed("(((2 °C) / (1 K)) to 1)", ["C", "D"] + L("°C") + L("K") + ["L", "-"], {})
        fixed("((2 m)^(1 m))", ["P", "1/1"] + L("m") + L("m"), None)
        fixed("((2 m)^((1 m) / (1 m)))", ["P", "1/1"] + L("m") + ["D"] + L("m") + L("m"), phys_of(ok["m"][2]))
        fixed("((2 lb)^((4 m) / (2 m)))", ["P", "2/1"] + L("lb") + ["D"] + L("m") + L("m"), {"kilogram": F(2)})
        fixed("(2^(1 s))", ["P", "1/1", "L", "-"] + L("s"), None)
    # the same unit NAMES with different exponents are different dimensions (sums, differences, conversions)
    for _ in range(150 if quick else 3000):
        n1, n2 = g.name(), g.name()
        d1, d2 = ok[n1][2], ok[n2][2]
        if not any(phys_of(d1).values()) or not any(phys_of(d2).values()):
            continue
        l1, l2 = ["L", unitcases.dims_str(d1, ids)], ["L", unitcases.dims_str(d2, ids)]
        e1, e2 = ctx.rng.sample([1, 2, 3, -1, -2], 2)
        pw = lambda m, e: ["P", f"{e}/1"] + m + ["L", "-"]
        op = ctx.rng.choice(["+", "-"])
        fixed(f"(((2 {n1})^{e1}) {op} ((3 {n1})^{e2}))", ["A", "0"] + pw(l1, e1) + pw(l1, e2), None)
        fixed(f"(((5 {n1}) / (2 {n2})) to {n1} {n2}^-2)", ["C", "D"] + l1 + l2 + ["M"] + l1 + pw(l2, -2), None if phys_of(d2) else None)
        fixed(f"(((5 {n1}) (2 {n2})) to {n1}^2 {n2})", ["C", "M"] + l1 + l2 + ["M"] + pw(l1, 2) + l2, None)
        fixed(f"(((5 {n1})^2 / (2 {n1})) + (1 {n1}))", ["A", "0", "D"] + pw(l1, 2) + l1 + l1, phys_of(d1))
    exprs = ["@debug " + t.expr for t in trees]
    outs = ctx.run_lines_robust(h, ["eval"], exprs, env={"HARNESS_LINE_TIMEOUT_S": "20"})
    mouts = ctx.run_lines(core.DRIVER, ["units"], ["tree " + " ".join(t.model) for t in trees], timeout=900)[1]
    dist = {"impl_ok": 0, "impl_incompatible": 0, "impl_other_error": 0, "expected_ok": 0, "expected_incompatible": 0, "depth": {}, "display_checked": 0, "display_inconclusive": 0}
    second, second_idx = [], []
    for i, (t, o, mo) in enumerate(zip(trees, outs, mouts)):
        dist["depth"][t.depth] = dist["depth"].get(t.depth, 0) + 1
        # the Lean model and the python calculus are two writings of the same physics: they must agree
        if t.dims is None:
            dist["expected_incompatible"] += 1
            if mo != "incompatible":
                ctx.model_disagreements.append({"stream": "trees", "input": t.expr, "impl": "python calculus: incompatible", "model": mo, "spec": "Lean dimsOf vs python dimension calculus"}); continue
        else:
            dist["expected_ok"] += 1
            want = "ok " + unitcases.dims_str({b: e for b, e in t.dims.items() if e}, ids)
            if mo != want:
                ctx.model_disagreements.append({"stream": "trees", "input": t.expr, "impl": "python calculus: " + want, "model": mo, "spec": "Lean dimsOf vs python dimension calculus"}); continue
        if o.startswith("ok "):
            dist["impl_ok"] += 1
            if t.dims is None:
                ctx.spec_failures.append({"stream": "trees", "input": t.expr, "impl": o[:200], "model": "incompatible", "spec": "combining quantities of different dimension (or giving a dimensioned argument where a pure number is needed) is an error, never a number"}); continue
            got = debug_dims(o)
            if got is None:
                ctx.model_disagreements.append({"stream": "trees", "input": t.expr, "impl": o[:200], "model": mo, "spec": "unreadable @debug answer"}); continue
            if not same(phys_of(got), t.dims):
                ctx.spec_failures.append({"stream": "trees", "input": t.expr, "impl": o[:200] + "  => " + show(phys_of(got)), "model": show(t.dims), "spec": "the dimension of a result is the one physics assigns (exponents add under *, subtract under /, scale under ^)"}); continue
            second.append(t.expr); second_idx.append(i)
        elif INCOMPAT.search(o):
            dist["impl_incompatible"] += 1
            if t.dims is not None:
                ctx.spec_failures.append({"stream": "trees", "input": t.expr, "impl": o[:200], "model": show(t.dims), "spec": "quantities of the SAME dimension combine; the result has the dimension physics assigns"})
        else:
            dist["impl_other_error"] += 1      # overflow, non-integer factorial, complex roots, …: not about dimensions
    # what the user sees: the displayed (simplified) unit string of each successful result has the same dimension
    if quick:
        second, second_idx = second[:800], second_idx[:800]
    plain = ctx.run_lines_robust(h, ["eval"], second, env={"HARNESS_LINE_TIMEOUT_S": "20"})
    ustr, uidx = [], []
    for i, o in zip(second_idx, plain):
        m = re.match(r"ok (?:approx\. )?(-?[0-9][0-9.]*(?:e-?[0-9]+)?)(?: (.+))?$", o)
        if not m:
            dist["display_inconclusive"] += 1; continue
        ustr.append("@debug 1 " + (m.group(2) or "")); uidx.append(i)
    back = ctx.run_lines_robust(h, ["eval"], ustr, env={"HARNESS_LINE_TIMEOUT_S": "20"})
    for i, u, o in zip(uidx, ustr, back):
        got = debug_dims(o)
        if got is None:
            dist["display_inconclusive"] += 1; continue
        dist["display_checked"] += 1
        if not same(phys_of(got), trees[i].dims):
            ctx.spec_failures.append({"stream": "display", "input": trees[i].expr, "impl": f"displayed unit `{u[9:]}` => " + show(phys_of(got)), "model": show(trees[i].dims), "spec": "the displayed (simplified) result has the dimension physics assigns"})
    ctx.record_stream("trees", "random expression trees (depth <= 5) over the unit names of the regenerated table: products, quotients, rational powers (exponent literal or a cancelling unit ratio or a "
                      "dimensioned quantity), sums and differences (same dimension / different / exact zero on the right / zero on the left), conversions to named, base-unit and compound targets, "
                      "pure-number functions (ln log exp ! mod xor and or << >> nCr permute); `@debug` of the implementation vs the Lean tree model (dimsOf) vs an independent python dimension calculus; "
                      "then the displayed unit string of each successful result is resolved again and its dimension compared",
                      len(exprs) + len(second) + len(ustr), len(set(exprs)), dist, exprs[:3], time.time() - t0)
    return ctx.finish(rule="quick: 3000 trees + fixed shapes, 800 displayed results; thorough: 60000 trees, all displayed results; distinct = distinct expressions")

def replay(ctx, rep):
    print(rep["first"]); return 0
