import FendModel.Proofs.SerializeLeaf

namespace Fend.Ser

mutual
def sizeV : Value → Nat
  | .fn _ e s => sizeE e + sizeO s + 1
  | .object kvs => sizeK kvs + 1
  | _ => 1
def sizeK : KVs → Nat
  | .nil => 1
  | .cons _ v r => sizeV v + sizeK r + 1
def sizeE : Expr → Nat
  | .literal v => sizeV v + 1
  | .ident _ => 1
  | .parens e | .unaryMinus e | .unaryPlus e | .unaryDiv e | .factorial e => sizeE e + 1
  | .bop _ a b | .apply a b | .applyFunctionCall a b | .applyMul a b | .as_ a b | .statements a b
  | .equality _ a b => sizeE a + sizeE b + 1
  | .fn _ e | .of_ _ e | .assign _ e => sizeE e + 1
def sizeS : Scope → Nat
  | .mk _ e vs inner => sizeE e + sizeO vs + sizeO inner + 1
def sizeO : OptScope → Nat
  | .none => 1
  | .some s => sizeS s + 1
end

-- representable: what the evaluator can build and `serialize` can write
mutual
def RepV : Value → Prop
  | .num n => NumberRep n
  | .builtin i => i < builtinNames.length
  | .format f => FmtRep f
  | .dp | .sf | .unit | .bool _ => True
  | .base b => BaseRep b
  | .fn p e s => StrRep p ∧ RepE e ∧ RepO s
  | .object kvs => U64 kvs.length ∧ RepK kvs
  | .string s => StrRep s
  | .month m => 1 ≤ m ∧ m ≤ 12
  | .dayOfWeek d => d ≤ 6
  | .date d => DateRep d
def RepK : KVs → Prop
  | .nil => True
  | .cons k v r => StrRep k ∧ RepV v ∧ RepK r
def RepE : Expr → Prop
  | .literal v => RepV v
  | .ident s => StrRep s
  | .parens e | .unaryMinus e | .unaryPlus e | .unaryDiv e | .factorial e => RepE e
  | .bop op a b => op ≤ 13 ∧ RepE a ∧ RepE b
  | .apply a b | .applyFunctionCall a b | .applyMul a b | .as_ a b | .statements a b
  | .equality _ a b => RepE a ∧ RepE b
  | .fn s e | .of_ s e | .assign s e => StrRep s ∧ RepE e
def RepS : Scope → Prop
  | .mk i e vs inner => StrRep i ∧ RepE e ∧ RepO vs ∧ RepO inner
def RepO : OptScope → Prop
  | .none => True
  | .some s => RepS s
end

end Fend.Ser

namespace Fend.Ser

/-- read the tag byte and walk down the `if k = …` ladder to the matching arm -/
macro "tag" : tactic =>
  `(tactic| (dsimp only; rw [deU8_cons, andThen_ok]; repeat (first | rw [if_pos rfl] | rw [if_neg (by decide)])))

/-- normalise `(… ++ …) ++ rest` on the serialised side only -/
macro "assoc" : tactic =>
  `(tactic| simp only [List.cons_append, List.nil_append, List.append_assoc])

theorem sizeV_pos (v : Value) : 1 ≤ sizeV v := by cases v <;> simp [sizeV]
theorem sizeE_pos (e : Expr) : 1 ≤ sizeE e := by cases e <;> simp [sizeE]
theorem sizeK_pos (k : KVs) : 1 ≤ sizeK k := by cases k <;> simp [sizeK]
theorem sizeS_pos (s : Scope) : 1 ≤ sizeS s := by cases s; simp [sizeS]
theorem sizeO_pos (o : OptScope) : 1 ≤ sizeO o := by cases o <;> simp [sizeO]

mutual
theorem deValue_ser : ∀ (v : Value) (fuel : Nat) (rest : Bytes), RepV v → sizeV v ≤ fuel →
    deValue fuel (serValue v ++ rest) = .ok (v, rest)
  | .num n, fuel, rest, h, hf => by
    obtain ⟨f, rfl⟩ : ∃ f, fuel = f + 1 := ⟨fuel - 1, by simp [sizeV] at hf; omega⟩
    rw [serValue]; assoc; rw [deValue]; tag
    rw [deNumber_ser n h, andThen_ok]
  | .builtin i, fuel, rest, h, hf => by
    obtain ⟨f, rfl⟩ : ∃ f, fuel = f + 1 := ⟨fuel - 1, by simp [sizeV] at hf; omega⟩
    rw [serValue]; assoc; rw [deValue]; tag
    rw [deBuiltin_ser i h, andThen_ok]
  | .format fm, fuel, rest, h, hf => by
    obtain ⟨f, rfl⟩ : ∃ f, fuel = f + 1 := ⟨fuel - 1, by simp [sizeV] at hf; omega⟩
    rw [serValue]; assoc; rw [deValue]; tag
    rw [deFmt_ser fm h, andThen_ok]
  | .dp, fuel, rest, _, hf => by
    obtain ⟨f, rfl⟩ : ∃ f, fuel = f + 1 := ⟨fuel - 1, by simp [sizeV] at hf; omega⟩
    rw [serValue]; assoc; rw [deValue]; tag
  | .sf, fuel, rest, _, hf => by
    obtain ⟨f, rfl⟩ : ∃ f, fuel = f + 1 := ⟨fuel - 1, by simp [sizeV] at hf; omega⟩
    rw [serValue]; assoc; rw [deValue]; tag
  | .base b, fuel, rest, h, hf => by
    obtain ⟨f, rfl⟩ : ∃ f, fuel = f + 1 := ⟨fuel - 1, by simp [sizeV] at hf; omega⟩
    rw [serValue]; assoc; rw [deValue]; tag
    rw [deBase_ser b h, andThen_ok]
  | .fn p e s, fuel, rest, h, hf => by
    obtain ⟨f, rfl⟩ : ∃ f, fuel = f + 1 := ⟨fuel - 1, by simp [sizeV] at hf; omega⟩
    simp only [sizeV] at hf
    rw [serValue]; assoc; rw [deValue]; tag
    rw [deStr_ser p h.1, andThen_ok, deExpr_ser e f _ h.2.1 (by omega), andThen_ok,
      deOptScope_ser s f _ h.2.2 (by omega), andThen_ok]
  | .object kvs, fuel, rest, h, hf => by
    obtain ⟨f, rfl⟩ : ∃ f, fuel = f + 1 := ⟨fuel - 1, by simp [sizeV] at hf; omega⟩
    simp only [sizeV] at hf
    rw [serValue]; assoc; rw [deValue]; tag
    rw [deU64_ser _ h.1, andThen_ok, deKVs_ser kvs f _ h.2 (by omega), andThen_ok]
  | .string s, fuel, rest, h, hf => by
    obtain ⟨f, rfl⟩ : ∃ f, fuel = f + 1 := ⟨fuel - 1, by simp [sizeV] at hf; omega⟩
    rw [serValue]; assoc; rw [deValue]; tag
    rw [deStr_ser s h, andThen_ok]
  | .unit, fuel, rest, _, hf => by
    obtain ⟨f, rfl⟩ : ∃ f, fuel = f + 1 := ⟨fuel - 1, by simp [sizeV] at hf; omega⟩
    rw [serValue]; assoc; rw [deValue]; tag
  | .bool b, fuel, rest, _, hf => by
    obtain ⟨f, rfl⟩ : ∃ f, fuel = f + 1 := ⟨fuel - 1, by simp [sizeV] at hf; omega⟩
    rw [serValue]; assoc; rw [deValue]; tag
    rw [deBool_ser, andThen_ok]
  | .month m, fuel, rest, h, hf => by
    obtain ⟨f, rfl⟩ : ∃ f, fuel = f + 1 := ⟨fuel - 1, by simp [sizeV] at hf; omega⟩
    rw [serValue]; assoc; rw [deValue]; tag
    have h' : 1 ≤ m ∧ m ≤ 12 := h
    rw [deMonth, deU8_cons, andThen_ok, if_pos h', andThen_ok]
  | .dayOfWeek d, fuel, rest, h, hf => by
    obtain ⟨f, rfl⟩ : ∃ f, fuel = f + 1 := ⟨fuel - 1, by simp [sizeV] at hf; omega⟩
    rw [serValue]; assoc; rw [deValue]; tag
    have h' : d ≤ 6 := h
    rw [deU8_cons, andThen_ok, if_pos h']
  | .date d, fuel, rest, h, hf => by
    obtain ⟨f, rfl⟩ : ∃ f, fuel = f + 1 := ⟨fuel - 1, by simp [sizeV] at hf; omega⟩
    rw [serValue]; assoc; rw [deValue]; tag
    rw [deDate_ser d h, andThen_ok]
theorem deKVs_ser : ∀ (k : KVs) (fuel : Nat) (rest : Bytes), RepK k → sizeK k ≤ fuel →
    deKVs fuel k.length (serKVs k ++ rest) = .ok (k, rest)
  | .nil, fuel, rest, _, hf => by
    obtain ⟨f, rfl⟩ : ∃ f, fuel = f + 1 := ⟨fuel - 1, by simp [sizeK] at hf; omega⟩
    rw [serKVs, KVs.length, deKVs]; rfl
  | .cons k v r, fuel, rest, h, hf => by
    obtain ⟨f, rfl⟩ : ∃ f, fuel = f + 1 := ⟨fuel - 1, by simp [sizeK] at hf; omega⟩
    simp only [sizeK] at hf
    rw [serKVs, KVs.length]; assoc; rw [deKVs]; dsimp only
    rw [deStr_ser k h.1, andThen_ok, deValue_ser v f _ h.2.1 (by omega), andThen_ok,
      deKVs_ser r f _ h.2.2 (by omega), andThen_ok]
theorem deExpr_ser : ∀ (e : Expr) (fuel : Nat) (rest : Bytes), RepE e → sizeE e ≤ fuel →
    deExpr fuel (serExpr e ++ rest) = .ok (e, rest)
  | .literal v, fuel, rest, h, hf => by
    obtain ⟨f, rfl⟩ : ∃ f, fuel = f + 1 := ⟨fuel - 1, by simp [sizeE] at hf; omega⟩
    simp only [sizeE] at hf
    rw [serExpr]; assoc; rw [deExpr]; tag
    rw [deValue_ser v f _ h (by omega), andThen_ok]
  | .ident s, fuel, rest, h, hf => by
    obtain ⟨f, rfl⟩ : ∃ f, fuel = f + 1 := ⟨fuel - 1, by simp [sizeE] at hf; omega⟩
    rw [serExpr]; assoc; rw [deExpr]; tag
    rw [deStr_ser s h, andThen_ok]
  | .parens e, fuel, rest, h, hf => by
    obtain ⟨f, rfl⟩ : ∃ f, fuel = f + 1 := ⟨fuel - 1, by simp [sizeE] at hf; omega⟩
    simp only [sizeE] at hf
    rw [serExpr]; assoc; rw [deExpr]; tag
    rw [deExpr_ser e f _ h (by omega), andThen_ok]
  | .unaryMinus e, fuel, rest, h, hf => by
    obtain ⟨f, rfl⟩ : ∃ f, fuel = f + 1 := ⟨fuel - 1, by simp [sizeE] at hf; omega⟩
    simp only [sizeE] at hf
    rw [serExpr]; assoc; rw [deExpr]; tag
    rw [deExpr_ser e f _ h (by omega), andThen_ok]
  | .unaryPlus e, fuel, rest, h, hf => by
    obtain ⟨f, rfl⟩ : ∃ f, fuel = f + 1 := ⟨fuel - 1, by simp [sizeE] at hf; omega⟩
    simp only [sizeE] at hf
    rw [serExpr]; assoc; rw [deExpr]; tag
    rw [deExpr_ser e f _ h (by omega), andThen_ok]
  | .unaryDiv e, fuel, rest, h, hf => by
    obtain ⟨f, rfl⟩ : ∃ f, fuel = f + 1 := ⟨fuel - 1, by simp [sizeE] at hf; omega⟩
    simp only [sizeE] at hf
    rw [serExpr]; assoc; rw [deExpr]; tag
    rw [deExpr_ser e f _ h (by omega), andThen_ok]
  | .factorial e, fuel, rest, h, hf => by
    obtain ⟨f, rfl⟩ : ∃ f, fuel = f + 1 := ⟨fuel - 1, by simp [sizeE] at hf; omega⟩
    simp only [sizeE] at hf
    rw [serExpr]; assoc; rw [deExpr]; tag
    rw [deExpr_ser e f _ h (by omega), andThen_ok]
  | .bop op a b, fuel, rest, h, hf => by
    obtain ⟨f, rfl⟩ : ∃ f, fuel = f + 1 := ⟨fuel - 1, by simp [sizeE] at hf; omega⟩
    simp only [sizeE] at hf
    rw [serExpr]; assoc; rw [deExpr]; tag
    rw [deU8_cons, andThen_ok, if_pos h.1, deExpr_ser a f _ h.2.1 (by omega), andThen_ok,
      deExpr_ser b f _ h.2.2 (by omega), andThen_ok]
  | .apply a b, fuel, rest, h, hf => by
    obtain ⟨f, rfl⟩ : ∃ f, fuel = f + 1 := ⟨fuel - 1, by simp [sizeE] at hf; omega⟩
    simp only [sizeE] at hf
    rw [serExpr]; assoc; rw [deExpr]; tag
    rw [deExpr_ser a f _ h.1 (by omega), andThen_ok, deExpr_ser b f _ h.2 (by omega), andThen_ok]
  | .applyFunctionCall a b, fuel, rest, h, hf => by
    obtain ⟨f, rfl⟩ : ∃ f, fuel = f + 1 := ⟨fuel - 1, by simp [sizeE] at hf; omega⟩
    simp only [sizeE] at hf
    rw [serExpr]; assoc; rw [deExpr]; tag
    rw [deExpr_ser a f _ h.1 (by omega), andThen_ok, deExpr_ser b f _ h.2 (by omega), andThen_ok]
  | .applyMul a b, fuel, rest, h, hf => by
    obtain ⟨f, rfl⟩ : ∃ f, fuel = f + 1 := ⟨fuel - 1, by simp [sizeE] at hf; omega⟩
    simp only [sizeE] at hf
    rw [serExpr]; assoc; rw [deExpr]; tag
    rw [deExpr_ser a f _ h.1 (by omega), andThen_ok, deExpr_ser b f _ h.2 (by omega), andThen_ok]
  | .as_ a b, fuel, rest, h, hf => by
    obtain ⟨f, rfl⟩ : ∃ f, fuel = f + 1 := ⟨fuel - 1, by simp [sizeE] at hf; omega⟩
    simp only [sizeE] at hf
    rw [serExpr]; assoc; rw [deExpr]; tag
    rw [deExpr_ser a f _ h.1 (by omega), andThen_ok, deExpr_ser b f _ h.2 (by omega), andThen_ok]
  | .fn s e, fuel, rest, h, hf => by
    obtain ⟨f, rfl⟩ : ∃ f, fuel = f + 1 := ⟨fuel - 1, by simp [sizeE] at hf; omega⟩
    simp only [sizeE] at hf
    rw [serExpr]; assoc; rw [deExpr]; tag
    rw [deStr_ser s h.1, andThen_ok, deExpr_ser e f _ h.2 (by omega), andThen_ok]
  | .of_ s e, fuel, rest, h, hf => by
    obtain ⟨f, rfl⟩ : ∃ f, fuel = f + 1 := ⟨fuel - 1, by simp [sizeE] at hf; omega⟩
    simp only [sizeE] at hf
    rw [serExpr]; assoc; rw [deExpr]; tag
    rw [deStr_ser s h.1, andThen_ok, deExpr_ser e f _ h.2 (by omega), andThen_ok]
  | .assign s e, fuel, rest, h, hf => by
    obtain ⟨f, rfl⟩ : ∃ f, fuel = f + 1 := ⟨fuel - 1, by simp [sizeE] at hf; omega⟩
    simp only [sizeE] at hf
    rw [serExpr]; assoc; rw [deExpr]; tag
    rw [deStr_ser s h.1, andThen_ok, deExpr_ser e f _ h.2 (by omega), andThen_ok]
  | .statements a b, fuel, rest, h, hf => by
    obtain ⟨f, rfl⟩ : ∃ f, fuel = f + 1 := ⟨fuel - 1, by simp [sizeE] at hf; omega⟩
    simp only [sizeE] at hf
    rw [serExpr]; assoc; rw [deExpr]; tag
    rw [deExpr_ser a f _ h.1 (by omega), andThen_ok, deExpr_ser b f _ h.2 (by omega), andThen_ok]
  | .equality q a b, fuel, rest, h, hf => by
    obtain ⟨f, rfl⟩ : ∃ f, fuel = f + 1 := ⟨fuel - 1, by simp [sizeE] at hf; omega⟩
    simp only [sizeE] at hf
    rw [serExpr]; assoc; rw [deExpr]; tag
    rw [deBool_ser, andThen_ok, deExpr_ser a f _ h.1 (by omega), andThen_ok,
      deExpr_ser b f _ h.2 (by omega), andThen_ok]
theorem deScope_ser : ∀ (s : Scope) (fuel : Nat) (rest : Bytes), RepS s → sizeS s ≤ fuel →
    deScope fuel (serScope s ++ rest) = .ok (s, rest)
  | .mk i e vs inner, fuel, rest, h, hf => by
    obtain ⟨f, rfl⟩ : ∃ f, fuel = f + 1 := ⟨fuel - 1, by simp [sizeS] at hf; omega⟩
    simp only [sizeS] at hf
    rw [serScope]; assoc; rw [deScope]; dsimp only
    rw [deStr_ser i h.1, andThen_ok, deExpr_ser e f _ h.2.1 (by omega), andThen_ok,
      deOptScope_ser vs f _ h.2.2.1 (by omega), andThen_ok,
      deOptScope_ser inner f _ h.2.2.2 (by omega), andThen_ok]
theorem deOptScope_ser : ∀ (o : OptScope) (fuel : Nat) (rest : Bytes), RepO o → sizeO o ≤ fuel →
    deOptScope fuel (serOptScope o ++ rest) = .ok (o, rest)
  | .none, fuel, rest, _, hf => by
    obtain ⟨f, rfl⟩ : ∃ f, fuel = f + 1 := ⟨fuel - 1, by simp [sizeO] at hf; omega⟩
    rw [serOptScope]; assoc; rw [deOptScope]
    rfl
  | .some s, fuel, rest, h, hf => by
    obtain ⟨f, rfl⟩ : ∃ f, fuel = f + 1 := ⟨fuel - 1, by simp [sizeO] at hf; omega⟩
    simp only [sizeO] at hf
    rw [serOptScope]; assoc; rw [deOptScope]; dsimp only
    show andThen (deBool (serBool true ++ (serScope s ++ rest))) _ = _
    rw [deBool_ser, andThen_ok, if_pos rfl, deScope_ser s f _ h (by omega), andThen_ok]
end

end Fend.Ser
