/-
C10 — integer-domain functions agree with exact big-integer mathematics.
Proved here for all arguments: fibonacci, factorial, one-bit and multi-bit shifts (`<<`, `>>`:
`self * 2^n`, `self / 2^n` for every word-sized count), bitwise and/or/xor, the rounding
decision of floor/ceil/round, the greedy roman-numeral decomposition, nCr / nPr / mod on natural-number
arguments (binomial coefficient, falling factorial, remainder; the documented error exactly when r > n or
the modulus is zero).  Carried by correspondence + oracle only (stated in the evidence): words,
char/codepoint, and the argument-validation glue for non-natural arguments.
-/
import FendModel.Proofs.IntFns
import FendModel.Proofs.BigUintShift
import FendModel.Proofs.BigUintBitwise
import FendModel.Proofs.BigUintShiftN
import FendModel.Proofs.Combinatorics
import FendModel.Proofs.Rounding

namespace Fend.C10
open Fend Fend.BigUint

theorem fibonacci_exact (n : Nat) : val (fibonacci n) = fibSpec n := fibonacci_val n

theorem factorial_exact (n : BigUint) (hn : n.WF) :
    ∃ r, factorial n = .ok r ∧ val r = factSpec (val n) := factorial_val n hn

theorem shl1_exact (a : BigUint) (ha : a.WF) (hne : a.limbs ≠ []) :
    ∃ r, a.lshift = .ok r ∧ val r = 2 * val a ∧ r.WF := lshift_val a ha hne

theorem shr1_exact (a : BigUint) (ha : a.WF) : val a.rshift = val a / 2 ∧ a.rshift.WF :=
  rshift_val a ha

/-- `a << n` is `a * 2^n` for every shift count that fits a machine word (whole-limb splice plus
`n % 64` one-bit shifts), and never panics -/
theorem shl_exact (a n : BigUint) (ha : a.WF) (hne : a.limbs ≠ []) (hf : n.fitsU64 = true) :
    ∃ r, lshiftN a n = .ok r ∧ val r = val a * 2 ^ val n ∧ r.WF := lshiftN_val a n ha hne hf

/-- `a >> n` is `⌊a / 2^n⌋` (the loop's early exit at zero does not change the value) -/
theorem shr_exact (a n : BigUint) (ha : a.WF) (hf : n.fitsU64 = true) :
    ∃ r, rshiftN a n = .ok r ∧ val r = val a / 2 ^ val n ∧ r.WF := rshiftN_val a n ha hf

/-- `n nCr r` is the binomial coefficient; `outOfRange` exactly when r > n -/
theorem nCr_exact (a b : BigUint) (ha : a.WF) (hb : b.WF) :
    (val b ≤ val a → ∃ q, BigRat.combination (BigRat.ofUint a) (BigRat.ofUint b) = .ok q ∧
        BigRat.valQ q = ((val a).choose (val b) : Nat)) ∧
    (val a < val b → BigRat.combination (BigRat.ofUint a) (BigRat.ofUint b) = .error .outOfRange) :=
  BigRat.combination_nat a b ha hb

/-- `n nPr r` is n (n-1) ... (n-r+1); `outOfRange` exactly when r > n -/
theorem nPr_exact (a b : BigUint) (ha : a.WF) (hb : b.WF) :
    (val b ≤ val a → ∃ q, BigRat.permutation (BigRat.ofUint a) (BigRat.ofUint b) = .ok q ∧
        BigRat.valQ q = ((val a).descFactorial (val b) : Nat)) ∧
    (val a < val b → BigRat.permutation (BigRat.ofUint a) (BigRat.ofUint b) = .error .outOfRange) :=
  BigRat.permutation_nat a b ha hb

/-- `a mod b` is the remainder; `moduloByZero` exactly for b = 0 -/
theorem mod_exact (a b : BigUint) (ha : a.WF) (hb : b.WF) :
    (val b = 0 → BigRat.modulo (BigRat.ofUint a) (BigRat.ofUint b) = .error .moduloByZero) ∧
    (val b ≠ 0 → ∃ r, BigRat.modulo (BigRat.ofUint a) (BigRat.ofUint b) = .ok ⟨false, r, .small 1⟩ ∧ val r = val a % val b) :=
  BigRat.modulo_nat a b ha hb

/-- bitwise `&`, `|`, `xor` on limb vectors of any two lengths are the bitwise operations on the values -/
theorem and_exact (a b r : BigUint) (ha : a.WF) (hb : b.WF) (h : bitwiseAnd a b = .ok r) : val r = val a &&& val b := and_val a b r ha hb h
theorem or_exact (a b r : BigUint) (ha : a.WF) (hb : b.WF) (h : bitwiseOr a b = .ok r) : val r = val a ||| val b := or_val a b r ha hb h
theorem xor_exact (a b r : BigUint) (ha : a.WF) (hb : b.WF) (h : bitwiseXor a b = .ok r) : val r = val a ^^^ val b := xor_val a b r ha hb h

/-- `floor x` as computed (exact division, half-way comparison, increment): the integer z with z ≤ x < z + 1, for EVERY
rational x = ±num/den in any representation -/
theorem floor_exact (x : BigRat) (wx : BigRat.WFQ x) (dx : val x.den ≠ 0) :
    ∃ n, BigRat.roundWith .floor x = .ok ⟨x.neg, n, .small 1⟩ ∧
      (let xi : Int := if x.neg then -(val x.num : Int) else (val x.num : Int)
       let z : Int := if x.neg then -(val n : Int) else (val n : Int)
       z * (val x.den : Int) ≤ xi ∧ xi < (z + 1) * (val x.den : Int)) := by
  obtain ⟨n, hn, _, hv⟩ := BigRat.roundWith_val .floor x wx dx
  refine ⟨n, hn, ?_⟩
  have h := BigRat.roundMag_floor x.neg (val x.num / val x.den) (val x.num % val x.den) (val x.den)
    (Nat.mod_lt _ (Nat.pos_of_ne_zero dx))
  simp only at h
  rw [← hv, Nat.div_add_mod' (val x.num) (val x.den)] at h
  exact h

/-- `ceil x`: the integer z with z - 1 < x ≤ z -/
theorem ceil_exact (x : BigRat) (wx : BigRat.WFQ x) (dx : val x.den ≠ 0) :
    ∃ n, BigRat.roundWith .ceil x = .ok ⟨x.neg, n, .small 1⟩ ∧
      (let xi : Int := if x.neg then -(val x.num : Int) else (val x.num : Int)
       let z : Int := if x.neg then -(val n : Int) else (val n : Int)
       (z - 1) * (val x.den : Int) < xi ∧ xi ≤ z * (val x.den : Int)) := by
  obtain ⟨n, hn, _, hv⟩ := BigRat.roundWith_val .ceil x wx dx
  refine ⟨n, hn, ?_⟩
  have h := BigRat.roundMag_ceil x.neg (val x.num / val x.den) (val x.num % val x.den) (val x.den)
    (Nat.mod_lt _ (Nat.pos_of_ne_zero dx))
  simp only at h
  rw [← hv, Nat.div_add_mod' (val x.num) (val x.den)] at h
  exact h

/-- `round x`: the nearest integer, ties away from zero -/
theorem round_exact (x : BigRat) (wx : BigRat.WFQ x) (dx : val x.den ≠ 0) :
    ∃ n, BigRat.roundWith .round x = .ok ⟨x.neg, n, .small 1⟩ ∧
      (2 * val x.num ≤ 2 * val n * val x.den + val x.den ∧ 2 * val n * val x.den ≤ 2 * val x.num + val x.den) ∧
      (2 * (val x.num % val x.den) = val x.den → val n = val x.num / val x.den + 1) := by
  obtain ⟨n, hn, _, hv⟩ := BigRat.roundWith_val .round x wx dx
  refine ⟨n, hn, ?_⟩
  have h := BigRat.roundMag_round x.neg (val x.num / val x.den) (val x.num % val x.den) (val x.den)
    (Nat.mod_lt _ (Nat.pos_of_ne_zero dx))
  simp only at h
  rw [← hv, Nat.div_add_mod' (val x.num) (val x.den)] at h
  exact h

/-- floor: with `|x| = q + r/den`, the signed result `z` satisfies `z ≤ x < z + 1` -/
theorem floor_decision (neg : Bool) (q r den : Nat) (hr : r < den) :
    let m := BigRat.roundMag .floor neg q r den
    let x : Int := if neg then -((q * den + r : Nat) : Int) else ((q * den + r : Nat) : Int)
    let z : Int := if neg then -(m : Int) else (m : Int)
    z * den ≤ x ∧ x < (z + 1) * den := BigRat.roundMag_floor neg q r den hr

theorem ceil_decision (neg : Bool) (q r den : Nat) (hr : r < den) :
    let m := BigRat.roundMag .ceil neg q r den
    let x : Int := if neg then -((q * den + r : Nat) : Int) else ((q * den + r : Nat) : Int)
    let z : Int := if neg then -(m : Int) else (m : Int)
    (z - 1) * den < x ∧ x ≤ z * den := BigRat.roundMag_ceil neg q r den hr

/-- round: nearest integer, ties away from zero -/
theorem round_decision (neg : Bool) (q r den : Nat) (hr : r < den) :
    let m := BigRat.roundMag .round neg q r den
    (2 * (q * den + r) ≤ 2 * m * den + den ∧ 2 * m * den ≤ 2 * (q * den + r) + den)
    ∧ (2 * r = den → m = q + 1) := BigRat.roundMag_round neg q r den hr

/-- the greedy roman decomposition over any value list ending in 1 denotes the number -/
theorem roman_denotes (vals : List Nat) (n : Nat) :
    ((vals ++ [1]).foldl IntFns.romanStepValue (0, n)).1 = n := IntFns.roman_denotes vals n

/-- kernel-checked examples (tests, not the universal claim) -/
theorem examples :
    IntFns.toRoman 1994 = "MCMXCIV".toList.map Char.toNat ∧
    IntFns.toRoman 4000 = [73, 0x305, 86, 0x305] ∧
    IntFns.roman 0 = .zero ∧ IntFns.roman 1000000001 = .outOfRange ∧
    IntFns.charOf 0xD800 = none ∧ IntFns.charOf 0x10FFFF = some 0x10FFFF ∧ IntFns.charOf 0x110000 = none := by
  decide

example : (BigUint.large [0, 1]).WF ∧ (BigUint.large [0, 1]).limbs ≠ [] := by
  constructor
  · intro x hx; simp at hx; rcases hx with rfl | rfl <;> decide
  · simp [limbs]

end Fend.C10
