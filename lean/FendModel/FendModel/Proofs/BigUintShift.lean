import FendModel.Proofs.BigUintSub

namespace Fend.BigUint

def T63 : Nat := 9223372036854775808

/-- the bit shifted out at the top by `shlLimbs` -/
def outBit : List Nat → Nat → Nat
  | [], cin => cin
  | x :: xs, _ => outBit xs (x / T63)

theorem shlLimbs_spec (v : List Nat) (cin : Nat) (hw : WFL v) :
    valL (shlLimbs v cin) + B ^ v.length * outBit v cin = 2 * valL v + cin := by
  induction v generalizing cin with
  | nil => simp [shlLimbs, valL, outBit]
  | cons x xs ih =>
    have hx : x < 18446744073709551616 := hw x (by simp)
    have ih' := ih (x / T63) (fun y hy => hw y (by simp [hy]))
    simp only [shlLimbs, valL, outBit, List.length_cons, pow_succ]
    have hsplit : x * 2 % B + B * (x / T63) = 2 * x := by simp only [B, T63]; omega
    have hT' : x / 9223372036854775808 = x / T63 := rfl
    rw [hT']
    nlinarith [ih', hsplit]

theorem outBit_last (v : List Nat) (cin : Nat) (l : Nat) (h : v.getLast? = some l) :
    outBit v cin = l / T63 := by
  induction v generalizing cin with
  | nil => simp at h
  | cons x xs ih =>
    cases xs with
    | nil => simp at h; subst h; simp [outBit]
    | cons y ys =>
      simp only [outBit]
      have : (y :: ys).getLast? = some l := by simpa [List.getLast?_cons_cons] using h
      simpa [outBit] using ih (x / T63) this

theorem WFL_shlLimbs (v : List Nat) (cin : Nat) (hc : cin ≤ 1) (hw : WFL v) : WFL (shlLimbs v cin) := by
  induction v generalizing cin with
  | nil => simp [shlLimbs, WFL]
  | cons x xs ih =>
    have hx : x < 18446744073709551616 := hw x (by simp)
    intro y hy
    simp only [shlLimbs, List.mem_cons] at hy
    rcases hy with rfl | hy
    · simp only [B]; omega
    · exact ih (x / 9223372036854775808) (by omega) (fun z hz => hw z (by simp [hz])) y hy

/-- one-bit left shift doubles the value (never panics on a non-empty limb vector) -/
theorem lshift_val (a : BigUint) (ha : a.WF) (hne : a.limbs ≠ []) :
    ∃ r, a.lshift = .ok r ∧ val r = 2 * val a ∧ r.WF := by
  cases a with
  | small n =>
    have ha' : n < 18446744073709551616 := ha
    by_cases h : n / 4611686018427387904 = 0
    · refine ⟨small (n * 2), by simp [lshift, h], ?_, ?_⟩
      · show n * 2 = 2 * n; omega
      · show n * 2 < 18446744073709551616; omega
    · refine ⟨large [(n * 2) % B, n / 9223372036854775808], by simp [lshift, h], ?_, ?_⟩
      · show n * 2 % B + B * (n / 9223372036854775808 + B * 0) = 2 * n
        simp only [B]; omega
      · intro y hy; simp at hy; rcases hy with rfl | rfl <;> simp only [B] <;> omega
  | large v =>
    simp only [limbs] at hne
    have hw : WFL v := by simpa [WF, WFL] using ha
    cases hl : v.getLast? with
    | none => simp at hl; exact absurd hl hne
    | some l =>
      have hlm : l ∈ v := List.mem_of_getLast? hl
      have hlB : l < 18446744073709551616 := hw l hlm
      by_cases htop : l / 9223372036854775808 % 2 ≠ 0
      · have hw' : WFL (v ++ [0]) := by
          intro y hy; rcases List.mem_append.mp hy with h | h
          · exact hw y h
          · simp at h; subst h; exact B_pos
        have hs := shlLimbs_spec (v ++ [0]) 0 hw'
        have ho : outBit (v ++ [0]) 0 = 0 := by
          rw [outBit_last (v ++ [0]) 0 0 (by simp)]; simp [T63]
        rw [ho, valL_append] at hs
        refine ⟨large (shlLimbs (v ++ [0]) 0), by simp [lshift, hl, htop], ?_, ?_⟩
        · show valL (shlLimbs (v ++ [0]) 0) = 2 * valL v
          simp [valL] at hs; omega
        · simpa [WF, WFL] using WFL_shlLimbs _ 0 (by omega) hw'
      · have hs := shlLimbs_spec v 0 hw
        have ho : outBit v 0 = 0 := by
          rw [outBit_last v 0 l hl]; simp only [T63]; omega
        rw [ho] at hs
        refine ⟨large (shlLimbs v 0), by simp [lshift, hl, htop], ?_, ?_⟩
        · show valL (shlLimbs v 0) = 2 * valL v
          simp at hs; omega
        · simpa [WF, WFL] using WFL_shlLimbs _ 0 (by omega) hw

theorem shrLimbs_spec (v : List Nat) (hw : WFL v) :
    valL (shrLimbs v) = valL v / 2 ∧ WFL (shrLimbs v) ∧ (shrLimbs v).length = v.length := by
  induction v with
  | nil => simp [shrLimbs, valL, WFL]
  | cons x xs ih =>
    cases xs with
    | nil =>
      have hx : x < 18446744073709551616 := hw x (by simp)
      refine ⟨by simp [shrLimbs, valL], ?_, by simp [shrLimbs]⟩
      intro y hy; simp [shrLimbs] at hy; subst hy; simp only [B]; omega
    | cons y ys =>
      have hx : x < 18446744073709551616 := hw x (by simp)
      have hy : y < 18446744073709551616 := hw y (by simp)
      obtain ⟨h1, h2, h3⟩ := ih (fun z hz => hw z (by simp [hz]))
      refine ⟨?_, ?_, by simp [shrLimbs, h3]⟩
      · simp only [shrLimbs, valL] at h1 ⊢
        rw [h1]
        generalize valL ys = V at *
        simp only [B]
        omega
      · intro z hz
        simp only [shrLimbs, List.mem_cons] at hz
        rcases hz with rfl | hz
        · simp only [B]; omega
        · exact h2 z hz

/-- one-bit right shift halves the value -/
theorem rshift_val (a : BigUint) (ha : a.WF) : val a.rshift = val a / 2 ∧ a.rshift.WF := by
  cases a with
  | small n =>
    have ha' : n < 18446744073709551616 := ha
    exact ⟨rfl, by show n / 2 < 18446744073709551616; omega⟩
  | large v =>
    have hw : WFL v := by simpa [WF, WFL] using ha
    obtain ⟨h1, h2, _⟩ := shrLimbs_spec v hw
    exact ⟨by simpa [rshift, val] using h1, by simpa [rshift, WF, WFL] using h2⟩

end Fend.BigUint
