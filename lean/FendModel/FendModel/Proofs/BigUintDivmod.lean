/-
Binary long division (`divmod` of `core/src/num/biguint.rs`): for every dividend and every
non-zero divisor the loop over limbs and bits returns the Euclidean quotient and remainder.
Invariant after the bits at positions `≥ p` have been consumed:
  `val q = 2^p * Q`,  `val a / 2^p = Q * val b + val r`,  `val r < val b`.
-/
import FendModel.Proofs.BigUintShiftN
import FendModel.Proofs.BigUintBitwise

namespace Fend.BigUint

/-! ### limb access as arithmetic -/

theorem getD_eq_div_mod (v : List Nat) (hw : WFL v) (i : Nat) :
    v.getD i 0 = valL v / B ^ i % B := by
  induction v generalizing i with
  | nil => simp [valL]
  | cons x xs ih =>
    have hx : x < B := hw x (by simp)
    have hxs : WFL xs := fun y hy => hw y (by simp [hy])
    cases i with
    | zero =>
      simp only [List.getD_cons_zero, valL, pow_zero, Nat.div_one]
      rw [Nat.add_mul_mod_self_left, Nat.mod_eq_of_lt hx]
    | succ i =>
      simp only [List.getD_cons_succ, valL]
      rw [ih hxs i, pow_succ, Nat.mul_comm (B ^ i) B, ← Nat.div_div_eq_div_mul,
        Nat.add_mul_div_left _ _ B_pos, Nat.div_eq_of_lt hx, Nat.zero_add]

theorem get_eq_div_mod (a : BigUint) (ha : a.WF) (i : Nat) : a.get i = val a / B ^ i % B := by
  rw [get_eq_limbs, val_eq_limbs]; exact getD_eq_div_mod _ ((WF_iff_limbs a).mp ha) i

theorem B_pow_eq (i : Nat) : B ^ i = 2 ^ (64 * i) := by rw [B_pow, ← pow_mul]

/-- bit `j` of limb `i` is bit `64 i + j` of the value -/
theorem limb_bit (a : BigUint) (ha : a.WF) (i j : Nat) (hj : j < 64) :
    (a.get i / 2 ^ j) % 2 = (val a / 2 ^ (64 * i + j)) % 2 := by
  rw [get_eq_div_mod a ha i, B_pow_eq]
  have hB : B = 2 ^ j * 2 ^ (64 - j) := by rw [← pow_add, B_pow]; congr 1; omega
  rw [hB, Nat.mod_mul_right_div_self, Nat.div_div_eq_div_mul, ← pow_add]
  have hd : 2 ∣ 2 ^ (64 - j) := by
    have : 64 - j = (64 - j - 1) + 1 := by omega
    rw [this, pow_succ]; exact Nat.dvd_mul_left 2 _
  exact Nat.mod_mod_of_dvd _ hd

/-! ### `set` keeps limbs well-formed and non-empty -/

theorem WFL_setL (v : List Nat) (i x : Nat) (hv : WFL v) (hx : x < B) : WFL (setL v i x) := by
  intro y hy
  unfold setL at hy
  rcases List.mem_or_eq_of_mem_set hy with h | h
  · exact WFL_append_zeros v _ hv y h
  · rw [h]; exact hx

theorem setL_ne (v : List Nat) (i x : Nat) : setL v i x ≠ [] := by
  intro h
  have hl : (setL v i x).length = 0 := by rw [h]; rfl
  unfold setL at hl
  rw [List.length_set, List.length_append, List.length_replicate] at hl
  omega

theorem WF_set (s : BigUint) (i x : Nat) (hs : s.WF) (hx : x < B) : (s.set i x).WF := by
  cases s with
  | small n =>
    unfold BigUint.set
    by_cases h0 : i = 0
    · simp only [h0, if_true]; exact hx
    · by_cases hx0 : x = 0
      · simp only [h0, hx0, if_false, if_true]; exact hs
      · simp only [h0, hx0, if_false]
        have : WFL [n] := by intro y hy; simp at hy; rw [hy]; exact hs
        simpa [WF, WFL] using WFL_setL [n] i x this hx
  | large v =>
    have : WFL v := by simpa [WF, WFL] using hs
    simpa [BigUint.set, WF, WFL] using WFL_setL v i x this hx

theorem set_ne (s : BigUint) (i x : Nat) (hs : s.limbs ≠ []) : (s.set i x).limbs ≠ [] := by
  cases s with
  | small n =>
    unfold BigUint.set
    by_cases h0 : i = 0
    · simp [h0, limbs]
    · by_cases hx0 : x = 0
      · simp [h0, hx0, limbs]
      · simp only [h0, hx0, if_false, limbs]; exact setL_ne _ _ _
  | large v => simp only [BigUint.set, limbs]; exact setL_ne _ _ _

theorem sub_ne (a b r : BigUint) (ha : a.WF) (hb : b.WF) (h : a.sub b = .ok r) (hne : a.limbs ≠ []) :
    r.limbs ≠ [] := by
  have hpos := List.length_pos_iff.mpr hne
  have hwa := (WF_iff_limbs a).mp ha
  unfold sub at h
  split at h
  · split at h
    · cases h
    · cases h; simp [limbs]
  · split at h
    · cases h; simp [limbs]
    · cases h
    · split at h
      · cases h; exact hne
      · simp only at h
        split at h
        all_goals
          split at h
          all_goals first
            | (cases h; done)
            | (cases h
               intro hnil
               rw [show ∀ v, (large v).limbs = v from fun _ => rfl] at hnil
               have hl := congrArg List.length hnil
               first
                 | (rw [(subLoop_spec b hb _ (WFL_append_zeros _ _ hwa) 0 0 (by omega)).2.1,
                      List.length_append, List.length_replicate, List.length_nil] at hl
                    omega)
                 | (rw [(subLoop_spec b hb _ hwa 0 0 (by omega)).2.1, List.length_nil] at hl
                    omega))

/-! ### the loop invariant -/

structure DivInv (a b : BigUint) (p : Nat) (q r : BigUint) : Prop where
  ex : ∃ Q, val q = 2 ^ p * Q ∧ val a / 2 ^ p = Q * val b + val r
  lt : val r < val b
  qwf : q.WF
  rwf : r.WF
  rne : r.limbs ≠ []

theorem even_or_bit (x bit : Nat) (hx : x % 2 = 0) (hb : bit < 2) : x ||| bit = x + bit := by
  have h2 : x = 2 ^ 1 * (x / 2) := by simp; omega
  rw [h2]; exact (Nat.two_pow_add_eq_or_of_lt (i := 1) (by simpa using hb) (x / 2)).symm

theorem get0_mod2 (a : BigUint) (ha : a.WF) : a.get 0 % 2 = val a % 2 := by
  rw [get_eq_div_mod a ha 0]; simp
  exact Nat.mod_mod_of_dvd _ (by decide)

theorem divBit_spec (a b : BigUint) (ha : a.WF) (hb : b.WF) (i j : Nat) (hj : j < 64)
    (q r : BigUint) (inv : DivInv a b (64 * i + j + 1) q r) :
    ∃ q' r', divBit a b i j (q, r) = .ok (q', r') ∧ DivInv a b (64 * i + j) q' r' := by
  obtain ⟨⟨Q, hq, hdiv⟩, hlt, qwf, rwf, rne⟩ := inv
  obtain ⟨r1, hr1, hv1, hw1⟩ := lshift_val r rwf rne
  have hne1 := lshift_ne r r1 hr1 rne
  -- the bit shifted in
  have hbit2 : (a.get i / 2 ^ j) % 2 < 2 := Nat.mod_lt _ (by decide)
  have hbitv := limb_bit a ha i j hj
  generalize hbit : (a.get i / 2 ^ j) % 2 = bit at *
  have heven : r1.get 0 % 2 = 0 := by rw [get0_mod2 r1 hw1, hv1]; omega
  have hor : r1.get 0 ||| bit = r1.get 0 + bit := even_or_bit _ _ heven hbit2
  have hg0 : r1.get 0 < B := get_lt r1 hw1 0
  have hlt0 : r1.get 0 + bit < B := by
    have : B % 2 = 0 := by decide
    omega
  -- r2 = r1 with the bit
  have hw2 : (r1.set 0 (r1.get 0 ||| bit)).WF := WF_set r1 0 _ hw1 (by rw [hor]; exact hlt0)
  have hne2 : (r1.set 0 (r1.get 0 ||| bit)).limbs ≠ [] := set_ne r1 0 _ hne1
  have hv2 : val (r1.set 0 (r1.get 0 ||| bit)) = 2 * val r + bit := by
    have := val_set r1 0 (r1.get 0 ||| bit)
    rw [hor] at this ⊢
    simp at this
    omega
  obtain ⟨r2, hr2⟩ : ∃ r2, r2 = r1.set 0 (r1.get 0 ||| bit) := ⟨_, rfl⟩
  rw [← hr2] at hw2 hne2 hv2
  -- the dividend prefix one bit further
  have hstep : val a / 2 ^ (64 * i + j) = 2 * (val a / 2 ^ (64 * i + j + 1)) + bit := by
    rw [pow_succ, ← Nat.div_div_eq_div_mul]
    generalize val a / 2 ^ (64 * i + j) = X at *
    omega
  have hq' : val q = 2 ^ (64 * i + j) * (2 * Q) := by rw [hq, pow_succ]; ring
  by_cases hle : ble b r2 = true
  · have hle' : val b ≤ val r2 := (ble_iff b r2 hb hw2).mp hle
    obtain ⟨r3, hr3, hv3, hw3⟩ := sub_val r2 b hw2 hb hle'
    have hne3 := sub_ne r2 b r3 hw2 hb hr3 hne2
    -- the quotient bit
    have hqi : q.get i = 2 ^ (j + 1) * (Q % 2 ^ (64 - (j + 1))) := by
      rw [get_eq_div_mod q qwf i, hq, B_pow_eq]
      have : 2 ^ (64 * i + j + 1) * Q = 2 ^ (64 * i) * (2 ^ (j + 1) * Q) := by
        rw [show 64 * i + j + 1 = 64 * i + (j + 1) by omega, pow_add]; ring
      rw [this, Nat.mul_div_cancel_left _ (by positivity)]
      have hB : B = 2 ^ (j + 1) * 2 ^ (64 - (j + 1)) := by
        rw [← pow_add, B_pow]; congr 1; omega
      rw [hB, Nat.mul_mod_mul_left]
    have hqor : q.get i ||| 2 ^ j = q.get i + 2 ^ j := by
      rw [hqi]
      exact (Nat.two_pow_add_eq_or_of_lt (i := j + 1)
        (by rw [pow_succ]; have : 0 < 2 ^ j := by positivity
            omega) _).symm
    have hqlt : q.get i ||| 2 ^ j < B := by
      rw [B_pow]
      exact Nat.or_lt_two_pow (by rw [← B_pow]; exact get_lt q qwf i)
        (Nat.pow_lt_pow_right (by decide) hj)
    have hqv : val (q.set i (q.get i ||| 2 ^ j)) = 2 ^ (64 * i + j) * (2 * Q + 1) := by
      have := val_set q i (q.get i ||| 2 ^ j)
      rw [hqor] at this ⊢
      have hp : 2 ^ (64 * i + j) = 2 ^ j * B ^ i := by rw [B_pow_eq, pow_add]; ring
      rw [hp]
      have hq'' : val q = 2 ^ j * B ^ i * (2 * Q) := by rw [← hp]; exact hq'
      rw [Nat.add_mul] at this
      have e1 : 2 ^ j * B ^ i * (2 * Q + 1) = 2 ^ j * B ^ i * (2 * Q) + 2 ^ j * B ^ i := by ring
      rw [e1, ← hq'']
      omega
    refine ⟨q.set i (q.get i ||| 2 ^ j), r3, ?_, ⟨⟨2 * Q + 1, hqv, ?_⟩, ?_, WF_set q i _ qwf hqlt, hw3, hne3⟩⟩
    · simp only [divBit, hr1, hbit, ← hr2, hle, hr3, bind, Except.bind, if_true]
    · rw [hstep, hdiv, hv3, hv2]
      have : val b ≤ 2 * val r + bit := by rw [← hv2]; exact hle'
      have e1 : (2 * Q + 1) * val b = 2 * (Q * val b) + val b := by ring
      rw [e1]
      omega
    · rw [hv3, hv2]; omega
  · have hle' : ¬ val b ≤ val r2 := fun h => hle ((ble_iff b r2 hb hw2).mpr h)
    have hlef : ble b r2 = false := by simpa using hle
    refine ⟨q, r2, ?_, ⟨⟨2 * Q, hq', ?_⟩, by omega, qwf, hw2, hne2⟩⟩
    · simp only [divBit, hr1, hbit, ← hr2, hlef, bind, Except.bind]; rfl
    · rw [hstep, hdiv, hv2]; ring

theorem divBits_spec (a b : BigUint) (ha : a.WF) (hb : b.WF) (i j : Nat) (hj : j ≤ 64)
    (q r : BigUint) (inv : DivInv a b (64 * i + j) q r) :
    ∃ q' r', divBits a b i j (q, r) = .ok (q', r') ∧ DivInv a b (64 * i) q' r' := by
  induction j generalizing q r with
  | zero => exact ⟨q, r, rfl, by simpa using inv⟩
  | succ j ih =>
    obtain ⟨q1, r1, h1, inv1⟩ := divBit_spec a b ha hb i j (by omega) q r inv
    obtain ⟨q2, r2, h2, inv2⟩ := ih (by omega) q1 r1 inv1
    exact ⟨q2, r2, by simp only [divBits, h1]; exact h2, inv2⟩

theorem divLimbs_spec (a b : BigUint) (ha : a.WF) (hb : b.WF) (i : Nat)
    (q r : BigUint) (inv : DivInv a b (64 * i) q r) :
    ∃ q' r', divLimbs a b i (q, r) = .ok (q', r') ∧ DivInv a b 0 q' r' := by
  induction i generalizing q r with
  | zero => exact ⟨q, r, rfl, by simpa using inv⟩
  | succ i ih =>
    have inv' : DivInv a b (64 * i + 64) q r := by
      rw [show 64 * i + 64 = 64 * (i + 1) by ring]; exact inv
    obtain ⟨q1, r1, h1, inv1⟩ := divBits_spec a b ha hb i 64 (by omega) q r inv'
    obtain ⟨q2, r2, h2, inv2⟩ := ih q1 r1 inv1
    exact ⟨q2, r2, by simp only [divLimbs, h1]; exact h2, inv2⟩

theorem val_lt_pow_len (a : BigUint) (ha : a.WF) : val a < B ^ a.valueLen := by
  rw [val_eq_limbs, valueLen_eq_limbs]; exact valL_lt _ ((WF_iff_limbs a).mp ha)

/-- `divmod` by a non-zero divisor: Euclidean quotient and remainder, never a panic -/
theorem divmod_val (a b : BigUint) (ha : a.WF) (hb : b.WF) (hb0 : val b ≠ 0) :
    ∃ q r, divmod a b = .ok (q, r) ∧ val q = val a / val b ∧ val r = val a % val b
      ∧ q.WF ∧ r.WF := by
  have key : ∀ q r : BigUint, val a = val q * val b + val r → val r < val b →
      val q = val a / val b ∧ val r = val a % val b := by
    intro q r h1 h2
    have := (Nat.div_mod_unique (a := val a) (b := val b) (c := val r) (d := val q)
      (Nat.pos_of_ne_zero hb0)).mpr ⟨by rw [h1]; ring, h2⟩
    exact ⟨this.1.symm, this.2.symm⟩
  have w0 : (small 0).WF := B_pos
  have w1 : (small 1).WF := by show 1 < B; decide
  have w2 : (small 2).WF := by show 2 < B; decide
  unfold divmod
  split
  · rename_i x y
    have hy : y ≠ 0 := hb0
    simp only [hy, if_false]
    exact ⟨_, _, rfl, rfl, rfl, Nat.lt_of_le_of_lt (Nat.div_le_self _ _) ha,
      Nat.lt_trans (Nat.mod_lt _ (Nat.pos_of_ne_zero hy)) hb⟩
  · have hz : b.isZero = false := by
      cases h : b.isZero with
      | false => rfl
      | true => exact absurd ((isZero_iff b).mp h) hb0
    simp only [hz, Bool.false_eq_true, if_false]
    by_cases h1 : beq b (small 1) = true
    · have : val b = 1 := (beq_iff b _ hb w1).mp h1
      simp only [h1, if_true]
      exact ⟨a, small 0, rfl, by rw [this, Nat.div_one], by rw [this, Nat.mod_one]; rfl, ha, w0⟩
    simp only [h1]
    by_cases h2 : a.isZero = true
    · have : val a = 0 := (isZero_iff a).mp h2
      simp only [h2, if_true]
      exact ⟨_, _, rfl, by rw [this]; simp [val], by rw [this]; simp [val], w0, w0⟩
    simp only [h2]
    by_cases h3 : blt a b = true
    · have hlt : val a < val b := (blt_iff a b ha hb).mp h3
      simp only [h3, if_true]
      exact ⟨_, _, rfl, by rw [Nat.div_eq_of_lt hlt]; rfl, by rw [Nat.mod_eq_of_lt hlt], w0, ha⟩
    simp only [h3]
    by_cases h4 : beq a b = true
    · have heq : val a = val b := (beq_iff a b ha hb).mp h4
      simp only [h4, if_true]
      exact ⟨_, _, rfl, by rw [heq, Nat.div_self (Nat.pos_of_ne_zero hb0)]; rfl,
        by rw [heq, Nat.mod_self]; rfl, w1, w0⟩
    simp only [h4]
    by_cases h5 : beq b (small 2) = true
    · have h2v : val b = 2 := (beq_iff b _ hb w2).mp h5
      simp only [h5, if_true]
      obtain ⟨hv, hw⟩ := rshift_val a ha
      refine ⟨_, _, rfl, by rw [hv, h2v], ?_, hw, ?_⟩
      · show a.get 0 % 2 = _
        rw [get0_mod2 a ha, h2v]
      · show a.get 0 % 2 < B
        have : a.get 0 % 2 < 2 := Nat.mod_lt _ (by decide)
        have : (2 : Nat) < B := by decide
        omega
    simp only [h5]
    have inv0 : DivInv a b (64 * a.valueLen) (small 0) (small 0) := by
      refine ⟨⟨0, by simp [val], ?_⟩, Nat.pos_of_ne_zero hb0, w0, w0, by simp [limbs]⟩
      rw [← B_pow_eq, Nat.div_eq_of_lt (val_lt_pow_len a ha)]; simp [val]
    obtain ⟨q, r, hqr, ⟨⟨Q, hq, hdiv⟩, hlt, qwf, rwf, _⟩⟩ := divLimbs_spec a b ha hb _ _ _ inv0
    simp at hq hdiv
    have := key q r (by rw [hq]; exact hdiv) hlt
    exact ⟨q, r, hqr, this.1, this.2, qwf, rwf⟩

theorem divmod_zero (a b : BigUint) (hb : b.WF) (hb0 : val b = 0) :
    divmod a b = .error .divideByZero := by
  unfold divmod
  split
  · rename_i x y
    have : y = 0 := hb0
    simp [this]
  · simp [(isZero_iff b).mpr hb0]

end Fend.BigUint
