"""Tie A for C11 / C04 / C05: the unit table of the tree under test.

raw_table()   — parses core/src/units/builtin.rs: ALL_UNIT_DEFS in lookup order, SHORT_PREFIXES,
                CURRENCY_IDENTIFIERS (the tuples exactly as written in the source).
resolve(...)  — asks the code under test what each name denotes (`@debug 1 <name>` through the public
                API): scale as an exact rational (x pi^k), base-unit exponents, or the error.
generate(...) — writes Gen/UnitsRaw.lean (for the executable lookup model) and Gen/UnitsResolved.lean
                (rows of exact rationals for the kernel-checked table theorems).
"""
import os, re
from fractions import Fraction as F
from . import rustsrc

GEN = os.path.join(os.path.dirname(os.path.dirname(os.path.abspath(__file__))), "lean", "FendModel", "FendModel", "Gen")

def rust_str(tok):
    """decode a Rust string literal token (with the quotes)"""
    s = tok[1:-1]
    out, i = [], 0
    while i < len(s):
        if s[i] == "\\":
            n = s[i + 1]
            if n == "u":
                j = s.index("}", i)
                out.append(chr(int(s[i + 3:j], 16))); i = j + 1; continue
            out.append({"n": "\n", "t": "\t", "\\": "\\", '"': '"', "'": "'", "0": "\0"}.get(n, n)); i += 2
        else:
            out.append(s[i]); i += 1
    return "".join(out)

STR = r'"(?:[^"\\]|\\.)*"'

def raw_table():
    src = rustsrc.strip_comments(open(os.path.join(rustsrc.REPO, "core/src/units/builtin.rs")).read())
    src = rustsrc.without_tests(src)
    consts = {}
    for m in re.finditer(r"const\s+([A-Z_]+)\s*:\s*&\[UnitTuple\]\s*=\s*&\[(.*?)\n\];", src, re.S):
        rows = []
        for t in re.finditer(r"\(\s*(" + STR + r")\s*,\s*(" + STR + r")\s*,\s*(" + STR + r")\s*,\s*(" + STR + r")\s*,?\s*\)", m.group(2)):
            rows.append((rust_str(t.group(1)), rust_str(t.group(2)), rust_str(t.group(3))))
        consts[m.group(1)] = rows
    order = re.search(r"ALL_UNIT_DEFS\s*:\s*&\[&\[UnitTuple\]\]\s*=\s*&\[(.*?)\];", src, re.S).group(1)
    groups = [g.strip() for g in order.split(",") if g.strip()]
    table = []
    for g in groups:
        for (s, p, d) in consts[g]:
            table.append((g, s, p, d))
    sp = re.search(r"const\s+SHORT_PREFIXES\s*:[^=]*=\s*&\[(.*?)\n\];", src, re.S).group(1)
    short = [(rust_str(t.group(1)), rust_str(t.group(2))) for t in re.finditer(r"\(\s*(" + STR + r")\s*,\s*(" + STR + r")\s*\)", sp)]
    cur = re.search(r"const\s+CURRENCY_IDENTIFIERS\s*:[^=]*=\s*&\[(.*?)\n\];", src, re.S).group(1)
    currencies = [rust_str(t.group(0)) for t in re.finditer(STR, cur)]
    return table, short, currencies

def rule_of(defn):
    d = defn.strip()
    rule = "none"
    for pre, r in (("l@", "longAllowed"), ("lp@", "longPrefix"), ("s@", "shortAllowed"), ("sp@", "shortPrefix")):
        if d.startswith(pre):
            d = d[len(pre):]; rule = r
    return rule, d

# ---------------------------------------------------------------- resolution through the code under test
COMP = re.compile(r"(\S+?) \((?:[^,=()]+, )?= ([^()]*)\)(?:\^(-?[0-9]+(?:/[0-9]+)?))?")

def parse_scale_base(txt):
    """'2/360 * pi second^-1' -> (Fraction, piExp, {base: exp})"""
    toks = txt.strip().split(" ")
    scale = F(toks[0]); i = 1; pi = 0
    if len(toks) > 2 and toks[1] == "*" and toks[2] == "pi":
        pi = 1; i = 3
    dims = {}
    for t in toks[i:]:
        if not t: continue
        if "^" in t:
            b, e = t.split("^", 1)
            dims[b] = dims.get(b, 0) + F(e)
        else:
            dims[t] = dims.get(t, 0) + 1
    return scale, pi, {k: v for k, v in dims.items() if v != 0}

def _limbs(m):
    v = 0
    for x in m.group(1).split(","):
        v = (v << 64) | int(x)
    return str(v)

def parse_debug(out):
    """'ok 1 ft (= 3048/10000 meter)^2 (base 10, auto, simplifiable)' -> (scale, piExp, dims) of the whole value, or None"""
    if not out.startswith("ok "):
        return None
    # multi-limb integers are printed by `Debug for BigUint` as `[most significant limb, ..., least]`
    out = re.sub(r"\[([0-9, ]+)\]", _limbs, out)
    body = out[3:]
    k = body.rfind(" (base ")
    if k < 0:
        return None
    body = body[:k]
    m = re.match(r"(approx\. )?(-?[0-9./]+)(?: (.*))?$", body)
    if not m:
        return None
    if m.group(1):
        return None
    try:
        scale = F(m.group(2))
    except Exception:
        return None
    rest = m.group(3) or ""
    pi, dims = 0, {}
    if rest.strip() in ("", "(unitless)"):
        return scale, 0, {}
    pos = 0
    comps = list(COMP.finditer(rest))
    if not comps or COMP.sub("", rest).replace("*", "").strip() != "":
        return None
    for c in comps:
        e = F(c.group(3)) if c.group(3) else F(1)
        try:
            s, p, d = parse_scale_base(c.group(2))
        except Exception:
            return None
        if e.denominator != 1 and s != 1:
            return None          # irrational scale power: not representable exactly here
        scale *= s ** int(e) if e.denominator == 1 else 1
        pi += p * e
        for b, x in d.items():
            dims[b] = dims.get(b, 0) + x * e
    return scale, pi, {k: v for k, v in dims.items() if v != 0}

def resolve(ctx, harness, names, prefix="@debug 1 "):
    outs = ctx.run_lines_robust(harness, ["eval"], [prefix + n for n in names], env={"HARNESS_LINE_TIMEOUT_S": "10"})
    return {n: (parse_debug(o), o) for n, o in zip(names, outs)}

# ---------------------------------------------------------------- Lean generation
def lean_str(s):
    return '"' + s.replace("\\", "\\\\").replace('"', '\\"').replace("\n", "\\n") + '"'

def generate_raw():
    table, short, currencies = raw_table()
    rows = ",\n   ".join(f"({lean_str(s)}, {lean_str(p)}, {lean_str(d)})" for (_, s, p, d) in table)
    sh = ",\n   ".join(f"({lean_str(a)}, {lean_str(b)})" for a, b in short)
    cu = ", ".join(lean_str(c) for c in currencies)
    txt = ("-- GENERATED by translator/units.py from core/src/units/builtin.rs on every run. Do not edit.\n"
           "namespace Fend.Gen\n\n/-- ALL_UNIT_DEFS flattened in lookup order: (singular, plural, definition) -/\n"
           f"def unitDefs : List (String × String × String) :=\n  [{rows}]\n\n"
           f"def shortPrefixes : List (String × String) :=\n  [{sh}]\n\n"
           f"def currencyIdentifiers : List String :=\n  [{cu}]\n\nend Fend.Gen\n")
    os.makedirs(GEN, exist_ok=True)
    out = os.path.join(GEN, "UnitsRaw.lean")
    if not os.path.exists(out) or open(out).read() != txt:
        open(out, "w").write(txt)
    return table, short, currencies

def lean_rat(q):
    """an exact rational as a reduced (numerator, denominator) pair: equality is structural, so the kernel
    never has to run gcd"""
    q = F(q)
    return f"({q.numerator}, {q.denominator})"

def row_lit(res, base_ids):
    if res is None:
        return "none"
    s, pi, dims = res
    ds = ", ".join(f"({base_ids[b]}, {lean_rat(e)})" for b, e in sorted(dims.items(), key=lambda kv: base_ids[kv[0]]))
    return f"some ⟨{lean_rat(s)}, {lean_rat(pi)}, [{ds}]⟩"
