/-
Expression trees over complex rationals: + - * / unary minus, conjugate, and literals a + bi, evaluated with the modelled
`Exact<Complex>` operations.  The result denotes the tree's value in Q(i); the only error is division by 0 + 0i.
-/
import FendModel.Proofs.Complex
import Mathlib.Tactic.LinearCombination

namespace Fend
namespace Cx
open BigRat BigUint

inductive CExpr where
  | lit (c : Cx)
  | neg (a : CExpr)
  | conj (a : CExpr)
  | add (a b : CExpr)
  | sub (a b : CExpr)
  | mul (a b : CExpr)
  | div (a b : CExpr)

/-- evaluation with the modelled operations, left operand first; `a - b` is `a + (-b)` as in `Value::sub` -/
def evalC : CExpr → R Cx
  | .lit c => .ok c
  | .neg a => match evalC a with
    | .ok x => .ok (Cx.neg x)
    | .error e => .error e
  | .conj a => match evalC a with
    | .ok x => .ok (Cx.conj x)
    | .error e => .error e
  | .add a b => match evalC a with
    | .ok x => (match evalC b with
      | .ok y => Cx.add x y
      | .error e => .error e)
    | .error e => .error e
  | .sub a b => match evalC a with
    | .ok x => (match evalC b with
      | .ok y => Cx.add x (Cx.neg y)
      | .error e => .error e)
    | .error e => .error e
  | .mul a b => match evalC a with
    | .ok x => (match evalC b with
      | .ok y => Cx.mul x y
      | .error e => .error e)
    | .error e => .error e
  | .div a b => match evalC a with
    | .ok x => (match evalC b with
      | .ok y => Cx.div x y
      | .error e => .error e)
    | .error e => .error e

/-- the value in Q(i) as a pair (real, imaginary); `none` when some divisor is 0 + 0i -/
def denoteC : CExpr → Option (Rat × Rat)
  | .lit c => some (valQ c.re, valQ c.im)
  | .neg a => (denoteC a).map fun (x, y) => (-x, -y)
  | .conj a => (denoteC a).map fun (x, y) => (x, -y)
  | .add a b => do let (u, v) ← denoteC a; let (x, y) ← denoteC b; some (u + x, v + y)
  | .sub a b => do let (u, v) ← denoteC a; let (x, y) ← denoteC b; some (u - x, v - y)
  | .mul a b => do let (u, v) ← denoteC a; let (x, y) ← denoteC b; some (u * x - v * y, u * y + v * x)
  | .div a b => do
    let (u, v) ← denoteC a
    let (x, y) ← denoteC b
    if x = 0 ∧ y = 0 then none
    else some ((u * x + v * y) / (x * x + y * y), (v * x - u * y) / (x * x + y * y))

def LeavesOKC : CExpr → Prop
  | .lit c => OKC c
  | .neg a | .conj a => LeavesOKC a
  | .add a b | .sub a b | .mul a b | .div a b => LeavesOKC a ∧ LeavesOKC b

theorem neg_okc (c : Cx) (h : OKC c) : OKC (Cx.neg c) := h
theorem conj_okc (c : Cx) (h : OKC c) : OKC (Cx.conj c) := h

/-- the quotient determined by `q * b = a` is the textbook formula -/
theorem quot_formula (p q u v x y : Rat) (hb : ¬ (x = 0 ∧ y = 0))
    (h1 : p * x - q * y = u) (h2 : p * y + q * x = v) :
    p = (u * x + v * y) / (x * x + y * y) ∧ q = (v * x - u * y) / (x * x + y * y) := by
  have hs : x * x + y * y ≠ 0 := fun h0 => hb ((sq_sum_zero x y).mp h0)
  constructor
  · rw [eq_div_iff hs]; linear_combination x * h1 + y * h2
  · rw [eq_div_iff hs]; linear_combination x * h2 - y * h1

theorem evalC_spec (e : CExpr) (hl : LeavesOKC e) :
    (∀ z, denoteC e = some z → ∃ r, evalC e = .ok r ∧ (valQ r.re, valQ r.im) = z ∧ OKC r) ∧
    (denoteC e = none → evalC e = .error .divideByZero) := by
  induction e with
  | lit c => exact ⟨fun z h => ⟨c, rfl, by simpa [denoteC] using h, hl⟩, fun h => by simp [denoteC] at h⟩
  | neg a ih =>
    obtain ⟨i1, i2⟩ := ih hl
    cases ha : denoteC a with
    | none => exact ⟨fun z h => by simp [denoteC, ha] at h, fun _ => by simp [evalC, i2 ha]⟩
    | some w =>
      obtain ⟨r, hr, hv, ho⟩ := i1 w ha
      refine ⟨fun z h => ?_, fun h => by simp [denoteC, ha] at h⟩
      simp [denoteC, ha] at h
      refine ⟨Cx.neg r, by simp [evalC, hr], ?_, neg_okc r ho⟩
      rw [← h, ← hv, (neg_val r).1, (neg_val r).2]
  | conj a ih =>
    obtain ⟨i1, i2⟩ := ih hl
    cases ha : denoteC a with
    | none => exact ⟨fun z h => by simp [denoteC, ha] at h, fun _ => by simp [evalC, i2 ha]⟩
    | some w =>
      obtain ⟨r, hr, hv, ho⟩ := i1 w ha
      refine ⟨fun z h => ?_, fun h => by simp [denoteC, ha] at h⟩
      simp [denoteC, ha] at h
      refine ⟨Cx.conj r, by simp [evalC, hr], ?_, conj_okc r ho⟩
      rw [← h, ← hv, (conj_val r).1, (conj_val r).2]
  | add a b iha ihb =>
    obtain ⟨a1, a2⟩ := iha hl.1
    obtain ⟨b1, b2⟩ := ihb hl.2
    cases ha : denoteC a with
    | none => exact ⟨fun z h => by simp [denoteC, ha] at h, fun _ => by simp [evalC, a2 ha]⟩
    | some w =>
      obtain ⟨r, hr, hv, ho⟩ := a1 w ha
      cases hb : denoteC b with
      | none => exact ⟨fun z h => by simp [denoteC, ha, hb] at h, fun _ => by simp [evalC, hr, b2 hb]⟩
      | some w2 =>
        obtain ⟨s, hs, hsv, hso⟩ := b1 w2 hb
        obtain ⟨t, ht, tre, tim, hto⟩ := add_val r s ho hso
        refine ⟨fun z h => ?_, fun h => by simp [denoteC, ha, hb] at h⟩
        simp [denoteC, ha, hb] at h
        refine ⟨t, by simp [evalC, hr, hs, ht], ?_, hto⟩
        rw [← h, tre, tim, ← hv, ← hsv]
  | sub a b iha ihb =>
    obtain ⟨a1, a2⟩ := iha hl.1
    obtain ⟨b1, b2⟩ := ihb hl.2
    cases ha : denoteC a with
    | none => exact ⟨fun z h => by simp [denoteC, ha] at h, fun _ => by simp [evalC, a2 ha]⟩
    | some w =>
      obtain ⟨r, hr, hv, ho⟩ := a1 w ha
      cases hb : denoteC b with
      | none => exact ⟨fun z h => by simp [denoteC, ha, hb] at h, fun _ => by simp [evalC, hr, b2 hb]⟩
      | some w2 =>
        obtain ⟨s, hs, hsv, hso⟩ := b1 w2 hb
        obtain ⟨t, ht, tre, tim, hto⟩ := add_val r (Cx.neg s) ho (neg_okc s hso)
        refine ⟨fun z h => ?_, fun h => by simp [denoteC, ha, hb] at h⟩
        simp [denoteC, ha, hb] at h
        refine ⟨t, by simp [evalC, hr, hs, ht], ?_, hto⟩
        rw [← h, tre, tim, (neg_val s).1, (neg_val s).2, ← hv, ← hsv]
        simp [sub_eq_add_neg]
  | mul a b iha ihb =>
    obtain ⟨a1, a2⟩ := iha hl.1
    obtain ⟨b1, b2⟩ := ihb hl.2
    cases ha : denoteC a with
    | none => exact ⟨fun z h => by simp [denoteC, ha] at h, fun _ => by simp [evalC, a2 ha]⟩
    | some w =>
      obtain ⟨r, hr, hv, ho⟩ := a1 w ha
      cases hb : denoteC b with
      | none => exact ⟨fun z h => by simp [denoteC, ha, hb] at h, fun _ => by simp [evalC, hr, b2 hb]⟩
      | some w2 =>
        obtain ⟨s, hs, hsv, hso⟩ := b1 w2 hb
        obtain ⟨t, ht, tre, tim, hto⟩ := mul_val r s ho hso
        refine ⟨fun z h => ?_, fun h => by simp [denoteC, ha, hb] at h⟩
        simp [denoteC, ha, hb] at h
        refine ⟨t, by simp [evalC, hr, hs, ht], ?_, hto⟩
        rw [← h, tre, tim, ← hv, ← hsv]
  | div a b iha ihb =>
    obtain ⟨a1, a2⟩ := iha hl.1
    obtain ⟨b1, b2⟩ := ihb hl.2
    cases ha : denoteC a with
    | none => exact ⟨fun z h => by simp [denoteC, ha] at h, fun _ => by simp [evalC, a2 ha]⟩
    | some w =>
      obtain ⟨r, hr, hv, ho⟩ := a1 w ha
      cases hb : denoteC b with
      | none => exact ⟨fun z h => by simp [denoteC, ha, hb] at h, fun _ => by simp [evalC, hr, b2 hb]⟩
      | some w2 =>
        obtain ⟨s, hs, hsv, hso⟩ := b1 w2 hb
        obtain ⟨d1, d2⟩ := div_val r s ho hso
        obtain ⟨x, y⟩ := w2
        obtain ⟨u, v⟩ := w
        have hx : valQ s.re = x := congrArg Prod.fst hsv
        have hy : valQ s.im = y := congrArg Prod.snd hsv
        have hu : valQ r.re = u := congrArg Prod.fst hv
        have hvv : valQ r.im = v := congrArg Prod.snd hv
        by_cases hz : x = 0 ∧ y = 0
        · refine ⟨fun z h => by simp [denoteC, ha, hb, hz] at h, fun _ => ?_⟩
          simp [evalC, hr, hs, d1 (by rw [hx, hy]; exact hz)]
        · obtain ⟨q, hq, hqo, e1, e2⟩ := d2 (by rw [hx, hy]; exact hz)
          rw [hx, hy, hu] at e1
          rw [hx, hy, hvv] at e2
          obtain ⟨f1, f2⟩ := quot_formula _ _ u v x y hz e1 e2
          refine ⟨fun z h => ?_, fun h => by simp [denoteC, ha, hb, hz] at h⟩
          simp [denoteC, ha, hb, hz] at h
          exact ⟨q, by simp [evalC, hr, hs, hq], by rw [← h, f1, f2], hqo⟩

end Cx
end Fend
