/-
Model of `core/src/date.rs`, `date/{year,month,day}.rs` and `date/parser.rs`.
Years are `Int` (Rust `i32`, `%` = `Int.tmod`, overflow = `panic`), months 1..12, days 1..31.
The specification side is the ordinal-day calendar (`ordinal`), independent of the code's formulas.
-/
namespace Fend.Date

structure Date where
  year : Int
  month : Nat
  day : Nat
deriving DecidableEq, Repr

def i32Max : Int := 2147483647
def i32Min : Int := -2147483648

/-- `Year::is_leap_year` (Rust `%` truncates toward zero) -/
def isLeap (y : Int) : Bool :=
  if y.tmod 400 = 0 then true else if y.tmod 100 = 0 then false else y.tmod 4 = 0

/-- `Month::number_of_days` -/
def monthLen (m : Nat) (y : Int) : Nat :=
  if m = 2 then (if isLeap y then 29 else 28)
  else if m = 4 ∨ m = 6 ∨ m = 9 ∨ m = 11 then 30 else 31

/-- `Year::next` (skips year 0); `none` = i32 overflow panic -/
def yearNext (y : Int) : Option Int :=
  if y = -1 then some 1 else if y + 1 > i32Max then none else some (y + 1)

def yearPrev (y : Int) : Option Int :=
  if y = 1 then some (-1) else if y - 1 < i32Min then none else some (y - 1)

def monthNext (m : Nat) : Nat := if m = 12 then 1 else m + 1
def monthPrev (m : Nat) : Nat := if m = 1 then 12 else m - 1

/-- `Date::next`; `none` = panic (year overflow) -/
def next (d : Date) : Option Date :=
  if d.day < monthLen d.month d.year then some { d with day := d.day + 1 }
  else if d.month = 12 then (yearNext d.year).map fun y => { year := y, month := 1, day := 1 }
  else some { d with day := 1, month := monthNext d.month }

def prev (d : Date) : Option Date :=
  if d.day > 1 then some { d with day := d.day - 1 }
  else if d.month = 1 then (yearPrev d.year).map fun y => { year := y, month := 12, day := 31 }
  else some { d with month := monthPrev d.month, day := monthLen (monthPrev d.month) d.year }

def monthOffsets (m : Nat) : Int × Int :=
  match m with
  | 1 => (0, 0) | 2 => (3, 3) | 3 => (3, 4) | 11 => (3, 4) | 4 => (6, 0) | 7 => (6, 0)
  | 5 => (1, 2) | 6 => (4, 5) | 8 => (2, 3) | 9 => (5, 6) | 12 => (5, 6) | 10 => (0, 1)
  | _ => (0, 0)

/-- `Date::day_of_week`: 0 = Sunday … 6 = Saturday; `none` = the `unreachable!()` arm -/
def dayOfWeek (d : Date) : Option Nat :=
  let y1 := d.year - 1
  let d1 := (1 + 5 * (y1.tmod 4) + 4 * (y1.tmod 100) + 6 * (y1.tmod 400)).tmod 7
  let ms := monthOffsets d.month
  let m := if isLeap d.year then ms.2 else ms.1
  let r := (d1 + m + ((d.day : Int) - 1)).tmod 7
  if 0 ≤ r ∧ r ≤ 6 then some r.toNat else none

def addDays : Nat → Date → Option Date
  | 0, d => some d
  | n + 1, d => match next d with
    | none => none
    | some d' => addDays n d'

def subDays : Nat → Date → Option Date
  | 0, d => some d
  | n + 1, d => match prev d with
    | none => none
    | some d' => subDays n d'

inductive DRes where
  | ok (d : Date)
  | nonExistent (year : Int) (month day : Nat)
  | panic
deriving DecidableEq, Repr

def yearsBack : Nat → Int → Option Int
  | 0, y => some y
  | n + 1, y => (yearPrev y).bind (yearsBack n)

def monthsBack : Nat → Int × Nat → Option (Int × Nat)
  | 0, ym => some ym
  | n + 1, (y, m) =>
    if m = 1 then (yearPrev y).bind fun y' => monthsBack n (y', 12)
    else monthsBack n (y, monthPrev m)

/-- `Date::diff_months(-n)` as used by `- n months` / `- n years` -/
def diffMonthsBack (d : Date) (n : Nat) : DRes :=
  match yearsBack (n / 12) d.year with
  | none => .panic
  | some y =>
    match monthsBack (n % 12) (y, d.month) with
    | none => .panic
    | some (y', m') =>
      if d.day > monthLen m' y' then .nonExistent y' m' d.day
      else .ok { year := y', month := m', day := d.day }

/-! ### specification: the ordinal-day calendar (year ≥ 1) -/

def specLeap (y : Int) : Prop := y % 400 = 0 ∨ (y % 100 ≠ 0 ∧ y % 4 = 0)
instance (y : Int) : Decidable (specLeap y) := by unfold specLeap; infer_instance

def specMonthLen (m : Nat) (y : Int) : Nat :=
  match m with
  | 1 => 31 | 2 => if specLeap y then 29 else 28 | 3 => 31 | 4 => 30 | 5 => 31 | 6 => 30
  | 7 => 31 | 8 => 31 | 9 => 30 | 10 => 31 | 11 => 30 | 12 => 31 | _ => 0

def daysBefore (m : Nat) (y : Int) : Int :=
  let l : Int := if specLeap y then 1 else 0
  match m with
  | 1 => 0 | 2 => 31 | 3 => 59 + l | 4 => 90 + l | 5 => 120 + l | 6 => 151 + l
  | 7 => 181 + l | 8 => 212 + l | 9 => 243 + l | 10 => 273 + l | 11 => 304 + l | 12 => 334 + l
  | _ => 0

/-- a real Gregorian date of year ≥ 1 -/
def Real (d : Date) : Prop :=
  1 ≤ d.year ∧ 1 ≤ d.month ∧ d.month ≤ 12 ∧ 1 ≤ d.day ∧ d.day ≤ specMonthLen d.month d.year
instance (d : Date) : Decidable (Real d) := by unfold Real; infer_instance

/-- days since 0000-12-31 (so 0001-01-01 ↦ 1, a Monday) -/
def ordinal (d : Date) : Int :=
  365 * (d.year - 1) + (d.year - 1) / 4 - (d.year - 1) / 100 + (d.year - 1) / 400
    + daysBefore d.month d.year + d.day

/-! ### date literal parser (`date/parser.rs`), over code points -/

def digitVal (c : Nat) : Option Nat := if 48 ≤ c ∧ c ≤ 57 then some (c - 48) else none

/-- `parse_num`: at least one digit, value must stay within i32 -/
def parseNum (cs : List Nat) (leadingZeroes : Bool) : Option (Nat × List Nat) :=
  match cs with
  | [] => none
  | c :: rest =>
    match digitVal c with
    | none => none
    | some d0 =>
      if !leadingZeroes && d0 = 0 then none else
      let rec go (num : Nat) : List Nat → Option (Nat × List Nat)
        | [] => some (num, [])
        | c :: rest =>
          match digitVal c with
          | none => some (num, c :: rest)
          | some d => if num * 10 + d > 2147483647 then none else go (num * 10 + d) rest
      go d0 rest

/-- `parse_yyyymmdd` followed by the "nothing remains" test of `parse_date` (input already trimmed) -/
def parseDate (cs : List Nat) : Option Date := do
  let (y, cs) ← parseNum cs false
  match cs with
  | 45 :: cs =>
    if y < 1000 then none else
    let (m, cs) ← parseNum cs true
    match cs with
    | 45 :: cs =>
      if m < 1 ∨ m > 12 then none else
      let (d, cs) ← parseNum cs true
      if d < 1 ∨ d > monthLen m y then none else
      if cs = [] then some { year := y, month := m, day := d } else none
    | _ => none
  | _ => none

/-- the lexer's `@…` scanner (`lexer.rs::parse_date`): ASCII digits, `-`, digits, `-`, digits;
returns the literal text and what follows it -/
def scanDate (cs : List Nat) : Option (List Nat × List Nat) :=
  let isDigit (c : Nat) : Bool := 48 ≤ c && c ≤ 57
  let d1 := cs.takeWhile isDigit
  let r1 := cs.dropWhile isDigit
  if d1 = [] then none else
  match r1 with
  | 45 :: r1 =>
    let d2 := r1.takeWhile isDigit
    let r2 := r1.dropWhile isDigit
    if d2 = [] then none else
    match r2 with
    | 45 :: r2 =>
      let d3 := r2.takeWhile isDigit
      let r3 := r2.dropWhile isDigit
      if d3 = [] then none else some (d1 ++ [45] ++ d2 ++ [45] ++ d3, r3)
    | _ => none
  | _ => none

end Fend.Date
