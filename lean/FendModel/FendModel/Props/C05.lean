/-
C05 — dimensional analysis is sound: incompatible quantities never combine.
-/
import FendModel.Model.Units
import Mathlib.Tactic.Ring

namespace Fend.C05
open Fend.Units

/-- converting (and adding / subtracting, which scale through the same check) between quantities
whose reduced dimensions differ in some base unit is always the incompatible-units error -/
theorem convert_incompatible (bases : List Nat) (x : Rat) (a b : UnitV) (u : Nat) (hu : u ∈ bases)
    (hd : expOf u (reduce a.dims).1 ≠ expOf u (reduce b.dims).1) : convert bases x a b = none := by
  unfold convert
  generalize reduce a.dims = ra at *
  generalize reduce b.dims = rb at *
  obtain ⟨da, adja, offa⟩ := ra
  obtain ⟨db, adjb, offb⟩ := rb
  simp only at hd ⊢
  have : sameDims bases da db = false := by
    unfold sameDims
    apply Bool.eq_false_iff.mpr
    intro hall
    have := List.all_eq_true.mp hall u hu
    simp at this
    exact hd this
  simp [this]

theorem add_incompatible (bases : List Nat) (x y : Rat) (a b : UnitV) (u : Nat) (hu : u ∈ bases)
    (hd : expOf u (reduce b.dims).1 ≠ expOf u (reduce a.dims).1) : addIn bases x a y b = none := by
  unfold addIn
  generalize reduce a.dims = ra at *
  generalize reduce b.dims = rb at *
  obtain ⟨da, adja, offa⟩ := ra
  obtain ⟨db, adjb, offb⟩ := rb
  simp only at hd ⊢
  have : sameDims bases db da = false := by
    unfold sameDims
    apply Bool.eq_false_iff.mpr
    intro hall
    have := List.all_eq_true.mp hall u hu
    simp at this
    exact hd this
  simp [this]

/-- multiplying adds dimension exponents -/
theorem mul_dims (b : Nat) (x y : Dims) : expOf b (mulDims x y) = expOf b x + expOf b y := by
  unfold mulDims
  induction x with
  | nil => simp [expOf]
  | cons p rest ih => obtain ⟨b', e⟩ := p; simp only [List.cons_append, expOf, ih]; ring

theorem expOf_neg (b : Nat) (y : Dims) : expOf b (y.map fun (x, e) => (x, -e)) = - expOf b y := by
  induction y with
  | nil => simp [expOf]
  | cons p rest ih =>
    obtain ⟨b', e⟩ := p
    simp only [List.map_cons, expOf, ih]
    split <;> ring

/-- dividing subtracts them -/
theorem div_dims (b : Nat) (x y : Dims) : expOf b (divDims x y) = expOf b x - expOf b y := by
  unfold divDims
  have := mul_dims b x (y.map fun (x, e) => (x, -e))
  unfold mulDims at this
  rw [this, expOf_neg]; ring

/-- raising to a rational power multiplies them -/
theorem pow_dims (b : Nat) (x : Dims) (q : Rat) : expOf b (powDims x q) = expOf b x * q := by
  unfold powDims
  induction x with
  | nil => simp [expOf]
  | cons p rest ih =>
    obtain ⟨b', e⟩ := p
    simp only [List.map_cons, expOf, ih]
    split <;> ring

-- non-vacuity: metre vs second are incompatible in the `second` base unit
example : expOf 3 (reduce [(4, (1 : Rat))]).1 ≠ expOf 3 (reduce [(3, (1 : Rat))]).1 := by decide +kernel

end Fend.C05
