/-
C15 — elementary functions are accurate, flagged, and exact at special points.
What a theorem can carry here is the decision logic: the table of exact trigonometric points against the real
sine and cosine (Mathlib), and the error of the f64 -> rational bridge.  How accurate libm is cannot be proved
in this model and is measured by the correspondence run against a 40-digit reference.
-/
import FendModel.Model.Elementary
import Mathlib.Analysis.SpecialFunctions.Trigonometric.Basic
import Mathlib.Tactic.Ring
import Mathlib.Tactic.Linarith
import Mathlib.Tactic.FieldSimp
import Mathlib.Tactic.NormNum

namespace Fend.C15
open Fend.Elem Real

private theorem sin_reduce (m : Nat) : sin ((m : ℝ) * π / 6) = sin (((m % 12 : Nat) : ℝ) * π / 6) := by
  have h : (m : ℝ) = ((m % 12 : Nat) : ℝ) + ((m / 12 : Nat) : ℝ) * 12 := by
    have := Nat.mod_add_div m 12
    have h2 : ((m % 12 + 12 * (m / 12) : Nat) : ℝ) = (m : ℝ) := by rw [this]
    push_cast at h2; linarith
  have : (m : ℝ) * π / 6 = ((m % 12 : Nat) : ℝ) * π / 6 + ((m / 12 : Nat) : ℝ) * (2 * π) := by
    rw [h]; push_cast; ring
  rw [this, sin_add_nat_mul_two_pi]

private theorem sin_vals :
    sin ((0 : ℝ) * π / 6) = 0 ∧ sin ((1 : ℝ) * π / 6) = 1 / 2 ∧ sin ((3 : ℝ) * π / 6) = 1 ∧ sin ((5 : ℝ) * π / 6) = 1 / 2 ∧
    sin ((6 : ℝ) * π / 6) = 0 ∧ sin ((7 : ℝ) * π / 6) = -(1 / 2) ∧ sin ((9 : ℝ) * π / 6) = -1 ∧ sin ((11 : ℝ) * π / 6) = -(1 / 2) := by
  refine ⟨by simp, by rw [one_mul]; exact sin_pi_div_six, ?_, ?_, ?_, ?_, ?_, ?_⟩
  · have : (3 : ℝ) * π / 6 = π / 2 := by ring
    rw [this, sin_pi_div_two]
  · have : (5 : ℝ) * π / 6 = π - π / 6 := by ring
    rw [this, sin_pi_sub, sin_pi_div_six]
  · have : (6 : ℝ) * π / 6 = π := by ring
    rw [this, sin_pi]
  · have : (7 : ℝ) * π / 6 = π / 6 + π := by ring
    rw [this, sin_add_pi, sin_pi_div_six]
  · have : (9 : ℝ) * π / 6 = π / 2 + π := by ring
    rw [this, sin_add_pi, sin_pi_div_two]
  · have : (11 : ℝ) * π / 6 = (π - π / 6) + π := by ring
    rw [this, sin_add_pi, sin_pi_sub, sin_pi_div_six]

private theorem table_small (r : Nat) (hr : r < 12) (q : Rat) (h : sinTable r = some q) : sin (((r : Nat) : ℝ) * π / 6) = (q : ℝ) := by
  obtain ⟨v0, v1, v3, v5, v6, v7, v9, v11⟩ := sin_vals
  have hcases : r = 0 ∨ r = 1 ∨ r = 2 ∨ r = 3 ∨ r = 4 ∨ r = 5 ∨ r = 6 ∨ r = 7 ∨ r = 8 ∨ r = 9 ∨ r = 10 ∨ r = 11 := by omega
  rcases hcases with rfl | rfl | rfl | rfl | rfl | rfl | rfl | rfl | rfl | rfl | rfl | rfl
  · norm_num [sinTable] at h; subst h; push_cast; simpa using v0
  · norm_num [sinTable] at h; subst h; push_cast; simpa using v1
  · norm_num [sinTable] at h; cases h
  · norm_num [sinTable] at h; subst h; push_cast; simpa using v3
  · norm_num [sinTable] at h; cases h
  · norm_num [sinTable] at h; subst h; push_cast; simpa using v5
  · norm_num [sinTable] at h; subst h; push_cast; simpa using v6
  · norm_num [sinTable] at h; subst h; push_cast; rw [v7]
  · norm_num [sinTable] at h; cases h
  · norm_num [sinTable] at h; subst h; push_cast; simpa using v9
  · norm_num [sinTable] at h; cases h
  · norm_num [sinTable] at h; subst h; push_cast; rw [v11]

private theorem table_mod (m : Nat) : sinTable m = sinTable (m % 12) := by
  unfold sinTable
  have h6 : m % 12 % 6 = m % 6 := by omega
  have h12 : m % 12 % 12 = m % 12 := by omega
  rw [h6, h12]

/-- **every exact point the code knows is right**: whenever `Real::sin` answers a multiple `m·π/6` from its
table, the answer is the real sine -/
theorem sin_table_correct (m : Nat) (q : Rat) (h : sinTable m = some q) : sin ((m : ℝ) * π / 6) = (q : ℝ) := by
  rw [sin_reduce]
  rw [table_mod] at h
  exact table_small (m % 12) (Nat.mod_lt _ (by norm_num)) q h

/-- … also for negative multiples … -/
theorem sinPi_correct (m : Int) (q : Rat) (h : sinPi m = some q) : sin ((m : ℝ) * π / 6) = (q : ℝ) := by
  unfold sinPi at h
  split at h
  · rename_i hneg
    rw [Option.map_eq_some_iff] at h
    obtain ⟨p, hp, hq⟩ := h
    have := sin_table_correct (-m).toNat p hp
    have hcast : (((-m).toNat : Nat) : ℝ) = -(m : ℝ) := by
      have : (((-m).toNat : Nat) : Int) = -m := Int.toNat_of_nonneg (by omega)
      have h2 : ((((-m).toNat : Nat) : Int) : ℝ) = ((-m : Int) : ℝ) := by rw [this]
      push_cast at h2; exact h2
    rw [hcast] at this
    have h3 : (m : ℝ) * π / 6 = -(-(m : ℝ) * π / 6) := by ring
    rw [h3, sin_neg, this, ← hq]; push_cast; ring
  · rename_i hpos
    have := sin_table_correct m.toNat q h
    have hcast : ((m.toNat : Nat) : ℝ) = (m : ℝ) := by
      have : ((m.toNat : Nat) : Int) = m := Int.toNat_of_nonneg (by omega)
      have h2 : (((m.toNat : Nat) : Int) : ℝ) = ((m : Int) : ℝ) := by rw [this]
      exact_mod_cast h2
    rw [hcast] at this; exact this

/-- … and for the cosine, which the code computes as `sin (x + π/2)` -/
theorem cosPi_correct (m : Int) (q : Rat) (h : cosPi m = some q) : cos ((m : ℝ) * π / 6) = (q : ℝ) := by
  unfold cosPi at h
  have := sinPi_correct (m + 3) q h
  rw [← this]
  have : (((m + 3 : Int)) : ℝ) * π / 6 = (m : ℝ) * π / 6 + π / 2 := by push_cast; ring
  rw [this, sin_add_pi_div_two]

/-- the documented exact points ARE in the table: multiples of π/2, and the multiples of π/6 whose sine is ±1/2 -/
theorem documented_points : sinTable 0 = some 0 ∧ sinTable 1 = some (1 / 2) ∧ sinTable 3 = some 1 ∧ sinTable 5 = some (1 / 2) ∧
    sinTable 6 = some 0 ∧ sinTable 7 = some (-1 / 2) ∧ sinTable 9 = some (-1) ∧ sinTable 11 = some (-1 / 2) ∧
    (∀ k : Nat, (sinTable (3 * k)).isSome = true) := by
  refine ⟨by norm_num [sinTable], by norm_num [sinTable], by norm_num [sinTable], by norm_num [sinTable], by norm_num [sinTable], by norm_num [sinTable], by norm_num [sinTable], by norm_num [sinTable], ?_⟩
  intro k
  unfold sinTable
  have : (3 * k) % 12 = 0 ∨ (3 * k) % 12 = 3 ∨ (3 * k) % 12 = 6 ∨ (3 * k) % 12 = 9 := by omega
  rcases this with h | h | h | h
  · have : (3 * k) % 6 = 0 := by omega
    simp [this]
  · have : (3 * k) % 6 ≠ 0 := by omega
    simp [this, h]
  · have : (3 * k) % 6 = 0 := by omega
    simp [this]
  · have : (3 * k) % 6 ≠ 0 := by omega
    simp [this, h]

/-- **the f64 -> rational bridge loses less than 2^-63** (absolute) on every float `mant / 2^k`; floats of 2^64 or
more are decoded exactly and infinities / NaN are an error (below) -/
theorem fixedOf_close (mant k : Nat) : |fixedOf mant k - (mant : Rat) / 2 ^ k| < 1 / 2 ^ 63 := by
  unfold fixedOf
  set B : Rat := 18446744073709551616 with hB
  have hBpos : (0 : Rat) < B := by norm_num [hB]
  set D : Nat := 2 ^ k with hD
  have hDpos : 0 < D := by positivity
  set i : Nat := mant * 18446744073709551616 / D with hi
  have hi1n : D * i ≤ mant * 18446744073709551616 := Nat.mul_div_le _ _
  have hi2n : mant * 18446744073709551616 < D * (i + 1) := Nat.lt_mul_div_succ _ hDpos
  have hDq : (0 : Rat) < (D : Rat) := by exact_mod_cast hDpos
  have hi1 : (D : Rat) * (i : Rat) ≤ (mant : Rat) * B := by rw [hB]; exact_mod_cast hi1n
  have hi2 : (mant : Rat) * B < (D : Rat) * ((i : Rat) + 1) := by rw [hB]; exact_mod_cast hi2n
  have hDcast : ((2 : Rat) ^ k) = (D : Rat) := by rw [hD]; push_cast; rfl
  rw [hDcast]
  set f : Rat := (mant : Rat) / (D : Rat) with hf
  have hfB1 : (i : Rat) ≤ f * B := by
    rw [hf, div_mul_eq_mul_div, le_div_iff₀ hDq]; linarith
  have hfB2 : f * B < (i : Rat) + 1 := by
    rw [hf, div_mul_eq_mul_div, div_lt_iff₀ hDq]; linarith
  have hsplit : (i : Rat) = ((i % 18446744073709551616 : Nat) : Rat) + ((i / 18446744073709551616 : Nat) : Rat) * B := by
    have := Nat.mod_add_div i 18446744073709551616
    have h2 : ((i % 18446744073709551616 + 18446744073709551616 * (i / 18446744073709551616) : Nat) : Rat) = (i : Rat) := by rw [this]
    push_cast at h2; rw [hB]; linarith
  set p1 : Rat := ((i % 18446744073709551616 : Nat) : Rat) with hp1
  set p2 : Rat := ((i / 18446744073709551616 : Nat) : Rat) with hp2
  have hp1lt : p1 < B := by
    have : i % 18446744073709551616 < 18446744073709551616 := Nat.mod_lt _ (by norm_num)
    rw [hp1, hB]; exact_mod_cast this
  have hp1ge : (0 : Rat) ≤ p1 := by rw [hp1]; positivity
  have hB1 : (0 : Rat) < B - 1 := by norm_num [hB]
  have hval : (p1 + p2 * (18446744073709551615 : Rat)) / 18446744073709551615 = p2 + p1 / (B - 1) := by
    rw [hB]; field_simp; ring
  rw [hval]
  have hf1 : p2 + p1 / B ≤ f := by
    have : (i : Rat) / B ≤ f := by rw [div_le_iff₀ hBpos]; exact hfB1
    rw [hsplit] at this
    have h3 : (p1 + p2 * B) / B = p2 + p1 / B := by field_simp <;> ring
    linarith
  have hf2 : f < p2 + (p1 + 1) / B := by
    have : f < ((i : Rat) + 1) / B := by rw [lt_div_iff₀ hBpos]; exact hfB2
    rw [hsplit] at this
    have h3 : (p1 + p2 * B + 1) / B = p2 + (p1 + 1) / B := by field_simp; ring
    linarith
  have hp1le : p1 ≤ B - 1 := by
    have : i % 18446744073709551616 ≤ 18446744073709551615 := by
      have := Nat.mod_lt i (by norm_num : 18446744073709551616 > 0); omega
    have h2 : ((i % 18446744073709551616 : Nat) : Rat) ≤ ((18446744073709551615 : Nat) : Rat) := by exact_mod_cast this
    rw [hp1, hB]; norm_num at h2 ⊢; linarith
  have hgap : p1 / (B - 1) - p1 / B ≤ 1 / B := by
    rw [div_sub_div _ _ (ne_of_gt hB1) (ne_of_gt hBpos), div_le_div_iff₀ (by positivity) hBpos]
    nlinarith
  have hgap0 : 0 ≤ p1 / (B - 1) - p1 / B := by
    rw [sub_nonneg]
    apply div_le_div_of_nonneg_left hp1ge hB1; linarith
  have h1B : (1 : Rat) / B = 1 / 2 ^ 64 := by norm_num [hB]
  have h63 : (1 : Rat) / 2 ^ 64 + 1 / 2 ^ 64 = 1 / 2 ^ 63 := by norm_num
  have hsum : (p1 + 1) / B = p1 / B + 1 / B := by ring
  rw [abs_lt]
  constructor <;> linarith

/-- a float of 2^64 or more passes through unchanged, and a non-finite one is an error: nothing saturates -/
theorem fromF64_large_exact (bits m up down : Nat) (hd : decodeParts bits = some (m, up, down))
    (hbig : m * 2 ^ up ≥ 18446744073709551616 * 2 ^ down) : fromF64 bits = .ok ((m : Rat) * 2 ^ up / 2 ^ down) := by
  simp [fromF64, hd, hbig]

theorem fromF64_nonfinite (bits : Nat) (hd : decodeParts bits = none) : fromF64 bits = .error .valueTooLarge := by
  simp [fromF64, hd]

-- tests on instances: 1.0, 2^64, +inf
example : decodeParts 0x3FF0000000000000 = some (4503599627370496, 0, 52) ∧ decodeParts 0x43F0000000000000 = some (4503599627370496, 12, 0) ∧
    decodeParts 0x7FF0000000000000 = none := by
  refine ⟨?_, ?_, ?_⟩ <;> decide +kernel

end Fend.C15
