/-
Multi-bit shifts (`lshift_n`, `rshift_n` of `core/src/num/biguint.rs`): the whole-limb splice
followed by `n % 64` one-bit shifts multiplies by `2^n`; the early-exit loop of `rshift_n`
divides by `2^n`.
-/
import FendModel.Proofs.BigUintShift
import FendModel.Proofs.BigUintPow

namespace Fend.BigUint

theorem shlLimbs_ne (v : List Nat) (cin : Nat) (h : v ≠ []) : shlLimbs v cin ≠ [] := by
  cases v with
  | nil => exact absurd rfl h
  | cons x xs => simp [shlLimbs]

theorem lshift_ne (a r : BigUint) (h : a.lshift = .ok r) (hne : a.limbs ≠ []) : r.limbs ≠ [] := by
  cases a with
  | small n =>
    by_cases hh : n / 4611686018427387904 = 0
    · simp [lshift, hh] at h; subst h; simp [limbs]
    · simp [lshift, hh] at h; subst h; simp [limbs]
  | large v =>
    simp only [limbs] at hne
    cases hl : v.getLast? with
    | none => simp at hl; exact absurd hl hne
    | some l =>
      by_cases htop : l / 9223372036854775808 % 2 ≠ 0
      · simp [lshift, hl, htop] at h; subst h
        simp only [limbs]; exact shlLimbs_ne _ _ (by simp)
      · simp [lshift, hl, htop] at h; subst h
        simp only [limbs]; exact shlLimbs_ne _ _ hne

/-- `k` one-bit left shifts multiply by `2^k` and never panic on a non-empty limb vector -/
theorem lshiftTimes_val (k : Nat) (a : BigUint) (ha : a.WF) (hne : a.limbs ≠ []) :
    ∃ r, lshiftTimes k a = .ok r ∧ val r = 2 ^ k * val a ∧ r.WF := by
  induction k generalizing a with
  | zero => exact ⟨a, rfl, by simp, ha⟩
  | succ k ih =>
    obtain ⟨y, hy, hv, hw⟩ := lshift_val a ha hne
    obtain ⟨r, hr, hrv, hrw⟩ := ih y hw (lshift_ne a y hy hne)
    refine ⟨r, by simp [lshiftTimes, hy, hr], ?_, hrw⟩
    rw [hrv, hv, pow_succ]; ring

/-- the early-exit loop of `rshift_n` divides by `2^k` -/
theorem rshiftTimes_val (k : Nat) (a : BigUint) (ha : a.WF) :
    val (rshiftTimes k a) = val a / 2 ^ k ∧ (rshiftTimes k a).WF := by
  induction k generalizing a with
  | zero => simp [rshiftTimes, ha]
  | succ k ih =>
    by_cases hz : a.isZero = true
    · have h0 : val a = 0 := (isZero_iff a).mp hz
      simp [rshiftTimes, hz, h0, ha]
    · have hz' : a.isZero = false := by simpa using hz
      obtain ⟨hv, hw⟩ := rshift_val a ha
      obtain ⟨hv', hw'⟩ := ih a.rshift hw
      refine ⟨?_, by simpa [rshiftTimes, hz'] using hw'⟩
      simp only [rshiftTimes, hz']
      rw [show (if false = true then a else rshiftTimes k a.rshift) = rshiftTimes k a.rshift from rfl,
        hv', hv, Nat.div_div_eq_div_mul, pow_succ, Nat.mul_comm]

theorem valL_zeros_append (k : Nat) (v : List Nat) :
    valL (List.replicate k 0 ++ v) = B ^ k * valL v := by
  rw [valL_append, valL_replicate_zero]; simp

theorem makeLarge_limbs_val (a : BigUint) : valL (makeLarge a).limbs = val a := by
  cases a <;> simp [makeLarge, limbs, val, valL]

theorem makeLarge_limbs_WFL (a : BigUint) (ha : a.WF) : WFL (makeLarge a).limbs := by
  cases a with
  | small n => intro y hy; simp [makeLarge, limbs] at hy; subst hy; exact ha
  | large v => simpa [makeLarge, limbs, WF, WFL] using ha

theorem makeLarge_limbs_ne (a : BigUint) (hne : a.limbs ≠ []) : (makeLarge a).limbs ≠ [] := by
  cases a <;> simp_all [makeLarge, limbs]

/-- `lshift_n`: for every shift count that fits a machine word, the result is `self * 2^n` -/
theorem lshiftN_val (a rhs : BigUint) (ha : a.WF) (hne : a.limbs ≠ []) (hf : rhs.fitsU64 = true) :
    ∃ r, lshiftN a rhs = .ok r ∧ val r = val a * 2 ^ val rhs ∧ r.WF := by
  have hn : tryAsUsize rhs = .ok (val rhs) := by simp [tryAsUsize, hf, get0_of_fits rhs hf]
  by_cases hbig : val rhs > 64
  · have hw : (large (List.replicate (val rhs / 64) 0 ++ (makeLarge a).limbs)).WF := by
      intro y hy
      rcases List.mem_append.mp hy with h | h
      · rw [List.mem_replicate] at h; rw [h.2]; exact B_pos
      · exact makeLarge_limbs_WFL a ha y h
    have hne' : (large (List.replicate (val rhs / 64) 0 ++ (makeLarge a).limbs)).limbs ≠ [] := by
      simp only [limbs]; intro h
      exact makeLarge_limbs_ne a hne (List.append_eq_nil_iff.mp h).2
    obtain ⟨r, hr, hv, hrw⟩ := lshiftTimes_val (val rhs % 64) _ hw hne'
    refine ⟨r, ?_, ?_, hrw⟩
    · simp only [lshiftN, hn]
      show (if val rhs > 64 then _ else _) = _
      rw [if_pos hbig]; exact hr
    · rw [hv]
      show 2 ^ (val rhs % 64) * valL (List.replicate (val rhs / 64) 0 ++ (makeLarge a).limbs) = _
      rw [valL_zeros_append, makeLarge_limbs_val]
      have hB : B ^ (val rhs / 64) = 2 ^ (64 * (val rhs / 64)) := by
        rw [pow_mul]; rfl
      have : 2 ^ val rhs = 2 ^ (val rhs % 64) * 2 ^ (64 * (val rhs / 64)) := by
        rw [← pow_add]; congr 1; omega
      rw [hB, this]; ring
  · obtain ⟨r, hr, hv, hrw⟩ := lshiftTimes_val (val rhs) a ha hne
    refine ⟨r, ?_, by rw [hv]; ring, hrw⟩
    simp only [lshiftN, hn]
    show (if val rhs > 64 then _ else _) = _
    rw [if_neg hbig]; exact hr

theorem rshiftN_val (a rhs : BigUint) (ha : a.WF) (hf : rhs.fitsU64 = true) :
    ∃ r, rshiftN a rhs = .ok r ∧ val r = val a / 2 ^ val rhs ∧ r.WF := by
  have hn : tryAsUsize rhs = .ok (val rhs) := by simp [tryAsUsize, hf, get0_of_fits rhs hf]
  obtain ⟨hv, hw⟩ := rshiftTimes_val (val rhs) a ha
  exact ⟨_, by simp only [rshiftN, hn]; rfl, hv, hw⟩

end Fend.BigUint
