/-
C16 — calendar arithmetic follows the proleptic Gregorian calendar.
Spec side: the ordinal-day calendar (`ordinal`, `Real`, `specMonthLen`) of Model/Date.lean, which
does not use the code's formulas. All theorems are for every date of year ≥ 1 and every offset.
-/
import FendModel.Proofs.Date

namespace Fend.C16
open Fend.Date

/-- a date literal the parser accepts names a real Gregorian date with 1000 ≤ year ≤ i32::MAX -/
theorem literal_sound (cs : List Nat) (d : Date) (h : parseDate cs = some d) :
    Real d ∧ 1000 ≤ d.year ∧ d.year ≤ i32Max := parseDate_sound cs d h

/-- `next` is the next ordinal day, stays real, never panics below the i32 year limit -/
theorem next_ordinal (d : Date) (h : Real d) (hmax : d.year < i32Max) :
    ∃ d', next d = some d' ∧ ordinal d' = ordinal d + 1 ∧ Real d' := next_spec d h hmax

/-- `prev (next d) = d` -/
theorem prev_next_id (d : Date) (h : Real d) (hmax : d.year < i32Max) :
    ∃ d', next d = some d' ∧ prev d' = some d := prev_next d h hmax

/-- adding n days then subtracting n days returns the same date; the walk moves n ordinal days -/
theorem add_sub_days (n : Nat) (d : Date) (h : Real d) (hmax : d.year + n < i32Max) :
    ∃ d', addDays n d = some d' ∧ ordinal d' = ordinal d + n ∧ Real d' ∧ subDays n d' = some d := by
  obtain ⟨d', a, b, c, _, e⟩ := addDays_spec n d h hmax
  exact ⟨d', a, b, c, e⟩

/-- the weekday is the true one: ordinal day mod 7 with 0001-01-01 a Monday (0 = Sunday) -/
theorem weekday_correct (d : Date) (h : Real d) :
    dayOfWeek d = some ((ordinal d) % 7).toNat := dayOfWeek_spec d h

/-- consecutive days have consecutive weekdays, across every kind of boundary -/
theorem weekday_consecutive (d : Date) (h : Real d) (hmax : d.year < i32Max) :
    ∃ d' w, next d = some d' ∧ dayOfWeek d = some w ∧ dayOfWeek d' = some ((w + 1) % 7) :=
  weekday_succ d h hmax

/-- subtracting n months (n years = 12 n months) lands on the calendar-correct date or reports
that it does not exist -/
theorem sub_months (d : Date) (n : Nat) (h : Real d) (hr : 12 ≤ 12 * d.year + d.month - 1 - n) :
    ∃ (y' : Int) (m' : Nat), 1 ≤ m' ∧ m' ≤ 12 ∧ 1 ≤ y' ∧
      12 * y' + (m' : Int) - 1 = 12 * d.year + d.month - 1 - n ∧
      diffMonthsBack d n = (if d.day ≤ specMonthLen m' y'
        then .ok { year := y', month := m', day := d.day } else .nonExistent y' m' d.day) :=
  diffMonthsBack_spec d n h hr

/-- the anchor of the ordinal calendar, and known dates, as kernel-checked sanity tests -/
theorem anchors :
    ordinal ⟨1, 1, 1⟩ = 1 ∧ dayOfWeek ⟨1, 1, 1⟩ = some 1 ∧
    dayOfWeek ⟨1970, 1, 1⟩ = some 4 ∧ dayOfWeek ⟨2000, 2, 29⟩ = some 2 ∧
    dayOfWeek ⟨1900, 3, 1⟩ = some 4 ∧ ordinal ⟨1970, 1, 1⟩ = 719163 := by decide

/-- literals that must be rejected / accepted (tests, not the universal claim) -/
theorem literal_examples :
    parseDate ("2024-02-30".toList.map Char.toNat) = none ∧
    parseDate ("1900-02-29".toList.map Char.toNat) = none ∧
    parseDate ("2000-02-29".toList.map Char.toNat) = some ⟨2000, 2, 29⟩ ∧
    parseDate ("0999-12-31".toList.map Char.toNat) = none ∧
    parseDate ("2024-13-01".toList.map Char.toNat) = none ∧
    parseDate ("2024-2-3".toList.map Char.toNat) = some ⟨2024, 2, 3⟩ := by decide

-- non-vacuity: a leap day at a 400-year boundary meets every hypothesis used above
example : Real ⟨2000, 2, 29⟩ ∧ (2000 : Int) + 1000000 < i32Max ∧
    (12 : Int) ≤ 12 * 2000 + 2 - 1 - 13 := by decide

end Fend.C16
