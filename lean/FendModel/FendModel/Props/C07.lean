/-
C07 — evaluation is promptly interruptible and interruption leaves state sane.
Theorems about the trace machine of `Model/Interrupt.lean`, for EVERY trace and EVERY firing point.  Which trace
a given input produces — in particular whether every long loop contains a poll — is a fact about the Rust code
that the correspondence run measures (poll counts, gaps, time from firing to return, context afterwards).
-/
import FendModel.Model.Interrupt
import FendModel.Gen.PollSites

namespace Fend.C07
open Fend.Intr

/-- a predicate that never fires within the polls of a trace changes nothing: the run finishes, having made every
poll and every store -/
theorem no_fire_finishes (k : Nat) (t : List Ev) (p : Nat) (vs : Vars) (h : p + countPolls t ≤ k) :
    run k t p vs = (.finished, p + countPolls t, (stores t).reverse ++ vs, 0) := by
  induction t generalizing p vs with
  | nil => simp [run, countPolls, stores]
  | cons e r ih =>
    cases e with
    | work n => simpa [run, countPolls, stores] using ih p vs (by simpa [countPolls] using h)
    | poll =>
      simp only [countPolls] at h
      have hf : fires k p = false := by simp [fires]; omega
      simp only [run, hf, countPolls, stores]
      rw [ih (p + 1) vs (by omega)]
      simp; omega
    | store x v =>
      simp only [run, countPolls, stores]
      rw [ih p ((x, v) :: vs) (by simpa [countPolls] using h)]
      simp

/-- **prompt stop and sane state**: if the predicate starts saying "stop" at a poll the trace actually makes, the
outcome is `interrupted`, reached AT that poll — exactly `k + 1` polls were made and no work at all happens
afterwards — and the context holds exactly the stores made before that poll: every one a completely computed
value, none from a statement that had not finished -/
theorem fire_interrupts (k : Nat) (t : List Ev) (p : Nat) (vs : Vars) (hs : p ≤ k) (h : k < p + countPolls t) :
    run k t p vs = (.interrupted, k + 1, (stores (beforePoll (k - p) t)).reverse ++ vs, 0) := by
  induction t generalizing p vs with
  | nil => simp [countPolls] at h; omega
  | cons e r ih =>
    cases e with
    | work n =>
      have := ih p vs hs (by simpa [countPolls] using h)
      cases hk : k - p <;> simpa [run, beforePoll, stores, hk] using this
    | poll =>
      simp only [countPolls] at h
      simp only [run]
      by_cases hk : p = k
      · subst hk
        have hf : fires p p = true := by simp [fires]
        simp [hf, beforePoll, stores]
      · have hf : fires k p = false := by simp [fires]; omega
        simp only [hf]
        have := ih (p + 1) vs (by omega) (by omega)
        have hsub : k - p = (k - (p + 1)) + 1 := by omega
        rw [hsub]
        simpa [beforePoll, stores] using this
    | store x v =>
      have := ih p ((x, v) :: vs) hs (by simpa [countPolls] using h)
      cases hk : k - p <;> simpa [run, beforePoll, stores, hk] using this

/-- an interrupted run is a prefix of the uninterrupted one: what it stored, the uninterrupted run stores too, in
the same order (so "interrupted" and "finished with the uninterrupted result" are the only two outcomes) -/
theorem stores_prefix (k : Nat) (t : List Ev) : ∃ rest, stores t = stores (beforePoll k t) ++ rest := by
  induction t generalizing k with
  | nil => exact ⟨[], by simp [beforePoll, stores]⟩
  | cons e r ih =>
    cases e with
    | work n =>
      obtain ⟨rest, h⟩ := ih k
      refine ⟨rest, ?_⟩
      cases k <;> simpa [beforePoll, stores] using h
    | poll =>
      cases k with
      | zero => exact ⟨stores r, by simp [beforePoll, stores]⟩
      | succ k =>
        obtain ⟨rest, h⟩ := ih k
        exact ⟨rest, by simpa [beforePoll, stores] using h⟩
    | store x v =>
      obtain ⟨rest, h⟩ := ih k
      refine ⟨rest, ?_⟩
      cases k <;> simp [beforePoll, stores, h]

/-- the two cases are exhaustive: for every trace and every firing point the run either finishes exactly like the
uninterrupted run or stops at the firing poll -/
theorem interrupted_or_same (k : Nat) (t : List Ev) :
    run k t 0 [] = (.finished, countPolls t, (stores t).reverse, 0) ∨
    run k t 0 [] = (.interrupted, k + 1, (stores (beforePoll k t)).reverse, 0) := by
  by_cases h : countPolls t ≤ k
  · left; simpa using no_fire_finishes k t 0 [] (by simpa using h)
  · right; simpa using fire_interrupts k t 0 [] (Nat.zero_le _) (by omega)

-- non-vacuity: `x = 5; <work> ; y = 7` interrupted at the second poll keeps x and never sees y
example : run 1 [.poll, .work 10, .store "x" 5, .poll, .work 1000, .store "y" 7] 0 [] = (.interrupted, 2, [("x", 5)], 0) := by decide

/-! ### Tie A: which loops answer to the interrupt

`Fend.Gen.pollLoops` / `unpolledLoops` are regenerated from /repo on every run (translator/poll_sites.py): per function, the
number of loops whose body calls `test_int`, and the number of loops that neither poll nor hand the interrupt to a callee.
The two tables below are the reviewed state; the theorems make the build fail when a reviewed polling loop loses its poll, or
when a function gains an unpolled loop. -/

/-- functions whose long-running loops poll the interrupt, with the number of such loops -/
def reviewedPolled : List (String × String × Nat) :=
  [("core/src/date.rs", "add", 1),
   ("core/src/date.rs", "diff_months", 2),
   ("core/src/date.rs", "sub", 2),
   ("core/src/num/biguint.rs", "divmod", 1),
   ("core/src/num/biguint.rs", "factorial", 1),
   ("core/src/num/biguint.rs", "fibonacci", 1),
   ("core/src/num/biguint.rs", "format", 1),
   ("core/src/num/biguint.rs", "lshift", 1),
   ("core/src/num/biguint.rs", "mul_internal", 1),
   ("core/src/num/biguint.rs", "pow_internal", 1),
   ("core/src/num/biguint.rs", "root_n", 1),
   ("core/src/num/biguint.rs", "rshift", 1),
   ("core/src/num/biguint.rs", "rshift_n", 1),
   ("core/src/num/dist.rs", "bop", 3),
   ("core/src/num/dist.rs", "new_die", 2),
   ("core/src/num/unit/unit_exponent.rs", "add_to_hashmap", 1)]

/-- functions with loops that do not poll, the number of such loops, and why the time between polls stays bounded anyway -/
def reviewedUnpolled : List (String × String × Nat × String) :=
  [("core/src/ast.rs", "to_roman", 5, "bounded: the argument is range-checked to 1..=10^9 before the loops, at most a few dozen iterations"),
   ("core/src/date.rs", "diff_months", 2, "bounded loop of at most 7 / 12 iterations (the long loops of this function poll)"),
   ("core/src/date.rs", "sub", 1, "bounded loop of at most 7 / 12 iterations (the long loops of this function poll)"),
   ("core/src/date.rs", "today", 2, "calendar stepping from 1970 to the current date: bounded by the host clock, a few hundred iterations"),
   ("core/src/date/parser.rs", "parse_num", 1, "linear in the input text: one token / character per iteration, no arithmetic on values"),
   ("core/src/eval.rs", "evaluate_to_value", 2, "linear in the input text: one token / character per iteration, no arithmetic on values"),
   ("core/src/eval.rs", "parse_attrs", 1, "linear in the input text: one token / character per iteration, no arithmetic on values"),
   ("core/src/inline_substitutions.rs", "to_json", 1, "linear in the text being produced"),
   ("core/src/json.rs", "escape_string", 2, "linear in the text being produced"),
   ("core/src/lexer.rs", "parse_date", 2, "linear in the input text: one token / character per iteration, no arithmetic on values"),
   ("core/src/lexer.rs", "parse_ident", 1, "linear in the input text: one token / character per iteration, no arithmetic on values"),
   ("core/src/lexer.rs", "parse_power_number", 1, "linear in the input text: one token / character per iteration, no arithmetic on values"),
   ("core/src/lexer.rs", "parse_quote_unit", 1, "linear in the input text: one token / character per iteration, no arithmetic on values"),
   ("core/src/lexer.rs", "parse_string_literal", 1, "linear in the input text: one token / character per iteration, no arithmetic on values"),
   ("core/src/lexer.rs", "parse_unicode_escape", 1, "linear in the input text: one token / character per iteration, no arithmetic on values"),
   ("core/src/lexer.rs", "skip_whitespace_and_comments", 1, "linear in the input text: one token / character per iteration, no arithmetic on values"),
   ("core/src/lib.rs", "deserialize_variables_internal", 1, "linear in the saved image: one element per iteration"),
   ("core/src/lib.rs", "evaluate_with_interrupt_internal", 2, "linear in the number of outcomes / components / variables already held in memory, O(1) per iteration"),
   ("core/src/lib.rs", "get_completions_for_prefix", 1, "linear in the number of outcomes / components / variables already held in memory, O(1) per iteration"),
   ("core/src/lib.rs", "serialize_variables_internal", 1, "linear in the saved image: one element per iteration"),
   ("core/src/num/bigrat.rs", "format_nonrecurring", 1, "linear in the text being produced"),
   ("core/src/num/biguint.rs", "add_assign_internal", 1, "linear in the number of limbs (or of output digits already computed): O(1) work per iteration"),
   ("core/src/num/biguint.rs", "as_f64", 1, "linear in the number of limbs (or of output digits already computed): O(1) work per iteration"),
   ("core/src/num/biguint.rs", "bits", 1, "linear in the number of limbs (or of output digits already computed): O(1) work per iteration"),
   ("core/src/num/biguint.rs", "bitwise_and", 1, "linear in the number of limbs (or of output digits already computed): O(1) work per iteration"),
   ("core/src/num/biguint.rs", "bitwise_or", 2, "linear in the number of limbs (or of output digits already computed): O(1) work per iteration"),
   ("core/src/num/biguint.rs", "bitwise_xor", 2, "linear in the number of limbs (or of output digits already computed): O(1) work per iteration"),
   ("core/src/num/biguint.rs", "cmp", 1, "linear in the number of limbs (or of output digits already computed): O(1) work per iteration"),
   ("core/src/num/biguint.rs", "deserialize", 1, "linear in the saved image: one element per iteration"),
   ("core/src/num/biguint.rs", "fmt", 2, "linear in the number of limbs (or of output digits already computed): O(1) work per iteration"),
   ("core/src/num/biguint.rs", "format", 3, "linear in the number of limbs (or of output digits already computed): O(1) work per iteration"),
   ("core/src/num/biguint.rs", "hash", 1, "linear in the number of limbs (or of output digits already computed): O(1) work per iteration"),
   ("core/src/num/biguint.rs", "is_zero", 1, "linear in the number of limbs (or of output digits already computed): O(1) work per iteration"),
   ("core/src/num/biguint.rs", "serialize", 1, "linear in the saved image: one element per iteration"),
   ("core/src/num/biguint.rs", "set", 1, "linear in the number of limbs (or of output digits already computed): O(1) work per iteration"),
   ("core/src/num/biguint.rs", "sub", 1, "linear in the number of limbs (or of output digits already computed): O(1) work per iteration"),
   ("core/src/num/biguint.rs", "to_words", 2, "linear in the number of limbs (or of output digits already computed): O(1) work per iteration"),
   ("core/src/num/continued_fraction.rs", "as_f64", 1, "bounded by MAX_ITERATIONS / the precision of an f64"),
   ("core/src/num/continued_fraction.rs", "fmt", 1, "linear in the text being produced"),
   ("core/src/num/continued_fraction.rs", "from_f64", 1, "bounded by MAX_ITERATIONS / the precision of an f64"),
   ("core/src/num/continued_fraction.rs", "next", 2, "bounded by MAX_ITERATIONS / the precision of an f64"),
   ("core/src/num/dist.rs", "deserialize", 1, "linear in the saved image: one element per iteration"),
   ("core/src/num/dist.rs", "format", 1, "linear in the text being produced"),
   ("core/src/num/dist.rs", "neg", 1, "linear in the number of outcomes / components / variables already held in memory, O(1) per iteration"),
   ("core/src/num/dist.rs", "serialize", 1, "linear in the saved image: one element per iteration"),
   ("core/src/num/unit.rs", "deserialize", 1, "linear in the saved image: one element per iteration"),
   ("core/src/num/unit.rs", "div", 1, "linear in the number of outcomes / components / variables already held in memory, O(1) per iteration"),
   ("core/src/num/unit.rs", "fmt", 1, "linear in the text being produced"),
   ("core/src/num/unit.rs", "format", 2, "linear in the text being produced"),
   ("core/src/num/unit.rs", "serialize", 1, "linear in the saved image: one element per iteration"),
   ("core/src/num/unit/named_unit.rs", "deserialize", 1, "linear in the saved image: one element per iteration"),
   ("core/src/num/unit/named_unit.rs", "fmt", 1, "linear in the text being produced"),
   ("core/src/num/unit/named_unit.rs", "serialize", 1, "linear in the saved image: one element per iteration"),
   ("core/src/parser.rs", "fmt", 2, "linear in the input text: one token / character per iteration, no arithmetic on values"),
   ("core/src/parser.rs", "parse_additive", 1, "linear in the input text: one token / character per iteration, no arithmetic on values"),
   ("core/src/parser.rs", "parse_bitshifts", 1, "linear in the input text: one token / character per iteration, no arithmetic on values"),
   ("core/src/parser.rs", "parse_bitwise_and", 1, "linear in the input text: one token / character per iteration, no arithmetic on values"),
   ("core/src/parser.rs", "parse_bitwise_or", 1, "linear in the input text: one token / character per iteration, no arithmetic on values"),
   ("core/src/parser.rs", "parse_bitwise_xor", 1, "linear in the input text: one token / character per iteration, no arithmetic on values"),
   ("core/src/parser.rs", "parse_combination", 1, "linear in the input text: one token / character per iteration, no arithmetic on values"),
   ("core/src/parser.rs", "parse_factorial", 1, "linear in the input text: one token / character per iteration, no arithmetic on values"),
   ("core/src/parser.rs", "parse_multiplicative", 1, "linear in the input text: one token / character per iteration, no arithmetic on values"),
   ("core/src/parser.rs", "parse_permutation", 1, "linear in the input text: one token / character per iteration, no arithmetic on values"),
   ("core/src/parser.rs", "parse_statements", 2, "linear in the input text: one token / character per iteration, no arithmetic on values"),
   ("core/src/serialize.rs", "deserialize", 1, "linear in the saved image: one element per iteration"),
   ("core/src/units.rs", "get_completions_for_prefix", 2, "iterates over the fixed unit tables / the context's custom units"),
   ("core/src/units.rs", "query_unit_internal", 1, "iterates over the fixed unit tables / the context's custom units"),
   ("core/src/units/builtin.rs", "query_unit", 3, "iterates over the fixed unit tables / the context's custom units"),
   ("core/src/value.rs", "deserialize", 1, "linear in the saved image: one element per iteration"),
   ("core/src/value.rs", "fmt", 1, "linear in the text being produced"),
   ("core/src/value.rs", "format", 1, "linear in the text being produced"),
   ("core/src/value.rs", "format_to_plain_string", 1, "linear in the text being produced"),
   ("core/src/value.rs", "get_object_member", 1, "linear in the number of outcomes / components / variables already held in memory, O(1) per iteration"),
   ("core/src/value.rs", "serialize", 1, "linear in the saved image: one element per iteration")]

/-- every reviewed polling loop is still there -/
theorem polls_kept : reviewedPolled.all (fun r => Fend.Gen.pollLoops.any (fun s => s.1 == r.1 && s.2.1 == r.2.1 && decide (r.2.2 ≤ s.2.2))) = true := by
  decide +kernel

/-- no function has more unpolled loops than reviewed -/
theorem unpolled_reviewed : Fend.Gen.unpolledLoops.all (fun s => reviewedUnpolled.any (fun r => r.1 == s.1 && r.2.1 == s.2.1 && decide (s.2.2 ≤ r.2.2.1))) = true := by
  decide +kernel

end Fend.C07
