//! Stream `bigrat`: raw (sign, num limbs, den limbs) in and out, through the hooks.
use crate::common::*;
use fend_core::verif_hooks as h;

pub fn line(l: &str) -> String {
    let ws: Vec<&str> = l.trim().split(' ').collect();
    let int = Counting::never();
    let res = guarded(|| -> Result<String, String> {
        match ws.as_slice() {
            ["cmp", a, b] => {
                let a = parse_rat(a).ok_or("bad-op")?;
                let b = parse_rat(b).ok_or("bad-op")?;
                Ok(format!("{}", h::bigrat_cmp(&a, &b)))
            }
            ["from_f64", bits] => {
                let bits: u64 = bits.parse().map_err(|_| "bad-op")?;
                h::bigrat_from_f64(bits, &int).map(|v| show_rat(&v))
            }
            ["into_f64", a] => {
                let a = parse_rat(a).ok_or("bad-op")?;
                h::bigrat_into_f64(&a, &int).map(|b| b.to_string())
            }
            ["try_as_usize", a] => {
                let a = parse_rat(a).ok_or("bad-op")?;
                h::bigrat_try_as_usize(&a, &int).map(|n| n.to_string())
            }
            [op @ ("cadd" | "cmul" | "cdiv"), ar, ai, br, bi] => {
                // Exact<Complex> on rational parts: `<op> a.re a.im b.re b.im` -> `re im`
                let a = (parse_rat(ar).ok_or("bad-op")?, parse_rat(ai).ok_or("bad-op")?);
                let b = (parse_rat(br).ok_or("bad-op")?, parse_rat(bi).ok_or("bad-op")?);
                h::complex_op2(op, &a, &b, &int).map(|((re, im), e)| format!("{} {} {}", show_rat(&re), show_rat(&im), if e { "exact" } else { "approx" }))
            }
            [op, a] => {
                let a = parse_rat(a).ok_or("bad-op")?;
                h::bigrat_op1(op, &a, &int).map(|(v, _)| show_rat(&v))
            }
            [op, a, b] => {
                let a = parse_rat(a).ok_or("bad-op")?;
                let b = parse_rat(b).ok_or("bad-op")?;
                h::bigrat_op2(op, &a, &b, &int).map(|(v, e)| {
                    if *op == "pow" || *op == "root_n" {
                        format!("{} {}", show_rat(&v), if e { "exact" } else { "approx" })
                    } else {
                        show_rat(&v)
                    }
                })
            }
            _ => Err("bad-op".to_string()),
        }
    });
    match res {
        Ok(Ok(s)) => format!("ok {s}"),
        Ok(Err(e)) if e == "bad-op" || e.starts_with("unknown op") => "bad-op".to_string(),
        Ok(Err(e)) => format!("err {}", classify(&e)),
        Err(_p) => "err panic".to_string(),
    }
}

/// Stream `ratfmt`: `<style> <base> <prefix 0|1> <comma 0|1> <raw rat>` through `BigRat::format` (term = "").
pub fn fmt_line(l: &str) -> String {
    let ws: Vec<&str> = l.trim().split(' ').collect();
    let int = Counting::never();
    let res = guarded(|| -> Result<String, String> {
        match ws.as_slice() {
            [style, base, pfx, comma, a] => {
                let a = parse_rat(a).ok_or("bad-op")?;
                let base: u8 = base.parse().map_err(|_| "bad-op")?;
                h::bigrat_format(&a, style, base, *pfx == "1", "", false, *comma == "1", &int)
                    .map(|(t, e)| format!("{} {}", t, if e { "exact" } else { "approx" }))
            }
            _ => Err("bad-op".to_string()),
        }
    });
    match res {
        Ok(Ok(s)) => format!("ok {s}"),
        Ok(Err(e)) if e == "bad-op" => "bad-op".to_string(),
        Ok(Err(e)) => format!("err {}", classify(&e)),
        Err(_p) => "err panic".to_string(),
    }
}
