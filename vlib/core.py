"""Shared machinery of ./check: build steps, proof status, differential streams,
known findings, evidence.  See DESIGN.md sections 3-4."""
import fcntl, json, os, random, re, subprocess, sys, time, hashlib

VERIF = os.path.dirname(os.path.dirname(os.path.abspath(__file__)))
REPO = os.environ.get("VERIF_REPO", "/repo")
LEAN = os.path.join(VERIF, "lean", "FendModel")
WORK = os.path.join(VERIF, ".work")
HARNESS_DIR = os.path.join(VERIF, "harness")
DRIVER = os.path.join(LEAN, ".lake", "build", "bin", "fend_model_driver")
ALLOWED_AXIOMS = {"propext", "Classical.choice", "Quot.sound"}
FORBIDDEN = re.compile(r"\bsorry\b|\badmit\b|^axiom |native_decide|bv_decide|implemented_by|\bunsafe |maxHeartbeats 0", re.M)

TRUSTED_BASE = [
    "Lean 4.33.0 kernel; axioms allowed: propext, Classical.choice, Quot.sound (audited with #print axioms on every property theorem)",
    "no sorry/admit/native_decide/bv_decide/own axioms (grep over the Lean sources on every run)",
    "the hand-written Lean model is tied to the Rust only by the correspondence run (Tie B) and by regenerated tables (Tie A)",
    "translator/, harness/ and vlib/ (python + Rust written for this task, unverified)",
    "rustc/LLVM/std, the fend `verif_hooks` module (forwards to crate-private functions, no logic)",
]


def sh(cmd, cwd=None, env=None, timeout=None, input=None):
    e = dict(os.environ)
    e["CARGO_NET_OFFLINE"] = "true"
    if env:
        e.update(env)
    p = subprocess.run(cmd, cwd=cwd, env=e, shell=isinstance(cmd, str), capture_output=True,
                       text=True, timeout=timeout, input=input)
    return p.returncode, p.stdout, p.stderr


class Lock:
    def __init__(self, name):
        os.makedirs(WORK, exist_ok=True)
        self.path = os.path.join(WORK, name + ".lock")
    def __enter__(self):
        self.f = open(self.path, "w")
        fcntl.flock(self.f, fcntl.LOCK_EX)
    def __exit__(self, *a):
        fcntl.flock(self.f, fcntl.LOCK_UN)
        self.f.close()


class Ctx:
    def __init__(self, pid, tier, seed):
        self.pid, self.tier, self.seed = pid, tier, seed
        self.rng = random.Random(seed)
        self.t0 = time.time()
        self.obligations = []      # (name, ok, detail)
        self.streams = []          # per-stream coverage dicts
        self.spec_failures = []    # impl contradicts specification on a concrete input
        self.model_disagreements = []  # impl differs from executable model
        self.proof_failures = []   # theorem / generated obligation that no longer checks
        self.notes = []
        self.samples = []
        self.assumptions = []
        os.makedirs(os.path.join(WORK, "replay"), exist_ok=True)
        os.makedirs(os.path.join(WORK, "tmp"), exist_ok=True)
        import glob
        for old in glob.glob(os.path.join(WORK, "replay", f"{pid}-*.json")):
            os.remove(old)
        self.known = json.load(open(os.path.join(VERIF, "known_findings.json")))["findings"]

    # ---------------------------------------------------------------- builds
    def lean_build(self, modules, exe=True):
        """lake build of the property modules (+ the driver).  Returns True when everything
        built.  Failures are recorded as proof failures with the theorem name when it can
        be located."""
        targets = list(modules) + (["fend_model_driver"] if exe else [])
        with Lock("lake"):
            rc, out, err = sh(["lake", "build"] + targets, cwd=LEAN, timeout=3000)
        self.lake_log = out + err
        if rc == 0:
            return True
        # locate failing declarations
        fails = []
        for m in re.finditer(r"error: ([^:\n]+\.lean):(\d+):(\d+):\s*(.*)", out + err):
            f, ln, msg = m.group(1), int(m.group(2)), m.group(4)
            path = f if os.path.isabs(f) else os.path.join(LEAN, f)
            decl = self._decl_at(path, ln)
            fails.append({"file": os.path.relpath(path, LEAN), "line": ln, "decl": decl, "msg": msg[:300]})
        if not fails:
            fails.append({"file": "?", "line": 0, "decl": "lake build", "msg": (out + err)[-600:]})
        self.proof_failures.extend(fails)
        return False

    @staticmethod
    def _decl_at(path, ln):
        try:
            lines = open(path).read().split("\n")
        except OSError:
            return "?"
        for i in range(min(ln, len(lines)) - 1, -1, -1):
            m = re.match(r"\s*(?:private |protected |@\[[^\]]*\]\s*)*(theorem|lemma|def|example|instance|abbrev)\s+([^\s:({\[]+)?", lines[i])
            if m:
                return (m.group(2) or m.group(1))
        return "?"

    def theorems_of(self, relpath):
        src = open(os.path.join(LEAN, relpath)).read()
        src_nc = strip_comments(src)
        return re.findall(r"^\s*theorem\s+([^\s:({\[]+)", src_nc, re.M)

    def audit(self, module, relpath, extra_files=()):
        """Stranger's checks: forbidden tokens outside comments; #print axioms of every
        theorem of the property file within the allowed set."""
        ok_all = True
        files = [relpath] + list(extra_files)
        for rp in files:
            src = strip_comments(open(os.path.join(LEAN, rp)).read())
            m = FORBIDDEN.search(src)
            if m:
                self.proof_failures.append({"file": rp, "decl": "forbidden token", "msg": m.group(0), "line": 0})
                ok_all = False
        thms = self.theorems_of(relpath)
        ns = self._namespace_of(relpath)
        body = f"import {module}\n" + "".join(f"#print axioms {ns}{t}\n" for t in thms)
        tmp = os.path.join(WORK, "tmp", f"audit_{self.pid}.lean")
        open(tmp, "w").write(body)
        rc, out, err = sh(["lake", "env", "lean", tmp], cwd=LEAN, timeout=1200)
        txt = out + err
        results = {}
        for m in re.finditer(r"'([^']+)' depends on axioms: \[([^\]]*)\]", txt):
            results[m.group(1)] = {a.strip() for a in m.group(2).replace("\n", " ").split(",") if a.strip()}
        for m in re.finditer(r"'([^']+)' does not depend on any axioms", txt):
            results[m.group(1)] = set()
        for t in thms:
            full = ns + t
            ax = results.get(full)
            if ax is None:
                self.obligations.append((full, False, "not found by #print axioms"))
                self.proof_failures.append({"file": relpath, "decl": full, "msg": "theorem missing or failed to elaborate: " + txt[-300:], "line": 0})
                ok_all = False
            elif not ax <= ALLOWED_AXIOMS:
                self.obligations.append((full, False, "axioms " + ",".join(sorted(ax))))
                self.proof_failures.append({"file": relpath, "decl": full, "msg": "disallowed axioms " + ",".join(sorted(ax - ALLOWED_AXIOMS)), "line": 0})
                ok_all = False
            else:
                self.obligations.append((full, True, "axioms: " + (",".join(sorted(ax)) or "none")))
        return ok_all

    @staticmethod
    def _namespace_of(relpath):
        src = open(os.path.join(LEAN, relpath)).read()
        m = re.search(r"^namespace\s+(\S+)", src, re.M)
        return (m.group(1) + ".") if m else ""

    def leanchecker(self, module):
        with Lock("lake"):
            rc, out, err = sh(["lake", "env", "leanchecker", module], cwd=LEAN, timeout=3000)
        ok = rc == 0
        self.obligations.append((f"leanchecker {module}", ok, (out + err)[-200:]))
        if not ok:
            self.proof_failures.append({"file": module, "decl": "leanchecker", "msg": (out + err)[-300:], "line": 0})
        return ok

    def harness(self, release=False):
        """cargo build of the harness against /repo's working tree with the hooks on."""
        lockfile = os.path.join(HARNESS_DIR, "Cargo.lock")
        if not os.path.exists(lockfile):
            import shutil
            shutil.copy(os.path.join(REPO, "Cargo.lock"), lockfile)
        cmd = ["cargo", "build", "--offline"] + (["--release"] if release else [])
        rc, out, err = sh(cmd, cwd=HARNESS_DIR, timeout=3000)
        if rc != 0:
            self.harness_error = err[-1500:]
            return None
        return os.path.join(WORK, "target", "release" if release else "debug", "fend-verif-harness")

    def cli(self):
        rc, out, err = sh(["cargo", "build", "--offline", "-p", "fend"], cwd=REPO,
                          env={"CARGO_TARGET_DIR": os.path.join(WORK, "target-cli")}, timeout=3000)
        if rc != 0:
            self.harness_error = err[-1500:]
            return None
        return os.path.join(WORK, "target-cli", "debug", "fend")

    # --------------------------------------------------------------- streams
    def run_lines(self, exe, args, lines, timeout=3000, env=None):
        data = "\n".join(lines) + "\n"
        def limit():
            import resource
            lim = int(os.environ.get("VERIF_MEM_LIMIT_GB", "6")) << 30
            resource.setrlimit(resource.RLIMIT_AS, (lim, lim))
        p = subprocess.run([exe] + args, input=data, capture_output=True, text=True, timeout=timeout,
                           env={**os.environ, **(env or {})}, preexec_fn=limit)
        out = p.stdout.split("\n")
        if out and out[-1] == "":
            out.pop()
        return p.returncode, out, p.stderr

    def run_lines_robust(self, exe, args, lines, timeout=3000, env=None, workers=1):
        """Like run_lines, but if the process dies (abort, stack overflow) bisects: the dying
        line is answered with `err abort` and the run continues after it.  `workers` > 1 splits the
        lines into contiguous chunks run by that many processes at once (only for streams whose
        lines are independent of each other and not timed)."""
        if workers > 1 and len(lines) >= 4 * workers:
            from concurrent.futures import ThreadPoolExecutor
            # round-robin, not contiguous: neighbouring lines are usually variations of one (possibly slow) base case
            chunks = [lines[i::workers] for i in range(workers)]
            with ThreadPoolExecutor(max_workers=workers) as ex:
                parts = list(ex.map(lambda c: self.run_lines_robust(exe, args, c, timeout=timeout, env=env), chunks))
            out = [None] * len(lines)
            for i, part in enumerate(parts):
                part = part + ["err abort"] * (len(chunks[i]) - len(part))
                out[i::workers] = part[:len(chunks[i])]
            return out
        res = []
        i = 0
        while i < len(lines):
            rc, out, err = self.run_lines(exe, args, lines[i:], timeout=timeout, env=env)
            res.extend(out[: len(lines) - i])
            if len(out) >= len(lines) - i:
                break
            # process died while handling line i+len(out); exit status 3 = the watchdog already
            # answered `err timeout` for the line that hung
            if rc != 3:
                res.append("err abort")
            i = len(res)
        return res

    def diff_stream(self, name, lines, harness_exe, stream, *, driver_stream=None,
                    canon=None, nontrivial=None, oracle=None, what="", env=None):
        """Run the same case lines through implementation and model, compare per line.
        canon(impl_line, model_line, case) -> (impl_c, model_c) canonical forms to compare.
        oracle(case, impl_line, model_line) -> None | str: independent specification verdict on
        the implementation's answer; a string means the implementation contradicts the spec."""
        t = time.time()
        impl = self.run_lines_robust(harness_exe, [stream], lines, env=env)
        try:
            rc, model, merr = self.run_lines(DRIVER, [driver_stream or stream], lines, timeout=900 if self.tier == "quick" else 3600)
        except subprocess.TimeoutExpired:
            rc, model, merr = 1, [], "model driver timed out (a generated case makes the executable model loop)"
        if len(model) != len(lines):
            self.proof_failures.append({"file": "Driver", "decl": f"driver stream {stream}", "line": 0,
                                        "msg": f"driver produced {len(model)} lines for {len(lines)} cases: {merr[-300:]}"})
            model = model + ["<missing>"] * (len(lines) - len(model))
        dist = {}
        seen = set()
        nontriv = 0
        dis = 0
        specf = 0
        for case, a, b in zip(lines, impl, model):
            key = case.split(" ")[0] + ":" + a.split(" ")[0] + (":" + a.split(" ")[1] if a.startswith("err") and len(a.split(" ")) > 1 else "")
            dist[key] = dist.get(key, 0) + 1
            if case not in seen:
                seen.add(case)
                if nontrivial is None or nontrivial(case, a):
                    nontriv += 1
            ca, cb = canon(a, b, case) if canon else (a, b)
            if oracle:
                v = oracle(case, a, b)
                if v:
                    specf += 1
                    self.spec_failures.append({"stream": name, "input": case, "impl": a, "model": b, "spec": v})
            if ca != cb:
                dis += 1
                self.model_disagreements.append({"stream": name, "input": case, "impl": a, "model": b})
        cov = {"stream": name, "what": what, "cases": len(lines), "distinct_nontrivial": nontriv,
               "distribution": self._compact(dict(sorted(dist.items()))), "model_disagreements": dis,
               "spec_failures": specf, "wall_s": round(time.time() - t, 2)}
        self.streams.append(cov)
        for s in lines[:: max(1, len(lines) // 3)][:3]:
            self.samples.append({"stream": name, "case": s if len(s) <= 2000 else s[:2000] + "..."})
        return cov

    @staticmethod
    def _compact(d, keep=120):
        """evidence files must stay small: a distribution with thousands of keys (one per code point, per unit name, ...) keeps its
        `keep` most frequent keys and sums the rest"""
        if isinstance(d, dict):
            d = {k: Ctx._compact(v, keep) for k, v in d.items()}
            if len(d) > keep:
                num = lambda v: v if isinstance(v, (int, float)) and not isinstance(v, bool) else 0
                items = sorted(d.items(), key=lambda kv: -num(kv[1]))
                rest = items[keep:]
                d = dict(items[:keep])
                d["(other keys)"] = {"keys": len(rest), "total": sum(num(v) for _, v in rest)}
            return d
        if isinstance(d, list) and len(d) > keep:
            return d[:keep] + [f"... {len(d) - keep} more"]
        if isinstance(d, str) and len(d) > 2000:
            return d[:2000] + "..."
        return d

    def record_stream(self, name, what, cases, nontriv, dist, samples, wall):
        self.streams.append({"stream": name, "what": what, "cases": cases, "distinct_nontrivial": nontriv,
                             "distribution": self._compact(dist), "wall_s": round(wall, 2)})
        for s in samples[:3]:
            self.samples.append({"stream": name, "case": s if not isinstance(s, str) or len(s) <= 2000 else s[:2000] + "..."})

    # ------------------------------------------------------------ conclusion
    def _known(self, f):
        for k in self.known:
            if k.get("status") != "known" or k["property"] != self.pid:
                continue
            m = k["match"]
            if all(str(f.get(kk)) == str(vv) for kk, vv in m.items()):
                return k
        return None

    def finish(self, level="proof", rule="", checker_cmd=None, extra=None):
        wall = time.time() - self.t0
        violations = []
        known_hits = []
        # 1. implementation contradicts the specification on a concrete input
        for f in self.spec_failures:
            k = self._known(f)
            if k:
                if k not in known_hits:
                    known_hits.append(k)
                continue
            violations.append(("spec", f))
        # 2. proof / correspondence no longer checks
        broken = []
        for f in self.proof_failures:
            k = self._known({"decl": f.get("decl"), **f})
            if k:
                if k not in known_hits:
                    known_hits.append(k)
                continue
            broken.append(("proof", f))
        for f in self.model_disagreements:
            k = self._known(f)
            if k:
                if k not in known_hits:
                    known_hits.append(k)
                continue
            # a disagreement already explained by a spec failure on the same input is not reported twice
            if any(s["input"] == f["input"] and s["stream"] == f["stream"] for s in self.spec_failures):
                continue
            broken.append(("correspondence", f))
        for k in known_hits:
            print(f"KNOWN-FINDING: property={self.pid} {k['what']}")
        lines_out = []
        n = 0
        if violations:
            kind, f = violations[0]
            path = os.path.join(WORK, "replay", f"{self.pid}-{n}.json")
            json.dump({"property": self.pid, "kind": "failing-input", "first": f,
                       "all": [v[1] for v in violations[:50]], "broken": [b[1] for b in broken[:20]],
                       "seed": self.seed, "tier": self.tier}, open(path, "w"), indent=1)
            lines_out.append(f"VIOLATION property={self.pid} replay={path}")
        elif broken:
            kind, f = broken[0]
            path = os.path.join(WORK, "replay", f"{self.pid}-{n}.json")
            json.dump({"property": self.pid, "kind": "no-failing-input-found",
                       "no_longer_checks": kind, "first": f, "all": [b[1] for b in broken[:50]],
                       "searched": [s["stream"] for s in self.streams],
                       "seed": self.seed, "tier": self.tier}, open(path, "w"), indent=1)
            lines_out.append(f"VIOLATION property={self.pid} replay={path} no-failing-input-found")
        nobl = len(self.obligations)
        ndis = sum(1 for o in self.obligations if o[1])
        cov = {
            "obligations": nobl, "discharged": ndis,
            "checker_cmd": checker_cmd or f"cd lean/FendModel && lake build FendModel.Props.{self.pid} && lake env lean <#print axioms of every theorem>",
            "trusted_base": TRUSTED_BASE,
            "theorems": [{"name": o[0], "ok": o[1], "detail": o[2]} for o in self.obligations],
            "evaluations": sum(s["cases"] for s in self.streams),
            "distinct_nontrivial": sum(s["distinct_nontrivial"] for s in self.streams),
            "rule": rule,
            "samples": self.samples[:12] or [{"note": "no stream ran"}],
            "traces_validated_against_impl": sum(s["cases"] for s in self.streams),
            "streams": self.streams,
            "model_disagreements": len(self.model_disagreements),
            "spec_failures": len(self.spec_failures),
            "proof_failures": self.proof_failures[:20],
            "known_findings_hit": [k["what"] for k in known_hits],
            "notes": self.notes,
        }
        if extra:
            cov.update(extra)
        ev = {"property_id": self.pid, "tier": self.tier, "seed": self.seed, "level": level,
              "coverage": cov, "assumptions": self.assumptions, "wall_s": round(wall, 2),
              "violations": len(violations) + len(broken)}
        os.makedirs(os.path.join(VERIF, "evidence"), exist_ok=True)
        json.dump(ev, open(os.path.join(VERIF, "evidence", f"{self.pid}.json"), "w"), indent=1)
        for l in lines_out:
            print(l)
        print(f"{self.pid} {self.tier}: obligations {ndis}/{nobl}, cases {cov['evaluations']}, "
              f"model-disagreements {len(self.model_disagreements)}, spec-failures {len(self.spec_failures)}, "
              f"known {len(known_hits)}, {wall:.1f}s")
        return 1 if lines_out else 0


def strip_comments(src):
    # remove /- ... -/ (nested) and -- ... comments
    out = []
    i, depth, n = 0, 0, len(src)
    while i < n:
        if src.startswith("/-", i):
            depth += 1; i += 2; continue
        if depth and src.startswith("-/", i):
            depth -= 1; i += 2; continue
        if depth:
            if src[i] == "\n":
                out.append("\n")
            i += 1; continue
        if src.startswith("--", i):
            while i < n and src[i] != "\n":
                i += 1
            continue
        out.append(src[i]); i += 1
    return "".join(out)
