/-
Executable model of `core/src/num/biguint.rs` (arithmetic part).

Conventions
* `u64` values are `Nat`s kept below `B = 2^64` (`WF`); where Rust truncates the model
  takes `% B`, where Rust would overflow-panic / index out of range / hit
  `unreachable!` / `assert!` the model returns `Err.panic`.
* The representation (`small` vs `large`, number of limbs, leading zero limbs) is
  modelled exactly, because behaviour depends on it (`value_len`, `is_definitely_zero`).
* Loops are structural recursion over an explicit index range or take fuel.
* The interrupt parameter is erased here (it never fires); see `Model/Interrupt.lean`.

No imports: this file must stay free of Mathlib so that the driver links.
-/

namespace Fend

/-- the limb base 2^64, written as a literal so that `omega` can use it -/
def B : Nat := 18446744073709551616

inductive Err where
  | divideByZero | zeroPowZero | exponentTooLarge | outOfRange | valueTooLarge
  | negativeNumbers | fractionToInteger | mustBeInteger | moduloByZero
  | moduloForPositiveInts | rootsOfNegative | nonIntegerNegRoots
  | deser | other
  | panic
deriving DecidableEq, Repr, Inhabited

def Err.name : Err → String
  | .divideByZero => "divideByZero" | .zeroPowZero => "zeroPowZero"
  | .exponentTooLarge => "exponentTooLarge" | .outOfRange => "outOfRange"
  | .valueTooLarge => "valueTooLarge" | .negativeNumbers => "negativeNumbers"
  | .fractionToInteger => "fractionToInteger" | .mustBeInteger => "mustBeInteger"
  | .moduloByZero => "moduloByZero" | .moduloForPositiveInts => "moduloForPositiveInts"
  | .rootsOfNegative => "rootsOfNegative" | .nonIntegerNegRoots => "nonIntegerNegRoots"
  | .deser => "deser" | .other => "other" | .panic => "panic"

abbrev R (α : Type) := Except Err α

inductive BigUint where
  | small (n : Nat)
  | large (v : List Nat)
deriving DecidableEq, Repr, Inhabited

namespace BigUint

/-- value of a little-endian limb list -/
def valL : List Nat → Nat
  | [] => 0
  | x :: xs => x + B * valL xs

/-- the abstraction map of the refinement proofs -/
def val : BigUint → Nat
  | small n => n
  | large v => valL v

def limbs : BigUint → List Nat
  | small n => [n]
  | large v => v

/-- every limb is a `u64` -/
def WF : BigUint → Prop
  | small n => n < B
  | large v => ∀ x ∈ v, x < B

def ofNat64 (n : Nat) : BigUint := small n

def isZero : BigUint → Bool
  | small n => n == 0
  | large v => v.all (· == 0)

def get : BigUint → Nat → Nat
  | small n, i => if i = 0 then n else 0
  | large v, i => v.getD i 0

def valueLen : BigUint → Nat
  | small _ => 1
  | large v => v.length

/-- all limbs above the lowest are zero -/
def fitsU64 : BigUint → Bool
  | small _ => true
  | large v => (v.drop 1).all (· == 0)

def makeLarge : BigUint → BigUint
  | small n => large [n]
  | large v => large v

/-- `Vec` part of `set`: `while idx >= len { push(0) }; value[idx] = x` -/
def setL (v : List Nat) (i x : Nat) : List Nat :=
  (v ++ List.replicate (i + 1 - v.length) 0).set i x

def set : BigUint → Nat → Nat → BigUint
  | small n, i, x =>
      if i = 0 then small x
      else if x = 0 then small n
      else large (setL [n] i x)
  | large v, i, x => large (setL v i x)

/-- the loop of `add_assign_internal`, indices `i .. n-1`; returns the final carry -/
def aaiLoop (other : BigUint) (d shift : Nat) (n : Nat) : Nat → BigUint → Nat → BigUint × Nat
  | i, self, carry =>
    if _h : i < n then
      let a := self.get i
      let b := if i ≥ shift then other.get (i - shift) else 0
      let sum := a + b * d + carry
      aaiLoop other d shift n (i + 1) (self.set i (sum % B)) (sum / B)
    else (self, carry)
termination_by i _ _ => n - i

/-- `self += (other * mul_digit) << (64 * shift)` -/
def addAssignInternal (self other : BigUint) (d shift : Nat) : BigUint :=
  let n := max self.valueLen (other.valueLen + shift)
  let (s, carry) := aaiLoop other d shift n 0 self 0
  if carry ≠ 0 then s.set n carry else s

def add (self other : BigUint) : BigUint := addAssignInternal self other 1 0

/-- `Ord::cmp` loop: compare limbs from index `i-1` down to 0 -/
def cmpLoop (a b : BigUint) : Nat → Ordering
  | 0 => .eq
  | i + 1 =>
    match compare (a.get i) (b.get i) with
    | .lt => .lt
    | .gt => .gt
    | .eq => cmpLoop a b i

def cmp (a b : BigUint) : Ordering :=
  match a, b with
  | small x, small y => compare x y
  | _, _ => cmpLoop a b (max a.valueLen b.valueLen)

def ble (a b : BigUint) : Bool := cmp a b != .gt
def blt (a b : BigUint) : Bool := cmp a b == .lt
def beq (a b : BigUint) : Bool := cmp a b == .eq

/-- the borrow loop of `sub` over the limbs of `res`; `i` is the index of the head -/
def subLoop (other : BigUint) : List Nat → Nat → Nat → List Nat × Nat
  | [], _, carry => ([], carry)
  | a :: rest, i, carry =>
    let b := other.get i
    if !(b == B - 1 && carry == 1) && a ≥ b + carry then
      let (r, c) := subLoop other rest (i + 1) 0
      ((a - b - carry) :: r, c)
    else
      let (r, c) := subLoop other rest (i + 1) 1
      (((a + B - b - carry) % B) :: r, c)

def sub (self other : BigUint) : R BigUint :=
  match self, other with
  | small a, small b => if a < b then .error .panic else .ok (small (a - b))
  | _, _ =>
    match cmp self other with
    | .eq => .ok (small 0)
    | .lt => .error .panic
    | .gt =>
      if other.isZero then .ok self else
      let res := self.limbs
      let res := if res.length < other.valueLen
                 then res ++ List.replicate (other.valueLen - res.length) 0 else res
      let (r, c) := subLoop other res 0 0
      if c ≠ 0 then .error .panic else .ok (large r)

/-- `lshift` on the limb vector, low to high; `cin` is the bit shifted in -/
def shlLimbs : List Nat → Nat → List Nat
  | [], _ => []
  | x :: xs, cin => ((x * 2) % B + cin) :: shlLimbs xs (x / 9223372036854775808)

def lshift : BigUint → R BigUint
  | small n =>
      if n / 4611686018427387904 = 0 then .ok (small (n * 2))
      else .ok (large [(n * 2) % B, n / 9223372036854775808])
  | large v =>
      match v.getLast? with
      | none => .error .panic
      | some l =>
        let v := if l / 9223372036854775808 % 2 ≠ 0 then v ++ [0] else v
        .ok (large (shlLimbs v 0))

/-- `rshift` on the limb vector -/
def shrLimbs : List Nat → List Nat
  | [] => []
  | [x] => [x / 2]
  | x :: y :: rest => (x / 2 + (y % 2) * 9223372036854775808) :: shrLimbs (y :: rest)

def rshift : BigUint → BigUint
  | small n => small (n / 2)
  | large v => large (shrLimbs v)

/-- the `i`-th loop of `mul_internal` -/
def mulLoop (selfClone other : BigUint) (n : Nat) : Nat → BigUint → BigUint
  | i, acc =>
    if _h : i < n then
      mulLoop selfClone other n (i + 1) (addAssignInternal acc selfClone (other.get i) i)
    else acc
termination_by i _ => n - i

def mulInternal (self other : BigUint) : BigUint :=
  if self.isZero || other.isZero then small 0
  else mulLoop self other other.valueLen 0 (large [0])

def mul (self other : BigUint) : BigUint :=
  match self, other with
  | small a, small b => if a * b < B then small (a * b) else mulInternal self other
  | _, _ => mulInternal self other

/-- one bit step of the binary long division -/
def divBit (self other : BigUint) (i j : Nat) (qr : BigUint × BigUint) : R (BigUint × BigUint) := do
  let (q, r) := qr
  let r ← r.lshift
  let bit := (self.get i / 2 ^ j) % 2
  let r := r.set 0 (r.get 0 ||| bit)
  if ble other r then
    let r ← r.sub other
    .ok (q.set i (q.get i ||| 2 ^ j), r)
  else .ok (q, r)

def divBits (self other : BigUint) (i : Nat) : Nat → BigUint × BigUint → R (BigUint × BigUint)
  | 0, qr => .ok qr
  | j + 1, qr =>
    match divBit self other i j qr with
    | .error e => .error e
    | .ok qr' => divBits self other i j qr'

def divLimbs (self other : BigUint) : Nat → BigUint × BigUint → R (BigUint × BigUint)
  | 0, qr => .ok qr
  | i + 1, qr =>
    match divBits self other i 64 qr with
    | .error e => .error e
    | .ok qr' => divLimbs self other i qr'

def divmod (self other : BigUint) : R (BigUint × BigUint) :=
  match self, other with
  | small a, small b =>
      if b = 0 then .error .divideByZero else .ok (small (a / b), small (a % b))
  | _, _ =>
    if other.isZero then .error .divideByZero
    else if beq other (small 1) then .ok (self, small 0)
    else if self.isZero then .ok (small 0, small 0)
    else if blt self other then .ok (small 0, self)
    else if beq self other then .ok (small 1, small 0)
    else if beq other (small 2) then
      .ok (rshift self, small (self.get 0 % 2))
    else divLimbs self other self.valueLen (small 0, small 0)

def rem (a b : BigUint) : R BigUint := do let (_, r) ← divmod a b; .ok r
def div (a b : BigUint) : R BigUint := do let (q, _) ← divmod a b; .ok q
def isEven (a : BigUint) : R Bool := do let r ← rem a (small 2); .ok (beq r (small 0))

def gcdLoop : Nat → BigUint → BigUint → R BigUint
  | 0, _, _ => .error .other      -- fuel exhausted: never, see `gcd_fuel_enough`
  | fuel + 1, a, b =>
    if ble (small 1) b then
      match rem a b with
      | .error e => .error e
      | .ok r => gcdLoop fuel b r
    else .ok a

def gcd (a b : BigUint) : R BigUint := gcdLoop (val b + 2) a b

def powInternal (self : BigUint) (exponent : Nat) : BigUint :=
  go exponent (small 1) self
where
  go : Nat → BigUint → BigUint → BigUint
  | e, result, base =>
    if _h : e > 0 then
      let result := if e % 2 = 1 then mul result base else result
      go (e / 2) result (mul base base)
    else result
  termination_by e => e
  decreasing_by omega

def pow (a b : BigUint) : R BigUint :=
  if a.isZero && b.isZero then .error .zeroPowZero
  else if b.isZero then .ok (small 1)
  else if !b.fitsU64 then .error .exponentTooLarge
  else .ok (powInternal a (b.get 0))

/-- number of bits; `none` is the `ilog2(0)` panic of the `Small(0)` arm -/
def bits : BigUint → Option Nat
  | small n => if n = 0 then none else some (Nat.log2 n + 1)
  | large v => some (go v 0 0)
where
  go : List Nat → Nat → Nat → Nat
  | [], _, acc => acc
  | x :: xs, i, acc => go xs (i + 1) (if x ≠ 0 then Nat.log2 x + 1 + i * 64 else acc)

def tryAsUsize (b : BigUint) : R Nat :=
  if b.fitsU64 then .ok (b.get 0) else .error .outOfRange

def lshiftTimes : Nat → BigUint → R BigUint
  | 0, x => .ok x
  | k + 1, x => match lshift x with
    | .error e => .error e
    | .ok y => lshiftTimes k y

def lshiftN (self rhs : BigUint) : R BigUint := do
  let n ← tryAsUsize rhs
  if n > 64 then
    let v := (makeLarge self).limbs
    let v := List.replicate (n / 64) 0 ++ v
    lshiftTimes (n % 64) (large v)
  else lshiftTimes n self

def rshiftTimes : Nat → BigUint → BigUint
  | 0, x => x
  | k + 1, x => if x.isZero then x else rshiftTimes k (rshift x)

def rshiftN (self rhs : BigUint) : R BigUint := do
  let n ← tryAsUsize rhs
  .ok (rshiftTimes n self)

def zipLimbs (f : Nat → Nat → Nat) : List Nat → List Nat → List Nat
  | [], _ => []
  | a :: as, [] => f a 0 :: zipLimbs f as []
  | a :: as, b :: bs => f a b :: zipLimbs f as bs

def headD (v : List Nat) : R Nat := match v with | [] => .error .panic | x :: _ => .ok x

def bitwiseAnd (a b : BigUint) : R BigUint :=
  match a, b with
  | small x, small y => .ok (small (x &&& y))
  | large v, small y => do let x ← headD v; .ok (small (x &&& y))
  | small x, large w => do let y ← headD w; .ok (small (x &&& y))
  | large v, large w => .ok (large (zipLimbs (· &&& ·) w v))

def orXor (f : Nat → Nat → Nat) (a b : BigUint) : R BigUint :=
  match a, b with
  | small x, small y => .ok (small (f x y))
  | large v, small y => match v with
    | [] => .error .panic
    | x :: xs => .ok (large (f x y :: xs))
  | small x, large w => match w with
    | [] => .error .panic
    | y :: ys => .ok (large (f y x :: ys))
  | large v, large w =>
    let v := if v.length < w.length then v ++ List.replicate (w.length - v.length) 0 else v
    .ok (large (zipLimbs f v w))

def bitwiseOr := orXor (· ||| ·)
def bitwiseXor := orXor (· ^^^ ·)

def factLoop : Nat → BigUint → BigUint → R BigUint
  | 0, _, _ => .error .other
  | fuel + 1, self, res =>
    if blt (small 1) self then
      match sub self (small 1) with
      | .error e => .error e
      | .ok s => factLoop fuel s (mul res self)
    else .ok res

def factorial (self : BigUint) : R BigUint := factLoop (val self + 1) self (small 1)

def fibLoop : Nat → BigUint → BigUint → BigUint
  | 0, _, b => b
  | k + 1, a, b => fibLoop k b (add a b)

def fibonacci (n : Nat) : BigUint :=
  if n = 0 then small 0 else if n = 1 then small 1 else fibLoop (n - 1) (small 0) (small 1)

def rootLoop (self n : BigUint) : Nat → BigUint → BigUint → R (BigUint × Bool)
  | 0, _, _ => .error .other
  | fuel + 1, low, high =>
    let guess := rshift (add low high)
    match pow guess n with
    | .error e => .error e
    | .ok res =>
      let step (low high : BigUint) : R (BigUint × Bool) :=
        match sub high low with
        | .error e => .error e
        | .ok d => if ble d (small 1) then .ok (low, false) else rootLoop self n fuel low high
      match cmp res self with
      | .eq => .ok (guess, true)
      | .gt => step low guess
      | .lt => step guess high

def rootN (self n : BigUint) : R (BigUint × Bool) :=
  if beq self (small 0) || beq self (small 1) || beq n (small 1) then .ok (self, true)
  else if !n.fitsU64 then .error .outOfRange
  else
    match bits self with
    | none => .error .panic
    | some bts =>
      if n.get 0 = 0 then .error .panic else   -- `self.bits() / n.get(0)`: division by zero
      let maxBits := bts / n.get 0 + 1
      match lshiftN (small 1) (small (maxBits + 1)) with
      | .error e => .error e
      | .ok high => rootLoop self n (maxBits + 4) (small 1) high

end BigUint
end Fend
