"""C09 — variables and lambdas are referentially transparent and lexically scoped."""
import re, time
from fractions import Fraction as F
from vlib import core

MODULE = "FendModel.Props.C09"
REL = "FendModel/Props/C09.lean"
NAMES = ["x", "y", "z", "k", "n", "u", "v", "t"]
BUILTINS = {"dozen": 12, "gross": 144, "hundred": 100, "thousand": 1000, "million": 10 ** 6, "score": 20}
NUM = "n"

def fn_t(args): return ("f", tuple(args))

# ---------------------------------------------------------------- ASTs
def text(e):
    k = e[0]
    if k == "num": return str(e[1])
    if k == "unit": return "()"
    if k == "var": return e[1]
    if k == "neg": return f"(-{text(e[1])})"
    if k == "bop": return f"({text(e[2])} {e[1]} {text(e[3])})"
    if k == "app":
        f = text(e[1])
        # a bare identifier argument is written bare most of the time (`f x`, an Expr::Ident in the tree) and parenthesised otherwise (`f (x)`)
        if e[2][0] == "var" and sum(map(ord, f)) % 4 != 0: return f"({f} {e[2][1]})"
        return f"({f} ({text(e[2])}))"
    if k == "lam":
        x, b, style = e[1], text(e[2]), e[3]
        return {0: f"(\\{x}. {b})", 1: f"({x}: {b})", 2: f"({x} => {b})"}[style]
    if k == "assign": return f"{e[1]} = {text(e[2])}"
    if k == "seq": return f"{text(e[1])}; {text(e[2])}"
    raise ValueError(k)

def toks(e):
    k = e[0]
    if k == "num": return ["N", f"{e[1]}/1"]
    if k == "unit": return ["U"]
    if k == "var": return ["V", e[1]]
    if k == "neg": return ["G"] + toks(e[1])
    if k == "bop": return ["B", e[1]] + toks(e[2]) + toks(e[3])
    if k == "app": return ["A"] + toks(e[1]) + toks(e[2])
    if k == "lam": return ["L", e[1]] + toks(e[2])
    if k == "assign": return ["S", e[1]] + toks(e[2])
    if k == "seq": return ["Q"] + toks(e[1]) + toks(e[2])
    raise ValueError(k)

def free(e):
    k = e[0]
    if k in ("num", "unit"): return set()
    if k == "var": return {e[1]}
    if k == "neg": return free(e[1])
    if k == "bop": return free(e[2]) | free(e[3])
    if k == "app": return free(e[1]) | free(e[2])
    if k == "lam": return free(e[2]) - {e[1]}
    if k == "assign": return free(e[2])
    if k == "seq": return free(e[1]) | free(e[2])

class Capture(Exception): pass

def subst(x, r, e, fr=None):
    """e[x := r], refusing (Capture) when a binder would capture a free name of r"""
    fr = free(r) if fr is None else fr
    k = e[0]
    if k in ("num", "unit"): return e
    if k == "var": return r if e[1] == x else e
    if k == "neg": return ("neg", subst(x, r, e[1], fr))
    if k == "bop": return ("bop", e[1], subst(x, r, e[2], fr), subst(x, r, e[3], fr))
    if k == "app": return ("app", subst(x, r, e[1], fr), subst(x, r, e[2], fr))
    if k == "lam":
        if e[1] == x: return e
        if e[1] in fr and x in free(e[2]): raise Capture()
        return ("lam", e[1], subst(x, r, e[2], fr), e[3])
    if k == "assign": return ("assign", e[1], subst(x, r, e[2], fr))
    if k == "seq": return ("seq", subst(x, r, e[1], fr), subst(x, r, e[2], fr))

# ---------------------------------------------------------------- typed generation
class G:
    def __init__(self, r): self.r = r
    def num(self, env, depth):
        r = self.r
        nums = [n for n, t in env.items() if t == NUM]
        fns = [n for n, t in env.items() if t != NUM]
        c = r.random()
        if depth <= 0 or c < 0.2:
            if nums and r.random() < 0.6: return ("var", r.choice(nums))
            if r.random() < 0.15: return ("var", r.choice(list(BUILTINS)))
            return ("num", r.randint(0, 9))
        if c < 0.5:
            return ("bop", r.choice("+-*"), self.num(env, depth - 1), self.num(env, depth - 1))
        if c < 0.55:
            return ("neg", self.num(env, depth - 1))
        if c < 0.8 and fns:
            f = r.choice(fns)
            e = ("var", f)
            for at in env[f][1]:
                e = ("app", e, self.of_type(env, at, depth - 1))
            return e
        # an immediate redex
        x = r.choice(NAMES)
        at = NUM if r.random() < 0.75 else fn_t([NUM])
        body = self.num({**env, x: at}, depth - 1)
        return ("app", ("lam", x, body, r.randrange(3)), self.of_type(env, at, depth - 1))
    def of_type(self, env, t, depth):
        r = self.r
        if t == NUM: return self.num(env, depth)
        cands = [n for n, tt in env.items() if tt == t]
        if cands and r.random() < 0.5: return ("var", r.choice(cands))
        return self.lam(env, t[1], depth)
    def lam(self, env, argts, depth):
        r = self.r
        e2 = dict(env); xs = []
        for at in argts:
            x = r.choice(NAMES); xs.append(x); e2[x] = at
        body = self.num(e2, depth)
        for x in reversed(xs):
            body = ("lam", x, body, r.randrange(3))
        return body

def canon(o):
    if o.startswith("ok \\") or o.startswith("ok λ"): return "ok fn"
    m = re.fullmatch(r"ok (-?[0-9]+)(?:/1)?", o)
    if m: return "ok " + m.group(1)
    m = re.fullmatch(r"err unknown identifier '(.*)'", o)
    if m: return "err unknown " + m.group(1)
    if o == "err division by zero": return "err divByZero"
    if o.startswith("err") and "is not a function" in o: return "err notAFunction"
    if o == "err expected a number": return "err badOperands"
    return o

def run(ctx):
    quick = ctx.tier == "quick"
    h = ctx.harness()
    if h is None:
        ctx.proof_failures.append({"file": "harness", "decl": "harness build", "line": 0, "msg": getattr(ctx, "harness_error", "")})
        return ctx.finish()
    ctx.lean_build([MODULE])
    ctx.audit(MODULE, REL)
    if not quick:
        ctx.leanchecker(MODULE)
    t0 = time.time()
    r = ctx.rng
    g = G(r)
    progs = []      # list of (list of input ASTs | special strings, pairs to compare)
    dist = {"programs": 0, "inputs": 0, "beta_pairs": 0, "let_pairs": 0, "capture_skipped": 0, "ans_reads": 0, "failures": 0, "unit_results": 0, "shadow_builtin": 0, "higher_order": 0}
    for _ in range(700 if quick else 15000):
        env = {}
        inputs = []          # ASTs
        pairs = []           # (index_a, index_b, kind): outputs must agree
        for step in range(r.randint(4, 10)):
            c = r.random()
            if c < 0.25 or not env:
                name = r.choice(NAMES + list(BUILTINS)[:2])
                if name in BUILTINS: dist["shadow_builtin"] += 1
                inputs.append(("assign", name, g.num(env, r.randint(0, 3)))); env[name] = NUM
            elif c < 0.45:
                # every global keeps one type for the whole program, and a definition never mentions the name it defines
                # (globals are late-bound: `f = \x. f x` is unbounded recursion, which is not what this property is about)
                name, argts = r.choice([("f", [NUM]), ("g", [NUM, NUM]), ("h", [NUM]), ("ap", [fn_t([NUM]), NUM])])
                if len(argts) == 2 and argts[0] != NUM: dist["higher_order"] += 1
                order = ["f", "g", "h", "ap"]
                # acyclic: a function may only call functions that come EARLIER in `order`
                sub = {k: v for k, v in env.items() if k not in order[order.index(name):]}
                inputs.append(("assign", name, g.lam(sub, argts, r.randint(1, 3)))); env[name] = fn_t(argts)
            elif c < 0.6:
                # referential transparency of a variable: `v = E` then USE  vs  USE[v := (E)]
                e = g.num({}, 2)                  # closed arithmetic
                name = r.choice(NAMES)
                use = g.num({**env, name: NUM}, 3)
                inputs.append(("assign", name, e)); env[name] = NUM
                inputs.append(use)
                try:
                    inputs.append(subst(name, e, use)); pairs.append((len(inputs) - 2, len(inputs) - 1, "let")); dist["let_pairs"] += 1
                except Capture:
                    dist["capture_skipped"] += 1
            elif c < 0.85:
                # beta: ((\x. B) (R))  vs  B[x := (R)]
                x = r.choice(NAMES)
                at = NUM if r.random() < 0.8 else fn_t([NUM])
                body = g.num({**env, x: at}, 3)
                arg = g.of_type(env, at, 2)
                inputs.append(("app", ("lam", x, body, r.randrange(3)), arg))
                try:
                    inputs.append(subst(x, arg, body)); pairs.append((len(inputs) - 2, len(inputs) - 1, "beta")); dist["beta_pairs"] += 1
                except Capture:
                    dist["capture_skipped"] += 1
            else:
                inputs.append(g.num(env, 3))
        progs.append((inputs, pairs))
    # hand-on programs: nests of lambdas over a deliberately tiny name pool, where parameters are handed on as bare identifiers to inner lambdas
    # (immediate, stored in a global, or received as an argument) whose own parameters re-use the names that are free in the original argument —
    # the shapes in which a substitution-style shortcut captures a variable
    SMALL = ["x", "y", "a"]
    def arith(names, d):
        c = r.random()
        if d <= 0 or c < 0.35:
            return ("var", r.choice(names)) if names and r.random() < 0.75 else ("num", r.randint(1, 9))
        return ("bop", r.choice("+-*"), arith(names, d - 1), arith(names, d - 1))
    def nest(depth, names, fns):
        if depth <= 0:
            return arith(names, 1)
        pnm = r.choice(SMALL)
        c = r.random()
        if fns and c < 0.3:
            lam = ("var", r.choice(fns))
        else:
            lam = ("lam", pnm, nest(depth - 1, names + [pnm], fns), r.randrange(3))
        arg = ("var", r.choice(names)) if names and r.random() < 0.65 else arith(names, 1)
        e = ("app", lam, arg)
        if r.random() < 0.25:
            e = ("bop", r.choice("+*"), e, arith(names, 0))
        return e
    for _ in range(500 if quick else 10000):
        inputs, pairs, gl = [], [], []
        for nm in r.sample(SMALL, r.randint(1, 3)):
            inputs.append(("assign", nm, ("num", r.randint(2, 40)))); gl.append(nm)
        fns = []
        for fname in ("f", "h"):
            if r.random() < 0.6:
                q = r.choice(SMALL)
                inputs.append(("assign", fname, ("lam", q, nest(r.randint(0, 2), gl + [q], list(fns)), r.randrange(3)))); fns.append(fname)
        for _ in range(r.randint(2, 4)):
            q = r.choice(SMALL)
            body = nest(r.randint(1, 3), gl + [q], fns)
            arg = arith(gl, r.randint(1, 2))
            inputs.append(("app", ("lam", q, body, r.randrange(3)), arg)); dist["handon_redexes"] = dist.get("handon_redexes", 0) + 1
            try:
                inputs.append(subst(q, arg, body)); pairs.append((len(inputs) - 2, len(inputs) - 1, "beta")); dist["beta_pairs"] += 1
            except Capture:
                dist["capture_skipped"] += 1
        progs.append((inputs, pairs))
    lines = [" ;; ".join(text(e) for e in ins) for ins, _ in progs]
    mlines = [" ;; ".join(" ".join(toks(e)) for e in ins) for ins, _ in progs]
    impl = ctx.run_lines_robust(h, ["evalctx"], lines, env={"HARNESS_LINE_TIMEOUT_S": "30"})
    model = ctx.run_lines(core.DRIVER, ["scope"], mlines, timeout=900)[1]
    model += ["<missing>"] * (len(lines) - len(model))
    for (ins, pairs), line, a, m in zip(progs, lines, impl, model):
        dist["programs"] += 1; dist["inputs"] += len(ins)
        ao = [canon(x) for x in a.split(" ;; ")]
        mo = [canon(x) for x in m.split(" ;; ")]
        if len(ao) != len(ins):
            ctx.model_disagreements.append({"stream": "programs", "input": line, "impl": a, "model": m, "spec": "one answer per input"}); continue
        for (i, j, kind) in pairs:
            if ao[i] != ao[j]:
                ctx.spec_failures.append({"stream": "programs", "input": line, "impl": f"input {i + 1}: {ao[i]}   input {j + 1}: {ao[j]}", "model": f"{mo[i] if i < len(mo) else ''} / {mo[j] if j < len(mo) else ''}",
                                          "spec": ("applying a lambda gives the same result as substituting the (parenthesised) argument for the parameter" if kind == "beta" else
                                                   "using a bound name gives the same result as writing the parenthesised expression in its place") + f": `{text(ins[i])}` vs `{text(ins[j])}`"})
        if ao != mo:
            ctx.model_disagreements.append({"stream": "programs", "input": line, "impl": " ;; ".join(ao), "model": " ;; ".join(mo)})
    # closures keep the bindings they were created with — also when a new function is built from them by arithmetic (`f * 2`, `-f`, `2 f`, `f!`,
    # ...; outside the Lean model, so this family is decided by an independent evaluation in python): a partially applied `k: x: BODY`, combined
    # with a number, stored or not, then applied where `k` means something else
    fa_lines, fa_want = [], []
    for _ in range(150 if quick else 4000):
        K, X, N = r.randint(2, 9), r.randint(1, 9), r.randint(2, 5)
        kn, xn = r.choice(["k", "a", "y"]), r.choice(["x", "z"])
        bt, bf = r.choice([(f"{xn} + {kn}", lambda x_, k_: F(x_ + k_)), (f"{xn} * {kn}", lambda x_, k_: F(x_ * k_)), (f"{kn} - {xn}", lambda x_, k_: F(k_ - x_)),
                           (f"{xn} * {kn} + 1", lambda x_, k_: F(x_ * k_ + 1)), (f"({xn} + {kn}) * {kn}", lambda x_, k_: F((x_ + k_) * k_))])
        lamtxt = {0: f"(\\{kn}. (\\{xn}. {bt}))", 1: f"({kn}: ({xn}: {bt}))", 2: f"({kn} => ({xn} => {bt}))"}[r.randrange(3)]
        Fx = f"({lamtxt} {K})"
        base = bf(X, K)
        form, val = r.choice([(f"({Fx} * {N})", base * N), (f"({Fx} / {N})", base / N), (f"({Fx} ^ 2)", base ** 2), (f"({N} {Fx})", N * base), (f"({Fx} + {N})", base + N),
                              (f"({N} * {Fx})", N * base), (f"(-{Fx})", -base), (f"(({Fx} * {N}) / {N + 1})", base * N / (N + 1))])
        pre = [f"{kn} = {r.randint(50, 99)}"] if r.random() < 0.6 else []
        if r.random() < 0.4:
            stmts = pre + [f"ff = {Fx}", f"gg = {form.replace(Fx, 'ff')}", f"{kn} = {r.randint(100, 200)}", f"(gg {X}) to fraction"]
        else:
            stmts = pre + [f"({form} {X}) to fraction"]
        fa_lines.append(" ;; ".join(stmts)); fa_want.append(val)
    fa_out = ctx.run_lines_robust(h, ["evalctx"], fa_lines, env={"HARNESS_LINE_TIMEOUT_S": "30"})
    dist["function_arithmetic"] = len(fa_lines)
    for line, o, want in zip(fa_lines, fa_out, fa_want):
        last = o.split(" ;; ")[-1]
        mm = re.fullmatch(r"ok (-?[0-9]+)(?:/([0-9]+))?", last)
        got = F(int(mm.group(1)), int(mm.group(2) or 1)) if mm else None
        if got != want:
            ctx.spec_failures.append({"stream": "programs", "input": line, "impl": last[:120], "model": str(want),
                                      "spec": "closures keep the bindings they were created with: a function built from a closure by arithmetic still sees the closure's own binding of its free name, not whatever that name means where the new function is applied"})
    # histories: `_` / `ans` after successes, failures and unit results
    hist, hm = [], []
    for _ in range(400 if quick else 8000):
        steps, msteps = [], []
        for _ in range(r.randint(4, 12)):
            c = r.random()
            if c < 0.3:
                e = g.num({}, 2); steps.append(text(e)); msteps.append(" ".join(toks(e)))
            elif c < 0.55:
                w = r.choice(["ans", "_", "ans + 1", "_ * 2", "ans; ans"])
                steps.append(w)
                msteps.append({"ans": "V ans", "_": "V _", "ans + 1": "B + V ans N 1/1", "_ * 2": "B * V _ N 2/1", "ans; ans": "Q V ans V ans"}[w])
            elif c < 0.7:
                w = r.choice(["1/0", "nosuchname", "a = 1/0", "(5)(nosuchname)", "3; 1/0"])
                steps.append(w)
                msteps.append({"1/0": "B / N 1/1 N 0/1", "nosuchname": "V nosuchname", "a = 1/0": "S a B / N 1/1 N 0/1", "(5)(nosuchname)": "A N 5/1 V nosuchname", "3; 1/0": "Q N 3/1 B / N 1/1 N 0/1"}[w])
            elif c < 0.85:
                w = r.choice(["()", "a = 3; ()", ";"])
                steps.append(w); msteps.append({"()": "U", "a = 3; ()": "Q S a N 3/1 U", ";": "U"}[w])
            else:
                w = r.choice(["b = 7", "b = ans", "c = (\\x. x + 1) 4", "b = 2; b * 3"])
                steps.append(w)
                msteps.append({"b = 7": "S b N 7/1", "b = ans": "S b V ans", "c = (\\x. x + 1) 4": "S c A L x B + V x N 1/1 N 4/1", "b = 2; b * 3": "Q S b N 2/1 B * V b N 3/1"}[w])
        hist.append(steps); hm.append(msteps)
    impl = ctx.run_lines_robust(h, ["evalctx"], [" ;; ".join(s) for s in hist], env={"HARNESS_LINE_TIMEOUT_S": "30"})
    model = ctx.run_lines(core.DRIVER, ["scope"], [" ;; ".join(s) for s in hm], timeout=900)[1]
    model += ["<missing>"] * (len(hist) - len(model))
    for steps, a, m in zip(hist, impl, model):
        ao = [canon(x) for x in a.split(" ;; ")]
        mo = [canon(x) for x in m.split(" ;; ")]
        line = " ;; ".join(steps)
        # the statement itself, replayed on the implementation's own answers
        last = None
        for st, o in zip(steps, ao):
            if st in ("ans", "_", "ans; ans"):
                dist["ans_reads"] += 1
                want = last if last is not None else f"err unknown {'_' if st == '_' else 'ans'}"
                if o != want:
                    ctx.spec_failures.append({"stream": "histories", "input": line, "impl": f"`{st}` -> {o}", "model": want, "spec": "`_`/`ans` hold the most recently computed result; an evaluation that fails leaves them unchanged"})
            if o.startswith("ok"):
                last = o
                if o == "ok ()" or o == "ok ": dist["unit_results"] += 1
            else:
                dist["failures"] += 1
        if ao != mo:
            ctx.model_disagreements.append({"stream": "histories", "input": line, "impl": " ;; ".join(ao), "model": " ;; ".join(mo)})
    ctx.record_stream("programs", "random typed programs in one context: assignments (also of built-in names), lambda definitions in all three notations (curried, higher-order), uses, immediate redexes with their "
                      "substituted forms and `v = E; USE` with `USE[v := (E)]`; functions built from closures by arithmetic (`f * 2`, `-f`, `2 f`, stored and re-bound names) against an independent evaluation; hand-on programs (nests of lambdas over three names in which parameters are passed on as bare identifiers to inner, stored and "
                      "received lambdas that re-bind the names free in the original argument); each pair must print alike, and every answer must equal the Lean scope model's; then histories of successes, failures and unit "
                      "results with reads of `_` / `ans` replayed against the statement itself", len(lines) + len(hist), len(set(lines)) + len(set(map(tuple, hist))), dist, lines[:2] + [" ;; ".join(hist[0])], time.time() - t0)
    return ctx.finish(rule="quick 700 programs + 500 hand-on programs + 400 histories; thorough 15000 + 10000 + 8000")

def replay(ctx, rep):
    print(rep["first"]); return 0
