/-
In valid UTF-8 the position after an ASCII byte is a character boundary (used for the UN parser's slices, which follow a
successful search for an ASCII needle).
-/
import FendModel.Model.XRates

namespace Fend.XRates
open Fend.Ser

theorem isBoundary_cons (x : Nat) (t : Bytes) (k : Nat) : isBoundary (x :: t) (k + 1) = isBoundary t k := by
  simp [isBoundary]

theorem notCont_boundary0 (c : Nat) (t : Bytes) (h : isCont c = false) : isBoundary (c :: t) 0 = true := by
  simp only [isBoundary, List.length_cons]
  have : ¬ (0 = t.length + 1) := by omega
  simp only [this, if_false, List.getElem?_cons_zero]
  simp only [isCont, Bool.and_eq_false_iff, decide_eq_false_iff_not, Nat.not_le] at h
  simp only [Bool.not_eq_true', Bool.and_eq_false_iff, decide_eq_false_iff_not, Nat.not_le, Nat.not_lt]
  omega

/-- a valid string does not begin with a continuation byte -/
theorem valid_head (c : Nat) (t : Bytes) (h : validUtf8 (c :: t) = true) : isCont c = false := by
  unfold validUtf8 at h
  simp only [isCont]
  by_cases h1 : c ≤ 127
  · simp; omega
  · simp only [h1, if_false] at h
    by_cases h2 : (194 ≤ c && c ≤ 223) = true
    · simp at h2; simp; omega
    · simp only [h2, if_false] at h
      by_cases h3 : (224 ≤ c && c ≤ 239) = true
      · simp at h3; simp; omega
      · simp only [h3, if_false] at h
        by_cases h4 : (240 ≤ c && c ≤ 244) = true
        · simp at h4; simp; omega
        · simp [h4] at h

theorem boundary_start (s : Bytes) (h : validUtf8 s = true) : isBoundary s 0 = true := by
  cases s with
  | nil => simp [isBoundary]
  | cons c t => exact notCont_boundary0 c t (valid_head c t h)

/-- after an ASCII byte of a valid string comes a character boundary -/
theorem ascii_then_boundary : ∀ (n : Nat) (s : Bytes), s.length ≤ n → validUtf8 s = true → ∀ i b, s[i]? = some b → b < 128 → isBoundary s (i + 1) = true := by
  intro n
  induction n with
  | zero =>
    intro s hl _ i b hi _
    have : s = [] := by cases s <;> simp_all
    subst this; simp at hi
  | succ n ih =>
    intro s hl hv i b hi hb
    cases s with
    | nil => simp at hi
    | cons b0 rest =>
      have hlen : rest.length ≤ n := by simp at hl; omega
      unfold validUtf8 at hv
      by_cases h1 : b0 ≤ 127
      · simp only [h1, if_true] at hv
        cases i with
        | zero => rw [isBoundary_cons]; exact boundary_start rest hv
        | succ j =>
          rw [isBoundary_cons]
          exact ih rest hlen hv j b (by simpa using hi) hb
      · simp only [h1, if_false] at hv
        by_cases h2 : (194 ≤ b0 && b0 ≤ 223) = true
        · simp only [h2, if_true] at hv
          cases rest with
          | nil => simp at hv
          | cons c rest' =>
            simp only [Bool.and_eq_true] at hv
            have hc : 128 ≤ c := by have := hv.1; simp [isCont] at this; omega
            cases i with
            | zero => simp at hi; omega
            | succ j =>
              cases j with
              | zero => simp at hi; omega
              | succ k =>
                rw [isBoundary_cons, isBoundary_cons]
                exact ih rest' (by simp at hlen; omega) hv.2 k b (by simpa using hi) hb
        · simp only [h2, if_false] at hv
          by_cases h3 : (224 ≤ b0 && b0 ≤ 239) = true
          · simp only [h3, if_true] at hv
            match rest, hv, hlen, hi with
            | c :: d :: rest', hv, hlen, hi =>
              simp only [Bool.false_eq_true, if_false, if_true, Bool.and_eq_true] at hv
              have hd : 128 ≤ d := by have := hv.1.2; simp [isCont] at this; omega
              have hc : 128 ≤ c := by
                have := hv.1.1
                by_cases e1 : b0 = 224
                · simp [e1] at this; omega
                · by_cases e2 : b0 = 237
                  · simp [e2] at this; omega
                  · simp [e1, e2, isCont] at this; omega
              cases i with
              | zero => simp at hi; omega
              | succ j =>
                cases j with
                | zero => simp at hi; omega
                | succ k =>
                  cases k with
                  | zero => simp at hi; omega
                  | succ m =>
                    rw [isBoundary_cons, isBoundary_cons, isBoundary_cons]
                    exact ih rest' (by simp at hlen; omega) hv.2 m b (by simpa using hi) hb
            | [], hv, _, _ => simp at hv
            | [_], hv, _, _ => simp at hv
          · simp only [h3, if_false] at hv
            by_cases h4 : (240 ≤ b0 && b0 ≤ 244) = true
            · simp only [h4, if_true] at hv
              match rest, hv, hlen, hi with
              | c :: d :: e :: rest', hv, hlen, hi =>
                simp only [Bool.false_eq_true, if_false, if_true, Bool.and_eq_true] at hv
                have he : 128 ≤ e := by have := hv.1.2; simp [isCont] at this; omega
                have hd : 128 ≤ d := by have := hv.1.1.2; simp [isCont] at this; omega
                have hc : 128 ≤ c := by
                  have := hv.1.1.1
                  by_cases e1 : b0 = 240
                  · simp [e1] at this; omega
                  · by_cases e2 : b0 = 244
                    · simp [e2] at this; omega
                    · simp [e1, e2, isCont] at this; omega
                cases i with
                | zero => simp at hi; omega
                | succ j =>
                  cases j with
                  | zero => simp at hi; omega
                  | succ k =>
                    cases k with
                    | zero => simp at hi; omega
                    | succ m =>
                      cases m with
                      | zero => simp at hi; omega
                      | succ q =>
                        rw [isBoundary_cons, isBoundary_cons, isBoundary_cons, isBoundary_cons]
                        exact ih rest' (by simp at hlen; omega) hv.2 q b (by simpa using hi) hb
              | [], hv, _, _ => simp at hv
              | [_], hv, _, _ => simp at hv
              | [_, _], hv, _, _ => simp at hv
            · simp [h4] at hv

end Fend.XRates

namespace Fend.XRates
open Fend.Ser

theorem isBoundary_drop (S : Bytes) (off k : Nat) (h : off + k ≤ S.length) : isBoundary (S.drop off) k = isBoundary S (off + k) := by
  simp only [isBoundary, List.length_drop, List.getElem?_drop]
  have : (k = S.length - off) = (off + k = S.length) := by
    apply propext; constructor <;> intro h' <;> omega
  simp only [this]

/-- a found needle is really there: every byte of it, at its place -/
theorem findSub_spec (needle : Bytes) : ∀ (s : Bytes) (i : Nat), findSub needle s = some i →
    i + needle.length ≤ s.length ∧ ∀ j, j < needle.length → s[i + j]? = needle[j]? := by
  intro s
  induction s with
  | nil =>
    intro i h
    simp only [findSub] at h
    split at h
    · rename_i hp
      injection h with h; subst h
      have : needle = [] := by cases needle <;> simp_all [List.isPrefixOf]
      subst this; simp
    · cases h
  | cons x t ih =>
    intro i h
    simp only [findSub] at h
    split at h
    · rename_i hp
      injection h with h; subst h
      have hpre := List.isPrefixOf_iff_prefix.mp hp
      obtain ⟨r, hr⟩ := hpre
      constructor
      · rw [← hr]; simp
      · intro j hj
        rw [← hr]; simp [List.getElem?_append_left hj]
    · cases hf : findSub needle t with
      | none => simp [hf] at h
      | some k =>
        simp only [hf, Option.map_some, Option.some.injEq] at h
        subst h
        obtain ⟨h1, h2⟩ := ih k hf
        constructor
        · simp; omega
        · intro j hj
          have := h2 j hj
          rw [show k + 1 + j = (k + j) + 1 by omega]
          simpa using this

/-- slicing right after a found ASCII needle never panics in valid UTF-8 -/
theorem slice_after_needle (S : Bytes) (hv : validUtf8 S = true) (off : Nat) (hoff : off ≤ S.length) (needle : Bytes)
    (hne : needle ≠ []) (hascii : ∀ b ∈ needle, b < 128) (i : Nat) (hf : findSub needle (S.drop off) = some i) :
    sliceFrom (S.drop off) (i + needle.length) = .ok (S.drop (off + (i + needle.length))) ∧ off + (i + needle.length) ≤ S.length := by
  obtain ⟨hlen, hbytes⟩ := findSub_spec needle (S.drop off) i hf
  have hlen' : off + (i + needle.length) ≤ S.length := by simp at hlen; omega
  have hpos : 0 < needle.length := List.length_pos_iff.mpr hne
  -- the last byte of the needle, at absolute position off + i + len - 1, is ASCII
  have hlast := hbytes (needle.length - 1) (by omega)
  rw [List.getElem?_drop] at hlast
  have hget : needle[needle.length - 1]? = some (needle[needle.length - 1]'(by omega)) := List.getElem?_eq_getElem (by omega)
  rw [hget] at hlast
  have hb : needle[needle.length - 1]'(by omega) < 128 := hascii _ (List.getElem_mem _)
  have hbd := ascii_then_boundary S.length S (Nat.le_refl _) hv (off + (i + (needle.length - 1))) _ hlast hb
  have hidx : off + (i + (needle.length - 1)) + 1 = off + (i + needle.length) := by omega
  rw [hidx] at hbd
  refine ⟨?_, hlen'⟩
  unfold sliceFrom
  rw [isBoundary_drop S off (i + needle.length) hlen', hbd]
  simp [List.drop_drop, Nat.add_comm]

end Fend.XRates
