import json, sys, glob
M, D, ID, N = sys.argv[1:5]
try:
    meta = json.load(open(M + '/meta.json'))
except Exception:
    meta = {}
conf = []
for f in sorted(glob.glob(__import__('os').environ.get('MUT_BASE','/tmp/mut') + '/confirm*.log')):
    conf += [l.strip() for l in open(f) if l.startswith(f'RESULT {ID}/{N} ')]
meta.update({"property": ID, "origin": "independent sub-agent given only the property text and a scratch worktree",
             "confirmed_by_me": {"how": "tools/confirm_mutant.sh in the scratch worktree: patch applied, cargo test --workspace --offline, demo.sh on mutated tree, demo.sh on clean tree", "result": conf}})
json.dump(meta, open(D + '/meta.json', 'w'), indent=1)
