"""C03: roots of quantities with units.  `sqrt(X) to T` where X has the dimension T^2: the marker must be absent exactly when the
exact value of `X to T^2` (a rational — conversions are exact) is the square of a rational, and then the shown number is that root."""
from fractions import Fraction as F
from math import isqrt

LEN = ["km", "m", "cm", "mm", "ft", "inch", "mile", "yard"]
ENERGY = ["kJ", "J", "MJ", "kWh", "cal", "kcal"]
MASS = ["kg", "g", "lb", "tonne"]
FORCE = ["N", "kN", "lbf"]
AREA = ["acre", "hectare", "are", "sqft", "sqm"]

def gen(r):
    """(X text, target unit T, T^2 text)"""
    a, b = r.choice([1, 1, 4, 9, 2, 3, 10, 100, 25, 16]), r.choice([1, 1, 4, 9, 2, 5, 10, 100])
    k = r.random()
    if k < 0.3:
        return f"({a} {r.choice(LEN)}) * ({b} {r.choice(LEN)})", r.choice(["m", "cm", "ft"]), None
    if k < 0.55:
        return f"({a} {r.choice(ENERGY)}) / ({b} {r.choice(MASS)})", "m/s", "m^2/s^2"
    if k < 0.75:
        return f"({a} {r.choice(FORCE)}) / (({b} {r.choice(MASS)}) / (1 {r.choice(LEN)}))", "m/s", "m^2/s^2"
    if k < 0.9:
        return f"{a} {r.choice(AREA)}", r.choice(["m", "ft"]), None
    return f"({a} {r.choice(ENERGY)}) / ({b} {r.choice(FORCE)}) * (1 {r.choice(LEN)})", "m", None

def is_square(q):
    q = F(q)
    if q < 0: return None
    n, d = isqrt(q.numerator), isqrt(q.denominator)
    return F(n, d) if n * n == q.numerator and d * d == q.denominator else None
