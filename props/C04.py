"""C04 — unit conversions are exact, invertible and mutually consistent."""
import time
from fractions import Fraction as F
from vlib import core, unitcases
from translator import units_resolved

MODULE = "FendModel.Props.C04"
REL = "FendModel/Props/C04.lean"

def run(ctx):
    quick = ctx.tier == "quick"
    h = ctx.harness()
    if h is None:
        ctx.proof_failures.append({"file": "harness", "decl": "harness build", "line": 0, "msg": getattr(ctx, "harness_error", "")})
        return ctx.finish()
    units_resolved.generate(ctx, h)          # Tie A: the standards theorem is over the regenerated table
    ctx.lean_build([MODULE])
    ctx.audit(MODULE, REL)
    if not quick:
        ctx.leanchecker(MODULE)
    if ctx.proof_failures:
        # a table theorem no longer checks: look for the concrete unit on which it fails
        for inp, impl, spec in units_resolved.table_failures():
            if "standards" in spec or "spellings" in spec:
                ctx.spec_failures.append({"stream": "unit-table", "input": inp, "impl": impl, "model": "", "spec": spec})
    t0 = time.time()
    r = ctx.rng
    ok, ids = unitcases.load(ctx, h, quick=quick)
    classes = {}
    for n, (s, pi, d) in ok.items():
        if d and s != 0 and not n.startswith(("$", "£", "¥", "€")) and n.isascii() or n in ("°C", "°F"):
            classes.setdefault((unitcases.reduce_dims(d), pi), []).append(n)
    classes = {k: v for k, v in classes.items() if len(v) >= 2}
    keys = list(classes)
    def pick_x():
        return r.choice([F(1), F(0), F(5), F(-3), F(7, 3), F(r.randint(1, 10**6), r.randint(1, 999)), F(10**20 + 7), F(1, 10**12)])
    temp = {"celsius", "fahrenheit", "°C", "°F", "oC", "oF", "C", "F"}
    cases = []   # (expr, kind, payload)
    pairs = []
    if quick:
        for _ in range(1200):
            k = r.choice(keys); a, b = r.sample(classes[k], 2); pairs.append((a, b))
    else:
        for k in keys:
            for a in classes[k]:
                for b in classes[k]:
                    if a != b: pairs.append((a, b))
        r.shuffle(pairs); pairs = pairs[:60000]
    pairs += [("inch", "cm"), ("lb", "kg"), ("mile", "km"), ("°C", "°F"), ("°F", "°C"), ("°C", "kelvin"), ("kelvin", "°F"), ("sqdm", "cm2"), ("EiB", "PiB") if "EiB" in ok else ("byte", "bit"), ("MB", "Mb") if "MB" in ok and "Mb" in ok else ("byte", "bit")]
    exprs, meta = [], []
    for a, b in pairs:
        if a not in ok or b not in ok: continue
        x = pick_x()
        exprs.append(f"@noapprox (({unitcases.q(x)}) {a} to {b}) to fraction"); meta.append(("direct", a, b, x))
        exprs.append(f"@noapprox ((({unitcases.q(x)}) {a} to {b}) to {a}) to fraction"); meta.append(("inverse", a, b, x))
    for _ in range(400 if quick else 10000):
        k = r.choice(keys)
        if len(classes[k]) < 3: continue
        a, b, c = r.sample(classes[k], 3); x = pick_x()
        exprs.append(f"@noapprox ((({unitcases.q(x)}) {a} to {c}) to {b}) to fraction"); meta.append(("via", a, b, x, c))
        kk = r.choice([F(2), F(-7, 3), F(10**9)])
        if not ({a, b} & temp):
            exprs.append(f"@noapprox (({unitcases.q(kk * x)}) {a} to {b}) to fraction"); meta.append(("direct", a, b, kk * x))
    # temperatures inside sums and compound units scale only
    for (e, want) in [("@noapprox (10 °C + 5 kelvin) to fraction", "15 °C"), ("@noapprox (1 kelvin + 9 °F) to fraction", "6 kelvin"), ("@noapprox (0 °C to °F) to fraction", "32 °F"),
                      ("@noapprox (0 °C to kelvin) to fraction", "5463/20 kelvin"), ("@noapprox (100 °C to °F) to fraction", "212 °F"), ("@noapprox (-40 °F to °C) to fraction", "-40 °C"),
                      ("@noapprox (9 J/°F to J/kelvin) to fraction", "81/5 J / kelvin"), ("@noapprox (1 inch to cm) to fraction", "127/50 cm"), ("@noapprox (1 lb to kg) to fraction", "45359237/100000000 kg")]:
        exprs.append(e); meta.append(("fixed", want))
    outs = ctx.run_lines_robust(h, ["eval"], exprs, env={"HARNESS_LINE_TIMEOUT_S": "20"})
    # model lines
    mlines, midx = [], []
    for i, m in enumerate(meta):
        if m[0] in ("direct", "inverse", "via"):
            a, b, x = m[1], m[2], m[3]
            sa, _, da = ok[a]; sb, _, db = ok[b]
            mlines.append(f"convert {unitcases.q(x)} {unitcases.q(sa)} {unitcases.dims_str(da, ids)} {unitcases.q(sb)} {unitcases.dims_str(db, ids)}"); midx.append(i)
    mouts = dict(zip(midx, ctx.run_lines(core.DRIVER, ["units"], mlines, timeout=900)[1]))
    dist = {"direct": 0, "inverse": 0, "via": 0, "fixed": 0, "skipped_approx": 0}
    for i, (m, o) in enumerate(zip(meta, outs)):
        dist[m[0]] += 1
        if m[0] == "fixed":
            if o != "ok " + m[1]:
                ctx.spec_failures.append({"stream": "conversions", "input": exprs[i], "impl": o[:120], "model": m[1], "spec": "temperatures: affine for plain `to`, scale-only in sums/compounds; standard-defined factors"})
            continue
        got = unitcases.lead_number(o)
        if got is None:
            if o.startswith("ok approx") or "approx" in o:
                dist["skipped_approx"] += 1; continue
            ctx.spec_failures.append({"stream": "conversions", "input": exprs[i], "impl": o[:160], "model": mouts.get(i, ""), "spec": "a conversion between units of the same dimension yields a number"}); continue
        a, b, x = m[1], m[2], m[3]
        mo = mouts.get(i, "")
        mv = F(mo[3:]) if mo.startswith("ok ") else None
        if m[0] == "inverse":
            if got != x:
                ctx.spec_failures.append({"stream": "conversions", "input": exprs[i], "impl": o[:120], "model": unitcases.q(x), "spec": "converting back returns the original quantity exactly"})
        elif mv is None or got != mv:
            # direct / via: the model's value is the single fixed ratio applied to x (proved: convert_is_ratio, convert_transitive)
            tgt = ctx.spec_failures if (m[0] == "via") else ctx.model_disagreements
            tgt.append({"stream": "conversions", "input": exprs[i], "impl": o[:120], "model": mo, "spec": "going through an intermediate unit gives the same answer as converting directly"})
    ctx.record_stream("conversions", "pairs and triples of unit names (incl. randomly prefixed ones) inside each dimension class of the regenerated resolved table, rational magnitudes; "
                      "`@noapprox (x A to B) to fraction`, there-and-back, via an intermediate unit, scaled quantities, temperature forms; vs the Lean conversion model fed with the "
                      "resolved scales/dimensions, and vs the algebraic laws directly", len(exprs), len(set(exprs)), dist, exprs[:3], time.time() - t0)
    return ctx.finish(rule="dimension classes from the regenerated table; quick: 1200 random ordered pairs + 400 triples; thorough: all ordered pairs (capped at 60000); distinct = distinct expressions")

def replay(ctx, rep):
    print(rep["first"]); return 0
