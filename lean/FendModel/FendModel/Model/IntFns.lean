/-
Models of the integer-domain helpers that are not part of the bignum core:
`BigRat::{floor, ceil, round}` (exact integer division, `round_with`), `ast::to_roman`,
`BigUint::to_words` / `convert_below_1000`, `char` / `codepoint`.
-/
import FendModel.Model.BigRat
import FendModel.Model.Json

namespace Fend
open BigUint (small large)

namespace BigRat

inductive RoundMode | floor | ceil | round
deriving DecidableEq, Repr

/-- the closure passed to `round_with`: round the magnitude up? -/
def awayFromZero (mode : RoundMode) (neg : Bool) (half : Ordering) : Bool :=
  match mode with
  | .floor => neg
  | .ceil => !neg
  | .round => half != .lt

/-- `BigRat::round_with` -/
def roundWith (mode : RoundMode) (x : BigRat) : R BigRat := do
  let (q, r) ← BigUint.divmod x.num x.den
  let n := if BigUint.beq r (small 0) then q
    else if awayFromZero mode x.neg (BigUint.cmp (BigUint.mul r (small 2)) x.den)
      then BigUint.add q (small 1) else q
  .ok ⟨x.neg, n, small 1⟩

/-- decision logic of `round_with` on plain integers: magnitude of the result, given
`num = q * den + r`, `r < den` -/
def roundMag (mode : RoundMode) (neg : Bool) (q r den : Nat) : Nat :=
  if r = 0 then q else if awayFromZero mode neg (compare (2 * r) den) then q + 1 else q

end BigRat

namespace IntFns

def romanValues : List (List Nat × Nat) :=
  [([77], 1000), ([67, 77], 900), ([68], 500), ([67, 68], 400), ([67], 100), ([88, 67], 90),
   ([76], 50), ([88, 76], 40), ([88], 10), ([73, 88], 9), ([86], 5), ([73, 86], 4), ([73], 1)]

/-- one `(r, n)` step of the greedy loops: emit `num / n` copies of `r`, keep the remainder -/
def romanStep (overline : Bool) (acc : List Nat × Nat) (rv : List Nat × Nat) : List Nat × Nat :=
  let (out, num) := acc
  let (r, n) := rv
  let q := num / n
  let piece := if overline then r.flatMap (fun c => [c, 0x305]) else r
  (out ++ (List.replicate q piece).flatten, num - q * n)

/-- `to_roman(num, large = true)` as code points -/
def toRoman (num : Nat) : List Nat :=
  let big := (romanValues.dropLast).map (fun (r, n) => (r, n * 1000))
  let s1 := big.foldl (romanStep true) ([], num)
  (romanValues.foldl (romanStep false) s1).1

/-- the numeric value denoted by one greedy pass: Σ q·n -/
def romanStepValue (acc : Nat × Nat) (n : Nat) : Nat × Nat :=
  let (total, num) := acc
  (total + (num / n) * n, num - (num / n) * n)

inductive RomanRes | ok (s : List Nat) | zero | outOfRange
deriving DecidableEq, Repr

def roman (a : Nat) : RomanRes :=
  if a = 0 then .zero else if a > 1000000000 then .outOfRange else .ok (toRoman a)

def smallNumbers : List String :=
  ["zero", "one", "two", "three", "four", "five", "six", "seven", "eight", "nine", "ten", "eleven",
   "twelve", "thirteen", "fourteen", "fifteen", "sixteen", "seventeen", "eighteen", "nineteen"]
def tens : List String :=
  ["", "", "twenty", "thirty", "forty", "fifty", "sixty", "seventy", "eighty", "ninety"]
def scaleNumbers : List String :=
  ["", "thousand", "million", "billion", "trillion", "quadrillion", "quintillion", "sextillion",
   "septillion", "octillion", "nonillion", "decillion", "undecillion", "duodecillion", "tredecillion",
   "quattuordecillion", "quindecillion", "sexdecillion", "septendecillion", "octodecillion",
   "novemdecillion", "vigintillion"]

/-- `convert_below_1000` -/
def below1000 (num : Nat) : String :=
  let h := if num ≥ 100 then smallNumbers[num / 100]! ++ " hundred" ++ (if num % 100 ≠ 0 then " and " else "") else ""
  let rem := num % 100
  let t := if rem < 20 ∧ rem > 0 then smallNumbers[rem]!
    else if rem ≥ 20 then tens[rem / 10]! ++ (if rem % 10 ≠ 0 then "-" ++ smallNumbers[rem % 10]! else "")
    else ""
  h ++ t

/-- base-1000 chunks, least significant first -/
def chunks : Nat → Nat → List Nat
  | 0, _ => []
  | fuel + 1, n => if n = 0 then [] else (n % 1000) :: chunks fuel (n / 1000)

/-- `BigUint::to_words`; `none` = the OutOfRange error (≥ 10^66) -/
def toWords (n : Nat) : Option String :=
  if n = 0 then some "zero" else
  let cs := chunks (n + 1) n
  -- most significant chunk first, as the `.rev()` loop does
  let rec go : List (Nat × Nat) → String → Option String
    | [], acc => some acc
    | (i, part) :: rest, acc =>
      if part = 0 then go rest acc else
      let acc := if acc.isEmpty then acc else acc ++ " "
      let acc := acc ++ below1000 part
      if i > 0 then
        match scaleNumbers[i]? with
        | none => none
        | some sc => go rest (acc ++ " " ++ sc)
      else go rest acc
  (go ((List.range cs.length).zip cs).reverse "").map (fun s => s.trimAscii.toString)

/-- `char`: a code point is accepted iff it is a Unicode scalar value -/
def charOf (n : Nat) : Option Nat := if Json.isScalar n then some n else none

end IntFns
end Fend
