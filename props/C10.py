"""C10 — integer-domain functions agree with exact big-integer mathematics."""
import math, time
from fractions import Fraction as F
from vlib import core, nat_oracle, biguint_cases, gens
from props.C01 import rat_val, parse_rat_result, rat_canon

MODULE = "FendModel.Props.C10"
REL = "FendModel/Props/C10.lean"
OPS = ["factorial", "fibonacci", "and", "or", "xor", "lshift_n", "rshift_n", "try_as_usize", "lshift", "rshift"]

# ---------------------------------------------------------------- BigRat level
def rat_expected(case):
    ws = case.split(" ")
    op = ws[0]
    a = rat_val(gens.parse_rat(ws[1]))
    b = rat_val(gens.parse_rat(ws[2])) if len(ws) > 2 else None
    if a is None or (len(ws) > 2 and b is None):
        return None
    if op == "floor": return ("ok", F(math.floor(a)))
    if op == "ceil": return ("ok", F(math.ceil(a)))
    if op == "round":
        fl = math.floor(abs(a)); fr = abs(a) - fl
        m = fl + 1 if fr >= F(1, 2) else fl
        return ("ok", F(-m if a < 0 else m))
    isint = lambda q: q.denominator == 1
    if op == "modulo":
        if b == 0: return ("err", {"moduloByZero"})
        if a < 0 or b < 0 or not isint(a) or not isint(b): return ("err", {"moduloForPositiveInts"})
        return ("ok", F(int(a) % int(b)))
    if op in ("and", "or", "xor", "shl", "shr"):
        if not isint(a) or not isint(b): return ("err", {"mustBeInteger"})
        if a < 0 or b < 0: return ("err", {"outOfRange"})
        x, y = int(a), int(b)
        if op == "and": return ("ok", F(x & y))
        if op == "or": return ("ok", F(x | y))
        if op == "xor": return ("ok", F(x ^ y))
        if y >= 2**64: return ("err", {"outOfRange"})
        return ("ok", F(x << y if op == "shl" else x >> y))
    if op == "factorial":
        if not isint(a): return ("err", {"mustBeInteger"})
        if a < 0: return ("err", {"outOfRange"})
        return ("ok", F(math.factorial(int(a))))
    if op in ("combination", "permutation"):
        if not isint(a) or not isint(b): return ("err", {"mustBeInteger"})
        if a < 0 or b < 0 or b > a: return ("err", {"outOfRange"})
        n, r = int(a), int(b)
        return ("ok", F(math.comb(n, r) if op == "combination" else math.perm(n, r)))
    return None

def rat_oracle(case, impl, model):
    exp = rat_expected(case)
    if exp is None:
        return None
    got = parse_rat_result(impl)
    if exp[0] == "ok":
        if got[0] == "ok" and got[1] == exp[1]:
            return None
        return f"mathematically defined value is {exp[1]}, implementation answered {impl!r}"
    if got[0] == "err" and got[1] in exp[1]:
        return None
    return f"argument outside the domain (expected {sorted(exp[1])}), implementation answered {impl!r}"

def small_int_rat(r, lo, hi, neg_ok=True):
    n = r.randint(lo, hi)
    k = r.choice([1, 1, 1, 2, 3, 7])           # unreduced forms
    den = (True, [k]) if r.random() < 0.7 else (False, [k, 0])
    num = gens.from_val(n * k, r)
    return (neg_ok and r.random() < 0.1, num, den)

def rat_cases(r, n, quick):
    out = ["floor +L0,0,1/S2", "shl +S1/S1 +L5,0/S1", "or +L0,1/S1 +L0,0,1/S1", "shl +S1/S1 +S64/S1"]
    while len(out) < n:
        op = r.choice(["floor", "ceil", "round", "modulo", "and", "or", "xor", "shl", "shr", "factorial", "combination", "permutation"])
        if op in ("floor", "ceil", "round"):
            c = r.random()
            if c < 0.3:
                a = gens.raw_rat(r, 3)
            elif c < 0.6:    # within 10^-30 of an integer, or exactly half
                base = r.choice([0, 1, 2**64 - 1, 2**64, 10**20, 10**30, r.getrandbits(100)])
                eps = r.choice([F(1, 10**30), F(-1, 10**30), F(1, 2), F(-1, 2), F(0), F(1, 3), F(2, 3)])
                v = F(base) + eps
                neg = r.random() < 0.4
                k = r.choice([1, 1, 2, 5])
                a = (neg ^ (v < 0), gens.from_val(abs(v.numerator) * k, r), gens.from_val(v.denominator * k, r))
            else:
                a = small_int_rat(r, 0, 10**6)
                a = (a[0], a[1], gens.from_val(r.choice([1, 2, 3, 4, 10, 1000]), r))
            out.append(f"{op} {gens.show_rat(a)}")
        elif op == "factorial":
            a = small_int_rat(r, 0, 60)
            if r.random() < 0.1:      # out-of-domain: a proper fraction or a negative integer (never a huge integer: that is just slow)
                a = (a[0], a[1], gens.from_val(gens.val_of(a[1]) * 2 + 1, r)) if r.random() < 0.5 else (True, gens.from_val(r.randint(1, 50), r), (True, [1]))
            out.append(f"{op} {gens.show_rat(a)}")
        elif op in ("combination", "permutation"):
            nn = r.randint(0, 60 if quick else 150)
            rr = r.randint(0, nn + (2 if r.random() < 0.1 else 0))
            a = small_int_rat(r, nn, nn); b = small_int_rat(r, rr, rr)
            out.append(f"{op} {gens.show_rat(a)} {gens.show_rat(b)}")
        elif op in ("shl", "shr"):
            a = (False, gens.raw_uint(r, 4), (True, [1]))
            b = small_int_rat(r, 0, 300, neg_ok=False)
            if r.random() < 0.15: b = (False, gens.from_val(r.choice([63, 64, 65, 127, 128, 129, 192]), r, small_ok=False), (True, [1]))
            if r.random() < 0.05: b = (False, gens.from_val(2**64 + r.randint(0, 5), r), (True, [1]))
            out.append(f"{op} {gens.show_rat(a)} {gens.show_rat(b)}")
        elif op == "modulo":
            a = (r.random() < 0.05, gens.raw_uint(r, 4), (True, [1]) if r.random() < 0.8 else gens.raw_uint(r, 1))
            b = (r.random() < 0.05, gens.raw_uint(r, 3), (True, [1]) if r.random() < 0.9 else gens.raw_uint(r, 1))
            if gens.val_of(a[2]) == 0: a = (a[0], a[1], (True, [1]))
            if gens.val_of(b[2]) == 0: b = (b[0], b[1], (True, [1]))
            out.append(f"{op} {gens.show_rat(a)} {gens.show_rat(b)}")
        else:
            a = (False, gens.raw_uint(r, 5), (True, [1]) if r.random() < 0.9 else (True, [r.randint(1, 3)]))
            b = (r.random() < 0.03, gens.raw_uint(r, 5), (True, [1]))
            out.append(f"{op} {gens.show_rat(a)} {gens.show_rat(b)}")
    return out

# ---------------------------------------------------------------- text functions
ROMAN_VAL = {"I": 1, "V": 5, "X": 10, "L": 50, "C": 100, "D": 500, "M": 1000}

def roman_value(s):
    """independent reading of a roman numeral with optional combining overlines (x1000):
    subtractive pairs, otherwise additive; None if not well formed"""
    toks, i = [], 0
    while i < len(s):
        if s[i] not in ROMAN_VAL: return None
        v = ROMAN_VAL[s[i]]; i += 1
        if i < len(s) and s[i] == "\u0305":
            v *= 1000; i += 1
        toks.append(v)
    total, i = 0, 0
    while i < len(toks):
        if i + 1 < len(toks) and toks[i] < toks[i + 1]:
            total += toks[i + 1] - toks[i]; i += 2
        else:
            total += toks[i]; i += 1
    return total

SMALL = "zero one two three four five six seven eight nine ten eleven twelve thirteen fourteen fifteen sixteen seventeen eighteen nineteen".split()
TENS = "_ _ twenty thirty forty fifty sixty seventy eighty ninety".split()
SCALES = ["", "thousand", "million", "billion", "trillion", "quadrillion", "quintillion", "sextillion", "septillion", "octillion", "nonillion", "decillion",
          "undecillion", "duodecillion", "tredecillion", "quattuordecillion", "quindecillion", "sexdecillion", "septendecillion", "octodecillion",
          "novemdecillion", "vigintillion"]

def py_words(n):
    if n == 0: return "zero"
    if n >= 10**66: return None
    def b1000(k):
        w = []
        if k >= 100:
            w.append(SMALL[k // 100] + " hundred" + (" and" if k % 100 else ""))
        r = k % 100
        if 0 < r < 20: w.append(SMALL[r])
        elif r >= 20: w.append(TENS[r // 10] + ("-" + SMALL[r % 10] if r % 10 else ""))
        return " ".join(w)
    parts, i = [], 0
    while n:
        n, c = divmod(n, 1000)
        if c: parts.append(b1000(c) + (" " + SCALES[i] if i else ""))
        i += 1
    return " ".join(reversed(parts))

def words_value(s):
    """inverse of the wording (independent check that the text denotes n)"""
    total = 0
    cur = 0
    for tok in s.replace("-", " ").split():
        if tok == "and": continue
        if tok in SMALL: cur += SMALL.index(tok)
        elif tok in TENS: cur += TENS.index(tok) * 10
        elif tok == "hundred": cur *= 100
        elif tok in SCALES: total += cur * 1000 ** SCALES.index(tok); cur = 0
        else: return None
    return total + cur

def unhx(l):
    l = l.strip()
    return "".join(chr(int(w, 16)) for w in l.split(" ")) if l else ""

def intfn_oracle(case, impl, model):
    op, n = case.split(" "); n = int(n)
    got = unhx(impl[3:]) if impl.startswith("ok") else None
    if op == "roman":
        if n == 0: return None if impl == "err romanZero" else f"0 has no roman numeral; implementation answered {impl!r}"
        if n > 10**9: return None if impl == "err outOfRange" else f"> 10^9 is outside the domain; implementation answered {impl!r}"
        return None if got is not None and roman_value(got) == n else f"the numeral must denote {n}; implementation answered {got!r} which reads as {roman_value(got) if got else None}"
    if op == "words":
        w = py_words(n)
        if w is None: return None if impl == "err outOfRange" else f">= 10^66 is outside the domain; implementation answered {impl!r}"
        if got != w or words_value(got) != n: return f"{n} in words is {w!r}, implementation answered {got!r}"
        return None
    if op == "char":
        valid = n < 0xD800 or 0xE000 <= n < 0x110000
        if not valid: return None if impl.startswith("err") and impl != "err panic" else f"U+{n:x} is not a scalar value; implementation answered {impl!r}"
        return None if got == chr(n) else f"char {n} is {chr(n)!r}, implementation answered {got!r}"

def intfn_cases(r, n, quick):
    out = []
    for k in list(range(0, 4100 if quick else 5001)) + [10**9, 10**9 + 1, 999999999, 3999999, 4000000]:
        out.append(f"roman {k}")
    for k in [0, 1, 10, 11, 19, 20, 21, 99, 100, 101, 110, 999, 1000, 1001, 10**6, 10**65, 10**66 - 1, 10**66, 10**66 + 1, 2**64, 2**64 - 1, 2**128]:
        out.append(f"words {k}")
    for k in [0, 65, 0x7f, 0x80, 0xd7ff, 0xd800, 0xdfff, 0xe000, 0xffff, 0x10000, 0x10ffff, 0x110000, 2**32, 2**32 + 65, 2**64 - 1]:
        out.append(f"char {k}")
    while len(out) < n:
        c = r.random()
        if c < 0.3: out.append(f"roman {r.choice([r.randint(1, 10**9), r.randint(1, 10**5)])}")
        elif c < 0.8:
            d = r.randint(1, 66)
            k = r.randrange(10**(d - 1), 10**d)
            if r.random() < 0.3:   # many zero chunks
                k = int("".join(r.choice(["000", "%03d" % r.randint(0, 999)]) for _ in range(r.randint(1, 22))) or "0")
            out.append(f"words {k}")
        else: out.append(f"char {r.choice([r.randrange(0x110000), r.randrange(0xd700, 0xe100), r.randrange(0x10ff00, 0x110100)])}")
    return out

# ---------------------------------------------------------------- API level, arguments reached through histories
def api_cases(r, n):
    cases = []
    def arg(v):
        c = r.random()
        if c < 0.4: return str(v)
        if c < 0.7: return f"((2^64+{v})-2^64)"
        if c < 0.85: return f"({v*3}/3)"
        return f"((2^128+{v})-2^128)"
    while len(cases) < n:
        k = r.random()
        if k < 0.12:
            v = r.randint(0, 40); cases.append((f"{arg(v)}!", str(math.factorial(v))))
        elif k < 0.24:
            a = r.randint(0, 60); b = r.randint(0, a); cases.append((f"{arg(a)} nCr {arg(b)}", str(math.comb(a, b))))
        elif k < 0.34:
            a = r.randint(0, 40); b = r.randint(0, a); cases.append((f"{arg(a)} nPr {arg(b)}", str(math.perm(a, b))))
        elif k < 0.44:
            v = r.randint(0, 300); a, b = 0, 1
            for _ in range(v): a, b = b, a + b
            cases.append((f"fib {arg(v)}", str(a)))
        elif k < 0.56:
            a = r.getrandbits(r.choice([10, 70, 130])); b = r.getrandbits(r.choice([5, 65, 100])) + 1
            cases.append((f"{arg(a)} mod {arg(b)}", str(a % b)))
        elif k < 0.72:
            a = r.getrandbits(r.choice([10, 64, 70, 130])); b = r.getrandbits(r.choice([10, 64, 70, 130]))
            op, f = r.choice([("&", lambda x, y: x & y), ("|", lambda x, y: x | y), ("xor", lambda x, y: x ^ y)])
            cases.append((f"{arg(a)} {op} {arg(b)}", str(f(a, b))))
        elif k < 0.86:
            a = r.getrandbits(r.choice([1, 10, 64, 70])); s = r.choice([0, 1, 63, 64, 65, 127, 128, r.randint(0, 200)])
            if r.random() < 0.5: cases.append((f"{arg(a)} << {arg(s)}", str(a << s)))
            else: cases.append((f"{arg(a)} >> {arg(s)}", str(a >> s)))
        else:
            base = r.choice([10**30, 2**64, 10**20, r.getrandbits(90)])
            fr = r.choice(["0.5", "0.4999999999999999999999999999999", "0.5000000000000000000000000000001", "0.(9)", "0.000000000000000000000000000001"])
            v = F(base) + (F(1) if fr == "0.(9)" else F(fr))
            sgn = r.choice(["", "-"])
            vv = -v if sgn else v
            fn = r.choice(["floor", "ceil", "round"])
            if fn == "floor": e = math.floor(vv)
            elif fn == "ceil": e = math.ceil(vv)
            else:
                fl = math.floor(abs(vv)); m = fl + 1 if abs(vv) - fl >= F(1, 2) else fl; e = -m if vv < 0 else m
            cases.append((f"{fn}({sgn}({base} + {fr}))", str(e)))
    return cases

def run(ctx):
    quick = ctx.tier == "quick"
    ctx.lean_build([MODULE])
    ctx.audit(MODULE, REL)
    if not quick:
        ctx.leanchecker(MODULE)
    h = ctx.harness()
    if h is None:
        ctx.proof_failures.append({"file": "harness", "decl": "harness build (verif-hooks)", "line": 0, "msg": getattr(ctx, "harness_error", "")})
        return ctx.finish()
    env = {"HARNESS_LINE_TIMEOUT_S": "3"}
    r = ctx.rng
    lines = biguint_cases.cases(r, 4000 if quick else 200000, OPS, maxlimbs=8 if quick else 64)
    ctx.diff_stream("biguint-ops", lines, h, "biguint", canon=nat_oracle.canon, oracle=nat_oracle.oracle, nontrivial=lambda c, a: "L" in c, env=env,
                    what="BigUint factorial/fibonacci/and/or/xor/lshift_n/rshift_n/try_as_usize/lshift/rshift on raw limb vectors (dense at limb boundaries, "
                         "non-canonical forms) through the hooks; vs Lean model and vs Python int arithmetic")
    ctx.diff_stream("bigrat-ops", rat_cases(r, 4000 if quick else 30000, quick), h, "bigrat", canon=rat_canon, oracle=rat_oracle,
                    nontrivial=lambda c, a: True, env=env,
                    what="BigRat floor/ceil/round (values within 10^-30 of an integer, halves, beyond 2^64), modulo, bitwise, shifts, factorial, nCr/nPr "
                         "(all r<=n<=60 sampled; to 400 in thorough) incl. unreduced / non-canonical arguments and out-of-domain ones; vs Lean model and Python")
    ctx.diff_stream("text-fns", intfn_cases(r, 7000 if quick else 80000, quick), h, "intfn", oracle=intfn_oracle, nontrivial=lambda c, a: True,
                    what="`to roman` (all 1..4099; all ..5000 thorough; sampled to 10^9), `to words` (to 10^66, zero chunks), `to char` (scalar boundary) through "
                         "fend_core::evaluate; vs Lean model and vs independent Python implementations (with an inverse reading of the words)")
    cases = [("((2^64+5)-2^64) to roman", "V"), ("fib((2^64+5)-2^64)", "5"), ("1 << ((2^64+5)-2^64)", "32"), ("floor(10^30+0.5)", str(10**30)),
             ("floor(123456789012345678.5)", "123456789012345678"), ("1 << 64", str(2**64)), ("(2^64) | (2^128)", str(2**64 | 2**128))] + api_cases(r, 1500 if quick else 40000)
    t0 = time.time()
    outs = ctx.run_lines_robust(h, ["eval"], [c for c, _ in cases], env={"HARNESS_LINE_TIMEOUT_S": "10"})
    bad = 0
    for (c, e), o in zip(cases, outs):
        if o != "ok " + e:
            bad += 1
            ctx.spec_failures.append({"stream": "api-args", "input": c, "impl": o, "model": "ok " + e, "spec": f"mathematically defined result is {e}"})
    ctx.record_stream("api-args", "factorial, nCr, nPr, fib, mod, & | xor, << >>, floor/ceil/round through fend_core::evaluate with arguments produced by "
                      "cancelling histories ((2^64+v)-2^64), unreduced fractions (3v/3) and literals; vs Python", len(cases), len(set(cases)),
                      {"mismatch": bad}, [c for c, _ in cases[:3]], time.time() - t0)
    return ctx.finish(rule="operand generator of DESIGN.md section 7; text functions: enumerated ranges + random to the domain limits; "
                           "distinct = distinct case lines; op cases non-trivial when an operand is multi-limb")

def replay(ctx, rep):
    h = ctx.harness()
    f = rep["first"]
    st = {"biguint-ops": "biguint", "bigrat-ops": "bigrat", "text-fns": "intfn", "api-args": "eval"}[f["stream"]]
    print("case :", f["input"])
    print("impl :", ctx.run_lines(h, [st], [f["input"]])[1])
    if st != "eval":
        print("model:", ctx.run_lines(core.DRIVER, [st], [f["input"]])[1])
    print("spec :", f.get("spec"))
    return 0
