"""C08 — operators bind as the manual's precedence table says."""
import time
from fractions import Fraction as F
from math import comb, factorial
from vlib import core

MODULE = "FendModel.Props.C08"
REL = "FendModel/Props/C08.lean"

# the manual's table (documentation/chapters/expressions.md), tightest first
PREC = {"!": 90, "^": 80, "neg": 70, "*": 60, "/": 60, "mod": 60, "q": 60, "+": 50, "-": 50, "<<": 40, ">>": 40, "&": 35, "xor": 30, "|": 25, "nCr": 20, "nPr": 15}
# what each operand position admits without parentheses (left operand, right operand)
NEED = {"^": (90, 70), "*": (60, 70), "/": (60, 70), "mod": (60, 70), "+": (50, 60), "-": (50, 60), "<<": (40, 50), ">>": (40, 50),
        "&": (35, 40), "xor": (30, 35), "|": (25, 30), "nCr": (20, 25), "nPr": (15, 20)}
ALIASES = {"^": ["^", "**"], "*": ["*", "×", "✕"], "/": ["/", "÷", "∕", " per "], "-": ["-", "−"], "&": ["&", " and ", " AND "], "|": ["|", " or ", " OR "],
           "xor": [" xor ", " XOR "], "nCr": [" nCr ", " choose "], "nPr": [" nPr ", " permute "], "mod": [" mod "], "+": ["+"], "<<": ["<<"], ">>": [">>"]}
FMT = {"+": "+", "-": "-", "*": "*", "/": "/", "mod": " mod ", "^": "^", "&": "&", "|": "|", "xor": " xor ", "<<": "<<", ">>": ">>", "nCr": "nCr", "nPr": "nPr"}
UNITS = ["kg", "m", "s", "bytes"]

class N:
    __slots__ = ("k", "a", "b", "v")
    def __init__(s, k, a=None, b=None, v=None): s.k, s.a, s.b, s.v = k, a, b, v

def prec(n):
    if n.k in ("num",): return 100
    if n.k == "q": return 60
    if n.k == "neg": return 70
    if n.k == "fact": return 90
    return PREC[n.k]

def gen(r, depth, top=100):
    if depth <= 0 or r.random() < 0.18:
        if r.random() < 0.1:
            return N("q", v=(r.randint(1, 9), r.choice(UNITS)))
        return N("num", v=r.randint(0, 9))
    c = r.random()
    if c < 0.08: return N("neg", gen(r, depth - 1))
    if c < 0.14: return N("fact", gen(r, depth - 1))
    op = r.choice(list(NEED))
    return N(op, gen(r, depth - 1), gen(r, depth - 1 - r.randint(0, 1)))

def emit(n, need, r, toks, full=False):
    """append text pieces to toks[0] (minimal text), toks[1] (canonical tokens for the model); returns the tree text fend
    should show (`Expr::format`) — parentheses the printer had to add show up as `Parens` nodes"""
    wrap = prec(n) < need
    if wrap or (full and n.k != "num"):
        wrap = True
        toks[0].append("("); toks[1].append("s:(")
    if n.k == "num":
        toks[0].append(str(n.v)); toks[1].append(f"n:{n.v}"); t = str(n.v)
    elif n.k == "q":
        toks[0].append(f"{n.v[0]} {n.v[1]}"); toks[1] += [f"n:{n.v[0]}", f"i:{n.v[1]}"]; t = f"({n.v[0]} {n.v[1]})"
    elif n.k == "neg":
        toks[0].append(r.choice(["-", "−"]) if r else "-"); toks[1].append("s:-")
        t = "(-" + emit(n.a, 70, r, toks, full) + ")"
    elif n.k == "fact":
        inner = emit(n.a, 90, r, toks, full)
        toks[0].append("!"); toks[1].append("s:!"); t = inner + "!"
    else:
        l, rr = NEED[n.k]
        a = emit(n.a, l, r, toks, full)
        sp = r.choice(["", " "]) if r else " "
        al = r.choice(ALIASES[n.k]) if r else ALIASES[n.k][0]
        toks[0].append(sp + al + sp); toks[1].append("s:" + n.k)
        b = emit(n.b, rr, r, toks, full)
        t = "(" + a + FMT[n.k] + b + ")"
    if wrap:
        toks[0].append(")"); toks[1].append("s:)")
        t = "(" + t + ")"
    return t

class Skip(Exception): pass

def ev(n):
    """reference value (python ints / Fractions; units as a symbolic exponent map is overkill: quantities are skipped)"""
    if n.k == "num": return F(n.v)
    if n.k == "q": raise Skip()
    if n.k == "neg": return -ev(n.a)
    if n.k == "fact":
        a = ev(n.a)
        if a.denominator != 1 or a < 0 or a > 12: raise Skip()
        return F(factorial(int(a)))
    a, b = ev(n.a), ev(n.b)
    if abs(a) > 10 ** 30 or abs(b) > 10 ** 30: raise Skip()
    k = n.k
    if k == "+": return a + b
    if k == "-": return a - b
    if k == "*": return a * b
    if k == "/":
        if b == 0: raise Skip()
        return a / b
    if k == "^":
        if b.denominator != 1 or abs(b) > 20 or (a == 0 and b <= 0): raise Skip()
        return a ** int(b)
    if a.denominator != 1 or b.denominator != 1 or a < 0 or b < 0: raise Skip()
    a, b = int(a), int(b)
    if k == "mod":
        if b == 0: raise Skip()
        return F(a % b)
    if k == "<<":
        if b > 64: raise Skip()
        return F(a << b)
    if k == ">>": return F(a >> b)
    if k == "&": return F(a & b)
    if k == "|": return F(a | b)
    if k == "xor": return F(a ^ b)
    if k == "nCr":
        if b > a or a > 60: raise Skip()
        return F(comb(a, b))
    if k == "nPr":
        if b > a or a > 25: raise Skip()
        return F(factorial(a) // factorial(a - b))
    raise Skip()

def show(v):
    return str(v.numerator) if v.denominator == 1 else f"{v.numerator}/{v.denominator}"

def run(ctx):
    quick = ctx.tier == "quick"
    h = ctx.harness()
    if h is None:
        ctx.proof_failures.append({"file": "harness", "decl": "harness build", "line": 0, "msg": getattr(ctx, "harness_error", "")})
        return ctx.finish()
    ctx.lean_build([MODULE])
    ctx.audit(MODULE, REL)
    if not quick:
        ctx.leanchecker(MODULE)
    t0 = time.time()
    r = ctx.rng
    trees = [gen(r, r.choice([1, 2, 3, 3, 4, 5, 6])) for _ in range(3000 if quick else 60000)]
    rows = []
    for n in trees:
        tk = [[], []]
        want = emit(n, 0, r, tk)
        tf = [[], []]
        emit(n, 0, None, tf, full=True)
        rows.append((n, "".join(tk[0]), tk[1], want, "".join(tf[0])))
    # 1. shape: the tree fend builds from the minimal text (shown as the body of a lambda) is the tree the table prescribes
    shape_impl = ctx.run_lines_robust(h, ["eval"], ["x: " + row[1] for row in rows], env={"HARNESS_LINE_TIMEOUT_S": "20"})
    shape_model = ctx.run_lines(core.DRIVER, ["parse"], ["i:x s:: " + " ".join(row[2]) for row in rows], timeout=900)[1]
    shape_model += ["<missing>"] * (len(rows) - len(shape_model))
    dist = {"ops": {}, "depth_ge4": 0, "with_added_parens": 0, "valued": 0, "value_skipped": 0, "top_forms": 0}
    for (n, text, toks, want, full), a, m in zip(rows, shape_impl, shape_model):
        dist["ops"][n.k] = dist["ops"].get(n.k, 0) + 1
        if "((" in want: dist["with_added_parens"] += 1
        w = "ok \\x." + want
        if a != w:
            ctx.spec_failures.append({"stream": "shape", "input": "x: " + text, "impl": a, "model": m, "spec": "the manual's precedence / associativity table groups this text as " + want})
        if m != w:
            ctx.model_disagreements.append({"stream": "shape", "input": "x: " + text, "impl": a, "model": m})
    # 2. value: minimal text == fully parenthesised text == reference value
    val_lines, meta = [], []
    for (n, text, toks, want, full) in rows:
        try:
            v = ev(n)
        except (Skip, ZeroDivisionError, OverflowError):
            dist["value_skipped"] += 1; continue
        dist["valued"] += 1
        val_lines += [f"@noapprox ({text}) to fraction", f"@noapprox ({full}) to fraction"]; meta.append((text, full, v))
    outs = ctx.run_lines_robust(h, ["eval"], val_lines, env={"HARNESS_LINE_TIMEOUT_S": "20"})
    for i, (text, full, v) in enumerate(meta):
        a, b = outs[2 * i], outs[2 * i + 1]
        if a != b:
            ctx.spec_failures.append({"stream": "value", "input": text, "impl": a, "model": b, "spec": f"the minimally parenthesised text and its fully parenthesised form `{full}` must evaluate alike"})
        elif a != "ok " + show(v):
            ctx.spec_failures.append({"stream": "value", "input": text, "impl": a, "model": show(v), "spec": "value under the manual's precedence table (reference evaluator on the AST)"})
    # 3. the levels above the lambda: == / != , = , ;
    top, tmeta = [], []
    for _ in range(300 if quick else 5000):
        a, b = gen(r, 2), gen(r, 2)
        try:
            va, vb = ev(a), ev(b)
        except (Skip, ZeroDivisionError, OverflowError):
            continue
        ta, tb = [[], []], [[], []]
        emit(a, 12, r, ta); emit(b, 12, r, tb)
        sa, sb = "".join(ta[0]), "".join(tb[0])
        eq = r.choice(["==", "!=", "≠", "<>"])
        top.append(f"{sa} {eq} {sb}"); tmeta.append(str((va == vb) == (eq == "==")).lower())
        top.append(f"a = {sa}; a * 2 == {sb}"); tmeta.append(str(va * 2 == vb).lower())
        top.append(f"a = b = {sa}; (a + b) to fraction"); tmeta.append(show(va * 2))
        top.append(f"a = {sa}; b = {sb}; (a - b) to fraction"); tmeta.append(show(va - vb))
        # `=` binds looser than `==`: the variable holds the boolean
        top.append(f"a = {sa} {eq} {sb}; a"); tmeta.append(str((va == vb) == (eq == "==")).lower())
        top.append(f"c = a = {sa} {eq} {sb}; a"); tmeta.append(str((va == vb) == (eq == "==")).lower())
    outs = ctx.run_lines_robust(h, ["eval"], top, env={"HARNESS_LINE_TIMEOUT_S": "20"})
    for line, w, o in zip(top, tmeta, outs):
        dist["top_forms"] += 1
        if o != "ok " + w:
            ctx.spec_failures.append({"stream": "top-levels", "input": line, "impl": o, "model": w, "spec": "`==`/`!=` bind looser than every arithmetic operator, `=` looser still, `;` loosest"})
    ctx.record_stream("precedence", "random ASTs to depth 6 over ! ^ unary-minus * / mod + - << >> & xor | nCr nPr and number-unit juxtaposition, printed with the minimal parentheses the manual's table requires and with "
                      "random operator aliases (**, per, and/or/xor, choose/permute, Unicode signs) and spacing: (1) the tree fend shows for `x: text` vs the tree the table prescribes vs the Lean parser model, "
                      "(2) value of the minimal text vs of the fully parenthesised text vs a reference evaluator on the AST, (3) == != = ; forms by value",
                      len(rows) + len(val_lines) + len(top), len(set(row[1] for row in rows)), dist, [row[1] for row in rows[:3]], time.time() - t0)
    return ctx.finish(rule="quick 3000 / thorough 60000 ASTs; distinct = distinct minimal texts")

def replay(ctx, rep):
    print(rep["first"]); return 0
