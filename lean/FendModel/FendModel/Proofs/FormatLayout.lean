/-
`format_nonrecurring` (terminating expansions and `n dp`): the text it builds is the integer part, and — if any shown digit is
non-zero — the separator and the digits of the long division up to the stopping point with trailing zeros dropped; the
`exact` flag says whether the remainder at the stopping point is zero.  This ties the truncation theorem of C03 and the
terminating round trip of C02 (both about the digit sequence) to the text.
-/
import FendModel.Proofs.Format

namespace Fend.Fmt

/-- number of trailing zeros -/
def tz (ds : List Nat) : Nat := (ds.reverse.takeWhile (· == 0)).length
/-- the digits without their trailing zeros -/
def stripZ (ds : List Nat) : List Nat := (ds.reverse.dropWhile (· == 0)).reverse

theorem tz_snoc_zero (ds : List Nat) : tz (ds ++ [0]) = tz ds + 1 := by simp [tz]
theorem tz_snoc_pos (ds : List Nat) (d : Nat) (h : d ≠ 0) : tz (ds ++ [d]) = 0 := by simp [tz, h]
theorem stripZ_snoc_zero (ds : List Nat) : stripZ (ds ++ [0]) = stripZ ds := by simp [stripZ]
theorem stripZ_snoc_pos (ds : List Nat) (d : Nat) (h : d ≠ 0) : stripZ (ds ++ [d]) = ds ++ [d] := by simp [stripZ, h]

theorem takeWhile_zero_eq (l : List Nat) : l.takeWhile (· == 0) = List.replicate (l.takeWhile (· == 0)).length 0 := by
  induction l with
  | nil => rfl
  | cons x xs ih =>
    simp only [List.takeWhile_cons]
    split
    · rename_i h
      have hx : x = 0 := by simpa using h
      subst hx
      simp only [List.length_cons, List.replicate_succ]
      exact congrArg _ ih
    · rfl

/-- digits = significant part followed by the trailing zeros -/
theorem strip_split (ds : List Nat) : ds = stripZ ds ++ List.replicate (tz ds) 0 := by
  have h := List.takeWhile_append_dropWhile (p := (· == 0)) (l := ds.reverse)
  have h2 : ds.reverse.reverse = (ds.reverse.takeWhile (· == 0) ++ ds.reverse.dropWhile (· == 0)).reverse := by rw [h]
  rw [List.reverse_reverse, List.reverse_append] at h2
  have h3 : (ds.reverse.takeWhile (· == 0)).reverse = List.replicate (tz ds) 0 := by
    rw [takeWhile_zero_eq ds.reverse]; simp [tz]
  rw [h3] at h2
  exact h2

/-- the text for a digit sequence: trailing zeros are never printed; without a non-zero digit there is no separator at all -/
def renderDigits (intTxt : List Char) (sep : Char) (ds : List Nat) : List Char :=
  if stripZ ds = [] then intTxt else intTxt ++ sep :: (stripZ ds).map digitChar

/-- what the loop has written (reversed) after producing the digits `ds` -/
def outOf (intTxt : List Char) (sep : Char) (ds : List Nat) : List Char :=
  if stripZ ds = [] then [] else (intTxt ++ sep :: (stripZ ds).map digitChar).reverse

def startedOf (ds : List Nat) : Bool := !(stripZ ds).isEmpty

theorem digitChar_zero : digitChar 0 = '0' := by decide

theorem sub_div_mul (a den : Nat) : a - a / den * den = a % den := by
  have := Nat.div_add_mod a den
  have h2 : a / den * den = den * (a / den) := Nat.mul_comm _ _
  omega

theorem map_replicate_zero (n : Nat) : (List.replicate n 0).map digitChar = List.replicate n '0' := by
  simp [digitChar_zero]

/-- writing a non-zero digit: pending zeros are flushed, and the text becomes that of the longer digit string -/
theorem out_snoc_pos (intTxt : List Char) (sep : Char) (ds : List Nat) (d : Nat) (hd : d ≠ 0) :
    digitChar d :: (List.replicate (tz ds) '0' ++ (if startedOf ds then outOf intTxt sep ds else sep :: (intTxt.reverse ++ outOf intTxt sep ds))) =
      outOf intTxt sep (ds ++ [d]) := by
  have hne : ds ++ [d] ≠ [] := by simp
  have hsplit := strip_split ds
  simp only [outOf, startedOf, stripZ_snoc_pos ds d hd, hne, if_false]
  by_cases hs : stripZ ds = []
  · have hds : ds = List.replicate (tz ds) 0 := by rw [hs] at hsplit; simpa using hsplit
    simp only [hs, List.isEmpty_nil, Bool.not_true, Bool.false_eq_true, if_false, if_true, List.append_nil]
    conv_rhs => rw [hds]
    simp [List.map_append, List.reverse_append, digitChar_zero]
  · have hne2 : (stripZ ds).isEmpty = false := by simpa using hs
    simp only [hs, hne2, Bool.not_false, if_true, if_false]
    conv_rhs => rw [hsplit]
    simp [List.map_append, List.reverse_append, digitChar_zero]

theorem nonrecLoop_succ (b den : Nat) (md : MaxDigits) (sep : Char) (intTxt : List Char) (neg intZero : Bool)
    (fuel cur i zeros : Nat) (started : Bool) (out : List Char) :
    nonrecLoop b den md sep intTxt neg intZero (fuel + 1) cur i zeros started out =
      if (cur == 0 || md == .dp i || md == .ign i) = true then
        (if started = true then (neg, out.reverse, cur == 0) else (neg && !intZero, (intTxt.reverse ++ out).reverse, cur == 0))
      else if cur * b / den = 0 then
        nonrecLoop b den md sep intTxt neg intZero fuel (cur * b - cur * b / den * den)
          (if (i == 0 && (match md with | .ign _ => true | _ => false)) = true then i else i + 1) (zeros + 1) started out
      else
        nonrecLoop b den md sep intTxt neg intZero fuel (cur * b - cur * b / den * den) (i + 1) 0 true
          (digitChar (cur * b / den) :: (List.replicate zeros '0' ++ (if started = true then out else sep :: (intTxt.reverse ++ out)))) := rfl

/-- one step of the loop keeps the invariant: after `j` digits the state is (remainder, `j`, trailing zeros, started, text) -/
theorem step_state (b den r : Nat) (md : MaxDigits) (hmd : ∀ m, md ≠ .ign m) (sep : Char) (intTxt : List Char) (neg intZero : Bool)
    (fuel j : Nat) (hcur : remAt b den r j ≠ 0) (hdp : md ≠ .dp j) :
    nonrecLoop b den md sep intTxt neg intZero (fuel + 1) (remAt b den r j) j (tz (digitsFrom b den r j))
        (startedOf (digitsFrom b den r j)) (outOf intTxt sep (digitsFrom b den r j)) =
      nonrecLoop b den md sep intTxt neg intZero fuel (remAt b den r (j + 1)) (j + 1) (tz (digitsFrom b den r (j + 1)))
        (startedOf (digitsFrom b den r (j + 1))) (outOf intTxt sep (digitsFrom b den r (j + 1))) := by
  have hcur' : (remAt b den r j == 0) = false := by simpa using hcur
  have hnext : remAt b den r j * b - remAt b den r j * b / den * den = remAt b den r (j + 1) := by
    simp [remAt, sub_div_mul]
  have key : ∀ (hign : (md == MaxDigits.ign j) = false) (hdp' : (md == MaxDigits.dp j) = false)
      (hm : (match md with | .ign _ => true | _ => false) = false), _ := fun hign hdp' hm => by
    show nonrecLoop b den md sep intTxt neg intZero (fuel + 1) (remAt b den r j) j (tz (digitsFrom b den r j))
        (startedOf (digitsFrom b den r j)) (outOf intTxt sep (digitsFrom b den r j)) =
      nonrecLoop b den md sep intTxt neg intZero fuel (remAt b den r (j + 1)) (j + 1) (tz (digitsFrom b den r (j + 1)))
        (startedOf (digitsFrom b den r (j + 1))) (outOf intTxt sep (digitsFrom b den r (j + 1)))
    rw [nonrecLoop_succ]
    simp only [hcur', hdp', hign, hm, Bool.or_self, Bool.false_eq_true, if_false, Bool.and_false]
    by_cases hd : remAt b den r j * b / den = 0
    · have hds1 : digitsFrom b den r (j + 1) = digitsFrom b den r j ++ [0] := by simp [digitsFrom, hd]
      simp only [hd, if_true]
      rw [hds1, tz_snoc_zero, startedOf, startedOf, outOf, outOf, stripZ_snoc_zero]
      rw [hd] at hnext
      simp only [Nat.zero_mul, Nat.sub_zero] at hnext ⊢
      rw [hnext]
    · have hds1 : digitsFrom b den r (j + 1) = digitsFrom b den r j ++ [remAt b den r j * b / den] := by simp [digitsFrom]
      simp only [hd, if_false, hnext]
      rw [hds1, tz_snoc_pos _ _ hd, out_snoc_pos intTxt sep _ _ hd]
      have : startedOf (digitsFrom b den r j ++ [remAt b den r j * b / den]) = true := by
        simp [startedOf, stripZ_snoc_pos _ _ hd]
      rw [this]
  cases md with
  | all => exact key rfl rfl rfl
  | dp n =>
    refine key rfl ?_ rfl
    simp only [beq_eq_false_iff_ne, ne_eq]; intro h; exact hdp h
  | ign n => exact absurd rfl (hmd n)

/-- **the text of a terminating expansion / of `n dp`**: started on the remainder `r` of a non-integer value, with no limit
or a limit of `n` places, the loop stops at the first index `k` where the remainder vanishes or `k = n`, and returns the
integer part followed — if a non-zero digit was produced — by the separator and the first `k` long-division digits without
trailing zeros; `exact` says whether the remainder at `k` is zero; a value that prints as zero loses its minus sign -/
theorem nonrec_text (b den r : Nat) (md : MaxDigits) (hmd : ∀ m, md ≠ .ign m) (sep : Char) (intTxt : List Char) (neg intZero : Bool)
    (k : Nat) (hbefore : ∀ j, j < k → remAt b den r j ≠ 0 ∧ md ≠ .dp j) (hstop : remAt b den r k = 0 ∨ md = .dp k)
    (fuel : Nat) (hfuel : k + 1 ≤ fuel) :
    nonrecLoop b den md sep intTxt neg intZero fuel r 0 0 false [] =
      (if startedOf (digitsFrom b den r k) then neg else neg && !intZero,
       renderDigits intTxt sep (digitsFrom b den r k), remAt b den r k == 0) := by
  -- generalise to "from step j"
  have gen : ∀ d j, j + d = k → ∀ fuel, d + 1 ≤ fuel →
      nonrecLoop b den md sep intTxt neg intZero fuel (remAt b den r j) j (tz (digitsFrom b den r j))
        (startedOf (digitsFrom b den r j)) (outOf intTxt sep (digitsFrom b den r j)) =
      (if startedOf (digitsFrom b den r k) then neg else neg && !intZero,
       renderDigits intTxt sep (digitsFrom b den r k), remAt b den r k == 0) := by
    intro d
    induction d with
    | zero =>
      intro j hj fuel hf
      have hjk : j = k := by omega
      subst hjk
      obtain ⟨f, rfl⟩ : ∃ f, fuel = f + 1 := ⟨fuel - 1, by omega⟩
      rw [nonrecLoop_succ]
      have hs : (remAt b den r j == 0 || md == MaxDigits.dp j || md == MaxDigits.ign j) = true := by
        rcases hstop with h | h
        · simp [h]
        · subst h; simp
      simp only [hs, if_true]
      by_cases hst : startedOf (digitsFrom b den r j) = true
      · have hne : stripZ (digitsFrom b den r j) ≠ [] := by
          intro h; simp [startedOf, h] at hst
        simp [hst, outOf, renderDigits, hne]
      · have hst' : startedOf (digitsFrom b den r j) = false := by simpa using hst
        have he : stripZ (digitsFrom b den r j) = [] := by
          cases h : stripZ (digitsFrom b den r j) with
          | nil => rfl
          | cons x xs => simp [startedOf, h] at hst'
        simp [hst', outOf, renderDigits, he]
    | succ d ih =>
      intro j hj fuel hf
      obtain ⟨f, rfl⟩ : ∃ f, fuel = f + 1 := ⟨fuel - 1, by omega⟩
      have hb := hbefore j (by omega)
      rw [step_state b den r md hmd sep intTxt neg intZero f j hb.1 hb.2]
      exact ih (j + 1) (by omega) f (by omega)
  have h0 := gen k 0 (by omega) fuel hfuel
  simpa [digitsFrom, remAt, tz, startedOf, outOf, stripZ] using h0


theorem valDigits_append (b : Nat) (xs ys : List Nat) : valDigits b (xs ++ ys) = valDigits b xs * b ^ ys.length + valDigits b ys := by
  unfold valDigits
  rw [List.foldl_append, valDigits_foldl]
  rfl

theorem valDigits_zeros (b n : Nat) : valDigits b (List.replicate n 0) = 0 := by
  induction n with
  | zero => rfl
  | succ n ih => rw [List.replicate_succ, valDigits_cons, ih]; simp

/-- dropping the trailing zeros does not change the value the digits denote after the point -/
theorem stripZ_value (b : Nat) (hb : 2 ≤ b) (ds : List Nat) :
    ((valDigits b (stripZ ds) : Nat) : Rat) / (b : Rat) ^ (stripZ ds).length = ((valDigits b ds : Nat) : Rat) / (b : Rat) ^ ds.length := by
  have hsplit := strip_split ds
  have hb0 : (b : Rat) ≠ 0 := by exact_mod_cast (by omega : b ≠ 0)
  conv_rhs => rw [hsplit]
  rw [valDigits_append, valDigits_zeros, List.length_append, List.length_replicate, Nat.add_zero, pow_add]
  push_cast
  field_simp

end Fend.Fmt
