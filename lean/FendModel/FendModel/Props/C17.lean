/-
C17 — dice expressions denote the exact probability distribution.
Spec side: finite probability mass functions (`prob`, `conv`, `total`) over exact rationals.
-/
import FendModel.Proofs.Dist

namespace Fend.C17
open Fend.Dist

/-- arithmetic on dice is the distribution of the result for independent rolls (push-forward of the
product measure), for every binary operation and all operand distributions -/
theorem bop_pushforward (f : Rat → Rat → Rat) (a b : Dist) (z : Rat) :
    prob (bop f a b) z = conv f a b z := prob_bop f a b z

/-- the listed outcomes are pairwise distinct (each possible outcome appears once) -/
theorem outcomes_distinct (f : Rat → Rat → Rat) (a b : Dist) : (outcomes (bop f a b)).Nodup := nodup_bop f a b

/-- probabilities sum to 1 whenever the operands' do -/
theorem total_one (f : Rat → Rat → Rat) (a b : Dist) (ha : total a = 1) (hb : total b = 1) :
    total (bop f a b) = 1 := by
  rw [total_bop, ha, hb]; grind

/-- `roll` always yields a listed outcome — for EVERY value of the random source and EVERY
threshold function (so independently of the floating-point step) -/
theorem roll_possible (thr : Rat → Nat) (d : Dist) (random : Nat) (r : Rat)
    (h : sample thr d random = some r) : r ∈ outcomes d := sample_possible thr d random r h

/-- and it always yields something for a non-empty distribution -/
theorem roll_total (thr : Rat → Nat) (d : Dist) (random : Nat) (hne : d ≠ []) :
    ∃ r, sample thr d random = some r := sample_total thr d random hne

/-- kernel-checked instances (tests): 2d2, its mean, and a non-commutative combination -/
theorem examples :
    newDie 2 2 = [(2, 1/4), (3, 1/2), (4, 1/4)] ∧ mean (newDie 2 6) = some 7 ∧
    total (newDie 3 4) = 1 ∧ sorted (bop (· - ·) (die1 2) (die1 3)) = [(-2, 1/6), (-1, 1/3), (0, 1/3), (1, 1/6)] := by
  decide +kernel

end Fend.C17
