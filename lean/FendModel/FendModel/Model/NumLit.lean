/-
Model of numeric-literal lexing (`lexer.rs`: `parse_number`, `parse_base_prefix`, `parse_integer`,
`parse_basic_number`, `parse_recurring_digits`) over characters.  The scanner collects the digit groups;
`litValue` is the arithmetic the Rust performs on them (repeated `res * base + digit`, numerator over
`base^k`, recurring digits over `(base^r - 1) * base^k`, exponent as a power of the base).
Dice syntax (`2d6`) and superscript exponents are reported as `other`: they are outside the literal forms
this model covers.
-/
import FendModel.Model.Format

namespace Fend.NumLit
open Fend.Fmt

inductive LErr where
  | expectedDigit | expectedChar | sepNotAllowed | sepBetweenDigits
  | baseTooLarge | baseTooSmall | invalidBasePrefix | other
deriving DecidableEq, Repr

abbrev L (α : Type) := Except LErr α

/-- `char::to_digit(base)` -/
def digitOf (c : Char) (base : Nat) : Option Nat :=
  let v := if '0' ≤ c ∧ c ≤ '9' then some (c.toNat - 48)
    else if 'a' ≤ c ∧ c ≤ 'z' then some (c.toNat - 87)
    else if 'A' ≤ c ∧ c ≤ 'Z' then some (c.toNat - 55) else none
  match v with
  | some d => if d < base then some d else none
  | none => none

def isSep (c : Char) (thousands : Char) : Bool := c == '_' || c == thousands

/-- the loop of `parse_integer` after the first digit -/
def intLoop (allowSep : Bool) (base : Nat) (thousands : Char) : Nat → List Char → List Nat → L (List Nat × List Char)
  | 0, _, _ => .error .other
  | fuel + 1, input, acc =>
    let (sep, input') := match input with
      | c :: rest => if isSep c thousands then (true, rest) else (false, input)
      | [] => (false, input)
    if sep && !allowSep then .error .sepNotAllowed else
    match input' with
    | c :: rest =>
      match digitOf c base with
      | some d => intLoop allowSep base thousands fuel rest (d :: acc)
      | none => if sep then .error .sepBetweenDigits else .ok (acc.reverse, input')
    | [] => if sep then .error .sepBetweenDigits else .ok (acc.reverse, input')

/-- `parse_integer`: at least one digit, separators only between digits -/
def parseInteger (allowSep : Bool) (base : Nat) (thousands : Char) (input : List Char) : L (List Nat × List Char) :=
  match input with
  | [] => .error .expectedChar
  | c :: rest =>
    match digitOf c base with
    | none => .error .expectedDigit
    | some d => intLoop allowSep base thousands (rest.length + 1) rest [d]

/-- `parse_base_prefix`: (base, prefix kind, rest) -/
def parseBasePrefix (thousands : Char) (input : List Char) : L (Nat × Pfx × List Char) :=
  match input with
  | '0' :: rest =>
    match rest with
    | [] => .error .expectedChar
    | 'x' :: r => .ok (16, .zero, r)
    | 'o' :: r => .ok (8, .zero, r)
    | 'b' :: r => .ok (2, .zero, r)
    | _ => .error .invalidBasePrefix
  | _ =>
    match parseInteger false 10 thousands input with
    | .error e => .error e
    | .ok (ds, rest) =>
      -- the digit callback: more than two digits, or a value above 36, is `BaseTooLarge`
      let rec go : List Nat → Nat → Option Nat
        | [], v => some v
        | d :: t, v => if v > 3 then none else let v' := 10 * v + d; if v' > 36 then none else go t v'
      match go ds 0 with
      | none => .error .baseTooLarge
      | some v =>
        if v < 2 then .error .baseTooSmall else
        match rest with
        | '#' :: r => .ok (v, .custom, r)
        | [] => .error .expectedChar
        | _ => .error .expectedChar

structure Parts where
  base : Nat
  int : List Nat
  frac : Option (List Nat)          -- digits after the point (possibly none written)
  recur : Option (List Nat)
  exp : Option (Bool × List Nat)     -- (negative, digits)
deriving Repr

def ratPow (x : Rat) (n : Nat) : Rat := x ^ n

/-- the value the Rust computes from the digit groups -/
def litValue (p : Parts) : Rat :=
  let b : Rat := (p.base : Nat)
  let i : Rat := (valDigits p.base p.int : Nat)
  let withFrac : Rat := match p.frac with
    | none => i
    | some f => i + ((valDigits p.base f : Nat) : Rat) / b ^ f.length
  let withRec : Rat := match p.recur with
    | none => withFrac
    | some r => withFrac + ((valDigits p.base r : Nat) : Rat) / ((b ^ r.length - 1) * b ^ (p.frac.getD []).length)
  match p.exp with
  | none => withRec
  | some (neg, ds) =>
    let e := valDigits p.base ds
    if neg then withRec / b ^ e else withRec * b ^ e

inductive Scan where
  | num (p : Parts) (rest : List Char)
  | dice                 -- `NdM`: not a plain number
deriving Repr

/-- a die without a count (`d6`): not a number -/
def diceNoCount (base : Nat) (input : List Char) : Bool :=
  match input with
  | 'd' :: c :: _ => base ≤ 10 && c.isDigit
  | _ => false

/-- the digits directly after the decimal point (none when the recurring part starts at once) -/
def plainDigits (base : Nat) (thousands : Char) (remaining : List Char) : L (List Nat × List Char) :=
  match remaining with
  | '(' :: _ => .ok ([], remaining)
  | _ => parseInteger true base thousands remaining

/-- recurring digits `(…)` after the plain fraction digits `fs` -/
def recurPart (base : Nat) (thousands : Char) (fs : List Nat) (input : List Char) :
    L (Option (List Nat) × Option (List Nat) × List Char) :=
  match input with
  | '(' :: afterParen =>
    match afterParen with
    | d :: _ =>
      match digitOf d base with
      | none => .ok (some fs, none, input)       -- `1.0(a)`: not recurring digits, left for the parser
      | some _ =>
        match parseInteger true base thousands afterParen with
        | .error e => .error e
        | .ok (rs, input') =>
          match input' with
          | ')' :: r => .ok (some fs, some rs, r)
          | _ => .error .expectedChar
    | [] => .ok (some fs, none, input)
  | _ => .ok (some fs, none, input)

/-- decimal point and digits -/
def fracPart (base : Nat) (sep thousands : Char) (input : List Char) : L (Option (List Nat) × Option (List Nat) × List Char) :=
  match input with
  | c :: remaining =>
    if c == sep then
      match plainDigits base thousands remaining with
      | .error e => .error e
      | .ok (fs, input) => recurPart base thousands fs input
    else .ok (none, none, input)
  | [] => .ok (none, none, input)

/-- `NdM` with a count -/
def diceAfter (base : Nat) (frac : Option (List Nat)) (input : List Char) : Bool :=
  frac.isNone && base ≤ 10 && (match input with
    | 'd' :: c :: _ => (digitOf c base).isSome
    | _ => false)

/-- optional sign of an exponent -/
def expSign (remaining : List Char) : Bool × List Char :=
  match remaining with
  | '-' :: r => (true, r)
  | '+' :: r => (false, r)
  | r => (false, r)

/-- exponent, bases up to 10 only -/
def expPart (base : Nat) (thousands : Char) (input : List Char) : L (Option (Bool × List Nat) × List Char) :=
  if base ≤ 10 then
    match input with
    | e :: remaining =>
      if e == 'e' || e == 'E' then
        match remaining with
        | c :: _ =>
          if c.isDigit || c == '+' || c == '-' then
            let (neg, r) := expSign remaining
            match parseInteger true base thousands r with
            | .error er => .error er
            | .ok (ds, rest) => .ok (some (neg, ds), rest)
          else .ok (none, input)
        | [] => .ok (none, input)
      else .ok (none, input)
    | [] => .ok (none, input)
  else .ok (none, input)

/-- superscript digits directly after the literal: a power, outside this model -/
def supFollows (base : Nat) (input : List Char) : Bool :=
  base ≤ 10 && (match input with
    | c :: _ => c ∈ ['⁰', '¹', '²', '³', '⁴', '⁵', '⁶', '⁷', '⁸', '⁹']
    | [] => false)

/-- `parse_basic_number` -/
def parseBasic (base : Nat) (sep thousands : Char) (input : List Char) : L Scan :=
  if diceNoCount base input then .ok .dice else
  -- integer component (absent when the literal starts with the decimal point)
  let startsWithPoint := match input with | c :: _ => c == sep | [] => false
  let intRes : L (List Nat × List Char) :=
    if startsWithPoint then .ok ([], input) else parseInteger true base thousands input
  match intRes with
  | .error e => .error e
  | .ok (ints, input) =>
  match fracPart base sep thousands input with
  | .error e => .error e
  | .ok (frac, recur, input) =>
  if diceAfter base frac input then .ok .dice else
  match expPart base thousands input with
  | .error e => .error e
  | .ok (exp, input) =>
    if supFollows base input then .error .other else
    .ok (.num ⟨base, ints, frac, recur, exp⟩ input)

/-- `parse_number`: optional base prefix, then the basic number -/
def parseNumber (sep thousands : Char) (input : List Char) : L (Scan × Pfx) :=
  match parseBasePrefix thousands input with
  | .ok (base, pfx, rest) =>
    match parseBasic base sep thousands rest with
    | .error e => .error e
    | .ok s => .ok (s, pfx)
  | .error _ =>
    match parseBasic 10 sep thousands input with
    | .error e => .error e
    | .ok s => .ok (s, .plain)

end Fend.NumLit
