/-
C07 — evaluation is promptly interruptible and interruption leaves state sane.
Theorems about the trace machine of `Model/Interrupt.lean`, for EVERY trace and EVERY firing point.  Which trace
a given input produces — in particular whether every long loop contains a poll — is a fact about the Rust code
that the correspondence run measures (poll counts, gaps, time from firing to return, context afterwards).
-/
import FendModel.Model.Interrupt

namespace Fend.C07
open Fend.Intr

/-- a predicate that never fires within the polls of a trace changes nothing: the run finishes, having made every
poll and every store -/
theorem no_fire_finishes (k : Nat) (t : List Ev) (p : Nat) (vs : Vars) (h : p + countPolls t ≤ k) :
    run k t p vs = (.finished, p + countPolls t, (stores t).reverse ++ vs, 0) := by
  induction t generalizing p vs with
  | nil => simp [run, countPolls, stores]
  | cons e r ih =>
    cases e with
    | work n => simpa [run, countPolls, stores] using ih p vs (by simpa [countPolls] using h)
    | poll =>
      simp only [countPolls] at h
      have hf : fires k p = false := by simp [fires]; omega
      simp only [run, hf, countPolls, stores]
      rw [ih (p + 1) vs (by omega)]
      simp; omega
    | store x v =>
      simp only [run, countPolls, stores]
      rw [ih p ((x, v) :: vs) (by simpa [countPolls] using h)]
      simp

/-- **prompt stop and sane state**: if the predicate starts saying "stop" at a poll the trace actually makes, the
outcome is `interrupted`, reached AT that poll — exactly `k + 1` polls were made and no work at all happens
afterwards — and the context holds exactly the stores made before that poll: every one a completely computed
value, none from a statement that had not finished -/
theorem fire_interrupts (k : Nat) (t : List Ev) (p : Nat) (vs : Vars) (hs : p ≤ k) (h : k < p + countPolls t) :
    run k t p vs = (.interrupted, k + 1, (stores (beforePoll (k - p) t)).reverse ++ vs, 0) := by
  induction t generalizing p vs with
  | nil => simp [countPolls] at h; omega
  | cons e r ih =>
    cases e with
    | work n =>
      have := ih p vs hs (by simpa [countPolls] using h)
      cases hk : k - p <;> simpa [run, beforePoll, stores, hk] using this
    | poll =>
      simp only [countPolls] at h
      simp only [run]
      by_cases hk : p = k
      · subst hk
        have hf : fires p p = true := by simp [fires]
        simp [hf, beforePoll, stores]
      · have hf : fires k p = false := by simp [fires]; omega
        simp only [hf]
        have := ih (p + 1) vs (by omega) (by omega)
        have hsub : k - p = (k - (p + 1)) + 1 := by omega
        rw [hsub]
        simpa [beforePoll, stores] using this
    | store x v =>
      have := ih p ((x, v) :: vs) hs (by simpa [countPolls] using h)
      cases hk : k - p <;> simpa [run, beforePoll, stores, hk] using this

/-- an interrupted run is a prefix of the uninterrupted one: what it stored, the uninterrupted run stores too, in
the same order (so "interrupted" and "finished with the uninterrupted result" are the only two outcomes) -/
theorem stores_prefix (k : Nat) (t : List Ev) : ∃ rest, stores t = stores (beforePoll k t) ++ rest := by
  induction t generalizing k with
  | nil => exact ⟨[], by simp [beforePoll, stores]⟩
  | cons e r ih =>
    cases e with
    | work n =>
      obtain ⟨rest, h⟩ := ih k
      refine ⟨rest, ?_⟩
      cases k <;> simpa [beforePoll, stores] using h
    | poll =>
      cases k with
      | zero => exact ⟨stores r, by simp [beforePoll, stores]⟩
      | succ k =>
        obtain ⟨rest, h⟩ := ih k
        exact ⟨rest, by simpa [beforePoll, stores] using h⟩
    | store x v =>
      obtain ⟨rest, h⟩ := ih k
      refine ⟨rest, ?_⟩
      cases k <;> simp [beforePoll, stores, h]

/-- the two cases are exhaustive: for every trace and every firing point the run either finishes exactly like the
uninterrupted run or stops at the firing poll -/
theorem interrupted_or_same (k : Nat) (t : List Ev) :
    run k t 0 [] = (.finished, countPolls t, (stores t).reverse, 0) ∨
    run k t 0 [] = (.interrupted, k + 1, (stores (beforePoll k t)).reverse, 0) := by
  by_cases h : countPolls t ≤ k
  · left; simpa using no_fire_finishes k t 0 [] (by simpa using h)
  · right; simpa using fire_interrupts k t 0 [] (Nat.zero_le _) (by omega)

-- non-vacuity: `x = 5; <work> ; y = 7` interrupted at the second poll keeps x and never sees y
example : run 1 [.poll, .work 10, .store "x" 5, .poll, .work 1000, .store "y" 7] 0 [] = (.interrupted, 2, [("x", 5)], 0) := by decide

end Fend.C07
