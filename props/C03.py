"""C03 — the approx. marker and digit truncation never misstate a value."""
import re, time
from fractions import Fraction as F
from math import gcd
from vlib import core, fmtcases as fc, gens

MODULE = "FendModel.Props.C03"
REL = "FendModel/Props/C03.lean"

def iroot(x, n):
    """floor of the n-th root (python ints, Newton)"""
    if x < 2:
        return x
    r = 1 << ((x.bit_length() + n - 1) // n)
    while True:
        y = ((n - 1) * r + x // r ** (n - 1)) // n
        if y >= r:
            return r
        r = y

def lead_pos(x, base):
    """e with base^e <= x < base^(e+1), x > 0 rational"""
    e = 0
    while F(base) ** (e + 1) <= x: e += 1
    while F(base) ** e > x: e -= 1
    return e

def trunc_verdict(text, flag_exact, style, n, base, sep, kind, neg, p, q):
    """independent statement of what an n-dp / n-sf rendering must be"""
    x = F(p, q)
    try:
        tv = fc.read_text(text, base, sep, kind)
    except Exception as e:
        return f"unreadable rendering: {e}"
    if neg and p != 0 and tv > 0:
        return "sign lost"
    tv = abs(tv)
    if tv > x:
        return f"the shown digits ({tv}) exceed the value: not a truncation"
    if style == "dp":
        unit = F(1, base ** n)
    else:
        unit = F(base) ** (lead_pos(x, base) - n + 1) if x > 0 else F(1)
    if not (x - tv < unit):
        return f"the shown digits are more than one unit of the last place ({unit}) below the value"
    if flag_exact != (tv == x):
        return "marked exact although digits were dropped" if flag_exact else "marked approximate although no digit was dropped"
    return None

def run_trunc(ctx, h, quick):
    t0 = time.time()
    r = ctx.rng
    cases = []
    qmax = 12 if quick else 40
    fracs = [(p, q) for q in range(1, qmax + 1) for p in range(0, 3 * q) if gcd(p, q) == 1]
    ns = list(range(0, 61))
    for (p, q) in fracs:
        for _ in range(3 if quick else 12):
            st = r.choice(["dp", "sf"])
            n = r.choice(ns) if r.random() < 0.5 else r.randint(0, 6)
            if st == "sf" and n == 0: n = 1
            cases.append((st, n, r.choice([10, 10, 2, 3, 7, 12, 16, 36, r.randint(2, 36)]), r.choice(["plain", "custom"]), r.random() < 0.3, r.random() < 0.3, p, q))
    for _ in range(400 if quick else 20000):
        q = r.choice([10 ** r.randint(1, 30), r.randint(1, 10 ** 6), 2 ** r.randint(1, 80), 3 ** r.randint(1, 30), 997, 10 ** 12 + 39])
        p = r.choice([r.randint(0, 10 ** 40), r.randint(0, 10 ** 6), r.randint(0, q), 10 ** r.randint(0, 30) + r.randint(0, 9), 10 ** r.randint(1, 25)])
        g = gcd(p, q); p //= g; q //= g
        st = r.choice(["dp", "sf"]); n = r.randint(0, 60)
        if st == "sf" and n == 0: n = 1
        cases.append((st, n, r.choice([10, 10, 10, 2, 16, r.randint(2, 36)]), r.choice(["plain", "custom"]), r.random() < 0.3, r.random() < 0.3, p, q))
    # integers spanning several 38-digit groups of the formatter, with runs of zeros between their non-zero digits
    for _ in range(300 if quick else 8000):
        b = r.choice([10, 10, 10, 2, 16, r.randint(2, 36)])
        hi, lo = r.randint(1, 99), r.choice([r.randint(1, 9), r.randint(1, 10 ** 6), 0])
        p = hi * b ** r.randint(30, 90) + lo * b ** r.randint(0, 20)
        if r.random() < 0.3: p = r.randint(10 ** 38, 10 ** 80)
        cases.append(("sf", r.randint(1, 60), b, r.choice(["plain", "custom"]), False, r.random() < 0.3, p, 1))
    hl = [f"{st}:{n} {b} {1 if kind == 'custom' else 0} {1 if comma else 0} {fc.raw(p, q, neg, r)}" for (st, n, b, kind, comma, neg, p, q) in cases]
    ml = [f"{st}:{n} {b} {kind} {'comma' if comma else 'dot'} {'-' if neg else '+'} {p} {q}" for (st, n, b, kind, comma, neg, p, q) in cases]
    impl = ctx.run_lines_robust(h, ["ratfmt"], hl)
    model = ctx.run_lines(core.DRIVER, ["ratfmt"], ml, timeout=2400)[1]
    model += ["<missing>"] * (len(ml) - len(model))
    dist = {"dp": 0, "sf": 0, "exact": 0, "approx": 0, "integer_value": 0}
    for c, line, a, m in zip(cases, hl, impl, model):
        st, n, b, kind, comma, neg, p, q = c
        dist[st] += 1
        if q == 1: dist["integer_value"] += 1
        if a != m:
            ctx.model_disagreements.append({"stream": "truncation", "input": line, "impl": a, "model": m})
        if not a.startswith("ok "):
            ctx.spec_failures.append({"stream": "truncation", "input": line, "impl": a, "model": m, "spec": "formatting a rational to n dp / n sf succeeds"}); continue
        text, fl = a[3:].rsplit(" ", 1)
        dist[fl] += 1
        v = trunc_verdict(text, fl == "exact", st, n, b, "," if comma else ".", kind, neg, p, q)
        if v:
            ctx.spec_failures.append({"stream": "truncation", "input": line, "impl": a, "model": m, "spec": v})
    ctx.record_stream("truncation", "BigRat::format through the hooks with DecimalPlaces(n) / SignificantFigures(n), n in 0..60: p/q with small q exhaustively, powers of 10 / 2 / 3 and huge numerators; bases 2..36, "
                      "prefix, separator, sign; text + exact flag vs the Lean formatter, and vs the independent statement: shown <= |x|, |x| - shown < one unit of the last place, exact iff equal",
                      len(cases), len(set(hl)), dist, hl[:3], time.time() - t0)

def run_api_trunc(ctx, h, quick):
    t0 = time.time()
    r = ctx.rng
    cases = []
    for _ in range(1200 if quick else 30000):
        q = r.choice([1, 2, 3, 4, 7, 8, 9, 16, 25, 125, 1000, 10 ** 6, 997, 64]) if r.random() < 0.7 else r.randint(1, 5000)
        p = r.randint(0, 4 * q) if r.random() < 0.6 else r.randint(0, 10 ** 20)
        g = gcd(p, q); p //= g; q //= g
        st = r.choice(["dp", "sf"]); n = r.randint(0, 30)
        if st == "sf" and n == 0: n = 1
        cases.append((st, n, r.random() < 0.3, p, q))
    lines = [f"({'-' if neg else ''}{p}/{q}) to {n} {st}" for (st, n, neg, p, q) in cases]
    outs = ctx.run_lines_robust(h, ["eval"], lines, env={"HARNESS_LINE_TIMEOUT_S": "20"})
    dist = {"marked": 0, "unmarked": 0}
    for c, line, o in zip(cases, lines, outs):
        st, n, neg, p, q = c
        if not o.startswith("ok "):
            ctx.spec_failures.append({"stream": "api-truncation", "input": line, "impl": o, "model": "", "spec": "`x to n dp|sf` of a rational succeeds"}); continue
        marked = o.startswith("ok approx. ")
        dist["marked" if marked else "unmarked"] += 1
        text = o[len("ok approx. "):] if marked else o[3:]
        v = trunc_verdict(text, not marked, st, n, 10, ".", "plain", neg, p, q)
        if v:
            ctx.spec_failures.append({"stream": "api-truncation", "input": line, "impl": o, "model": "", "spec": v.replace("marked exact", "shown without approx.").replace("marked approximate", "shown with approx.")})
    ctx.record_stream("api-truncation", "`(p/q) to n dp` / `to n sf` through fend_core: the `approx.` prefix must be present exactly when digits were dropped, the digits must be the truncation",
                      len(lines), len(set(lines)), dist, lines[:3], time.time() - t0)

def run_roots(ctx, h, quick):
    t0 = time.time()
    r = ctx.rng
    # integer roots on raw values
    nat = []
    for k in range(1, 13):
        for x in list(range(0, 70 if quick else 600)) + [r.randint(0, 10 ** 30) for _ in range(10 if quick else 200)]:
            nat.append((x, k))
        for _ in range(30 if quick else 500):
            a = r.choice([r.randint(0, 10 ** 12), r.randint(0, 2 ** 40), 2 ** 32, 2 ** 64 - 1, 10 ** 10])
            nat.append((a ** k + r.choice([0, 0, 1, -1, 2]), k))
    nat = [(x, k) for (x, k) in nat if x >= 0]
    hl = [f"root_n {gens.show_uint(gens.from_val(x, r))} {gens.show_uint(gens.from_val(k))}" for (x, k) in nat]
    ml = [f"nat {x} {k}" for (x, k) in nat]
    impl = ctx.run_lines_robust(h, ["biguint"], hl)
    model = ctx.run_lines(core.DRIVER, ["roots"], ml, timeout=900)[1]
    model += ["<missing>"] * (len(ml) - len(model))
    dist = {"nat_exact": 0, "nat_inexact": 0, "rat_exact": 0, "rat_inexact": 0, "api_rational": 0, "api_irrational": 0}
    for (x, k), line, a, m in zip(nat, hl, impl, model):
        ws = a.split(" ")
        if ws[0] != "ok":
            ctx.spec_failures.append({"stream": "roots", "input": line, "impl": a, "model": m, "spec": "an integer root of a non-negative integer succeeds"}); continue
        rv = gens.val_of(gens.parse_uint(ws[1])); ex = ws[2] == "S1" if len(ws) > 2 and ws[2].startswith("S") else ws[-1] == "exact"
        want = iroot(x, k)
        wex = want ** k == x
        dist["nat_exact" if wex else "nat_inexact"] += 1
        if (rv, ex) != (want, wex):
            ctx.spec_failures.append({"stream": "roots", "input": line, "impl": a, "model": m, "spec": f"floor root is {want}, exact = {wex}"})
        if m != f"ok {want} {'exact' if wex else 'approx'}":
            if f"ok {rv} {'exact' if ex else 'approx'}" != m:
                ctx.model_disagreements.append({"stream": "roots", "input": line, "impl": a, "model": m})
    # rational powers on raw values
    rat = []
    for _ in range(600 if quick else 20000):
        k = r.randint(2, 12)
        a, b = r.randint(0, 40), r.randint(1, 40)
        g = gcd(a, b) or 1; a //= g; b //= g
        mode = r.random()
        if mode < 0.45:
            num, den = a ** k, b ** k                      # true result rational
        elif mode < 0.6:
            num, den = a ** k, b ** k + 1
        else:
            num, den = r.randint(0, 10 ** 6), r.randint(1, 10 ** 6)
        g = gcd(num, den) or 1; num //= g; den //= g
        p = r.choice([1, 1, 1, 2, 3, 5])
        if gcd(p, k) != 1: p = 1
        rat.append((num, den, r.random() < 0.25, p, k))
    def unreduced(n_, d_):
        c = r.choice([1, 1, 2, 3, 10, 2 ** 64]) if n_ else 1
        return fc.raw(n_ * c, d_ * c, False, r)
    hl = [f"pow {unreduced(n_, d_)} {fc.raw(p, k, neg)}" for (n_, d_, neg, p, k) in rat]
    ml = [f"pow {n_} {d_} {'-' if neg else '+'} {p} {k}" for (n_, d_, neg, p, k) in rat]
    impl = ctx.run_lines_robust(h, ["bigrat"], hl)
    model = ctx.run_lines(core.DRIVER, ["roots"], ml, timeout=900)[1]
    model += ["<missing>"] * (len(ml) - len(model))
    for (n_, d_, neg, p, k), line, a, m in zip(rat, hl, impl, model):
        if n_ == 0 and neg:
            continue                # 1/0
        ws = a.split(" ")
        if ws[0] != "ok":
            ctx.spec_failures.append({"stream": "roots", "input": line, "impl": a, "model": m, "spec": "a rational power of a non-negative rational succeeds"}); continue
        sgn, nn, dd = gens.parse_rat(ws[1])
        val = F(gens.val_of(nn), gens.val_of(dd)) * (-1 if sgn else 1)
        ex = ws[2] == "exact"
        rn, rd = iroot(n_ ** p, k), iroot(d_ ** p, k)
        rational = rn ** k == n_ ** p and rd ** k == d_ ** p
        dist["rat_exact" if rational else "rat_inexact"] += 1
        if rational:
            want = F(rn, rd) if not neg else F(rd, rn)
            if not ex or val != want:
                ctx.spec_failures.append({"stream": "roots", "input": line, "impl": a, "model": m, "spec": f"the true result is the rational {want}: it must be returned exactly and flagged exact"})
        else:
            if ex:
                ctx.spec_failures.append({"stream": "roots", "input": line, "impl": a, "model": m, "spec": "the true result is irrational: it must be flagged approximate"})
            else:
                # |val^k - x| / x small: relative error of val below 1e-12 means val^k within k*1e-12 relative
                x = F(n_, d_) ** p
                if neg: x = 1 / x
                rel = abs(val ** k - x) / x
                if rel > F(k, 10 ** 12):
                    ctx.spec_failures.append({"stream": "roots", "input": line, "impl": a, "model": m, "spec": f"approximate root not within 1e-12 relative error (value^{k} is off by {float(rel):.3e} relative)"})
        mw = m.split(" ")
        if not (len(mw) == 3 and mw[0] == "ok" and F(mw[1]) == val and mw[2] == ws[2]):
            ctx.model_disagreements.append({"stream": "roots", "input": line, "impl": a, "model": m})
    # API: unmarked and exact when the true result is rational
    api = []
    for (n_, d_, neg, p, k) in rat[: (400 if quick else 8000)]:
        if n_ == 0: continue
        c = r.choice([1, 2, 3, 10])
        api.append((n_, d_, neg, p, k, f"(({n_ * c}/{d_ * c})^({'-' if neg else ''}{p}/{k})) to exact"))
        if p == 1 and k == 2 and not neg:
            api.append((n_, d_, neg, p, k, f"sqrt({n_}/{d_}) to exact"))
        if p == 1 and k == 3 and not neg:
            api.append((n_, d_, neg, p, k, f"cbrt({n_}/{d_}) to exact"))
    outs = ctx.run_lines_robust(h, ["eval"], [x[5] for x in api], env={"HARNESS_LINE_TIMEOUT_S": "20"})
    for (n_, d_, neg, p, k, line), o in zip(api, outs):
        rn, rd = iroot(n_ ** p, k), iroot(d_ ** p, k)
        rational = rn ** k == n_ ** p and rd ** k == d_ ** p
        dist["api_rational" if rational else "api_irrational"] += 1
        if rational:
            want = F(rn, rd) if not neg else F(rd, rn)
            try:
                got = fc.read_text(o[3:], 10, ".") if o.startswith("ok ") and not o.startswith("ok approx") else None
            except Exception:
                got = None
            if got != want:
                ctx.spec_failures.append({"stream": "api-roots", "input": line, "impl": o, "model": str(want), "spec": "a root / rational power whose true result is rational is exact and unmarked"})
        elif not o.startswith("ok approx. "):
            ctx.spec_failures.append({"stream": "api-roots", "input": line, "impl": o, "model": "approx.", "spec": "an irrational root must be marked approx."})
    ctx.record_stream("roots", "BigUint::root_n on raw values (k <= 12: all small x, perfect powers +-1, huge values) and BigRat::pow with rational exponents p/k on raw values (perfect powers of fractions, near "
                      "misses, random), plus `(a/b)^(p/k) to exact`, sqrt, cbrt through fend_core; value and exact flag vs the Lean model (rootNat / ratPow) and vs python integer roots",
                      len(nat) + len(rat) + len(api), len(set(hl)) + len(nat), dist, hl[:3], time.time() - t0)

APPROX_LEAVES = ["sqrt 2", "2^(1/3)", "ln 2", "sin 1", "e", "exp 1", "cos 2", "sqrt(1/3)", "log10 3", "pi^2", "sqrt pi"]

def gen_mix(r, depth):
    return _gen_mix(r, depth)

def _gen_mix(r, depth):
    """(text, kind, value): kind 'rat' (exact rational v), 'pi' (v * pi), 'irr' (irrational or computed from an approximation)"""
    if depth == 0 or r.random() < 0.2:
        c = r.random()
        if c < 0.5:
            v = F(r.randint(-20, 40), r.choice([1, 1, 2, 3, 4, 5, 8, 10, 7]))
            return (f"({v.numerator}/{v.denominator})", "rat", v)
        if c < 0.65:
            k = r.choice([2, 3]); a = F(r.randint(1, 9), r.randint(1, 9))
            return (f"(({a.numerator ** k}/{a.denominator ** k})^(1/{k}))", "rat", a)
        if c < 0.8:
            v = F(r.randint(1, 6), r.choice([1, 2, 3]))
            return (f"(({v.numerator}/{v.denominator}) pi)", "pi", v)
        return (f"({r.choice(APPROX_LEAVES)})", "irr", None)
    a, b = gen_mix(r, depth - 1), gen_mix(r, depth - 1)
    op = r.choice("+-*/")
    ta, ka, va = a; tb, kb, vb = b
    text = f"({ta} {op} {tb})"
    if ka == "free" or kb == "free":
        return (text, "free", None)
    if ka == "irr" or kb == "irr":
        if op == "/" and kb != "irr" and vb == 0: return a
        return (text, "irr", None)
    if op in "+-":
        if ka == kb:
            v = va + vb if op == "+" else va - vb
            if ka == "pi" and v == 0:
                return (text, "free", None)      # `pi - pi`: fend computes it approximately and says so (over-marking is allowed); not constrained
            return (text, ka, v)
        # rational +- pi multiple: irrational unless the pi multiple is zero
        if (ka == "pi" and va == 0) or (kb == "pi" and vb == 0):
            return (text, "irr", None)       # conservative: fend may or may not mark; we do not constrain
        return (text, "irr", None)
    if op == "*":
        if ka == "rat" and kb == "rat": return (text, "rat", va * vb)
        if ka == "pi" and kb == "pi": return (text, "irr", None)
        if va * vb == 0: return (text, "rat", F(0))          # a zero multiple of pi is the exact rational 0
        return (text, "pi", va * vb)
    # division
    if vb == 0: return a
    if ka == "rat" and kb == "rat": return (text, "rat", va / vb)
    if ka == "pi" and kb == "pi": return (text, "rat", va / vb)
    if ka == "pi": return (text, "pi", va / vb)
    if va == 0: return (text, "rat", F(0))
    return (text, "irr", None)

def run_mix(ctx, h, quick):
    t0 = time.time()
    r = ctx.rng
    trees = [gen_mix(r, r.choice([1, 2, 2, 3, 4])) for _ in range(500 if quick else 12000)]
    trees += [("(1 + (sqrt 2 - sqrt 2))", "irr", None), ("(1 lb + (sqrt 2 - sqrt 2) lb)", "irr", None), ("((sqrt 2) * 0 + 1)", "irr", None), ("((sqrt 2)^2)", "irr", None), ("((2^(1/2))^2 - 2)", "irr", None),
              ("(1 + (sin(pi)))", "rat", F(1)), ("(5 - (ln 2 - ln 2))", "irr", None), ("((1/3) + (exp 1 - e))", "irr", None)]
    plain = ctx.run_lines_robust(h, ["eval"], [t[0] for t in trees], env={"HARNESS_LINE_TIMEOUT_S": "20"})
    exact = ctx.run_lines_robust(h, ["eval"], [t[0] + " to exact" for t in trees], env={"HARNESS_LINE_TIMEOUT_S": "20"})
    dist = {"rat": 0, "pi": 0, "irr": 0, "errors": 0, "rat_marked_plain": 0}
    for (text, kind, v), o, oe in zip(trees, plain, exact):
        dist[kind] = dist.get(kind, 0) + 1
        if kind == "free":
            continue
        if not o.startswith("ok "):
            dist["errors"] += 1; continue
        marked = o.startswith("ok approx. ")
        body = o[len("ok approx. "):] if marked else o[3:]
        if kind == "irr":
            if not marked:
                ctx.spec_failures.append({"stream": "mixing", "input": text, "impl": o, "model": "approx.", "spec": "a value computed from an approximate value must stay marked approx."})
            continue
        if kind == "pi":
            if not marked and v != 0 and "π" not in body and "pi" not in body:
                ctx.spec_failures.append({"stream": "mixing", "input": text, "impl": o, "model": f"{v} pi", "spec": "a non-zero multiple of pi shown as digits must be marked approx."})
            continue
        # rational truth
        try:
            tv = fc.read_text(body, 10, ".")
        except Exception:
            continue
        if not marked and tv != v:
            ctx.spec_failures.append({"stream": "mixing", "input": text, "impl": o, "model": str(v), "spec": "shown without approx. but the text does not denote the computed value exactly"})
        if marked:
            dist["rat_marked_plain"] += 1
            if abs(tv - v) >= F(1, 10 ** 10) or abs(tv) > abs(v):
                ctx.spec_failures.append({"stream": "mixing", "input": text, "impl": o, "model": str(v), "spec": "marked value is not the 10-place truncation of the computed value"})
        # and with `to exact` an exact rational must come out exactly and unmarked
        if oe.startswith("ok approx") or not oe.startswith("ok "):
            ctx.spec_failures.append({"stream": "mixing", "input": text + " to exact", "impl": oe, "model": str(v), "spec": "exact arithmetic (incl. roots that come out) on exact rationals is exact and unmarked"})
        else:
            try:
                te = fc.read_text(oe[3:], 10, ".")
            except Exception:
                te = None
            if te != v:
                ctx.spec_failures.append({"stream": "mixing", "input": text + " to exact", "impl": oe, "model": str(v), "spec": "`to exact` denotes the computed value"})
    ctx.record_stream("mixing", "random arithmetic trees (depth <= 4) over exact rationals, roots that come out, rational multiples of pi and approximate leaves (sqrt 2, ln 2, sin 1, e, ...): plain result and "
                      "`to exact`; python tracks whether the true value is rational (and which), a pi multiple, or irrational / computed from an approximation",
                      2 * len(trees), len(set(t[0] for t in trees)), dist, [t[0] for t in trees[:3]], time.time() - t0)


def run_unit_roots(ctx, h, quick):
    """roots of quantities WITH units: exactness has to survive unit bookkeeping and conversion"""
    from vlib import unitroots
    t0 = time.time()
    r = ctx.rng
    cases = [unitroots.gen(r) for _ in range(250 if quick else 5000)]
    cases += [("(1 kJ) / (1 kg)", "m/s", "m^2/s^2"), ("(1 km) * (1 m)", "m", None), ("(9 kN) / ((1 g) / (1 m))", "m/s", "m^2/s^2"), ("1 hectare", "m", None),
              ("(1 km) * (1 km)", "m", None), ("(4 J) / (1 kg)", "m/s", "m^2/s^2")]
    lines = []
    for x, t, t2 in cases:
        t2 = t2 or f"{t}^2"
        lines += [f"@noapprox (({x}) to {t2}) to fraction", f"sqrt({x}) to {t}", f"@noapprox (sqrt({x}) to {t}) to fraction"]
    outs = ctx.run_lines_robust(h, ["eval"], lines, env={"HARNESS_LINE_TIMEOUT_S": "20"})
    dist = {"rational_root": 0, "irrational_root": 0, "skipped": 0}
    for i, (x, t, t2) in enumerate(cases):
        w_o, plain, frac = outs[3 * i], outs[3 * i + 1], outs[3 * i + 2]
        mw = re.match(r"ok (-?[0-9]+(?:/[0-9]+)?) ", w_o + " ")
        if not mw or not plain.startswith("ok "):
            dist["skipped"] += 1; continue
        w = F(mw.group(1))
        root = unitroots.is_square(w)
        marked = plain.startswith("ok approx. ")
        line = f"sqrt({x}) to {t}"
        if root is not None:
            # the root of the QUANTITY is rational although the root of its numeric part in the units as written may not be
            # (sqrt(10 kWh/N cm) = 600 m): fend may compute it approximately and say so; what it may not do is show an unmarked
            # number that is not exactly the root
            dist["rational_root"] += 1
            dist["rational_root_marked"] = dist.get("rational_root_marked", 0) + (1 if marked else 0)
            mf = re.match(r"ok (-?[0-9]+(?:/[0-9]+)?) ", frac + " ")
            if not marked and (not mf or F(mf.group(1)) != root):
                ctx.spec_failures.append({"stream": "unit-roots", "input": line, "impl": plain[:120] + " | " + frac[:80], "model": f"{root} {t}", "spec": f"({x}) is exactly {w} {t}^2, whose root is {root}: shown without approx. but not exactly that value"})
        else:
            dist["irrational_root"] += 1
            if not marked:
                ctx.spec_failures.append({"stream": "unit-roots", "input": line, "impl": plain[:160], "model": "approx. ...", "spec": f"({x}) is exactly {w} {t}^2, which is not the square of a rational: the root must be marked approx."})
    ctx.record_stream("unit-roots", "sqrt of products / quotients of quantities in scaled units (km, kJ, kN, acre, ...) converted to a base-unit target: the exact value of the radicand in the squared "
                      "target unit (an exact conversion) decides whether the root is rational; unmarked iff it is, and then equal to it", len(lines), len(set(lines)), dist, lines[:3], time.time() - t0)

def run(ctx):
    quick = ctx.tier == "quick"
    h = ctx.harness()
    if h is None:
        ctx.proof_failures.append({"file": "harness", "decl": "harness build", "line": 0, "msg": getattr(ctx, "harness_error", "")})
        return ctx.finish()
    ctx.lean_build([MODULE])
    ctx.audit(MODULE, REL)
    if not quick:
        ctx.leanchecker(MODULE)
    run_trunc(ctx, h, quick)
    run_api_trunc(ctx, h, quick)
    run_roots(ctx, h, quick)
    run_mix(ctx, h, quick)
    run_unit_roots(ctx, h, quick)
    return ctx.finish(rule="quick: q<=12 x 3 random (style, n, base); thorough: q<=40 x 12; roots k<=12; distinct = distinct request lines")

def replay(ctx, rep):
    print(rep["first"]); return 0
