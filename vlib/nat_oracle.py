"""Independent specification of the BigUint operations: Python int arithmetic.
Used as the search oracle (never in place of a theorem)."""
import math
from .gens import parse_uint, val_of, B

C01_OPS = ["add", "sub", "mul", "divmod", "div", "rem", "cmp", "gcd", "pow"]
C10_OPS = ["factorial", "fibonacci", "and", "or", "xor", "lshift_n", "rshift_n", "try_as_usize", "lshift", "rshift", "root_n"]

def expected(case):
    """-> ('ok', [ints]) | ('err', {allowed classes}) | None (no verdict)"""
    ws = case.split(" ")
    op = ws[0]
    if op == "fibonacci":
        n = int(ws[1]); a, b = 0, 1
        for _ in range(n): a, b = b, a + b
        return ("ok", [a])
    args = [val_of(parse_uint(w)) for w in ws[1:]]
    if op == "add": return ("ok", [args[0] + args[1]])
    if op == "sub":
        return ("ok", [args[0] - args[1]]) if args[0] >= args[1] else None
    if op == "mul": return ("ok", [args[0] * args[1]])
    if op == "divmod":
        if args[1] == 0: return ("err", {"divideByZero"})
        return ("ok", list(divmod(args[0], args[1])))
    if op in ("div", "rem"):
        if args[1] == 0: return ("err", {"divideByZero"})
        return ("ok", [divmod(args[0], args[1])[0 if op == "div" else 1]])
    if op == "cmp": return ("ok", [(args[0] > args[1]) - (args[0] < args[1])])
    if op == "gcd": return ("ok", [math.gcd(args[0], args[1])])
    if op == "pow":
        if args[0] == 0 and args[1] == 0: return ("err", {"zeroPowZero"})
        if args[1] >= B: return ("err", {"exponentTooLarge"})
        return ("ok", [args[0] ** args[1]])
    if op == "factorial": return ("ok", [math.factorial(args[0])])
    if op == "and": return ("ok", [args[0] & args[1]])
    if op == "or": return ("ok", [args[0] | args[1]])
    if op == "xor": return ("ok", [args[0] ^ args[1]])
    if op in ("lshift_n", "rshift_n") and B > args[1] > 10**6:
        return None
    if op == "lshift_n":
        if args[1] >= B: return ("err", {"outOfRange"})
        return ("ok", [args[0] << args[1]])
    if op == "rshift_n":
        if args[1] >= B: return ("err", {"outOfRange"})
        return ("ok", [args[0] >> args[1]])
    if op == "try_as_usize":
        return ("ok", [args[0]]) if args[0] < B else ("err", {"outOfRange"})
    if op == "lshift": return ("ok", [args[0] * 2])
    if op == "rshift": return ("ok", [args[0] // 2])
    if op == "is_zero": return ("ok", [int(args[0] == 0)])
    if op == "is_even": return ("ok", [int(args[0] % 2 == 0)])
    if op == "root_n":
        x, n = args
        if n == 0 or n >= B: return None
        if x in (0, 1) or n == 1: return ("ok", [x, 1])
        r = iroot(x, n)
        return ("ok", [r, int(r ** n == x)])
    return None

def iroot(x, n):
    lo, hi = 0, 1 << (x.bit_length() // n + 1)
    while lo < hi:
        mid = (lo + hi + 1) // 2
        if mid ** n <= x: lo = mid
        else: hi = mid - 1
    return lo

def parse_result(line):
    """'ok S5 L1,2' -> ('ok',[5, ...]); 'ok -1' for cmp; 'err cls' -> ('err','cls')"""
    ws = line.split(" ")
    if ws[0] == "err":
        return ("err", ws[1] if len(ws) > 1 else "?")
    if ws[0] != "ok":
        return ("bad", line)
    vals = []
    for w in ws[1:]:
        if w and w[0] in "SL":
            vals.append(val_of(parse_uint(w)))
        else:
            vals.append(int(w))
    return ("ok", vals)

def oracle(case, impl, model):
    exp = expected(case)
    if exp is None:
        return None
    got = parse_result(impl)
    if exp[0] == "ok":
        if got[0] == "ok" and got[1] == exp[1]:
            return None
        return f"expected value(s) {exp[1]}, implementation answered {impl!r}"
    if got[0] == "err" and got[1] in exp[1]:
        return None
    return f"expected error {sorted(exp[1])}, implementation answered {impl!r}"

def canon(a, b, case):
    """Tie B compares observable value and error class, not representation."""
    return (parse_result(a), parse_result(b))
