/-
C18 — strings, JSON escaping and inline substitution preserve text faithfully.
-/
import FendModel.Proofs.Json
import FendModel.Proofs.Inline
import FendModel.Proofs.StrLit

namespace Fend.C18
open Fend Fend.Json Fend.Inline Fend.StrLit

/-- every `Char` is a Unicode scalar value -/
theorem char_isScalar (c : Char) : isScalar c.toNat := by
  have := c.valid
  unfold isScalar
  simp only [UInt32.isValidChar, Nat.isValidChar] at this
  have h : c.toNat = c.val.toNat := rfl
  omega

/-- The escaper's output between quotes is valid JSON and decodes to the original text,
for EVERY Unicode string (list of scalar values, any length). -/
theorem json_roundtrip (s : List Char) :
    jsonDecodeString (34 :: (escapeString (s.map Char.toNat) ++ [34])) = some (s.map Char.toNat) := by
  unfold jsonDecodeString
  apply decode_escapeString
  · intro c hc
    obtain ⟨ch, _, rfl⟩ := List.mem_map.mp hc
    exact char_isScalar ch
  · have := escapeString_length (s.map Char.toNat)
    simp only [List.length_append, List.length_cons, List.length_nil]
    omega

/-- same statement directly on code points -/
theorem json_roundtrip_codepoints (s : List Nat) (hs : ∀ c ∈ s, isScalar c) :
    jsonDecodeString (34 :: (escapeString s ++ [34])) = some s := by
  unfold jsonDecodeString
  exact decode_escapeString s hs _ (by have := escapeString_length s; simp; omega)

/-- the escaper emits printable ASCII only -/
theorem json_ascii (s : List Nat) (hs : ∀ c ∈ s, isScalar c) :
    ∀ x ∈ escapeString s, 0x20 ≤ x ∧ x ≤ 0x7e := by
  intro x hx
  unfold escapeString at hx
  obtain ⟨c, hc, hxc⟩ := List.mem_flatMap.mp hx
  have hsc := hs c hc
  unfold escapeChar at hxc
  split_ifs at hxc with h1 h2 h3 h4 h5 h6
  all_goals (try (simp at hxc; omega))
  -- \uXXXX units
  obtain ⟨cu, hcu, hxu⟩ := List.mem_flatMap.mp hxc
  have hlt : cu < 0x10000 := by
    unfold utf16 at hcu
    unfold isScalar at hsc
    split_ifs at hcu <;> simp at hcu <;> omega
  simp only [u4, hexDigit, List.mem_cons, List.not_mem_nil, or_false] at hxu
  rcases hxu with h | h | h | h | h | h <;> subst h <;> first | omega | (split_ifs <;> omega)

/-- Inline substitution: putting `[[src]]` back around every evaluated part gives back the
input, for every input and every evaluator — so text outside `[[…]]` (and inside backticks)
is returned unchanged and in order. -/
theorem inline_reassembles {σ} (eval : σ → List Char → σ × Res) (ctx : σ) (input : List Char) :
    reassemble (inlineSubst eval ctx input) = input := by
  unfold inlineSubst
  rw [finish_reassemble, foldl_consumed]
  simp [consumed, init, reassemble]

/-- each `[[expr]]` is replaced by exactly what evaluating `expr` gives -/
theorem inline_each_expr {σ} (eval : σ → List Char → σ × Res) (ctx : σ) (input : List Char) :
    PartsOk eval (inlineSubst eval ctx input) := by
  unfold inlineSubst finish
  apply partsOk_reverse
  simp only [PartsOk]
  exact foldl_partsOk eval _ _ (by simp [init, PartsOk])

/-- A string literal written with the canonical escaping (only the terminator and the
backslash escaped) denotes exactly its text, for every text and both quote styles, and the
lexer resumes right after the closing quote. -/
theorem strlit_roundtrip (term : Nat) (ht : term = 34 ∨ term = 39) (s rest : List Nat) :
    parseStringLiteral term (escapeCanon term s ++ term :: rest) = .ok (s, rest) := by
  unfold parseStringLiteral
  rw [go_canon term ht s rest [] _ (by
    have := escapeCanon_length term s
    simp only [List.length_append, List.length_cons]; omega)]
  simp

def cp (s : String) : List Nat := s.toList.map Char.toNat

/-- the documented escape sequences, each checked on the model: the literal body (followed by
the closing quote) denotes the given text -/
def escapeTable : List (List Nat × List Nat) :=
  [ (cp "\\\\", [92]), (cp "\\\"", [34]), (cp "\\'", [39]),
    (cp "\\a", [7]), (cp "\\b", [8]), (cp "\\e", [27]), (cp "\\f", [12]),
    (cp "\\n", [10]), (cp "\\r", [13]), (cp "\\t", [9]), (cp "\\v", [11]),
    (cp "\\x41", [65]), (cp "\\x7f", [127]), (cp "\\x00", [0]),
    (cp "\\u{7e}", [126]), (cp "\\u{1F600}", [0x1F600]), (cp "\\u{10ffff}", [0x10ffff]),
    (cp "\\^@", [0]), (cp "\\^H", [8]), (cp "\\^_", [31]), (cp "\\^?", [127]),
    (cp "a\\z  \n\t b", [97, 98]),
    (cp "\\z\\t c", [9, 32, 99]) ]

theorem escape_table :
    ∀ p ∈ escapeTable, parseStringLiteral 34 (p.1 ++ [34]) = .ok (p.2, []) := by
  decide

/-- surrogates and out-of-range code points are rejected, not mis-decoded -/
theorem unicode_escape_rejects :
    parseStringLiteral 34 (cp "\\u{d800}\"") = .error .invalidUnicode ∧
    parseStringLiteral 34 (cp "\\u{110000}\"") = .error .invalidUnicode ∧
    parseStringLiteral 34 (cp "\\u{}\"") = .error .invalidUnicode ∧
    parseStringLiteral 34 (cp "\\x80\"") = .error .backslashX := by
  decide

-- non-vacuity / sanity: a concrete string with a control char, a quote, a BMP and an astral char
example : escapeString [9, 34, 0x41, 0x7f, 0x1d54a] =
    "\\t\\\"A\\u007f\\ud835\\udd4a".toList.map Char.toNat := by decide

example : inlineSubst (fun (n : Nat) s => (n + 1, Res.output s)) 0 "a`[[`[[1+1]]b".toList
    = [.unprocessed "a`[[`".toList, .evaluated "1+1".toList (.output "1+1".toList),
       .unprocessed "b".toList] := by decide

end Fend.C18
