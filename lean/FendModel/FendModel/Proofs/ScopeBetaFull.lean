/-
β in full: `(\x. b) r` and `b[x := (r)]` compute related results for an ARBITRARY body `b` (nested lambdas, applications,
assignments, sequences, closures stored and called later) and an ARBITRARY argument expression `r` (which may fail, have
effects, contain lambdas and free names), under the usual hygiene condition: no binder inside `b` re-binds `x` or a name
occurring in `r`.  Proved as a three-mode simulation between scope pairs:
  same  — equal shape, bindings pairwise related;
  shift — the left scope additionally carries `x ↦ r` (captured with the scope below it) under binders foreign to `r`;
  weak  — the right scope additionally carries bindings of names that do not occur in `r`.
-/
import FendModel.Proofs.ScopeLet

namespace Fend.Scope

/-- every identifier occurring in an expression (variables, binders, assignment targets) -/
def namesOf : Expr → List String
  | .num _ => []
  | .unitLit => []
  | .var y => [y]
  | .parens e => namesOf e
  | .neg e => namesOf e
  | .bop _ a b => namesOf a ++ namesOf b
  | .lam y b => y :: namesOf b
  | .app f a => namesOf f ++ namesOf a
  | .assign y e => y :: namesOf e
  | .seq a b => namesOf a ++ namesOf b

inductive Mode | same | shift | weak
deriving DecidableEq

section
variable (x : String) (r : Expr)

/-- hygiene of a body: no binder re-binds `x` or a name occurring in `r` -/
def Hyg : Expr → Bool
  | .num _ => true
  | .unitLit => true
  | .var _ => true
  | .parens e => Hyg e
  | .neg e => Hyg e
  | .bop _ a b => Hyg a && Hyg b
  | .lam y b => y != x && !(namesOf r).contains y && Hyg b
  | .app f a => Hyg f && Hyg a
  | .assign _ e => Hyg e
  | .seq a b => Hyg a && Hyg b

/-- all names of `e` occur in `r` -/
def NamesIn (e : Expr) : Bool := (namesOf e).all fun y => (namesOf r).contains y

def sub (m : Mode) (e : Expr) : Expr := if m = .shift then subst x r e else e

def Pre (m : Mode) (e : Expr) : Prop :=
  match m with
  | .same => True
  | .shift => Hyg x r e = true
  | .weak => NamesIn r e = true

inductive SRel : Mode → Scope → Scope → Prop
  | nil_same : SRel .same .nil .nil
  | nil_weak : SRel .weak .nil .nil
  | cons_same (m : Mode) (p : String) (a : Expr) (C C' S T : Scope) :
      (m = .shift → p ≠ x ∧ (namesOf r).contains p = false) → SRel .same C C' → SRel m S T →
      SRel m (.cons p a C S) (.cons p a C' T)
  | cons_shift (m : Mode) (p : String) (a : Expr) (C C' S T : Scope) :
      (m = .shift → p ≠ x ∧ (namesOf r).contains p = false) → Hyg x r a = true → SRel .shift C C' → SRel m S T →
      SRel m (.cons p a C S) (.cons p (subst x r a) C' T)
  | cons_weak (m : Mode) (p : String) (a : Expr) (C C' S T : Scope) :
      (m = .shift → p ≠ x ∧ (namesOf r).contains p = false) → NamesIn r a = true → SRel .weak C C' → SRel m S T →
      SRel m (.cons p a C S) (.cons p a C' T)
  | base (S T : Scope) : SRel .same S T → SRel .shift (.cons x r S S) T
  | skip (q : String) (a : Expr) (C S T : Scope) : (namesOf r).contains q = false → SRel .weak S T → SRel .weak S (.cons q a C T)

/-- how the two sides of one binding are related: in some mode `m'` -/
def ArgAlt (a : Expr) (C : Scope) (a' : Expr) (C' : Scope) : Prop :=
  ∃ m', a' = sub x r m' a ∧ Pre x r m' a ∧ SRel x r m' C C'

def VR : Value → Value → Prop
  | .num q, w => w = .num q
  | .unit, w => w = .unit
  | .fn p body C, w => ∃ m' C', w = .fn p (sub x r m' body) C' ∧ Pre x r m' body ∧
      (m' = .shift → p ≠ x ∧ (namesOf r).contains p = false) ∧ SRel x r m' C C'

def VsR : Vars → Vars → Prop
  | [], w => w = []
  | (k, v) :: t, w => ∃ v' t', w = (k, v') :: t' ∧ VR x r v v' ∧ VsR t t'

def ResR (a b : Except Err Value × Vars) : Prop :=
  VsR x r a.2 b.2 ∧
  match a.1, b.1 with
  | .error e, .error e' => e = e'
  | .ok v, .ok v' => VR x r v v'
  | _, _ => False

theorem same_to_weak {m : Mode} {S T : Scope} (h : SRel x r m S T) (hm : m = .same) : SRel x r .weak S T := by
  induction h with
  | nil_same => exact .nil_weak
  | nil_weak => exact .nil_weak
  | cons_same m p a C C' S T _ hC _ _ ihS => exact .cons_same .weak p a C C' S T (fun h => by cases h) hC (ihS hm)
  | cons_shift m p a C C' S T _ hh hC _ _ ihS => exact .cons_shift .weak p a C C' S T (fun h => by cases h) hh hC (ihS hm)
  | cons_weak m p a C C' S T _ hn hC _ _ ihS => exact .cons_weak .weak p a C C' S T (fun h => by cases h) hn hC (ihS hm)
  | base => cases hm
  | skip => cases hm

theorem lookup_rel (vs vs' : Vars) (h : VsR x r vs vs') (y : String) :
    (lookup vs y = none ∧ lookup vs' y = none) ∨ (∃ v v', lookup vs y = some v ∧ lookup vs' y = some v' ∧ VR x r v v') := by
  induction vs generalizing vs' with
  | nil => left; simp [VsR] at h; subst h; simp [lookup]
  | cons pr t ih =>
    obtain ⟨k, v⟩ := pr
    obtain ⟨v', t', hw, hv, ht⟩ := h
    subst hw
    by_cases hk : k = y
    · right; exact ⟨v, v', by simp [lookup, hk], by simp [lookup, hk], hv⟩
    · simpa [lookup, hk] using ih t' ht

theorem setVar_rel (vs vs' : Vars) (h : VsR x r vs vs') (y : String) (v v' : Value) (hv : VR x r v v') :
    VsR x r (setVar vs y v) (setVar vs' y v') := by
  induction vs generalizing vs' with
  | nil => simp [VsR] at h; subst h; exact ⟨v', [], rfl, hv, rfl⟩
  | cons pr t ih =>
    obtain ⟨k, w⟩ := pr
    obtain ⟨w', t', hw, hwv, ht⟩ := h
    subst hw
    by_cases hk : k = y
    · simp only [setVar, hk, if_true]; exact ⟨v', t', rfl, hv, ht⟩
    · simp only [setVar, hk, if_false]; exact ⟨w', _, rfl, hwv, ih t' ht⟩

/-- what a name resolves to in related scopes -/
theorem find_rel {m : Mode} {S T : Scope} (h : SRel x r m S T) (y : String)
    (hy : m = .shift → y ≠ x) (hw : m = .weak → (namesOf r).contains y = true) :
    (S.find y = none ∧ T.find y = none) ∨
    (∃ a C a' C', S.find y = some (a, C) ∧ T.find y = some (a', C') ∧ ArgAlt x r a C a' C') := by
  induction h with
  | nil_same => left; simp [Scope.find]
  | nil_weak => left; simp [Scope.find]
  | cons_same m p a C C' S T _ hC _ _ ihS =>
    by_cases hp : p = y
    · right; exact ⟨a, C, a, C', by simp [Scope.find, hp], by simp [Scope.find, hp], ⟨.same, rfl, trivial, hC⟩⟩
    · simpa [Scope.find, hp] using ihS hy hw
  | cons_shift m p a C C' S T _ hh hC _ _ ihS =>
    by_cases hp : p = y
    · right; exact ⟨a, C, subst x r a, C', by simp [Scope.find, hp], by simp [Scope.find, hp], ⟨.shift, rfl, hh, hC⟩⟩
    · simpa [Scope.find, hp] using ihS hy hw
  | cons_weak m p a C C' S T _ hn hC _ _ ihS =>
    by_cases hp : p = y
    · right; exact ⟨a, C, a, C', by simp [Scope.find, hp], by simp [Scope.find, hp], ⟨.weak, rfl, hn, hC⟩⟩
    · simpa [Scope.find, hp] using ihS hy hw
  | base S T _ ih =>
    have hne : x ≠ y := fun h => hy rfl h.symm
    simpa [Scope.find, hne] using ih (fun h => by cases h) (fun h => by cases h)
  | skip q a C S T hq _ ih =>
    have hne : q ≠ y := by
      intro h; rw [h] at hq; rw [hw rfl] at hq; cases hq
    simpa [Scope.find, hne] using ih hy hw

/-- in shift mode, `x` resolves on the left to `r` captured with a scope that the right scope extends by foreign names -/
theorem shift_find_x {m : Mode} {S T : Scope} (h : SRel x r m S T) (hm : m = .shift) :
    ∃ S0, S.find x = some (r, S0) ∧ SRel x r .weak S0 T := by
  induction h with
  | nil_same => cases hm
  | nil_weak => cases hm
  | cons_same m p a C C' S T hg _ _ _ ihS =>
    obtain ⟨hpx, hpn⟩ := hg hm
    obtain ⟨S0, hf, hw⟩ := ihS hm
    exact ⟨S0, by simpa [Scope.find, hpx] using hf, .skip p a C' S0 T hpn hw⟩
  | cons_shift m p a C C' S T hg _ _ _ _ ihS =>
    obtain ⟨hpx, hpn⟩ := hg hm
    obtain ⟨S0, hf, hw⟩ := ihS hm
    exact ⟨S0, by simpa [Scope.find, hpx] using hf, .skip p _ C' S0 T hpn hw⟩
  | cons_weak m p a C C' S T hg _ _ _ _ ihS =>
    obtain ⟨hpx, hpn⟩ := hg hm
    obtain ⟨S0, hf, hw⟩ := ihS hm
    exact ⟨S0, by simpa [Scope.find, hpx] using hf, .skip p a C' S0 T hpn hw⟩
  | base S T hs _ => exact ⟨S, by simp [Scope.find], same_to_weak x r hs rfl⟩
  | skip => cases hm

theorem ResR_cases {a b : Except Err Value × Vars} (h : ResR x r a b) :
    (∃ e vs vs', a = (.error e, vs) ∧ b = (.error e, vs') ∧ VsR x r vs vs') ∨
    (∃ v v' vs vs', a = (.ok v, vs) ∧ b = (.ok v', vs') ∧ VR x r v v' ∧ VsR x r vs vs') := by
  obtain ⟨a1, a2⟩ := a
  obtain ⟨b1, b2⟩ := b
  obtain ⟨hvs, hres⟩ := h
  cases a1 with
  | error e => cases b1 with
    | error e' => left; simp only at hres; subst hres; exact ⟨e, a2, b2, rfl, rfl, hvs⟩
    | ok v' => exact hres.elim
  | ok v => cases b1 with
    | error e' => exact hres.elim
    | ok v' => right; exact ⟨v, v', a2, b2, rfl, rfl, hres, hvs⟩

theorem VR_cases {v v' : Value} (h : VR x r v v') :
    (∃ q, v = .num q ∧ v' = .num q) ∨ (v = .unit ∧ v' = .unit) ∨
    (∃ p body C m' C', v = .fn p body C ∧ v' = .fn p (sub x r m' body) C' ∧ Pre x r m' body ∧
      (m' = .shift → p ≠ x ∧ (namesOf r).contains p = false) ∧ SRel x r m' C C') := by
  cases v with
  | num q => left; exact ⟨q, rfl, h⟩
  | unit => right; left; exact ⟨rfl, h⟩
  | fn p body C => right; right; obtain ⟨m', C', hw, hp, hg, hr⟩ := h; exact ⟨p, body, C, m', C', rfl, hw, hp, hg, hr⟩

theorem resR_err (e : Err) {vs vs' : Vars} (h : VsR x r vs vs') : ResR x r (.error e, vs) (.error e, vs') := ⟨h, rfl⟩
theorem resR_ok {v v' : Value} {vs vs' : Vars} (hv : VR x r v v') (h : VsR x r vs vs') : ResR x r (.ok v, vs) (.ok v', vs') := ⟨h, hv⟩

/-- entering a closure: the new binding (argument `a`, lazily bound with its call-site scopes `S`/`T` in mode `m`) on top of
the closure's scopes `C`/`C'` in mode `m'` -/
theorem push (m m' : Mode) (p : String) (a : Expr) (S T C C' : Scope)
    (hg : m' = .shift → p ≠ x ∧ (namesOf r).contains p = false) (hp : Pre x r m a) (hST : SRel x r m S T) (hC : SRel x r m' C C') :
    SRel x r m' (.cons p a S C) (.cons p (sub x r m a) T C') := by
  cases m with
  | same => exact .cons_same m' p a S T C C' hg hST hC
  | shift => exact .cons_shift m' p a S T C C' hg hp hST hC
  | weak => exact .cons_weak m' p a S T C C' hg hp hST hC

theorem namesIn_app (a b : List String) (N : List String) :
    ((a ++ b).all fun y => N.contains y) = true ↔ (a.all fun y => N.contains y) = true ∧ (b.all fun y => N.contains y) = true := by
  simp [List.all_append]

theorem pre_un (m : Mode) (e e1 : Expr) (h : Pre x r m e) (hh : Hyg x r e = true → Hyg x r e1 = true)
    (hn : NamesIn r e = true → NamesIn r e1 = true) : Pre x r m e1 := by
  cases m with
  | same => trivial
  | shift => exact hh h
  | weak => exact hn h

/-- **the simulation** -/
theorem sim (bi : List (String × Rat)) :
    ∀ (fuel : Nat) (e : Expr) (m : Mode) (S T : Scope) (vs vs' : Vars),
      SRel x r m S T → Pre x r m e → VsR x r vs vs' →
      ResR x r (eval bi fuel e S vs) (eval bi fuel (sub x r m e) T vs') := by
  intro fuel
  induction fuel with
  | zero => intro e m S T vs vs' _ _ hvs; simp only [eval]; exact resR_err x r .fuel hvs
  | succ f ih =>
    intro e m S T vs vs' hrel hpre hvs
    cases e with
    | num q =>
      have hs : sub x r m (.num q) = .num q := by cases m <;> rfl
      rw [hs]; simp only [eval]; exact resR_ok x r rfl hvs
    | unitLit =>
      have hs : sub x r m .unitLit = .unitLit := by cases m <;> rfl
      rw [hs]; simp only [eval]; exact resR_ok x r rfl hvs
    | parens e1 =>
      have hs : sub x r m (.parens e1) = .parens (sub x r m e1) := by cases m <;> rfl
      rw [hs]; simp only [eval]
      exact ih e1 m S T vs vs' hrel (pre_un x r m _ e1 hpre (by simp [Hyg]) (by simp [NamesIn, namesOf])) hvs
    | var y =>
      by_cases hyx : m = .shift ∧ y = x
      · obtain ⟨hm, hy⟩ := hyx
        subst hm; subst hy
        have hs : sub y r .shift (.var y) = .parens r := by simp [sub, subst]
        rw [hs]
        obtain ⟨S0, hf, hw⟩ := shift_find_x y r hrel rfl
        simp only [eval, hf]
        have := ih r .weak S0 T vs vs' hw (by show NamesIn r r = true; simp [NamesIn]) hvs
        simpa [sub] using this
      · have hy : m = .shift → y ≠ x := fun hm hy => hyx ⟨hm, hy⟩
        have hs : sub x r m (.var y) = .var y := by
          cases m with
          | same => rfl
          | weak => rfl
          | shift => simp [sub, subst, hy rfl]
        have hw : m = .weak → (namesOf r).contains y = true := by
          intro hm; subst hm
          have : NamesIn r (.var y) = true := hpre
          simpa [NamesIn, namesOf] using this
        rw [hs]
        rcases find_rel x r hrel y hy hw with ⟨h1, h2⟩ | ⟨a, C, a', C', h1, h2, m', ha', hp', hC⟩
        · simp only [eval, h1, h2]
          rcases lookup_rel x r vs vs' hvs y with ⟨l1, l2⟩ | ⟨v, v', l1, l2, hv⟩
          · simp only [l1, l2]
            cases bi.find? (fun p => p.1 = y) with
            | none => exact resR_err x r _ hvs
            | some pq => obtain ⟨_, q⟩ := pq; exact resR_ok x r rfl hvs
          · simp only [l1, l2]; exact resR_ok x r hv hvs
        · simp only [eval, h1, h2]
          rw [ha']
          exact ih a m' C C' vs vs' hC hp' hvs
    | neg e1 =>
      have hs : sub x r m (.neg e1) = .neg (sub x r m e1) := by cases m <;> rfl
      rw [hs]; simp only [eval]
      rcases ResR_cases x r (ih e1 m S T vs vs' hrel (pre_un x r m _ e1 hpre (by simp [Hyg]) (by simp [NamesIn, namesOf])) hvs)
        with ⟨er, w, w', h1, h2, hw⟩ | ⟨v, v', w, w', h1, h2, hv, hw⟩
      · rw [h1, h2]; exact resR_err x r er hw
      · rw [h1, h2]
        rcases VR_cases x r hv with ⟨q, e1', e2'⟩ | ⟨e1', e2'⟩ | ⟨p, body, C, m', C', e1', e2', _, _, _⟩
        · subst e1'; subst e2'; exact resR_ok x r rfl hw
        · subst e1'; subst e2'; exact resR_err x r .badOperands hw
        · subst e1'; subst e2'; exact resR_err x r .badOperands hw
    | bop op a b =>
      have hs : sub x r m (.bop op a b) = .bop op (sub x r m a) (sub x r m b) := by cases m <;> rfl
      have hpa : Pre x r m a := pre_un x r m _ a hpre (by simp [Hyg]; intro h _; exact h) (by simp [NamesIn, namesOf, List.all_append]; intro h _; exact h)
      have hpb : Pre x r m b := pre_un x r m _ b hpre (by simp [Hyg]) (by simp [NamesIn, namesOf, List.all_append])
      rw [hs]; simp only [eval]
      rcases ResR_cases x r (ih a m S T vs vs' hrel hpa hvs) with ⟨er, w, w', h1, h2, hw⟩ | ⟨va, va', w, w', h1, h2, hva, hw⟩
      · rw [h1, h2]; exact resR_err x r er hw
      · rw [h1, h2]; simp only
        rcases ResR_cases x r (ih b m S T w w' hrel hpb hw) with ⟨er, u, u', g1, g2, hu⟩ | ⟨vb, vb', u, u', g1, g2, hvb, hu⟩
        · rw [g1, g2]; exact resR_err x r er hu
        · rw [g1, g2]; simp only
          rcases VR_cases x r hva with ⟨qa, ea, ea'⟩ | ⟨ea, ea'⟩ | ⟨p, body, C, m', C', ea, ea', _, _, _⟩ <;>
          rcases VR_cases x r hvb with ⟨qb, eb, eb'⟩ | ⟨eb, eb'⟩ | ⟨p2, body2, C2, m2, C2', eb, eb', _, _, _⟩ <;>
          subst ea <;> subst ea' <;> subst eb <;> subst eb' <;> simp only
          · cases arith op qa qb with
            | ok q => exact resR_ok x r rfl hu
            | error er => exact resR_err x r er hu
          all_goals exact resR_err x r .badOperands hu
    | lam y b =>
      cases m with
      | same =>
        simp only [sub, eval]
        exact resR_ok x r ⟨.same, T, rfl, trivial, (fun h => Mode.noConfusion h), hrel⟩ hvs
      | weak =>
        have hb : NamesIn r b = true := by
          have : NamesIn r (.lam y b) = true := hpre
          simp [NamesIn, namesOf] at this ⊢; exact this.2
        simp only [sub, eval]
        exact resR_ok x r ⟨.weak, T, rfl, hb, (fun h => Mode.noConfusion h), hrel⟩ hvs
      | shift =>
        have hn : Hyg x r (.lam y b) = true := hpre
        simp only [Hyg, Bool.and_eq_true, bne_iff_ne, ne_eq, Bool.not_eq_true'] at hn
        have hs : sub x r .shift (.lam y b) = .lam y (sub x r .shift b) := by simp [sub, subst, hn.1.1]
        rw [hs]; simp only [eval]
        exact resR_ok x r ⟨.shift, T, rfl, hn.2, fun _ => ⟨hn.1.1, hn.1.2⟩, hrel⟩ hvs
    | app fn a =>
      have hs : sub x r m (.app fn a) = .app (sub x r m fn) (sub x r m a) := by cases m <;> rfl
      have hpf : Pre x r m fn := pre_un x r m _ fn hpre (by simp [Hyg]; intro h _; exact h) (by simp [NamesIn, namesOf, List.all_append]; intro h _; exact h)
      have hpa : Pre x r m a := pre_un x r m _ a hpre (by simp [Hyg]) (by simp [NamesIn, namesOf, List.all_append])
      rw [hs]; simp only [eval]
      rcases ResR_cases x r (ih fn m S T vs vs' hrel hpf hvs) with ⟨er, w, w', h1, h2, hw⟩ | ⟨vf, vf', w, w', h1, h2, hvf, hw⟩
      · rw [h1, h2]; exact resR_err x r er hw
      · rw [h1, h2]
        rcases VR_cases x r hvf with ⟨q, e1, e2⟩ | ⟨e1, e2⟩ | ⟨p, body, C, m', C', e1, e2, hbp, hbg, hC⟩
        · subst e1; subst e2; simp only
          rcases ResR_cases x r (ih a m S T w w' hrel hpa hw) with ⟨er, u, u', g1, g2, hu⟩ | ⟨va, va', u, u', g1, g2, hva, hu⟩
          · rw [g1, g2]; exact resR_err x r er hu
          · rw [g1, g2]
            rcases VR_cases x r hva with ⟨qa, ea, ea'⟩ | ⟨ea, ea'⟩ | ⟨p2, body2, C2, m2, C2', ea, ea', _, _, _⟩ <;>
              subst ea <;> subst ea' <;> simp only
            · exact resR_ok x r rfl hu
            · exact resR_err x r .badOperands hu
            · exact resR_err x r .badOperands hu
        · subst e1; subst e2; exact resR_err x r .notAFunction hw
        · subst e1; subst e2; simp only
          exact ih body m' _ _ w w' (push x r m m' p a S T C C' hbg hpa hrel hC) hbp hw
    | assign y rhs =>
      have hs : sub x r m (.assign y rhs) = .assign y (sub x r m rhs) := by cases m <;> rfl
      rw [hs]; simp only [eval]
      rcases ResR_cases x r (ih rhs m S T vs vs' hrel (pre_un x r m _ rhs hpre (by simp [Hyg]) (by simp [NamesIn, namesOf])) hvs)
        with ⟨er, w, w', h1, h2, hw⟩ | ⟨v, v', w, w', h1, h2, hv, hw⟩
      · rw [h1, h2]; exact resR_err x r er hw
      · rw [h1, h2]; exact resR_ok x r hv (setVar_rel x r w w' hw y v v' hv)
    | seq a b =>
      have hs : sub x r m (.seq a b) = .seq (sub x r m a) (sub x r m b) := by cases m <;> rfl
      have hpa : Pre x r m a := pre_un x r m _ a hpre (by simp [Hyg]; intro h _; exact h) (by simp [NamesIn, namesOf, List.all_append]; intro h _; exact h)
      have hpb : Pre x r m b := pre_un x r m _ b hpre (by simp [Hyg]) (by simp [NamesIn, namesOf, List.all_append])
      rw [hs]; simp only [eval]
      rcases ResR_cases x r (ih a m S T vs vs' hrel hpa hvs) with ⟨er, w, w', h1, h2, hw⟩ | ⟨va, va', w, w', h1, h2, hva, hw⟩
      · rw [h1, h2]; exact resR_err x r er hw
      · rw [h1, h2]; exact ih b m S T w w' hrel hpb hw

theorem SRel_refl (S : Scope) : SRel x r .same S S := by
  induction S with
  | nil => exact .nil_same
  | cons p a C S ihC ihS => exact .cons_same .same p a C C S S (fun h => Mode.noConfusion h) ihC ihS

theorem VR_refl (v : Value) : VR x r v v := by
  cases v with
  | num q => rfl
  | unit => rfl
  | fn p body C => exact ⟨.same, C, rfl, trivial, fun h => Mode.noConfusion h, SRel_refl x r C⟩

theorem VsR_refl (vs : Vars) : VsR x r vs vs := by
  induction vs with
  | nil => rfl
  | cons pr t ih => obtain ⟨k, v⟩ := pr; exact ⟨v, t, rfl, VR_refl x r v, ih⟩

/-- **β, in full**: arbitrary body (hygienic w.r.t. `x` and the names of `r`), arbitrary argument, every scope, every context,
same fuel on both sides -/
theorem beta_full (bi : List (String × Rat)) (b : Expr) (hb : Hyg x r b = true) (fuel : Nat) (sc : Scope) (vs : Vars) :
    ResR x r (eval bi (fuel + 2) (.app (.lam x b) r) sc vs) (eval bi (fuel + 1) (subst x r b) sc vs) := by
  have hl : eval bi (fuel + 2) (.app (.lam x b) r) sc vs = eval bi (fuel + 1) b (.cons x r sc sc) vs := by
    simp [eval]
  rw [hl]
  have := sim x r bi (fuel + 1) b .shift _ _ vs vs (.base sc sc (SRel_refl x r sc)) hb (VsR_refl x r vs)
  simpa [sub] using this

/-- what an observer sees: the same error, or the same number, or unit on both sides, or a function on both sides -/
theorem beta_full_observable (bi : List (String × Rat)) (b : Expr) (hb : Hyg x r b = true) (fuel : Nat) (sc : Scope) (vs : Vars) :
    (∀ er, (eval bi (fuel + 2) (.app (.lam x b) r) sc vs).1 = .error er ↔ (eval bi (fuel + 1) (subst x r b) sc vs).1 = .error er) ∧
    (∀ q, (eval bi (fuel + 2) (.app (.lam x b) r) sc vs).1 = .ok (.num q) ↔ (eval bi (fuel + 1) (subst x r b) sc vs).1 = .ok (.num q)) ∧
    ((eval bi (fuel + 2) (.app (.lam x b) r) sc vs).1 = .ok .unit ↔ (eval bi (fuel + 1) (subst x r b) sc vs).1 = .ok .unit) ∧
    ((∃ p body C, (eval bi (fuel + 2) (.app (.lam x b) r) sc vs).1 = .ok (.fn p body C)) ↔
      (∃ p body C, (eval bi (fuel + 1) (subst x r b) sc vs).1 = .ok (.fn p body C))) := by
  have h := beta_full x r bi b hb fuel sc vs
  rcases ResR_cases x r h with ⟨er, w, w', h1, h2, _⟩ | ⟨v, v', w, w', h1, h2, hv, _⟩
  · rw [h1, h2]; simp
  · rw [h1, h2]
    rcases VR_cases x r hv with ⟨q, e1, e2⟩ | ⟨e1, e2⟩ | ⟨p, body, C, m', C', e1, e2, _, _, _⟩ <;> subst e1 <;> subst e2 <;> simp

end
end Fend.Scope
