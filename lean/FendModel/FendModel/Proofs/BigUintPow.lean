/-
`BigUint::pow_internal` (square and multiply) computes the power, for every base (any limb vector) and exponent.
-/
import FendModel.Proofs.BigUintMul

namespace Fend
namespace BigUint

theorem powGo_val (e : Nat) (result base : BigUint) :
    val (powInternal.go e result base) = val result * val base ^ e := by
  induction e using Nat.strongRecOn generalizing result base with
  | _ e ih =>
    unfold powInternal.go
    split
    · rename_i h
      have hlt : e / 2 < e := Nat.div_lt_self h (by omega)
      rw [ih (e / 2) hlt]
      have hsplit : e = 2 * (e / 2) + e % 2 := (Nat.div_add_mod e 2).symm
      have hm : e % 2 = 0 ∨ e % 2 = 1 := by omega
      rcases hm with hm | hm
      · simp only [hm, Nat.zero_ne_one, if_false, mul_val]
        conv_rhs => rw [hsplit, hm, Nat.add_zero, Nat.pow_mul]
        rw [Nat.pow_two]
      · simp only [hm, if_true, mul_val]
        conv_rhs => rw [hsplit, hm, Nat.pow_succ, Nat.pow_mul]
        rw [Nat.pow_two, Nat.mul_assoc, Nat.mul_comm (val base) ((val base * val base) ^ (e / 2))]
    · rename_i h
      have : e = 0 := by omega
      subst this; simp

/-- `pow_internal` is exponentiation on values -/
theorem powInternal_val (a : BigUint) (e : Nat) : val (powInternal a e) = val a ^ e := by
  unfold powInternal
  rw [powGo_val]
  simp [val, small]

end BigUint
end Fend

namespace Fend
namespace BigUint

theorem valL_all_zero (v : List Nat) (h : v.all (· == 0) = true) : valL v = 0 := by
  induction v with
  | nil => rfl
  | cons x xs ih =>
    simp only [List.all_cons, Bool.and_eq_true, beq_iff_eq] at h
    simp [valL, h.1, ih h.2]

/-- a value whose higher limbs are all zero is its lowest limb -/
theorem get0_of_fits (b : BigUint) (h : b.fitsU64 = true) : b.get 0 = val b := by
  cases b with
  | small n => simp [get, val]
  | large v =>
    cases v with
    | nil => simp [get, val, valL]
    | cons x xs =>
      simp only [fitsU64, List.drop_succ_cons, List.drop_zero] at h
      simp [get, val, valL, valL_all_zero xs h]

/-- **`BigUint::pow`**: whenever it returns a value, that value is the power -/
theorem pow_ok (a b r : BigUint) (h : pow a b = .ok r) : val r = val a ^ val b := by
  unfold pow at h
  split at h
  · cases h
  · split at h
    · rename_i hb
      injection h with h; subst h
      have : val b = 0 := (isZero_iff b).mp hb
      rw [this, Nat.pow_zero]; rfl
    · split at h
      · cases h
      · rename_i hf
        injection h with h; subst h
        have hf' : b.fitsU64 = true := by simpa using hf
        rw [powInternal_val, get0_of_fits b hf']

/-- it refuses exactly `0^0` … -/
theorem pow_zero_zero (a b : BigUint) : pow a b = .error .zeroPowZero ↔ val a = 0 ∧ val b = 0 := by
  unfold pow
  constructor
  · intro h
    split at h
    · rename_i hz
      simp only [Bool.and_eq_true] at hz
      exact ⟨(isZero_iff a).mp hz.1, (isZero_iff b).mp hz.2⟩
    · split at h
      · cases h
      · split at h <;> cases h
  · intro ⟨ha, hb⟩
    have : (a.isZero && b.isZero) = true := by simp [(isZero_iff a).mpr ha, (isZero_iff b).mpr hb]
    simp [this]

/-- … and non-zero exponents of 2^64 or more -/
theorem pow_too_large (a b : BigUint) : pow a b = .error .exponentTooLarge ↔ val b ≠ 0 ∧ b.fitsU64 = false := by
  unfold pow
  constructor
  · intro h
    split at h
    · cases h
    · split at h
      · cases h
      · rename_i hb
        split at h
        · rename_i hf
          refine ⟨fun h0 => hb ((isZero_iff b).mpr h0), ?_⟩
          simpa using hf
        · cases h
  · intro ⟨hb, hf⟩
    have hbz : b.isZero = false := by
      cases h : b.isZero
      · rfl
      · exact absurd ((isZero_iff b).mp h) hb
    simp [hbz, hf]

end BigUint
end Fend
