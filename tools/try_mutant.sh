#!/bin/sh
# usage: tools/try_mutant.sh <patch.diff> <property-id>...   — applies the patch to /repo, runs the quick checks, reverts.
patch="$1"; shift
git -C /repo apply "$patch" || { echo "patch does not apply"; exit 2; }
for p in "$@"; do
  /verif/check "$p" --tier quick; echo "rc=$?"
done
git -C /repo checkout -- .
git -C /repo status --short | head -3
