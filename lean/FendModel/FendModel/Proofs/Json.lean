import FendModel.Model.Json
import Mathlib.Tactic.IntervalCases

namespace Fend.Json

theorem hexVal_hexDigit (d : Nat) (h : d < 16) : hexVal (hexDigit d) = some d := by
  interval_cases d <;> decide

theorem hex4_u4 (cu : Nat) (h : cu < 0x10000) (rest : List Nat) :
    hex4 ((u4 cu).drop 2 ++ rest) = some (cu, rest) := by
  simp only [u4, List.drop_succ_cons, List.drop_zero, List.cons_append, List.nil_append, hex4]
  rw [hexVal_hexDigit _ (by omega), hexVal_hexDigit _ (by omega), hexVal_hexDigit _ (by omega),
    hexVal_hexDigit _ (by omega)]
  simp only [Option.some.injEq, Prod.mk.injEq, and_true]
  omega

theorem u4_shape (cu : Nat) : u4 cu = 92 :: 117 :: (u4 cu).drop 2 := by simp [u4]

set_option maxRecDepth 100000 in
/-- one escaped character decodes back to itself and consumes one unit of fuel -/
theorem decode_escapeChar (c : Nat) (hc : isScalar c) (rest : List Nat) (fuel : Nat) :
    decodeAux (fuel + 1) (escapeChar c ++ rest) = (decodeAux fuel rest).map (fun t => c :: t) := by
  unfold escapeChar
  by_cases h1 : c = 92
  · subst h1; simp [decodeAux, simpleEscape]
  by_cases h2 : c = 34
  · subst h2; simp [decodeAux, simpleEscape]
  by_cases h3 : c = 10
  · subst h3; simp [decodeAux, simpleEscape]
  by_cases h4 : c = 13
  · subst h4; simp [decodeAux, simpleEscape]
  by_cases h5 : c = 9
  · subst h5; simp [decodeAux, simpleEscape]
  simp only [h1, h2, h3, h4, h5, if_false]
  by_cases h6 : 0x20 ≤ c ∧ c ≤ 0x7e
  · simp only [h6, and_self, if_true, List.cons_append, List.nil_append, decodeAux, h1, h2, if_false]
    have : ¬ c < 0x20 := by omega
    simp [this]
  simp only [h6, if_false]
  unfold utf16
  by_cases hb : c < 0x10000
  · -- one code unit; `c` is not a surrogate because it is a scalar value
    simp only [hb, if_true, List.flatMap_cons, List.flatMap_nil, List.append_nil]
    rw [u4_shape, List.cons_append, List.cons_append]
    simp only [decodeAux]
    rw [hex4_u4 c hb]
    have hs1 : ¬ (0xD800 ≤ c ∧ c < 0xDC00) := by unfold isScalar at hc; omega
    have hs2 : ¬ (0xDC00 ≤ c ∧ c < 0xE000) := by unfold isScalar at hc; omega
    simp [hs1, hs2]
  · -- surrogate pair
    have hlt : c < 0x110000 := by unfold isScalar at hc; omega
    simp only [hb, if_false, List.flatMap_cons, List.flatMap_nil, List.append_nil]
    rw [u4_shape (0xD800 + (c - 0x10000) / 0x400), List.append_assoc, List.cons_append, List.cons_append]
    simp only [decodeAux]
    rw [hex4_u4 _ (by omega)]
    have hh : 0xD800 ≤ 0xD800 + (c - 0x10000) / 0x400 ∧ 0xD800 + (c - 0x10000) / 0x400 < 0xDC00 := by omega
    simp only [hh, and_self, if_true]
    rw [u4_shape (0xDC00 + (c - 0x10000) % 0x400), List.cons_append, List.cons_append]
    simp only []
    rw [hex4_u4 _ (by omega)]
    have hl : 0xDC00 ≤ 0xDC00 + (c - 0x10000) % 0x400 ∧ 0xDC00 + (c - 0x10000) % 0x400 < 0xE000 := by omega
    simp only [hl, and_self, if_true]
    have : 0x10000 + (0xD800 + (c - 0x10000) / 0x400 - 0xD800) * 0x400
        + (0xDC00 + (c - 0x10000) % 0x400 - 0xDC00) = c := by omega
    rw [this]
    simp

theorem escapeChar_length_pos (c : Nat) : 1 ≤ (escapeChar c).length := by
  unfold escapeChar utf16 u4
  split_ifs <;> simp

theorem decode_escapeString (s : List Nat) (hs : ∀ c ∈ s, isScalar c) (fuel : Nat)
    (hf : s.length + 1 ≤ fuel) :
    decodeAux fuel (escapeString s ++ [34]) = some s := by
  induction s generalizing fuel with
  | nil =>
    obtain ⟨f, rfl⟩ : ∃ f, fuel = f + 1 := ⟨fuel - 1, by simp at hf; omega⟩
    simp [escapeString, decodeAux]
  | cons c s ih =>
    obtain ⟨f, rfl⟩ : ∃ f, fuel = f + 1 := ⟨fuel - 1, by simp at hf; omega⟩
    have : escapeString (c :: s) ++ [34] = escapeChar c ++ (escapeString s ++ [34]) := by
      simp [escapeString]
    rw [this, decode_escapeChar c (hs c (by simp)), ih (fun x hx => hs x (by simp [hx])) f (by simp at hf; omega)]
    rfl

theorem escapeString_length (s : List Nat) : s.length ≤ (escapeString s).length := by
  induction s with
  | nil => simp [escapeString]
  | cons c s ih =>
    have := escapeChar_length_pos c
    simp only [escapeString, List.flatMap_cons, List.length_append, List.length_cons] at *
    omega

end Fend.Json
