/-
C01 — exact arithmetic on rationals and complex rationals is exact.
Property theorems only; helper lemmas live in FendModel/Proofs/.
`val : BigUint → Nat` is the abstraction map: every theorem holds for EVERY limb vector
(canonical or not, `small` or `large`, any number of leading zero limbs).
-/
import FendModel.Proofs.BigUintSub
import FendModel.Proofs.BigUintPow
import FendModel.Proofs.BigRatMulDiv
import FendModel.Model.Pinned

namespace Fend.C01
open Fend Fend.BigUint

/-- `BigUint::add` is addition on values (no well-formedness hypothesis needed). -/
theorem add_exact (a b : BigUint) : val (a.add b) = val a + val b := add_val a b

/-- `add_assign_internal`, the multiply-accumulate at the heart of `add` and `mul`. -/
theorem mulAcc_exact (s o : BigUint) (d shift : Nat) :
    val (addAssignInternal s o d shift) = val s + val o * d * B ^ shift :=
  addAssignInternal_val s o d shift

/-- `BigUint::mul` is multiplication on values. -/
theorem mul_exact (a b : BigUint) : val (a.mul b) = val a * val b := mul_val a b

/-- `Ord for BigUint` is the order on values. -/
theorem cmp_exact (a b : BigUint) (ha : a.WF) (hb : b.WF) :
    a.cmp b = compare (val a) (val b) := cmp_val a b ha hb

/-- `BigUint::sub` never reaches its `unreachable!`/`assert_eq!`/overflow when `b ≤ a`,
and is subtraction on values. -/
theorem sub_exact (a b : BigUint) (ha : a.WF) (hb : b.WF) (h : val b ≤ val a) :
    ∃ r, a.sub b = .ok r ∧ val r = val a - val b ∧ r.WF := sub_val a b ha hb h

/-- `BigUint::pow` (square and multiply over `mul`): whenever it returns a value it is the power, for every base and
exponent, in any limb representation -/
theorem pow_exact (a b r : BigUint) (h : a.pow b = .ok r) : val r = val a ^ val b := pow_ok a b r h

/-- it refuses exactly `0^0` and non-zero exponents whose value does not fit in 64 bits (D1 was this clause being false:
the limb COUNT was tested instead of the value) -/
theorem pow_errors (a b : BigUint) :
    (a.pow b = .error .zeroPowZero ↔ val a = 0 ∧ val b = 0) ∧
    (a.pow b = .error .exponentTooLarge ↔ val b ≠ 0 ∧ b.fitsU64 = false) :=
  ⟨pow_zero_zero a b, pow_too_large a b⟩

/-- rational layer: `BigRat::mul` is multiplication of the denoted rationals, for every representation (unreduced, any limbs) -/
theorem rat_mul_exact (a b : BigRat) : BigRat.valQ (BigRat.mul a b) = BigRat.valQ a * BigRat.valQ b := BigRat.mul_valQ a b

/-- `BigRat::div` refuses exactly a zero divisor and is otherwise division of the denoted rationals -/
theorem rat_div_exact (a b : BigRat) (hw : b.num.WF) :
    (BigRat.numIsZero b = true → BigRat.div a b = .error .divideByZero) ∧
    (BigRat.numIsZero b = false → ∃ r, BigRat.div a b = .ok r ∧ (val b.den ≠ 0 → BigRat.valQ r = BigRat.valQ a / BigRat.valQ b)) :=
  BigRat.div_valQ a b hw

/-- negation negates -/
theorem rat_neg_exact (a : BigRat) : BigRat.valQ (BigRat.negate a) = - BigRat.valQ a := BigRat.negate_valQ a

/-- Defect D20 (repaired by a `fix:` commit): on the pinned tree `add` was NOT addition.
Witness: `1 + (2^128 - 1)` gave `2^64`. -/
theorem pinned_add_wrong :
    val (Pinned.add (.small 1) (.large [18446744073709551615, 18446744073709551615]))
      ≠ val (.small 1) + val (.large [18446744073709551615, 18446744073709551615]) := by
  simp [Pinned.add, Pinned.addAssignInternal, aaiLoop, valueLen, BigUint.get, BigUint.set,
    Pinned.valuePush, val, valL, B]

-- non-vacuity: the hypotheses of `sub_exact`/`cmp_exact` are met by a non-trivial, non-canonical input
example : (BigUint.large [5, 0]).WF ∧ (BigUint.small 3).WF ∧
    val (.small 3) ≤ val (.large [5, 0]) := by
  refine ⟨?_, ?_, ?_⟩ <;> simp [WF, val, valL, B]

end Fend.C01
