import FendModel.Model.Serialize

namespace Fend.Ser

@[simp] theorem andThen_ok {α β} (a : α) (bs : Bytes) (f : α → Bytes → Except DErr (β × Bytes)) :
    andThen (.ok (a, bs)) f = f a bs := rfl

theorem deU8_ser (n : Nat) (rest : Bytes) : deU8 (serU8 n ++ rest) = .ok (n, rest) := rfl
theorem deU8_cons (n : Nat) (rest : Bytes) : deU8 (n :: rest) = .ok (n, rest) := rfl

theorem deU64_ser (n : Nat) (h : n < 18446744073709551616) (rest : Bytes) :
    deU64 (serU64 n ++ rest) = .ok (n, rest) := by
  simp only [serU64, List.cons_append, List.nil_append, deU64]
  congr 2
  omega

theorem deBool_ser (b : Bool) (rest : Bytes) : deBool (serBool b ++ rest) = .ok (b, rest) := by
  cases b <;> simp [serBool, deBool]

theorem deI32_ser (i : Int) (h1 : -2147483648 ≤ i) (h2 : i < 2147483648) (rest : Bytes) :
    deI32 (serI32 i ++ rest) = .ok (i, rest) := by
  simp only [serI32, List.cons_append, List.nil_append, deI32]
  congr 2
  have hn : ((i % 4294967296).toNat : Int) = i % 4294967296 := Int.toNat_of_nonneg (by omega)
  generalize hk : (i % 4294967296).toNat = k at *
  have hk4 : k < 4294967296 := by omega
  have hsum : k / 16777216 % 256 * 16777216 + k / 65536 % 256 * 65536 + k / 256 % 256 * 256 + k % 256 = k := by omega
  rw [hsum]
  split <;> omega

/-- reading back a sequence written element by element -/
theorem deListN_ser {α} (f : α → Bytes) (d : D α) (l : List α) (rest : Bytes)
    (h : ∀ x ∈ l, ∀ r, d (f x ++ r) = .ok (x, r)) :
    deListN d l.length (l.flatMap f ++ rest) = .ok (l, rest) := by
  induction l with
  | nil => rfl
  | cons x xs ih =>
    simp only [List.length_cons, List.flatMap_cons, List.append_assoc, deListN]
    rw [h x (by simp)]
    simp only
    rw [ih (fun y hy => h y (by simp [hy]))]

theorem deList_ser {α} (f : α → Bytes) (d : D α) (l : List α) (rest : Bytes)
    (hl : l.length < 18446744073709551616)
    (h : ∀ x ∈ l, ∀ r, d (f x ++ r) = .ok (x, r)) :
    deList d (serList f l ++ rest) = .ok (l, rest) := by
  unfold deList serList
  rw [List.append_assoc, deU64_ser _ hl, andThen_ok]
  exact deListN_ser f d l rest h

theorem flatMap_singleton (s : Bytes) : s.flatMap serU8 = s := by
  induction s with
  | nil => rfl
  | cons x xs ih => simp [serU8, List.flatMap_cons, ih]

def StrRep (s : Str) : Prop := s.length < 18446744073709551616 ∧ validUtf8 s = true

theorem deStr_ser (s : Str) (h : StrRep s) (rest : Bytes) : deStr (serStr s ++ rest) = .ok (s, rest) := by
  unfold deStr serStr
  rw [List.append_assoc, deU64_ser _ h.1, andThen_ok]
  have := deListN_ser serU8 deU8 s rest (fun x _ r => deU8_ser x r)
  rw [flatMap_singleton] at this
  rw [this, andThen_ok]
  simp only [h.2, if_true]

end Fend.Ser
