#!/bin/sh
# usage: tools/save_mutant.sh <ID> <N> : copy a confirmed mutant into /verif/seeded/<ID>-m<N>/
ID=$1; N=$2; M=${MUT_BASE:-/tmp/mut}/$ID-out/mutant$N; D=/verif/seeded/$ID-m${3:-$N}
mkdir -p $D && cp $M/patch.diff $M/demo.sh $D/ && python3 /verif/tools/save_meta.py "$M" "$D" "$ID" "$N"
echo saved $D
