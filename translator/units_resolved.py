"""Writes Gen/UnitsResolved.lean from what the tree under test resolves every table name to."""
import os
from fractions import Fraction as F
from . import units

def generate(ctx, harness):
    table, short, currencies = units.generate_raw()
    names = []
    for g, s, p, d in table:
        names.append(s)
        if p: names.append(p)
    names = [n for n in dict.fromkeys(names) if n not in ("'", '"')]
    # bases of the square / cubic shorthand families that are not table names themselves (e.g. `dm` = d + m)
    extra = []
    for n in names:
        for x in ([n[2:]] if n[:2] in ("sq", "cb") and len(n) > 2 else []) + ([n[:-1]] if n[-1:] in "23" and len(n) > 1 else []):
            if x and x not in names and x not in extra and x.isalpha():
                extra.append(x)
    # every short prefix must agree with the long prefix it abbreviates: `<short>B` vs `<long>byte`
    prefix_pairs = []
    for sp_name, sp_def in short:
        long_name = sp_def[3:] if sp_def.startswith("sp@") else sp_def
        # (skip spellings that are table names in their own right, e.g. `dB` = decibel)
        if sp_name.isascii() and sp_name + "B" not in names and long_name + "byte" not in names:
            prefix_pairs.append((sp_name + "B", long_name + "byte"))
    for a, b in prefix_pairs:
        for x in (a, b):
            if x not in names and x not in extra:
                extra.append(x)
    res_extra = units.resolve(ctx, harness, extra)
    extra = [x for x in extra if res_extra[x][0] is not None]      # keep only bases the tree really resolves
    names = names + extra
    res = units.resolve(ctx, harness, names)
    bases = sorted({b for r, _ in res.values() if r for b in r[2]})
    base_ids = {b: i for i, b in enumerate(bases)}
    idx = {n: i for i, n in enumerate(names)}
    def status(n):
        r, o = res[n]
        if r is not None: return 0
        return 1 if o.startswith("ok approx.") else 2
    rows = ",\n   ".join(units.row_lit(res[n][0], base_ids) for n in names)
    st = ", ".join(str(status(n)) for n in names)
    # (singular index, plural index) for every definition with a distinct plural
    # only length-like bases form a family (sqX must be an area): keep X whose dims are exactly meter^1
    def is_len(n):
        r = res[n][0]
        return r is not None and r[2] == {"meter": 1}
    # a name defined twice resolves to its FIRST definition (determinism); coherence of a row is only
    # meaningful for names that row owns
    owner = {}
    for r_i, (g, s, p, d) in enumerate(table):
        for n in (s, p):
            if n and n not in owner:
                owner[n] = r_i
    sp = [(idx[s], idx[p]) for r_i, (g, s, p, d) in enumerate(table)
          if p and p != s and s in idx and p in idx and owner[s] == r_i and owner[p] == r_i]
    # definitions that are exactly another table name (short/long spellings, aliases): must agree
    alias = []
    for r_i, (g, s, p, d) in enumerate(table):
        rule, body = units.rule_of(d)
        body = body[1:] if body.startswith("=") else body
        # `C` / `F` are special-cased by the lookup (temperature vs coulomb/farad mode)
        if body in idx and s in idx and body != s and rule not in ("longPrefix", "shortPrefix") and owner[s] == r_i and s not in ("C", "F"):
            alias.append((idx[s], idx[body]))
    for a, b in prefix_pairs:
        if a in idx and b in idx:
            alias.append((idx[a], idx[b]))
    # square / cubic shorthand families: sqX = X2 = X^2, cbX = X3 = X^3
    fam = []
    for n in names:
        if not is_len(n):
            continue
        for pre, suf, k in (("sq", "2", 2), ("cb", "3", 3)):
            if pre + n in idx: fam.append((idx[n], idx[pre + n], k))
            if n + suf in idx: fam.append((idx[n], idx[n + suf], k))
    # standards: factors fixed by definition of the units (entered from the standards, not from fend's source)
    STANDARDS = [("inch", "127/5000", {"meter": 1}), ("foot", "381/1250", {"meter": 1}), ("yard", "1143/1250", {"meter": 1}), ("mile", "201168/125", {"meter": 1}),
                 ("pound", "45359237/100000000", {"kilogram": 1}), ("ounce", "45359237/1600000000", {"kilogram": 1}), ("nauticalmile", "1852", {"meter": 1}),
                 ("calorie", "523/125", {"kilogram": 1, "meter": 2, "second": -2}), ("atm", "101325", {"kilogram": 1, "meter": -1, "second": -2}),
                 ("hour", "3600", {"second": 1}), ("day", "86400", {"second": 1}), ("week", "604800", {"second": 1}), ("minute", "60", {"second": 1}),
                 ("liter", "1/1000", {"meter": 3}), ("hectare", "10000", {"meter": 2}), ("acre", "316160658/78125", {"meter": 2}), ("gram", "1/1000", {"kilogram": 1}),
                 ("tonne", "1000", {"kilogram": 1}), ("byte", "8", {"bit": 1}), ("kibibyte", "8192", {"bit": 1}), ("knot", "463/900", {"meter": 1, "second": -1}),
                 ("mph", "1397/3125", {"meter": 1, "second": -1}), ("bar", "100000", {"kilogram": 1, "meter": -1, "second": -2}), ("newton", "1", {"kilogram": 1, "meter": 1, "second": -2}),
                 ("joule", "1", {"kilogram": 1, "meter": 2, "second": -2}), ("watt", "1", {"kilogram": 1, "meter": 2, "second": -3}), ("kWh", "3600000", {"kilogram": 1, "meter": 2, "second": -2}),
                 ("percent", "1/100", {}), ("dozen", "12", {}), ("lightyear", "9460730472580800", {"meter": 1}), ("au", "149597870700", {"meter": 1}), ("angstrom", "1/10000000000", {"meter": 1}),
                 ("stone", "635029318/100000000", {"kilogram": 1}), ("gallon", "473176473/125000000000", {"meter": 3}), ("carat", "1/5000", {"kilogram": 1}), ("furlong", "25146/125", {"meter": 1}),
                 ("fathom", "1143/625", {"meter": 1}), ("hertz", "1", {"second": -1}), ("pascal", "1", {"kilogram": 1, "meter": -1, "second": -2}), ("eV", "1602176634/10000000000000000000000000000", {"kilogram": 1, "meter": 2, "second": -2}),
                 ("KiB", str(8 * 2**10), {"bit": 1}), ("MiB", str(8 * 2**20), {"bit": 1}), ("GiB", str(8 * 2**30), {"bit": 1}), ("TiB", str(8 * 2**40), {"bit": 1}),
                 ("PiB", str(8 * 2**50), {"bit": 1}), ("EiB", str(8 * 2**60), {"bit": 1}), ("ZiB", str(8 * 2**70), {"bit": 1}), ("YiB", str(8 * 2**80), {"bit": 1}),
                 ("kB", "8000", {"bit": 1}), ("MB", str(8 * 10**6), {"bit": 1}), ("GB", str(8 * 10**9), {"bit": 1}), ("TB", str(8 * 10**12), {"bit": 1}), ("PB", str(8 * 10**15), {"bit": 1}),
                 ("EB", str(8 * 10**18), {"bit": 1}), ("mB", "1/125", {"bit": 1}),
                 ("fortnight", "1209600", {"second": 1}), ("mil", "127/5000000", {"meter": 1}), ("kph", "5/18", {"meter": 1, "second": -1})]
    std = []
    for n, sc, dims in STANDARDS:
        if n in idx and all(b in base_ids for b in dims):
            std.append((idx[n], units.row_lit((F(sc), 0, {b: F(e) for b, e in dims.items()}), base_ids)))
    txt = ("-- GENERATED by translator/units_resolved.py: what the tree under test resolves every table name to\n"
           "-- (`@debug 1 <name>` through the public API). Regenerated on every run. Do not edit.\n"
           "namespace Fend.Gen\n\n/-- a reduced fraction (numerator, denominator) -/\nabbrev Q := Int × Nat\n\nstructure Res where\n  scale : Q\n  pi : Q\n  dims : List (Nat × Q)\nderiving DecidableEq\n\n"
           f"-- base units: {', '.join(f'{i}={b}' for b, i in base_ids.items())}\n"
           f"-- names in row order: {' '.join(names[:40])} ...\n"
           f"def resolved : List (Option Res) :=\n  [{rows}]\n\n"
           f"/-- 0 = exact, 1 = approximate (involves pi^2 / ln), 2 = error -/\ndef status : List Nat := [{st}]\n\n"
           f"def singularPlural : List (Nat × Nat) := [{', '.join(f'({a}, {b})' for a, b in sp)}]\n\n"
           f"def sameAs : List (Nat × Nat) := [{', '.join(f'({a}, {b})' for a, b in alias)}]\n\n"
           f"def families : List (Nat × Nat × Nat) := [{', '.join(f'({a}, {b}, {k})' for a, b, k in fam)}]\n\n"
           f"def standards : List (Nat × Option Res) :=\n  [{', '.join(f'({i}, {r})' for i, r in std)}]\n\nend Fend.Gen\n")
    out = os.path.join(units.GEN, "UnitsResolved.lean")
    if not os.path.exists(out) or open(out).read() != txt:
        open(out, "w").write(txt)
    LAST.update({"names": names, "res": res, "fam": fam, "alias": alias, "sp": sp, "std": [(n, F(sc), {b: F(e) for b, e in d.items()}) for n, sc, d in STANDARDS if n in idx]})
    return table, short, currencies, names, res, fam, alias, sp

LAST = {}

def table_failures():
    """concrete names on which a table theorem fails, as (fend input, what the tree answers, which clause) — the search for a failing input"""
    names, res = LAST["names"], LAST["res"]
    R = lambda n: res[n][0]
    def powr(x, k): return (x[0] ** k, x[1] * k, {b: e * k for b, e in x[2].items()})
    out = []
    for n in names:
        if res[n][0] is None and not res[n][1].startswith("ok approx."):
            out.append((f"1 {n}", res[n][1][:200], "every singular and plural name of the table evaluates without error"))
    for a, b in LAST["sp"]:
        if R(names[a]) != R(names[b]):
            out.append((f"(1 {names[a]}) == (1 {names[b]})", f"{res[names[a]][1][:100]} vs {res[names[b]][1][:100]}", "singular and plural denote the same quantity"))
    for a, b in LAST["alias"]:
        if R(names[a]) != R(names[b]):
            out.append((f"(1 {names[a]}) == (1 {names[b]})", f"{res[names[a]][1][:100]} vs {res[names[b]][1][:100]}", "short and long spellings of one unit agree"))
    for x, y, k in LAST["fam"]:
        if R(names[y]) is None or R(names[x]) is None or R(names[y]) != powr(R(names[x]), k):
            out.append((f"1 {names[y]} to {names[x]}^{k}", res[names[y]][1][:120], "sqX = X2 = X^2 and cbX = X3 = X^3"))
    for n, sc, d in LAST["std"]:
        if R(n) != (sc, 0, d):
            out.append((f"@debug 1 {n}", res[n][1][:160], f"standards fix 1 {n} = {sc} x base units {d}"))
    return out
