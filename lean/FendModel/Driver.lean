/-
`fend_model_driver <stream>`: reads one case per line on stdin, prints the model's
(and, where stated, the specification's) answer per line on stdout.
-/
import FendModel.Model.Proto
import FendModel.Model.Complex
import FendModel.Model.Json
import FendModel.Model.Inline
import FendModel.Model.StrLit
import FendModel.Model.Date
import FendModel.Model.IntFns
import FendModel.Model.SerializeCanon
import FendModel.Model.Preview
import FendModel.Model.XRates
import FendModel.Model.Cli
import FendModel.Model.Dist
import FendModel.Model.UnitLookup
import FendModel.Model.Units
import FendModel.Model.NumLit
import FendModel.Model.Root
import FendModel.Model.Parser
import FendModel.Model.Scope
import FendModel.Model.Elementary
import FendModel.Model.Interrupt

open Fend Fend.Proto

def biguintLine (line : String) : String :=
  let ws := line.trimAscii.toString.splitOn " "
  let u1 (f : BigUint → String) (a : String) := match parseUint a with
    | some x => f x | none => "bad-op"
  let u2 (f : BigUint → BigUint → String) (a b : String) := match parseUint a, parseUint b with
    | some x, some y => f x y | _, _ => "bad-op"
  let one := fun (r : R BigUint) => showR showUint r
  match ws with
  | ["add", a, b] => u2 (fun x y => one (.ok (x.add y))) a b
  | ["sub", a, b] => u2 (fun x y => one (x.sub y)) a b
  | ["mul", a, b] => u2 (fun x y => one (.ok (x.mul y))) a b
  | ["divmod", a, b] => u2 (fun x y => showR (fun (q, r) => showUint q ++ " " ++ showUint r) (x.divmod y)) a b
  | ["div", a, b] => u2 (fun x y => one (BigUint.div x y)) a b
  | ["rem", a, b] => u2 (fun x y => one (BigUint.rem x y)) a b
  | ["cmp", a, b] => u2 (fun x y => "ok " ++ showOrd (x.cmp y)) a b
  | ["gcd", a, b] => u2 (fun x y => one (BigUint.gcd x y)) a b
  | ["pow", a, b] => u2 (fun x y => one (BigUint.pow x y)) a b
  | ["root_n", a, b] => u2 (fun x y => showR (fun (r, e) => showUint r ++ " " ++ (if e then "S1" else "S0")) (x.rootN y)) a b
  | ["and", a, b] => u2 (fun x y => one (x.bitwiseAnd y)) a b
  | ["or", a, b] => u2 (fun x y => one (x.bitwiseOr y)) a b
  | ["xor", a, b] => u2 (fun x y => one (x.bitwiseXor y)) a b
  | ["lshift_n", a, b] => u2 (fun x y => one (x.lshiftN y)) a b
  | ["rshift_n", a, b] => u2 (fun x y => one (x.rshiftN y)) a b
  | ["lshift", a] => u1 (fun x => one x.lshift) a
  | ["rshift", a] => u1 (fun x => one (.ok x.rshift)) a
  | ["factorial", a] => u1 (fun x => one x.factorial) a
  | ["is_zero", a] => u1 (fun x => "ok S" ++ (if x.isZero then "1" else "0")) a
  | ["try_as_usize", a] => u1 (fun x => showR (fun n => s!"S{n}") x.tryAsUsize) a
  | ["is_even", a] => u1 (fun x => showR (fun b => if b then "S1" else "S0") x.isEven) a
  | ["fibonacci", n] => match n.toNat? with
    | some k => one (.ok (BigUint.fibonacci k)) | none => "bad-op"
  -- specification side: the value as a plain natural number
  | ["val", a] => u1 (fun x => s!"{x.val}") a
  | _ => "bad-op"

def bigratLine (line : String) : String :=
  let ws := line.trimAscii.toString.splitOn " "
  let q2 (f : BigRat → BigRat → String) (a b : String) := match parseRat a, parseRat b with
    | some x, some y => f x y | _, _ => "bad-op"
  let q1 (f : BigRat → String) (a : String) := match parseRat a with
    | some x => f x | none => "bad-op"
  let one := fun (r : R BigRat) => showR showRat r
  let ex := fun (r : R (BigRat × Bool)) => showR (fun (v, e) => showRat v ++ (if e then " exact" else " approx")) r
  match ws with
  | [op, ar, ai, br, bi] =>
    match parseRat ar, parseRat ai, parseRat br, parseRat bi with
    | some xr, some xi, some yr, some yi =>
      let x : Fend.Cx := ⟨xr, xi⟩
      let y : Fend.Cx := ⟨yr, yi⟩
      let res : Option (R Fend.Cx) := match op with
        | "cadd" => some (Fend.Cx.add x y) | "cmul" => some (Fend.Cx.mul x y) | "cdiv" => some (Fend.Cx.div x y) | _ => none
      (match res with
        | some r => showR (fun (c : Fend.Cx) => showRat c.re ++ " " ++ showRat c.im ++ " exact") r
        | none => "bad-op")
    | _, _, _, _ => "bad-op"
  | ["add", a, b] => q2 (fun x y => one (x.add y)) a b
  | ["sub", a, b] => q2 (fun x y => one (x.sub y)) a b
  | ["mul", a, b] => q2 (fun x y => one (.ok (x.mul y))) a b
  | ["div", a, b] => q2 (fun x y => one (x.div y)) a b
  | ["pow", a, b] => q2 (fun x y => ex (BigRat.powTop x y)) a b
  | ["root_n", a, b] => q2 (fun x y => ex (BigRat.rootN (BigRat.pow 3) x y)) a b
  | ["modulo", a, b] => q2 (fun x y => one (x.modulo y)) a b
  | ["combination", a, b] => q2 (fun x y => one (x.combination y)) a b
  | ["permutation", a, b] => q2 (fun x y => one (x.permutation y)) a b
  | ["and", a, b] => q2 (fun x y => one (BigRat.bitwise "and" x y)) a b
  | ["or", a, b] => q2 (fun x y => one (BigRat.bitwise "or" x y)) a b
  | ["xor", a, b] => q2 (fun x y => one (BigRat.bitwise "xor" x y)) a b
  | ["shl", a, b] => q2 (fun x y => one (BigRat.bitwise "shl" x y)) a b
  | ["shr", a, b] => q2 (fun x y => one (BigRat.bitwise "shr" x y)) a b
  | ["cmp", a, b] => q2 (fun x y => match x.cmp y with | some o => "ok " ++ showOrd o | none => "err panic") a b
  | ["floor", a] => q1 (fun x => one (BigRat.roundWith .floor x)) a
  | ["ceil", a] => q1 (fun x => one (BigRat.roundWith .ceil x)) a
  | ["round", a] => q1 (fun x => one (BigRat.roundWith .round x)) a
  | ["neg", a] => q1 (fun x => one (.ok x.negate)) a
  | ["simplify", a] => q1 (fun x => one x.simplify) a
  | ["factorial", a] => q1 (fun x => one x.factorial) a
  | ["try_as_usize", a] => q1 (fun x => showR (fun n => s!"{n}") x.tryAsUsize) a
  | _ => "bad-op"

/-- code points as space-separated lower-case hex; the empty line is the empty text -/
def parseHexCps (s : String) : Option (List Nat) :=
  let t := s.trimAscii.toString
  if t.isEmpty then some [] else
  let parts := t.splitOn " "
  let hexv (w : String) : Option Nat :=
    w.toList.foldl (fun acc c => match acc, Fend.Json.hexVal c.toNat with
      | some a, some d => some (a * 16 + d) | _, _ => none) (some 0)
  let ns := parts.filterMap hexv
  if ns.length = parts.length then some ns else none

def hexStr (n : Nat) : String := String.ofList (Nat.toDigits 16 n)
def showCps (l : List Nat) : String := " ".intercalate (l.map hexStr)

def jsonLine (line : String) : String :=
  match parseHexCps line with
  | none => "bad-op"
  | some cps => showCps (Fend.Json.escapeString cps)

def jsonDecLine (line : String) : String :=
  match parseHexCps line with
  | none => "bad-op"
  | some cps => match Fend.Json.jsonDecodeString cps with
    | none => "none"
    | some r => "some " ++ showCps r

def inlineLine (line : String) : String :=
  match parseHexCps line with
  | none => "bad-op"
  | some cps =>
    let input := cps.map Char.ofNat
    let parts := Fend.Inline.inlineSubst (fun (_ : Unit) s => ((), Fend.Inline.Res.output s)) () input
    "|".intercalate (parts.map fun p => match p with
      | .unprocessed s => "U " ++ showCps (s.map Char.toNat)
      | .evaluated src _ => "E " ++ showCps (src.map Char.toNat))

/-- `<terminator-hex> <body code points…>`: the body is everything after the opening quote -/
def strlitLine (line : String) : String :=
  match parseHexCps line with
  | some (term :: body) =>
    match Fend.StrLit.parseStringLiteral term body with
    | .ok (text, []) => "ok " ++ showCps text
    | .ok (_, _) => "skip"
    | .error e => "err " ++ e.name
  | _ => "bad-op"

open Fend.Date in
def showDate (d : Fend.Date.Date) : String :=
  match dayOfWeek d with
  | some w => s!"ok {d.year} {d.month} {d.day} {w}"
  | none => "panic"

open Fend.Date in
/-- `Y M D (op N)*` with op ∈ +d -d -w -m -y, applied left to right; or `lit <hex code points>` -/
def dateLine (line : String) : String :=
  let ws := line.trimAscii.toString.splitOn " "
  match ws with
  | "lit" :: hex =>
    match parseHexCps (" ".intercalate hex) with
    | none => "bad-op"
    | some cps =>
      -- the lexer hands the digits-digits-digits text after `@` to `Date::parse`
      let isWs (c : Nat) : Bool := c = 32 || (9 ≤ c && c ≤ 13)
      match scanDate cps with
      | none => "err"
      | some (t, rest) =>
        if !rest.all isWs then "skip" else
        match parseDate t with
        | some d => showDate d
        | none => "err"
  | y :: m :: d :: ops =>
    match y.toInt?, m.toNat?, d.toNat? with
    | some y, some m, some d =>
      let rec go (fuel : Nat) (cur : Fend.Date.Date) (ops : List String) : String :=
        match fuel, ops with
        | _, [] => showDate cur
        | 0, _ => "bad-op"
        | fuel + 1, op :: n :: rest =>
          match n.toNat? with
          | none => "bad-op"
          | some n =>
            if op = "+d" then match addDays n cur with | some c => go fuel c rest | none => "panic"
            else if op = "-d" then match subDays n cur with | some c => go fuel c rest | none => "panic"
            else if op = "-w" then match subDays (7 * n) cur with | some c => go fuel c rest | none => "panic"
            else if op = "-m" ∨ op = "-y" then
              match diffMonthsBack cur (if op = "-y" then 12 * n else n) with
              | .ok c => go fuel c rest
              | .nonExistent y m d => s!"nonexistent {y} {m} {d}"
              | .panic => "panic"
            else "bad-op"
        | _, _ => "bad-op"
      go ops.length ⟨y, m, d⟩ ops
    | _, _, _ => "bad-op"
  | _ => "bad-op"

/-- `roman N` | `words N` | `char N`: text results as hex code points -/
def intfnLine (line : String) : String :=
  match line.trimAscii.toString.splitOn " " with
  | ["roman", n] => match n.toNat? with
    | some k => match Fend.IntFns.roman k with
      | .ok s => "ok " ++ showCps s
      | .zero => "err romanZero"
      | .outOfRange => "err outOfRange"
    | none => "bad-op"
  | ["words", n] => match n.toNat? with
    | some k => match Fend.IntFns.toWords k with
      | some s => "ok " ++ showCps (s.toList.map Char.toNat)
      | none => "err outOfRange"
    | none => "bad-op"
  | ["char", n] => match n.toNat? with
    | some k => match Fend.IntFns.charOf k with
      | some c => "ok " ++ showCps [c]
      | none => "err invalidCodepoint"
    | none => "bad-op"
  | _ => "bad-op"

/-- packed hex (two digits per byte, no separators) -/
def parsePackedHex (s : String) : Option (List Nat) :=
  let cs := s.trimAscii.toString.toList
  let rec go : List Char → List Nat → Option (List Nat)
    | [], acc => some acc.reverse
    | [_], _ => none
    | a :: b :: rest, acc =>
      match Fend.Json.hexVal a.toNat, Fend.Json.hexVal b.toNat with
      | some x, some y => go rest ((x * 16 + y) :: acc)
      | _, _ => none
  go cs []

def packedHex (l : List Nat) : String :=
  String.ofList (l.flatMap fun b => [(Nat.toDigits 16 (b / 16)).head!, (Nat.toDigits 16 (b % 16)).head!])

/-- `serde <image>`: parse a variable image with the model; answer the error class, or whether
re-serializing reproduces the image and the canonical (order-independent) re-serialization -/
def serdeLine (line : String) : String :=
  match parsePackedHex line with
  | none => "bad-op"
  | some bytes =>
    match Fend.Ser.deVars bytes with
    | .error .eof => "err eof"
    | .error .bad => "err bad"
    | .ok vars =>
      let re := Fend.Ser.serVars vars
      let same := re == bytes.take re.length
      s!"ok {vars.length} {if same then 1 else 0} {packedHex (Fend.Ser.serVars (Fend.Ser.canonVars vars))}"

/-- `<input hex>|E` or `<input hex>|O:<unit 0/1>:<text hex>`: what the preview returns for that raw result -/
def previewLine (line : String) : String :=
  match line.trimAscii.toString.splitOn "|" with
  | [inp, raw] =>
    match parseHexCps inp with
    | none => "bad-op"
    | some icps =>
      let input := String.ofList (icps.map Char.ofNat)
      let out := Fend.Preview.evaluatePreview (V := Unit)
        (fun _ c =>
          let res : Option (String × Bool) := match raw.splitOn ":" with
            | ["O", u, t] => (parseHexCps t).map fun cps => (String.ofList (cps.map Char.ofNat), u == "1")
            | _ => none
          { result := res, ctx := c, trace := [] })
        input ⟨none, (), false, none, false, none, [], false⟩
      match out.result with
      | none => ""
      | some r => showCps (r.1.toList.map Char.toNat)
  | _ => "bad-op"

/-- `f64::from_str` succeeds with a NORMAL number (not 0, subnormal, inf, nan) — decimal syntax only -/
def okRate (t : List Nat) : Bool :=
  let cs := t.map Char.ofNat
  let cs := match cs with | '+' :: r => r | '-' :: r => r | r => r
  let isD (c : Char) : Bool := c.isDigit
  let intPart := cs.takeWhile isD
  let r1 := cs.dropWhile isD
  let (frac, r2) := match r1 with
    | '.' :: r => (r.takeWhile isD, r.dropWhile isD)
    | r => ([], r)
  if intPart.isEmpty && frac.isEmpty then false else
  let expOk : Option Int := match r2 with
    | [] => some 0
    | e :: r =>
      if e = 'e' ∨ e = 'E' then
        let (neg, r) := match r with | '+' :: r => (false, r) | '-' :: r => (true, r) | r => (false, r)
        if r.isEmpty || !r.all isD then none
        else some ((if neg then -1 else 1) * ((String.ofList r).toNat?.getD 0 : Int))
      else none
  match expOk with
  | none => false
  | some ex =>
    let digits := intPart ++ frac
    let m := (String.ofList digits).toNat?.getD 0
    if m = 0 then false else
    -- value = m * 10^(ex - frac.length); normal iff 2^-1022 ≤ value < 2^1024 (rounding at the edges ignored)
    let e10 : Int := ex - frac.length
    if e10 > 400 ∨ e10 < -400 - (digits.length : Int) then false else
    let num := if e10 ≥ 0 then m * 10 ^ e10.toNat else m
    let den := if e10 ≥ 0 then 1 else 10 ^ (-e10).toNat
    decide (num * 2 ^ 1022 ≥ den) && decide (num < den * 2 ^ 1024)

/-- `<eu|un> <now> <maxAge> <currency hex (no spaces: packed)> <cache contents packed hex>` -/
def xratesLine (line : String) : String :=
  match line.trimAscii.toString.splitOn " " with
  | [src, now, maxAge, cur, contents] =>
    match now.toNat?, maxAge.toNat?, parsePackedHex cur, parsePackedHex contents with
    | some now, some maxAge, some cur, some contents =>
      let s := if src = "eu" then Fend.XRates.Source.eu else .un
      match Fend.XRates.lookup s okRate contents now maxAge cur with
      | .ok none => "ok base"
      | .ok (some t) => "ok " ++ packedHex t
      | .error .invalid => "err"
      | .error .panic => "panic"
    | _, _, _, _ => "bad-op"
  | _ => "bad-op"

def strOfPacked (h : String) : Option String :=
  (parsePackedHex h).bind fun bs => String.fromUTF8? (ByteArray.mk (bs.map (·.toUInt8)).toArray)

def packedOfStr (s : String) : String := packedHex (s.toUTF8.toList.map (·.toNat))

/-- `<arg>,<arg>,...;<path>=<contents>,...` (all packed hex of UTF-8; an empty field is the empty string) -/
def cliargsLine (line : String) : String :=
  match line.trimAscii.toString.splitOn ";" with
  | [argsPart, filesPart] =>
    let args := if argsPart.isEmpty then [] else (argsPart.splitOn ",").filterMap (fun a => if a = "_" then some "" else strOfPacked a)
    let files : List (String × String) := if filesPart.isEmpty then [] else
      (filesPart.splitOn ",").filterMap fun kv => match kv.splitOn "=" with
        | [k, v] => match strOfPacked k, (if v = "_" then some "" else strOfPacked v) with
          | some k, some v => some (k, v) | _, _ => none
        | _ => none
    let rf := fun (p : String) => (files.find? (·.1 = p)).map (·.2)
    match Fend.Cli.fromArgs args rf with
    | .error .expectedFilename => "err expectedFilename"
    | .error .expectedExpression => "err expectedExpression"
    | .error (.unreadable _) => "err unreadable"
    | .ok .help => "help" | .ok .version => "version" | .ok .repl => "repl" | .ok .defaultConfig => "defaultConfig"
    | .ok (.eval es) => "eval " ++ ",".intercalate (es.map fun e => if e.isEmpty then "_" else packedOfStr e)
  | _ => "bad-op"

/-- `O:<emptyOrUnit>:<newline>:<text>` or `X:<msg>` per expression, comma separated -/
def clirunLine (line : String) : String :=
  let items := (line.trimAscii.toString.splitOn ",").filter (!·.isEmpty)
  let parse (it : String) : Fend.Cli.CoreRes := match it.splitOn ":" with
    | ["O", u, n, t] => .ok ((if t = "_" then some "" else strOfPacked t).getD "?") (u == "1") (n == "1")
    | ["X", m] => .err ((if m = "_" then some "" else strOfPacked m).getD "?")
    | _ => .err "bad"
  let rs := items.map parse
  -- σ = the results still to be handed out
  let coreEval := fun (st : List Fend.Cli.CoreRes) (_ : String) => match st with
    | r :: rest => (rest, r) | [] => ([], Fend.Cli.CoreRes.err "exhausted")
  let out := Fend.Cli.evalExprs coreEval rs (rs.map fun _ => "e") {}
  s!"status {out.status} out {packedOfStr out.stdout} err {packedOfStr out.stderr}"

def showRatQ (q : Rat) : String := s!"{q.num}/{q.den}"

/-- postfix dice expressions: `d N M`, `n K` (integer constant), `+ - * / neg`; optional trailing `roll R`.
Output: parts in storage order `k:p;...`, sorted outcomes, mean, and the sampled outcome for `roll R`. -/
def distLine (line : String) : String :=
  let toks := (line.trimAscii.toString.splitOn " ").filter (!·.isEmpty)
  let rec go (fuel : Nat) (toks : List String) (stack : List Fend.Dist.Dist) (roll : Option Nat) : Option (Fend.Dist.Dist × Option Nat) :=
    match fuel with
    | 0 => none
    | fuel + 1 =>
    match toks with
    | [] => match stack with | [d] => some (d, roll) | _ => none
    | "d" :: n :: m :: rest => match n.toNat?, m.toNat? with
      | some n, some m => if n = 0 ∨ m = 0 then none else go fuel rest (Fend.Dist.newDie n m :: stack) roll
      | _, _ => none
    | "n" :: k :: rest => match k.toInt? with
      | some k => go fuel rest ([((k : Rat), 1)] :: stack) roll
      | none => none
    | "neg" :: rest => match stack with
      | a :: st => go fuel rest (Fend.Dist.neg a :: st) roll | _ => none
    | "roll" :: r :: rest => go fuel rest stack r.toNat?
    | op :: rest => match stack with
      | b :: a :: st =>
        let f : Option (Rat → Rat → Rat) := if op = "+" then some (· + ·) else if op = "-" then some (· - ·)
          else if op = "*" then some (· * ·) else if op = "/" then some (· / ·) else none
        match f with
        | some f => if op = "/" ∧ b.any (fun kp => kp.1 = 0) then none else go fuel rest (Fend.Dist.bop f a b :: st) roll
        | none => none
      | _ => none
  match go (toks.length + 1) toks [] none with
  | none => "bad-op"
  | some (d, roll) =>
    let parts := ";".intercalate (d.map fun kp => showRatQ kp.1 ++ ":" ++ showRatQ kp.2)
    let srt := ",".intercalate ((Fend.Dist.sorted d).map fun kp => showRatQ kp.1)
    let mean := match Fend.Dist.mean d with | some m => showRatQ m | none => "none"
    let thr := fun (p : Rat) => ((Float.ofInt p.num / Float.ofNat p.den) * 4294967295.0).toUInt32.toNat
    let rolled := match roll with
      | some r => match Fend.Dist.sample thr d r with | some k => " roll=" ++ showRatQ k | none => " roll=none"
      | none => ""
    s!"parts={parts} sorted={srt} mean={mean} total={showRatQ (Fend.Dist.total d)}{rolled}"

/-- the custom units every `unitq` context defines when `custom=1` (same list in the harness) -/
def customUnits : List Fend.UnitLookup.Entry :=
  [("florp", "florps", "3 kg"), ("zib", "zibs", "l@!"), ("smoot", "smoots", "s@67 inches"),
   ("mile", "miles", "l@1852 m"), ("hugo", "", "lp@1000"), ("byteish", "", "=8 bits")]

/-- `cf=<0|1> custom=<0|1> <ident packed hex>` -/
def unitLookupLine (line : String) : String :=
  match line.trimAscii.toString.splitOn " " with
  | [cf, cu, ident] =>
    match strOfPacked ident with
    | none => "bad-op"
    | some ident =>
      let cfg : Fend.UnitLookup.Cfg := { custom := if cu = "custom=1" then customUnits else [], celsiusFahrenheit := cf = "cf=0" }
      match Fend.UnitLookup.lookup cfg ident with
      | .whole e => "whole " ++ packedOfStr e.1
      | .prefixed a b => "prefixed " ++ packedOfStr a.1 ++ " " ++ packedOfStr b.1
      | .notFound => "notfound"
  | _ => "bad-op"

def parseQ (s : String) : Option Rat :=
  match s.splitOn "/" with
  | [n] => n.toInt?.map fun i => (i : Rat)
  | [n, d] => match n.toInt?, d.toNat? with
    | some n, some d => if d = 0 then none else some ((n : Rat) / (d : Rat))
    | _, _ => none
  | _ => none

/-- `b:e,b:e` (or `-` for dimensionless) -/
def parseDims (s : String) : Option Fend.Units.Dims :=
  if s = "-" then some [] else
  (s.splitOn ",").mapM fun be => match be.splitOn ":" with
    | [b, e] => match b.toNat?, parseQ e with
      | some b, some e => some (b, e) | _, _ => none
    | _ => none

/-- prefix notation: `L dims | M a b | D a b | P q a e | A z a b | C a b | F a | G a b` -/
def parseTree : Nat → List String → Option (Fend.Units.UExpr × List String)
  | 0, _ => none
  | fuel + 1, toks =>
    let two (rest : List String) (k : Fend.Units.UExpr → Fend.Units.UExpr → Fend.Units.UExpr) :=
      match parseTree fuel rest with
      | some (a, rest) => match parseTree fuel rest with
        | some (b, rest) => some (k a b, rest)
        | none => none
      | none => none
    match toks with
    | "L" :: d :: rest => (parseDims d).map fun d => (.leaf d, rest)
    | "M" :: rest => two rest .mul
    | "D" :: rest => two rest .div
    | "P" :: q :: rest => match parseQ q with
      | some q => two rest (fun a e => .pow a e q)
      | none => none
    | "A" :: z :: rest => two rest (.add (z = "1"))
    | "C" :: rest => two rest .conv
    | "F" :: rest => match parseTree fuel rest with
      | some (a, rest) => some (.fn1 a, rest)
      | none => none
    | "G" :: rest => two rest .fn2
    | _ => none

/-- `convert <x> <scaleA> <dimsA> <scaleB> <dimsB>` | `tree <prefix form>` | `add <x> <scaleA> <dimsA> <y> <scaleB> <dimsB>`
 | `dims mul|div <dimsA> <dimsB>` | `dims pow <dimsA> <q>`; base ids 0..39 are compared -/
def unitsLine (line : String) : String :=
  let bases := List.range 40
  let showDims (d : Fend.Units.Dims) : String :=
    let es := bases.filterMap fun b => let e := Fend.Units.expOf b d; if e = 0 then none else some s!"{b}:{showRatQ e}"
    if es.isEmpty then "-" else ",".intercalate es
  match line.trimAscii.toString.splitOn " " with
  | ["convert", x, sa, da, sb, db] =>
    match parseQ x, parseQ sa, parseDims da, parseQ sb, parseDims db with
    | some x, some sa, some da, some sb, some db =>
      match Fend.Units.convert bases x ⟨da, sa⟩ ⟨db, sb⟩ with
      | some r => "ok " ++ showRatQ r
      | none => "incompatible"
    | _, _, _, _, _ => "bad-op"
  | ["add", x, sa, da, y, sb, db] =>
    match parseQ x, parseQ sa, parseDims da, parseQ y, parseQ sb, parseDims db with
    | some x, some sa, some da, some y, some sb, some db =>
      match Fend.Units.addIn bases x ⟨da, sa⟩ y ⟨db, sb⟩ with
      | some r => "ok " ++ showRatQ r
      | none => "incompatible"
    | _, _, _, _, _, _ => "bad-op"
  | "tree" :: toks =>
    match parseTree (toks.length + 1) toks with
    | some (t, []) =>
      match Fend.Units.dimsOf bases t with
      | some d => "ok " ++ showDims (Fend.Units.reduce d).1
      | none => "incompatible"
    | _ => "bad-op"
  | ["dims", op, da, db] =>
    match parseDims da with
    | none => "bad-op"
    | some da =>
      if op = "pow" then match parseQ db with
        | some q => "ok " ++ showDims (Fend.Units.reduce (Fend.Units.powDims da q)).1
        | none => "bad-op"
      else match parseDims db with
        | some db => "ok " ++ showDims (Fend.Units.reduce (if op = "mul" then Fend.Units.mulDims da db else Fend.Units.divDims da db)).1
        | none => "bad-op"
  | _ => "bad-op"

/-- `<style> <base> <plain|custom|zero> <dot|comma> <+|-> <num> <den>` (already simplified) -/
def ratfmtLine (line : String) : String :=
  match line.trimAscii.toString.splitOn " " with
  | [st, b, pf, sp, sg, n, d] =>
    let style : Option Fend.Fmt.Style := match st.splitOn ":" with
      | ["fraction"] => some .improper | ["mixed"] => some .mixed | ["float"] => some .exactFloat
      | ["exact"] => some .exact | ["auto"] => some .auto
      | ["dp", k] => k.toNat?.map .dp | ["sf", k] => k.toNat?.map .sf
      | _ => none
    let pfx : Option Fend.Fmt.Pfx := match pf with
      | "plain" => some .plain | "custom" => some .custom | "zero" => some .zero | _ => none
    match style, b.toNat?, pfx, n.toNat?, d.toNat? with
    | some style, some b, some pfx, some n, some d =>
      if d = 0 then "bad-op" else
      let (t, ex) := Fend.Fmt.fmtRat ⟨b, pfx, style, if sp = "comma" then ',' else '.'⟩ (sg = "-") n d
      "ok " ++ String.ofList t ++ (if ex then " exact" else " approx")
    | _, _, _, _, _ => "bad-op"
  | _ => "bad-op"

/-- `<dot|comma> <packed literal text>`: the literal at the head of the text -/
def numlitLine (line : String) : String :=
  match line.trimAscii.toString.splitOn " " with
  | [sp, txt] =>
    match strOfPacked txt with
    | none => "bad-op"
    | some t =>
      let (sep, th) := if sp = "comma" then (',', '.') else ('.', ',')
      match Fend.NumLit.parseNumber sep th t.toList with
      | .error e => "err " ++ (match e with
          | .expectedDigit => "expectedDigit" | .expectedChar => "expectedChar" | .sepNotAllowed => "sepNotAllowed"
          | .sepBetweenDigits => "sepBetweenDigits" | .baseTooLarge => "baseTooLarge" | .baseTooSmall => "baseTooSmall"
          | .invalidBasePrefix => "invalidBasePrefix" | .other => "other")
      | .ok (.dice, _) => "dice"
      | .ok (.num p rest, pfx) =>
        -- a zero denominator cannot arise: b^r - 1 ≥ 1 for r ≥ 1, b ≥ 2
        "ok " ++ showRatQ (Fend.NumLit.litValue p) ++ " base=" ++ toString p.base ++ " " ++
          (match pfx with | .plain => "plain" | .custom => "custom" | .zero => "zero") ++ " rest=" ++ packedOfStr (String.ofList rest)
  | _ => "bad-op"

/-- `nat <x> <n>` | `pow <num> <den> <+|-> <p> <q>` (all simplified, base non-negative) -/
def rootsLine (line : String) : String :=
  match line.trimAscii.toString.splitOn " " with
  | ["nat", x, n] =>
    match x.toNat?, n.toNat? with
    | some x, some n =>
      if n = 0 then "bad-op" else
      match Fend.Root.rootNat x n with
      | some (r, e) => s!"ok {r} {if e then "exact" else "approx"}"
      | none => "err fuel"
    | _, _ => "bad-op"
  | ["pow", a, b, sg, p, q] =>
    match a.toNat?, b.toNat?, p.toNat?, q.toNat? with
    | some a, some b, some p, some q =>
      if b = 0 || q = 0 then "bad-op" else
      match Fend.Root.ratPow a b (sg = "-") p q with
      | some (v, e) => s!"ok {showRatQ v} {if e then "exact" else "approx"}"
      | none => "err fuel"
    | _, _, _, _ => "bad-op"
  | _ => "bad-op"

/-- tokens `n:<text>` `i:<name>` `s:<symbol name>` separated by spaces -/
def parseLine (line : String) : String :=
  let toks := (line.trimAscii.toString.splitOn " ").filter (!·.isEmpty)
  let tok (t : String) : Option Fend.Parser.Tok :=
    if t.startsWith "n:" then some (.num (t.drop 2).toString)
    else if t.startsWith "i:" then some (.ident (t.drop 2).toString)
    else if t.startsWith "s:" then
      (match (t.drop 2).toString with
        | "(" => some Fend.Parser.Sym.openP | ")" => some .closeP | "+" => some .add | "-" => some .sub | "*" => some .mul
        | "/" => some .div | "mod" => some .mod | "^" => some .pow | "&" => some .bitAnd | "|" => some .bitOr
        | "xor" => some .bitXor | "<<" => some .shl | ">>" => some .shr | "nCr" => some .comb | "nPr" => some .perm
        | "!" => some .fact | "to" => some .conv | ":" => some .fn_ | "==" => some .eq2 | "!=" => some .ne
        | "=" => some .eq | ";" => some .semi | _ => none).map Fend.Parser.Tok.sym
    else none
  match toks.mapM tok with
  | none => "bad-op"
  | some ts =>
    match Fend.Parser.parse ts with
    | some e => "ok " ++ Fend.Parser.fmt e
    | none => "err"

/-- prefix form: `N p/q | U | V x | P e | G e | B op a b | L x body | A f a | S x e | Q a b` -/
def parseScopeExpr : Nat → List String → Option (Fend.Scope.Expr × List String)
  | 0, _ => none
  | fuel + 1, toks =>
    match toks with
    | "N" :: q :: rest => (parseQ q).map fun q => (.num q, rest)
    | "U" :: rest => some (.unitLit, rest)
    | "V" :: x :: rest => some (.var x, rest)
    | "P" :: rest => (parseScopeExpr fuel rest).map fun (e, r) => (.parens e, r)
    | "G" :: rest => (parseScopeExpr fuel rest).map fun (e, r) => (.neg e, r)
    | "B" :: op :: rest =>
      let op? : Option Fend.Scope.Op := match op with
        | "+" => some .add | "-" => some .sub | "*" => some .mul | "/" => some .div | _ => none
      match op?, parseScopeExpr fuel rest with
      | some op, some (a, r) => (parseScopeExpr fuel r).map fun (b, r') => (.bop op a b, r')
      | _, _ => none
    | "L" :: x :: rest => (parseScopeExpr fuel rest).map fun (e, r) => (.lam x e, r)
    | "A" :: rest =>
      match parseScopeExpr fuel rest with
      | some (f, r) => (parseScopeExpr fuel r).map fun (a, r') => (.app f a, r')
      | none => none
    | "S" :: x :: rest => (parseScopeExpr fuel rest).map fun (e, r) => (.assign x e, r)
    | "Q" :: rest =>
      match parseScopeExpr fuel rest with
      | some (a, r) => (parseScopeExpr fuel r).map fun (b, r') => (.seq a b, r')
      | none => none
    | _ => none

def scopeBuiltins : List (String × Rat) :=
  [("dozen", 12), ("gross", 144), ("hundred", 100), ("thousand", 1000), ("million", 1000000), ("score", 20)]

/-- inputs separated by ` ;; `, evaluated left to right in one context -/
def scopeLine (line : String) : String :=
  let inputs := line.trimAscii.toString.splitOn " ;; "
  let rec go (ins : List String) (vs : Fend.Scope.Vars) (acc : List String) : List String :=
    match ins with
    | [] => acc.reverse
    | i :: rest =>
      let toks := (i.splitOn " ").filter (!·.isEmpty)
      match parseScopeExpr (toks.length + 1) toks with
      | some (e, []) =>
        let (r, vs') := Fend.Scope.evalInput scopeBuiltins 20000 e vs
        let out := match r with
          | .ok (.num q) => "ok " ++ showRatQ q
          | .ok .unit => "ok ()"
          | .ok (.fn _ _ _) => "ok fn"
          | .error (.unknownIdent x) => "err unknown " ++ x
          | .error .divByZero => "err divByZero"
          | .error .notAFunction => "err notAFunction"
          | .error .badOperands => "err badOperands"
          | .error .fuel => "err fuel"
        go rest vs' (out :: acc)
      | _ => go rest vs ("bad-op" :: acc)
  " ;; ".intercalate (go inputs [] [])

/-- `sin <m>` | `cos <m>` (argument m·π/6, m an integer) | `from_f64 <bits of the magnitude>` -/
def elemLine (line : String) : String :=
  match line.trimAscii.toString.splitOn " " with
  | ["sin", m] => match m.toInt? with
    | some m => (match Fend.Elem.sinPi m with | some q => "exact " ++ showRatQ q | none => "approx")
    | none => "bad-op"
  | ["cos", m] => match m.toInt? with
    | some m => (match Fend.Elem.cosPi m with | some q => "exact " ++ showRatQ q | none => "approx")
    | none => "bad-op"
  | ["from_f64", b] => match b.toNat? with
    | some b => (match Fend.Elem.fromF64 b with | .ok q => "ok " ++ showRatQ q | .error _ => "err valueTooLarge")
    | none => "bad-op"
  | _ => "bad-op"

/-- `<polls of the uninterrupted run> <k|never> <stores before each poll, comma separated counts or ->`:
a synthetic trace with that many polls; the answer is the outcome, the polls made and the number of stores done -/
def intrLine (line : String) : String :=
  match line.trimAscii.toString.splitOn " " with
  | [n, k] =>
    match n.toNat? with
    | some n =>
      let fireAt := if k = "never" then n + 1 else k.toNat?.getD (n + 1)
      -- events after the poll that fires are never reached (`Fend.C07.fire_interrupts`): a trace cut two polls after it
      -- gives the same answer and keeps million-poll runs cheap
      let m := if fireAt < n then min n (fireAt + 2) else n
      let trace : List Fend.Intr.Ev := (List.range m).flatMap fun i => [.work 1, .poll, .store "v" (Int.ofNat i)]
      let (o, polls, vars, _) := Fend.Intr.run fireAt trace 0 []
      (match o with | .finished => "finished" | .interrupted => "interrupted") ++ s!" polls={polls} stores={vars.length}"
    | none => "bad-op"
  | _ => "bad-op"

partial def loop (h : IO.FS.Stream) (out : IO.FS.Stream) (f : String → String) : IO Unit := do
  let line ← h.getLine
  if line.isEmpty then return ()
  out.putStrLn (f line)
  loop h out f

def main (args : List String) : IO UInt32 := do
  let stdin ← IO.getStdin
  let stdout ← IO.getStdout
  match args with
  | ["biguint"] => loop stdin stdout biguintLine; return 0
  | ["bigrat"] => loop stdin stdout bigratLine; return 0
  | ["json"] => loop stdin stdout jsonLine; return 0
  | ["jsondec"] => loop stdin stdout jsonDecLine; return 0
  | ["inline"] => loop stdin stdout inlineLine; return 0
  | ["strlit"] => loop stdin stdout strlitLine; return 0
  | ["date"] => loop stdin stdout dateLine; return 0
  | ["intfn"] => loop stdin stdout intfnLine; return 0
  | ["serde"] => loop stdin stdout serdeLine; return 0
  | ["preview"] => loop stdin stdout previewLine; return 0
  | ["xrates"] => loop stdin stdout xratesLine; return 0
  | ["cliargs"] => loop stdin stdout cliargsLine; return 0
  | ["dist"] => loop stdin stdout distLine; return 0
  | ["unitlookup"] => loop stdin stdout unitLookupLine; return 0
  | ["units"] => loop stdin stdout unitsLine; return 0
  | ["ratfmt"] => loop stdin stdout ratfmtLine; return 0
  | ["roots"] => loop stdin stdout rootsLine; return 0
  | ["parse"] => loop stdin stdout parseLine; return 0
  | ["scope"] => loop stdin stdout scopeLine; return 0
  | ["elem"] => loop stdin stdout elemLine; return 0
  | ["intr"] => loop stdin stdout intrLine; return 0
  | ["numlit"] => loop stdin stdout numlitLine; return 0
  | ["clirun"] => loop stdin stdout clirunLine; return 0
  | _ => IO.eprintln "usage: fend_model_driver <stream>"; return 2
