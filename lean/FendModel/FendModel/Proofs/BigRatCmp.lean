/-
`Ord for BigRat` (sign of `self - other`): the order of the denoted rationals, for every representation.
-/
import FendModel.Proofs.BigRatField

namespace Fend
namespace BigRat
open BigUint

theorem valQ_sign (d : BigRat) (dd : val d.den ≠ 0) (hn : val d.num ≠ 0) :
    (d.neg = false → 0 < valQ d) ∧ (d.neg = true → valQ d < 0) := by
  have h1 : (0 : Rat) < ((val d.num : Nat) : Rat) := by exact_mod_cast Nat.pos_of_ne_zero hn
  have h2 : (0 : Rat) < ((val d.den : Nat) : Rat) := by exact_mod_cast Nat.pos_of_ne_zero dd
  constructor
  · intro h; simp only [valQ, h, Bool.false_eq_true, if_false, one_mul]; exact div_pos h1 h2
  · intro h; simp only [valQ, h, if_true]
    have : (-1 : Rat) * ((val d.num : Nat) : Rat) / ((val d.den : Nat) : Rat) = -(((val d.num : Nat) : Rat) / ((val d.den : Nat) : Rat)) := by ring
    rw [this]; exact neg_neg_of_pos (div_pos h1 h2)

/-- comparison of rationals is the comparison of the denoted values (and never the `unwrap` panic) -/
theorem cmp_valQ (a b : BigRat) (wa : WFQ a) (wb : WFQ b) (da : val a.den ≠ 0) (db : val b.den ≠ 0) :
    cmp a b = some (compare (valQ a) (valQ b)) := by
  obtain ⟨d, hd, hv, hw, hdd⟩ := add_valQ a (negate b) wa wb da db
  rw [negate_valQ] at hv
  have hsub : valQ d = valQ a - valQ b := by rw [hv]; ring
  have w0 : (small 0).WF := B_pos
  simp only [cmp, hd]
  congr 1
  by_cases hz : val d.num = 0
  · have hb : BigUint.beq d.num (small 0) = true := (beq_iff d.num _ hw.1 w0).mpr (by rw [hz]; rfl)
    have h0 : valQ d = 0 := (valQ_eq_zero_iff d hdd).mpr hz
    have : valQ a = valQ b := by rw [hsub] at h0; linarith
    rw [hb, this]; simp
  · have hb : BigUint.beq d.num (small 0) = false := by
      cases h : BigUint.beq d.num (small 0) with
      | false => rfl
      | true => exact absurd ((beq_iff d.num _ hw.1 w0).mp h) hz
    obtain ⟨hp, hn⟩ := valQ_sign d hdd hz
    rw [hb]
    cases hneg : d.neg with
    | false =>
      have : valQ b < valQ a := by have := hp hneg; rw [hsub] at this; linarith
      simp [compare_gt_iff_gt.mpr this]
    | true =>
      have : valQ a < valQ b := by have := hn hneg; rw [hsub] at this; linarith
      simp [compare_lt_iff_lt.mpr this]

end BigRat
end Fend
